#!/usr/bin/env python3
"""Writes corpus/Cnn/witnesses.case: the (minimised) inputs of every defect found so far, one program per line;
bin/check runs the corpus before the generated cases.  Run once by hand after a new finding; output is committed."""
import os, sys
sys.path.insert(0, os.path.join(os.path.dirname(os.path.abspath(__file__)), "..", "harness"))
from vlib import fin, zero, inf, B, Dv
ROOT = os.path.dirname(os.path.dirname(os.path.abspath(__file__)))
C = {}
def add(pid, comment, vars_, ops):
    C.setdefault(pid, []).append("# " + comment)
    C[pid].append(" ; ".join([v.item() for v in vars_] + ["O " + o for o in ops]))

# F1: divBasic add-back must wrap at 10^19: exact quotient q*y / y with runs of 9 in y
y = (B // 2) * B * B + (B - 1)              # words [B-1, 0, B/2]
q = (B - 1) * B + (B - 1)
for pid in ("C01", "C02", "C06x"):
    if pid == "C06x":
        continue
    for mode in (0, 3, 5):
        add(pid, "F1 exact quotient (q*y)/y, add-back path, mode %d" % mode,
            [zero(0, prec=38, mode=mode), fin(q * y, 0), fin(y, 0)], ["Quo 0 1 2"])
# F2: Sub(+-0, y) rounds after the sign is set
for pid in ("C01", "C02"):
    for mode in (4, 5):
        add(pid, "F2 Sub(0, 1.25) prec 2 mode %d" % mode, [zero(0, prec=2, mode=mode), zero(0, prec=5), fin(125, -2)], ["Sub 0 1 2"])
        add(pid, "F2 Sub(-0, 1.25) prec 2 mode %d" % mode, [zero(0, prec=2, mode=mode), zero(1, prec=5), fin(125, -2)], ["Sub 0 1 2"])
# F12 / F12b: zero sums under ToNegativeInf, every aliasing shape
for shape in ("0 1 2", "1 1 2", "2 1 2", "0 2 1", "1 2 1", "2 2 1"):
    add("C04", "F12 (+0)+(-0) ToNegativeInf shape " + shape, [zero(0, prec=3, mode=4), zero(0, prec=3, mode=4), zero(1, prec=3, mode=4)], ["Add " + shape])
    add("C04", "F12 (+0)-(+0) ToNegativeInf shape " + shape, [zero(0, prec=3, mode=4), zero(0, prec=3, mode=4), zero(0, prec=3, mode=4)], ["Sub " + shape])
# F3: FMA zero addend sign, z == u guard
for pid in ("C03", "C04"):
    add(pid, "F3 FMA(-0, 5, +0)", [zero(0, prec=5), zero(1, prec=5), fin(5, 0), zero(0, prec=5)], ["FMA 0 1 2 3"])
    add(pid, "F3 z=+Inf; z.FMA(2, 5, z)", [inf(0, prec=5), fin(2, 0), fin(5, 0)], ["FMA 0 1 2 0"])
    add(pid, "F19 FMA(1e1999999999, 1e1999999999, -Inf)", [zero(0, prec=3), Dv(1, 0, 2000000000, 1, 0, 0, [B // 10]), inf(1, prec=3)], ["FMA 0 1 1 2", "FMA 2 1 1 2"])
# K3 (known): product exponent out of int32 with a finite addend
add("C03", "K3 FMA(1e1073741824, 1e1073741823, -5e2147483646)",
    [zero(0, prec=5), Dv(1, 0, 1073741825, 1, 0, 0, [B // 10]), Dv(1, 0, 1073741824, 1, 0, 0, [B // 10]), Dv(1, 1, 2147483647, 1, 0, 0, [5 * (B // 10)])], ["FMA 0 1 2 3"])
# F6 / F7 / F10
for pid in ("C09", "C14"):
    add(pid, "F6 SetPrec(5).SetInt(0) keeps precision 5", [fin(7, 0, prec=5)], ["SetInt 0 0", "SetRat 0 0 1"])
for pid in ("C04", "C20"):
    add(pid, "F7 new(Decimal).SetBitsExp([1], 1)", [zero(0, prec=0)], ["SetBitsExp 0 1 1 1"])
for pid in ("C14", "C20"):
    add(pid, "F10 exponent arguments saturate", [zero(0, prec=0), fin(12345, 0)],
        ["NewDecimal 0 5 9223372036854775807", "NewDecimal 0 5 -9223372036854775808", "SetMantExp 0 1 9223372036854775807",
         "SetMantExp 0 1 -9223372036854775808", "SetBitsExp 0 -9223372036854775808 1 1", "SetBitsExp 0 9223372036854775807 1 1"])
# F8: GobDecode validation
for pid in ("C08", "C17"):
    add(pid, "F8 short / invalid buffers", [fin(5, 0, prec=7)],
        ["GobDecode 0 010203", "GobDecode 0 01", "GobDecode 0 -", "GobDecode 0 0106000000020000000a",
         "GobDecode 0 01020000000500000001ffffffffffffffff", "GobDecode 0 01e20000000500000001" + "%016x" % (B // 10)])
# C04a (seeded change): cancellation that underflows keeps the sign of the exact result
for mode in range(6):
    add("C04", "underflowing difference keeps its sign, mode %d" % mode,
        [zero(0, prec=5, mode=mode), Dv(1, 1, -2147483648, 2, 0, 0, [11 * (B // 100)]), Dv(1, 0, -2147483648, 2, 0, 0, [10 * (B // 100)])], ["Add 0 1 2", "Sub 0 2 1"])
for pid, lines in C.items():
    d = os.path.join(ROOT, "corpus", pid)
    os.makedirs(d, exist_ok=True)
    open(os.path.join(d, "witnesses.case"), "w").write("\n".join(lines) + "\n")
    print(pid, len(lines) // 2)
