#!/bin/bash
# Re-checks every compiled Props module (and everything it depends on) with the independent checker and records
# the axioms it reports.  Takes tens of minutes; run by hand once per tree: tools/coqchk.sh
cd /verif/coq || exit 1
mods=$(ls theories/Props/C*.v | sed 's#theories/Props/\(.*\)\.v#Dec.Props.\1#')
{ echo "# coqchk -silent -o on $(date -u +%FT%TZ), /verif commit $(git -C /verif rev-parse --short HEAD), /repo commit $(git -C /repo rev-parse --short HEAD)"; echo "# modules: $mods";
  /usr/bin/time -v coqchk -silent -o -Q theories Dec $mods 2>&1; echo "exit status: $?"; } > /verif/evidence/coqchk.txt
tail -30 /verif/evidence/coqchk.txt
