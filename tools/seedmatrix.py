#!/usr/bin/env python3
"""Prints the catch matrix of /verif/seeded as a markdown table."""
import json, glob, os
rows = []
for mp in sorted(glob.glob("/verif/seeded/*/meta.json")):
    m = json.load(open(mp))
    note = ""
    np_ = os.path.join(os.path.dirname(mp), "notes.md")
    if os.path.exists(np_):
        lines = [l.strip() for l in open(np_) if l.strip()]
        for l in lines:
            if l.lower().startswith(("change:", "**change", "- change", "* change")):
                note = l.split(":", 1)[1].strip(" *")
                break
        if not note and lines:
            note = lines[0].lstrip("# ").strip()
    q = m.get("runs", {}).get("quick", {}); t = m.get("runs", {}).get("thorough", {})
    cq = q.get("caught_by", []); ct = [p for p in t.get("caught_by", []) if p not in cq]
    own = m["property"]
    if m.get("harmless"):
        al = q.get("caught_by", [])
        rows.append("| %s | behaviour-preserving rewrite (suite passes: %s) | %s | %s | - | see DESIGN.md 11.5 |" % (m["id"], "yes" if m.get("confirmed") else "NO", "no alarm (correct)" if not al else "FALSE ALARM", " ".join(al) or "-"))
        continue
    if m.get("harmless_after"):
        rows.append("| %s | no longer breaks the property after %s (harmless-rewrite control) | no alarm (correct) | - | - | %s |" % (m["id"], m["harmless_after"], note[:160].replace("|", "/")))
        continue
    status = "quick" if own in cq else ("thorough" if own in ct else ("other checks only" if cq or ct else "MISSED"))
    rows.append("| %s | %s | %s | %s | %s | %s |" % (m["id"], "yes" if m.get("confirmed") else "NO", status, " ".join(cq) or "-", " ".join(ct) or "-", note[:160].replace("|", "/")))
print("| seed | confirmed | own check | caught by (quick) | additionally (thorough) | change |\n|---|---|---|---|---|---|")
print("\n".join(rows))
