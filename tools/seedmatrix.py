#!/usr/bin/env python3
"""Prints the catch matrix of /verif/seeded as a markdown table."""
import json, glob, os
rows = []
for mp in sorted(glob.glob("/verif/seeded/*/meta.json")):
    m = json.load(open(mp))
    note = ""
    np_ = os.path.join(os.path.dirname(mp), "notes.md")
    if os.path.exists(np_):
        for l in open(np_):
            if l.lower().startswith("change:"):
                note = l[7:].strip()
                break
    q = m.get("runs", {}).get("quick", {}); t = m.get("runs", {}).get("thorough", {})
    cq = q.get("caught_by", []); ct = [p for p in t.get("caught_by", []) if p not in cq]
    own = m["property"]
    status = "quick" if own in cq else ("thorough" if own in ct else ("other checks only" if cq or ct else "MISSED"))
    rows.append("| %s | %s | %s | %s | %s | %s |" % (m["id"], "yes" if m.get("confirmed") else "NO", status, " ".join(cq) or "-", " ".join(ct) or "-", note[:160].replace("|", "/")))
print("| seed | confirmed | own check | caught by (quick) | additionally (thorough) | change |\n|---|---|---|---|---|---|")
print("\n".join(rows))
