#!/usr/bin/env python3
"""asm2coq.py --repo /repo --out coq/theories/gen/AsmProgs.v

Line-oriented translator from the Plan 9 amd64 assembly of the decimal kernels
(dec_arith_amd64.s, all TEXT blocks; arith_amd64.s, the divWVW block only) to
Coq values of type `program` (L1/X86.v).

  * #define macros are expanded, // comments dropped;
  * labels are function-scoped and renamed 0,1,2.. in order of first appearance;
  * name+off(FP) operands become argument slots `Arg k`; name and offset are
    checked against the Go declaration of the function (as `go vet` does);
    loads may only touch parameters, stores only results;
  * a tail jump `JMP f(SB)` to another TEXT block of the file is resolved by
    appending a copy of f's body (linking), since frames are all $0;
  * `·sym(SB)` data references stay symbolic (`SymAddr Ssym`);
  * anything not recognised is a hard error (exit status 2), never skipped.

The output file is rewritten only when its content changes.
"""
import argparse, os, re, sys

REGS = ["AX", "BX", "CX", "DX", "SI", "DI", "R8", "R9", "R10", "R11", "R12", "R13", "R14"]
# mnemonic -> (number of operands, index of the written operand or None, reads dst?)
BIN = {"MOVQ", "MOVWLZX", "LEAQ", "ADDQ", "ADCQ", "SUBQ", "SBBQ", "ANDQ", "ORQ", "XORQ", "SHRQ", "SARQ", "RORW"}
CMP = {"TESTQ", "CMPQ"}
UN_W = {"NEGQ", "NOTQ"}
UN_R = {"MULQ", "DIVQ"}
JCC = {"JL", "JGE", "JLE", "JG", "JEQ", "JNE", "JCC"}
SYMS = {"pow10DivTab64": "Spow10DivTab64"}
DOT = "·"


class Err(Exception):
    pass


def fail(where, msg):
    raise Err("%s: %s" % (where, msg))


# ---------------------------------------------------------------------------
# Go declarations -> frame layout

def parse_decls(paths):
    """func name(params) (results) -> {name: {argname: (slot, 'arg'|'res')}, nargs, nres}"""
    out = {}
    for p in paths:
        for line in open(p, encoding="utf8"):
            m = re.match(r"\s*func\s+(\w+)\s*\(([^)]*)\)\s*(?:\(([^)]*)\))?\s*$", line)
            if not m:
                continue
            name, params, results = m.group(1), m.group(2), m.group(3) or ""
            slots, off = {}, 0

            def lay(lst, kind):
                nonlocal off
                items = [x.strip() for x in lst.split(",") if x.strip()]
                # group "z, x []Word" : names without a type take the next type
                names, typed = [], []
                for it in items:
                    t = it.split()
                    if len(t) == 1:
                        names.append(t[0])
                    elif len(t) == 2:
                        names.append(t[0])
                        for n in names:
                            typed.append((n, t[1]))
                        names = []
                    else:
                        fail(p, "cannot parse parameter list of %s" % name)
                if names:
                    fail(p, "untyped parameters in %s" % name)
                for n, ty in typed:
                    if ty in ("Word", "uint", "uintptr", "int"):
                        slots[n] = (off, kind)
                        off += 1
                    elif ty == "[]Word":
                        slots[n] = (off, kind)
                        slots[n + "_base"] = (off, kind)
                        slots[n + "_len"] = (off + 1, kind)
                        slots[n + "_cap"] = (off + 2, kind)
                        off += 3
                    else:
                        fail(p, "unsupported parameter type %s in %s" % (ty, name))

            lay(params, "arg")
            nargs = off
            lay(results, "res")
            out[name] = dict(slots=slots, nargs=nargs, nres=off - nargs)
    return out


# ---------------------------------------------------------------------------
# parsing

def parse_int(s, where):
    try:
        return int(s, 0)
    except ValueError:
        fail(where, "bad integer %r" % s)


def split_operands(s):
    # commas never occur inside an operand in this syntax subset
    return [x.strip() for x in s.split(",")] if s.strip() else []


def parse_operand(tok, where, fn, decls):
    """returns (coq_term, kind, info); kind in imm reg arg mem sym"""
    if tok.startswith("$"):
        return ("(Imm %s)" % coqz(parse_int(tok[1:], where)), "imm", None)
    if tok in REGS:
        return ("(Reg %s)" % tok, "reg", tok)
    m = re.fullmatch(r"(\w+)\+(\d+)\(FP\)", tok)
    if m:
        name, off = m.group(1), int(m.group(2))
        d = decls.get(fn)
        if d is None:
            fail(where, "no Go declaration for %s" % fn)
        if name not in d["slots"]:
            fail(where, "%s is not a parameter or result of %s" % (name, fn))
        slot, kind = d["slots"][name]
        if off != 8 * slot:
            fail(where, "%s+%d(FP): the Go declaration puts %s at offset %d" % (name, off, name, 8 * slot))
        return ("(Arg %d)" % slot, "arg", kind)
    m = re.fullmatch(DOT + r"(\w+)\(SB\)", tok)
    if m:
        if m.group(1) not in SYMS:
            fail(where, "unknown data symbol %s" % m.group(1))
        return ("(SymAddr %s)" % SYMS[m.group(1)], "sym", None)
    m = re.fullmatch(r"(-?\w*)\((\w+)\)(?:\((\w+)\*(\d+)\))?", tok)
    if m:
        disp = parse_int(m.group(1), where) if m.group(1) else 0
        base = m.group(2)
        if base not in REGS:
            fail(where, "bad base register %s" % base)
        if m.group(3):
            if m.group(3) not in REGS:
                fail(where, "bad index register %s" % m.group(3))
            sc = int(m.group(4))
            if sc not in (1, 2, 4, 8):
                fail(where, "bad scale %d" % sc)
            idx = "(Some (%s, %d))" % (m.group(3), sc)
        else:
            idx = "None"
        return ("(Mem %s %s %s)" % (coqz(disp), base, idx), "mem", None)
    fail(where, "unrecognised operand %r" % tok)


def coqz(n):
    return "(%d)" % n if n < 0 else "%d" % n


class Block:
    def __init__(self, name, exported, where):
        self.name, self.exported, self.where = name, exported, where
        self.items = []      # ("label", name) | ("ins", mnemonic, [coq operands]) | ("jmp", mnem, label) | ("tail", sym)
        self.tails = []


def parse_file(path, decls, only=None):
    macros = {}
    blocks = []
    cur = None
    for ln, raw in enumerate(open(path, encoding="utf8"), 1):
        where = "%s:%d" % (os.path.basename(path), ln)
        line = raw.split("//")[0].rstrip()
        if not line.strip():
            continue
        s = line.strip()
        if s.startswith("#include"):
            if s != '#include "textflag.h"':
                fail(where, "unsupported include")
            continue
        if s.startswith("#define"):
            t = s.split()
            if len(t) != 3:
                fail(where, "unsupported #define")
            macros[t[1]] = t[2]
            continue
        if s.startswith("#"):
            fail(where, "unsupported preprocessor line")
        m = re.fullmatch(r"TEXT\s+(%s?)(\w+)\(SB\)\s*,\s*NOSPLIT\s*,\s*\$0(?:-\d+)?" % DOT, s)
        if m:
            cur = Block(m.group(2), bool(m.group(1)), where)
            if only is not None and cur.name not in only:
                cur = "skip"
            else:
                blocks.append(cur)
            continue
        if s.startswith("TEXT"):
            if only is not None:
                # a TEXT line of a routine we do not translate, in a syntax we do not parse
                mm = re.match(r"TEXT\s+%s?(\w+)\(SB\)" % DOT, s)
                if mm and mm.group(1) not in only:
                    cur = "skip"
                    continue
            fail(where, "unsupported TEXT line")
        if cur is None:
            fail(where, "instruction outside a TEXT block")
        if cur == "skip":
            continue
        # label(s)
        m = re.match(r"(\w+):\s*(.*)$", s)
        if m:
            cur.items.append(("label", m.group(1), where))
            s = m.group(2).strip()
            if not s:
                continue
        m = re.match(r"(\w+)\s*(.*)$", s)
        if not m:
            fail(where, "cannot parse %r" % s)
        mn, rest = m.group(1), m.group(2)
        # macro expansion in the operand text
        for k, v in macros.items():
            rest = re.sub(r"(?<![\w])%s(?![\w])" % re.escape(k), v, rest)
        ops = split_operands(rest)
        fn = cur.name
        if mn == "RET":
            if ops:
                fail(where, "RET with operands")
            cur.items.append(("ins", "RET", [], where))
        elif mn == "JMP" or mn in JCC:
            if len(ops) != 1:
                fail(where, "%s needs one target" % mn)
            t = ops[0]
            mm = re.fullmatch(r"(\w+)\(SB\)", t)
            if mm:
                if mn != "JMP":
                    fail(where, "conditional tail jump")
                cur.items.append(("tail", mm.group(1), where))
                if mm.group(1) not in cur.tails:
                    cur.tails.append(mm.group(1))
            elif re.fullmatch(r"\w+", t):
                cur.items.append(("jmp", mn, t, where))
            else:
                fail(where, "bad jump target %r" % t)
        elif mn in BIN or mn in CMP:
            if len(ops) != 2:
                fail(where, "%s needs two operands" % mn)
            a = parse_operand(ops[0], where, fn, decls)
            b = parse_operand(ops[1], where, fn, decls)
            if a[1] == "sym" and mn != "LEAQ":
                fail(where, "data symbol outside LEAQ")
            if mn == "LEAQ" and a[1] not in ("mem", "sym"):
                fail(where, "LEAQ source must be a memory form")
            if b[1] == "sym":
                fail(where, "data symbol as destination")
            if a[1] == "arg" and a[2] != "arg":
                fail(where, "reads a result slot")
            if mn in BIN:
                if b[1] == "imm":
                    fail(where, "immediate destination")
                if b[1] == "arg":
                    if mn != "MOVQ":
                        fail(where, "read-modify-write of a frame slot")
                    if b[2] != "res":
                        fail(where, "writes an argument slot")
                if mn in ("SHRQ", "SARQ", "RORW") and not (a[1] == "imm" or (a[1] == "reg" and a[2] == "CX")):
                    fail(where, "shift count must be an immediate or CX")
                if mn in ("MOVWLZX", "LEAQ", "RORW") and b[1] != "reg":
                    fail(where, "%s destination must be a register" % mn)
            else:
                if b[1] == "arg" and b[2] != "arg":
                    fail(where, "reads a result slot")
            if a[1] == "mem" and b[1] == "mem":
                fail(where, "two memory operands")
            cur.items.append(("ins", mn, [a[0], b[0]], where))
        elif mn in UN_W or mn in UN_R:
            if len(ops) != 1:
                fail(where, "%s needs one operand" % mn)
            a = parse_operand(ops[0], where, fn, decls)
            if a[1] in ("sym",) or (mn in UN_W and a[1] in ("imm", "arg")) or (mn in UN_R and a[1] == "imm"):
                fail(where, "bad operand for %s" % mn)
            if a[1] == "arg" and a[2] != "arg":
                fail(where, "reads a result slot")
            cur.items.append(("ins", mn, [a[0]], where))
        else:
            fail(where, "unsupported mnemonic %s" % mn)
    return blocks


def link(block, allblocks):
    """own items followed by the bodies of tail-jump targets (transitively)."""
    seq = []      # (scope, item)
    entry = {}
    order = [block]
    seen = {block.name}
    i = 0
    while i < len(order):
        b = order[i]
        i += 1
        for t in b.tails:
            if t not in allblocks:
                fail(b.where, "tail jump to unknown TEXT block %s" % t)
            if allblocks[t].exported:
                fail(b.where, "tail jump to a Go-visible function %s (its frame would differ)" % t)
            if t not in seen:
                seen.add(t)
                order.append(allblocks[t])
    for b in order:
        if b is not block:
            seq.append((b.name, ("label", "<entry>", b.where)))
        for it in b.items:
            seq.append((b.name, it))
    return seq


def emit_program(block, allblocks):
    seq = link(block, allblocks)
    # label numbering by first appearance (definition or use)
    num = {}

    def lab(scope, name):
        k = (scope, name)
        if k not in num:
            num[k] = len(num)
        return num[k]

    defined = set()
    for scope, it in seq:
        if it[0] == "label":
            if (scope, it[1]) in defined:
                fail(it[2], "duplicate label %s" % it[1])
            defined.add((scope, it[1]))
    lines = []
    for scope, it in seq:
        if it[0] == "label":
            lines.append("LABEL %d" % lab(scope, it[1]))
        elif it[0] == "jmp":
            if (scope, it[2]) not in defined:
                fail(it[3], "undefined label %s" % it[2])
            lines.append("%s %d" % (it[1], lab(scope, it[2])))
        elif it[0] == "tail":
            lines.append("JMP %d" % lab(it[1], "<entry>"))
        else:
            lines.append(" ".join([it[1]] + it[2]))
    if not seq or seq[-1][1][0] not in ("ins", "jmp", "tail") or \
            (seq[-1][1][0] == "ins" and seq[-1][1][1] != "RET"):
        fail(block.where, "block %s does not end with RET or a jump" % block.name)
    return lines


def main():
    ap = argparse.ArgumentParser()
    ap.add_argument("--repo", default="/repo")
    ap.add_argument("--out", required=True)
    a = ap.parse_args()
    try:
        decls = parse_decls([os.path.join(a.repo, "dec_arith_decl.go"), os.path.join(a.repo, "arith_decl.go")])
        blocks = parse_file(os.path.join(a.repo, "dec_arith_amd64.s"), decls)
        blocks += parse_file(os.path.join(a.repo, "arith_amd64.s"), decls, only={"divWVW"})
        byname = {}
        for b in blocks:
            if b.name in byname:
                fail(b.where, "duplicate TEXT block %s" % b.name)
            byname[b.name] = b
        expected = ["mul10WW", "div10WW", "div10W", "add10VV", "sub10VV", "add10VW", "sub10VW", "decCpy",
                    "decCpyInv", "shl10VU", "shr10VU", "mulAdd10VWW", "addMul10VVW", "div10VWW", "divWVW"]
        for e in expected:
            if e not in byname:
                raise Err("TEXT block %s not found" % e)
        out = ["(* GENERATED by tools/asm2coq.py from dec_arith_amd64.s and arith_amd64.s (divWVW) - do not edit. *)",
               "From Dec Require Import L1.X86.", "Open Scope Z_scope.", ""]
        for b in blocks:
            if b.exported and b.name not in decls:
                fail(b.where, "no Go declaration for %s" % b.name)
            lines = emit_program(b, byname)
            out.append("Definition prog_%s : program :=\n  [ %s ]." % (b.name, ";\n    ".join(lines)))
            if b.exported:
                d = decls[b.name]
                out.append("Definition nargs_%s : Z := %d.\nDefinition nres_%s : Z := %d." % (b.name, d["nargs"], b.name, d["nres"]))
            out.append("")
        out.append("Definition all_progs : list program :=\n  [ %s ]." % "; ".join("prog_" + b.name for b in blocks))
        text = "\n".join(out) + "\n"
    except Err as e:
        sys.stderr.write("asm2coq: error: %s\n" % e)
        return 2
    try:
        if open(a.out, encoding="utf8").read() == text:
            return 0
    except OSError:
        pass
    os.makedirs(os.path.dirname(os.path.abspath(a.out)), exist_ok=True)
    with open(a.out, "w", encoding="utf8") as f:
        f.write(text)
    return 0


if __name__ == "__main__":
    sys.exit(main())
