#!/usr/bin/env python3
"""Regenerates /verif/MANIFEST.json from the table below."""
import json, os, subprocess
ROOT = os.path.dirname(os.path.dirname(os.path.abspath(__file__)))

CORR = ("the hand-written Coq model is executed (extracted OCaml + vm_compute sample) on the same generated programs as the real "
        "library and every projected observable is diffed; an independent exact-rational oracle judges the implementation's own outputs")

CLAIMED = {
 "C03": dict(
    category="proof",
    text="Coq theorems (Props/C03.v, closed under the global context): for finite operands FMA(x,y,u) is x*y+u as an exact rational "
         "rounded ONCE under result_spec (precision, mode, IEEE zero-sum sign, accuracy) whenever the exact product lies in the exponent "
         "range (sufficient: MinExp+1 <= exp x + exp y <= MaxExp) and a uint32 size bound (fma_span) holds - the theorem is instantiated "
         "on concrete operands in the file (C03_fma_instance) -, the zero-addend branch is Mul, and the result does not depend on "
         "aliasing flags. The model is tied to decimal.go by correspondence: " + CORR + " (all 15 aliasing shapes, "
         "comparison with Mul-then-Add). Known finding K3 (product exponent outside int32) is excluded by the theorem's hypothesis.",
    design_ref="DESIGN.md section 6 C03",
    note="K3 reported as KNOWN-FINDING; special-value rows of FMA are correspondence-only.",
    technique="Coq proof (Q-valued rounding spec) + model/code correspondence with exact-rational oracle"),
 "C09": dict(
    category="proof",
    text="Coq theorems (Props/C09.v): for EVERY operation of the store model, any variable that is not the receiver is returned "
         "unchanged in all fields (value, sign, precision, mode, accuracy); the receiver's precision is eff_prec (its own, or the "
         "largest operand precision when 0) and its mode is unchanged (AddPost/OpPost/SpecialPost conclusions for Add Sub Mul Quo Set "
         "SetPrec Neg Abs and the setters). The value-level model cannot express writes through shared buffers; that half is tied to "
         "the code by correspondence: " + CORR + " (every non-receiver variable compared with its previous full raw state after each "
         "step; documented precision/mode table per operation).",
    design_ref="DESIGN.md section 6 C09",
    note="Sqrt and float setters' attribute rows are correspondence-only.",
    technique="Coq proof on store model + model/code correspondence with a documented-attribute table"),
 "C10": dict(
    category="proof",
    text="Coq theorems (Props/C10.v, C10b.v): Add, Sub, Mul, Quo, FMA (all operand classes incl. zeros, infinities and ErrNaN "
         "outcomes), Set, Neg, Abs, SetInf, SetInt64, SetUint64, SetInt, SetRat, SetBitsExp, SetMantExp, Copy, MantExp give observationally "
         "equal results for any two receivers with the same precision and mode (previous value, form, sign, exponent, accuracy, mantissa "
         "are never read), FMA into a receiver aliasing the addend equals FMA into a fresh receiver, and the aliasing flags are "
         "irrelevant. The tie of that alias-free model to the code IS the buffer-level half of the property and is decided "
         "by correspondence over every aliasing shape (5 binary, 15 FMA, 2 unary) and receiver history (longer/shorter/special "
         "previous values, capacities, stale words): " + CORR + " plus a group judge comparing the implementation's results within "
         "each group of equivalent calls.",
    design_ref="DESIGN.md section 6 C10",
    note="Buffer-level independence (capacity, stale words, in-place word movement in the dec methods) is exercised, not proved.",
    technique="Coq proof of receiver independence on value-level model + exhaustive aliasing-shape correspondence"),
 "C05": dict(
    category="proof",
    text="Coq theorems (Props/C05.v, closed under the global context) on the model of the repaired Sqrt (fix c25a621; formerly known "
         "finding K1): Sqrt(+-0)=+-0, Sqrt(+Inf)=+Inf, negative operands raise ErrNaN for every receiver and aliasing; precision and "
         "mode of the receiver are unchanged; sqrtRound_correct: for ANY approximation on the working grid the correction loops and "
         "the final rounding return the square root of x rounded ONCE to p digits under the mode, with truthful accuracy (specified "
         "over Q through squares, no real numbers), whenever they return; lifted to Sqrt under the sole hypothesis that the Newton "
         "stage returned a canonical positive finite value below 10 (nothing about its accuracy). Loop fuel exhaustion is excluded "
         "by 'returns'. Tie to decimal_sqrt.go by correspondence: " + CORR + " (integer-square decider: any result other than the "
         "correctly rounded root is a VIOLATION).",
    design_ref="DESIGN.md sections 6 C05 and 11.3 (F20)",
    note="Sqrt_correct is named _partial: the Newton stage's canonicity (ApproxOK) is a hypothesis; float64 sqrt/div assumed IEEE (seed only).",
    technique="Coq proof of the correction step (result verified by exact squares) + model/code correspondence with integer-square oracle"),
 "C15": dict(
    category="other",
    text="Binary float conversions: Coq model of IEEE binary formats (L3/Bin.v), math/big.Float arithmetic as used (L3/Float.v) and "
         "SetFloat64/SetFloat/Float/Float64/Float32. Closed theorems (Props/C15.v): +-0/+-Inf/NaN rows, decoding of all 2^64 bit "
         "patterns, precision/mode attributes for all patterns; three refutation theorems with vm_compute witnesses show the "
         "nearest/accuracy/exactness clauses are false of the faithful model (known findings K2, K8). The quantitative clauses (<= 1 ulp, "
         "<= 32 ulps, nearest) are decided per input by an exact-rational oracle on the implementation's outputs; deviations must match a "
         "K2/K8 shape exactly (second rounding of the implementation's own 64-bit intermediate; one-ulp scale error) or are VIOLATIONs; "
         "model and code tied by correspondence: " + CORR + ".",
    design_ref="DESIGN.md section 6 C15",
    note="Assumes math/big.Float is correctly rounded and float64 arithmetic is IEEE. K2, K8 reported as KNOWN-FINDING.",
    technique="Coq executable model with refutation theorems + exact-rational oracle + model/code correspondence"),
 "C18": dict(
    category="other",
    text="Partial by nature: Coq theorems (Props/C18.v) prove for every interleaving of any number of threads and any collector "
         "activity that a pooled scratch buffer is held by at most one thread and never while pooled; with C09/C10 (operations "
         "write only their receiver) every schedule gives the sequential results at the model level. What no model can exhibit - "
         "the Go memory model, sync.Pool internals, real data races on words - is sampled by the runtime half: k in {2,8,32} "
         "goroutines over shared 40-260 word operands under GOMAXPROCS {1,4,16} with forced collections, every result compared "
         "with the sequential one and operands re-checked (the parallel phase also runs Sqrt, Text, MarshalText and Float64, which "
         "the L3 model does not have, against a sequential reference); the thorough tier repeats it under the Go race detector "
         "with the portable Go kernels (the detector cannot see the assembly kernels).",
    design_ref="DESIGN.md section 6 C18",
    note="Proof covers the ownership discipline only; data-race freedom of the real runtime is exploration (stated as such).",
    technique="Coq proof of pool ownership over all interleavings + concurrent differential runs (race detector in thorough)"),
 "C19": dict(
    category="proof",
    text="Coq theorems (Props/C19.v, closed under the global context) on the state-machine model of context.Context: over ALL "
         "sequences of latched operations, while an ErrNaN is pending every operation leaves the whole store and the context "
         "untouched; the first error wins; Err() reports it exactly once and re-arms; an outcome that is not an ErrNaN is never "
         "recorded; Add into a receiver distinct from its operands is the exact sum rounded once to the context's precision and "
         "mode whatever attributes the receiver had. The model is tied to context.go by correspondence: " + CORR + ".",
    design_ref="DESIGN.md section 6 C19",
    note="The rounding theorem is stated for Add (the other operations go through the same apply lemma); Context.Sqrt is modelled (CSqrt) and covered by the latch theorems.",
    technique="Coq proof by induction over operation sequences on a state-machine model + correspondence"),
 "C08": dict(
    category="proof",
    text="Coq theorems (Props/C08.v): the canonical-form invariant WF (leading digit non-zero, words < 10^19, no digit beyond the "
         "precision, exponent in range, zero/inf carry no mantissa constraints) is preserved by every valid operation and, by induction, "
         "by every finite program of valid operations from any canonical store, and none of them crashes. Props/C08b.v extends "
         "valid_op to ALL 35 operations of the store model (Sub, FMA - also when the product leaves the exponent range -, SetRat, MantExp, "
         "Gob decoding of arbitrary bytes, Gob round trip): the only preconditions are documented contracts and uint32 size bounds. "
         "Sqrt and the float setters live in a second model and are covered by the run: " + CORR + ", with the canonical-form predicate "
         "evaluated on the implementation's raw mantissa words after every step of random programs (incl. corrupted Gob input) and "
         "on the receivers of SetFloat64/SetFloat/Sqrt through the float driver.",
    design_ref="DESIGN.md section 6 C08",
    note="Program-level theorem for every operation of the L3 store model; Sqrt/SetFloat*/Parse results are canonical by their own theorems (C05, C12) or by exploration (C15).",
    technique="Coq proof by induction over operation sequences + model/code correspondence on random programs"),
 "C11": dict(
    category="proof",
    text="Coq theorems in Props/C11.v over the L4 text models (digit string of the mantissa, round trip for the formats listed "
         "there); remaining formats are decided by correspondence: " + CORR + " (parse-back equality and exact MinPrec digit count).",
    design_ref="DESIGN.md section 6 C11",
    note="See Props/C11.v for the closed theorems and the list of statements that are correspondence-only.",
    technique="Coq proof on text-codec model + model/code correspondence with round-trip oracle"),
 "C12": dict(
    category="proof",
    text="Coq theorems in Props/C12.v: totality of the parser model (no crash, no Decimal on error, all byte strings, all bases) "
         "and the theorems listed there; base-10 exactness and acceptance are additionally decided by correspondence: " + CORR +
         " and math/big's Float.Parse as acceptance oracle.",
    design_ref="DESIGN.md section 6 C12",
    note="Known finding K7 (binary-exponent literals go through a rounded 2**n). See Props/C12.v for what is closed.",
    technique="Coq proof of parser totality/exactness on the model + correspondence with big.Float.Parse and exact-rational oracles"),
 "C13": dict(
    category="proof",
    text="Coq theorems in Props/C13.v on the formatting model (layout lemmas listed there); digits/layout against strconv/fmt are "
         "decided by correspondence: " + CORR + " plus strconv.FormatFloat/fmt.Sprintf on exactly representable values.",
    design_ref="DESIGN.md section 6 C13",
    note="Known findings K5 (%+v) and K6 (rounding for output past MaxExp). See Props/C13.v for what is closed.",
    technique="Coq proof of layout lemmas on the model + correspondence with strconv/fmt oracles"),
 "C14": dict(
    category="proof",
    text="Coq theorems (Props/C14.v, closed under the global context): SetInt64, SetUint64, NewDecimal (for EVERY integer exponent, "
         "saturating to +-0/+-Inf outside the range), SetInt (precision 0 becomes max(#digits, 34), so integers are stored exactly) "
         "store the argument rounded once per the rational specification with a canonical receiver; Int truncates toward zero with "
         "Exact iff nothing is discarded, else the sign of the discarded part; Rat returns exactly x in lowest terms; MinPrec is the "
         "number of significant digits; Int64/Uint64 are the truncation saturated at the type bounds with the documented accuracy; "
         "IsInt is true exactly for integer values; SetRat is num/den rounded once (precision 0 becomes max(34, digits)). The model "
         "is tied to the code by correspondence: " + CORR + " (out-parameters of Int/Rat are also passed in dirty, reused state).",
    design_ref="DESIGN.md section 6 C14",
    note="As C01. big.Int/big.Rat arguments are mathematical integers in the model; SetInt's float64 digit estimate is assumed never to under-estimate (argued in L3/Convert.v).",
    technique="Coq proof of setter/getter models vs rational specification + correspondence with exact-rational oracle"),
 "C17": dict(
    category="proof",
    text="Coq theorems (Props/C17.v, closed under the global context) on the byte-level model of GobEncode/GobDecode: for EVERY "
         "canonical x, decoding its encoding into a fresh Decimal succeeds and gives a canonical value observationally equal to x "
         "(form, sign, precision, mode, accuracy, exponent, digits; identical when the mantissa has no spare low words); decoding "
         "into a receiver with non-zero precision keeps that precision and mode and holds the decoded value rounded once; for "
         "EVERY byte string decoding never panics, leaves the receiver untouched on error, and otherwise yields a canonical value. "
         "The model is tied to decimal_marsh.go by correspondence: " + CORR + " (byte-identical encodings, every single-byte "
         "mutation, truncations and random byte strings).",
    design_ref="DESIGN.md section 6 C17",
    note="Side condition of the totality theorem: buffers shorter than 2^30 bytes when the receiver has a non-zero precision (uint32 digit arithmetic in round). encoding/gob framing is not modelled.",
    technique="Coq proof of round trip and decoder totality on a byte-level model + correspondence over corrupted streams"),
 "C20": dict(
    category="proof",
    text="Coq theorems (Props/C20.v, closed under the global context): SetBitsExp(mant, exp) for ANY slice of words below the base "
         "and EVERY integer exponent stores 0.mant x 10^exp rounded once (precision 0 becomes the slice's digit capacity; all-zero "
         "slices give 0); BitsExp denotes exactly the magnitude; MantExp splits x into mant in [0.1,1) and exp with x = mant x 10^exp; "
         "SetMantExp(mant, e) for every integer e is mant x 10^e with mant's precision and mode, +-0/+-Inf exactly when the exponent "
         "leaves the range; SetMantExp(MantExp) rebuilds exactly x. Tied to the code by correspondence: " + CORR + ".",
    design_ref="DESIGN.md section 6 C20",
    note="As C01; SetBitsExp's contract (words below 10^19, caller does not share the buffer) is a hypothesis.",
    technique="Coq proof vs rational specification for all exponents + correspondence with exact-rational oracle"),
 "C04": dict(
    category="proof",
    text="Coq theorems (Props/C04.v, closed under the global context): for ALL operands, the model of Add/Sub/Mul/Quo raises "
         "ErrNaN exactly on the invalid operations (Inf-Inf, 0*Inf, 0/0, Inf/Inf), otherwise returns what the IEEE-754 tables "
         "prescribe for zero/infinite operands (signs by XOR, x/0 and Inf*x infinite, x/Inf zero, exact zero sums +0 or -0 under "
         "ToNegativeInf, (-0)+(-0) = -0), leaves a canonical receiver also after ErrNaN, and never panics otherwise (CrashR "
         "unreachable for canonical operands); the FMA table (product table followed by sum table, ErrNaN iff 0*Inf or Inf-Inf) "
         "likewise. Sqrt(negative) and SetFloat64(NaN) are theorems of Props/C05.v / C15.v. All rows are additionally decided on the "
         "code by the correspondence run and an independent class table in the harness, exhaustive over operand classes x modes x aliasing.",
    design_ref="DESIGN.md section 6 C04",
    note="As C01; FMA with finite x,y of overflowing product and infinite u is excluded by hypothesis (see known_findings K3/F19); FMA no-other-panic theorem not assembled.",
    technique="Coq proof of the special-value tables and absence of other panics + exhaustive class-table correspondence"),
 "C06": dict(
    category="proof",
    text="Coq theorems (Props/C06.v and C06b.v, all closed): the algorithmic models of decBasicMul, Karatsuba (incl. the deliberately dropped "
         "carries), mul, basicSqr, karatsubaSqr, sqr, divW, divBasic (Knuth D with the two-word quotient-digit refinement and the "
         "wrapping add-back) and divLarge's normalisation equal the value-level product/square/quotient/remainder for ALL "
         "lengths, contents and threshold values; divRecursive / divRecursiveStep (divisors of 100+ words) return u = q*v + r with "
         "0 <= r < v for every recursion depth, so div equals (u/v, u mod v) for ALL divisor lengths, for every Karatsuba threshold "
         ">= 1 and every recursive-division threshold >= 4 (the shipped 100 is checked against the regenerated constant). Proving "
         "this exposed defect F21 (final shift B instead of B-1; Quo panicked), repaired in /repo; the unrepaired step is refuted "
         "by a kernel-computed witness in the same file. "
         "The models are tied to dec.go by a differential run through build-tag hooks with swept thresholds and a poisoned "
         "scratch pool.",
    design_ref="DESIGN.md section 6 C06",
    note="Trusted: Coq kernel; hand-written L2 models validated by differential runs (ndriver/nrunner); word kernels taken at "
         "value level (C07). shl/shr/digit/sticky and the radix conversions are correspondence-only; one slice-capacity side condition of decAddAt in the blocks loop is argued on paper only.",
    technique="Coq proof of algorithmic = value-level natural-number routines for all sizes/thresholds + correspondence"),
 "C07": dict(
    category="proof",
    text="Coq theorems (Props/C07.v): the Gallina mirrors of the portable *_g kernels (explicit uint64 wrap-around, "
         "Granlund-Montgomery div10W, magic-number division over the generated table) equal the mathematical kernel "
         "specifications for all lengths and contents, and for ALL fourteen assembly routines (add10VW/sub10VW in Props/C07b.v, "
         "including the 2^64 hardware-carry fold and the tail-jump into the copy loop) running the instruction list that "
         "tools/asm2coq.py regenerates from dec_arith_amd64.s in the Coq x86-64 interpreter yields the same carry/borrow/remainder "
         "and memory for all inputs; the digit helpers (decDigits64, nlz10, trailingZeroDigits) are tied by correspondence only. "
         "Every kernel is additionally decided by correspondence: interpreter-on-generated-program vs the real CPU vs the _g twin vs the specification, plus "
         "whole-library transcripts under the three build-tag configurations.",
    design_ref="DESIGN.md section 6 C07",
    note="Trusted: Coq kernel; asm2coq/go2coq translators; the x86-64 subset semantics of L1/X86.v (validated only against the "
         "real CPU on these routines); Go assembler encoding. See Props/C07.v for which kernels are proved at which level.",
    technique="Coq proof over translator-generated assembly and Go-kernel models + CPU/_g/spec correspondence"),
 "C01": dict(
    category="proof",
    text="Coq theorems (Props/C01.v, all closed under the global context) prove for ALL canonical finite operands, receiver "
         "precisions, modes and aliasing flags that the model's Add, Sub, Mul, Quo, Set, SetPrec, Neg, Abs return exactly the "
         "value prescribed by the rational specification Spec/Rounding.v: the exact result rounded once to p digits "
         "(relation Rounds, proved functional), +-0 below 10^(MinExp-1), +-Inf when the rounded magnitude reaches 10^MaxExp, "
         "IEEE sign for exact zero sums, and a canonical receiver. The core is round_correct (L3/RoundProofs.v): the model of "
         "Decimal.round (rounding digit, sticky bit, word cut, carry into the exponent) meets the specification. The model "
         "mirrors decimal.go statement by statement above the natural-number layer and is tied to the code on every run by "
         "executing generated programs on the real library, the extracted model and vm_compute, plus an independent "
         "exact-rational oracle on the implementation's outputs.",
    design_ref="DESIGN.md section 6 C01",
    note="Trusted: Coq kernel + vm_compute; hand-written model (decimal.go round/setExpAndRound/uadd/usub/umul/uquo/Set/SetPrec) "
         "validated by differential runs; natural-number routines taken at value level (their correctness is C06/C07); "
         "hypotheses: canonical operands (C08) and digit spans below 2^32-18 (uint32 digit arithmetic in round). No axioms.",
    technique="Coq proof that the model meets a rational rounding specification + model/code correspondence check"),
 "C02": dict(
    category="proof",
    text="Coq theorems (Props/C02.v, closed under the global context): for every result satisfying the C01 specification the "
         "accuracy equals the sign of (stored value - exact value), infinities and underflowed zeros included, and is Exact "
         "iff the stored value equals the exact one; instantiated for Add, Sub, Mul, Quo, Set, SetPrec for all canonical "
         "finite operands. Tied to the code by the same correspondence run as C01 and an exact-rational oracle that "
         "recomputes the accuracy of every implementation result.",
    design_ref="DESIGN.md section 6 C02",
    note="As C01. The setters SetInt/SetInt64/SetUint64/SetRat/SetMantExp/NewDecimal and Parse are covered by C14/C20/C12 "
         "theorems where proved and by correspondence otherwise.",
    technique="Coq proof (accuracy = sign of rounding error) + model/code correspondence check"),
 "C16": dict(
    category="proof",
    text="Coq theorems (Props/C16.v, closed under the global context) prove for ALL well-formed operands that the model of Cmp "
         "returns the sign of the exact rational difference (infinities bottom/top, -0 = +0), independent of precision, mode, "
         "accuracy and mantissa length, with antisymmetry, transitivity, totality and consistency of Sign/Signbit/IsZero/IsInf. "
         "The model (word loop of ucmp with zero padding, ord) is hand-written and tied to the code on every run by executing "
         "generated programs on the real library, the extracted OCaml model and vm_compute inside Coq.",
    design_ref="DESIGN.md section 6 C16",
    note="Trusted: Coq kernel + vm_compute; hand-written model of Cmp/ord/ucmp validated by differential runs; extraction "
         "(ExtrOcamlBasic, ExtrOcamlZBigInt, zarith) for the bulk comparison only. No axioms.",
    technique="Coq proof of model vs rational order + model/code correspondence check"),
}

ALL = ["C%02d" % i for i in range(1, 21)]
NOT_YET = "check not built yet in this session (work in progress; the property is within reach of the technique, see DESIGN.md section 6)"

def main():
    commits = subprocess.run(["git", "-C", "/repo", "log", "--format=%H %s"], capture_output=True, text=True).stdout.strip().split("\n")
    hook_commits = [c.split()[0] for c in commits if " verif:" in c]
    checks = []
    for pid in ALL:
        if pid not in CLAIMED:
            continue
        c = CLAIMED[pid]
        checks.append(dict(
            property_id=pid,
            quick_cmd="bin/check %s --tier quick" % pid,
            thorough_cmd="bin/check %s --tier thorough" % pid,
            evidence_file="/verif/evidence/%s.json" % pid,
            replay_cmd_template="bin/check %s --replay {path}" % pid,
            engine="coq-model-correspondence",
            level_claimed=dict(category=c["category"], text=c["text"], design_ref=c["design_ref"]),
            level_note=c["note"],
            technique=c["technique"]))
    m = dict(
        version=1,
        setup_cmd="bin/setup",
        hooks=dict(guard="verif", enable="go build -tags verif (harness/driver uses replace github.com/db47h/decimal => /repo)",
                   baseline_off_cmd="cd /repo && go test -mod=mod -vet=off -count=1 -timeout 25m ./...",
                   source_commits=hook_commits, add_only=True),
        engines=[dict(name="coq-model-correspondence", path="/verif/coq + /verif/harness",
                      serves_properties=sorted(CLAIMED),
                      kind_free_text="Coq 8.16.1 development (model + theorems) with translators and a differential correspondence "
                                     "check (Go driver built from /repo vs extracted OCaml model vs vm_compute)")],
        checks=checks,
        notes="See DESIGN.md. Known findings: /verif/known_findings.json.",
        not_applicable=[dict(property_id=p, reason=NOT_YET) for p in ALL if p not in CLAIMED],
    )
    json.dump(m, open(os.path.join(ROOT, "MANIFEST.json"), "w"), indent=1)

if __name__ == "__main__":
    main()
