#!/usr/bin/env python3
"""Regenerates /verif/MANIFEST.json from the table below."""
import json, os, subprocess
ROOT = os.path.dirname(os.path.dirname(os.path.abspath(__file__)))

CLAIMED = {
 "C16": dict(
    category="proof",
    text="Coq theorems (Props/C16.v, closed under the global context) prove for ALL well-formed operands that the model of Cmp "
         "returns the sign of the exact rational difference (infinities bottom/top, -0 = +0), independent of precision, mode, "
         "accuracy and mantissa length, with antisymmetry, transitivity, totality and consistency of Sign/Signbit/IsZero/IsInf. "
         "The model (word loop of ucmp with zero padding, ord) is hand-written and tied to the code on every run by executing "
         "generated programs on the real library, the extracted OCaml model and vm_compute inside Coq.",
    design_ref="DESIGN.md section 6 C16",
    note="Trusted: Coq kernel + vm_compute; hand-written model of Cmp/ord/ucmp validated by differential runs; extraction "
         "(ExtrOcamlBasic, ExtrOcamlZBigInt, zarith) for the bulk comparison only. No axioms.",
    technique="Coq proof of model vs rational order + model/code correspondence check"),
}

ALL = ["C%02d" % i for i in range(1, 21)]
NOT_YET = "check not built yet in this session (work in progress; the property is within reach of the technique, see DESIGN.md section 6)"

def main():
    commits = subprocess.run(["git", "-C", "/repo", "log", "--format=%H %s"], capture_output=True, text=True).stdout.strip().split("\n")
    hook_commits = [c.split()[0] for c in commits if " verif:" in c]
    checks = []
    for pid in ALL:
        if pid not in CLAIMED:
            continue
        c = CLAIMED[pid]
        checks.append(dict(
            property_id=pid,
            quick_cmd="bin/check %s --tier quick" % pid,
            thorough_cmd="bin/check %s --tier thorough" % pid,
            evidence_file="/verif/evidence/%s.json" % pid,
            replay_cmd_template="bin/check %s --replay {path}" % pid,
            engine="coq-model-correspondence",
            level_claimed=dict(category=c["category"], text=c["text"], design_ref=c["design_ref"]),
            level_note=c["note"],
            technique=c["technique"]))
    m = dict(
        version=1,
        setup_cmd="bin/setup",
        hooks=dict(guard="verif", enable="go build -tags verif (harness/driver uses replace github.com/db47h/decimal => /repo)",
                   baseline_off_cmd="cd /repo && go test -mod=mod -vet=off -count=1 -timeout 25m ./...",
                   source_commits=hook_commits, add_only=True),
        engines=[dict(name="coq-model-correspondence", path="/verif/coq + /verif/harness",
                      serves_properties=sorted(CLAIMED),
                      kind_free_text="Coq 8.16.1 development (model + theorems) with translators and a differential correspondence "
                                     "check (Go driver built from /repo vs extracted OCaml model vs vm_compute)")],
        checks=checks,
        notes="See DESIGN.md. Known findings: /verif/known_findings.json.",
        not_applicable=[dict(property_id=p, reason=NOT_YET) for p in ALL if p not in CLAIMED],
    )
    json.dump(m, open(os.path.join(ROOT, "MANIFEST.json"), "w"), indent=1)

if __name__ == "__main__":
    main()
