#!/usr/bin/env python3
"""seedtest.py <seed dir> [--checks C01,C02|all] [--tier quick|thorough] [--store]
Confirms a seeded change (patch.diff + demo_test.go), applies it to /repo, runs the registered
checks against it, reverts, and (with --store) files it under /verif/seeded/<id>/ with a
meta.json recording which checks reported a VIOLATION.  Never commits in /repo."""
import sys, os, subprocess, json, re, shutil, time, concurrent.futures as cf
ROOT = "/verif"; REPO = "/repo"
ENV = dict(os.environ, GOFLAGS="-mod=mod", GOPROXY="off", GOSUMDB="off", GOTOOLCHAIN="local")
def sh(cmd, cwd=REPO, timeout=1800):
    p = subprocess.run(cmd, shell=True, cwd=cwd, env=ENV, stdout=subprocess.PIPE, stderr=subprocess.STDOUT, text=True, timeout=timeout)
    return p.returncode, p.stdout
def clean():
    rc, out = sh("git status --porcelain")
    return out.strip() == ""
def demo(seed):
    src = open(os.path.join(seed, "demo_test.go")).read()
    pkg = re.search(r"^package (\w+)", src, re.M).group(1)
    sub = "context" if pkg.startswith("context") else "."
    tests = re.findall(r"^func (Test\w+)\(", src, re.M)
    dst = os.path.join(REPO, sub, "zz_seeded_demo_test.go")
    open(dst, "w").write(src)
    try:
        tags = "-tags verif " if re.search(r"^//go:build .*verif", src, re.M) else ""
        rc, out = sh("go test %s-vet=off -count=1 -run '^(%s)$' ." % (tags, "|".join(tests)), cwd=os.path.join(REPO, sub), timeout=900)
    finally:
        os.remove(dst)
    return rc, out
def run_check(pid, tier):
    t = time.time()
    try:
        rc, out = sh("bin/check %s --tier %s" % (pid, tier), cwd=ROOT, timeout=7200)
    except subprocess.TimeoutExpired:
        rc, out = 124, "timeout"
    viol = [l for l in out.splitlines() if l.startswith("VIOLATION")]
    return pid, dict(rc=rc, violation=viol[:3], seconds=round(time.time() - t, 1), tail=out.splitlines()[-1:] )
def main():
    a = sys.argv[1:]; seed = a[0].rstrip("/"); sid = os.path.basename(seed)
    checks = "all"; tier = "quick"; store = "--store" in a; harmless = "--harmless" in a
    if "--checks" in a: checks = a[a.index("--checks") + 1]
    if "--tier" in a: tier = a[a.index("--tier") + 1]
    man = json.load(open(os.path.join(ROOT, "MANIFEST.json")))
    allp = sorted(c["property_id"] if "property_id" in c else c["id"] for c in man["checks"]) if "checks" in man else []
    plist = allp if checks == "all" else checks.split(",")
    res = dict(id=sid, property=sid[:3], tier=tier)
    assert clean(), "/repo not clean"
    try:
        rc, out = sh("git apply %s" % os.path.join(seed, "patch.diff")); assert rc == 0, out
        rc, out = sh("go build ./... && go test -vet=off -count=1 ./...", timeout=2400)
        res["suite_passes_with_change"] = (rc == 0)
        if rc != 0: res["suite_output"] = out[-1500:]
        if harmless:
            res["demo_fails_with_change"] = None
        else:
            rc, out = demo(seed); res["demo_fails_with_change"] = (rc != 0)
            res["demo_output"] = out[-600:]
        with cf.ThreadPoolExecutor(max_workers=6) as ex:
            res["checks"] = dict(ex.map(lambda p: run_check(p, tier), plist))
    finally:
        sh("git checkout -- . && git clean -fdq -e verif_hooks.go")
    assert clean(), "/repo not clean after revert"
    if harmless:
        res["demo_passes_without_change"] = None
    else:
        rc, out = demo(seed); res["demo_passes_without_change"] = (rc == 0)
    res["caught_by"] = sorted(p for p, r in res["checks"].items() if r["rc"] == 1 and r["violation"])
    res["broken_checks"] = sorted(p for p, r in res["checks"].items() if r["rc"] not in (0, 1) or (r["rc"] == 1 and not r["violation"]))
    print(json.dumps(dict(id=sid, ok_seed=res["suite_passes_with_change"] and res["demo_fails_with_change"] and res["demo_passes_without_change"],
                          caught_by=res["caught_by"], broken=res["broken_checks"])))
    if harmless:
        print(json.dumps(dict(id=sid, harmless=True, suite_passes=res["suite_passes_with_change"], alarms=res["caught_by"], broken=res["broken_checks"])))
        d = os.path.join(ROOT, "seeded", sid)
        json.dump(dict(id=sid, property="H", harmless=True, confirmed=res["suite_passes_with_change"], runs={tier: res}), open(os.path.join(d, "meta.json"), "w"), indent=1)
        return
    if store:
        d = os.path.join(ROOT, "seeded", sid); os.makedirs(d, exist_ok=True)
        for f in ("patch.diff", "demo_test.go"):
            if os.path.abspath(os.path.join(seed, f)) != os.path.abspath(os.path.join(d, f)): shutil.copy(os.path.join(seed, f), d)
        if os.path.exists(os.path.join(seed, "notes.md")): shutil.copy(os.path.join(seed, "notes.md"), d)
        old = {}
        mp = os.path.join(d, "meta.json")
        if os.path.exists(mp): old = json.load(open(mp))
        old.setdefault("runs", {})[tier] = res
        old.update(id=sid, property=sid[:3], confirmed=res["suite_passes_with_change"] and res["demo_fails_with_change"] and res["demo_passes_without_change"])
        json.dump(old, open(mp, "w"), indent=1)
main()
