// go2coq: emits the numeric constants and tables of the decimal package as Coq
// definitions (gen/Consts.v, gen/Tables.v).  Everything is obtained BY VALUE
// from go/types constant evaluation of the type-checked package (default
// build context of the host, i.e. amd64 without extra tags), so comments,
// layout and spelling of the Go source are irrelevant.  Standard library only.
package main

import (
	"bytes"
	"flag"
	"fmt"
	"go/ast"
	"go/build"
	"go/constant"
	"go/importer"
	"go/parser"
	"go/token"
	"go/types"
	"io/ioutil"
	"math/big"
	"os"
	"path/filepath"
	"strings"
)

var (
	fset = token.NewFileSet()
	info = &types.Info{
		Types: map[ast.Expr]types.TypeAndValue{},
		Defs:  map[*ast.Ident]types.Object{},
		Uses:  map[*ast.Ident]types.Object{},
	}
	files []*ast.File
	pkg   *types.Package
)

func die(f string, a ...interface{}) {
	fmt.Fprintf(os.Stderr, "go2coq: "+f+"\n", a...)
	os.Exit(1)
}

func zlit(v constant.Value) string {
	v = constant.ToInt(v)
	if v.Kind() != constant.Int {
		die("not an integer constant: %v", v)
	}
	s := v.ExactString()
	if strings.HasPrefix(s, "-") {
		return "(" + s + ")"
	}
	return s
}

// package-level constant by name
func pkgConst(name string) constant.Value {
	o := pkg.Scope().Lookup(name)
	c, ok := o.(*types.Const)
	if !ok {
		die("constant %s not found", name)
	}
	return c.Val()
}

// initial value expression of a package-level variable
func varInit(name string) ast.Expr {
	for _, f := range files {
		for _, d := range f.Decls {
			gd, ok := d.(*ast.GenDecl)
			if !ok || gd.Tok != token.VAR {
				continue
			}
			for _, s := range gd.Specs {
				vs := s.(*ast.ValueSpec)
				for i, id := range vs.Names {
					if id.Name == name {
						if i >= len(vs.Values) {
							die("variable %s has no initialiser", name)
						}
						return vs.Values[i]
					}
				}
			}
		}
	}
	die("variable %s not found", name)
	return nil
}

func constOf(e ast.Expr) constant.Value {
	tv, ok := info.Types[e]
	if !ok || tv.Value == nil {
		die("%s: expression is not a compile-time constant", fset.Position(e.Pos()))
	}
	return tv.Value
}

// elements of an array/slice composite literal, honouring index keys
func arrayElems(e ast.Expr) []ast.Expr {
	cl, ok := e.(*ast.CompositeLit)
	if !ok {
		die("%s: not a composite literal", fset.Position(e.Pos()))
	}
	var out []ast.Expr
	idx := 0
	for _, el := range cl.Elts {
		if kv, ok := el.(*ast.KeyValueExpr); ok {
			k, exact := constant.Int64Val(constant.ToInt(constOf(kv.Key)))
			if !exact {
				die("bad index key")
			}
			idx = int(k)
			el = kv.Value
		}
		for len(out) <= idx {
			out = append(out, nil)
		}
		out[idx] = el
		idx++
	}
	return out
}

func intList(name string) []string {
	var out []string
	for _, el := range arrayElems(varInit(name)) {
		if el == nil {
			out = append(out, "0")
		} else {
			out = append(out, zlit(constOf(el)))
		}
	}
	return out
}

// struct composite literal -> field values in declaration order
func structFields(e ast.Expr, st *types.Struct) []string {
	cl, ok := e.(*ast.CompositeLit)
	if !ok {
		die("%s: not a struct literal", fset.Position(e.Pos()))
	}
	vals := make([]string, st.NumFields())
	for i := range vals {
		vals[i] = "0"
	}
	for i, el := range cl.Elts {
		if kv, ok := el.(*ast.KeyValueExpr); ok {
			name := kv.Key.(*ast.Ident).Name
			found := false
			for j := 0; j < st.NumFields(); j++ {
				if st.Field(j).Name() == name {
					vals[j] = zlit(constOf(kv.Value))
					found = true
				}
			}
			if !found {
				die("unknown field %s", name)
			}
		} else {
			vals[i] = zlit(constOf(el))
		}
	}
	return vals
}

// constants declared inside a function body
func localConsts(fn string) map[string]constant.Value {
	out := map[string]constant.Value{}
	for _, f := range files {
		for _, d := range f.Decls {
			fd, ok := d.(*ast.FuncDecl)
			if !ok || fd.Name.Name != fn || fd.Recv != nil || fd.Body == nil {
				continue
			}
			ast.Inspect(fd.Body, func(n ast.Node) bool {
				if id, ok := n.(*ast.Ident); ok {
					if c, ok := info.Defs[id].(*types.Const); ok {
						out[id.Name] = c.Val()
					}
				}
				return true
			})
			return out
		}
	}
	die("function %s not found", fn)
	return nil
}

func writeIfChanged(path string, content []byte) {
	old, err := ioutil.ReadFile(path)
	if err == nil && bytes.Equal(old, content) {
		return
	}
	if err := os.MkdirAll(filepath.Dir(path), 0o755); err != nil {
		die("%v", err)
	}
	if err := ioutil.WriteFile(path, content, 0o644); err != nil {
		die("%v", err)
	}
}

func coqList(items []string, perLine int) string {
	var b strings.Builder
	b.WriteString("[")
	for i, s := range items {
		if i > 0 {
			if i%perLine == 0 {
				b.WriteString(";\n   ")
			} else {
				b.WriteString("; ")
			}
		}
		b.WriteString(s)
	}
	b.WriteString("]")
	return b.String()
}

func main() {
	repo := flag.String("repo", "/repo", "directory of the decimal package")
	out := flag.String("out", "", "output directory (gen)")
	flag.Parse()
	if *out == "" {
		die("-out required")
	}
	ctx := build.Default
	ctx.GOARCH = "amd64"
	ctx.GOOS = "linux"
	ctx.CgoEnabled = false
	bp, err := ctx.ImportDir(*repo, 0)
	if err != nil {
		die("%v", err)
	}
	for _, name := range bp.GoFiles {
		f, err := parser.ParseFile(fset, filepath.Join(*repo, name), nil, 0)
		if err != nil {
			die("%v", err)
		}
		files = append(files, f)
	}
	conf := types.Config{
		Importer: importer.ForCompiler(fset, "source", nil),
		Sizes:    types.SizesFor("gc", "amd64"),
	}
	pkg, err = conf.Check(bp.ImportPath, fset, files, info)
	if err != nil {
		die("type check: %v", err)
	}

	// ---------------------------------------------------------------- Consts.v
	var c bytes.Buffer
	c.WriteString("(* GENERATED by tools/go2coq from the Go source (amd64, default tags) - do not edit. *)\n")
	c.WriteString("From Coq Require Import ZArith.\nOpen Scope Z_scope.\n\n")
	def := func(name string, v constant.Value) {
		fmt.Fprintf(&c, "Definition %s : Z := %s.\n", name, zlit(v))
	}
	for _, p := range [][2]string{
		{"c_W", "_W"}, {"c_DW", "_DW"}, {"c_DB", "_DB"}, {"c_DMax", "_DMax"}, {"c_DWb", "_DWb"},
		{"c_MaxExp", "MaxExp"}, {"c_MinExp", "MinExp"}, {"c_MaxPrec", "MaxPrec"},
		{"c_DefaultDecimalPrec", "DefaultDecimalPrec"},
		{"c_divRecursiveThreshold", "divRecursiveThreshold"},
		{"c_decimalGobVersion", "decimalGobVersion"},
		{"c_MaxBase", "MaxBase"}, {"c_maxBaseSmall", "maxBaseSmall"},
	} {
		def(p[0], pkgConst(p[1]))
	}
	c.WriteString("\n(* initial values of the tuning variables *)\n")
	for _, v := range []string{"decKaratsubaThreshold", "decBasicSqrThreshold", "decKaratsubaSqrThreshold"} {
		def("c_"+v, constOf(varInit(v)))
	}
	c.WriteString("\n(* form *)\n")
	for _, v := range []string{"zero", "finite", "inf"} {
		def("c_"+v, pkgConst(v))
	}
	c.WriteString("\n(* RoundingMode *)\n")
	for _, v := range []string{"ToNearestEven", "ToNearestAway", "ToZero", "AwayFromZero", "ToNegativeInf", "ToPositiveInf"} {
		def("c_"+v, pkgConst(v))
	}
	c.WriteString("\n(* Accuracy *)\n")
	for _, v := range []string{"Below", "Exact", "Above"} {
		def("c_"+v, pkgConst(v))
	}
	c.WriteString("\n(* constants local to div10W_g *)\n")
	lc := localConsts("div10W_g")
	for _, p := range [][2]string{{"c_mP", "mP"}, {"c_dNorm", "dNorm"}, {"c_l", "l"}, {"c_div10W_N", "N"}, {"c_div10W_d", "d"}} {
		v, ok := lc[p[1]]
		if !ok {
			die("div10W_g: local constant %s not found", p[1])
		}
		def(p[0], v)
	}
	writeIfChanged(filepath.Join(*out, "Consts.v"), c.Bytes())

	// ---------------------------------------------------------------- Tables.v
	var t bytes.Buffer
	t.WriteString("(* GENERATED by tools/go2coq from the Go source (amd64, default tags) - do not edit. *)\n")
	t.WriteString("From Coq Require Import ZArith List.\nImport ListNotations.\nOpen Scope Z_scope.\n\n")
	for _, name := range []string{"pow10tab", "pow2digitsTab", "decMaxPow64", "pow5tab"} {
		fmt.Fprintf(&t, "Definition %s : list Z :=\n  %s.\n\n", name, coqList(intList(name), 4))
	}
	// pow10DivTab64 : magic{d, m, pre, post}
	{
		e := varInit("pow10DivTab64")
		at, ok := info.Types[e].Type.Underlying().(*types.Array)
		if !ok {
			die("pow10DivTab64 is not an array")
		}
		st, ok := at.Elem().Underlying().(*types.Struct)
		if !ok || st.NumFields() != 4 {
			die("pow10DivTab64: element is not a 4-field struct")
		}
		want := []string{"d", "m", "pre", "post"}
		for i, w := range want {
			if st.Field(i).Name() != w {
				die("magic: field %d is %s, expected %s", i, st.Field(i).Name(), w)
			}
		}
		// the assembly indexes the table with a stride of 24 bytes and reads
		// d at +0, m at +8 and the byte pair pre|post at +16
		sizes := types.SizesFor("gc", "amd64")
		var fl []*types.Var
		for i := 0; i < 4; i++ {
			fl = append(fl, st.Field(i))
		}
		offs := sizes.Offsetsof(fl)
		fmt.Fprintf(&t, "(* layout of struct magic: size and field offsets in bytes *)\n")
		fmt.Fprintf(&t, "Definition magic_size : Z := %d.\n", sizes.Sizeof(st))
		fmt.Fprintf(&t, "Definition magic_offsets : list Z := [%d; %d; %d; %d].\n\n", offs[0], offs[1], offs[2], offs[3])
		var rows []string
		for _, el := range arrayElems(e) {
			if el == nil {
				rows = append(rows, "(0, 0, 0, 0)")
				continue
			}
			f := structFields(el, st)
			rows = append(rows, fmt.Sprintf("(%s, %s, %s, %s)", f[0], f[1], f[2], f[3]))
		}
		fmt.Fprintf(&t, "(* (d, m, pre, post) *)\nDefinition pow10DivTab64 : list (Z * Z * Z * Z) :=\n  %s.\n\n", coqList(rows, 1))
	}
	{
		s := constant.StringVal(pkgConst("digits"))
		var items []string
		for i := 0; i < len(s); i++ {
			items = append(items, new(big.Int).SetUint64(uint64(s[i])).String())
		}
		fmt.Fprintf(&t, "Definition digits : list Z :=\n  %s.\n", coqList(items, 16))
	}
	writeIfChanged(filepath.Join(*out, "Tables.v"), t.Bytes())
}
