module verif/go2coq

go 1.14
