(* L4/FormatProofs.v — proofs about Append with an explicit precision and
   about Format (C13): the rounding step is the Rounds image of x, the 'e'
   layout prints exactly prec fraction digits, padding reaches the width. *)
From Coq Require Import ZArith QArith Lia List Bool.
From Dec Require Import Base.Words Base.WordsProofs Base.QPow L3.Decimal L3.Round L3.Arith
  L3.CmpProofs Spec.Rounding Spec.RoundingFacts L3.RoundProofs L3.ArithProofs
  L4.Scan L4.ScanProofs L4.Toa L4.ToaProofs L4.Format.
Open Scope Z_scope.

(* the rounding position requested by a format and a precision >= 0:
   number of significant digits to keep *)
Definition rnd_of (x : Dec) (fmt pr : Z) : Z :=
  if is_eE fmt then 1 + pr
  else if fmt =? 102 then Z.max (mexp x + pr) 0
  else if is_gG fmt then (if pr =? 0 then 1 else pr)
  else 0.

(* step 1 of Append when the position lies below the leading digit and above
   the last one: x is rounded once, under its own mode, to rnd digits *)
Theorem round_step x fmt pr digits :
  WF x -> dform x = Ffinite -> mdigits (mant x) < 4294967296 - 18 ->
  1 <= rnd_of x fmt pr < digits -> rnd_of x fmt pr <= MaxPrec ->
  exists x1, round_for_fmt x fmt pr digits = Some x1 /\
    result_spec (rnd_of x fmt pr) (dmode x) (neg x) (mag x) x1 /\
    prec x1 = rnd_of x fmt pr /\ dmode x1 = dmode x /\ WF x1.
Proof.
  intros Hwf Hf Hlen Hr Hmax. unfold round_for_fmt. fold (rnd_of x fmt pr).
  set (r := rnd_of x fmt pr) in *.
  replace (r =? 0) with false by (symmetry; apply Z.eqb_neq; lia).
  rewrite andb_false_r. cbn [andb].
  replace (r <? digits) with true by (symmetry; apply Z.ltb_lt; lia).
  cbn [SetMode ores_opt]. unfold SetPrec.
  replace (r =? 0) with false by (symmetry; apply Z.eqb_neq; lia).
  replace (MaxPrec <? r) with false by (symmetry; apply Z.ltb_ge; lia).
  cbn [with_acc with_mode with_prec dec_zero prec].
  replace (r <? 0) with false by (symmetry; apply Z.ltb_ge; lia).
  cbn [ores_opt].
  set (t1 := mkDec [] 0 r (dmode x) Exact Fzero false).
  pose proof (Set_correct false t1 x Hwf Hf Hlen) as HS.
  cbn [prec t1] in HS. specialize (HS ltac:(unfold t1; cbn [prec]; lia) ltac:(discriminate)).
  unfold t1 in HS. cbn [prec dmode] in HS.
  replace (r =? 0) with false in HS by (symmetry; apply Z.eqb_neq; lia).
  destruct HS as (x1 & E & Hspec & Hp & Hm & Hw).
  exists x1.
  change (with_prec (with_acc (with_acc (with_mode dec_zero (dmode x)) Exact) Exact) r)
    with (mkDec [] 0 r (dmode x) Exact Fzero false).
  rewrite E. cbn [ores_opt]. auto.
Qed.

(* ... and when the requested position is at or below the last digit nothing is rounded *)
Theorem round_step_id x fmt pr digits :
  digits <= rnd_of x fmt pr -> round_for_fmt x fmt pr digits = Some x.
Proof.
  intros H. unfold round_for_fmt. fold (rnd_of x fmt pr).
  destruct ((fmt =? 102) && (rnd_of x fmt pr =? 0) && (0 <? digits)) eqn:E.
  - apply andb_true_iff in E as [E1 E2]. apply andb_true_iff in E1 as [_ E1].
    apply Z.eqb_eq in E1. apply Z.ltb_lt in E2. lia.
  - replace (rnd_of x fmt pr <? digits) with false by (symmetry; apply Z.ltb_ge; lia). reflexivity.
Qed.

(* ---- the 'e' layout for an arbitrary precision ---- *)
Lemma fmtE_layout buf x D fmt pr : SigDigits x D -> dform x = Ffinite -> 0 <= pr ->
  exists d0 tl, D = d0 :: tl /\
    fmtE buf x fmt pr =
      Some (buf ++ [d0] ++
            (if 0 <? pr then 46 :: firstn (Z.to_nat pr) tl ++ zeros (pr - Z.min pr (zlen tl)) else []) ++
            [fmt; e_sign (exp x - 1)] ++ exp_digits (exp x - 1)).
Proof.
  intros S Hf Hp. destruct (sd_toa x D S) as (t & Ht & Htoa & Htrim & _).
  destruct (sd_last x D S) as (T & c & ED & Hc).
  assert (exists d0 tl, D = d0 :: tl) as (d0 & tl & E).
  { destruct D as [|d0 tl]; [destruct T; discriminate|eauto]. }
  exists d0, tl. split; [exact E|]. clear ED Hc. subst D.
  unfold fmtE. rewrite Htoa, Htrim. cbv beta iota zeta. unfold exp_digits, e_sign.
  apply f_equal. apply f_equal. apply f_equal. f_equal.
  destruct (Z.ltb_spec 0 pr) as [Hpos|]; [|reflexivity].
  unfold blen. rewrite zlen_cons. pose proof (zlen_nonneg tl) as Hz.
  f_equal. cbn [skipn].
  destruct (Z.ltb_spec 1 (Z.min (zlen tl + 1) (pr + 1))) as [H1|H1].
  - f_equal.
    + destruct (Z.le_gt_cases pr (zlen tl)).
      * f_equal. lia.
      * rewrite !firstn_all2 by (unfold zlen in *; lia). reflexivity.
    + f_equal. lia.
  - assert (zlen tl = 0) by lia. destruct tl; [|rewrite zlen_cons in *; pose proof (zlen_nonneg tl); lia].
    rewrite firstn_nil. cbn [app]. f_equal. change (zlen (@nil Z)) with 0. lia.
Qed.

(* exactly prec digits follow the radix point *)
Corollary fmtE_frac_len (tl : bytes) pr : 0 < pr ->
  zlen (firstn (Z.to_nat pr) tl ++ zeros (pr - Z.min pr (zlen tl))) = pr.
Proof.
  intros Hp. pose proof (zlen_nonneg tl) as Hz. rewrite zlen_app, zeros_len by lia.
  unfold zlen at 1. rewrite firstn_length. unfold zlen in *. lia.
Qed.

(* ---- Format: the output fills the width ---- *)
Lemma Format_width x s verb out w :
  Format x s verb = Some out -> f_width s = Some w ->
  (verb = 101 \/ verb = 69 \/ verb = 102 \/ verb = 70 \/ verb = 103 \/ verb = 71 \/ verb = 118 \/ verb = 115 \/ verb = 98 \/ verb = 112) ->
  w <= zlen out.
Proof.
  intros HF Hw Hv. unfold Format in HF.
  assert (Hsel : exists fp, (if (verb =? 101) || (verb =? 69) || (verb =? 102) || (verb =? 98) || (verb =? 112)
            then Some (verb, match f_prec s with Some p => p | None => 6 end)
            else if verb =? 70 then Some (102, match f_prec s with Some p => p | None => 6 end)
            else if verb =? 115 then Some (103, if match f_prec s with Some _ => true | None => false end then match f_prec s with Some p => p | None => 6 end else 10)
            else if (verb =? 118) || (verb =? 103) then Some (103, if match f_prec s with Some _ => true | None => false end then match f_prec s with Some p => p | None => 6 end else -1)
            else if verb =? 71 then Some (71, if match f_prec s with Some _ => true | None => false end then match f_prec s with Some p => p | None => 6 end else -1)
            else None) = Some fp).
  { destruct Hv as [->|[->|[->|[->|[->|[->|[->|[->|[->| ->]]]]]]]]]; cbn [Z.eqb Pos.eqb orb]; eauto. }
  destruct Hsel as ([format pr] & Hsel). cbv zeta in HF. rewrite Hsel in HF.
  destruct (Append [] x format pr) as [buf0|]; [|discriminate].
  set (buf := match buf0 with [] => [63] | _ => buf0 end) in *.
  destruct (match buf with
            | [] => ([], buf)
            | c :: t => if c =? 45 then ([45], t)
                        else if c =? 43 then (if f_space s && negb (f_plus s) then [32] else [43], t)
                        else if f_plus s then ([43], buf) else if f_space s then ([32], buf) else ([], buf)
            end) as [sign body].
  rewrite Hw in HF. unfold blen in HF.
  pose proof (zlen_nonneg sign). pose proof (zlen_nonneg body).
  destruct (Z.ltb_spec (zlen sign + zlen body) w) as [Hlt|Hge].
  - destruct (f_zero s && negb (f_minus s) && negb (IsInf x)); [|destruct (f_minus s)];
      injection HF as <-; rewrite !zlen_app, ?zeros_len, ?zlen_repeat by lia; lia.
  - destruct (f_zero s && negb (f_minus s) && negb (IsInf x)); [|destruct (f_minus s)];
      injection HF as <-; rewrite !zlen_app, ?zeros_len, ?zlen_repeat by lia; cbn; lia.
Qed.

(* ------------------------------------------------------------------ *)
(* the rounding position at or above the leading digit ('f', |x| < 10^-pr) *)

(* the correctly rounded image of a magnitude 0 < v < 10^-pr at the unit
   10^-pr is one unit (true) or zero (false); half a unit is 5 * 10^(-pr-1);
   a tie goes to the even multiple, which is zero *)
Definition up_spec (md : mode) (ng : bool) (v : Q) (pr : Z) : Prop :=
  match dir_of md ng with
  | Down => False
  | Up => True
  | NearEven => (scaled 5 (- pr - 1) < v)%Q
  | NearAway => (scaled 5 (- pr - 1) <= v)%Q
  end.

Lemma lead_digit_cmp x D : WFfin x -> SigDigits x D ->
  let N := val (mant x) in let P := 10 ^ (mdigits (mant x) - 1) in
  let d := dec_digit (mant x) (zlen (mant x) * DW - 1) in
  (5 < d -> 5 * P < N) /\ (d < 5 -> N < 5 * P) /\
  (d = 5 -> (1 < zlen D -> 5 * P < N) /\ (zlen D = 1 -> N = 5 * P)).
Proof.
  intros Hx S N P d. pose proof (WFfin_val_bounds x Hx) as [Hlo Hhi]. fold N in Hlo, Hhi.
  destruct (WFfin_len x Hx) as [HL1 HL2].
  set (L := mdigits (mant x)) in *.
  assert (HP : 0 < P) by (apply Z.pow_pos_nonneg; lia).
  assert (E10 : 10 ^ L = 10 * P).
  { unfold P. replace L with (L - 1 + 1) at 1 by lia. rewrite Z.pow_add_r, Z.pow_1_r by lia. ring. }
  assert (Ed : d = N / P).
  { unfold d, dec_digit. fold N. replace (zlen (mant x) * DW - 1) with (L - 1) by (unfold L, mdigits; lia).
    fold P. apply Z.mod_small. split; [apply Z.div_pos; lia|]. apply Z.div_lt_upper_bound; lia. }
  pose proof (Z.div_mod N P ltac:(lia)) as Hdm. pose proof (Z.mod_pos_bound N P HP) as Hr.
  rewrite <- Ed in Hdm. set (r := N mod P) in *.
  split; [intros; nia|]. split; [intros; nia|].
  intros E5. rewrite E5 in Hdm.
  destruct (sd_len x D S) as [Hk1 Hk2]. fold L in Hk2.
  pose proof (sd_val x D S) as Hv. fold N L in Hv.
  pose proof (sd_range x D S) as [Hclo Hchi].
  destruct (sd_last x D S) as (T & c & ED & Hc).
  pose proof (sd_digits x D S) as Hdg. rewrite ED, all_digits_app in Hdg. apply andb_true_iff in Hdg as [_ Hdg].
  cbn in Hdg. rewrite andb_true_r in Hdg. apply is_digit_iff in Hdg.
  assert (Hmod : digval D 0 mod 10 <> 0).
  { rewrite ED, digval_snoc, Z.add_comm, Z.mod_add, Z.mod_small by lia. lia. }
  set (cD := digval D 0) in *. set (k := zlen D) in *.
  split.
  - intros Hk. destruct (Z.eq_dec r 0) as [R0|]; [exfalso|lia].
    (* N = 5P = cD * 10^(L-k) forces cD = 5 * 10^(k-1), a multiple of 10 *)
    assert (EP : P = 10 ^ (k - 1) * 10 ^ (L - k)).
    { unfold P. rewrite <- Z.pow_add_r by lia. f_equal. lia. }
    assert (HQ : 0 < 10 ^ (L - k)) by (apply Z.pow_pos_nonneg; lia).
    assert (EcD : cD = 5 * 10 ^ (k - 1)) by nia.
    apply Hmod. rewrite EcD. replace (k - 1) with (k - 2 + 1) by lia.
    rewrite Z.pow_add_r, Z.pow_1_r by lia. rewrite Z.mul_assoc. apply Z.mod_mul. lia.
  - intros Hk. rewrite Hk in *. rewrite Z.sub_diag, Z.pow_0_r in Hclo. change (10 ^ 1) with 10 in Hchi.
    (* N = cD * P with 1 <= cD <= 9, so r = 0 *)
    change (10 ^ (L - 1)) with P in Hv. assert (cD = 5) by nia. subst cD. nia.
Qed.

Lemma setBits64_unit md ng pr : 0 <= pr <= 2147483648 ->
  setBits64 (with_acc (with_mode dec_zero md) Exact) ng 1 (- pr) =
    Some (mkDec [1000000000000000000] (1 - pr) 34 md Exact Ffinite ng).
Proof.
  intros Hpr. unfold setBits64. cbn [prec with_acc with_mode dec_zero].
  change (0 =? 0) with true. change (1 =? 0) with false. cbv iota.
  assert (Edn : dnorm (of_Z 1) = Some ([1000000000000000000], 18)) by (vm_compute; reflexivity).
  rewrite Edn.
  assert (Ecl : clampExp (- pr) = - pr).
  { unfold clampExp. cbv zeta. destruct (Z.ltb_spec 1099511627776 (- pr)); [lia|].
    destruct (- pr <? _) eqn:E2; [apply Z.ltb_lt in E2; lia|reflexivity]. }
  rewrite Ecl.
  change (zlen [1000000000000000000] * DW) with 19. replace (- pr + 19 - 18) with (1 - pr) by lia.
  unfold setExpAndRound.
  replace (1 - pr <? MinExp) with false by (symmetry; apply Z.ltb_ge; unfold MinExp; lia).
  replace (MaxExp <? 1 - pr) with false by (symmetry; apply Z.ltb_ge; unfold MaxExp; lia).
  rewrite i32_small by (unfold MinExp, MaxExp; lia).
  reflexivity.
Qed.

Theorem round_step_zero x pr digits D :
  WF x -> dform x = Ffinite -> SigDigits x D -> digits = zlen D ->
  0 <= pr <= 2147483648 -> exp x + pr <= 0 ->
  exists x1, round_for_fmt x 102 pr digits = Some x1 /\ neg x1 = neg x /\ dmode x1 = dmode x /\
    (up_spec (dmode x) (neg x) (mag x) pr -> dform x1 = Ffinite /\ (mag x1 == scaled 1 (- pr))%Q /\ WF x1) /\
    (~ up_spec (dmode x) (neg x) (mag x) pr -> dform x1 = Fzero).
Proof.
  intros Hwf Hf S Hdig Hpr He. pose proof (WF_finite x Hwf Hf) as Hx.
  destruct (sd_len x D S) as [Hk1 _].
  unfold round_for_fmt. unfold mexp. rewrite Hf.
  replace (Z.max (exp x + pr) 0) with 0 by lia.
  change (is_eE 102) with false. cbv iota. change (102 =? 102) with true.
  change (0 =? 0) with true. replace (0 <? digits) with true by (symmetry; apply Z.ltb_lt; lia).
  cbn [andb SetMode ores_opt].
  (* the decision *)
  set (up := match dmode x with
             | AwayFromZero => true | ToNegativeInf => neg x | ToPositiveInf => negb (neg x) | ToZero => false
             | _ => if exp x + pr =? 0
                    then (5 <? dec_digit (mant x) (zlen (mant x) * DW - 1)) ||
                         ((dec_digit (mant x) (zlen (mant x) * DW - 1) =? 5) && (mode_eqb (dmode x) ToNearestAway || (1 <? digits)))
                    else false
             end).
  assert (Hup : up = true <-> up_spec (dmode x) (neg x) (mag x) pr).
  { pose proof (lead_digit_cmp x D Hx S) as Hl. cbv zeta in Hl.
    set (d := dec_digit (mant x) (zlen (mant x) * DW - 1)) in *.
    set (N := val (mant x)) in *. set (L := mdigits (mant x)) in *.
    destruct (WFfin_len x Hx) as [HL1 HL2]. fold L in HL2.
    assert (Hmag : mag x = scaled N (exp x - L)) by reflexivity.
    pose proof (mag_bounds x Hx) as [_ Hmhi].
    (* half a unit in the scale of the mantissa when exp x + pr = 0 *)
    assert (Hhalf : exp x + pr = 0 -> (scaled 5 (- pr - 1) == scaled (5 * 10 ^ (L - 1)) (exp x - L))%Q).
    { intros E0. rewrite scaled_pow by lia. apply (scaled_eq_gen _ _ _ _ (exp x - L)); try lia. f_equal. f_equal. lia. }
    assert (Hfar : exp x + pr < 0 -> (mag x < scaled 5 (- pr - 1))%Q).
    { intros E0. eapply Qlt_le_trans; [exact Hmhi|].
      apply (scaled_le_gen _ _ _ _ (exp x)); try lia. rewrite Z.sub_diag, Z.pow_0_r.
      assert (0 < 10 ^ (- pr - 1 - exp x)) by (apply Z.pow_pos_nonneg; lia). lia. }
    destruct Hl as (Hgt & Hlt & Heq).
    unfold up, up_spec. destruct (dmode x) eqn:Em; cbn [dir_of mode_eqb].
    - (* ToNearestEven *)
      destruct (Z.eqb_spec (exp x + pr) 0) as [E0|E0].
      + rewrite (Hhalf E0), Hmag. rewrite <- scaled_lt_same.
        cbn [orb]. rewrite orb_true_iff, andb_true_iff, Z.ltb_lt, Z.eqb_eq, Z.ltb_lt. rewrite Hdig.
        split.
        * intros [H|[H1 H2]]; [auto|]. destruct (Heq H1) as [A _]. auto.
        * intros H. destruct (Z.lt_trichotomy d 5) as [C|[C|C]]; [specialize (Hlt C); lia| |auto].
          right. split; [exact C|]. destruct (Heq C) as [_ Bq]. destruct (Z.eq_dec (zlen D) 1); [specialize (Bq e); lia|lia].
      + split; [discriminate|]. intros H. exfalso. pose proof (Hfar ltac:(lia)). apply (Qlt_irrefl (mag x)). eapply Qlt_trans; eassumption.
    - (* ToNearestAway *)
      destruct (Z.eqb_spec (exp x + pr) 0) as [E0|E0].
      + rewrite (Hhalf E0), Hmag. rewrite <- scaled_le_same.
        cbn [orb]. rewrite orb_true_iff, andb_true_iff, Z.ltb_lt, Z.eqb_eq.
        split.
        * intros [H|[H1 _]]; [specialize (Hgt H); lia|].
          destruct (Heq H1) as [A Bq]. destruct (Z.eq_dec (zlen D) 1); [specialize (Bq e); lia|specialize (A ltac:(lia)); lia].
        * intros H. destruct (Z.lt_trichotomy d 5) as [C|[C|C]]; [specialize (Hlt C); lia|auto|auto].
      + split; [discriminate|]. intros H. exfalso. pose proof (Hfar ltac:(lia)).
        apply (Qlt_irrefl (mag x)). eapply Qlt_le_trans; eassumption.
    - split; [discriminate|tauto].
    - split; auto.
    - destruct (neg x); split; auto; try discriminate; tauto.
    - destruct (neg x); cbn [negb]; split; auto; try discriminate; tauto. }
  fold up. destruct up eqn:Eu.
  - (* one unit: setBits64 t (neg x) 1 (-pr) *)
    pose proof (setBits64_unit (dmode x) (neg x) pr Hpr) as Hset.
    rewrite Hset. eexists. split; [reflexivity|]. cbn [neg dmode dform]. split; [reflexivity|]. split; [reflexivity|].
    split.
    + intros _. split; [reflexivity|]. split.
      * unfold mag. cbn [mant exp].
        replace (val [1000000000000000000]) with (1 * 10 ^ 18) by (vm_compute; reflexivity).
        replace (mdigits [1000000000000000000]) with 19 by reflexivity.
        rewrite scaled_pow by lia. replace (1 - pr - 19 + 18) with (- pr) by lia. reflexivity.
      * unfold WF, wf_b. cbn [prec dform mant exp]. unfold MaxPrec, MinExp, MaxExp.
        replace (-2147483648 <=? 1 - pr) with true by (symmetry; apply Z.leb_le; lia).
        replace (1 - pr <=? 2147483647) with true by (symmetry; apply Z.leb_le; lia).
        vm_compute. reflexivity.
    + intros H. exfalso. apply H. apply Hup. reflexivity.
  - eexists. split; [reflexivity|]. cbn [neg dmode dform with_neg with_acc with_mode dec_zero].
    split; [reflexivity|]. split; [reflexivity|]. split; [|reflexivity].
    intros H. apply Hup in H. discriminate.
Qed.
