(* L4/FormatProofs.v — proofs about Append with an explicit precision and
   about Format (C13): the rounding step is the Rounds image of x, the 'e'
   layout prints exactly prec fraction digits, padding reaches the width. *)
From Coq Require Import ZArith QArith Lia List Bool.
From Dec Require Import Base.Words Base.WordsProofs Base.QPow L3.Decimal L3.Round L3.Arith
  L3.CmpProofs Spec.Rounding Spec.RoundingFacts L3.RoundProofs L3.ArithProofs
  L4.Scan L4.ScanProofs L4.Toa L4.ToaProofs L4.Format.
Open Scope Z_scope.

(* the rounding position requested by a format and a precision >= 0:
   number of significant digits to keep *)
Definition rnd_of (x : Dec) (fmt pr : Z) : Z :=
  if is_eE fmt then 1 + pr
  else if fmt =? 102 then Z.max (mexp x + pr) 0
  else if is_gG fmt then (if pr =? 0 then 1 else pr)
  else 0.

(* step 1 of Append when the position lies below the leading digit and above
   the last one: x is rounded once, under its own mode, to rnd digits *)
Theorem round_step x fmt pr digits :
  WF x -> dform x = Ffinite -> mdigits (mant x) < 4294967296 - 18 ->
  1 <= rnd_of x fmt pr < digits -> rnd_of x fmt pr <= MaxPrec ->
  exists x1, round_for_fmt x fmt pr digits = Some x1 /\
    result_spec (rnd_of x fmt pr) (dmode x) (neg x) (mag x) x1 /\
    prec x1 = rnd_of x fmt pr /\ dmode x1 = dmode x /\ WF x1.
Proof.
  intros Hwf Hf Hlen Hr Hmax. unfold round_for_fmt. fold (rnd_of x fmt pr).
  set (r := rnd_of x fmt pr) in *.
  replace (r =? 0) with false by (symmetry; apply Z.eqb_neq; lia).
  rewrite andb_false_r. cbn [andb].
  replace (r <? digits) with true by (symmetry; apply Z.ltb_lt; lia).
  cbn [SetMode ores_opt]. unfold SetPrec.
  replace (r =? 0) with false by (symmetry; apply Z.eqb_neq; lia).
  replace (MaxPrec <? r) with false by (symmetry; apply Z.ltb_ge; lia).
  cbn [with_acc with_mode with_prec dec_zero prec].
  replace (r <? 0) with false by (symmetry; apply Z.ltb_ge; lia).
  cbn [ores_opt].
  set (t1 := mkDec [] 0 r (dmode x) Exact Fzero false).
  pose proof (Set_correct false t1 x Hwf Hf Hlen) as HS.
  cbn [prec t1] in HS. specialize (HS ltac:(unfold t1; cbn [prec]; lia) ltac:(discriminate)).
  unfold t1 in HS. cbn [prec dmode] in HS.
  replace (r =? 0) with false in HS by (symmetry; apply Z.eqb_neq; lia).
  destruct HS as (x1 & E & Hspec & Hp & Hm & Hw).
  exists x1.
  change (with_prec (with_acc (with_acc (with_mode dec_zero (dmode x)) Exact) Exact) r)
    with (mkDec [] 0 r (dmode x) Exact Fzero false).
  rewrite E. cbn [ores_opt]. auto.
Qed.

(* ... and when the requested position is at or below the last digit nothing is rounded *)
Theorem round_step_id x fmt pr digits :
  digits <= rnd_of x fmt pr -> round_for_fmt x fmt pr digits = Some x.
Proof.
  intros H. unfold round_for_fmt. fold (rnd_of x fmt pr).
  destruct ((fmt =? 102) && (rnd_of x fmt pr =? 0) && (0 <? digits)) eqn:E.
  - apply andb_true_iff in E as [E1 E2]. apply andb_true_iff in E1 as [_ E1].
    apply Z.eqb_eq in E1. apply Z.ltb_lt in E2. lia.
  - replace (rnd_of x fmt pr <? digits) with false by (symmetry; apply Z.ltb_ge; lia). reflexivity.
Qed.

(* ---- the 'e' layout for an arbitrary precision ---- *)
Lemma fmtE_layout buf x D fmt pr : SigDigits x D -> dform x = Ffinite -> 0 <= pr ->
  exists d0 tl, D = d0 :: tl /\
    fmtE buf x fmt pr =
      Some (buf ++ [d0] ++
            (if 0 <? pr then 46 :: firstn (Z.to_nat pr) tl ++ zeros (pr - Z.min pr (zlen tl)) else []) ++
            [fmt; e_sign (exp x - 1)] ++ exp_digits (exp x - 1)).
Proof.
  intros S Hf Hp. destruct (sd_toa x D S) as (t & Ht & Htoa & Htrim & _).
  destruct (sd_last x D S) as (T & c & ED & Hc).
  assert (exists d0 tl, D = d0 :: tl) as (d0 & tl & E).
  { destruct D as [|d0 tl]; [destruct T; discriminate|eauto]. }
  exists d0, tl. split; [exact E|]. clear ED Hc. subst D.
  unfold fmtE. rewrite Htoa, Htrim. cbv beta iota zeta. unfold exp_digits, e_sign.
  apply f_equal. apply f_equal. apply f_equal. f_equal.
  destruct (Z.ltb_spec 0 pr) as [Hpos|]; [|reflexivity].
  unfold blen. rewrite zlen_cons. pose proof (zlen_nonneg tl) as Hz.
  f_equal. cbn [skipn].
  destruct (Z.ltb_spec 1 (Z.min (zlen tl + 1) (pr + 1))) as [H1|H1].
  - f_equal.
    + destruct (Z.le_gt_cases pr (zlen tl)).
      * f_equal. lia.
      * rewrite !firstn_all2 by (unfold zlen in *; lia). reflexivity.
    + f_equal. lia.
  - assert (zlen tl = 0) by lia. destruct tl; [|rewrite zlen_cons in *; pose proof (zlen_nonneg tl); lia].
    rewrite firstn_nil. cbn [app]. f_equal. change (zlen (@nil Z)) with 0. lia.
Qed.

(* exactly prec digits follow the radix point *)
Corollary fmtE_frac_len (tl : bytes) pr : 0 < pr ->
  zlen (firstn (Z.to_nat pr) tl ++ zeros (pr - Z.min pr (zlen tl))) = pr.
Proof.
  intros Hp. pose proof (zlen_nonneg tl) as Hz. rewrite zlen_app, zeros_len by lia.
  unfold zlen at 1. rewrite firstn_length. unfold zlen in *. lia.
Qed.

(* ---- Format: the output fills the width ---- *)
Lemma Format_width x s verb out w :
  Format x s verb = Some out -> f_width s = Some w ->
  (verb = 101 \/ verb = 69 \/ verb = 102 \/ verb = 70 \/ verb = 103 \/ verb = 71 \/ verb = 118 \/ verb = 115 \/ verb = 98 \/ verb = 112) ->
  w <= zlen out.
Proof.
  intros HF Hw Hv. unfold Format in HF.
  assert (Hsel : exists fp, (if (verb =? 101) || (verb =? 69) || (verb =? 102) || (verb =? 98) || (verb =? 112)
            then Some (verb, match f_prec s with Some p => p | None => 6 end)
            else if verb =? 70 then Some (102, match f_prec s with Some p => p | None => 6 end)
            else if verb =? 115 then Some (103, if match f_prec s with Some _ => true | None => false end then match f_prec s with Some p => p | None => 6 end else 10)
            else if (verb =? 118) || (verb =? 103) then Some (103, if match f_prec s with Some _ => true | None => false end then match f_prec s with Some p => p | None => 6 end else -1)
            else if verb =? 71 then Some (71, if match f_prec s with Some _ => true | None => false end then match f_prec s with Some p => p | None => 6 end else -1)
            else None) = Some fp).
  { destruct Hv as [->|[->|[->|[->|[->|[->|[->|[->|[->| ->]]]]]]]]]; cbn [Z.eqb Pos.eqb orb]; eauto. }
  destruct Hsel as ([format pr] & Hsel). cbv zeta in HF. rewrite Hsel in HF.
  destruct (Append [] x format pr) as [buf0|]; [|discriminate].
  set (buf := match buf0 with [] => [63] | _ => buf0 end) in *.
  destruct (match buf with
            | [] => ([], buf)
            | c :: t => if c =? 45 then ([45], t)
                        else if c =? 43 then (if f_space s && negb (f_plus s) then [32] else [43], t)
                        else if f_plus s then ([43], buf) else if f_space s then ([32], buf) else ([], buf)
            end) as [sign body].
  rewrite Hw in HF. unfold blen in HF.
  pose proof (zlen_nonneg sign). pose proof (zlen_nonneg body).
  destruct (Z.ltb_spec (zlen sign + zlen body) w) as [Hlt|Hge].
  - destruct (f_zero s && negb (f_minus s) && negb (IsInf x)); [|destruct (f_minus s)];
      injection HF as <-; rewrite !zlen_app, ?zeros_len, ?zlen_repeat by lia; lia.
  - destruct (f_zero s && negb (f_minus s) && negb (IsInf x)); [|destruct (f_minus s)];
      injection HF as <-; rewrite !zlen_app, ?zeros_len, ?zlen_repeat by lia; cbn; lia.
Qed.

(* ------------------------------------------------------------------ *)
(* the rounding position at or above the leading digit ('f', |x| < 10^-pr) *)

(* the correctly rounded image of a magnitude 0 < v < 10^-pr at the unit
   10^-pr is one unit (true) or zero (false); half a unit is 5 * 10^(-pr-1);
   a tie goes to the even multiple, which is zero *)
Definition up_spec (md : mode) (ng : bool) (v : Q) (pr : Z) : Prop :=
  match dir_of md ng with
  | Down => False
  | Up => True
  | NearEven => (scaled 5 (- pr - 1) < v)%Q
  | NearAway => (scaled 5 (- pr - 1) <= v)%Q
  end.

Lemma lead_digit_cmp x D : WFfin x -> SigDigits x D ->
  let N := val (mant x) in let P := 10 ^ (mdigits (mant x) - 1) in
  let d := dec_digit (mant x) (zlen (mant x) * DW - 1) in
  (5 < d -> 5 * P < N) /\ (d < 5 -> N < 5 * P) /\
  (d = 5 -> (1 < zlen D -> 5 * P < N) /\ (zlen D = 1 -> N = 5 * P)).
Proof.
  intros Hx S N P d. pose proof (WFfin_val_bounds x Hx) as [Hlo Hhi]. fold N in Hlo, Hhi.
  destruct (WFfin_len x Hx) as [HL1 HL2].
  set (L := mdigits (mant x)) in *.
  assert (HP : 0 < P) by (apply Z.pow_pos_nonneg; lia).
  assert (E10 : 10 ^ L = 10 * P).
  { unfold P. replace L with (L - 1 + 1) at 1 by lia. rewrite Z.pow_add_r, Z.pow_1_r by lia. ring. }
  assert (Ed : d = N / P).
  { unfold d, dec_digit. fold N. replace (zlen (mant x) * DW - 1) with (L - 1) by (unfold L, mdigits; lia).
    fold P. apply Z.mod_small. split; [apply Z.div_pos; lia|]. apply Z.div_lt_upper_bound; lia. }
  pose proof (Z.div_mod N P ltac:(lia)) as Hdm. pose proof (Z.mod_pos_bound N P HP) as Hr.
  rewrite <- Ed in Hdm. set (r := N mod P) in *.
  split; [intros; nia|]. split; [intros; nia|].
  intros E5. rewrite E5 in Hdm.
  destruct (sd_len x D S) as [Hk1 Hk2]. fold L in Hk2.
  pose proof (sd_val x D S) as Hv. fold N L in Hv.
  pose proof (sd_range x D S) as [Hclo Hchi].
  destruct (sd_last x D S) as (T & c & ED & Hc).
  pose proof (sd_digits x D S) as Hdg. rewrite ED, all_digits_app in Hdg. apply andb_true_iff in Hdg as [_ Hdg].
  cbn in Hdg. rewrite andb_true_r in Hdg. apply is_digit_iff in Hdg.
  assert (Hmod : digval D 0 mod 10 <> 0).
  { rewrite ED, digval_snoc, Z.add_comm, Z.mod_add, Z.mod_small by lia. lia. }
  set (cD := digval D 0) in *. set (k := zlen D) in *.
  split.
  - intros Hk. destruct (Z.eq_dec r 0) as [R0|]; [exfalso|lia].
    (* N = 5P = cD * 10^(L-k) forces cD = 5 * 10^(k-1), a multiple of 10 *)
    assert (EP : P = 10 ^ (k - 1) * 10 ^ (L - k)).
    { unfold P. rewrite <- Z.pow_add_r by lia. f_equal. lia. }
    assert (HQ : 0 < 10 ^ (L - k)) by (apply Z.pow_pos_nonneg; lia).
    assert (EcD : cD = 5 * 10 ^ (k - 1)) by nia.
    apply Hmod. rewrite EcD. replace (k - 1) with (k - 2 + 1) by lia.
    rewrite Z.pow_add_r, Z.pow_1_r by lia. rewrite Z.mul_assoc. apply Z.mod_mul. lia.
  - intros Hk. rewrite Hk in *. rewrite Z.sub_diag, Z.pow_0_r in Hclo. change (10 ^ 1) with 10 in Hchi.
    (* N = cD * P with 1 <= cD <= 9, so r = 0 *)
    change (10 ^ (L - 1)) with P in Hv. assert (cD = 5) by nia. subst cD. nia.
Qed.

Lemma setBits64_unit md ng pr : 0 <= pr <= 2147483648 ->
  setBits64 (with_acc (with_mode dec_zero md) Exact) ng 1 (- pr) =
    Some (mkDec [1000000000000000000] (1 - pr) 34 md Exact Ffinite ng).
Proof.
  intros Hpr. unfold setBits64. cbn [prec with_acc with_mode dec_zero].
  change (0 =? 0) with true. change (1 =? 0) with false. cbv iota.
  assert (Edn : dnorm (of_Z 1) = Some ([1000000000000000000], 18)) by (vm_compute; reflexivity).
  rewrite Edn.
  assert (Ecl : clampExp (- pr) = - pr).
  { unfold clampExp. cbv zeta. destruct (Z.ltb_spec 1099511627776 (- pr)); [lia|].
    destruct (- pr <? _) eqn:E2; [apply Z.ltb_lt in E2; lia|reflexivity]. }
  rewrite Ecl.
  change (zlen [1000000000000000000] * DW) with 19. replace (- pr + 19 - 18) with (1 - pr) by lia.
  unfold setExpAndRound.
  replace (1 - pr <? MinExp) with false by (symmetry; apply Z.ltb_ge; unfold MinExp; lia).
  replace (MaxExp <? 1 - pr) with false by (symmetry; apply Z.ltb_ge; unfold MaxExp; lia).
  rewrite i32_small by (unfold MinExp, MaxExp; lia).
  reflexivity.
Qed.

Theorem round_step_zero x pr digits D :
  WF x -> dform x = Ffinite -> SigDigits x D -> digits = zlen D ->
  0 <= pr <= 2147483648 -> exp x + pr <= 0 ->
  exists x1, round_for_fmt x 102 pr digits = Some x1 /\ neg x1 = neg x /\ dmode x1 = dmode x /\
    (up_spec (dmode x) (neg x) (mag x) pr -> dform x1 = Ffinite /\ (mag x1 == scaled 1 (- pr))%Q /\ WF x1) /\
    (~ up_spec (dmode x) (neg x) (mag x) pr -> dform x1 = Fzero).
Proof.
  intros Hwf Hf S Hdig Hpr He. pose proof (WF_finite x Hwf Hf) as Hx.
  destruct (sd_len x D S) as [Hk1 _].
  unfold round_for_fmt. unfold mexp. rewrite Hf.
  replace (Z.max (exp x + pr) 0) with 0 by lia.
  change (is_eE 102) with false. cbv iota. change (102 =? 102) with true.
  change (0 =? 0) with true. replace (0 <? digits) with true by (symmetry; apply Z.ltb_lt; lia).
  cbn [andb SetMode ores_opt].
  (* the decision *)
  set (up := match dmode x with
             | AwayFromZero => true | ToNegativeInf => neg x | ToPositiveInf => negb (neg x) | ToZero => false
             | _ => if exp x + pr =? 0
                    then (5 <? dec_digit (mant x) (zlen (mant x) * DW - 1)) ||
                         ((dec_digit (mant x) (zlen (mant x) * DW - 1) =? 5) && (mode_eqb (dmode x) ToNearestAway || (1 <? digits)))
                    else false
             end).
  assert (Hup : up = true <-> up_spec (dmode x) (neg x) (mag x) pr).
  { pose proof (lead_digit_cmp x D Hx S) as Hl. cbv zeta in Hl.
    set (d := dec_digit (mant x) (zlen (mant x) * DW - 1)) in *.
    set (N := val (mant x)) in *. set (L := mdigits (mant x)) in *.
    destruct (WFfin_len x Hx) as [HL1 HL2]. fold L in HL2.
    assert (Hmag : mag x = scaled N (exp x - L)) by reflexivity.
    pose proof (mag_bounds x Hx) as [_ Hmhi].
    (* half a unit in the scale of the mantissa when exp x + pr = 0 *)
    assert (Hhalf : exp x + pr = 0 -> (scaled 5 (- pr - 1) == scaled (5 * 10 ^ (L - 1)) (exp x - L))%Q).
    { intros E0. rewrite scaled_pow by lia. apply (scaled_eq_gen _ _ _ _ (exp x - L)); try lia. f_equal. f_equal. lia. }
    assert (Hfar : exp x + pr < 0 -> (mag x < scaled 5 (- pr - 1))%Q).
    { intros E0. eapply Qlt_le_trans; [exact Hmhi|].
      apply (scaled_le_gen _ _ _ _ (exp x)); try lia. rewrite Z.sub_diag, Z.pow_0_r.
      assert (0 < 10 ^ (- pr - 1 - exp x)) by (apply Z.pow_pos_nonneg; lia). lia. }
    destruct Hl as (Hgt & Hlt & Heq).
    unfold up, up_spec. destruct (dmode x) eqn:Em; cbn [dir_of mode_eqb].
    - (* ToNearestEven *)
      destruct (Z.eqb_spec (exp x + pr) 0) as [E0|E0].
      + rewrite (Hhalf E0), Hmag. rewrite <- scaled_lt_same.
        cbn [orb]. rewrite orb_true_iff, andb_true_iff, Z.ltb_lt, Z.eqb_eq, Z.ltb_lt. rewrite Hdig.
        split.
        * intros [H|[H1 H2]]; [auto|]. destruct (Heq H1) as [A _]. auto.
        * intros H. destruct (Z.lt_trichotomy d 5) as [C|[C|C]]; [specialize (Hlt C); lia| |auto].
          right. split; [exact C|]. destruct (Heq C) as [_ Bq]. destruct (Z.eq_dec (zlen D) 1); [specialize (Bq e); lia|lia].
      + split; [discriminate|]. intros H. exfalso. pose proof (Hfar ltac:(lia)). apply (Qlt_irrefl (mag x)). eapply Qlt_trans; eassumption.
    - (* ToNearestAway *)
      destruct (Z.eqb_spec (exp x + pr) 0) as [E0|E0].
      + rewrite (Hhalf E0), Hmag. rewrite <- scaled_le_same.
        cbn [orb]. rewrite orb_true_iff, andb_true_iff, Z.ltb_lt, Z.eqb_eq.
        split.
        * intros [H|[H1 _]]; [specialize (Hgt H); lia|].
          destruct (Heq H1) as [A Bq]. destruct (Z.eq_dec (zlen D) 1); [specialize (Bq e); lia|specialize (A ltac:(lia)); lia].
        * intros H. destruct (Z.lt_trichotomy d 5) as [C|[C|C]]; [specialize (Hlt C); lia|auto|auto].
      + split; [discriminate|]. intros H. exfalso. pose proof (Hfar ltac:(lia)).
        apply (Qlt_irrefl (mag x)). eapply Qlt_le_trans; eassumption.
    - split; [discriminate|tauto].
    - split; auto.
    - destruct (neg x); split; auto; try discriminate; tauto.
    - destruct (neg x); cbn [negb]; split; auto; try discriminate; tauto. }
  fold up. destruct up eqn:Eu.
  - (* one unit: setBits64 t (neg x) 1 (-pr) *)
    pose proof (setBits64_unit (dmode x) (neg x) pr Hpr) as Hset.
    rewrite Hset. eexists. split; [reflexivity|]. cbn [neg dmode dform]. split; [reflexivity|]. split; [reflexivity|].
    split.
    + intros _. split; [reflexivity|]. split.
      * unfold mag. cbn [mant exp].
        replace (val [1000000000000000000]) with (1 * 10 ^ 18) by (vm_compute; reflexivity).
        replace (mdigits [1000000000000000000]) with 19 by reflexivity.
        rewrite scaled_pow by lia. replace (1 - pr - 19 + 18) with (- pr) by lia. reflexivity.
      * unfold WF, wf_b. cbn [prec dform mant exp]. unfold MaxPrec, MinExp, MaxExp.
        replace (-2147483648 <=? 1 - pr) with true by (symmetry; apply Z.leb_le; lia).
        replace (1 - pr <=? 2147483647) with true by (symmetry; apply Z.leb_le; lia).
        vm_compute. reflexivity.
    + intros H. exfalso. apply H. apply Hup. reflexivity.
  - eexists. split; [reflexivity|]. cbn [neg dmode dform with_neg with_acc with_mode dec_zero].
    split; [reflexivity|]. split; [reflexivity|]. split; [|reflexivity].
    intros H. apply Hup in H. discriminate.
Qed.

(* ------------------------------------------------------------------ *)
(* Append for 'e'/'E' with an explicit precision: round once, then lay out *)

Lemma rounds_le m ng p v r k : 1 <= p -> Rounds m ng p v r -> (v <= scaled 1 k)%Q -> (r <= scaled 1 k)%Q.
Proof.
  intros Hp (M & e & (HM & Hlo & Hhi) & Heq & Hne) Hk. cbv zeta in *.
  assert (Hpe : p - 1 + e <= k).
  { destruct (Z.le_gt_cases (p - 1 + e) k); [assumption|exfalso].
    assert (scaled 1 (k + 1) <= scaled M e)%Q.
    { eapply Qle_trans; [apply (scaled1_le (k + 1) (p - 1 + e)); lia|].
      apply (scaled_le_gen _ _ _ _ e); try lia. rewrite Z.sub_diag, Z.pow_0_r.
      replace (p - 1 + e - e) with (p - 1) by lia. lia. }
    assert (scaled 1 k < scaled 1 (k + 1))%Q.
    { apply (scaled_lt_gen _ _ _ _ k); try lia. rewrite Z.sub_diag, Z.pow_0_r.
      replace (k + 1 - k) with 1 by lia. lia. }
    apply (Qlt_irrefl (scaled 1 k)). eapply Qlt_le_trans; [eassumption|].
    eapply Qle_trans; [eassumption|]. eapply Qle_trans; eassumption. }
  assert (Hlo_le : (scaled M e <= scaled 1 k)%Q) by (eapply Qle_trans; eassumption).
  destruct (Z.eq_dec (p - 1 + e) k) as [Ek|Nk].
  - (* lo = 10^k = v: the value is exact *)
    assert (Hlo_ge : (scaled 1 k <= scaled M e)%Q).
    { apply (scaled_le_gen _ _ _ _ e); try lia. rewrite Z.sub_diag, Z.pow_0_r.
      replace (k - e) with (p - 1) by lia. lia. }
    assert (Ev : (v == scaled M e)%Q).
    { apply Qle_antisym; [|exact Hlo]. eapply Qle_trans; eassumption. }
    rewrite (Heq Ev). exact Hlo_le.
  - assert (Hhi_le : (scaled (M + 1) e <= scaled 1 k)%Q).
    { apply (scaled_le_gen _ _ _ _ e); try lia. rewrite Z.sub_diag, Z.pow_0_r.
      assert (10 ^ p <= 10 ^ (k - e)) by (apply Z.pow_le_mono_r; lia). lia. }
    destruct (Qeq_dec v (scaled M e)) as [E|E]; [rewrite (Heq E); exact Hlo_le|].
    specialize (Hne E). destruct (dir_of m ng).
    + rewrite Hne. exact Hlo_le.
    + rewrite Hne. exact Hhi_le.
    + destruct Hne as (A & Bq & C).
      destruct (Q_dec (v - scaled M e) (scaled (M + 1) e - v)) as [[H|H]|H].
      * rewrite (A H). exact Hlo_le.
      * rewrite (Bq H). exact Hhi_le.
      * rewrite (C H). destruct (Z.even M); assumption.
    + destruct Hne as (A & Bq).
      destruct (Qlt_le_dec (v - scaled M e) (scaled (M + 1) e - v)) as [H|H].
      * rewrite (A H). exact Hlo_le.
      * rewrite (Bq H). exact Hhi_le.
Qed.

(* rounding a finite x whose exponent is below MaxExp stays finite *)
Lemma round_stays_finite p md x x1 : WFfin x -> exp x < MaxExp -> 1 <= p ->
  result_spec p md (neg x) (mag x) x1 -> dform x1 = Ffinite.
Proof.
  intros Hx He Hp [_ H]. pose proof (mag_bounds x Hx) as [Hlo Hhi].
  destruct Hx as [Hne Hok Htop Hprec Hexp Htail].
  destruct (Qlt_le_dec (mag x) (scaled 1 (MinExp - 1))) as [C|_].
  { exfalso. assert (scaled 1 (MinExp - 1) <= scaled 1 (exp x - 1))%Q by (apply scaled1_le; lia).
    apply (Qlt_irrefl (mag x)). eapply Qlt_le_trans; [exact C|]. eapply Qle_trans; eassumption. }
  destruct H as (r & HR & H).
  destruct (Qlt_le_dec r (scaled 1 MaxExp)) as [_|C]; [tauto|exfalso].
  assert (Hr : (r <= scaled 1 (exp x))%Q) by (eapply rounds_le; [exact Hp|exact HR|apply Qlt_le_weak; exact Hhi]).
  assert (scaled 1 (exp x) < scaled 1 MaxExp)%Q.
  { apply (scaled_lt_gen _ _ _ _ (exp x)); try lia. rewrite Z.sub_diag, Z.pow_0_r.
    assert (10 ^ 1 <= 10 ^ (MaxExp - exp x)) by (apply Z.pow_le_mono_r; lia). lia. }
  apply (Qlt_irrefl r). eapply Qle_lt_trans; [exact Hr|]. eapply Qlt_le_trans; eassumption.
Qed.

Theorem append_e buf x fmt pr :
  WF x -> dform x = Ffinite -> (fmt = 101 \/ fmt = 69) -> exp x < MaxExp ->
  mdigits (mant x) < 4294967296 - 18 -> 0 <= pr -> pr + 1 <= MaxPrec ->
  exists x1 d0 tl,
    SigDigits x1 (d0 :: tl) /\ dform x1 = Ffinite /\ neg x1 = neg x /\
    ((forall n, MinPrec x = Some n -> n <= pr + 1) /\ x1 = x \/
     (exists n, MinPrec x = Some n /\ pr + 1 < n) /\ result_spec (pr + 1) (dmode x) (neg x) (mag x) x1) /\
    Append buf x fmt pr =
      Some ((buf ++ sign_bytes (neg x)) ++ [d0] ++
            (if 0 <? pr then 46 :: firstn (Z.to_nat pr) tl ++ zeros (pr - Z.min pr (zlen tl)) else []) ++
            [fmt; e_sign (exp x1 - 1)] ++ exp_digits (exp x1 - 1)).
Proof.
  intros Hwf Hf Hfmt He Hlen Hpr Hmax.
  pose proof (WF_finite x Hwf Hf) as Hx.
  destruct (sig_digits x Hx Hf) as (D & S).
  pose proof (sd_minprec x D S) as Hmp. set (n := zlen D) in *.
  assert (Hrnd : rnd_of x fmt pr = pr + 1).
  { unfold rnd_of. destruct Hfmt as [-> | ->]; cbn [is_eE Z.eqb Pos.eqb orb]; lia. }
  (* the rounded copy *)
  assert (Hx1 : exists x1, round_for_fmt x fmt pr n = Some x1 /\ WF x1 /\ dform x1 = Ffinite /\ neg x1 = neg x /\
            ((n <= pr + 1 /\ x1 = x) \/ (pr + 1 < n /\ result_spec (pr + 1) (dmode x) (neg x) (mag x) x1))).
  { destruct (Z.le_gt_cases n (pr + 1)) as [Hle|Hgt].
    - exists x. rewrite round_step_id by (rewrite Hrnd; exact Hle). auto 10.
    - destruct (round_step x fmt pr n Hwf Hf Hlen ltac:(rewrite Hrnd; lia) ltac:(rewrite Hrnd; lia))
        as (x1 & E & Hspec & Hp1 & Hm1 & Hwf1).
      rewrite Hrnd in Hspec. exists x1. split; [exact E|]. split; [exact Hwf1|].
      split; [eapply round_stays_finite; [exact Hx|exact He| |exact Hspec]; lia|].
      split; [destruct Hspec as [Hn _]; exact Hn|]. right. auto. }
  destruct Hx1 as (x1 & Er & Hwf1 & Hf1 & Hn1 & Hcase).
  pose proof (WF_finite x1 Hwf1 Hf1) as Hxx1.
  destruct (sig_digits x1 Hxx1 Hf1) as (D1 & S1).
  destruct (fmtE_layout (buf ++ sign_bytes (neg x)) x1 D1 fmt pr S1 Hf1 Hpr) as (d0 & tl & ED1 & HE).
  exists x1, d0, tl. rewrite <- ED1. split; [exact S1|]. split; [exact Hf1|]. split; [exact Hn1|]. split.
  - destruct Hcase as [[Hle ->]|[Hgt Hspec]].
    + left. split; [|reflexivity]. intros n0 E0. rewrite Hmp in E0. injection E0 as <-. exact Hle.
    + right. split; [exists n; auto|exact Hspec].
  - unfold Append. rewrite Hf, Hmp.
    replace (pr <? 0) with false by (symmetry; apply Z.ltb_ge; lia).
    destruct Hfmt as [-> | ->]; cbv beta iota zeta;
      cbn [Z.eqb Pos.eqb is_eE is_gG orb andb];
      rewrite Er, (sd_minprec x1 D1 S1); exact HE.
Qed.

(* ------------------------------------------------------------------ *)
(* the 'f' layout for an arbitrary precision *)

(* the first k elements of l followed by zeros *)
Definition take_pad (k : Z) (l : bytes) : bytes := firstn (Z.to_nat k) l ++ zeros (k - Z.min k (zlen l)).

(* the pr digits after the radix point: positions e, e+1, ... of the digit
   string D (position 0 = first digit), zero outside D *)
Definition frac_window (D : bytes) (e pr : Z) : bytes :=
  let lead := Z.min pr (Z.max 0 (- e)) in
  zeros lead ++ take_pad (pr - lead) (skipn (Z.to_nat (Z.max e 0)) D).

Lemma take_pad_len k l : 0 <= k -> zlen (take_pad k l) = k.
Proof.
  intros Hk. unfold take_pad. pose proof (zlen_nonneg l). rewrite zlen_app, zeros_len by lia.
  unfold zlen at 1. rewrite firstn_length. unfold zlen in *. lia.
Qed.

Lemma frac_window_len D e pr : 0 <= pr -> zlen (frac_window D e pr) = pr.
Proof.
  intros Hp. unfold frac_window. cbv zeta. rewrite zlen_app, zeros_len, take_pad_len by lia. lia.
Qed.

Lemma take_pad_zeros k (A : bytes) t : 0 <= k -> 0 <= t ->
  firstn (Z.to_nat k) (A ++ zeros t) ++ zeros (k - zlen (firstn (Z.to_nat k) (A ++ zeros t))) = take_pad k A.
Proof.
  intros Hk Ht. unfold take_pad. pose proof (zlen_nonneg A) as HA.
  destruct (Z.le_gt_cases k (zlen A)) as [H1|H1].
  - rewrite firstn_app_le by (unfold zlen in *; lia).
    assert (E : zlen (firstn (Z.to_nat k) A) = k) by (unfold zlen; rewrite firstn_length; unfold zlen in *; lia).
    rewrite E. replace (k - k) with 0 by lia. replace (k - Z.min k (zlen A)) with 0 by lia. reflexivity.
  - rewrite (firstn_all2 A) by (unfold zlen in *; lia).
    replace (k - Z.min k (zlen A)) with (k - zlen A) by lia.
    destruct (Z.le_gt_cases k (zlen A + t)) as [H2|H2].
    + rewrite firstn_D_zeros by lia. rewrite zlen_app, zeros_len by lia.
      replace (k - (zlen A + (k - zlen A))) with 0 by lia. change (zeros 0) with (@nil Z). now rewrite app_nil_r.
    + rewrite firstn_all2 by (rewrite app_length; unfold zeros; rewrite repeat_length; unfold zlen in *; lia).
      rewrite zlen_app, zeros_len by lia. rewrite <- app_assoc, zeros_app by lia. f_equal. f_equal. lia.
Qed.

Lemma skipn_zeros k t : 0 <= k -> 0 <= t -> skipn (Z.to_nat k) (zeros t) = zeros (Z.max 0 (t - k)).
Proof.
  intros Hk Ht. unfold zeros.
  assert (G : forall n m, skipn n (repeat 48 m) = repeat 48 (m - n)).
  { induction n as [|n IH]; intros m; [now rewrite Nat.sub_0_r|]. destruct m as [|m]; [reflexivity|]. cbn. apply IH. }
  rewrite G. f_equal. lia.
Qed.

Lemma fmtF_layout buf x D pr : SigDigits x D -> dform x = Ffinite -> 0 <= pr ->
  fmtF buf x pr = Some (buf ++ f_int D (exp x) ++ (if 0 <? pr then 46 :: frac_window D (exp x) pr else [])).
Proof.
  intros S Hf Hp. destruct (sd_toa x D S) as (t & Ht & Htoa & Htrim & _).
  pose proof (sd_minprec x D S) as Hmp. destruct (sd_len x D S) as [Hn1 _].
  pose proof (zlen_nonneg D) as HzD.
  unfold fmtF. rewrite Htoa, Hmp. unfold blen. rewrite zlen_app, zeros_len by lia.
  set (e := exp x) in *. set (n := zlen D) in *.
  (* integer part *)
  assert (Hint : (if 0 <? e then if n + t <? Z.min n e then None
                                 else Some (firstn (Z.to_nat (Z.min n e)) (D ++ zeros t) ++ zeros (e - Z.min n e))
                  else Some [48]) = Some (f_int D e)).
  { unfold f_int. fold n. destruct (Z.ltb_spec 0 e) as [Hpos|Hnp].
    - replace (n + t <? Z.min n e) with false by (symmetry; apply Z.ltb_ge; lia).
      rewrite firstn_app_le by (unfold n, zlen in *; lia).
      destruct (Z.leb_spec n e).
      + replace (Z.min n e) with n by lia. replace (Z.to_nat n) with (length D) by (unfold n, zlen; lia).
        now rewrite firstn_all.
      + replace (Z.min n e) with e by lia. replace (e - e) with 0 by lia. change (zeros 0) with (@nil Z).
        now rewrite app_nil_r.
    - destruct (Z.leb_spec n e); [lia|reflexivity]. }
  rewrite Hint. f_equal. f_equal. f_equal.
  destruct (Z.ltb_spec 0 pr) as [Hpos|]; [|reflexivity].
  f_equal. unfold frac_window. cbv zeta. f_equal.
  set (lead := Z.min pr (Z.max 0 (- e))). set (e' := Z.max e 0).
  (* the digits available after position e' *)
  destruct (Z.le_gt_cases e' n) as [Hle|Hgt].
  - rewrite skipn_app_le by (unfold n, zlen in *; lia).
    apply take_pad_zeros; unfold lead; lia.
  - rewrite skipn_app, (skipn_all2 D) by (unfold n, zlen in *; lia). cbn [app].
    replace (Z.to_nat e' - length D)%nat with (Z.to_nat (e' - n)) by (unfold n, zlen; lia).
    rewrite skipn_zeros by lia.
    pose proof (take_pad_zeros (pr - lead) [] (Z.max 0 (t - (e' - n))) ltac:(unfold lead; lia) ltac:(lia)) as HT.
    cbn [app] in HT. exact HT.
Qed.

Lemma classic_up md ng v pr : up_spec md ng v pr \/ ~ up_spec md ng v pr.
Proof.
  unfold up_spec. destruct (dir_of md ng); [right; tauto|left; exact I| |].
  - destruct (Qlt_le_dec (scaled 5 (- pr - 1)) v) as [H|H]; [left; exact H|right].
    intros C. apply (Qlt_irrefl v). eapply Qle_lt_trans; eassumption.
  - destruct (Qlt_le_dec v (scaled 5 (- pr - 1))) as [H|H]; [right|left; exact H].
    intros C. apply (Qlt_irrefl v). eapply Qlt_le_trans; eassumption.
Qed.

Lemma fmtF_zero buf x pr : dform x = Fzero -> 0 <= pr ->
  fmtF buf x pr = Some (buf ++ [48] ++ (if 0 <? pr then 46 :: zeros pr else [])).
Proof.
  intros Hf Hp. unfold fmtF, toa. rewrite Hf. cbv beta iota zeta.
  change (0 <? 0) with false. cbv iota. f_equal. f_equal. f_equal.
  destruct (Z.ltb_spec 0 pr); [|reflexivity].
  replace (Z.min pr (Z.max 0 (- 0))) with 0 by lia.
  cbn [Z.max Z.to_nat skipn]. rewrite firstn_nil. unfold blen. change (zlen (@nil Z)) with 0.
  change (zeros 0) with (@nil Z). cbn [app]. f_equal. f_equal. lia.
Qed.

(* Append for 'f' with an explicit precision pr >= 0, end to end.  x1 is
   - x itself when no digit of x lies beyond the position 10^-pr,
   - x rounded once to exp x + pr digits under x's mode when the position is
     inside the digits of x,
   - one unit 10^-pr or a zero (by up_spec) when it is at or above the leading
     digit;
   the output is the sign of x followed by the 'f' layout of x1: integer part
   (f_int), and after the point exactly pr digits (frac_window). *)
Theorem append_f buf x pr D :
  WF x -> dform x = Ffinite -> SigDigits x D -> exp x < MaxExp ->
  mdigits (mant x) < 4294967296 - 18 -> 0 <= pr <= 2147483648 -> exp x + pr <= MaxPrec ->
  exists x1,
    neg x1 = neg x /\
    ((zlen D <= exp x + pr /\ x1 = x) \/
     (1 <= exp x + pr < zlen D /\ dform x1 = Ffinite /\ result_spec (exp x + pr) (dmode x) (neg x) (mag x) x1) \/
     (exp x + pr <= 0 /\
      (up_spec (dmode x) (neg x) (mag x) pr -> dform x1 = Ffinite /\ (mag x1 == scaled 1 (- pr))%Q) /\
      (~ up_spec (dmode x) (neg x) (mag x) pr -> dform x1 = Fzero))) /\
    (dform x1 = Ffinite ->
       exists D1, SigDigits x1 D1 /\
         Append buf x 102 pr = Some ((buf ++ sign_bytes (neg x)) ++ f_int D1 (exp x1) ++
                                     (if 0 <? pr then 46 :: frac_window D1 (exp x1) pr else []))) /\
    (dform x1 = Fzero ->
       Append buf x 102 pr = Some ((buf ++ sign_bytes (neg x)) ++ [48] ++ (if 0 <? pr then 46 :: zeros pr else []))).
Proof.
  intros Hwf Hf S He Hlen Hpr Hmax.
  pose proof (WF_finite x Hwf Hf) as Hx.
  pose proof (sd_minprec x D S) as Hmp. destruct (sd_len x D S) as [Hn1 _]. set (n := zlen D) in *.
  assert (Hrnd : rnd_of x 102 pr = Z.max (exp x + pr) 0).
  { unfold rnd_of, mexp. rewrite Hf. reflexivity. }
  (* Append = fmtF of the rounded copy *)
  assert (HA : forall x1 k, round_for_fmt x 102 pr n = Some x1 -> MinPrec x1 = Some k ->
            Append buf x 102 pr = fmtF (buf ++ sign_bytes (neg x)) x1 pr).
  { intros x1 k Er Hk. unfold Append. rewrite Hf, Hmp.
    replace (pr <? 0) with false by (symmetry; apply Z.ltb_ge; lia).
    cbv beta iota zeta. cbn [Z.eqb Pos.eqb is_eE is_gG orb andb]. rewrite Er, Hk. reflexivity. }
  assert (Hfin : forall x1, round_for_fmt x 102 pr n = Some x1 -> WF x1 -> dform x1 = Ffinite ->
            exists D1, SigDigits x1 D1 /\
              Append buf x 102 pr = Some ((buf ++ sign_bytes (neg x)) ++ f_int D1 (exp x1) ++
                                          (if 0 <? pr then 46 :: frac_window D1 (exp x1) pr else []))).
  { intros x1 Er Hw1 Hf1. destruct (sig_digits x1 (WF_finite x1 Hw1 Hf1) Hf1) as (D1 & S1).
    exists D1. split; [exact S1|]. rewrite (HA x1 _ Er (sd_minprec x1 D1 S1)).
    apply fmtF_layout; [exact S1|exact Hf1|lia]. }
  destruct (Z.le_gt_cases n (exp x + pr)) as [Hc|Hc].
  - (* nothing to round *)
    assert (Er : round_for_fmt x 102 pr n = Some x) by (apply round_step_id; rewrite Hrnd; lia).
    exists x. split; [reflexivity|]. split; [left; auto|]. split.
    + intros _. apply Hfin; assumption.
    + intros Hz. congruence.
  - destruct (Z.le_gt_cases (exp x + pr) 0) as [Hz|Hpos].
    + (* at or above the leading digit *)
      destruct (round_step_zero x pr n D Hwf Hf S eq_refl Hpr Hz) as (x1 & Er & Hn & Hm & Hup & Hdn).
      exists x1. split; [exact Hn|]. split.
      * right. right. split; [exact Hz|]. split; [intros H; destruct (Hup H) as (A & Bq & _); auto|exact Hdn].
      * split.
        -- intros Hf1. destruct (classic_up (dmode x) (neg x) (mag x) pr) as [U|U].
           ++ destruct (Hup U) as (_ & _ & Hw1). apply Hfin; assumption.
           ++ rewrite (Hdn U) in Hf1. discriminate.
        -- intros Hz1. rewrite (HA x1 0 Er); [apply fmtF_zero; [exact Hz1|lia]|].
           unfold MinPrec. rewrite Hz1. reflexivity.
    + (* inside the digits *)
      destruct (round_step x 102 pr n Hwf Hf Hlen ltac:(rewrite Hrnd; lia) ltac:(rewrite Hrnd; lia))
        as (x1 & Er & Hspec & Hp1 & Hm1 & Hw1).
      rewrite Hrnd in Hspec. replace (Z.max (exp x + pr) 0) with (exp x + pr) in Hspec by lia.
      assert (Hf1 : dform x1 = Ffinite) by (eapply round_stays_finite; [exact Hx|exact He| |exact Hspec]; lia).
      exists x1. split; [destruct Hspec as [Hn _]; exact Hn|]. split; [right; left; split; [lia|split; assumption]|]. split.
      * intros _. apply Hfin; assumption.
      * intros Hz1. congruence.
Qed.

(* Append for 'g' / 'G' with an explicit precision: round once to P = max(pr,1)
   digits, then choose the 'e' layout when the exponent of the rounded value is
   below -4 or at least eprec (P, or the digit count when trailing zeros were
   dropped and the value is below 10^digits), else the 'f' layout with just
   enough digits *)
Theorem append_g buf x fmt pr :
  WF x -> dform x = Ffinite -> (fmt = 103 \/ fmt = 71) -> exp x < MaxExp ->
  mdigits (mant x) < 4294967296 - 18 -> 0 <= pr -> pr + 1 <= MaxPrec ->
  let P := if pr =? 0 then 1 else pr in
  exists x1 D1 d0 tl,
    SigDigits x1 D1 /\ D1 = d0 :: tl /\ dform x1 = Ffinite /\ neg x1 = neg x /\
    ((forall n, MinPrec x = Some n -> n <= P) /\ x1 = x \/
     (exists n, MinPrec x = Some n /\ P < n) /\ result_spec P (dmode x) (neg x) (mag x) x1) /\
    let nd := zlen D1 in
    let eprec := if (nd <? P) && (exp x1 <=? nd) then nd else P in
    let ech := fmt + 101 - 103 in
    Append buf x fmt pr =
      if (exp x1 - 1 <? -4) || (eprec <=? exp x1 - 1) then
        let q := (if nd <? P then nd else P) - 1 in
        Some ((buf ++ sign_bytes (neg x)) ++ [d0] ++
              (if 0 <? q then 46 :: firstn (Z.to_nat q) tl ++ zeros (q - Z.min q (zlen tl)) else []) ++
              [ech; e_sign (exp x1 - 1)] ++ exp_digits (exp x1 - 1))
      else
        let q := Z.max ((if exp x1 <? P then nd else P) - exp x1) 0 in
        Some ((buf ++ sign_bytes (neg x)) ++ f_int D1 (exp x1) ++
              (if 0 <? q then 46 :: frac_window D1 (exp x1) q else [])).
Proof.
  intros Hwf Hf Hfmt He Hlen Hpr Hmax P.
  assert (HP : 1 <= P <= pr + 1) by (unfold P; destruct (Z.eqb_spec pr 0); lia).
  pose proof (WF_finite x Hwf Hf) as Hx.
  destruct (sig_digits x Hx Hf) as (D & S).
  pose proof (sd_minprec x D S) as Hmp. set (n := zlen D) in *.
  assert (Hrnd : rnd_of x fmt pr = P).
  { unfold rnd_of, P. destruct Hfmt as [-> | ->]; reflexivity. }
  assert (Hx1 : exists x1, round_for_fmt x fmt pr n = Some x1 /\ WF x1 /\ dform x1 = Ffinite /\ neg x1 = neg x /\
            ((n <= P /\ x1 = x) \/ (P < n /\ result_spec P (dmode x) (neg x) (mag x) x1))).
  { destruct (Z.le_gt_cases n P) as [Hle|Hgt].
    - exists x. rewrite round_step_id by (rewrite Hrnd; exact Hle). auto 10.
    - destruct (round_step x fmt pr n Hwf Hf Hlen ltac:(rewrite Hrnd; lia) ltac:(rewrite Hrnd; lia))
        as (x1 & E & Hspec & Hp1 & Hm1 & Hwf1).
      rewrite Hrnd in Hspec. exists x1. split; [exact E|]. split; [exact Hwf1|].
      split; [eapply round_stays_finite; [exact Hx|exact He| |exact Hspec]; lia|].
      split; [destruct Hspec as [Hn _]; exact Hn|]. right. auto. }
  destruct Hx1 as (x1 & Er & Hwf1 & Hf1 & Hn1 & Hcase).
  destruct (sig_digits x1 (WF_finite x1 Hwf1 Hf1) Hf1) as (D1 & S1).
  destruct (sd_len x1 D1 S1) as [Hnd1 _].
  set (nd := zlen D1) in *.
  set (q1 := (if nd <? P then nd else P) - 1).
  assert (Hq1 : 0 <= q1) by (unfold q1; destruct (nd <? P); lia).
  destruct (fmtE_layout (buf ++ sign_bytes (neg x)) x1 D1 (fmt + 101 - 103) q1 S1 Hf1 Hq1) as (d0 & tl & ED1 & HE).
  exists x1, D1, d0, tl. split; [exact S1|]. split; [exact ED1|]. split; [exact Hf1|]. split; [exact Hn1|]. split.
  - destruct Hcase as [[Hle ->]|[Hgt Hspec]].
    + left. split; [|reflexivity]. intros n0 E0. rewrite Hmp in E0. injection E0 as <-. exact Hle.
    + right. split; [exists n; auto|exact Hspec].
  - cbv zeta. unfold Append. rewrite Hf, Hmp.
    replace (pr <? 0) with false by (symmetry; apply Z.ltb_ge; lia).
    destruct Hfmt as [-> | ->]; cbv beta iota zeta;
      cbn [Z.eqb Pos.eqb is_eE is_gG orb andb]; fold P;
      rewrite Er, (sd_minprec x1 D1 S1); fold nd; unfold mexp; rewrite ?Hf1; cbv iota;
      (destruct ((exp x1 - 1 <? -4) || ((if (nd <? P) && (exp x1 <=? nd) then nd else P) <=? exp x1 - 1));
       [exact HE|apply fmtF_layout; [exact S1|exact Hf1|lia]]).
Qed.
