(* L4/ToaProofs.v — proofs about the formatting model (L4/Toa.v): digit
   strings of mantissas, MinPrec, and the round trip through the scanner
   (C11). *)
From Coq Require Import ZArith QArith Lia List Bool.
From Dec Require Import Base.Words Base.WordsProofs Base.QPow L3.Decimal L3.Round L3.Arith
  L3.CmpProofs Spec.Rounding Spec.RoundingFacts L3.RoundProofs L3.ArithProofs L4.Scan L4.ScanProofs L4.Toa.
Open Scope Z_scope.

(* ------------------------------------------------------------------ *)
(* digit strings *)

Definition is_digit (c : Z) : bool := (48 <=? c) && (c <=? 57).
Definition all_digits (s : bytes) : bool := forallb is_digit s.

(* value of a digit string, accumulated as the scanners do *)
Fixpoint digval (s : bytes) (acc : Z) : Z :=
  match s with
  | [] => acc
  | c :: r => digval r (acc * 10 + (c - 48))
  end.

Lemma is_digit_iff c : is_digit c = true <-> 48 <= c <= 57.
Proof. unfold is_digit. rewrite andb_true_iff, !Z.leb_le. tauto. Qed.

Lemma all_digits_app a b : all_digits (a ++ b) = all_digits a && all_digits b.
Proof. apply forallb_app. Qed.

Lemma digval_app a b acc : digval (a ++ b) acc = digval b (digval a acc).
Proof. revert acc. induction a as [|c a IH]; intros acc; [reflexivity|]. cbn. apply IH. Qed.

Lemma digval_acc s acc : digval s acc = acc * 10 ^ zlen s + digval s 0.
Proof.
  revert acc. induction s as [|c s IH]; intros acc.
  - cbn [digval]. change (zlen (@nil Z)) with 0. rewrite Z.pow_0_r. lia.
  - cbn [digval]. rewrite (IH (acc * 10 + (c - 48))), (IH (0 * 10 + (c - 48))), zlen_cons.
    rewrite Z.pow_add_r, Z.pow_1_r by (pose proof (zlen_nonneg s); lia). ring.
Qed.

Lemma digval_bounds s : all_digits s = true -> 0 <= digval s 0 < 10 ^ zlen s.
Proof.
  induction s as [|c s IH] using rev_ind; intros H.
  - cbn [digval]. change (zlen (@nil Z)) with 0. rewrite Z.pow_0_r. lia.
  - rewrite all_digits_app in H. apply andb_true_iff in H as [Hs Hc].
    cbn in Hc. rewrite andb_true_r in Hc. apply is_digit_iff in Hc.
    specialize (IH Hs). rewrite digval_app. cbn [digval].
    rewrite zlen_app. change (zlen [c]) with 1.
    rewrite Z.pow_add_r, Z.pow_1_r by (pose proof (zlen_nonneg s); lia). lia.
Qed.

Lemma zlen_repeat {A} (a : A) k : zlen (repeat a k) = Z.of_nat k.
Proof. unfold zlen. now rewrite repeat_length. Qed.

Lemma zeros_len k : 0 <= k -> zlen (zeros k) = k.
Proof. intros. unfold zeros. rewrite zlen_repeat. lia. Qed.

Lemma all_digits_zeros k : all_digits (zeros k) = true.
Proof. unfold zeros. induction (Z.to_nat k); [reflexivity|]. cbn. exact IHn. Qed.

Lemma digval_zeros k acc : 0 <= k -> digval (zeros k) acc = acc * 10 ^ k.
Proof.
  intros Hk. unfold zeros. rewrite <- (Z2Nat.id k) at 2 by lia.
  generalize (Z.to_nat k) as n. clear. intros n. revert acc.
  induction n as [|n IH]; intros acc.
  - cbn. lia.
  - cbn [repeat digval]. rewrite IH. rewrite Nat2Z.inj_succ, Z.pow_succ_r by lia. ring.
Qed.

(* ---- wdigits ---- *)

Lemma wdigits_len k w : zlen (wdigits k w) = Z.of_nat k.
Proof.
  revert w. induction k as [|k IH]; intros w; [reflexivity|].
  cbn [wdigits]. rewrite zlen_app, IH. change (zlen [48 + w mod 10]) with 1. lia.
Qed.

Lemma wdigits_digits k w : all_digits (wdigits k w) = true.
Proof.
  revert w. induction k as [|k IH]; intros w; [reflexivity|].
  cbn [wdigits]. rewrite all_digits_app, IH. cbn [all_digits forallb andb]. rewrite andb_true_r.
  apply is_digit_iff. pose proof (Z.mod_pos_bound w 10 ltac:(lia)). lia.
Qed.

Lemma wdigits_val k w : 0 <= w -> digval (wdigits k w) 0 = w mod 10 ^ Z.of_nat k.
Proof.
  revert w. induction k as [|k IH]; intros w Hw.
  - cbn. now rewrite Z.mod_1_r.
  - cbn [wdigits]. rewrite digval_app. cbn [digval].
    rewrite IH by (apply Z.div_pos; lia).
    rewrite Nat2Z.inj_succ, Z.pow_succ_r by lia.
    replace (48 + w mod 10 - 48) with (w mod 10) by lia.
    assert (HP : 0 < 10 ^ Z.of_nat k) by (apply Z.pow_pos_nonneg; lia).
    rewrite Z.rem_mul_r by lia. lia.
Qed.

(* ---- the digit string of a word list ---- *)
Definition wstr (m : list Z) : bytes := flat_map (wdigits 19) (rev m).

Lemma wstr_cons w m : wstr (w :: m) = wstr m ++ wdigits 19 w.
Proof. unfold wstr. cbn [rev]. rewrite flat_map_app. cbn [flat_map]. now rewrite app_nil_r. Qed.

Lemma wstr_len m : zlen (wstr m) = 19 * zlen m.
Proof.
  induction m as [|w m IH]; [reflexivity|].
  rewrite wstr_cons, zlen_app, IH, wdigits_len, zlen_cons. lia.
Qed.

Lemma wstr_digits m : all_digits (wstr m) = true.
Proof.
  induction m as [|w m IH]; [reflexivity|].
  rewrite wstr_cons, all_digits_app, IH, wdigits_digits. reflexivity.
Qed.

Lemma wstr_val m : words_ok m = true -> digval (wstr m) 0 = val m.
Proof.
  induction m as [|w m IH]; intros Hok; [reflexivity|].
  apply words_ok_cons in Hok as [Hw Hm].
  rewrite wstr_cons, digval_app, digval_acc, IH by assumption.
  rewrite wdigits_len, wdigits_val by lia.
  change (Z.of_nat 19) with 19. rewrite <- B_eq. rewrite Z.mod_small by lia. cbn [val]. lia.
Qed.

(* ---- strip0 / trim0 ---- *)

Lemma strip0_id s : all_digits s = true -> 0 < zlen s -> 10 ^ (zlen s - 1) <= digval s 0 -> strip0 s = s.
Proof.
  intros Hd Hl Hv. destruct s as [|c s]; [reflexivity|].
  cbn [strip0]. destruct (Z.eqb_spec c 48) as [->|]; [exfalso|reflexivity].
  cbn [all_digits forallb] in Hd. apply andb_true_iff in Hd as [_ Hs].
  cbn [digval] in Hv. rewrite zlen_cons in Hv.
  pose proof (digval_bounds s Hs). replace (zlen s + 1 - 1) with (zlen s) in Hv by lia.
  change (0 * 10 + (48 - 48)) with 0 in Hv. lia.
Qed.

(* a digit string is its trimmed part followed by zeros *)
Lemma strip0_spec s : exists k, s = zeros (Z.of_nat k) ++ strip0 s /\ (strip0 s = [] \/ exists c t, strip0 s = c :: t /\ c <> 48).
Proof.
  induction s as [|c s IH].
  - exists O. split; [reflexivity|left; reflexivity].
  - cbn [strip0]. destruct (Z.eqb_spec c 48) as [->|Hne].
    + destruct IH as (k & E & H). exists (S k). split; [|exact H].
      unfold zeros. rewrite Nat2Z.id. cbn [repeat app]. f_equal.
      unfold zeros in E. rewrite Nat2Z.id in E. exact E.
    + exists O. split; [reflexivity|]. right. eauto.
Qed.

Lemma rev_zeros k : rev (zeros k) = zeros k.
Proof.
  unfold zeros. induction (Z.to_nat k) as [|n IH]; [reflexivity|].
  cbn [repeat rev]. rewrite IH. clear. induction n; [reflexivity|]. cbn. now rewrite IHn.
Qed.

Lemma trim0_spec s : exists k, s = trim0 s ++ zeros (Z.of_nat k) /\
  (trim0 s = [] \/ exists t c, trim0 s = t ++ [c] /\ c <> 48).
Proof.
  unfold trim0. destruct (strip0_spec (rev s)) as (k & E & H).
  exists k. split.
  - apply (f_equal (@rev Z)) in E. rewrite rev_involutive, rev_app_distr, rev_zeros in E. exact E.
  - destruct H as [H|(c & t & H & Hc)]; [left; now rewrite H|].
    right. exists (rev t), c. rewrite H. cbn [rev]. auto.
Qed.

(* ---- trailing zero digits ---- *)

Lemma ntz_fuel_spec f n a : 0 < n -> n < 2 ^ Z.of_nat f ->
  exists t, ntz_fuel f n a = a + t /\ 0 <= t /\ n mod 10 ^ t = 0 /\ (n / 10 ^ t) mod 10 <> 0.
Proof.
  revert n a. induction f as [|f IH]; intros n a Hn Hlt.
  - cbn in Hlt. lia.
  - cbn [ntz_fuel]. destruct (Z.eqb_spec (n mod 10) 0) as [E|E].
    + assert (Hn10 : 0 < n / 10).
      { apply Z.div_str_pos. pose proof (Z.div_mod n 10 ltac:(lia)). lia. }
      assert (Hlt' : n / 10 < 2 ^ Z.of_nat f).
      { rewrite Nat2Z.inj_succ, Z.pow_succ_r in Hlt by lia.
        apply Z.div_lt_upper_bound; lia. }
      destruct (IH (n / 10) (a + 1) Hn10 Hlt') as (t & Et & Ht & Hm & Hd).
      exists (t + 1). split; [lia|]. split; [lia|].
      rewrite Z.pow_add_r, Z.pow_1_r by lia.
      assert (HP : 0 < 10 ^ t) by (apply Z.pow_pos_nonneg; lia).
      split.
      * rewrite (Z.mul_comm (10 ^ t)), Z.rem_mul_r by lia. rewrite E, Hm. lia.
      * rewrite (Z.mul_comm (10 ^ t)), <- Z.div_div by lia. exact Hd.
    + exists 0. rewrite Z.pow_0_r, Z.mod_1_r, Z.div_1_r. repeat split; lia.
Qed.

Lemma ntz10_spec n : 0 < n -> 0 <= ntz10 n /\ n mod 10 ^ ntz10 n = 0 /\ (n / 10 ^ ntz10 n) mod 10 <> 0.
Proof.
  intros Hn. unfold ntz10. destruct (Z.leb_spec n 0); [lia|].
  destruct (ntz_fuel_spec (S (Z.to_nat (Z.log2 n))) n 0 Hn) as (t & E & Ht & Hm & Hd).
  { rewrite Nat2Z.inj_succ, Z2Nat.id by apply Z.log2_nonneg. apply Z.log2_spec. lia. }
  rewrite E, Z.add_0_l. auto.
Qed.

Lemma ntz_unique n c t : 0 <= t -> n = c * 10 ^ t -> c mod 10 <> 0 -> 0 < n -> ntz10 n = t.
Proof.
  intros Ht En Hc Hn. destruct (ntz10_spec n Hn) as (Hs & Hm & Hd).
  set (u := ntz10 n) in *.
  assert (HPt : 0 < 10 ^ t) by (apply Z.pow_pos_nonneg; lia).
  assert (HPu : 0 < 10 ^ u) by (apply Z.pow_pos_nonneg; lia).
  destruct (Z.lt_trichotomy u t) as [Hlt|[->|Hgt]]; [exfalso| reflexivity |exfalso].
  - (* u < t: n / 10^u = c * 10^(t-u) is a multiple of 10 *)
    apply Hd. rewrite En. replace t with (t - u + u) by lia. rewrite Z.pow_add_r by lia.
    rewrite Z.mul_assoc, Z.div_mul by lia.
    replace (t - u) with (t - u - 1 + 1) by lia. rewrite Z.pow_add_r, Z.pow_1_r by lia.
    rewrite Z.mul_assoc. apply Z.mod_mul. lia.
  - (* t < u: c = n / 10^t is a multiple of 10 *)
    apply Hc. assert (Ec : c = n / 10 ^ t) by (rewrite En, Z.div_mul; lia).
    apply Z.mod_divide in Hm; [|lia]. destruct Hm as [q Hq].
    rewrite Ec, Hq. replace u with (u - t + t) by lia. rewrite Z.pow_add_r by lia.
    rewrite Z.mul_assoc, Z.div_mul by lia.
    replace (u - t) with (u - t - 1 + 1) by lia. rewrite Z.pow_add_r, Z.pow_1_r by lia.
    rewrite Z.mul_assoc. apply Z.mod_mul. lia.
Qed.

(* dec.trailingZeroDigits counts the trailing zeros of the value *)
Lemma tzd_spec m : words_ok m = true -> 0 < val m -> tzd m = Some (ntz10 (val m)).
Proof.
  induction m as [|w m IH]; intros Hok Hv; [cbn in Hv; lia|].
  apply words_ok_cons in Hok as [Hw Hm]. cbn [tzd val] in *.
  destruct (Z.eqb_spec w 0) as [->|Hne].
  - assert (Hvm : 0 < val m) by (pose proof B_pos; nia).
    rewrite (IH Hm Hvm). f_equal.
    destruct (ntz10_spec (val m) Hvm) as (Hs & Hmod & Hd).
    symmetry. apply (ntz_unique _ (val m / 10 ^ ntz10 (val m)) (DW + ntz10 (val m))); cbv [DW]; try lia; try assumption.
    rewrite Z.add_0_l, Z.pow_add_r, <- B_eq by lia.
    assert (HP : 0 < 10 ^ ntz10 (val m)) by (apply Z.pow_pos_nonneg; lia).
    rewrite (Z.div_mod (val m) (10 ^ ntz10 (val m))) at 1 by lia. rewrite Hmod. ring.
  - f_equal. assert (Hw0 : 0 < w) by lia.
    destruct (ntz10_spec w Hw0) as (Hs & Hmod & Hd).
    set (t := ntz10 w) in *.
    assert (HP : 0 < 10 ^ t) by (apply Z.pow_pos_nonneg; lia).
    assert (Ht : t <= 18).
    { destruct (Z.le_gt_cases t 18); [assumption|exfalso].
      assert (10 ^ 19 <= 10 ^ t) by (apply Z.pow_le_mono_r; lia).
      apply Z.mod_divide in Hmod; [|lia]. destruct Hmod as [q Hq]. rewrite B_eq in Hw.
      set (P := 10 ^ t) in *. assert (0 < q) by nia. assert (P <= q * P) by nia. lia. }
    symmetry. apply (ntz_unique _ (w / 10 ^ t + 10 ^ (19 - t) * val m) t); try lia.
    + rewrite Z.mul_add_distr_r.
      rewrite (Z.div_mod w (10 ^ t)) at 1 by lia. rewrite Hmod.
      rewrite B_eq. replace 19 with (19 - t + t) at 1 by lia. rewrite Z.pow_add_r by lia. ring.
    + replace (19 - t) with (19 - t - 1 + 1) by lia. rewrite Z.pow_add_r, Z.pow_1_r by lia.
      rewrite <- Z.mul_assoc, (Z.mul_comm 10), Z.mul_assoc, Z.mod_add by lia. exact Hd.
Qed.

(* ---- strip_low ---- *)
Lemma strip_low_spec m : exists k, val m = val (strip_low m) * B ^ Z.of_nat k /\
  zlen m = zlen (strip_low m) + Z.of_nat k /\ (words_ok m = true -> words_ok (strip_low m) = true) /\
  (m <> [] -> last m 0 <> 0 -> strip_low m <> [] /\ last (strip_low m) 0 = last m 0).
Proof.
  induction m as [|w m IH].
  - exists O. cbn. repeat split; auto; lia.
  - destruct (Z.eq_dec w 0) as [->|Hne].
    + destruct IH as (k & Hv & Hl & Hok & Hlast). exists (S k).
      cbn [strip_low val]. rewrite Nat2Z.inj_succ, Z.pow_succ_r by lia. rewrite zlen_cons.
      split; [rewrite Hv; ring|]. split; [lia|]. split.
      * intros H. apply words_ok_cons in H as [_ H]. auto.
      * intros _ Hl0. destruct m as [|w' m']; [cbn in Hl0; congruence|].
        change (last (0 :: w' :: m') 0) with (last (w' :: m') 0) in *.
        apply Hlast; [discriminate|exact Hl0].
    + exists O. assert (E : strip_low (w :: m) = w :: m) by (destruct w; try reflexivity; congruence).
      rewrite E. change (Z.of_nat 0) with 0. rewrite Z.pow_0_r, Z.mul_1_r, Z.add_0_r. repeat split; auto; discriminate.
Qed.

(* ------------------------------------------------------------------ *)
(* the significant digits of a well-formed finite Decimal *)

Lemma digval_snoc t c : digval (t ++ [c]) 0 = digval t 0 * 10 + (c - 48).
Proof. rewrite digval_app. reflexivity. Qed.

Lemma utoa_wstr m : m <> [] -> strip0 (wstr m) = wstr m -> wstr m <> [] -> utoa m = Some (wstr m).
Proof.
  intros Hne Hs Hw. unfold utoa. destruct m as [|w0 r0]; [congruence|].
  fold (wstr (w0 :: r0)). rewrite Hs. destruct (wstr (w0 :: r0)); [congruence|reflexivity].
Qed.

Lemma MinPrec_finite x : dform x = Ffinite -> mant x <> [] ->
  MinPrec x = match tzd (mant x) with Some t => Some (zlen (mant x) * DW - t) | None => None end.
Proof. intros Hf Hne. unfold MinPrec. rewrite Hf. destruct (mant x); [congruence|reflexivity]. Qed.

Record SigDigits (x : Dec) (D : bytes) : Prop := {
  sd_toa : exists t, 0 <= t /\ toa x = Some (D ++ zeros t, exp x) /\ trim0 (D ++ zeros t) = D /\
                     zlen D + t <= mdigits (mant x);
  sd_digits : all_digits D = true;
  sd_last : exists T c, D = T ++ [c] /\ c <> 48;
  sd_minprec : MinPrec x = Some (zlen D);
  sd_val : val (mant x) = digval D 0 * 10 ^ (mdigits (mant x) - zlen D);
  sd_len : 1 <= zlen D <= mdigits (mant x);
  sd_range : 10 ^ (zlen D - 1) <= digval D 0 < 10 ^ zlen D
}.

Lemma sig_digits x : WFfin x -> dform x = Ffinite -> exists D, SigDigits x D.
Proof.
  intros [Hne Hok Htop Hprec Hexp Htail] Hf.
  set (m := mant x) in *.
  assert (HB18 : B / 10 = 10 ^ 18) by (rewrite B_eq; reflexivity).
  assert (Hlast : last m 0 <> 0) by (unfold last_word in Htop; lia).
  destruct (strip_low_spec m) as (k & Hv & Hl & Hok' & Hlast').
  specialize (Hok' Hok). destruct (Hlast' Hne Hlast) as [Hne' Hl'].
  set (m' := strip_low m) in *.
  assert (Htop' : B / 10 <= last_word m') by (unfold last_word in *; rewrite Hl'; exact Htop).
  pose proof (mant_val_bounds m' Hne' Hok' Htop') as [Hlo Hhi].
  assert (HL' : 1 <= zlen m') by (destruct m'; [congruence|rewrite zlen_cons; pose proof (zlen_nonneg m'); lia]).
  unfold mdigits in *. cbv [DW] in *.
  (* utoa of the stripped words *)
  assert (Hstrip : strip0 (wstr m') = wstr m').
  { apply strip0_id; [apply wstr_digits|rewrite wstr_len; lia|]. rewrite wstr_len, wstr_val by assumption. exact Hlo. }
  assert (Hwne : wstr m' <> []).
  { intros E. apply (f_equal (@zlen Z)) in E. rewrite wstr_len in E. change (zlen (@nil Z)) with 0 in E. lia. }
  assert (Hutoa : utoa m' = Some (wstr m')) by (apply utoa_wstr; assumption).
  destruct (trim0_spec (wstr m')) as (tn & Es & Hlastc).
  set (D := trim0 (wstr m')) in *. set (t := Z.of_nat tn) in *.
  assert (Ht : 0 <= t) by (unfold t; lia).
  assert (HdD : all_digits D = true).
  { pose proof (wstr_digits m') as H. rewrite Es, all_digits_app in H. now apply andb_true_iff in H as [H _]. }
  assert (Hvm' : val m' = digval D 0 * 10 ^ t).
  { rewrite <- (wstr_val m' Hok'), Es, digval_app, digval_zeros by lia. reflexivity. }
  assert (Hlen : zlen D + t = 19 * zlen m').
  { rewrite <- wstr_len, Es, zlen_app, zeros_len by lia. reflexivity. }
  assert (HPt : 0 < 10 ^ t) by (apply Z.pow_pos_nonneg; lia).
  destruct Hlastc as [E0|(T & c & ED & Hc)].
  { exfalso. rewrite E0 in Hvm'. cbn [digval] in Hvm'.
    assert (0 < 10 ^ (19 * zlen m' - 1)) by (apply Z.pow_pos_nonneg; lia). lia. }
  assert (Hcd : 48 <= c <= 57).
  { rewrite ED, all_digits_app in HdD. apply andb_true_iff in HdD as [_ H]. cbn in H.
    rewrite andb_true_r in H. now apply is_digit_iff. }
  assert (HlenD : 1 <= zlen D).
  { rewrite ED, zlen_app. change (zlen [c]) with 1. pose proof (zlen_nonneg T). lia. }
  assert (Hmod : digval D 0 mod 10 <> 0).
  { rewrite ED, digval_snoc. rewrite Z.add_comm, Z.mod_add by lia. rewrite Z.mod_small by lia. lia. }
  pose proof (digval_bounds D HdD) as [HD0 HDhi].
  assert (HDlo : 10 ^ (zlen D - 1) <= digval D 0).
  { rewrite Hvm' in Hlo. replace (19 * zlen m' - 1) with (zlen D - 1 + t) in Hlo by lia.
    rewrite Z.pow_add_r in Hlo by lia. nia. }
  assert (Hk : 0 <= Z.of_nat k) by lia.
  assert (Hvm : val m = digval D 0 * 10 ^ (t + 19 * Z.of_nat k)).
  { rewrite Hv, Hvm', Z.pow_add_r by lia. rewrite <- pow10_19 by lia. ring. }
  assert (Hvpos : 0 < val m).
  { rewrite Hvm. assert (0 < 10 ^ (zlen D - 1)) by (apply Z.pow_pos_nonneg; lia).
    assert (0 < 10 ^ (t + 19 * Z.of_nat k)) by (apply Z.pow_pos_nonneg; lia). nia. }
  exists D. constructor.
  - exists t. split; [exact Ht|]. split; [|split].
    + unfold toa. rewrite Hf. fold m m'. rewrite Hutoa, Es. reflexivity.
    + rewrite <- Es. reflexivity.
    + fold m. unfold mdigits. cbv [DW]. lia.
  - exact HdD.
  - eauto.
  - rewrite (MinPrec_finite x Hf Hne). fold m.
    rewrite (tzd_spec m Hok Hvpos).
    rewrite (ntz_unique (val m) (digval D 0) (t + 19 * Z.of_nat k)) by (try assumption; lia).
    f_equal. cbv [DW]. lia.
  - fold m. unfold mdigits. cbv [DW]. rewrite Hvm. f_equal. f_equal. lia.
  - fold m. unfold mdigits. cbv [DW]. lia.
  - split; assumption.
Qed.

(* ------------------------------------------------------------------ *)
(* the scanners on digit strings *)

Lemma digit_facts c : is_digit c = true ->
  (c =? 46) = false /\ (c =? 95) = false /\ (c =? 43) = false /\ (c =? 45) = false /\
  forall b, 10 <= b -> digitval b c = c - 48 /\ (b <=? c - 48) = false.
Proof.
  intros H. apply is_digit_iff in H.
  repeat split; try (apply Z.eqb_neq; lia).
  - unfold digitval. replace ((48 <=? c) && (c <=? 57)) with true; [reflexivity|].
    symmetry. apply andb_true_iff. split; apply Z.leb_le; lia.
  - apply Z.leb_gt. lia.
Qed.

Lemma mant_loop_digits base ds : all_digits ds = true -> forall rest fracOk prev inval count dp acc,
  mant_loop base 10 (ds ++ rest) fracOk prev inval count dp acc =
  mant_loop base 10 rest fracOk (match ds with [] => prev | _ => 1 end) inval (count + zlen ds) dp (digval ds acc).
Proof.
  induction ds as [|c ds IH]; intros Hd rest fracOk prev inval count dp acc.
  - cbn [app digval]. change (zlen (@nil Z)) with 0. now rewrite Z.add_0_r.
  - cbn [all_digits forallb] in Hd. apply andb_true_iff in Hd as [Hc Hds].
    destruct (digit_facts c Hc) as (E46 & E95 & _ & _ & Hdv).
    destruct (Hdv 10 ltac:(lia)) as [Ev Elt].
    cbn [app mant_loop]. rewrite E46, E95. cbn [andb]. rewrite Ev, Elt.
    rewrite (IH Hds). rewrite zlen_cons. cbn [digval].
    replace (count + 1 + zlen ds) with (count + (zlen ds + 1)) by lia.
    destruct ds; reflexivity.
Qed.

Lemma exp_loop_digits sep ds : all_digits ds = true -> forall rest prev inval has v,
  exp_loop sep (ds ++ rest) prev inval has v =
  exp_loop sep rest (match ds with [] => prev | _ => 1 end) inval (match ds with [] => has | _ => true end) (digval ds v).
Proof.
  induction ds as [|c ds IH]; intros Hd rest prev inval has v; [reflexivity|].
  cbn [all_digits forallb] in Hd. apply andb_true_iff in Hd as [Hc Hds].
  cbn [app exp_loop]. unfold is_digit in Hc. rewrite Hc.
  rewrite (IH Hds). cbn [digval]. destruct ds; reflexivity.
Qed.

(* ---- itoa ---- *)
Lemma digval_strip0 s : digval (strip0 s) 0 = digval s 0.
Proof.
  induction s as [|c s IH]; [reflexivity|].
  cbn [strip0]. destruct (Z.eqb_spec c 48) as [->|]; [|reflexivity].
  cbn [digval]. exact IH.
Qed.

Lemma all_digits_strip0 s : all_digits s = true -> all_digits (strip0 s) = true.
Proof.
  induction s as [|c s IH]; intros H; [reflexivity|].
  cbn [strip0]. destruct (c =? 48); [|exact H].
  cbn [all_digits forallb] in H. apply andb_true_iff in H as [_ H]. auto.
Qed.

Lemma itoa_nonneg_spec n : 0 <= n ->
  all_digits (itoa_nonneg n) = true /\ digval (itoa_nonneg n) 0 = n /\ itoa_nonneg n <> [].
Proof.
  intros Hn. unfold itoa_nonneg. destruct (Z.leb_spec n 0).
  - assert (n = 0) by lia. subst. repeat split; discriminate.
  - set (k := S (Z.to_nat (Z.log2 n))).
    assert (Hk : n < 10 ^ Z.of_nat k).
    { unfold k. rewrite Nat2Z.inj_succ, Z2Nat.id by apply Z.log2_nonneg.
      pose proof (Z.log2_spec n ltac:(lia)) as [_ Hl].
      eapply Z.lt_le_trans; [exact Hl|]. apply Z.pow_le_mono_l. lia. }
    split; [apply all_digits_strip0, wdigits_digits|]. split.
    + rewrite digval_strip0, wdigits_val by lia. apply Z.mod_small. lia.
    + intros E. pose proof (digval_strip0 (wdigits k n)) as Hv. rewrite E, wdigits_val in Hv by lia.
      rewrite Z.mod_small in Hv by lia. cbn in Hv. lia.
Qed.

(* the exponent part as fmtE prints it: sign, at least two digits *)
Definition exp_digits (e : Z) : bytes := (if Z.abs e <? 10 then [48] else []) ++ itoa (Z.abs e).

Lemma exp_digits_spec e : all_digits (exp_digits e) = true /\ digval (exp_digits e) 0 = Z.abs e /\ exp_digits e <> [].
Proof.
  unfold exp_digits, itoa. destruct (Z.ltb_spec (Z.abs e) 0); [lia|].
  destruct (itoa_nonneg_spec (Z.abs e) ltac:(lia)) as (A & Bv & C).
  destruct (Z.abs e <? 10).
  - cbn [app all_digits forallb digval]. split; [exact A|]. split; [|discriminate].
    change (0 * 10 + (48 - 48)) with 0. exact Bv.
  - cbn [app]. auto.
Qed.

(* scanExponent on  e|E sign digits  at the end of the input *)
Lemma scanExponent_form sep fch sg ds :
  (fch = 101 \/ fch = 69) -> (sg = 43 \/ sg = 45) -> all_digits ds = true -> ds <> [] ->
  digval ds 0 <= MaxInt64 ->
  scanExponent sep (fch :: sg :: ds) =
    mkES [] (if sg =? 45 then - digval ds 0 else digval ds 0) 10 false.
Proof.
  intros Hf Hs Hd Hne Hmax. unfold scanExponent.
  assert (E1 : (if (fch =? 101) || (fch =? 69) then 10 else if (fch =? 112) || (fch =? 80) then 2 else 0) = 10)
    by (destruct Hf as [-> | ->]; reflexivity).
  rewrite E1. change (10 =? 0) with false. cbv beta iota zeta.
  pose proof (exp_loop_digits sep ds Hd [] 0 false false 0) as HL. rewrite app_nil_r in HL.
  pose proof (digval_bounds ds Hd) as [Hv0 _].
  destruct Hs as [-> | ->].
  - change (43 =? 43) with true. change (43 =? 45) with false. cbv beta iota zeta. rewrite HL.
    destruct ds as [|c0 ds0]; [congruence|].
    cbn [exp_loop e_rest e_prev e_inval e_has e_val negb orb]. change (1 =? 2) with false.
    rewrite !orb_false_r.
    replace (digval (c0 :: ds0) 0 <? MinInt64) with false by (symmetry; apply Z.ltb_ge; unfold MinInt64; lia).
    replace (MaxInt64 <? digval (c0 :: ds0) 0) with false by (symmetry; apply Z.ltb_ge; lia).
    reflexivity.
  - change (45 =? 43) with false. change (45 =? 45) with true. cbv beta iota zeta. rewrite HL.
    destruct ds as [|c0 ds0]; [congruence|].
    cbn [exp_loop e_rest e_prev e_inval e_has e_val negb orb]. change (1 =? 2) with false.
    rewrite !orb_false_r.
    replace (- digval (c0 :: ds0) 0 <? MinInt64) with false by (symmetry; apply Z.ltb_ge; unfold MinInt64, MaxInt64 in *; lia).
    replace (MaxInt64 <? - digval (c0 :: ds0) 0) with false by (symmetry; apply Z.ltb_ge; unfold MaxInt64; lia).
    reflexivity.
Qed.

(* ---- the mantissa scanner on  digits [ "." digits ]  followed by an exponent character ---- *)

Lemma dec_scan_10 r : dec_scan 10 r =
  Some (let st := mant_loop 10 10 r true 0 false 0 (-1) 0 in
        mkDS (m_rest st) (m_acc st) 10 (if 0 <=? m_dp st then m_dp st - m_count st else m_count st)
             (m_inval st || (m_prev st =? 2) || (m_count st =? 0))).
Proof. destruct r as [|c r1]; reflexivity. Qed.

(* with base 0 a leading "0" is looked at for a prefix; a digit, a point, an
   exponent character or the end of the input after it selects base 10 and the
   scan continues exactly as in base 10 *)
Definition not_prefix (r : bytes) : bool :=
  match r with
  | c2 :: _ => negb ((c2 =? 98) || (c2 =? 66) || (c2 =? 111) || (c2 =? 79) || (c2 =? 120) || (c2 =? 88))
  | [] => true
  end.

Lemma dec_scan_dig base i0 r : (base = 10 \/ base = 0) -> is_digit i0 = true -> not_prefix r = true ->
  dec_scan base (i0 :: r) =
  Some (let st := mant_loop base 10 (i0 :: r) true 0 false 0 (-1) 0 in
        mkDS (m_rest st) (m_acc st) 10 (if 0 <=? m_dp st then m_dp st - m_count st else m_count st)
             (m_inval st || (m_prev st =? 2) || (m_count st =? 0))).
Proof.
  intros [-> | ->] Hd Hn; [reflexivity|].
  destruct (Z.eqb_spec i0 48) as [->|Hne].
  - (* leading zero *)
    unfold dec_scan. cbn [valid_base Z.eqb orb negb andb]. change (48 =? 48) with true. cbv iota.
    destruct r as [|c2 r2].
    + reflexivity.
    + unfold not_prefix in Hn. apply negb_true_iff in Hn.
      rewrite !orb_false_iff in Hn. destruct Hn as [[[[[H1 H2] H3] H4] H5] H6].
      rewrite H1, H2, H3, H4, H5, H6. cbn [orb]. cbv iota. reflexivity.
  - unfold dec_scan. cbn [valid_base Z.eqb orb negb andb].
    replace (i0 =? 48) with false by (symmetry; apply Z.eqb_neq; exact Hne). reflexivity.
Qed.

Lemma mant_stop_e base fch rest fracOk prev inval count dp acc : (fch = 101 \/ fch = 69) ->
  mant_loop base 10 (fch :: rest) fracOk prev inval count dp acc = mkM (fch :: rest) prev inval count dp acc.
Proof. intros [-> | ->]; reflexivity. Qed.

Lemma mant_e_int base I fch rest : all_digits I = true -> I <> [] -> (fch = 101 \/ fch = 69) ->
  mant_loop base 10 (I ++ fch :: rest) true 0 false 0 (-1) 0 = mkM (fch :: rest) 1 false (zlen I) (-1) (digval I 0).
Proof.
  intros HI Hne Hf. rewrite (mant_loop_digits base I HI), mant_stop_e by assumption.
  destruct I; [congruence|reflexivity].
Qed.

Lemma mant_e_frac base I F fch rest : all_digits I = true -> I <> [] -> all_digits F = true -> F <> [] ->
  (fch = 101 \/ fch = 69) ->
  mant_loop base 10 (I ++ 46 :: F ++ fch :: rest) true 0 false 0 (-1) 0 =
    mkM (fch :: rest) 1 false (zlen I + zlen F) (zlen I) (digval (I ++ F) 0).
Proof.
  intros HI Hne HF HneF Hf. rewrite (mant_loop_digits base I HI).
  cbn [mant_loop]. change (46 =? 46) with true. cbn [andb].
  rewrite (mant_loop_digits base F HF), mant_stop_e by assumption.
  rewrite digval_app. destruct I; [congruence|]. destruct F; [congruence|]. reflexivity.
Qed.

(* ------------------------------------------------------------------ *)
(* a value with at most p digits is stored exactly *)

Lemma result_spec_exact p md ng N e z' :
  0 < N -> ndig N <= p -> MinExp <= ndig N + e <= MaxExp ->
  result_spec p md ng (scaled N e) z' ->
  neg z' = ng /\ dform z' = Ffinite /\ (mag z' == scaled N e)%Q /\ acc z' = Exact.
Proof.
  intros HN Hd HE [Hn H]. split; [exact Hn|].
  destruct (ndig_spec N HN) as [Hd1 [Hlo Hhi]]. set (d := ndig N) in *.
  assert (Hvlo : (scaled 1 (d + e - 1) <= scaled N e)%Q).
  { apply (scaled_le_gen _ _ _ _ e); try lia. rewrite Z.sub_diag, Z.pow_0_r.
    replace (d + e - 1 - e) with (d - 1) by lia. lia. }
  assert (Hvhi : (scaled N e < scaled 1 (d + e))%Q).
  { apply (scaled_lt_gen _ _ _ _ e); try lia. rewrite Z.sub_diag, Z.pow_0_r.
    replace (d + e - e) with d by lia. lia. }
  assert (Hvpos : (0 < scaled N e)%Q) by (apply scaled_pos; lia).
  destruct (Qlt_le_dec (scaled N e) (scaled 1 (MinExp - 1))) as [C|_].
  { exfalso. assert (scaled 1 (MinExp - 1) <= scaled 1 (d + e - 1))%Q by (apply scaled1_le; lia).
    apply (Qlt_irrefl (scaled N e)). eapply Qlt_le_trans; [exact C|]. eapply Qle_trans; eassumption. }
  destruct H as (r & HR & H).
  assert (Hself : Rounds md ng p (scaled N e) (scaled N e)).
  { unfold Rounds. apply (exact_rounds _ p N (p - d) e); try lia.
    replace (p - (p - d) - 1) with (d - 1) by lia. replace (p - (p - d)) with d by lia. lia. }
  assert (Er : (r == scaled N e)%Q) by (apply (Rounds_unique md ng p (scaled N e)); try assumption; lia).
  destruct (Qlt_le_dec r (scaled 1 MaxExp)) as [_|C].
  - destruct H as (Hf & Hm & Ha). split; [exact Hf|]. split; [rewrite Hm; exact Er|].
    rewrite Ha. unfold acc_of. now rewrite (Qeq_cmp r (scaled N e) Er).
  - exfalso. assert (scaled 1 (d + e) <= scaled 1 MaxExp)%Q by (apply scaled1_le; lia).
    rewrite Er in C. apply (Qlt_irrefl (scaled N e)). eapply Qlt_le_trans; [exact Hvhi|]. eapply Qle_trans; eassumption.
Qed.

Lemma ndig_digits D : 10 ^ (zlen D - 1) <= digval D 0 < 10 ^ zlen D -> 1 <= zlen D -> ndig (digval D 0) = zlen D.
Proof. intros H Hl. apply ndig_unique; lia. Qed.

(* mag x in terms of the significant digits *)
Lemma mag_sig x D : SigDigits x D -> (mag x == scaled (digval D 0) (exp x - zlen D))%Q.
Proof.
  intros S. unfold mag. rewrite (sd_val x D S). destruct (sd_len x D S).
  rewrite scaled_pow by lia. apply (scaled_eq_gen _ _ _ _ (exp x - mdigits (mant x))); try lia.
  f_equal. f_equal. lia.
Qed.

(* ------------------------------------------------------------------ *)
(* the 'e' / 'E' format with precision -1 *)

Definition e_frac (tl : bytes) : bytes := match tl with [] => [] | _ => 46 :: tl end.
Definition e_sign (e : Z) : Z := if e <? 0 then 45 else 43.

Lemma fmtE_sig buf x D fmt : SigDigits x D -> dform x = Ffinite ->
  exists d0 tl, D = d0 :: tl /\
    fmtE buf x fmt (zlen D - 1) =
      Some (buf ++ [d0] ++ e_frac tl ++ [fmt; e_sign (exp x - 1)] ++ exp_digits (exp x - 1)).
Proof.
  intros S Hf. destruct (sd_toa x D S) as (t & Ht & Htoa & Htrim & _).
  destruct (sd_last x D S) as (T & c & ED & Hc).
  assert (exists d0 tl, D = d0 :: tl) as (d0 & tl & E).
  { destruct D as [|d0 tl]; [destruct T; discriminate|eauto]. }
  exists d0, tl. split; [exact E|]. clear ED Hc. subst D.
  unfold fmtE. rewrite Htoa, Htrim. cbv beta iota zeta. unfold exp_digits, e_sign.
  apply f_equal. apply f_equal. apply f_equal. f_equal.
  unfold blen. rewrite !zlen_cons.
  destruct tl as [|c1 tl1].
  - reflexivity.
  - set (n := zlen (c1 :: tl1)). assert (Hn : 1 <= n) by (unfold n; rewrite zlen_cons; pose proof (zlen_nonneg tl1); lia).
    replace (0 <? n + 1 - 1) with true by (symmetry; apply Z.ltb_lt; lia).
    replace (Z.min (n + 1) (n + 1 - 1 + 1)) with (n + 1) by lia.
    replace (1 <? n + 1) with true by (symmetry; apply Z.ltb_lt; lia).
    cbn [skipn]. replace (Z.to_nat (n + 1 - 1)) with (length (c1 :: tl1)) by (unfold n, zlen; lia).
    rewrite firstn_all. replace (n + 1 - 1 - (n + 1) + 1) with 0 by lia.
    unfold e_frac. cbn [zeros repeat Z.to_nat]. now rewrite app_nil_r.
Qed.

Definition sign_bytes (ng : bool) : bytes := if ng then [45] else [].

Lemma text_e x D fmt : SigDigits x D -> dform x = Ffinite -> (fmt = 101 \/ fmt = 69) ->
  exists d0 tl, D = d0 :: tl /\
    Text x fmt (-1) =
      Some (sign_bytes (neg x) ++ [d0] ++ e_frac tl ++ [fmt; e_sign (exp x - 1)] ++ exp_digits (exp x - 1)).
Proof.
  intros S Hf Hfmt.
  destruct (fmtE_sig (sign_bytes (neg x)) x D fmt S Hf) as (d0 & tl & E & HE).
  exists d0, tl. split; [exact E|].
  unfold Text, Append. rewrite Hf, (sd_minprec x D S).
  destruct Hfmt as [-> | ->]; cbv beta iota zeta;
    cbn [Z.eqb Pos.eqb is_eE is_gG orb andb Z.ltb Z.compare app];
    rewrite (sd_minprec x D S); exact HE.
Qed.

(* Parse is Decimal.scan plus the end-of-input check unless the string spells an infinity *)
Lemma Parse_scan z s base : (forall c t, s = c :: t -> c <> 73 /\ c <> 105 /\
                               forall c2 t2, t = c2 :: t2 -> c2 <> 73 /\ c2 <> 105) ->
  Parse z s base = match dscan_dec z s base with
                   | POk z' b [] => POk z' b []
                   | POk z' b (_ :: _) => PErr z' true
                   | r => r
                   end.
Proof.
  intros H. unfold Parse.
  assert (Hno : forall u, (forall c t, u = c :: t -> c <> 73 /\ c <> 105) -> bytes_eqb u s_Inf || bytes_eqb u s_inf = false).
  { intros u Hu. destruct u as [|c t]; [reflexivity|]. destruct (Hu c t eq_refl) as [A Bb].
    unfold s_Inf, s_inf. cbn [bytes_eqb]. apply Z.eqb_neq in A, Bb. now rewrite A, Bb. }
  rewrite Hno by (intros c t E; destruct (H c t E) as (A & Bb & _); auto).
  destruct s as [|c t]; [reflexivity|].
  destruct (H c t eq_refl) as (_ & _ & H2).
  rewrite (Hno t) by (intros c2 t2 E; exact (H2 c2 t2 E)).
  rewrite andb_false_r. reflexivity.
Qed.

Lemma digit_not_inf c : is_digit c = true -> c <> 73 /\ c <> 105 /\ c <> 43 /\ c <> 45.
Proof. intros H. apply is_digit_iff in H. lia. Qed.


(* C11_digits for 'e'/'E': the printed mantissa is d0 . tl where d0 :: tl are
   exactly the MinPrec significant digits of the stored mantissa *)
Theorem digits_e x fmt : WF x -> dform x = Ffinite -> (fmt = 101 \/ fmt = 69) ->
  exists d0 tl,
    all_digits (d0 :: tl) = true /\ d0 <> 48 /\ last (d0 :: tl) 0 <> 48 /\
    MinPrec x = Some (zlen (d0 :: tl)) /\
    val (mant x) = digval (d0 :: tl) 0 * 10 ^ (mdigits (mant x) - zlen (d0 :: tl)) /\
    Text x fmt (-1) =
      Some (sign_bytes (neg x) ++ [d0] ++ e_frac tl ++ [fmt; e_sign (exp x - 1)] ++ exp_digits (exp x - 1)).
Proof.
  intros Hwf Hf Hfmt. pose proof (WF_finite x Hwf Hf) as Hx.
  destruct (sig_digits x Hx Hf) as (D & S).
  destruct (text_e x D fmt S Hf Hfmt) as (d0 & tl & ED & Ht).
  exists d0, tl. rewrite <- ED.
  split; [exact (sd_digits x D S)|]. split; [|split].
  - (* leading digit: the value has zlen D digits *)
    intros E0. pose proof (sd_range x D S) as [Hlo _]. destruct (sd_len x D S) as [Hl _].
    pose proof (sd_digits x D S) as Hd. rewrite ED, E0 in *.
    cbn [all_digits forallb] in Hd. apply andb_true_iff in Hd as [_ Hd].
    pose proof (digval_bounds tl Hd) as [_ Hhi].
    cbn [digval] in Hlo. change (0 * 10 + (48 - 48)) with 0 in Hlo.
    rewrite zlen_cons in Hlo. replace (zlen tl + 1 - 1) with (zlen tl) in Hlo by lia. lia.
  - destruct (sd_last x D S) as (T & c & E & Hc). rewrite E, last_last. exact Hc.
  - split; [exact (sd_minprec x D S)|]. split; [exact (sd_val x D S)|exact Ht].
Qed.

(* ------------------------------------------------------------------ *)
(* parsing  [-] I [ . F ] (e|E) (+|-) digits  in base 10 *)

Definition opt_frac (F : bytes) : bytes := match F with [] => [] | _ => 46 :: F end.

Lemma digit_not_prefix c r : is_digit c = true -> not_prefix (c :: r) = true.
Proof.
  intros H. apply is_digit_iff in H. unfold not_prefix. apply negb_true_iff.
  rewrite !orb_false_iff. repeat split; apply Z.eqb_neq; lia.
Qed.

Lemma dec_scan_body base I rest : (base = 10 \/ base = 0) -> all_digits I = true -> I <> [] ->
  not_prefix rest = true ->
  dec_scan base (I ++ rest) =
  Some (let st := mant_loop base 10 (I ++ rest) true 0 false 0 (-1) 0 in
        mkDS (m_rest st) (m_acc st) 10 (if 0 <=? m_dp st then m_dp st - m_count st else m_count st)
             (m_inval st || (m_prev st =? 2) || (m_count st =? 0))).
Proof.
  intros Hb HI Hne Hr. destruct I as [|i0 I0]; [congruence|].
  cbn [all_digits forallb] in HI. apply andb_true_iff in HI as [Hi0 HI0].
  cbn [app]. apply dec_scan_dig; try assumption.
  destruct I0 as [|i1 I1]; [exact Hr|].
  cbn [all_digits forallb] in HI0. apply andb_true_iff in HI0 as [Hi1 _].
  cbn [app]. now apply digit_not_prefix.
Qed.

Lemma not_prefix_tail (F : bytes) fch t : (fch = 101 \/ fch = 69) -> not_prefix (opt_frac F ++ fch :: t) = true.
Proof. intros Hf. destruct F; cbn [opt_frac app]; [destruct Hf as [-> | ->]|]; reflexivity. Qed.

Lemma not_prefix_plain (F : bytes) : not_prefix (opt_frac F) = true.
Proof. destruct F; reflexivity. Qed.

Lemma parse_efloat base z ng I F fch sg eds : (base = 10 \/ base = 0) ->
  all_digits I = true -> I <> [] -> all_digits F = true -> (fch = 101 \/ fch = 69) ->
  (sg = 43 \/ sg = 45) -> all_digits eds = true -> eds <> [] -> digval eds 0 <= 1099511627776 ->
  let s := sign_bytes ng ++ I ++ opt_frac F ++ fch :: sg :: eds in
  let v := digval (I ++ F) 0 in
  let e := (if sg =? 45 then - digval eds 0 else digval eds 0) - zlen F in
  0 < v -> ndig v + 18 < 4294967296 - 18 -> zlen F < 4294967296 -> 0 <= prec z <= MaxPrec ->
  MinExp <= ndig v + e <= MaxExp ->
  let p := if prec z =? 0 then DefaultDecimalPrec else prec z in
  exists z', Parse z s base = POk z' 10 [] /\
    result_spec p (dmode z) ng (scaled v e) z' /\ prec z' = p /\ dmode z' = dmode z /\ WF z'.
Proof.
  intros Hbase HI HneI HF Hfmt Hsg Hed Hene Hemax s v e Hv Hlen HlenF Hprec HE p.
  set (tail := fch :: sg :: eds).
  set (body := I ++ opt_frac F ++ tail).
  assert (exists i0 I0, I = i0 :: I0) as (i0 & I0 & EI) by (destruct I; [congruence|eauto]).
  assert (Hi0 : is_digit i0 = true).
  { rewrite EI in HI. cbn [all_digits forallb] in HI. now apply andb_true_iff in HI as [H _]. }
  assert (Hsign : scanSign (sign_bytes ng ++ body) = Some (ng, body)).
  { unfold sign_bytes, body. rewrite EI. destruct ng; cbn [app scanSign].
    - reflexivity.
    - destruct (digit_facts i0 Hi0) as (_ & _ & E43 & E45 & _). now rewrite E45, E43. }
  assert (Hscan : exists ds, dec_scan base body = Some ds /\ ds_err ds = false /\ ds_b ds = 10 /\
            ds_val ds = v /\ ds_rest ds = tail /\ Z.min (ds_count ds) 0 = - zlen F /\ - 4294967296 < ds_count ds).
  { unfold body. rewrite (dec_scan_body base I (opt_frac F ++ tail) Hbase HI HneI (not_prefix_tail F fch _ Hfmt)).
    eexists. split; [reflexivity|]. unfold tail.
    assert (HzI : 1 <= zlen I) by (rewrite EI, zlen_cons; pose proof (zlen_nonneg I0); lia).
    destruct F as [|f0 F0].
    - cbn [opt_frac app]. rewrite mant_e_int by assumption.
      cbn [m_rest m_acc m_dp m_count m_inval m_prev ds_err ds_b ds_val ds_rest ds_count].
      unfold v. rewrite app_nil_r. change (zlen (@nil Z)) with 0.
      replace (0 <=? -1) with false by reflexivity.
      replace (zlen I =? 0) with false by (symmetry; apply Z.eqb_neq; lia).
      repeat split; try reflexivity; lia.
    - cbn [opt_frac]. set (F := f0 :: F0) in *.
      change (I ++ (46 :: F) ++ fch :: sg :: eds) with (I ++ 46 :: F ++ fch :: sg :: eds).
      rewrite mant_e_frac; [|assumption|assumption|assumption|discriminate|assumption].
      cbn [m_rest m_acc m_dp m_count m_inval m_prev ds_err ds_b ds_val ds_rest ds_count].
      pose proof (zlen_nonneg F).
      replace (0 <=? zlen I) with true by (symmetry; apply Z.leb_le; lia).
      replace (zlen I + zlen F =? 0) with false by (symmetry; apply Z.eqb_neq; lia).
      repeat split; try reflexivity; lia. }
  destruct Hscan as (ds & Hds & Herr & Hb & Hval & Hrest & Hcnt & Hcnt2).
  assert (Hsx : scanExponent (base =? 0) (ds_rest ds) =
                mkES [] (if sg =? 45 then - digval eds 0 else digval eds 0) 10 false).
  { rewrite Hrest. unfold tail. apply scanExponent_form; try assumption. unfold MaxInt64. lia. }
  pose proof (parse10_correct z (sign_bytes ng ++ body) base ng body ds Hsign Hds Herr Hb) as HP.
  rewrite Hsx in HP. cbn [es_err es_base es_exp es_rest] in HP.
  rewrite Hval in HP.
  specialize (HP eq_refl eq_refl Hv Hlen Hcnt2 Hprec).
  cbv zeta in HP. destruct HP as [HP _]. rewrite Hcnt in HP.
  replace (- zlen F + (if sg =? 45 then - digval eds 0 else digval eds 0)) with e in HP by (unfold e; lia).
  destruct (HP HE) as (z' & Hrun & Hspec & Hp' & Hm' & Hwf').
  exists z'. split; [|auto].
  unfold s. fold tail. fold body. rewrite Parse_scan.
  - rewrite Hrun. reflexivity.
  - intros c t Ect. unfold sign_bytes, body in Ect. rewrite EI in Ect.
    destruct (digit_not_inf i0 Hi0) as (A1 & A2 & _).
    destruct ng; cbn [app] in Ect; injection Ect as <- <-.
    + split; [lia|]. split; [lia|]. intros c2 t2 E2. injection E2 as <- _. auto.
    + split; [exact A1|]. split; [exact A2|]. intros c2 t2 E2.
      destruct I0 as [|i1 I1].
      * destruct F as [|f0 F0]; cbn [opt_frac app] in E2; injection E2 as <- _.
        -- unfold tail. destruct Hfmt as [-> | ->]; lia.
        -- lia.
      * cbn [app] in E2. injection E2 as <- _.
        rewrite EI in HI. cbn [all_digits forallb] in HI. apply andb_true_iff in HI as [_ HI].
        apply andb_true_iff in HI as [HI _]. destruct (digit_not_inf i1 HI) as (B1 & B2 & _). auto.
Qed.

(* C11 for the 'e' and 'E' formats: parsing Text(x, fmt, -1) into a receiver
   of precision at least MinPrec x gives back x exactly *)
Theorem roundtrip_e base x z fmt :
  (base = 10 \/ base = 0) -> WF x -> dform x = Ffinite -> (fmt = 101 \/ fmt = 69) ->
  mdigits (mant x) < 4294967296 - 36 -> 0 <= prec z <= MaxPrec ->
  let p := if prec z =? 0 then DefaultDecimalPrec else prec z in
  (forall mp, MinPrec x = Some mp -> mp <= p) ->
  exists t z', Text x fmt (-1) = Some t /\ Parse z t base = POk z' 10 [] /\
    dform z' = Ffinite /\ neg z' = neg x /\ (mag z' == mag x)%Q /\ acc z' = Exact /\
    prec z' = p /\ dmode z' = dmode z /\ WF z'.
Proof.
  intros Hbase Hwf Hf Hfmt Hlen Hprec p Hmp.
  pose proof (WF_finite x Hwf Hf) as Hx.
  destruct (sig_digits x Hx Hf) as (D & S).
  destruct (text_e x D fmt S Hf Hfmt) as (d0 & tl & ED & Ht).
  pose proof (sd_digits x D S) as HdD. pose proof (sd_range x D S) as Hrange.
  destruct (sd_len x D S) as [HlD HlD2].
  assert (Hd0 : is_digit d0 = true /\ all_digits tl = true).
  { rewrite ED in HdD. cbn [all_digits forallb] in HdD. now apply andb_true_iff in HdD. }
  destruct Hd0 as [Hd0 Htl].
  destruct Hx as [Hne Hok Htop Hprecx Hexp Htail].
  set (E := exp x - 1) in *.
  destruct (exp_digits_spec E) as (Hed & Hev & Hene).
  assert (Hes : e_sign E = 43 \/ e_sign E = 45) by (unfold e_sign; destruct (E <? 0); auto).
  assert (HEv : (if e_sign E =? 45 then - digval (exp_digits E) 0 else digval (exp_digits E) 0) = E).
  { rewrite Hev. unfold e_sign. destruct (Z.ltb_spec E 0); cbn [Z.eqb Pos.eqb]; lia. }
  assert (Hv0 : digval ([d0] ++ tl) 0 = digval D 0) by (rewrite ED; reflexivity).
  assert (HzD : zlen D = zlen tl + 1) by (rewrite ED; apply zlen_cons).
  assert (Hnd : ndig (digval D 0) = zlen D) by (apply ndig_digits; assumption).
  assert (Hpos : 0 < digval D 0).
  { assert (0 < 10 ^ (zlen D - 1)) by (apply Z.pow_pos_nonneg; lia). lia. }
  assert (Hemax : digval (exp_digits E) 0 <= 1099511627776) by (rewrite Hev; unfold E, MinExp, MaxExp in *; lia).
  assert (Hd0l : all_digits [d0] = true) by (cbn [all_digits forallb]; now rewrite Hd0).
  pose proof (parse_efloat base z (neg x) [d0] tl fmt (e_sign E) (exp_digits E)
                Hbase Hd0l ltac:(discriminate) Htl Hfmt Hes Hed Hene Hemax) as HP.
  cbv zeta in HP. rewrite Hv0, Hnd, HEv in HP.
  destruct (HP Hpos ltac:(lia) ltac:(lia) Hprec ltac:(unfold E; lia)) as (z' & Hrun & Hspec & Hp' & Hm' & Hwf').
  fold p in Hspec, Hp'.
  exists (sign_bytes (neg x) ++ [d0] ++ e_frac tl ++ [fmt; e_sign E] ++ exp_digits E), z'.
  split; [exact Ht|]. split; [exact Hrun|].
  assert (Hmpx : zlen D <= p) by (apply Hmp; exact (sd_minprec x D S)).
  replace (E - zlen tl) with (exp x - zlen D) in Hspec by (unfold E; lia).
  destruct (result_spec_exact p (dmode z) (neg x) (digval D 0) (exp x - zlen D) z') as (A1 & A2 & A3 & A4);
    try assumption; try lia.
  split; [exact A2|]. split; [exact A1|]. split; [rewrite A3; symmetry; apply (mag_sig x D S)|].
  split; [exact A4|]. auto.
Qed.

(* ------------------------------------------------------------------ *)
(* the 'p' format *)

Definition pb_sign (e : Z) : Z := if e <? 0 then 45 else 43.

Lemma pb_exp e : [101] ++ (if 0 <=? e then [43] else []) ++ itoa e = 101 :: pb_sign e :: itoa_nonneg (Z.abs e).
Proof.
  unfold itoa, pb_sign. destruct (Z.leb_spec 0 e); destruct (Z.ltb_spec e 0); try lia; cbn [app].
  - now rewrite Z.abs_eq by lia.
  - now rewrite Z.abs_neq by lia.
Qed.

Lemma pb_exp_val e : (if pb_sign e =? 45 then - digval (itoa_nonneg (Z.abs e)) 0 else digval (itoa_nonneg (Z.abs e)) 0) = e.
Proof.
  destruct (itoa_nonneg_spec (Z.abs e) ltac:(lia)) as (_ & Hv & _). rewrite Hv.
  unfold pb_sign. destruct (Z.ltb_spec e 0); cbn [Z.eqb Pos.eqb]; lia.
Qed.

Lemma text_p x D : SigDigits x D -> dform x = Ffinite ->
  Text x 112 (-1) = Some (sign_bytes (neg x) ++ [48] ++ opt_frac D ++ 101 :: pb_sign (exp x) :: itoa_nonneg (Z.abs (exp x))).
Proof.
  intros S Hf. destruct (sd_toa x D S) as (t & Ht & Htoa & Htrim & _).
  destruct (sd_last x D S) as (T & c & ED & _).
  unfold Text, Append. rewrite Hf. cbn [Z.eqb Pos.eqb app].
  unfold fmtP. rewrite Hf, Htoa, Htrim. f_equal.
  rewrite <- pb_exp. unfold sign_bytes, opt_frac.
  destruct D as [|d0 tl]; [destruct T; discriminate|]. cbn [app].
  destruct (neg x); reflexivity.
Qed.

Lemma result_spec_ext' p md ng v v' z : (v == v')%Q -> result_spec p md ng v z -> result_spec p md ng v' z.
Proof. apply result_spec_ext. Qed.

Theorem roundtrip_p base x z :
  (base = 10 \/ base = 0) -> WF x -> dform x = Ffinite ->
  mdigits (mant x) < 4294967296 - 36 -> 0 <= prec z <= MaxPrec ->
  let p := if prec z =? 0 then DefaultDecimalPrec else prec z in
  (forall mp, MinPrec x = Some mp -> mp <= p) ->
  exists t z', Text x 112 (-1) = Some t /\ Parse z t base = POk z' 10 [] /\
    dform z' = Ffinite /\ neg z' = neg x /\ (mag z' == mag x)%Q /\ acc z' = Exact /\
    prec z' = p /\ dmode z' = dmode z /\ WF z'.
Proof.
  intros Hbase Hwf Hf Hlen Hprec p Hmp.
  pose proof (WF_finite x Hwf Hf) as Hx.
  destruct (sig_digits x Hx Hf) as (D & S).
  pose proof (text_p x D S Hf) as Ht.
  pose proof (sd_digits x D S) as HdD. pose proof (sd_range x D S) as Hrange.
  destruct (sd_len x D S) as [HlD HlD2].
  destruct Hx as [Hne Hok Htop Hprecx Hexp Htail].
  destruct (itoa_nonneg_spec (Z.abs (exp x)) ltac:(lia)) as (Hed & Hev & Hene).
  assert (Hv0 : digval ([48] ++ D) 0 = digval D 0) by reflexivity.
  assert (Hnd : ndig (digval D 0) = zlen D) by (apply ndig_digits; assumption).
  assert (Hpos : 0 < digval D 0).
  { assert (0 < 10 ^ (zlen D - 1)) by (apply Z.pow_pos_nonneg; lia). lia. }
  assert (Hsg : pb_sign (exp x) = 43 \/ pb_sign (exp x) = 45) by (unfold pb_sign; destruct (exp x <? 0); auto).
  assert (Hemax : digval (itoa_nonneg (Z.abs (exp x))) 0 <= 1099511627776) by (rewrite Hev; unfold MinExp, MaxExp in *; lia).
  pose proof (parse_efloat base z (neg x) [48] D 101 (pb_sign (exp x)) (itoa_nonneg (Z.abs (exp x)))
                Hbase eq_refl ltac:(discriminate) HdD (or_introl eq_refl) Hsg Hed Hene Hemax) as HP.
  cbv zeta in HP. rewrite Hv0, Hnd, pb_exp_val in HP.
  destruct (HP Hpos ltac:(lia) ltac:(lia) Hprec ltac:(lia)) as (z' & Hrun & Hspec & Hp' & Hm' & Hwf').
  fold p in Hspec, Hp'.
  exists (sign_bytes (neg x) ++ [48] ++ opt_frac D ++ 101 :: pb_sign (exp x) :: itoa_nonneg (Z.abs (exp x))), z'.
  split; [exact Ht|]. split; [exact Hrun|].
  assert (Hmpx : zlen D <= p) by (apply Hmp; exact (sd_minprec x D S)).
  destruct (result_spec_exact p (dmode z) (neg x) (digval D 0) (exp x - zlen D) z') as (A1 & A2 & A3 & A4);
    try assumption; try lia.
  split; [exact A2|]. split; [exact A1|]. split; [rewrite A3; symmetry; apply (mag_sig x D S)|].
  split; [exact A4|]. auto.
Qed.

(* ------------------------------------------------------------------ *)
(* the 'b' format *)

Lemma zeros_app a b : 0 <= a -> 0 <= b -> zeros a ++ zeros b = zeros (a + b).
Proof. intros. unfold zeros. rewrite <- repeat_app. f_equal. lia. Qed.

Lemma firstn_zeros k t : 0 <= k <= t -> firstn (Z.to_nat k) (zeros t) = zeros k.
Proof.
  intros H. unfold zeros.
  assert (G : forall n m, (n <= m)%nat -> firstn n (repeat 48 m) = repeat 48 n).
  { induction n as [|n IH]; intros m Hm; [reflexivity|]. destruct m as [|m]; [lia|].
    cbn [repeat firstn]. f_equal. apply IH. lia. }
  apply G. lia.
Qed.

Lemma firstn_D_zeros (D : bytes) k t : zlen D <= k <= zlen D + t ->
  firstn (Z.to_nat k) (D ++ zeros t) = D ++ zeros (k - zlen D).
Proof.
  intros H. pose proof (zlen_nonneg D).
  rewrite firstn_app. rewrite firstn_all2 by (unfold zlen in *; lia).
  f_equal. replace (Z.to_nat k - length D)%nat with (Z.to_nat (k - zlen D)) by (unfold zlen; lia).
  apply firstn_zeros. lia.
Qed.

Lemma minprec_le_prec x D : WFfin x -> SigDigits x D -> zlen D <= prec x.
Proof.
  intros [Hne Hok Htop Hprec Hexp Htail] S.
  destruct (sd_len x D S) as [H1 H2]. destruct Htail as [T|T]; [lia|].
  destruct (Z.le_gt_cases (zlen D) (prec x)) as [|Hgt]; [assumption|exfalso].
  destruct (sd_last x D S) as (T0 & c & ED & Hc).
  pose proof (sd_digits x D S) as Hd. rewrite ED, all_digits_app in Hd. apply andb_true_iff in Hd as [_ Hd].
  cbn in Hd. rewrite andb_true_r in Hd. apply is_digit_iff in Hd.
  set (L := mdigits (mant x)) in *. set (j := L - zlen D).
  assert (Hval : val (mant x) = digval D 0 * 10 ^ j) by (apply (sd_val x D S)).
  assert (Hj : 0 <= j) by (unfold j; lia).
  (* 10^(j+1) divides val, hence 10 divides digval D *)
  assert (Hdiv : val (mant x) mod 10 ^ (j + 1) = 0).
  { apply (mod_pow10_weaken _ (L - prec x)); [unfold j; lia|exact T]. }
  rewrite Hval, Z.pow_add_r, Z.pow_1_r in Hdiv by lia.
  assert (HP : 0 < 10 ^ j) by (apply Z.pow_pos_nonneg; lia).
  rewrite (Z.mul_comm (10 ^ j) 10), Z.mul_mod_distr_r in Hdiv by lia.
  assert (Hm : digval D 0 mod 10 = 0) by nia.
  rewrite ED, digval_snoc, Z.add_comm, Z.mod_add, Z.mod_small in Hm by lia. lia.
Qed.

Lemma text_b x D : WFfin x -> SigDigits x D -> dform x = Ffinite ->
  Text x 98 (-1) = Some (sign_bytes (neg x) ++ (D ++ zeros (prec x - zlen D)) ++ opt_frac [] ++
                         101 :: pb_sign (exp x - prec x) :: itoa_nonneg (Z.abs (exp x - prec x))).
Proof.
  intros Hx S Hf. destruct (sd_toa x D S) as (t & Ht & Htoa & Htrim & Hlt).
  pose proof (minprec_le_prec x D Hx S) as Hle. pose proof (zlen_nonneg D) as HzD.
  unfold Text, Append. rewrite Hf. cbn [Z.eqb Pos.eqb app].
  unfold fmtB. rewrite Hf, Htoa. f_equal. cbn [opt_frac app].
  rewrite <- pb_exp. unfold blen. rewrite !zlen_app, zeros_len by lia.
  assert (E : (if prec x <? zlen D + t then firstn (Z.to_nat (prec x)) (D ++ zeros t) else D ++ zeros t) ++
              zeros (prec x - zlen (if prec x <? zlen D + t then firstn (Z.to_nat (prec x)) (D ++ zeros t) else D ++ zeros t))
              = D ++ zeros (prec x - zlen D)).
  { destruct (Z.ltb_spec (prec x) (zlen D + t)).
    - rewrite firstn_D_zeros by lia. rewrite zlen_app, zeros_len by lia.
      replace (prec x - (zlen D + (prec x - zlen D))) with 0 by lia.
      change (zeros 0) with (@nil Z). now rewrite app_nil_r.
    - rewrite zlen_app, zeros_len by lia. rewrite <- app_assoc, zeros_app by lia.
      f_equal. f_equal. lia. }
  rewrite <- E. unfold sign_bytes. rewrite <- !app_assoc. reflexivity.
Qed.

Theorem roundtrip_b base x z :
  (base = 10 \/ base = 0) -> WF x -> dform x = Ffinite ->
  mdigits (mant x) < 4294967296 - 36 -> prec x < 4294967296 - 36 -> 0 <= prec z <= MaxPrec ->
  let p := if prec z =? 0 then DefaultDecimalPrec else prec z in
  (forall mp, MinPrec x = Some mp -> mp <= p) ->
  exists t z', Text x 98 (-1) = Some t /\ Parse z t base = POk z' 10 [] /\
    dform z' = Ffinite /\ neg z' = neg x /\ (mag z' == mag x)%Q /\ acc z' = Exact /\
    prec z' = p /\ dmode z' = dmode z /\ WF z'.
Proof.
  intros Hbase Hwf Hf Hlen Hxp Hprec p Hmp.
  pose proof (WF_finite x Hwf Hf) as Hx.
  destruct (sig_digits x Hx Hf) as (D & S).
  pose proof (text_b x D Hx S Hf) as Ht.
  pose proof (minprec_le_prec x D Hx S) as Hle.
  pose proof (sd_digits x D S) as HdD. pose proof (sd_range x D S) as Hrange.
  destruct (sd_len x D S) as [HlD HlD2].
  destruct Hx as [Hne Hok Htop Hprecx Hexp Htail].
  set (e' := exp x - prec x) in *. set (j := prec x - zlen D) in *.
  destruct (itoa_nonneg_spec (Z.abs e') ltac:(lia)) as (Hed & Hev & Hene).
  assert (HI : all_digits (D ++ zeros j) = true) by (rewrite all_digits_app, HdD, all_digits_zeros; reflexivity).
  assert (HneI : D ++ zeros j <> []).
  { destruct D; [change (zlen (@nil Z)) with 0 in HlD; lia|discriminate]. }
  assert (Hv0 : digval ((D ++ zeros j) ++ []) 0 = digval D 0 * 10 ^ j).
  { rewrite app_nil_r, digval_app, digval_zeros by (unfold j; lia). reflexivity. }
  assert (HPj : 0 < 10 ^ j) by (apply Z.pow_pos_nonneg; unfold j; lia).
  assert (Hpos : 0 < digval D 0).
  { assert (0 < 10 ^ (zlen D - 1)) by (apply Z.pow_pos_nonneg; lia). lia. }
  assert (Hnd : ndig (digval D 0 * 10 ^ j) = prec x).
  { apply ndig_unique; [lia|]. destruct Hrange as [Hlo Hhi].
    assert (E1 : 10 ^ (prec x - 1) = 10 ^ (zlen D - 1) * 10 ^ j).
    { rewrite <- Z.pow_add_r by (unfold j; lia). f_equal. unfold j. lia. }
    assert (E2 : 10 ^ prec x = 10 ^ zlen D * 10 ^ j).
    { rewrite <- Z.pow_add_r by (unfold j; lia). f_equal. unfold j. lia. }
    rewrite E1, E2. nia. }
  assert (Hsg : pb_sign e' = 43 \/ pb_sign e' = 45) by (unfold pb_sign; destruct (e' <? 0); auto).
  assert (Hemax : digval (itoa_nonneg (Z.abs e')) 0 <= 1099511627776).
  { rewrite Hev. unfold e', MinExp, MaxExp, MaxPrec in *. lia. }
  pose proof (parse_efloat base z (neg x) (D ++ zeros j) [] 101 (pb_sign e') (itoa_nonneg (Z.abs e'))
                Hbase HI HneI eq_refl (or_introl eq_refl) Hsg Hed Hene Hemax) as HP.
  cbv zeta in HP. rewrite Hv0, Hnd, pb_exp_val in HP. change (zlen (@nil Z)) with 0 in HP. rewrite Z.sub_0_r in HP.
  destruct (HP ltac:(nia) ltac:(lia) ltac:(lia) Hprec ltac:(unfold e'; lia)) as (z' & Hrun & Hspec & Hp' & Hm' & Hwf').
  fold p in Hspec, Hp'.
  eexists. exists z'. split; [exact Ht|]. split; [exact Hrun|].
  assert (Hmpx : zlen D <= p) by (apply Hmp; exact (sd_minprec x D S)).
  assert (EQ : (scaled (digval D 0 * 10 ^ j) e' == scaled (digval D 0) (exp x - zlen D))%Q).
  { rewrite scaled_pow by (unfold j; lia). apply (scaled_eq_gen _ _ _ _ (exp x - zlen D)); unfold e', j; try lia.
    f_equal. f_equal. lia. }
  apply (result_spec_ext' _ _ _ _ _ _ EQ) in Hspec.
  assert (HndD : ndig (digval D 0) = zlen D) by (apply ndig_digits; assumption).
  destruct (result_spec_exact p (dmode z) (neg x) (digval D 0) (exp x - zlen D) z') as (A1 & A2 & A3 & A4);
    try assumption; try lia.
  split; [exact A2|]. split; [exact A1|]. split; [rewrite A3; symmetry; apply (mag_sig x D S)|].
  split; [exact A4|]. auto.
Qed.

(* ------------------------------------------------------------------ *)
(* 'g' / 'G' with precision -1 is the 'e' / 'E' or the 'f' output *)

Lemma text_g x D : SigDigits x D -> dform x = Ffinite ->
  Text x 103 (-1) = (if (exp x - 1 <? -4) || (6 <=? exp x - 1) then Text x 101 (-1) else Text x 102 (-1)) /\
  Text x 71 (-1) = (if (exp x - 1 <? -4) || (6 <=? exp x - 1) then Text x 69 (-1) else Text x 102 (-1)).
Proof.
  intros S Hf. pose proof (sd_minprec x D S) as Hmp.
  unfold Text, Append, mexp. rewrite Hf, Hmp.
  cbv beta iota zeta. cbn [Z.eqb Pos.eqb is_eE is_gG orb andb Z.ltb Z.compare app].
  rewrite Hmp. cbv beta iota zeta. rewrite ?Hf.
  change (71 + 101 - 103) with 69. change (103 + 101 - 103) with 101.
  replace (zlen D <? zlen D) with false by (symmetry; apply Z.ltb_irrefl).
  cbn [andb]. cbv iota.
  replace (Z.max (zlen D - exp x) 0) with (Z.max ((if exp x <? zlen D then zlen D else zlen D) - exp x) 0)
    by (destruct (exp x <? zlen D); reflexivity).
  split; destruct ((exp x - 1 <? -4) || (6 <=? exp x - 1)); reflexivity.
Qed.

(* ------------------------------------------------------------------ *)
(* parsing  [-] I [ . F ]  (no exponent part) in base 10 *)

Lemma mant_plain_int base I : all_digits I = true -> I <> [] ->
  mant_loop base 10 I true 0 false 0 (-1) 0 = mkM [] 1 false (zlen I) (-1) (digval I 0).
Proof.
  intros HI Hne. rewrite <- (app_nil_r I) at 1. rewrite (mant_loop_digits base I HI).
  cbn [mant_loop]. destruct I; [congruence|reflexivity].
Qed.

Lemma mant_plain_frac base I F : all_digits I = true -> I <> [] -> all_digits F = true -> F <> [] ->
  mant_loop base 10 (I ++ 46 :: F) true 0 false 0 (-1) 0 =
    mkM [] 1 false (zlen I + zlen F) (zlen I) (digval (I ++ F) 0).
Proof.
  intros HI Hne HF HneF. rewrite (mant_loop_digits base I HI).
  cbn [mant_loop]. change (46 =? 46) with true. cbn [andb].
  rewrite <- (app_nil_r F) at 1. rewrite (mant_loop_digits base F HF). cbn [mant_loop].
  rewrite digval_app. destruct I; [congruence|]. destruct F; [congruence|]. reflexivity.
Qed.

Lemma parse_plain base z ng I F : (base = 10 \/ base = 0) ->
  all_digits I = true -> I <> [] -> all_digits F = true ->
  let s := sign_bytes ng ++ I ++ opt_frac F in
  let v := digval (I ++ F) 0 in
  let e := - zlen F in
  0 < v -> ndig v + 18 < 4294967296 - 18 -> zlen F < 4294967296 -> 0 <= prec z <= MaxPrec ->
  MinExp <= ndig v + e <= MaxExp ->
  let p := if prec z =? 0 then DefaultDecimalPrec else prec z in
  exists z', Parse z s base = POk z' 10 [] /\
    result_spec p (dmode z) ng (scaled v e) z' /\ prec z' = p /\ dmode z' = dmode z /\ WF z'.
Proof.
  intros Hbase HI HneI HF s v e Hv Hlen HlenF Hprec HE p.
  set (body := I ++ opt_frac F).
  assert (exists i0 I0, I = i0 :: I0) as (i0 & I0 & EI) by (destruct I; [congruence|eauto]).
  assert (Hi0 : is_digit i0 = true).
  { rewrite EI in HI. cbn [all_digits forallb] in HI. now apply andb_true_iff in HI as [H _]. }
  assert (Hsign : scanSign (sign_bytes ng ++ body) = Some (ng, body)).
  { unfold sign_bytes, body. rewrite EI. destruct ng; cbn [app scanSign].
    - reflexivity.
    - destruct (digit_facts i0 Hi0) as (_ & _ & E43 & E45 & _). now rewrite E45, E43. }
  assert (Hscan : exists ds, dec_scan base body = Some ds /\ ds_err ds = false /\ ds_b ds = 10 /\
            ds_val ds = v /\ ds_rest ds = [] /\ Z.min (ds_count ds) 0 = - zlen F /\ - 4294967296 < ds_count ds).
  { unfold body. rewrite (dec_scan_body base I (opt_frac F) Hbase HI HneI (not_prefix_plain F)).
    eexists. split; [reflexivity|].
    assert (HzI : 1 <= zlen I) by (rewrite EI, zlen_cons; pose proof (zlen_nonneg I0); lia).
    destruct F as [|f0 F0].
    - cbn [opt_frac]. rewrite app_nil_r. rewrite mant_plain_int by assumption.
      cbn [m_rest m_acc m_dp m_count m_inval m_prev ds_err ds_b ds_val ds_rest ds_count].
      unfold v. rewrite app_nil_r. change (zlen (@nil Z)) with 0.
      replace (0 <=? -1) with false by reflexivity.
      replace (zlen I =? 0) with false by (symmetry; apply Z.eqb_neq; lia).
      repeat split; try reflexivity; lia.
    - cbn [opt_frac]. set (F := f0 :: F0) in *.
      rewrite mant_plain_frac; [|assumption|assumption|assumption|discriminate].
      cbn [m_rest m_acc m_dp m_count m_inval m_prev ds_err ds_b ds_val ds_rest ds_count].
      pose proof (zlen_nonneg F).
      replace (0 <=? zlen I) with true by (symmetry; apply Z.leb_le; lia).
      replace (zlen I + zlen F =? 0) with false by (symmetry; apply Z.eqb_neq; lia).
      repeat split; try reflexivity; lia. }
  destruct Hscan as (ds & Hds & Herr & Hb & Hval & Hrest & Hcnt & Hcnt2).
  assert (Hsx : scanExponent (base =? 0) (ds_rest ds) = mkES [] 0 10 false) by (rewrite Hrest; reflexivity).
  pose proof (parse10_correct z (sign_bytes ng ++ body) base ng body ds Hsign Hds Herr Hb) as HP.
  rewrite Hsx in HP. cbn [es_err es_base es_exp es_rest] in HP.
  rewrite Hval in HP.
  specialize (HP eq_refl eq_refl Hv Hlen Hcnt2 Hprec).
  cbv zeta in HP. destruct HP as [HP _]. rewrite Hcnt, Z.add_0_r in HP.
  destruct (HP HE) as (z' & Hrun & Hspec & Hp' & Hm' & Hwf').
  exists z'. split; [|auto].
  unfold s. fold body. rewrite Parse_scan.
  - rewrite Hrun. reflexivity.
  - intros c t Ect. unfold sign_bytes, body in Ect. rewrite EI in Ect.
    destruct (digit_not_inf i0 Hi0) as (A1 & A2 & _).
    destruct ng; cbn [app] in Ect; injection Ect as <- <-.
    + split; [lia|]. split; [lia|]. intros c2 t2 E2. injection E2 as <- _. auto.
    + split; [exact A1|]. split; [exact A2|]. intros c2 t2 E2.
      destruct I0 as [|i1 I1].
      * destruct F as [|f0 F0]; cbn [opt_frac app] in E2; [discriminate|]. injection E2 as <- _. lia.
      * cbn [app] in E2. injection E2 as <- _.
        rewrite EI in HI. cbn [all_digits forallb] in HI. apply andb_true_iff in HI as [_ HI].
        apply andb_true_iff in HI as [HI _]. destruct (digit_not_inf i1 HI) as (B1 & B2 & _). auto.
Qed.

(* ------------------------------------------------------------------ *)
(* the 'f' format with precision -1 *)

Definition f_int (D : bytes) (e : Z) : bytes :=
  if zlen D <=? e then D ++ zeros (e - zlen D)
  else if 0 <? e then firstn (Z.to_nat e) D
  else [48].
Definition f_frac (D : bytes) (e : Z) : bytes :=
  if zlen D <=? e then []
  else if 0 <? e then skipn (Z.to_nat e) D
  else zeros (- e) ++ D.

Lemma firstn_app_le {A} (l r : list A) k : (k <= length l)%nat -> firstn k (l ++ r) = firstn k l.
Proof.
  intros H. rewrite firstn_app. replace (k - length l)%nat with O by lia. cbn. now rewrite app_nil_r.
Qed.

Lemma skipn_app_le {A} (l r : list A) k : (k <= length l)%nat -> skipn k (l ++ r) = skipn k l ++ r.
Proof.
  intros H. rewrite skipn_app. replace (k - length l)%nat with O by lia. reflexivity.
Qed.

Lemma text_f x D : SigDigits x D -> dform x = Ffinite ->
  Text x 102 (-1) = Some (sign_bytes (neg x) ++ f_int D (exp x) ++ opt_frac (f_frac D (exp x))).
Proof.
  intros S Hf. destruct (sd_toa x D S) as (t & Ht & Htoa & Htrim & _).
  pose proof (sd_minprec x D S) as Hmp. destruct (sd_len x D S) as [Hn1 _].
  pose proof (zlen_nonneg D) as HzD.
  unfold Text, Append, mexp. rewrite Hf, Hmp.
  cbv beta iota zeta. cbn [Z.eqb Pos.eqb is_eE is_gG orb andb Z.ltb Z.compare app].
  rewrite Hmp. cbv beta iota zeta. rewrite ?Hf.
  unfold fmtF. rewrite Htoa, Hmp. unfold blen. rewrite zlen_app, zeros_len by lia.
  set (e := exp x) in *. set (n := zlen D) in *. fold (sign_bytes (neg x)).
  unfold f_int, f_frac. fold n.
  destruct (Z.leb_spec n e) as [Hge|Hlt].
  - (* integer *)
    replace (0 <? e) with true by (symmetry; apply Z.ltb_lt; lia).
    replace (Z.min n e) with n by lia.
    replace (n + t <? n) with false by (symmetry; apply Z.ltb_ge; lia).
    replace (Z.max (n - e) 0) with 0 by lia. change (0 <? 0) with false. cbv iota.
    rewrite firstn_app_le by (unfold n, zlen; lia).
    replace (Z.to_nat n) with (length D) by (unfold n, zlen; lia). rewrite firstn_all.
    cbn [opt_frac]. now rewrite !app_nil_r.
  - destruct (Z.ltb_spec 0 e) as [Hpos|Hnp].
    + (* digits on both sides of the point *)
      replace (Z.min n e) with e by lia.
      replace (n + t <? e) with false by (symmetry; apply Z.ltb_ge; lia).
      replace (Z.max (n - e) 0) with (n - e) by lia.
      replace (0 <? n - e) with true by (symmetry; apply Z.ltb_lt; lia). cbv iota zeta.
      replace (Z.min (n - e) (Z.max 0 (- e))) with 0 by lia.
      replace (Z.max e 0) with e by lia.
      rewrite firstn_app_le by (unfold n, zlen in *; lia).
      rewrite skipn_app_le by (unfold n, zlen in *; lia).
      rewrite Z.sub_0_r.
      assert (Hsk : zlen (skipn (Z.to_nat e) D) = n - e) by (rewrite zlen_skipn by (unfold n, zlen in *; lia); lia).
      assert (Hlen2 : length (skipn (Z.to_nat e) D) = Z.to_nat (n - e)).
      { apply Nat2Z.inj. rewrite Z2Nat.id by lia. exact Hsk. }
      rewrite ?firstn_app_le by lia.
      rewrite <- Hlen2, firstn_all.
      rewrite Hsk. replace (n - e - (n - e)) with 0 by lia. replace (e - e) with 0 by lia.
      change (zeros 0) with (@nil Z). cbn [app]. rewrite !app_nil_r.
      assert (Hne : skipn (Z.to_nat e) D <> []).
      { intros E0. rewrite E0 in Hsk. change (zlen (@nil Z)) with 0 in Hsk. lia. }
      destruct (skipn (Z.to_nat e) D) eqn:Es; [congruence|]. reflexivity.
    + (* 0.000ddd *)
      replace (Z.max (n - e) 0) with (n - e) by lia.
      replace (0 <? n - e) with true by (symmetry; apply Z.ltb_lt; lia). cbv iota zeta.
      replace (Z.min (n - e) (Z.max 0 (- e))) with (- e) by lia.
      replace (Z.max e 0) with 0 by lia. cbn [Z.to_nat skipn].
      replace (n - e - - e) with n by lia.
      rewrite firstn_app_le by (unfold n, zlen; lia).
      replace (Z.to_nat n) with (length D) by (unfold n, zlen; lia). rewrite firstn_all.
      replace (n - zlen D) with 0 by (unfold n; lia). change (zeros 0) with (@nil Z). rewrite app_nil_r.
      destruct (zeros (- e) ++ D) eqn:Ez.
      { exfalso. apply (f_equal (@zlen Z)) in Ez. rewrite zlen_app, zeros_len in Ez by lia.
        change (zlen (@nil Z)) with 0 in Ez. unfold n in *. lia. }
      cbn [opt_frac app]. reflexivity.
Qed.

Lemma digval_lead_zeros k (D : bytes) : 0 <= k -> digval (zeros k ++ D) 0 = digval D 0.
Proof. intros Hk. rewrite digval_app, digval_zeros by lia. reflexivity. Qed.

Lemma all_digits_firstn k (D : bytes) : all_digits D = true -> all_digits (firstn k D) = true.
Proof.
  revert k. induction D as [|c D IH]; intros k H; [destruct k; reflexivity|].
  destruct k; [reflexivity|]. cbn [firstn all_digits forallb] in *.
  apply andb_true_iff in H as [H1 H2]. rewrite H1. cbn [andb]. apply IH. exact H2.
Qed.

Lemma all_digits_skipn k (D : bytes) : all_digits D = true -> all_digits (skipn k D) = true.
Proof.
  revert k. induction D as [|c D IH]; intros k H; [destruct k; reflexivity|].
  destruct k; [exact H|]. cbn [skipn]. cbn [all_digits forallb] in H.
  apply andb_true_iff in H as [_ H2]. apply IH. exact H2.
Qed.

Theorem roundtrip_f base x z :
  (base = 10 \/ base = 0) -> WF x -> dform x = Ffinite ->
  mdigits (mant x) < 2147483648 - 36 -> 0 <= prec z <= MaxPrec ->
  let p := if prec z =? 0 then DefaultDecimalPrec else prec z in
  (forall mp, MinPrec x = Some mp -> mp <= p) ->
  exists t z', Text x 102 (-1) = Some t /\ Parse z t base = POk z' 10 [] /\
    dform z' = Ffinite /\ neg z' = neg x /\ (mag z' == mag x)%Q /\ acc z' = Exact /\
    prec z' = p /\ dmode z' = dmode z /\ WF z'.
Proof.
  intros Hbase Hwf Hf Hlen Hprec p Hmp.
  pose proof (WF_finite x Hwf Hf) as Hx.
  destruct (sig_digits x Hx Hf) as (D & S).
  pose proof (text_f x D S Hf) as Ht.
  pose proof (sd_digits x D S) as HdD. pose proof (sd_range x D S) as Hrange.
  destruct (sd_len x D S) as [HlD HlD2].
  destruct Hx as [Hne Hok Htop Hprecx Hexp Htail].
  set (e := exp x) in *. set (n := zlen D) in *.
  assert (Hpos : 0 < digval D 0).
  { assert (0 < 10 ^ (n - 1)) by (apply Z.pow_pos_nonneg; lia). lia. }
  assert (HndD : ndig (digval D 0) = n) by (apply ndig_digits; assumption).
  assert (Hmpx : n <= p) by (apply Hmp; exact (sd_minprec x D S)).
  (* the value written by the two parts, as  c * 10^j  with exponent  e - n - j *)
  assert (Hparts : exists j, 0 <= j /\ all_digits (f_int D e) = true /\ f_int D e <> [] /\
             all_digits (f_frac D e) = true /\
             digval (f_int D e ++ f_frac D e) 0 = digval D 0 * 10 ^ j /\
             - zlen (f_frac D e) = e - n - j /\ zlen (f_frac D e) < 4294967296 /\ n + j <= Z.max n e).
  { unfold f_int, f_frac. fold n. unfold MinExp, MaxExp in Hexp.
    destruct (Z.leb_spec n e) as [Hge|Hlt].
    - exists (e - n). split; [lia|]. rewrite app_nil_r, all_digits_app, HdD, all_digits_zeros.
      split; [reflexivity|]. split.
      { intros E0. apply (f_equal (@zlen Z)) in E0. rewrite zlen_app, zeros_len in E0 by lia.
        change (zlen (@nil Z)) with 0 in E0. fold n in E0. lia. }
      split; [reflexivity|]. rewrite digval_app, digval_zeros by lia.
      change (zlen (@nil Z)) with 0. repeat split; lia.
    - destruct (Z.ltb_spec 0 e) as [Hp0|Hnp].
      + exists 0. split; [lia|]. rewrite firstn_skipn, Z.pow_0_r, Z.mul_1_r.
        split; [apply all_digits_firstn; exact HdD|]. split.
        { intros E0. apply (f_equal (@length Z)) in E0. rewrite firstn_length in E0. unfold n, zlen in *. cbn in E0. lia. }
        split; [apply all_digits_skipn; exact HdD|]. split; [reflexivity|].
        rewrite zlen_skipn by (unfold n, zlen in *; lia). fold n. lia.
      + exists 0. split; [lia|]. rewrite Z.pow_0_r, Z.mul_1_r.
        split; [reflexivity|]. split; [discriminate|].
        split; [rewrite all_digits_app, all_digits_zeros; exact HdD|].
        split; [change ([48] ++ zeros (- e) ++ D) with (zeros 1 ++ zeros (- e) ++ D);
                rewrite !digval_lead_zeros by lia; reflexivity|].
        rewrite zlen_app, zeros_len by lia. fold n. lia. }
  destruct Hparts as (j & Hj & HdI & HneI & HdF & Hval & Hfc & HlF & Hjn).
  assert (HPj : 0 < 10 ^ j) by (apply Z.pow_pos_nonneg; lia).
  assert (Hnd : ndig (digval D 0 * 10 ^ j) = n + j).
  { apply ndig_unique; [lia|]. destruct Hrange as [Hlo Hhi].
    assert (E1 : 10 ^ (n + j - 1) = 10 ^ (n - 1) * 10 ^ j) by (rewrite <- Z.pow_add_r by lia; f_equal; lia).
    assert (E2 : 10 ^ (n + j) = 10 ^ n * 10 ^ j) by (rewrite <- Z.pow_add_r by lia; f_equal; lia).
    rewrite E1, E2. nia. }
  pose proof (parse_plain base z (neg x) (f_int D e) (f_frac D e) Hbase HdI HneI HdF) as HP.
  cbv zeta in HP. rewrite Hval, Hnd, Hfc in HP.
  assert (Hjb : n + j <= 2147483647) by (unfold MinExp, MaxExp in Hexp; lia).
  destruct (HP ltac:(nia) ltac:(unfold MinExp, MaxExp in *; lia) HlF Hprec ltac:(lia)) as (z' & Hrun & Hspec & Hp' & Hm' & Hwf').
  fold p in Hspec, Hp'.
  eexists. exists z'. split; [exact Ht|]. split; [exact Hrun|].
  assert (EQ : (scaled (digval D 0 * 10 ^ j) (e - n - j) == scaled (digval D 0) (e - n))%Q).
  { rewrite scaled_pow by lia. apply (scaled_eq_gen _ _ _ _ (e - n)); try lia. f_equal. f_equal. lia. }
  apply (result_spec_ext' _ _ _ _ _ _ EQ) in Hspec.
  destruct (result_spec_exact p (dmode z) (neg x) (digval D 0) (e - n) z') as (A1 & A2 & A3 & A4);
    try assumption; try lia.
  split; [exact A2|]. split; [exact A1|]. split; [rewrite A3; symmetry; apply (mag_sig x D S)|].
  split; [exact A4|]. auto.
Qed.

(* 'g', 'G' and MarshalText (= 'g', -1): the 'e'/'E' or the 'f' output *)
Theorem roundtrip_g base x z fmt :
  (base = 10 \/ base = 0) -> WF x -> dform x = Ffinite -> (fmt = 103 \/ fmt = 71) ->
  mdigits (mant x) < 2147483648 - 36 -> 0 <= prec z <= MaxPrec ->
  let p := if prec z =? 0 then DefaultDecimalPrec else prec z in
  (forall mp, MinPrec x = Some mp -> mp <= p) ->
  exists t z', Text x fmt (-1) = Some t /\ Parse z t base = POk z' 10 [] /\
    dform z' = Ffinite /\ neg z' = neg x /\ (mag z' == mag x)%Q /\ acc z' = Exact /\
    prec z' = p /\ dmode z' = dmode z /\ WF z'.
Proof.
  intros Hbase Hwf Hf Hfmt Hlen Hprec p Hmp.
  pose proof (WF_finite x Hwf Hf) as Hx.
  destruct (sig_digits x Hx Hf) as (D & S).
  destruct (text_g x D S Hf) as [Hg HG].
  destruct Hfmt as [-> | ->]; [rewrite Hg|rewrite HG];
    destruct ((exp x - 1 <? -4) || (6 <=? exp x - 1)).
  - apply roundtrip_e; auto. lia.
  - apply roundtrip_f; auto.
  - apply roundtrip_e; auto. lia.
  - apply roundtrip_f; auto.
Qed.

(* ------------------------------------------------------------------ *)
(* MarshalText / UnmarshalText, zeros and infinities *)

Theorem roundtrip_marshal x z :
  WF x -> dform x = Ffinite ->
  mdigits (mant x) < 2147483648 - 36 -> 0 <= prec z <= MaxPrec ->
  let p := if prec z =? 0 then DefaultDecimalPrec else prec z in
  (forall mp, MinPrec x = Some mp -> mp <= p) ->
  exists t z', MarshalText x = Some t /\ UnmarshalText z t = POk z' 10 [] /\
    dform z' = Ffinite /\ neg z' = neg x /\ (mag z' == mag x)%Q /\ acc z' = Exact /\
    prec z' = p /\ dmode z' = dmode z /\ WF z'.
Proof.
  intros Hwf Hf Hlen Hprec p Hmp.
  exact (roundtrip_g 0 x z 103 (or_intror eq_refl) Hwf Hf (or_introl eq_refl) Hlen Hprec Hmp).
Qed.

(* +-0 prints as "0" / "-0" in the 'g' format and parses back to a zero of that sign *)
Theorem roundtrip_zero base x z :
  (base = 10 \/ base = 0) -> dform x = Fzero ->
  let p := if prec z =? 0 then DefaultDecimalPrec else prec z in
  exists z', Text x 103 (-1) = Some (sign_bytes (neg x) ++ [48]) /\
    Parse z (sign_bytes (neg x) ++ [48]) base = POk z' 10 [] /\
    dform z' = Fzero /\ neg z' = neg x /\ acc z' = Exact /\ prec z' = p /\ dmode z' = dmode z.
Proof.
  intros Hbase Hf p.
  assert (Ht : Text x 103 (-1) = Some (sign_bytes (neg x) ++ [48])).
  { unfold Text, Append, MinPrec, mexp, fmtF, toa. rewrite Hf. cbv beta iota zeta.
    cbn [Z.eqb Pos.eqb is_eE is_gG orb andb Z.ltb Z.compare app]. unfold MinPrec, mexp, toa. rewrite Hf.
    cbv beta iota zeta. cbn [Z.eqb Pos.eqb is_eE is_gG orb andb Z.ltb Z.leb Z.compare app Z.sub Z.max Z.opp Z.add].
    unfold sign_bytes. destruct (neg x); reflexivity. }
  destruct Hbase as [-> | ->]; unfold sign_bytes; destruct (neg x);
    (eexists; split; [exact Ht|]; split; [reflexivity|]; repeat split; reflexivity).
Qed.

(* +-Inf prints as "+Inf" / "-Inf" and parses back to that infinity (for every base argument) *)
Theorem roundtrip_inf base x z fmt :
  dform x = Finf ->
  exists z', Text x fmt (-1) = Some (s_Inf_signed (neg x)) /\
    Parse z (s_Inf_signed (neg x)) base = POk z' 0 [] /\
    dform z' = Finf /\ neg z' = neg x /\ acc z' = Exact /\ prec z' = prec z /\ dmode z' = dmode z.
Proof.
  intros Hf. unfold Text, Append. rewrite Hf.
  unfold s_Inf_signed. destruct (neg x); (eexists; split; [reflexivity|]; split; [reflexivity|]; repeat split; reflexivity).
Qed.
