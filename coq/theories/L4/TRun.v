(* L4/TRun.v — programs of text-codec operations over a store of Decimal
   variables: the object the C11/C12/C13 correspondence checks execute on
   both sides (Go: harness/tdriver, model: build/trunner and vm_compute). *)
From Dec Require Export L3.Store L4.Scan L4.Toa L4.Format.
Open Scope Z_scope.

Inductive top :=
| TText (v : nat) (fmt prec : Z)
| TAppend (v : nat) (fmt prec : Z) (buf : bytes)
| TFormat (v : nat) (flags width prec verb : Z)      (* width/prec: -1 = not given *)
| TSprintf (v : nat) (flags width prec verb : Z)
| TMarshalText (v : nat)
| TMarshalJSON (v : nat)
| TParse (z : nat) (s : bytes) (base : Z)
| TSetString (z : nat) (s : bytes)
| TUnmarshalText (z : nat) (s : bytes)
| TUnmarshalJSON (z : nat) (s : bytes)
| TParseDecimal (z : nat) (s : bytes) (base p : Z) (md : mode)
| TScan (z : nat) (s : bytes)
| TRoundTrip (v : nat) (fmt extra : Z) (md : mode) (base : Z)
| TBigParse (s : bytes) (base : Z)
| TMinPrec (v : nat).

Definition res_bytes (b : bytes) : result := mkRes Ok [] [b].
Definition res_crash : result := mkRes Crash [] [].

Definition flags_state (flags width prec : Z) : fstate :=
  mkFS (Z.odd flags) (Z.odd (flags / 2)) (Z.odd (flags / 4)) (Z.odd (flags / 8))
       (if width <? 0 then None else Some width) (if prec <? 0 then None else Some prec).

Definition out_bytes (s : store) (o : option bytes) : store * result :=
  match o with Some b => (s, res_bytes b) | None => (s, res_crash) end.

(* the verdict on the grammar alone (what math/big's Float.Parse accepts):
   None = panic, Some None = rejected, Some (Some b) = accepted with base b *)
Definition grammar_accept (s : bytes) (base : Z) : option (option Z) :=
  if bytes_eqb s s_Inf || bytes_eqb s s_inf then Some (Some 0)
  else
    let infs := match s with
                | c :: t => ((c =? 43) || (c =? 45)) && (bytes_eqb t s_Inf || bytes_eqb t s_inf)
                | [] => false end in
    if infs then Some (Some 0)
    else
      match scanSign s with
      | None => if valid_base base then Some None else None
      | Some (_, r1) =>
          match dec_scan base r1 with
          | None => None
          | Some ds =>
              if ds_err ds then Some None
              else
                let es := scanExponent (base =? 0) (ds_rest ds) in
                if es_err es then Some None
                else match es_rest es with [] => Some (Some (ds_b ds)) | _ => Some None end
          end
      end.

(* strip one pair of double quotes (JSON string without escapes) *)
Definition unquote (s : bytes) : option bytes :=
  match s with
  | 34 :: t => match rev t with 34 :: u => Some (rev u) | _ => None end
  | _ => None
  end.

Definition parse_result (s : store) (z : nat) (full : bool) (r : pres) : store * result :=
  match r with
  | POk z' b rest =>
      (set s z z', if full then res_ok [0; 0; b] else res_ok [0])
  | PErr z' dnil => (set s z z', if full then res_ok [1; b2z dnil] else res_ok [1])
  | PNaN z' => (set s z z', mkRes NaN [] [])
  | PCrash z' => (set s z z', res_crash)
  end.

Definition tstep (s : store) (o : top) : store * result :=
  match o with
  | TText v fmt prec => out_bytes s (Text (get s v) fmt prec)
  | TAppend v fmt prec buf => out_bytes s (Append buf (get s v) fmt prec)
  | TFormat v flags width prec verb
  | TSprintf v flags width prec verb =>
      out_bytes s (Format (get s v) (flags_state flags width prec) verb)
  | TMarshalText v => out_bytes s (MarshalText (get s v))
  | TMarshalJSON v => out_bytes s (MarshalJSON (get s v))
  | TParse z str base => parse_result s z true (Parse (get s z) str base)
  | TSetString z str =>
      match SetString (get s z) str with
      | POk z' _ _ => (set s z z', res_ok [1])
      | PErr z' _ => (set s z z', res_ok [0])
      | PNaN z' => (set s z z', mkRes NaN [] [])
      | PCrash z' => (set s z z', res_crash)
      end
  | TUnmarshalText z str => parse_result s z false (UnmarshalText (get s z) str)
  | TUnmarshalJSON z str =>
      match unquote str with
      | Some t => parse_result s z false (UnmarshalText (get s z) t)
      | None => (s, res_ok [1])
      end
  | TParseDecimal z str base p md =>
      match ParseDecimal str base p md with
      | POk z' b _ => (set s z z', res_ok [0; 0; b])
      | PErr z' false => (set s z z', res_ok [1; 0])
      | PErr _ true => (s, res_ok [1; 1])
      | PNaN _ => (s, mkRes NaN [] [])
      | PCrash _ => (s, res_crash)
      end
  | TScan z str =>
      match ScanFmt (get s z) str with
      | POk z' _ rest => (set s z z', res_ok [0; zlen rest])
      | PErr z' _ => (set s z z', res_ok [1])
      | PNaN z' => (set s z z', mkRes NaN [] [])
      | PCrash z' => (set s z z', res_crash)
      end
  | TRoundTrip v fmt extra md base =>
      let x := get s v in
      (* fmt 0: MarshalText/UnmarshalText, 1: JSON, otherwise Text/Parse *)
      let txt := if fmt =? 0 then MarshalText x else if fmt =? 1 then MarshalJSON x else Text x fmt (-1) in
      match txt, MinPrec x with
      | Some t, Some mp =>
          match SetPrec dec_zero (Z.max mp 1 + extra) with
          | OkR z0 =>
              let back := if fmt =? 0 then UnmarshalText (with_mode z0 md) t
                          else if fmt =? 1 then
                            match unquote t with
                            | Some u => UnmarshalText (with_mode z0 md) u
                            | None => PErr z0 true
                            end
                          else Parse (with_mode z0 md) t base in
              match back with
              | POk z' _ _ =>
                  (s, mkRes Ok [0; Cmp x z'; b2z (Bool.eqb (neg x) (neg z')); mp; acc_num (acc z')] [t])
              | PErr _ _ => (s, mkRes Ok [1] [t])
              | PNaN _ => (s, mkRes NaN [] [t])
              | PCrash _ => (s, res_crash)
              end
          | _ => (s, res_crash)
          end
      | _, _ => (s, res_crash)
      end
  | TBigParse str base =>
      match grammar_accept str base with
      | None => (s, res_crash)
      | Some None => (s, res_ok [0])
      | Some (Some b) => (s, res_ok [1; b])
      end
  | TMinPrec v =>
      match MinPrec (get s v) with Some p => (s, res_ok [p]) | None => (s, res_crash) end
  end.

Fixpoint trun (s : store) (p : list top) : list (result * store) :=
  match p with
  | [] => []
  | o :: p' =>
      let '(s', r) := tstep s o in
      match r_out r with
      | Crash => [(r, s')]
      | _ => (r, s') :: trun s' p'
      end
  end.

(* in-kernel sample: initial store, program, observations of the implementation *)
Definition tcase := (store * list top * list (result * store))%type.
Definition tcase_ok (c : tcase) : bool :=
  let '(s, p, o) := c in list_eqb obs_eqb (trun s p) o.
Fixpoint tmismatches_from (i : nat) (cs : list tcase) : list nat :=
  match cs with
  | [] => []
  | c :: r => if tcase_ok c then tmismatches_from (S i) r else i :: tmismatches_from (S i) r
  end.
Definition tmismatches (cs : list tcase) : list nat := tmismatches_from 0 cs.
