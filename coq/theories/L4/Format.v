(* L4/Format.v — model of Decimal.Format (decimal_toa.go), the
   fmt.Formatter implementation.  The fmt.State is given by its observable
   content: the four flags, the optional width and the optional precision.
   Verbs are ASCII.  Definitions only. *)
From Dec Require Export L4.Toa.
Open Scope Z_scope.

Record fstate := mkFS {
  f_plus : bool; f_space : bool; f_zero : bool; f_minus : bool;
  f_width : option Z; f_prec : option Z
}.

(* the text "( * decimal.Decimal=" without the blanks *)
Definition s_badverb_mid : bytes :=
  [40; 42; 100; 101; 99; 105; 109; 97; 108; 46; 68; 101; 99; 105; 109; 97; 108; 61].

Definition Format (x : Dec) (s : fstate) (verb : Z) : option bytes :=
  let hasPrec := match f_prec s with Some _ => true | None => false end in
  let prec0 := match f_prec s with Some p => p | None => 6 end in
  (* Some (format, prec) or None for an unsupported verb *)
  let sel :=
    if (verb =? 101) || (verb =? 69) || (verb =? 102) || (verb =? 98) || (verb =? 112)
    then Some (verb, prec0)
    else if verb =? 70 then Some (102, prec0)
    else if verb =? 115 then Some (103, if hasPrec then prec0 else 10)
    else if (verb =? 118) || (verb =? 103) then Some (103, if hasPrec then prec0 else -1)
    else if verb =? 71 then Some (71, if hasPrec then prec0 else -1)
    else None in
  match sel with
  | None =>
      match String_ x with
      | Some t => Some ([37; 33; verb] ++ s_badverb_mid ++ t ++ [41])
      | None => None
      end
  | Some (format, prec) =>
      match Append [] x format prec with
      | None => None
      | Some buf0 =>
          let buf := match buf0 with [] => [63] | _ => buf0 end in
          let '(sign, body) :=
            match buf with
            | c :: t =>
                if c =? 45 then ([45], t)
                else if c =? 43 then ((if f_space s && negb (f_plus s) then [32] else [43]), t)
                else if f_plus s then ([43], buf)
                else if f_space s then ([32], buf)
                else ([], buf)
            | [] => ([], buf)
            end in
          let padding :=
            match f_width s with
            | Some w => if blen sign + blen body <? w then w - blen sign - blen body else 0
            | None => 0
            end in
          if f_zero s && negb (f_minus s) && negb (IsInf x) then Some (sign ++ zeros padding ++ body)
          else if f_minus s then Some (sign ++ body ++ repeat 32 (Z.to_nat padding))
          else Some (repeat 32 (Z.to_nat padding) ++ sign ++ body)
      end
  end.
