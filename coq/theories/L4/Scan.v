(* L4/Scan.v — model of the text-to-Decimal path: scanSign, scanExponent
   (stdlib.go), dec.scan (dec_conv.go), Decimal.scan, pow2, Parse, SetString,
   ParseDecimal, Scan (decimal_conv.go), UnmarshalText (decimal_marsh.go).

   Byte strings are lists of byte values (list Z).  An io.ByteScanner over a
   string is the list of the bytes not yet read; UnreadByte after a ReadByte
   is "do not consume".  The natural-number arithmetic of the mantissa
   scanner (mulAddWW per group of digits, norm) is taken at the value level:
   the words are of_Z of the value of the digit string (C06/C07 tie that to
   dec.go).  Definitions only. *)
From Dec Require Export L3.Arith.
Open Scope Z_scope.

Definition bytes := list Z.

Fixpoint bytes_eqb (a b : bytes) : bool :=
  match a, b with
  | [], [] => true
  | x :: a', y :: b' => (x =? y) && bytes_eqb a' b'
  | _, _ => false
  end.

(* character codes used below:
   '+' 43  '-' 45  '.' 46  '0' 48  '9' 57  'A' 65  'Z' 90  '_' 95  'a' 97 'z' 122
   'b' 98 'B' 66  'o' 111 'O' 79  'x' 120 'X' 88  'e' 101 'E' 69  'p' 112 'P' 80 *)
Definition s_Inf : bytes := [73; 110; 102].
Definition s_inf : bytes := [105; 110; 102].

(* ---- stdlib.go: scanSign.  None = read error (EOF) ---- *)
Definition scanSign (r : bytes) : option (bool * bytes) :=
  match r with
  | [] => None
  | c :: r' =>
      if c =? 45 then Some (true, r')
      else if c =? 43 then Some (false, r')
      else Some (false, r)
  end.

(* ---- dec_conv.go: dec.scan with fracOk = true (the only use in Decimal.scan) ---- *)

(* digit value of a byte in base b; MaxBase+1 = 63 for a non-digit *)
Definition digitval (b c : Z) : Z :=
  if (48 <=? c) && (c <=? 57) then c - 48
  else if (97 <=? c) && (c <=? 122) then c - 97 + 10
  else if (65 <=? c) && (c <=? 90) then (if b <=? 36 then c - 65 + 10 else c - 65 + 36)
  else 63.

(* `prev`: 0 = '.', 1 = '0' (a digit), 2 = '_' *)
Record mstate := mkM {
  m_rest : bytes;      (* unread input *)
  m_prev : Z;
  m_inval : bool;      (* invalSep *)
  m_count : Z;         (* digits seen *)
  m_dp : Z;            (* position of the radix point, -1 if none *)
  m_acc : Z            (* value of the digits seen *)
}.

(* the `for err == nil` loop of dec.scan *)
Fixpoint mant_loop (base b : Z) (r : bytes) (fracOk : bool) (prev : Z) (inval : bool)
         (count dp acc : Z) : mstate :=
  match r with
  | [] => mkM [] prev inval count dp acc
  | c :: r' =>
      if (c =? 46) && fracOk then
        mant_loop base b r' false 0 (inval || (prev =? 2)) count count acc
      else if (c =? 95) && (base =? 0) then
        mant_loop base b r' fracOk 2 (inval || negb (prev =? 1)) count dp acc
      else
        let d1 := digitval b c in
        if b <=? d1 then mkM r prev inval count dp acc            (* UnreadByte; break *)
        else mant_loop base b r' fracOk 1 inval (count + 1) dp (acc * b + d1)
  end.

Record dscan := mkDS {
  ds_rest : bytes;
  ds_val : Z;          (* value of the mantissa digits; res = of_Z ds_val *)
  ds_b : Z;            (* actual base *)
  ds_count : Z;        (* digit count, or minus the number of fractional digits *)
  ds_err : bool
}.

Definition valid_base (base : Z) : bool :=
  (base =? 0) || (base =? 2) || (base =? 8) || (base =? 10) || (base =? 16).

(* None = panic("invalid number base") *)
Definition dec_scan (base : Z) (r : bytes) : option dscan :=
  if negb (valid_base base) then None
  else
    let b0 := if base =? 0 then 10 else base in
    let '(b, st) :=
      match r with
      | c :: r1 =>
          if (base =? 0) && (c =? 48) then
            match r1 with
            | c2 :: r2 =>
                if (c2 =? 98) || (c2 =? 66) then (2, mant_loop base 2 r2 true 1 false 0 (-1) 0)
                else if (c2 =? 111) || (c2 =? 79) then (8, mant_loop base 8 r2 true 1 false 0 (-1) 0)
                else if (c2 =? 120) || (c2 =? 88) then (16, mant_loop base 16 r2 true 1 false 0 (-1) 0)
                else (10, mant_loop base 10 r1 true 1 false 1 (-1) 0)
            | [] => (10, mant_loop base 10 [] true 1 false 1 (-1) 0)
            end
          else (b0, mant_loop base b0 r true 0 false 0 (-1) 0)
      | [] => (b0, mant_loop base b0 [] true 0 false 0 (-1) 0)
      end in
    let err := m_inval st || (m_prev st =? 2) || (m_count st =? 0) in
    let count := if 0 <=? m_dp st then m_dp st - m_count st else m_count st in
    Some (mkDS (m_rest st) (m_acc st) b count err).

(* ---- stdlib.go: scanExponent with base2ok = true ---- *)

Record estate := mkE {
  e_rest : bytes; e_prev : Z; e_inval : bool; e_has : bool; e_val : Z
}.

Fixpoint exp_loop (sepOk : bool) (r : bytes) (prev : Z) (inval has : bool) (v : Z) : estate :=
  match r with
  | [] => mkE [] prev inval has v
  | c :: r' =>
      if (48 <=? c) && (c <=? 57) then exp_loop sepOk r' 1 inval true (v * 10 + (c - 48))
      else if (c =? 95) && sepOk then exp_loop sepOk r' 2 (inval || negb (prev =? 1)) has v
      else mkE r prev inval has v
  end.

Record escan := mkES { es_rest : bytes; es_exp : Z; es_base : Z; es_err : bool }.

Definition MinInt64 : Z := -9223372036854775808.
Definition MaxInt64 : Z := 9223372036854775807.

Definition scanExponent (sepOk : bool) (r : bytes) : escan :=
  match r with
  | [] => mkES [] 0 10 false
  | c :: r1 =>
      let eb := if (c =? 101) || (c =? 69) then 10
                else if (c =? 112) || (c =? 80) then 2 else 0 in
      if eb =? 0 then mkES r 0 10 false
      else
        let '(ng, r2) :=
          match r1 with
          | c2 :: r2' => if c2 =? 43 then (false, r2') else if c2 =? 45 then (true, r2') else (false, r1)
          | [] => (false, [])
          end in
        let st := exp_loop sepOk r2 0 false false 0 in
        let e := if ng then - e_val st else e_val st in
        (* errNoDigits; strconv.ParseInt range error; errInvalSep *)
        let err := negb (e_has st) || (e <? MinInt64) || (MaxInt64 <? e) ||
                   e_inval st || (e_prev st =? 2) in
        mkES (e_rest st) e eb err
  end.

(* ---- decimal.go: setBits64 / SetUint64 ---- *)
Definition clampExp (e : Z) : Z :=
  let lim := 1099511627776 in
  if lim <? e then lim else if e <? - lim then - lim else e.

Definition setBits64 (z : Dec) (ng : bool) (x : Z) (e : Z) : option Dec :=
  let z := if prec z =? 0 then with_prec z DefaultDecimalPrec else z in
  let z := with_neg (with_acc z Exact) ng in
  if x =? 0 then Some (with_form z Fzero)
  else
    let z := with_form z Ffinite in
    match dnorm (of_Z x) with
    | None => None
    | Some (m', s) => setExpAndRound (with_mant z m') (clampExp e + zlen m' * DW - s) 0
    end.

Definition SetUint64 (z : Dec) (x : Z) : ores := of_opt (setBits64 z false x 0).

Definition obind (r : ores) (f : Dec -> ores) : ores :=
  match r with OkR z => f z | NaNR z => NaNR z | CrashR => CrashR end.

(* ---- decimal_conv.go: pow2 ---- *)
Fixpoint pow2_loop (fuel : nat) (z f : Dec) (n : Z) : ores :=
  match fuel with
  | O => OkR z
  | S k =>
      if n <=? 0 then OkR z
      else if Z.odd n then
        obind (Mul z z f) (fun z' =>
          if n =? 1 then OkR z'
          else obind (Mul f f f) (fun f' => pow2_loop k z' f' (n / 2)))
      else obind (Mul f f f) (fun f' => pow2_loop k z f' (n / 2))
  end.

Definition pow2 (z : Dec) (n : Z) : ores :=
  if n <? 64 then SetUint64 z (2 ^ n)
  else
    obind (SetUint64 z (2 ^ 63)) (fun z1 =>
    obind (SetPrec dec_zero (prec z1 + DW)) (fun f0 =>
    obind (SetUint64 f0 2) (fun f => pow2_loop 64 z1 f (n - 63)))).

(* ---- decimal_conv.go: Decimal.scan ---- *)
Inductive pres :=
| POk (z : Dec) (b : Z) (rest : bytes)   (* f = z, base, unread input *)
| PErr (z : Dec) (dnil : bool)           (* error; receiver state; returned pointer nil? *)
| PNaN (z : Dec)                         (* ErrNaN panic *)
| PCrash (z : Dec).                      (* any other panic; receiver state at that point *)

Definition of_ores (z0 : Dec) (r : ores) (b : Z) (rest : bytes) : pres :=
  match r with OkR z => POk z b rest | NaNR z => PNaN z | CrashR => PCrash z0 end.

(* exponent contributions of the radix point and of the exponent part:
   (exp10, exp2), starting from exp10 = e0; None = panic("unexpected mantissa base") *)
Definition scan_exps (ds : dscan) (es : escan) (e0 : Z) : option (Z * Z) :=
  let b := ds_b ds in
  let d := ds_count ds in
  if (d <? 0) && negb ((b =? 10) || (b =? 2) || (b =? 8) || (b =? 16)) then None
  else
    let exp10 := if (d <? 0) && (b =? 10) then e0 + d else e0 in
    let exp2 := if d <? 0 then
                  (if b =? 2 then d else if b =? 8 then d * 3 else if b =? 16 then d * 4 else 0)
                else 0 in
    let exp10 := if es_base es =? 10 then i64 (exp10 + es_exp es) else exp10 in
    let exp2 := if es_base es =? 2 then i64 (exp2 + es_exp es) else exp2 in
    Some (exp10, exp2).

(* "apply 10**exp10" and "apply 2**exp2": z carries the normalised mantissa *)
Definition scan_finish (z : Dec) (p b : Z) (rest : bytes) (exp10 exp2 : Z) : pres :=
  if (MinExp <=? exp10) && (exp10 <=? MaxExp) then
    let z := with_exp (with_form (with_prec z p) Ffinite) (i32 exp10) in
    if exp2 =? 0 then
      match round z 0 with
      | None => PCrash z
      | Some z' => POk z' b rest
      end
    else
      match SetPrec dec_zero (prec z + DW) with
      | OkR p0 =>
          if exp2 <? 0 then
            match pow2 p0 (u64 (- exp2)) with
            | OkR pw => of_ores z (Quo z z pw) b rest
            | NaNR _ => PNaN z
            | CrashR => PCrash z
            end
          else
            match pow2 p0 (u64 exp2) with
            | OkR pw => of_ores z (Mul z z pw) b rest
            | NaNR _ => PNaN z
            | CrashR => PCrash z
            end
      | _ => PCrash z
      end
  else PErr z true.                      (* "exponent overflow" *)

Definition dscan_dec (z : Dec) (r : bytes) (base : Z) : pres :=
  let p := if prec z =? 0 then DefaultDecimalPrec else prec z in
  let z := with_form z Fzero in
  match scanSign r with
  | None => PErr (with_neg z false) true       (* z.neg, err = scanSign(r) stores false *)
  | Some (ng, r1) =>
      let z := with_neg z ng in
      match dec_scan base r1 with
      | None => PCrash z
      | Some ds =>
          let m := of_Z (ds_val ds) in
          let z := with_mant z m in
          if ds_err ds then PErr z true
          else
            let es := scanExponent (base =? 0) (ds_rest ds) in
            if es_err es then PErr z true
            else
              match m with
              | [] => POk (with_form (with_acc (with_prec z p) Exact) Fzero) (ds_b ds) (es_rest es)
              | _ =>
                  match dnorm m with
                  | None => PCrash z
                  | Some (m', s) =>
                      let z := with_mant z m' in
                      match scan_exps ds es (zlen m' * DW - s) with
                      | None => PCrash z
                      | Some (exp10, exp2) => scan_finish z p (ds_b ds) (es_rest es) exp10 exp2
                      end
                  end
              end
      end
  end.

(* ---- Parse ---- *)
Definition Parse (z : Dec) (s : bytes) (base : Z) : pres :=
  if bytes_eqb s s_Inf || bytes_eqb s s_inf then
    match SetInf z false with OkR z' => POk z' 0 [] | _ => PCrash z end
  else
    match s with
    | c :: t =>
        if ((c =? 43) || (c =? 45)) && (bytes_eqb t s_Inf || bytes_eqb t s_inf) then
          match SetInf z (c =? 45) with OkR z' => POk z' 0 [] | _ => PCrash z end
        else
          match dscan_dec z s base with
          | POk z' b [] => POk z' b []
          | POk z' b (_ :: _) => PErr z' true      (* "expected end of string" *)
          | r => r
          end
    | [] => dscan_dec z s base
    end.

Definition SetString (z : Dec) (s : bytes) : pres := Parse z s 0.
Definition UnmarshalText (z : Dec) (s : bytes) : pres := Parse z s 0.

(* ParseDecimal: new(Decimal).SetPrec(prec).SetMode(mode).Parse(s, base) *)
Definition ParseDecimal (s : bytes) (base p : Z) (md : mode) : pres :=
  match SetPrec dec_zero p with
  | OkR z0 => match SetMode z0 md with OkR z1 => Parse z1 s base | _ => PCrash z0 end
  | _ => PCrash dec_zero
  end.

(* Scan (fmt.Scanner) on ASCII input: SkipSpace, then scan with base 0; the
   rest of the input is left unread.  Space bytes: \t \n \v \f \r ' ' (the
   model is restricted to input bytes below 128). *)
Definition is_space (c : Z) : bool := ((9 <=? c) && (c <=? 13)) || (c =? 32).
Fixpoint skip_space (r : bytes) : bytes :=
  match r with
  | c :: r' => if is_space c then skip_space r' else r
  | [] => []
  end.
Definition ScanFmt (z : Dec) (s : bytes) : pres := dscan_dec z (skip_space s) 0.
