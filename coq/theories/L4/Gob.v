(* L4/Gob.v — model of GobEncode / GobDecode (decimal_marsh.go) at byte level.
   Bytes are integers 0..255; words are written big-endian, most significant
   word first. *)
From Dec Require Export L3.Round L3.Arith.
Open Scope Z_scope.

Definition decimalGobVersion : Z := 1.

(* n-byte big-endian encoding of v mod 256^n *)
Fixpoint be_bytes (n : nat) (v : Z) : list Z :=
  match n with
  | O => []
  | S n' => be_bytes n' (v / 256) ++ [v mod 256]
  end.

(* value of a big-endian byte string *)
Definition be_val (l : list Z) : Z := fold_left (fun a b => a * 256 + b) l 0.

(* dec.bytes on the words ws (little-endian words) into a zeroed buffer of
   8*len bytes: most significant word first *)
Definition words_bytes (ws : list Z) : list Z :=
  flat_map (fun w => be_bytes 8 w) (rev ws).

Definition mode_bits (m : mode) : Z := mode_num m.
Definition acc_bits (a : accuracy) : Z := acc_num a + 1.
Definition form_bits (f : form) : Z := form_num f.

(* GobEncode (x non-nil) *)
Definition GobEncode (x : Dec) : list Z :=
  let b := mode_bits (dmode x) * 32 + acc_bits (acc x) * 8 + form_bits (dform x) * 2 + b2z (neg x) in
  let hdr := [decimalGobVersion; b] ++ be_bytes 4 (prec x) in
  match dform x with
  | Ffinite =>
      let n := (prec x + (DW - 1)) / DW in
      let n := if zlen (mant x) <? n then zlen (mant x) else n in
      let top := skipn (Z.to_nat (zlen (mant x) - n)) (mant x) in
      hdr ++ be_bytes 4 (exp x mod 4294967296) ++ words_bytes top
  | _ => hdr
  end.

(* dec.setBytes: big-endian bytes to little-endian 64-bit words, normalised *)
Fixpoint chunks8_rev (fuel : nat) (l : list Z) : list Z :=
  (* l is the byte string REVERSED (least significant byte first) *)
  match fuel with
  | O => []
  | S f =>
      match l with
      | [] => []
      | _ => be_val (rev (firstn 8 l)) :: chunks8_rev f (skipn 8 l)
      end
  end.
Definition setBytes (buf : list Z) : list Z :=
  norm (chunks8_rev (S (length buf)) (rev buf)).

Definition mode_of_bits (b : Z) : option mode :=
  if b =? 0 then Some ToNearestEven else if b =? 1 then Some ToNearestAway
  else if b =? 2 then Some ToZero else if b =? 3 then Some AwayFromZero
  else if b =? 4 then Some ToNegativeInf else if b =? 5 then Some ToPositiveInf else None.
Definition acc_of_bits (b : Z) : option accuracy :=
  if b =? 0 then Some Below else if b =? 1 then Some Exact else if b =? 2 then Some Above else None.
Definition form_of_bits (b : Z) : option form :=
  if b =? 0 then Some Fzero else if b =? 1 then Some Ffinite else if b =? 2 then Some Finf else None.

Inductive gobres := GobOk (z : Dec) | GobErr (z : Dec) | GobCrash.

(* trailing zero digits of a mantissa = len*19 - MinPrec *)
Definition mant_minprec (m : list Z) : Z := zlen m * DW - ntz10 (val m).

(* GobDecode(buf).  On error the receiver is left untouched. *)
Definition GobDecode (z : Dec) (buf : list Z) : gobres :=
  match buf with
  | [] => GobOk dec_zero
  | v :: rest =>
      if negb (v =? decimalGobVersion) then GobErr z
      else if zlen buf <? 6 then GobErr z
      else
        let b := nth 1 buf 0 in
        match mode_of_bits ((b / 32) mod 8), acc_of_bits ((b / 8) mod 4), form_of_bits ((b / 2) mod 4) with
        | Some md, Some ac, Some f =>
            let p := be_val (firstn 4 (skipn 2 buf)) in
            let ng := (b mod 2 =? 1) in
            let finish (z' : Dec) : gobres :=
              if prec z =? 0 then GobOk z'
              else match SetPrec (with_mode z' (dmode z)) (prec z) with
                   | OkR z'' => GobOk z''
                   | _ => GobCrash
                   end in
            match f with
            | Ffinite =>
                if zlen buf <? 10 then GobErr z
                else
                  let m := setBytes (skipn 10 buf) in
                  if (match m with [] => true | _ => false end) || (last_word m <? B / 10) then GobErr z
                  else if negb (forallb (fun w => w <? B) m) then GobErr z
                  else if p <? mant_minprec m then GobErr z
                  else
                    let e := i32 (be_val (firstn 4 (skipn 6 buf))) in
                    finish (mkDec m e p md ac Ffinite ng)
            | _ => finish (mkDec (mant z) (exp z) p md ac f ng)
            end
        | _, _, _ => GobErr z
        end
  end.
