(* L4/Toa.v — model of the Decimal-to-text path: dec.utoa for base 10
   (dec_conv.go), MinPrec (decimal.go), toa, Text/Append, fmtE, fmtF, fmtB,
   fmtP (decimal_toa.go), MarshalText (decimal_marsh.go) and the JSON quoting
   of a TextMarshaler.  Definitions only.  `None` is a run-time panic. *)
From Dec Require Export L3.Arith L4.Scan.
Open Scope Z_scope.

(* ---- digit strings ---- *)

(* the k low decimal digits of w, most significant first, as characters *)
Fixpoint wdigits (k : nat) (w : Z) : bytes :=
  match k with
  | O => []
  | S k' => wdigits k' (w / 10) ++ [48 + w mod 10]
  end.

Fixpoint strip0 (s : bytes) : bytes :=
  match s with
  | c :: s' => if c =? 48 then strip0 s' else s
  | [] => []
  end.

(* bytes.TrimRight(s, "0") *)
Definition trim0 (s : bytes) : bytes := rev (strip0 (rev s)).

(* dec.utoa(10): every word yields 19 digits, high-order zeros are stripped.
   None: `for s[i] == '0'` runs off the buffer when all words are zero. *)
Definition utoa (m : list Z) : option bytes :=
  match m with
  | [] => Some [48]
  | _ => match strip0 (flat_map (wdigits 19) (rev m)) with
         | [] => None
         | t => Some t
         end
  end.

(* strconv.AppendInt(buf, n, 10) *)
Definition itoa_nonneg (n : Z) : bytes :=
  if n <=? 0 then [48]
  else strip0 (wdigits (S (Z.to_nat (Z.log2 n))) n).
Definition itoa (n : Z) : bytes :=
  if n <? 0 then 45 :: itoa_nonneg (- n) else itoa_nonneg n.

Definition zeros (k : Z) : bytes := repeat 48 (Z.to_nat k).
Definition blen (s : bytes) : Z := zlen s.

(* ---- MinPrec ---- *)

(* dec.trailingZeroDigits on a non-empty slice; None = index out of range
   (all words zero) *)
Fixpoint tzd (m : list Z) : option Z :=
  match m with
  | [] => None
  | w :: r => if w =? 0 then match tzd r with Some t => Some (DW + t) | None => None end
              else Some (ntz10 w)
  end.

Definition MinPrec (x : Dec) : option Z :=
  match dform x with
  | Ffinite =>
      match mant x with
      | [] => Some 0
      | m => match tzd m with Some t => Some (zlen m * DW - t) | None => None end
      end
  | _ => Some 0
  end.

(* x.MantExp(nil): the exponent of a finite x, 0 for zero and infinity *)
Definition mexp (x : Dec) : Z := match dform x with Ffinite => exp x | _ => 0 end.

(* ---- toa ---- *)
Definition toa (x : Dec) : option (bytes * Z) :=
  match dform x with
  | Ffinite => match utoa (strip_low (mant x)) with
               | Some s => Some (s, exp x)
               | None => None
               end
  | _ => Some ([], 0)
  end.

(* ---- fmtE: d.ddddde±dd ---- *)
Definition fmtE (buf : bytes) (x : Dec) (fmt prec : Z) : option bytes :=
  match toa x with
  | Some (mant0, ex) =>
      let mant := trim0 mant0 in
      let ch := match mant with c :: _ => c | [] => 48 end in
      let frac :=
        if 0 <? prec then
          let m := Z.min (blen mant) (prec + 1) in
          let ds := if 1 <? m then firstn (Z.to_nat (m - 1)) (skipn 1 mant) else [] in
          let i := if 1 <? m then m else 1 in
          46 :: ds ++ zeros (prec - i + 1)
        else [] in
      let e := match mant with [] => 0 | _ => ex - 1 end in
      let sg := if e <? 0 then 45 else 43 in
      let ea := Z.abs e in
      Some (buf ++ [ch] ++ frac ++ [fmt; sg] ++ (if ea <? 10 then [48] else []) ++ itoa ea)
  | None => None
  end.

(* ---- fmtF: ddddddd.ddddd ---- *)
Definition fmtF (buf : bytes) (x : Dec) (prec : Z) : option bytes :=
  match toa x with
  | Some (mant, e) =>
      let ipart :=
        if 0 <? e then
          match MinPrec x with
          | Some mp =>
              let m := Z.min mp e in
              if blen mant <? m then None        (* slice bounds out of range *)
              else Some (firstn (Z.to_nat m) mant ++ zeros (e - m))
          | None => None
          end
        else Some [48] in
      let frac :=
        if 0 <? prec then
          (* for i in 0..prec-1: mant[e+i] if 0 <= e+i < len(mant), else '0' *)
          let lead := Z.min prec (Z.max 0 (- e)) in
          let avail := skipn (Z.to_nat (Z.max e 0)) mant in
          let ds := firstn (Z.to_nat (prec - lead)) avail in
          46 :: zeros lead ++ ds ++ zeros (prec - lead - blen ds)
        else [] in
      match ipart with
      | Some ip => Some (buf ++ ip ++ frac)
      | None => None
      end
  | None => None
  end.

(* ---- fmtB: dddddde±dd ---- *)
Definition fmtB (buf : bytes) (x : Dec) : option bytes :=
  match dform x with
  | Fzero => Some (buf ++ [48])
  | _ =>
      match toa x with
      | Some (m0, e) =>
          let m := if prec x <? blen m0 then firstn (Z.to_nat (prec x)) m0 else m0 in
          let e' := e - prec x in
          Some (buf ++ m ++ zeros (prec x - blen m) ++ [101] ++
                (if 0 <=? e' then [43] else []) ++ itoa e')
      | None => None
      end
  end.

(* ---- fmtP: 0.dddde±dd ---- *)
Definition fmtP (buf : bytes) (x : Dec) : option bytes :=
  match dform x with
  | Fzero => Some (buf ++ [48])
  | _ =>
      match toa x with
      | Some (m0, e) =>
          Some (buf ++ [48; 46] ++ trim0 m0 ++ [101] ++ (if 0 <=? e then [43] else []) ++ itoa e)
      | None => None
      end
  end.

(* ---- Append ---- *)
Definition is_eE (f : Z) : bool := (f =? 101) || (f =? 69).
Definition is_gG (f : Z) : bool := (f =? 103) || (f =? 71).

Definition ores_opt (r : ores) : option Dec :=
  match r with OkR z => Some z | _ => None end.

(* step 1 of Append for prec >= 0: x rounded at the requested position.
   Returns the (possibly new) x. *)
Definition round_for_fmt (x : Dec) (fmt prec digits : Z) : option Dec :=
  let rnd := if is_eE fmt then 1 + prec
             else if fmt =? 102 then Z.max (mexp x + prec) 0
             else if is_gG fmt then (if prec =? 0 then 1 else prec)
             else 0 in
  if (fmt =? 102) && (rnd =? 0) && (0 <? digits) then
    (* the rounding position is at or above the leading digit: the result is
       zero or one unit in the last place, decided by the mode (and, for the
       nearest modes, by the leading digit when it sits just below the
       rounding position) *)
    let up :=
      match dmode x with
      | AwayFromZero => true
      | ToNegativeInf => neg x
      | ToPositiveInf => negb (neg x)
      | ToZero => false
      | ToNearestEven | ToNearestAway =>
          if exp x + prec =? 0 then
            let d := dec_digit (mant x) (zlen (mant x) * DW - 1) in
            (5 <? d) || ((d =? 5) && (mode_eqb (dmode x) ToNearestAway || (1 <? digits)))
          else false
      end in
    match ores_opt (SetMode dec_zero (dmode x)) with
    | Some t => if up then setBits64 t (neg x) 1 (- prec) else Some (with_neg t (neg x))
    | None => None
    end
  else if rnd <? digits then
    match ores_opt (SetMode dec_zero (dmode x)) with
    | Some t0 =>
        match ores_opt (SetPrec t0 rnd) with
        | Some t1 => ores_opt (Set_ false t1 x)
        | None => None
        end
    | None => None
    end
  else Some x.

Definition s_Inf_signed (ng : bool) : bytes := if ng then 45 :: s_Inf else 43 :: s_Inf.

Definition Append (buf : bytes) (x : Dec) (fmt prec : Z) : option bytes :=
  let sign := if neg x then [45] else [] in
  match dform x with
  | Finf => Some (buf ++ s_Inf_signed (neg x))
  | _ =>
      let buf1 := buf ++ sign in
      if fmt =? 98 then fmtB buf1 x
      else if fmt =? 112 then fmtP buf1 x
      else
        match MinPrec x with
        | None => None
        | Some digits0 =>
            let shortest := prec <? 0 in
            let prec1 :=
              if shortest then
                (if is_eE fmt then digits0 - 1
                 else if fmt =? 102 then Z.max (digits0 - mexp x) 0
                 else if is_gG fmt then digits0
                 else prec)
              else if is_gG fmt && (prec =? 0) then 1 else prec in
            match (if shortest then Some x else round_for_fmt x fmt prec digits0) with
            | None => None
            | Some x1 =>
                match MinPrec x1 with
                | None => None
                | Some digits =>
                    if is_eE fmt then fmtE buf1 x1 fmt prec1
                    else if fmt =? 102 then fmtF buf1 x1 prec1
                    else if is_gG fmt then
                      let eprec := if (digits <? prec1) && (mexp x1 <=? digits) then digits else prec1 in
                      let eprec := if shortest then 6 else eprec in
                      let e := mexp x1 - 1 in
                      if (e <? -4) || (eprec <=? e) then
                        let prec2 := if digits <? prec1 then digits else prec1 in
                        fmtE buf1 x1 (fmt + 101 - 103) (prec2 - 1)
                      else
                        let prec2 := if mexp x1 <? prec1 then digits else prec1 in
                        fmtF buf1 x1 (Z.max (prec2 - mexp x1) 0)
                    else
                      (* unknown format: the sign is dropped if the *current* x is negative *)
                      if neg x1 then
                        match buf1 with
                        | [] => None                 (* buf[:len(buf)-1] on an empty buffer *)
                        | _ => Some (removelast buf1 ++ [37; fmt])
                        end
                      else Some (buf1 ++ [37; fmt])
                end
            end
        end
  end.

Definition Text (x : Dec) (fmt prec : Z) : option bytes := Append [] x fmt prec.
Definition String_ (x : Dec) : option bytes := Text x 103 10.

(* MarshalText = Append(nil, 'g', -1); JSON: the text between double quotes
   (the text contains no character that encoding/json escapes) *)
Definition MarshalText (x : Dec) : option bytes := Append [] x 103 (-1).
Definition MarshalJSON (x : Dec) : option bytes :=
  match MarshalText x with Some s => Some (34 :: s ++ [34]) | None => None end.
