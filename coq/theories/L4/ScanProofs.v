(* L4/ScanProofs.v — proofs about the parsing model (L4/Scan.v): the base-10
   path stores the literal's exact value rounded once (C12_parse10) and the
   scanner is total (C12_total). *)
From Coq Require Import ZArith QArith Lia List Bool.
From Dec Require Import Base.Words Base.WordsProofs Base.QPow L3.Decimal L3.Round L3.Arith
  L3.CmpProofs Spec.Rounding Spec.RoundingFacts L3.RoundProofs L3.ArithProofs L4.Scan.
Open Scope Z_scope.

(* ------------------------------------------------------------------ *)
(* normalising the words of a positive integer *)

Lemma dnorm_of_Z v : 0 < v ->
  exists m' s, dnorm (of_Z v) = Some (m', s) /\ 0 <= s <= 18 /\ val m' = v * 10 ^ s /\
    words_ok m' = true /\ m' <> [] /\ B / 10 <= last_word m' /\
    zlen m' * DW - s = ndig v /\ mdigits m' = ndig v + s.
Proof.
  intros Hv.
  destruct (of_Z_pos_facts v Hv) as (Hok & Hne & Hlast & Hval).
  destruct (dnorm_spec _ Hok Hne Hlast) as (m' & s & Ed & Hs & Vm & Lm & Okm & Nem & Topm).
  exists m', s. rewrite Hval in Vm.
  pose proof (mant_val_bounds m' Nem Okm Topm) as [Hlo Hhi].
  assert (HL : 1 <= zlen m').
  { destruct m'; [congruence|rewrite zlen_cons; pose proof (zlen_nonneg m'); lia]. }
  unfold mdigits in *. cbv [DW] in *.
  assert (H10s : 0 < 10 ^ s) by (apply pow10_pos; lia).
  assert (E1 : 10 ^ (19 * zlen m' - 1) = 10 ^ (19 * zlen m' - s - 1) * 10 ^ s).
  { rewrite <- Z.pow_add_r by lia. f_equal. lia. }
  assert (E2 : 10 ^ (19 * zlen m') = 10 ^ (19 * zlen m' - s) * 10 ^ s).
  { rewrite <- Z.pow_add_r by lia. f_equal. lia. }
  assert (Hnd : ndig v = 19 * zlen m' - s).
  { apply ndig_unique; [lia|]. replace (19 * zlen m' - s - 1) with (19 * zlen m' - s - 1) by lia.
    rewrite Vm, E1 in Hlo. rewrite Vm, E2 in Hhi. split; nia. }
  repeat split; try assumption; try lia.
Qed.

(* the base-10 tail of Decimal.scan: store exponent, round *)
Lemma scan_round z0 v e p m' s :
  0 < v -> 1 <= p <= MaxPrec -> ndig v + 18 < 4294967296 - 18 ->
  dnorm (of_Z v) = Some (m', s) -> MinExp <= ndig v + e <= MaxExp ->
  let z2 := with_exp (with_form (with_prec (with_mant z0 m') p) Ffinite) (i32 (ndig v + e)) in
  exists z', round z2 0 = Some z' /\ RoundPost z2 (scaled v e) z'.
Proof.
  intros Hv Hp Hlen Ed HE z2.
  destruct (dnorm_of_Z v Hv) as (m2 & s2 & Ed2 & Hs & Vm & Okm & Nem & Topm & Hexp & Hmd).
  rewrite Ed in Ed2. injection Ed2 as <- <-.
  assert (Pre : RoundPre z2).
  { constructor; unfold z2; cbn [dform mant prec exp with_exp with_form with_prec with_mant]; try assumption; try reflexivity.
    - rewrite i32_small by lia. lia.
    - lia. }
  assert (Hx : exp z2 - mdigits (mant z2) = e - s).
  { unfold z2. cbn [exp mant with_exp with_form with_prec with_mant]. rewrite i32_small by lia. lia. }
  assert (HQ : (scaled (val m') (e - s) == scaled v e)%Q).
  { rewrite Vm, scaled_pow by lia. replace (e - s + s) with e by lia. reflexivity. }
  apply (round_correct z2 false (scaled v e) Pre); cbn zeta; rewrite ?Hx;
    change (mant z2) with m'.
  - rewrite HQ. apply Qle_refl.
  - rewrite <- HQ. apply scaled_lt_same. lia.
  - intros _. symmetry. exact HQ.
  - discriminate.
Qed.

(* ------------------------------------------------------------------ *)
(* int64 exponent arithmetic *)

Lemma i64_small x : MinInt64 <= x <= MaxInt64 -> i64 x = x.
Proof. unfold i64, MinInt64, MaxInt64. intros H. rewrite Z.mod_small by lia. lia. Qed.

(* a sum that leaves the int64 range wraps to a value far outside int32 *)
Lemma i64_int32 x : -9223372036854775808 - 1099511627776 < x < 9223372036854775808 + 1099511627776 ->
  ((MinExp <=? i64 x) && (i64 x <=? MaxExp) = true <-> MinExp <= x <= MaxExp) /\
  (MinExp <= x <= MaxExp -> i64 x = x).
Proof.
  intros Hx. unfold MinExp, MaxExp.
  assert (Hcases : x < -9223372036854775808 \/ -9223372036854775808 <= x <= 9223372036854775807 \/ 9223372036854775808 <= x) by lia.
  destruct Hcases as [Hlo|[Hmid|Hhi]].
  - assert (E : i64 x = x + 18446744073709551616).
    { unfold i64. replace (x + 9223372036854775808) with ((x + 9223372036854775808 + 18446744073709551616) + (-1) * 18446744073709551616) by ring.
      rewrite Z_mod_plus_full, Z.mod_small by lia. lia. }
    rewrite E. split; [|lia]. rewrite andb_true_iff, Z.leb_le, Z.leb_le. lia.
  - rewrite i64_small by (unfold MinInt64, MaxInt64; lia).
    split; [|reflexivity]. rewrite andb_true_iff, Z.leb_le, Z.leb_le. lia.
  - assert (E : i64 x = x - 18446744073709551616).
    { unfold i64. replace (x + 9223372036854775808) with ((x + 9223372036854775808 - 18446744073709551616) + 1 * 18446744073709551616) by ring.
      rewrite Z_mod_plus_full, Z.mod_small by lia. lia. }
    rewrite E. split; [|lia]. rewrite andb_true_iff, Z.leb_le, Z.leb_le. lia.
Qed.

Lemma scanExponent_range sep r : es_err (scanExponent sep r) = false ->
  MinInt64 <= es_exp (scanExponent sep r) <= MaxInt64.
Proof.
  unfold scanExponent. destruct r as [|c r1]; [cbn; unfold MinInt64, MaxInt64; lia|].
  destruct ((if (c =? 101) || (c =? 69) then 10 else if (c =? 112) || (c =? 80) then 2 else 0) =? 0);
    [cbn; unfold MinInt64, MaxInt64; lia|].
  destruct (match r1 with
            | [] => (false, [])
            | c2 :: r2' => if c2 =? 43 then (false, r2') else if c2 =? 45 then (true, r2') else (false, r1)
            end) as [ng r2].
  cbn [es_err es_exp]. intros H.
  rewrite !orb_false_iff in H. destruct H as [[[[_ H1] H2] _] _].
  apply Z.ltb_ge in H1, H2. lia.
Qed.

(* ------------------------------------------------------------------ *)
(* the base-10 path of Decimal.scan *)

Lemma of_Z_pos_cons v : 0 < v -> exists w l, of_Z v = w :: l.
Proof.
  intros Hv. destruct (of_Z v) eqn:E; [|eauto].
  apply of_Z_nil_iff in E; lia.
Qed.

Lemma RoundPost_spec z2 v z' p md ng :
  prec z2 = p -> dmode z2 = md -> neg z2 = ng -> RoundPost z2 v z' ->
  result_spec p md ng v z' /\ prec z' = p /\ dmode z' = md /\ WF z'.
Proof. intros <- <- <- (H1 & H2 & H3 & H4). auto. Qed.

(* what the scanner has extracted from a base-10 literal: sign ng, digit
   value v = ds_val, number of fractional digits -min(ds_count,0), exponent
   es_exp.  The literal denotes v * 10^e with e = min(ds_count,0) + es_exp;
   its normalised exponent is ndig v + e. *)
Theorem parse10_correct z s base ng r1 ds :
  scanSign s = Some (ng, r1) -> dec_scan base r1 = Some ds -> ds_err ds = false -> ds_b ds = 10 ->
  let es := scanExponent (base =? 0) (ds_rest ds) in
  es_err es = false -> es_base es = 10 ->
  0 < ds_val ds -> ndig (ds_val ds) + 18 < 4294967296 - 18 -> - 4294967296 < ds_count ds ->
  0 <= prec z <= MaxPrec ->
  let v := ds_val ds in
  let e := Z.min (ds_count ds) 0 + es_exp es in
  let p := if prec z =? 0 then DefaultDecimalPrec else prec z in
  (MinExp <= ndig v + e <= MaxExp ->
     exists z', dscan_dec z s base = POk z' 10 (es_rest es) /\
       result_spec p (dmode z) ng (scaled v e) z' /\ prec z' = p /\ dmode z' = dmode z /\ WF z') /\
  (~ (MinExp <= ndig v + e <= MaxExp) -> exists z', dscan_dec z s base = PErr z' true).
Proof.
  intros Hsign Hscan Herr Hb es Heerr Hebase Hv Hlen Hcnt Hprec v e p.
  assert (Hp : 1 <= p <= MaxPrec).
  { unfold p, DefaultDecimalPrec, MaxPrec in *. destruct (Z.eqb_spec (prec z) 0); lia. }
  pose proof (scanExponent_range (base =? 0) (ds_rest ds) Heerr) as Hrange. fold es in Hrange.
  destruct (dnorm_of_Z v Hv) as (m' & sh & Ed & Hsh & Vm & Okm & Nem & Topm & Hexp & Hmd).
  destruct (of_Z_pos_cons v Hv) as (w & l & Ew).
  pose proof (ndig_spec v Hv) as [Hnd _].
  (* the exponent arithmetic *)
  assert (Hexps : scan_exps ds es (zlen m' * DW - sh) = Some (i64 (ndig v + e), 0)).
  { unfold scan_exps. rewrite Hb, Hebase. cbn [Z.eqb Pos.eqb orb negb andb].
    rewrite andb_false_r. rewrite Hexp. fold es.
    replace (if ds_count ds <? 0 then 0 else 0) with 0 by (destruct (ds_count ds <? 0); reflexivity).
    f_equal. f_equal. f_equal. unfold e.
    destruct (Z.ltb_spec (ds_count ds) 0); rewrite ?andb_true_r, ?andb_false_r; cbn [andb]; lia. }
  assert (Hbound : -9223372036854775808 - 1099511627776 < ndig v + e < 9223372036854775808 + 1099511627776).
  { clear - Hrange Hlen Hcnt Hnd. unfold e, v, MinInt64, MaxInt64 in *. lia. }
  destruct (i64_int32 (ndig v + e) Hbound) as [Hiff Hid].
  (* unfold the scanner up to scan_finish *)
  assert (Hrun : dscan_dec z s base =
                 scan_finish (with_mant (with_mant (with_neg (with_form z Fzero) ng) (of_Z v)) m') p 10 (es_rest es)
                   (i64 (ndig v + e)) 0).
  { unfold dscan_dec. rewrite Hsign, Hscan, Herr. fold es. rewrite Heerr. fold v. rewrite Ew.
    rewrite <- Ew, Ed, Hexps, Hb. reflexivity. }
  rewrite Hrun. unfold scan_finish. split.
  - intros HE. pose proof (proj2 Hiff HE) as Hin. rewrite Hin, (Hid HE). cbn [Z.eqb].
    set (z0 := with_mant (with_mant (with_neg (with_form z Fzero) ng) (of_Z v)) m').
    destruct (scan_round z0 v e p m' sh Hv Hp Hlen Ed HE) as (z' & Hr & Hpost).
    replace (with_exp (with_form (with_prec z0 p) Ffinite) (i32 (ndig v + e)))
      with (with_exp (with_form (with_prec (with_mant z0 m') p) Ffinite) (i32 (ndig v + e))) by reflexivity.
    rewrite Hr. exists z'. split; [reflexivity|].
    eapply RoundPost_spec; [| | |exact Hpost]; reflexivity.
  - intros HE.
    assert (Hin : (MinExp <=? i64 (ndig v + e)) && (i64 (ndig v + e) <=? MaxExp) = false).
    { destruct ((MinExp <=? i64 (ndig v + e)) && (i64 (ndig v + e) <=? MaxExp)); [|reflexivity].
      exfalso. apply HE. apply Hiff. reflexivity. }
    rewrite Hin. eexists. reflexivity.
Qed.

(* ------------------------------------------------------------------ *)
(* bounds on what the mantissa scanner returns *)

Lemma digitval_nonneg b c : 0 <= digitval b c.
Proof.
  unfold digitval.
  destruct ((48 <=? c) && (c <=? 57)) eqn:E1; [apply andb_true_iff in E1 as [A _]; apply Z.leb_le in A; lia|].
  destruct ((97 <=? c) && (c <=? 122)) eqn:E2; [apply andb_true_iff in E2 as [A _]; apply Z.leb_le in A; lia|].
  destruct ((65 <=? c) && (c <=? 90)) eqn:E3; [apply andb_true_iff in E3 as [A _]; apply Z.leb_le in A; destruct (b <=? 36); lia|].
  lia.
Qed.

Lemma pow16_pos k : 0 <= k -> 0 < 16 ^ k.
Proof. intros. apply Z.pow_pos_nonneg; lia. Qed.

Lemma mant_loop_bounds base b : 2 <= b <= 16 -> forall r fracOk prev inval count dp acc,
  0 <= acc -> 0 <= count -> -1 <= dp <= count ->
  let st := mant_loop base b r fracOk prev inval count dp acc in
  0 <= m_acc st < (acc + 1) * 16 ^ zlen r /\
  count <= m_count st <= count + zlen r /\ -1 <= m_dp st <= m_count st.
Proof.
  intros Hb. induction r as [|c r IH]; intros fracOk prev inval count dp acc Hacc Hcnt Hdp.
  - cbn [mant_loop m_acc m_count m_dp]. change (zlen (@nil Z)) with 0. rewrite Z.pow_0_r. lia.
  - cbn [mant_loop]. rewrite zlen_cons.
    assert (Hz : 0 <= zlen r) by apply zlen_nonneg.
    assert (H16 : 16 ^ (zlen r + 1) = 16 * 16 ^ zlen r) by (rewrite Z.pow_add_r, Z.pow_1_r by lia; ring).
    pose proof (pow16_pos (zlen r) Hz) as Hp.
    destruct ((c =? 46) && fracOk).
    + specialize (IH false 0 (inval || (prev =? 2)) count count acc Hacc Hcnt ltac:(lia)).
      cbn zeta in *. rewrite H16. destruct IH as (A & B & C). split; [nia|]. split; lia.
    + destruct ((c =? 95) && (base =? 0)).
      * specialize (IH fracOk 2 (inval || negb (prev =? 1)) count dp acc Hacc Hcnt Hdp).
        cbn zeta in *. rewrite H16. destruct IH as (A & B & C). split; [nia|]. split; lia.
      * pose proof (digitval_nonneg b c) as Hd.
        destruct (Z.leb_spec b (digitval b c)) as [Hge|Hlt].
        -- cbn. rewrite H16. split; [nia|]. split; lia.
        -- specialize (IH fracOk 1 inval (count + 1) dp (acc * b + digitval b c) ltac:(nia) ltac:(lia) ltac:(lia)).
           cbn zeta in *. rewrite H16. destruct IH as (A & B & C). split; [|split; lia].
           split; [lia|]. assert (acc * b + digitval b c + 1 <= (acc + 1) * 16) by nia. nia.
Qed.

Lemma dec_scan_facts base r : valid_base base = true ->
  exists ds, dec_scan base r = Some ds /\
    (ds_b ds = 2 \/ ds_b ds = 8 \/ ds_b ds = 10 \/ ds_b ds = 16) /\
    0 <= ds_val ds < 16 ^ zlen r /\ - zlen r <= ds_count ds <= zlen r.
Proof.
  intros Hv. unfold dec_scan. rewrite Hv. cbn [negb].
  assert (Hb0 : let b0 := if base =? 0 then 10 else base in 2 <= b0 <= 16 /\ (b0 = 2 \/ b0 = 8 \/ b0 = 10 \/ b0 = 16)).
  { unfold valid_base in Hv. rewrite !orb_true_iff in Hv. cbn zeta.
    destruct (Z.eqb_spec base 0); [lia|].
    destruct Hv as [[[[H|H]|H]|H]|H]; try discriminate H; apply Z.eqb_eq in H; lia. }
  cbn zeta in Hb0. set (b0 := if base =? 0 then 10 else base) in *.
  (* every initial configuration is a mant_loop on a suffix of r *)
  assert (Hgen : forall b r' cnt prev, 2 <= b <= 16 -> (b = 2 \/ b = 8 \/ b = 10 \/ b = 16) -> 0 <= cnt -> cnt + zlen r' <= zlen r ->
            let st := mant_loop base b r' true prev false cnt (-1) 0 in
            (b = 2 \/ b = 8 \/ b = 10 \/ b = 16) /\
            0 <= m_acc st < 16 ^ zlen r /\
            - zlen r <= (if 0 <=? m_dp st then m_dp st - m_count st else m_count st) <= zlen r).
  { intros b r' cnt prev Hb Hbb Hc Hl.
    pose proof (mant_loop_bounds base b Hb r' true prev false cnt (-1) 0 ltac:(lia) Hc ltac:(lia)) as H.
    cbn zeta in *.
    set (st := mant_loop base b r' true prev false cnt (-1) 0) in *.
    destruct H as (A & Bc & C). split; [exact Hbb|].
    pose proof (zlen_nonneg r'). pose proof (zlen_nonneg r).
    assert (16 ^ zlen r' <= 16 ^ zlen r) by (apply Z.pow_le_mono_r; lia).
    rewrite Z.add_0_l, Z.mul_1_l in A.
    split; [lia|]. destruct (Z.leb_spec 0 (m_dp st)); lia. }
  pose proof (zlen_nonneg r) as Hzr.
  destruct r as [|c r1].
  - destruct (Hgen b0 [] 0 0 (proj1 Hb0) (proj2 Hb0) ltac:(lia) ltac:(cbn; lia)) as (A & Bv & C).
    eexists. split; [reflexivity|]. cbn [ds_b ds_val ds_count]. auto.
  - rewrite zlen_cons in *. pose proof (zlen_nonneg r1) as Hz1.
    destruct ((base =? 0) && (c =? 48)).
    + destruct r1 as [|c2 r2].
      * destruct (Hgen 10 [] 1 1 ltac:(lia) ltac:(lia) ltac:(lia) ltac:(cbn; lia)) as (A & Bv & C).
        eexists. split; [reflexivity|]. cbn [ds_b ds_val ds_count]. auto.
      * rewrite zlen_cons in *. pose proof (zlen_nonneg r2) as Hz2.
        destruct ((c2 =? 98) || (c2 =? 66)).
        { destruct (Hgen 2 r2 0 1 ltac:(lia) ltac:(lia) ltac:(lia) ltac:(rewrite ?zlen_cons; lia)) as (A & Bv & C).
          eexists. split; [reflexivity|]. cbn [ds_b ds_val ds_count]. auto. }
        destruct ((c2 =? 111) || (c2 =? 79)).
        { destruct (Hgen 8 r2 0 1 ltac:(lia) ltac:(lia) ltac:(lia) ltac:(rewrite ?zlen_cons; lia)) as (A & Bv & C).
          eexists. split; [reflexivity|]. cbn [ds_b ds_val ds_count]. auto. }
        destruct ((c2 =? 120) || (c2 =? 88)).
        { destruct (Hgen 16 r2 0 1 ltac:(lia) ltac:(lia) ltac:(lia) ltac:(rewrite ?zlen_cons; lia)) as (A & Bv & C).
          eexists. split; [reflexivity|]. cbn [ds_b ds_val ds_count]. auto. }
        destruct (Hgen 10 (c2 :: r2) 1 1 ltac:(lia) ltac:(lia) ltac:(lia) ltac:(rewrite ?zlen_cons; lia)) as (A & Bv & C).
        eexists. split; [reflexivity|]. cbn [ds_b ds_val ds_count]. auto.
    + destruct (Hgen b0 (c :: r1) 0 0 (proj1 Hb0) (proj2 Hb0) ltac:(lia) ltac:(rewrite ?zlen_cons; lia)) as (A & Bv & C).
      eexists. split; [reflexivity|]. cbn [ds_b ds_val ds_count]. auto.
Qed.

(* ------------------------------------------------------------------ *)
(* totality *)

(* a parse result that is neither a panic nor an error with a non-nil Decimal *)
Definition pgood (r : pres) : Prop :=
  match r with
  | POk _ _ _ => True
  | PErr _ dnil => dnil = true
  | PNaN _ => False
  | PCrash _ => False
  end.

Lemma i64_range x : MinInt64 <= i64 x <= MaxInt64.
Proof.
  unfold i64, MinInt64, MaxInt64.
  pose proof (Z.mod_pos_bound (x + 9223372036854775808) 18446744073709551616 ltac:(lia)). lia.
Qed.

Lemma ndig_le_2len v L : 0 < v < 16 ^ L -> 0 <= L -> ndig v <= 2 * L.
Proof.
  intros [Hv Hlt] HL. destruct (ndig_spec v Hv) as [Hp [Hlo _]].
  assert (H16 : 16 ^ L <= 10 ^ (2 * L)).
  { rewrite Z.pow_mul_r by lia. change (10 ^ 2) with 100. apply Z.pow_le_mono_l. lia. }
  destruct (Z.le_gt_cases (ndig v) (2 * L)) as [|Hgt]; [assumption|exfalso].
  assert (10 ^ (2 * L) <= 10 ^ (ndig v - 1)) by (apply Z.pow_le_mono_r; lia). lia.
Qed.

(* the part of Decimal.scan that goes through pow2/Mul/Quo (binary exponent
   contribution exp2 <> 0) is treated separately *)
Definition Pow2PathTotal : Prop :=
  forall zz p b rest e10 e2,
    NormMant (mant zz) -> mdigits (mant zz) <= 1073741824 + 18 -> 1 <= p <= 1073741824 ->
    e2 <> 0 -> MinInt64 <= e2 <= MaxInt64 ->
    pgood (scan_finish zz p b rest e10 e2).

Lemma scan_finish_dec_total z0 v m' sh p b rest e10 :
  0 < v -> dnorm (of_Z v) = Some (m', sh) -> ndig v + 18 < 4294967296 - 18 -> 1 <= p <= MaxPrec ->
  pgood (scan_finish (with_mant z0 m') p b rest e10 0).
Proof.
  intros Hv Ed Hlen Hp. unfold scan_finish.
  destruct ((MinExp <=? e10) && (e10 <=? MaxExp)) eqn:Hin; [|reflexivity].
  apply andb_true_iff in Hin as [H1 H2]. apply Z.leb_le in H1, H2. cbn [Z.eqb].
  destruct (scan_round z0 v (e10 - ndig v) p m' sh Hv Hp Hlen Ed ltac:(lia)) as (z' & Hr & _).
  replace (ndig v + (e10 - ndig v)) with e10 in Hr by lia.
  replace (with_exp (with_form (with_prec (with_mant z0 m') p) Ffinite) (i32 e10))
    with (with_exp (with_form (with_prec (with_mant (with_mant z0 m') m') p) Ffinite) (i32 e10)) by reflexivity.
  change (with_mant (with_mant z0 m') m') with (with_mant z0 m').
  rewrite Hr. exact I.
Qed.

Lemma scan_exps_some ds es e0 :
  (ds_b ds = 2 \/ ds_b ds = 8 \/ ds_b ds = 10 \/ ds_b ds = 16) ->
  -4294967296 <= ds_count ds <= 4294967296 ->
  exists e10 e2, scan_exps ds es e0 = Some (e10, e2) /\ MinInt64 <= e2 <= MaxInt64.
Proof.
  intros Hb Hc. unfold scan_exps.
  assert (E : negb ((ds_b ds =? 10) || (ds_b ds =? 2) || (ds_b ds =? 8) || (ds_b ds =? 16)) = false).
  { destruct Hb as [H|[H|[H|H]]]; rewrite H; reflexivity. }
  rewrite E, andb_false_r.
  eexists. eexists. split; [reflexivity|].
  destruct (es_base es =? 2); [apply i64_range|].
  unfold MinInt64, MaxInt64.
  destruct (ds_count ds <? 0); [|lia].
  destruct (ds_b ds =? 2); [lia|]. destruct (ds_b ds =? 8); [lia|]. destruct (ds_b ds =? 16); lia.
Qed.

Theorem dscan_total z s base :
  valid_base base = true -> zlen s < 536870912 -> 0 <= prec z <= 1073741824 ->
  Pow2PathTotal -> pgood (dscan_dec z s base).
Proof.
  intros Hvb Hlen Hprec Hpow. unfold dscan_dec.
  set (p := if prec z =? 0 then DefaultDecimalPrec else prec z).
  assert (Hp : 1 <= p <= 1073741824).
  { unfold p, DefaultDecimalPrec. destruct (Z.eqb_spec (prec z) 0); lia. }
  destruct (scanSign s) as [[ng r1]|] eqn:Hs; [|reflexivity].
  assert (Hr1 : zlen r1 <= zlen s).
  { unfold scanSign in Hs. destruct s as [|c s']; [discriminate|].
    destruct (c =? 45); [injection Hs as _ <-; rewrite zlen_cons; lia|].
    destruct (c =? 43); injection Hs as _ <-; rewrite ?zlen_cons; lia. }
  destruct (dec_scan_facts base r1 Hvb) as (ds & Hds & Hb & Hval & Hcnt). rewrite Hds.
  destruct (ds_err ds); [reflexivity|].
  destruct (es_err (scanExponent (base =? 0) (ds_rest ds))); [reflexivity|].
  pose proof (zlen_nonneg r1) as Hz1.
  destruct (of_Z (ds_val ds)) as [|w l] eqn:Ew; [exact I|].
  assert (Hv : 0 < ds_val ds).
  { destruct (Z.eq_dec (ds_val ds) 0) as [E0|]; [|lia]. rewrite E0 in Ew. discriminate Ew. }
  rewrite <- Ew.
  destruct (dnorm_of_Z (ds_val ds) Hv) as (m' & sh & Ed & Hsh & Vm & Okm & Nem & Topm & Hexp & Hmd).
  rewrite Ed.
  pose proof (ndig_le_2len (ds_val ds) (zlen r1) ltac:(lia) Hz1) as Hnd.
  destruct (scan_exps_some ds (scanExponent (base =? 0) (ds_rest ds)) (zlen m' * DW - sh) Hb ltac:(lia))
    as (e10 & e2 & He & He2).
  rewrite He.
  destruct (Z.eq_dec e2 0) as [->|Hne].
  - apply (scan_finish_dec_total _ (ds_val ds) m' sh); try assumption; unfold MaxPrec; lia.
  - apply Hpow; try assumption.
    + cbn [mant with_mant]. constructor; try assumption. lia.
    + cbn [mant with_mant]. lia.
Qed.

Lemma bytes_eqb_refl a : bytes_eqb a a = true.
Proof. induction a as [|x a IH]; [reflexivity|]. cbn. now rewrite Z.eqb_refl, IH. Qed.

Theorem Parse_total z s base :
  valid_base base = true -> zlen s < 536870912 -> 0 <= prec z <= 1073741824 ->
  Pow2PathTotal -> pgood (Parse z s base).
Proof.
  intros Hvb Hlen Hprec Hpow. unfold Parse.
  destruct (bytes_eqb s s_Inf || bytes_eqb s s_inf); [exact I|].
  pose proof (dscan_total z s base Hvb Hlen Hprec Hpow) as Hg.
  destruct s as [|c t]; [exact Hg|].
  destruct (((c =? 43) || (c =? 45)) && (bytes_eqb t s_Inf || bytes_eqb t s_inf)); [exact I|].
  destruct (dscan_dec z (c :: t) base) as [z' b rest| | |]; try exact Hg.
  destruct rest; [exact I|reflexivity].
Qed.
