(* L4/Pow2Proofs.v — the binary-exponent tail of Decimal.scan (pow2, Mul,
   Quo) never panics: Pow2PathTotal of L4/ScanProofs.v. *)
From Coq Require Import ZArith QArith Lia List Bool Lqa.
From Dec Require Import Base.Words Base.WordsProofs Base.QPow L3.Decimal L3.Round L3.Arith
  L3.CmpProofs Spec.Rounding Spec.RoundingFacts L3.RoundProofs L3.ArithProofs L4.Scan L4.ScanProofs.
Open Scope Z_scope.

(* ------------------------------------------------------------------ *)
(* round never returns more than prec+18 digits *)

Lemma clear_low_len m lsd : length (clear_low m lsd) = length m.
Proof. destruct m; reflexivity. Qed.

Lemma set_nth_len l i w : length (set_nth l i w) = length l.
Proof. revert i. induction l as [|a l IH]; intros i; [reflexivity|]. destruct i; cbn; [reflexivity|now rewrite IH]. Qed.

Lemma round_len z sb z' :
  1 <= prec z <= MaxPrec - 18 -> 19 * zlen (mant z) < 4294967296 ->
  round z sb = Some z' -> dform z' = Ffinite ->
  mdigits (mant z') <= prec z + 18 /\ prec z' = prec z.
Proof.
  intros Hp Hl Hr Hf. unfold round in Hr.
  cbn [dform with_acc] in Hr.
  destruct (dform z) eqn:Ez.
  - injection Hr as <-. cbn [dform with_acc] in Hf. congruence.
  - cbn [mant prec with_acc dmode neg exp] in Hr.
    pose proof (zlen_nonneg (mant z)) as Hz.
    rewrite (u32_small (zlen (mant z))) in Hr by (unfold MaxPrec in *; lia).
    rewrite (u32_small (zlen (mant z) * DW)) in Hr by (cbv [DW]; lia).
    rewrite (u32_small (prec z + (DW - 1))) in Hr by (cbv [DW]; unfold MaxPrec in *; lia).
    destruct (Z.leb_spec (zlen (mant z) * DW) (prec z)) as [Hfit|Hbig].
    + injection Hr as <-. cbn [mant prec with_acc]. unfold mdigits. cbv [DW] in *. lia.
    + set (n := (prec z + (DW - 1)) / DW) in *.
      assert (Hn : 1 <= n /\ 19 * n <= prec z + 18).
      { unfold n. cbv [DW]. split; [apply Z.div_le_lower_bound; lia|]. apply Z.mul_div_le. lia. }
      rewrite (u32_small (n * DW)) in Hr by (cbv [DW]; unfold MaxPrec in *; lia).
      remember (if n <? zlen (mant z) then skipn (Z.to_nat (zlen (mant z) - n)) (mant z) else mant z) as mant1 eqn:Em.
      assert (Hl1 : zlen mant1 <= n).
      { rewrite Em. destruct (Z.ltb_spec n (zlen (mant z))); [|lia].
        rewrite zlen_skipn by (unfold zlen; lia). lia. }
      clear Em. destruct mant1 as [|w1 r1]; [discriminate Hr|]. set (mant1 := w1 :: r1) in *.
      assert (Hres : forall F : list Z, length F = length mant1 -> 19 * zlen F <= prec z + 18).
      { intros F HF. unfold zlen in *. rewrite HF. lia. }
      unfold mdigits. cbv [DW].
      repeat match type of Hr with
             | (if ?c then _ else _) = Some _ => destruct c
             | (let '(a, b) := ?p in _) = Some _ => destruct p as [mant2 cc] eqn:Eadd
             end;
        try (injection Hr as <-; cbn [mant prec dform with_mant with_acc with_exp with_form] in *;
             first [discriminate Hf
                   | split; [apply Hres; rewrite ?clear_low_len, ?set_nth_len; try reflexivity|reflexivity]]).
      all: apply (f_equal fst) in Eadd; unfold add10VW_v in Eadd; cbn [fst] in Eadd; rewrite <- Eadd; apply length_to_words.
  - injection Hr as <-. cbn [dform with_acc] in Hf. congruence.
Qed.

(* ------------------------------------------------------------------ *)
(* rounding never goes below a power of ten that the exact value reaches *)

Lemma rounds_ge m ng p v r k : 1 <= p -> Rounds m ng p v r -> (scaled 1 k <= v)%Q -> (scaled 1 k <= r)%Q.
Proof.
  intros Hp (M & e & (HM & Hlo & Hhi) & Heq & Hne) Hk.
  cbv zeta in *.
  assert (Hlt : (scaled 1 k < scaled 1 (e + p))%Q).
  { eapply Qle_lt_trans; [exact Hk|]. eapply Qlt_le_trans; [exact Hhi|].
    apply (scaled_le_gen _ _ _ _ e); try lia. rewrite Z.sub_diag, Z.pow_0_r.
    replace (e + p - e) with p by lia. lia. }
  assert (Hke : k < e + p).
  { destruct (Z.lt_ge_cases k (e + p)); [assumption|exfalso].
    assert (scaled 1 (e + p) <= scaled 1 k)%Q by (apply scaled1_le; lia).
    apply (Qlt_irrefl (scaled 1 k)). eapply Qlt_le_trans; eassumption. }
  assert (Hlo1 : (scaled 1 k <= scaled M e)%Q).
  { eapply Qle_trans; [apply (scaled1_le k (e + p - 1)); lia|].
    apply (scaled_le_gen _ _ _ _ e); try lia. rewrite Z.sub_diag, Z.pow_0_r.
    replace (e + p - 1 - e) with (p - 1) by lia. lia. }
  assert (Hhi1 : (scaled M e <= scaled (M + 1) e)%Q) by (apply scaled_le_same; lia).
  destruct (Qeq_dec v (scaled M e)) as [E|E].
  - rewrite (Heq E). exact Hlo1.
  - specialize (Hne E). destruct (dir_of m ng).
    + rewrite Hne. exact Hlo1.
    + rewrite Hne. eapply Qle_trans; eassumption.
    + destruct Hne as (A & Bq & C).
      destruct (Q_dec (v - scaled M e) (scaled (M + 1) e - v)) as [[H|H]|H].
      * rewrite (A H). exact Hlo1.
      * rewrite (Bq H). eapply Qle_trans; eassumption.
      * rewrite (C H). destruct (Z.even M); [exact Hlo1|eapply Qle_trans; eassumption].
    + destruct Hne as (A & Bq).
      destruct (Qlt_le_dec (v - scaled M e) (scaled (M + 1) e - v)) as [H|H].
      * rewrite (A H). exact Hlo1.
      * rewrite (Bq H). eapply Qle_trans; eassumption.
Qed.

(* ------------------------------------------------------------------ *)
(* the invariant of pow2: positive, canonical, not too long, at least 1 *)

Definition PB : Z := 1073741824 + 64.

Record Gd (x : Dec) : Prop := {
  g_wf : WF x;
  g_pos : neg x = false;
  g_prec : 1 <= prec x <= PB;
  g_val : dform x = Finf \/
          (dform x = Ffinite /\ (scaled 1 0 <= mag x)%Q /\ mdigits (mant x) <= prec x + 18)
}.

Lemma Gd_inf z : 1 <= prec z <= PB -> neg z = false -> dform z = Finf -> Gd z.
Proof.
  intros Hp Hn Hf. constructor; auto.
  apply WF_nonfinite; [rewrite Hf; discriminate|unfold PB, MaxPrec in *; lia].
Qed.

Lemma dnorm_zlen m m' s : dnorm m = Some (m', s) -> zlen m' = zlen m.
Proof.
  intros H. destruct m as [|w l]; [discriminate|].
  rewrite dnorm_unfold in H by discriminate. cbv zeta in H.
  apply (f_equal (fun o => match o with Some (a, _) => zlen a | None => 0 end)) in H.
  destruct (0 <? nlz10 (last_word (w :: l))); cbv beta iota in H; rewrite <- H; [|reflexivity].
  rewrite zlen_to_words. reflexivity.
Qed.

(* a finite result of Mul comes out of round *)
Lemma Mul_finite_round z x y z' : prec z <> 0 -> dform x = Ffinite -> dform y = Ffinite ->
  Mul z x y = OkR z' -> dform z' = Ffinite ->
  exists zz sb, round zz sb = Some z' /\ prec zz = prec z /\
    zlen (mant zz) = zlen (dec_mul (mant x) (mant y)).
Proof.
  intros Hp Hx Hy HM Hf. unfold Mul in HM. rewrite Hx, Hy in HM.
  replace (prec z =? 0) with false in HM by (symmetry; apply Z.eqb_neq; exact Hp).
  unfold umul in HM.
  destruct (dnorm (dec_mul (mant x) (mant y))) as [[m' s]|] eqn:Ed; [|discriminate].
  pose proof (dnorm_zlen _ _ _ Ed) as Hlen.
  unfold setExpAndRound in HM.
  destruct (exp x + exp y - s <? MinExp).
  { injection HM as <-. cbn in Hf. discriminate. }
  destruct (MaxExp <? exp x + exp y - s).
  { injection HM as <-. cbn in Hf. discriminate. }
  unfold of_opt in HM.
  destruct (round _ 0) as [zr|] eqn:Er; [|discriminate]. injection HM as <-.
  eexists. exists 0. split; [exact Er|]. split; [reflexivity|]. cbn [mant with_exp with_form with_mant with_neg]. exact Hlen.
Qed.

Lemma result_spec_ge1 p md v z' : 1 <= p -> (scaled 1 0 <= v)%Q -> result_spec p md false v z' ->
  neg z' = false /\ (dform z' = Finf \/ (dform z' = Ffinite /\ (scaled 1 0 <= mag z')%Q)).
Proof.
  intros Hp Hv [Hn H]. split; [exact Hn|].
  destruct (Qlt_le_dec v (scaled 1 (MinExp - 1))) as [C|_].
  { exfalso. assert (scaled 1 (MinExp - 1) <= scaled 1 0)%Q by (apply scaled1_le; unfold MinExp; lia).
    apply (Qlt_irrefl v). eapply Qlt_le_trans; [exact C|]. eapply Qle_trans; eassumption. }
  destruct H as (r & HR & H).
  destruct (Qlt_le_dec r (scaled 1 MaxExp)) as [_|_].
  - destruct H as (Hf & Hm & _). right. split; [exact Hf|]. rewrite Hm. eapply rounds_ge; eassumption.
  - left. tauto.
Qed.

Lemma Gd_finite_facts x : Gd x -> dform x = Ffinite ->
  WFfin x /\ (scaled 1 0 <= mag x)%Q /\ mdigits (mant x) <= PB + 18 /\
  0 < val (mant x) < 10 ^ mdigits (mant x).
Proof.
  intros [Hwf Hn Hp Hv] Hf. destruct Hv as [Hv|(_ & Hv & Hl)]; [congruence|].
  pose proof (WF_finite x Hwf Hf) as Hx. split; [exact Hx|]. split; [exact Hv|]. split; [lia|].
  pose proof (WFfin_val_bounds x Hx) as [Hlo Hhi]. destruct (WFfin_len x Hx) as [H1 H2].
  assert (0 < 10 ^ (mdigits (mant x) - 1)) by (apply Z.pow_pos_nonneg; lia). lia.
Qed.

Lemma Mul_G z x y : Gd x -> Gd y -> 1 <= prec z <= PB ->
  exists z', Mul z x y = OkR z' /\ Gd z' /\ prec z' = prec z /\ dmode z' = dmode z.
Proof.
  intros Gx Gy Hp.
  assert (Hp0 : (prec z =? 0) = false) by (apply Z.eqb_neq; lia).
  destruct (g_val x Gx) as [Fx|(Fx & _)]; destruct (g_val y Gy) as [Fy|(Fy & _)].
  1-3: unfold Mul; rewrite Fx, Fy, Hp0, (g_pos x Gx), (g_pos y Gy); cbn [xorb];
       eexists; split; [reflexivity|]; split; [|split; reflexivity];
       apply Gd_inf; cbn [prec neg dform with_form with_acc with_neg]; auto.
  (* both finite *)
  destruct (Gd_finite_facts x Gx Fx) as (Hx & Hvx & Hlx & Hvalx).
  destruct (Gd_finite_facts y Gy Fy) as (Hy & Hvy & Hly & Hvaly).
  pose proof (Mul_correct z x y (g_wf x Gx) (g_wf y Gy) Fx Fy ltac:(unfold PB, MaxPrec in *; lia)
                ltac:(unfold PB in *; lia)) as HM.
  unfold eff_prec in HM. rewrite Hp0, (g_pos x Gx), (g_pos y Gy) in HM. cbn [xorb] in HM.
  destruct HM as (z' & E & Hspec & Hpz & Hmz & Hwfz).
  exists z'. split; [exact E|]. split; [|split; assumption].
  assert (Hv : (scaled 1 0 <= mag x * mag y)%Q).
  { assert (E1 : (scaled 1 0 == 1)%Q) by reflexivity. rewrite E1 in *. nra. }
  destruct (result_spec_ge1 (prec z) (dmode z) _ z' ltac:(lia) Hv Hspec) as [Hn Hform].
  constructor; [exact Hwfz|exact Hn|lia|].
  destruct Hform as [Hi|(Hf & Hm)]; [left; exact Hi|right].
  split; [exact Hf|]. split; [exact Hm|].
  destruct (Mul_finite_round z x y z' ltac:(lia) Fx Fy E Hf) as (zz & sb & Hr & Hpzz & Hlzz).
  assert (Hzl : 19 * zlen (mant zz) < 4294967296).
  { rewrite Hlzz. unfold dec_mul.
    pose proof (zlen_of_Z_bound (val (mant x) * val (mant y)) (mdigits (mant x) + mdigits (mant y))) as Hb.
    assert (Hprod : 0 < val (mant x) * val (mant y) < 10 ^ (mdigits (mant x) + mdigits (mant y))).
    { rewrite Z.pow_add_r by (destruct (WFfin_len x Hx), (WFfin_len y Hy); lia). nia. }
    specialize (Hb Hprod ltac:(destruct (WFfin_len x Hx), (WFfin_len y Hy); lia)). unfold PB in *. lia. }
  destruct (round_len zz sb z' ltac:(rewrite Hpzz; unfold PB, MaxPrec in *; lia) Hzl Hr Hf) as [Hlen _].
  rewrite Hpzz in Hlen. lia.
Qed.

(* ------------------------------------------------------------------ *)
(* SetUint64, SetPrec on fresh values *)

Lemma setExpAndRound_round z e sb z' : MinExp <= e <= MaxExp ->
  setExpAndRound z e sb = Some z' -> round (with_exp (with_form z Ffinite) e) sb = Some z'.
Proof.
  intros He H. unfold setExpAndRound in H.
  replace (e <? MinExp) with false in H by (symmetry; apply Z.ltb_ge; lia).
  replace (MaxExp <? e) with false in H by (symmetry; apply Z.ltb_ge; lia).
  rewrite i32_small in H by exact He. exact H.
Qed.

Lemma SetUint64_G z n : 1 <= prec z <= PB -> 0 < n < 18446744073709551616 ->
  exists z', SetUint64 z n = OkR z' /\ Gd z' /\ prec z' = prec z /\ dmode z' = dmode z.
Proof.
  intros Hp Hn. unfold SetUint64, setBits64.
  replace (prec z =? 0) with false by (symmetry; apply Z.eqb_neq; lia).
  replace (n =? 0) with false by (symmetry; apply Z.eqb_neq; lia).
  destruct (dnorm_of_Z n ltac:(lia)) as (m' & s & Ed & Hs & Vm & Okm & Nem & Topm & Hexp & Hmd).
  rewrite Ed.
  assert (Hnd : 1 <= ndig n <= 20).
  { destruct (ndig_spec n ltac:(lia)) as [H1 [Hlo _]]. split; [lia|].
    destruct (Z.le_gt_cases (ndig n) 20); [assumption|exfalso].
    assert (10 ^ 20 <= 10 ^ (ndig n - 1)) by (apply Z.pow_le_mono_r; lia). lia. }
  change (clampExp 0) with 0. rewrite Z.add_0_l, Hexp.
  set (zz := with_mant (with_form (with_neg (with_acc z Exact) false) Ffinite) m').
  pose proof (setExpAndRound_correct zz (ndig n) false (scaled n 0)) as HC.
  assert (HNM : NormMant (mant zz)) by (constructor; cbn [mant zz with_mant]; try assumption; lia).
  assert (Hx : ndig n - mdigits (mant zz) = - s) by (cbn [mant zz with_mant]; lia).
  assert (HQ : (scaled (val (mant zz)) (- s) == scaled n 0)%Q).
  { cbn [mant zz with_mant]. rewrite Vm, scaled_pow by lia. replace (- s + s) with 0 by lia. reflexivity. }
  cbv zeta in HC. rewrite Hx in HC.
  destruct HC as (z' & Hr & Hspec & Hpz & Hmz & Hwf).
  - exact HNM.
  - cbn [prec zz with_mant with_form with_neg with_acc]. unfold PB, MaxPrec in *. lia.
  - rewrite HQ. apply Qle_refl.
  - rewrite <- HQ. apply scaled_lt_same. lia.
  - intros _. symmetry. exact HQ.
  - discriminate.
  - cbn [b2z] in Hr. rewrite Hr. cbn [of_opt]. exists z'.
    cbn [prec dmode neg zz with_mant with_form with_neg with_acc] in Hspec, Hpz, Hmz.
    split; [reflexivity|]. split; [|split; assumption].
    assert (Hv : (scaled 1 0 <= scaled n 0)%Q) by (apply scaled_le_same; lia).
    destruct (result_spec_ge1 (prec z) (dmode z) _ z' ltac:(lia) Hv Hspec) as [Hneg Hform].
    constructor; [exact Hwf|exact Hneg|lia|].
    destruct Hform as [Hi|(Hf & Hm)]; [left; exact Hi|right].
    split; [exact Hf|]. split; [exact Hm|].
    pose proof (setExpAndRound_round zz (ndig n) 0 z' ltac:(unfold MinExp, MaxExp; lia) Hr) as Hrr.
    assert (Hp1 : 1 <= prec (with_exp (with_form zz Ffinite) (ndig n)) <= MaxPrec - 18).
    { unfold zz. cbn [prec with_exp with_mant with_form with_neg with_acc]. unfold PB, MaxPrec in *. lia. }
    assert (Hl1 : 19 * zlen (mant (with_exp (with_form zz Ffinite) (ndig n))) < 4294967296).
    { unfold zz. cbn [mant with_exp with_mant with_form]. unfold mdigits in Hmd. cbv [DW] in Hmd. lia. }
    destruct (round_len _ 0 z' Hp1 Hl1 Hrr Hf) as [Hl _].
    unfold zz in Hl. cbn [prec with_exp with_mant with_form with_neg with_acc] in Hl. lia.
Qed.

Lemma SetPrec_zero q : 1 <= q <= MaxPrec ->
  SetPrec dec_zero q = OkR (mkDec [] 0 q ToNearestEven Exact Fzero false).
Proof.
  intros Hq. unfold SetPrec. replace (q =? 0) with false by (symmetry; apply Z.eqb_neq; lia).
  replace (MaxPrec <? q) with false by (symmetry; apply Z.ltb_ge; lia).
  cbn [prec dec_zero with_acc with_prec]. replace (q <? 0) with false by (symmetry; apply Z.ltb_ge; lia).
  reflexivity.
Qed.

(* ------------------------------------------------------------------ *)
(* pow2 *)

Lemma pow2_loop_G fuel : forall z f n, Gd z -> Gd f ->
  exists z', pow2_loop fuel z f n = OkR z' /\ Gd z' /\ prec z' = prec z.
Proof.
  induction fuel as [|k IH]; intros z f n Gz Gf; [exists z; auto|].
  cbn [pow2_loop]. destruct (n <=? 0); [exists z; auto|].
  destruct (Z.odd n).
  - destruct (Mul_G z z f Gz Gf (g_prec z Gz)) as (z1 & E1 & G1 & P1 & _). rewrite E1. cbn [obind].
    destruct (n =? 1); [exists z1; auto|].
    destruct (Mul_G f f f Gf Gf (g_prec f Gf)) as (f1 & E2 & G2 & _). rewrite E2. cbn [obind].
    destruct (IH z1 f1 (n / 2) G1 G2) as (z' & E & G & P). exists z'. rewrite E. split; [reflexivity|]. split; [exact G|lia].
  - destruct (Mul_G f f f Gf Gf (g_prec f Gf)) as (f1 & E2 & G2 & _). rewrite E2. cbn [obind].
    apply IH; assumption.
Qed.

Lemma pow2_G p0 n : 1 <= prec p0 <= PB - 19 -> 0 <= n < 18446744073709551616 ->
  exists pw, pow2 p0 n = OkR pw /\ Gd pw.
Proof.
  intros Hp Hn. unfold pow2. destruct (Z.ltb_spec n 64) as [Hlt|Hge].
  - destruct (SetUint64_G p0 (2 ^ n) ltac:(unfold PB in *; lia)) as (z' & E & G & _).
    + split; [apply Z.pow_pos_nonneg; lia|].
      change 18446744073709551616 with (2 ^ 64). apply Z.pow_lt_mono_r; lia.
    + exists z'. auto.
  - destruct (SetUint64_G p0 (2 ^ 63) ltac:(unfold PB in *; lia) ltac:(split; reflexivity)) as (z1 & E1 & G1 & P1 & _).
    rewrite E1. cbn [obind]. rewrite P1.
    rewrite SetPrec_zero by (cbv [DW]; unfold PB, MaxPrec in *; lia). cbn [obind].
    destruct (SetUint64_G (mkDec [] 0 (prec p0 + DW) ToNearestEven Exact Fzero false) 2) as (f & E2 & G2 & _).
    + cbn [prec]. cbv [DW]. unfold PB in *. lia.
    + lia.
    + rewrite E2. cbn [obind].
      destruct (pow2_loop_G 64 z1 f (n - 63) G1 G2) as (z' & E & G & _). exists z'. auto.
Qed.

(* ------------------------------------------------------------------ *)
(* the last step: the parsed mantissa (not yet rounded) times / over 2^n *)

Lemma Mul_prec_irrel z x y q : prec z <> 0 -> Mul z (with_prec x q) y = Mul z x y.
Proof.
  intros Hp. unfold Mul. replace (prec z =? 0) with false by (symmetry; apply Z.eqb_neq; exact Hp).
  reflexivity.
Qed.

Lemma Quo_prec_irrel z x y q : prec z <> 0 -> Quo z (with_prec x q) y = Quo z x y.
Proof.
  intros Hp. unfold Quo. replace (prec z =? 0) with false by (symmetry; apply Z.eqb_neq; exact Hp).
  reflexivity.
Qed.

Theorem pow2_path_total : Pow2PathTotal.
Proof.
  intros zz p b rest e10 e2 [Hne Hok Htop Hlen0] Hlen Hp He2 Hrange.
  unfold scan_finish.
  destruct ((MinExp <=? e10) && (e10 <=? MaxExp)) eqn:Hin; [|reflexivity].
  apply andb_true_iff in Hin as [H1 H2]. apply Z.leb_le in H1, H2.
  replace (e2 =? 0) with false by (symmetry; apply Z.eqb_neq; exact He2).
  set (z := with_exp (with_form (with_prec zz p) Ffinite) (i32 e10)).
  assert (Hpz : prec z = p) by reflexivity. rewrite Hpz.
  rewrite SetPrec_zero by (cbv [DW]; unfold MaxPrec; lia).
  set (p0 := mkDec [] 0 (p + DW) ToNearestEven Exact Fzero false).
  (* z with a precision large enough to be canonical *)
  set (q := Z.max p (mdigits (mant zz))).
  set (x' := with_prec z q).
  assert (Hwfx : WF x').
  { apply WF_intro; unfold x', z; cbn [dform mant prec exp with_prec with_exp with_form]; try assumption; try reflexivity.
    - unfold q, MaxPrec. lia.
    - rewrite i32_small by lia. lia.
    - left. unfold q. lia. }
  assert (Hfx : dform x' = Ffinite) by reflexivity.
  assert (Hmx : mant x' = mant zz) by reflexivity.
  assert (Hu : forall a, 0 <= u64 a < 18446744073709551616) by (intros a; unfold u64; apply Z.mod_pos_bound; lia).
  assert (Hgood : forall pw, Gd pw ->
            (exists r, Quo z z pw = OkR r) /\ (exists r, Mul z z pw = OkR r)).
  { intros pw G. rewrite <- (Quo_prec_irrel z z pw q), <- (Mul_prec_irrel z z pw q) by (rewrite Hpz; lia).
    fold x'. destruct (g_val pw G) as [Fi|(Ff & _ & Hl)].
    - unfold Quo, Mul. rewrite Hfx, Fi. replace (prec z =? 0) with false by (symmetry; apply Z.eqb_neq; rewrite Hpz; lia).
      split; eexists; reflexivity.
    - pose proof (g_prec pw G) as Hpp. split.
      + destruct (Quo_correct z x' pw Hwfx (g_wf pw G) Hfx Ff) as (r & E & _).
        * rewrite Hpz. unfold MaxPrec. lia.
        * unfold eff_prec. rewrite Hpz. replace (p =? 0) with false by (symmetry; apply Z.eqb_neq; lia).
          rewrite Hmx. unfold PB in *. lia.
        * eauto.
      + destruct (Mul_correct z x' pw Hwfx (g_wf pw G) Hfx Ff) as (r & E & _).
        * rewrite Hpz. unfold MaxPrec. lia.
        * rewrite Hmx. unfold PB in *. lia.
        * eauto. }
  assert (Hp0 : 1 <= prec p0 <= PB - 19) by (unfold p0; cbn [prec]; cbv [DW]; unfold PB; lia).
  destruct (e2 <? 0).
  - destruct (pow2_G p0 (u64 (- e2)) Hp0 (Hu _)) as (pw & E & G). rewrite E.
    destruct (Hgood pw G) as [(r & Er) _]. rewrite Er. exact I.
  - destruct (pow2_G p0 (u64 e2) Hp0 (Hu _)) as (pw & E & G). rewrite E.
    destruct (Hgood pw G) as [_ (r & Er)]. rewrite Er. exact I.
Qed.

(* C12_total: Parse never panics and every error comes with a nil result *)
Theorem Parse_total_full z s base :
  valid_base base = true -> zlen s < 536870912 -> 0 <= prec z <= 1073741824 ->
  pgood (Parse z s base).
Proof. intros. apply Parse_total; try assumption. exact pow2_path_total. Qed.
