(* L4/GobProofs.v — Gob encoding round-trips, decoding is total and yields
   canonical values only (C17).  Proofs about the model L4/Gob.v. *)
From Coq Require Import ZArith List Bool Lia QArith.
From Dec Require Import Base.Words Base.WordsProofs Base.QPow L3.Decimal L3.Cmp L3.CmpProofs
  L3.Round L3.Arith L3.Convert Spec.Rounding Spec.RoundingFacts L3.RoundProofs L3.ArithProofs
  L3.SpecialProofs L3.ConvertProofs L3.Store L3.StoreProofs L3.IndepProofs L4.Gob.
Open Scope Z_scope.

(* ------------------------------------------------------------------ *)
(* bytes *)

Definition bytes_ok (l : list Z) : Prop := Forall (fun b => 0 <= b < 256) l.

Lemma Forall_firstn {A} (P : A -> Prop) n l : Forall P l -> Forall P (firstn n l).
Proof.
  revert l; induction n as [|n IH]; intros l H; [constructor|].
  destruct H; cbn [firstn]; constructor; auto.
Qed.
Lemma Forall_skipn {A} (P : A -> Prop) n l : Forall P l -> Forall P (skipn n l).
Proof.
  revert l; induction n as [|n IH]; intros l H; [exact H|].
  destruct H; cbn [skipn]; [constructor|auto].
Qed.

Lemma be_val_snoc l b : be_val (l ++ [b]) = be_val l * 256 + b.
Proof. unfold be_val. rewrite fold_left_app. reflexivity. Qed.

Lemma be_val_nil : be_val [] = 0. Proof. reflexivity. Qed.

Lemma length_be_bytes n v : length (be_bytes n v) = n.
Proof.
  revert v; induction n as [|n IH]; intros v; [reflexivity|].
  cbn [be_bytes]. rewrite app_length, IH. cbn [length]. lia.
Qed.

Lemma be_bytes_ok n v : bytes_ok (be_bytes n v).
Proof.
  revert v; induction n as [|n IH]; intros v; [constructor|].
  cbn [be_bytes]. apply Forall_app. split; [apply IH|].
  constructor; [|constructor]. apply Z.mod_pos_bound. lia.
Qed.

Lemma be_val_be_bytes n v : be_val (be_bytes n v) = v mod 256 ^ Z.of_nat n.
Proof.
  revert v; induction n as [|n IH]; intros v.
  - cbn [be_bytes]. change (Z.of_nat 0) with 0. rewrite Z.pow_0_r, Z.mod_1_r. reflexivity.
  - cbn [be_bytes]. rewrite be_val_snoc, IH.
    rewrite Nat2Z.inj_succ, Z.pow_succ_r by lia.
    assert (0 < 256 ^ Z.of_nat n) by (apply Z.pow_pos_nonneg; lia).
    rewrite Z.rem_mul_r by lia. ring.
Qed.

Lemma be_val_bounds l : bytes_ok l -> 0 <= be_val l < 256 ^ zlen l.
Proof.
  induction l as [|b l IH] using rev_ind; intros H.
  - change (0 <= 0 < 1). lia.
  - apply Forall_app in H as [Hl Hb]. inversion Hb as [|? ? Hb' _]; subst.
    specialize (IH Hl). rewrite be_val_snoc, zlen_app.
    change (zlen [b]) with 1. pose proof (zlen_nonneg l).
    rewrite Z.pow_add_r, Z.pow_1_r by lia.
    clear - IH Hb'. nia.
Qed.

Lemma be_val_4 l : bytes_ok l -> length l = 4%nat -> 0 <= be_val l < 4294967296.
Proof.
  intros H L. pose proof (be_val_bounds l H) as Hb. unfold zlen in Hb. rewrite L in Hb. exact Hb.
Qed.

(* ------------------------------------------------------------------ *)
(* chunks8_rev / setBytes *)

Definition nonneg_words (l : list Z) : Prop := Forall (fun w => 0 <= w) l.

Lemma chunks_nonneg fuel l : bytes_ok l -> nonneg_words (chunks8_rev fuel l).
Proof.
  revert l; induction fuel as [|f IH]; intros l H; [constructor|].
  cbn [chunks8_rev]. destruct l as [|a l]; [constructor|].
  constructor.
  - apply be_val_bounds. apply Forall_rev. apply Forall_firstn. exact H.
  - apply IH. apply Forall_skipn. exact H.
Qed.

Lemma chunks_length fuel l : (length (chunks8_rev fuel l) * 8 <= length l + 7)%nat.
Proof.
  revert l; induction fuel as [|f IH]; intros l; [cbn; lia|].
  cbn [chunks8_rev]. destruct l as [|a l]; [cbn; lia|].
  specialize (IH (skipn 8 (a :: l))). rewrite skipn_length in IH.
  cbn [length] in *.
  destruct (le_lt_dec 8 (S (length l))) as [C|C]; [lia|].
  assert (E : skipn 8 (a :: l) = []) by (apply skipn_all2; cbn [length]; lia).
  rewrite E. destruct f; cbn [chunks8_rev length]; lia.
Qed.

Lemma norm_nonneg l : nonneg_words l -> nonneg_words (norm l).
Proof.
  induction 1 as [|w r Hw Hr IH]; [constructor|].
  cbn [norm]. destruct (norm r) as [|x r'].
  - destruct (w =? 0); constructor; [exact Hw|constructor].
  - constructor; assumption.
Qed.

Lemma setBytes_nonneg buf : bytes_ok buf -> nonneg_words (setBytes buf).
Proof. intros H. apply norm_nonneg, chunks_nonneg, Forall_rev, H. Qed.

Lemma setBytes_length buf : zlen (setBytes buf) * 8 <= zlen buf + 7.
Proof.
  unfold setBytes. pose proof (zlen_norm_le (chunks8_rev (S (length buf)) (rev buf))) as H1.
  pose proof (chunks_length (S (length buf)) (rev buf)) as H2. rewrite rev_length in H2.
  unfold zlen in *. lia.
Qed.

Lemma words_ok_of_nonneg l : nonneg_words l -> forallb (fun w => w <? B) l = true -> words_ok l = true.
Proof.
  induction 1 as [|w r Hw Hr IH]; intros Hb; [reflexivity|].
  cbn [forallb] in Hb. apply andb_true_iff in Hb as [H1 H2].
  apply words_ok_cons. split; [|auto]. apply Z.ltb_lt in H1. lia.
Qed.

Lemma forallb_ltB l : words_ok l = true -> forallb (fun w => w <? B) l = true.
Proof.
  induction l as [|w r IH]; intros H; [reflexivity|].
  apply words_ok_cons in H as [Hw Hr]. cbn [forallb]. rewrite IH by assumption.
  destruct (Z.ltb_spec w B); [reflexivity|lia].
Qed.

(* reversing a concatenation of blocks *)
Lemma rev_flat_map {A C} (f : A -> list C) l :
  rev (flat_map f l) = flat_map (fun x => rev (f x)) (rev l).
Proof.
  induction l as [|a l IH]; [reflexivity|].
  cbn [flat_map rev]. rewrite rev_app_distr, IH, flat_map_app. cbn [flat_map]. now rewrite app_nil_r.
Qed.

Lemma chunks8_block f l r : length l = 8%nat ->
  chunks8_rev (S f) (l ++ r) = be_val (rev l) :: chunks8_rev f r.
Proof.
  intros L. cbn [chunks8_rev].
  destruct l as [|a l]; [discriminate|]. cbn [app].
  change (a :: l ++ r) with ((a :: l) ++ r).
  rewrite firstn_app, skipn_app, L. rewrite Nat.sub_diag.
  rewrite firstn_all2 by lia. rewrite skipn_all2 by lia.
  cbn [firstn skipn app]. now rewrite app_nil_r.
Qed.

Lemma chunks8_words f ws : (length ws <= f)%nat ->
  chunks8_rev f (flat_map (fun w => rev (be_bytes 8 w)) ws) = map (fun w => w mod 18446744073709551616) ws.
Proof.
  revert f; induction ws as [|w ws IH]; intros f Hf.
  - destruct f; reflexivity.
  - destruct f as [|f]; [cbn in Hf; lia|]. cbn [flat_map map].
    rewrite chunks8_block by (rewrite rev_length; apply length_be_bytes).
    rewrite rev_involutive, be_val_be_bytes. f_equal. apply IH. cbn [length] in Hf. lia.
Qed.

Lemma map_mod_small ws : words_ok ws = true -> map (fun w => w mod 18446744073709551616) ws = ws.
Proof.
  induction ws as [|w ws IH]; intros H; [reflexivity|].
  apply words_ok_cons in H as [Hw Hr]. cbn [map]. rewrite IH by assumption.
  rewrite Z.mod_small; [reflexivity|]. rewrite B_eq in Hw. lia.
Qed.

Lemma length_flat_map_const {A C} (f : A -> list C) k l :
  (forall x, length (f x) = k) -> length (flat_map f l) = (k * length l)%nat.
Proof.
  intros Hk. induction l as [|a l IH]; [cbn; lia|]. cbn [flat_map length]. rewrite app_length, Hk, IH. lia.
Qed.

Theorem setBytes_words_bytes ws : words_ok ws = true -> setBytes (words_bytes ws) = norm ws.
Proof.
  intros H. unfold setBytes, words_bytes. rewrite rev_flat_map, rev_involutive.
  rewrite chunks8_words.
  - now rewrite map_mod_small.
  - rewrite (length_flat_map_const _ 8) by (intros; apply length_be_bytes). rewrite rev_length. lia.
Qed.

Lemma words_bytes_ok ws : bytes_ok (words_bytes ws).
Proof.
  unfold words_bytes. induction (rev ws) as [|w l IH]; [constructor|].
  cbn [flat_map]. apply Forall_app. split; [apply be_bytes_ok|exact IH].
Qed.

(* ------------------------------------------------------------------ *)
(* the checks made by GobDecode on a finite mantissa establish canonical form *)

Lemma i32_range v : MinExp <= i32 v <= MaxExp.
Proof. unfold i32, MinExp, MaxExp. pose proof (Z.mod_pos_bound (v + 2147483648) 4294967296 ltac:(lia)). lia. Qed.

Lemma decoded_fin_WFfin m v p md ac ng :
  nonneg_words m -> m <> [] -> (last_word m <? B / 10) = false ->
  forallb (fun w => w <? B) m = true -> (p <? mant_minprec m) = false -> 0 <= p < 4294967296 ->
  WFfin (mkDec m (i32 v) p md ac Ffinite ng).
Proof.
  intros Hnn Hne Htop Hlt Hmp Hp.
  assert (Hok : words_ok m = true) by (apply words_ok_of_nonneg; assumption).
  apply Z.ltb_ge in Htop, Hmp.
  assert (Hl : 1 <= zlen m).
  { destruct m; [congruence|]. rewrite zlen_cons. pose proof (zlen_nonneg m). lia. }
  pose proof (val_ge_last m Hok Hne) as [Hlo _]. pose proof (val_bounds m Hok) as [_ Hhi].
  assert (HN0 : 0 < val m).
  { unfold last_word in Htop. assert (0 < B / 10) by (rewrite B_eq; reflexivity).
    assert (0 < B ^ (zlen m - 1)) by (apply Z.pow_pos_nonneg; [apply B_pos|lia]).
    clear - Hlo Htop H H0. nia. }
  rewrite <- pow10_19 in Hhi by lia.
  destruct (ntz10_spec (val m) HN0) as (Ht & Hd & _).
  assert (Htl : ntz10 (val m) < 19 * zlen m).
  { destruct (Z.lt_ge_cases (ntz10 (val m)) (19 * zlen m)) as [C|C]; [exact C|exfalso].
    assert (E : val m mod 10 ^ (19 * zlen m) = 0) by (apply (ntz10_div (val m) _ HN0); lia).
    rewrite Z.mod_small in E by lia. lia. }
  unfold mant_minprec in Hmp. rewrite DW_eq in Hmp.
  constructor; cbn [mant exp prec dform]; try assumption.
  - unfold MaxPrec. lia.
  - apply i32_range.
  - unfold mdigits. rewrite DW_eq.
    destruct (Z.le_gt_cases (19 * zlen m) p) as [C|C]; [left; exact C|right].
    apply (ntz10_div (val m) _ HN0); lia.
Qed.

Lemma decoded_fin_WF m v p md ac ng :
  nonneg_words m -> m <> [] -> (last_word m <? B / 10) = false ->
  forallb (fun w => w <? B) m = true -> (p <? mant_minprec m) = false -> 0 <= p < 4294967296 ->
  WF (mkDec m (i32 v) p md ac Ffinite ng).
Proof.
  intros Hnn Hne Htop Hlt Hmp Hp.
  pose proof (decoded_fin_WFfin m v p md ac ng Hnn Hne Htop Hlt Hmp Hp) as W.
  apply (WF_reprec _ p md ac) in W; [exact W|]. cbn [prec]. unfold MaxPrec. lia.
Qed.

(* ------------------------------------------------------------------ *)
(* shape of GobDecode *)

Definition finish (z z' : Dec) : gobres :=
  if prec z =? 0 then GobOk z'
  else match SetPrec (with_mode z' (dmode z)) (prec z) with
       | OkR z'' => GobOk z''
       | _ => GobCrash
       end.

(* the value described by the bytes, before the receiver's precision is
   applied; zero and infinities keep the receiver's mantissa and exponent fields *)
Inductive decoded (z : Dec) (buf : list Z) (d : Dec) : Prop :=
| dec_special : dform d <> Ffinite -> mant d = mant z -> exp d = exp z ->
    0 <= prec d < 4294967296 -> decoded z buf d
| dec_finite : dform d = Ffinite -> WF d -> zlen (mant d) * 8 <= zlen buf - 3 ->
    0 <= prec d < 4294967296 -> decoded z buf d.

Lemma GobDecode_shape z buf : bytes_ok buf ->
  (buf = [] /\ GobDecode z buf = GobOk dec_zero) \/
  GobDecode z buf = GobErr z \/
  exists d, decoded z buf d /\ GobDecode z buf = finish z d.
Proof.
  intros Hb. destruct buf as [|v rest]; [left; split; reflexivity|right].
  unfold GobDecode. destruct (negb (v =? decimalGobVersion)); [left; reflexivity|].
  destruct (zlen (v :: rest) <? 6) eqn:E6; [left; reflexivity|].
  set (b := nth 1 (v :: rest) 0).
  destruct (mode_of_bits _) as [md|]; [|left; reflexivity].
  destruct (acc_of_bits _) as [ac|]; [|left; reflexivity].
  destruct (form_of_bits _) as [f|]; [|left; reflexivity].
  set (p4 := firstn 4 (skipn 2 (v :: rest))).
  assert (Hp : 0 <= be_val p4 < 4294967296).
  { apply Z.ltb_ge in E6. apply be_val_4; [apply Forall_firstn, Forall_skipn, Hb|].
    unfold p4. rewrite firstn_length, skipn_length. unfold zlen in E6. lia. }
  fold (finish z).
  assert (Hspecial : forall f', f' <> Ffinite ->
    exists d, decoded z (v :: rest) d /\
      finish z (mkDec (mant z) (exp z) (be_val p4) md ac f' (b mod 2 =? 1)) = finish z d).
  { intros f' Hf'. eexists. split; [|reflexivity]. apply dec_special; cbn [dform mant exp prec]; auto. }
  destruct f; [right; apply Hspecial; discriminate| |right; apply Hspecial; discriminate].
  destruct (zlen (v :: rest) <? 10) eqn:E10; [left; reflexivity|].
  set (m := setBytes (skipn 10 (v :: rest))).
  destruct ((match m with [] => true | _ => false end) || (last_word m <? B / 10)) eqn:E1; [left; reflexivity|].
  apply orb_false_iff in E1 as [E1a E1b].
  destruct (forallb (fun w => w <? B) m) eqn:E2; cbn [negb]; [|left; reflexivity].
  destruct (be_val p4 <? mant_minprec m) eqn:E3; [left; reflexivity|].
  right. eexists. split; [|reflexivity].
  assert (Hskip : bytes_ok (skipn 10 (v :: rest))) by (apply Forall_skipn, Hb).
  apply dec_finite; cbn [dform mant prec]; auto.
  - apply decoded_fin_WF; auto.
    + apply setBytes_nonneg, Hskip.
    + destruct m; [discriminate|congruence].
  - pose proof (setBytes_length (skipn 10 (v :: rest))) as HL. fold m in HL.
    apply Z.ltb_ge in E10. unfold zlen in HL, E10 |- *. rewrite skipn_length in HL. lia.
Qed.

Lemma WF_with_mode d m : WF d -> WF (with_mode d m).
Proof. unfold WF, wf_b. cbn [with_mode prec dform mant exp]. auto. Qed.

Lemma decoded_WF z buf d : decoded z buf d -> WF d.
Proof.
  intros [Hf _ _ Hp|_ W _ _]; [|exact W]. apply WF_nonfinite; [exact Hf|unfold MaxPrec; lia].
Qed.

Lemma SetPrec_not_NaN z p z' : SetPrec z p <> NaNR z'.
Proof.
  unfold SetPrec. destruct (p =? 0).
  - destruct (dform _); discriminate.
  - cbv zeta. match goal with |- context [if ?c then of_opt ?o else _] => destruct c; [destruct o|] end; discriminate.
Qed.

Lemma finish_WF z buf d : WF z -> decoded z buf d -> (prec z = 0 \/ zlen buf < 1073741824) ->
  exists z', finish z d = GobOk z' /\ WF z'.
Proof.
  intros Wz Hd Hlen. pose proof (decoded_WF z buf d Hd) as Wd. unfold finish.
  destruct (Z.eqb_spec (prec z) 0) as [E|E]; [exists d; split; [reflexivity|exact Wd]|].
  assert (HW : ores_WF (SetPrec (with_mode d (dmode z)) (prec z))).
  { apply SetPrec_WF.
    - apply WF_with_mode, Wd.
    - pose proof (WF_prec z Wz). lia.
    - cbn [with_mode dform mant]. intros Ff. destruct Hd as [Hf _ _ _|_ _ HL _]; [congruence|].
      unfold mdigits. rewrite DW_eq. destruct Hlen as [C|C]; [congruence|]. lia. }
  destruct (SetPrec _ _) as [z'|z'|] eqn:ES; cbn [ores_WF] in HW.
  - exists z'. split; [reflexivity|exact HW].
  - exfalso. exact (SetPrec_not_NaN _ _ _ ES).
  - contradiction.
Qed.

(* C17_total *)
Theorem Gob_total z buf :
  Forall (fun b => 0 <= b < 256) buf -> WF z -> (prec z = 0 \/ zlen buf < 1073741824) ->
  GobDecode z buf <> GobCrash /\
  (forall z', GobDecode z buf = GobErr z' -> z' = z) /\
  (forall z', GobDecode z buf = GobOk z' -> WF z').
Proof.
  intros Hb Wz Hlen.
  destruct (GobDecode_shape z buf Hb) as [[_ E]|[E|(d & Hd & E)]]; rewrite E.
  - split; [discriminate|]. split; [discriminate|]. intros z' H. injection H as <-. reflexivity.
  - split; [discriminate|]. split; [|discriminate]. intros z' H. now injection H as <-.
  - destruct (finish_WF z buf d Wz Hd Hlen) as (z1 & E1 & W1). rewrite E1.
    split; [discriminate|]. split; [discriminate|]. intros z' H. now injection H as <-.
Qed.

(* ------------------------------------------------------------------ *)
(* decoding a well-framed buffer *)

Lemma hdr_bits md ac f ng :
  let b := mode_bits md * 32 + acc_bits ac * 8 + form_bits f * 2 + b2z ng in
  mode_of_bits ((b / 32) mod 8) = Some md /\ acc_of_bits ((b / 8) mod 4) = Some ac /\
  form_of_bits ((b / 2) mod 4) = Some f /\ (b mod 2 =? 1) = ng.
Proof. destruct md, ac, f, ng; vm_compute; repeat split; reflexivity. Qed.

Lemma GobDecode_special z b a1 a2 a3 a4 rest md ac f :
  mode_of_bits ((b / 32) mod 8) = Some md -> acc_of_bits ((b / 8) mod 4) = Some ac ->
  form_of_bits ((b / 2) mod 4) = Some f -> f <> Ffinite ->
  GobDecode z (1 :: b :: a1 :: a2 :: a3 :: a4 :: rest) =
  finish z (mkDec (mant z) (exp z) (be_val [a1; a2; a3; a4]) md ac f (b mod 2 =? 1)).
Proof.
  intros Hm Ha Hf Hnf. unfold GobDecode.
  change (1 =? decimalGobVersion) with true. cbn [negb].
  change (zlen (1 :: b :: a1 :: a2 :: a3 :: a4 :: rest)) with (Z.of_nat (6 + length rest)).
  destruct (Z.ltb_spec (Z.of_nat (6 + length rest)) 6) as [C|_]; [lia|].
  cbn [nth skipn firstn]. rewrite Hm, Ha, Hf. fold (finish z).
  destruct f; [reflexivity|congruence|reflexivity].
Qed.

Lemma GobDecode_finite z b a1 a2 a3 a4 e1 e2 e3 e4 mb md ac :
  mode_of_bits ((b / 32) mod 8) = Some md -> acc_of_bits ((b / 8) mod 4) = Some ac ->
  form_of_bits ((b / 2) mod 4) = Some Ffinite ->
  let m := setBytes mb in let p := be_val [a1; a2; a3; a4] in
  m <> [] -> (last_word m <? B / 10) = false -> forallb (fun w => w <? B) m = true ->
  (p <? mant_minprec m) = false ->
  GobDecode z (1 :: b :: a1 :: a2 :: a3 :: a4 :: e1 :: e2 :: e3 :: e4 :: mb) =
  finish z (mkDec m (i32 (be_val [e1; e2; e3; e4])) p md ac Ffinite (b mod 2 =? 1)).
Proof.
  intros Hm Ha Hf m p Hne Htop Hlt Hmp. unfold GobDecode.
  change (1 =? decimalGobVersion) with true. cbn [negb].
  change (zlen (1 :: b :: a1 :: a2 :: a3 :: a4 :: e1 :: e2 :: e3 :: e4 :: mb)) with (Z.of_nat (10 + length mb)).
  destruct (Z.ltb_spec (Z.of_nat (10 + length mb)) 6) as [C|_]; [lia|].
  destruct (Z.ltb_spec (Z.of_nat (10 + length mb)) 10) as [C|_]; [lia|].
  cbn [nth skipn firstn]. rewrite Hm, Ha, Hf. fold (finish z). fold m. fold p.
  rewrite Htop, Hlt, Hmp. cbn [negb]. destruct m; [congruence|]. reflexivity.
Qed.

Lemma be_bytes_4 v : exists a1 a2 a3 a4, be_bytes 4 v = [a1; a2; a3; a4].
Proof. cbn [be_bytes app]. repeat eexists. Qed.

(* ------------------------------------------------------------------ *)
(* the words kept by GobEncode *)

Lemma val0_zeros l : words_ok l = true -> val l = 0 -> l = repeat 0 (length l).
Proof.
  induction l as [|w r IH]; intros Hok Hv; [reflexivity|].
  apply words_ok_cons in Hok as [Hw Hr]. cbn [val] in Hv.
  pose proof (val_nonneg r Hr). pose proof B_pos.
  assert (w = 0 /\ val r = 0) as [-> Hr0] by (clear - Hw H H0 Hv; nia).
  cbn [length repeat]. f_equal. apply IH; assumption.
Qed.

Lemma zlen_repeat {A} (a : A) k : zlen (repeat a k) = Z.of_nat k.
Proof. unfold zlen. now rewrite repeat_length. Qed.

Lemma val_zeros_app k l : val (repeat 0 k ++ l) = B ^ Z.of_nat k * val l.
Proof. rewrite val_app, val_repeat0, zlen_repeat. lia. Qed.

Lemma strip_low_zeros k l : strip_low (repeat 0 k ++ l) = strip_low l.
Proof. induction k as [|k IH]; [reflexivity|]. cbn [repeat app strip_low]. exact IH. Qed.

Lemma enc_split x : WFfin x ->
  let L := zlen (mant x) in
  let c := (prec x + (DW - 1)) / DW in
  let n := if L <? c then L else c in
  let k := Z.to_nat (L - n) in
  1 <= n <= L /\ mant x = repeat 0 k ++ skipn k (mant x) /\
  (19 * n <= prec x \/ val (skipn k (mant x)) mod 10 ^ (19 * n - prec x) = 0).
Proof.
  intros Hx L c n k. destruct (WFfin_len x Hx) as [HL1 HLd]. fold L in HL1, HLd.
  destruct Hx as [Hne Hok Htop Hprec Hexp Htail]. rewrite HLd in Htail.
  assert (Hc : 19 * c - 18 <= prec x <= 19 * c).
  { unfold c. rewrite DW_eq. clear - Hprec. change (19 - 1) with 18. Z.div_mod_to_equations. lia. }
  assert (Hn : 1 <= n <= L) by (unfold n; destruct (Z.ltb_spec L c); lia).
  split; [exact Hn|].
  assert (Hk : Z.of_nat k = L - n) by (unfold k; rewrite Z2Nat.id; lia).
  assert (Hkl : (k <= length (mant x))%nat) by (unfold L, zlen in *; lia).
  assert (Hsplit : mant x = firstn k (mant x) ++ skipn k (mant x)) by (symmetry; apply firstn_skipn).
  assert (HlenF : length (firstn k (mant x)) = k) by (rewrite firstn_length; lia).
  assert (HokF : words_ok (firstn k (mant x)) = true /\ words_ok (skipn k (mant x)) = true).
  { apply words_ok_app. rewrite <- Hsplit. exact Hok. }
  destruct HokF as [HokF HokS].
  assert (Hv : val (mant x) = val (firstn k (mant x)) + B ^ Z.of_nat k * val (skipn k (mant x))).
  { rewrite Hsplit at 1. rewrite val_app. unfold zlen. now rewrite HlenF. }
  pose proof (val_bounds _ HokF) as HbF. unfold zlen in HbF. rewrite HlenF in HbF.
  pose proof (val_nonneg _ HokS) as HbS.
  assert (HBk : 0 < B ^ Z.of_nat k) by apply Bpow_pos.
  destruct (Z.le_gt_cases (19 * L) (prec x)) as [Cs|Cl].
  - (* short mantissa: nothing is cut *)
    assert (n = L) by (unfold n; destruct (Z.ltb_spec L c); lia).
    assert (k = 0%nat) by lia. subst k. rewrite H0. cbn [repeat app skipn]. split; [reflexivity|left; lia].
  - destruct Htail as [T|T]; [lia|].
    assert (Hge : 0 <= 19 * n - prec x) by (unfold n; destruct (Z.ltb_spec L c); lia).
    assert (E10 : 10 ^ (19 * L - prec x) = B ^ Z.of_nat k * 10 ^ (19 * n - prec x)).
    { rewrite <- pow10_19 by lia. rewrite <- Z.pow_add_r by lia. f_equal. lia. }
    assert (P2 : 0 < 10 ^ (19 * n - prec x)) by (apply pow10_pos; lia).
    (* the low k words are zero *)
    assert (HF0 : val (firstn k (mant x)) = 0).
    { assert (D : val (mant x) mod B ^ Z.of_nat k = 0).
      { rewrite E10 in T. apply Z.mod_divide in T; [|lia]. destruct T as [q Hq].
        apply Z.mod_divide; [lia|]. exists (q * 10 ^ (19 * n - prec x)). rewrite Hq. ring. }
      rewrite Hv in D. rewrite (Z.mul_comm (B ^ Z.of_nat k)), Z.mod_add in D by lia.
      rewrite Z.mod_small in D by lia. exact D. }
    split.
    + pose proof (val0_zeros _ HokF HF0) as Z0. rewrite HlenF in Z0. rewrite <- Z0. exact Hsplit.
    + right. rewrite Hv, HF0, Z.add_0_l, E10 in T.
      rewrite Z.mul_mod_distr_l in T by lia. clear - T HBk. nia.
Qed.

(* ------------------------------------------------------------------ *)
(* round trip *)

Lemma oeq_intro a b : dform a = dform b -> neg a = neg b -> prec a = prec b ->
  dmode a = dmode b -> acc a = acc b ->
  (dform a = Ffinite -> exp a = exp b /\ strip_low (mant a) = strip_low (mant b)) -> oeq a b.
Proof.
  intros Hf Hn Hp Hm Ha Hfin. unfold oeq, dec_obs_eqb. rewrite <- Hf, <- Hn, <- Hp, <- Hm, <- Ha.
  assert (form_eqb (dform a) (dform a) = true) as -> by (destruct (dform a); reflexivity).
  assert (mode_eqb (dmode a) (dmode a) = true) as -> by (destruct (dmode a); reflexivity).
  assert (acc_eqb (acc a) (acc a) = true) as -> by (destruct (acc a); reflexivity).
  rewrite Bool.eqb_reflx, Z.eqb_refl. cbn [andb]. destruct (dform a) eqn:F; try reflexivity.
  destruct (Hfin eq_refl) as [He Hs]. rewrite <- He, Hs, Z.eqb_refl, list_eqb_refl. reflexivity.
Qed.

Lemma i32_u32 e : MinExp <= e <= MaxExp -> i32 (e mod 4294967296) = e.
Proof.
  intros H. unfold i32. rewrite Zplus_mod_idemp_l. apply (i32_small e H).
Qed.

Theorem Gob_roundtrip x : WF x ->
  exists x', GobDecode dec_zero (GobEncode x) = GobOk x' /\ WF x' /\ oeq x x' /\
    dform x' = dform x /\ neg x' = neg x /\ prec x' = prec x /\ dmode x' = dmode x /\ acc x' = acc x /\
    (dform x = Ffinite ->
       exp x' = exp x /\ (exists k, mant x = repeat 0 k ++ mant x') /\ (mag x' == mag x)%Q /\
       (zlen (mant x) <= (prec x + 18) / 19 -> x' = x)).
Proof.
  intros W. pose proof (WF_prec x W) as HP. unfold GobEncode. cbv zeta.
  destruct (hdr_bits (dmode x) (acc x) (dform x) (neg x)) as (Hm & Ha & Hf & Hng).
  remember (mode_bits (dmode x) * 32 + acc_bits (acc x) * 8 + form_bits (dform x) * 2 + b2z (neg x)) as b eqn:Eb.
  destruct (be_bytes_4 (prec x)) as (a1 & a2 & a3 & a4 & E4).
  assert (Hp : be_val [a1; a2; a3; a4] = prec x).
  { rewrite <- E4, be_val_be_bytes. change (256 ^ Z.of_nat 4) with 4294967296.
    apply Z.mod_small. unfold MaxPrec in HP. lia. }
  assert (Hspecial : dform x <> Ffinite ->
    exists x', GobDecode dec_zero ([decimalGobVersion; b] ++ be_bytes 4 (prec x)) = GobOk x' /\ WF x' /\ oeq x x' /\
    dform x' = dform x /\ neg x' = neg x /\ prec x' = prec x /\ dmode x' = dmode x /\ acc x' = acc x).
  { intros Hnf. rewrite E4. cbn [app]. change decimalGobVersion with 1.
    rewrite (GobDecode_special dec_zero b a1 a2 a3 a4 [] _ _ _ Hm Ha Hf Hnf).
    unfold finish. cbn [prec dec_zero Z.eqb mant exp]. rewrite Hp, Hng.
    eexists. split; [reflexivity|]. cbn [dform neg prec dmode acc].
    split; [apply WF_nonfinite; cbn [dform prec]; assumption|].
    split; [apply oeq_nonfinite; cbn [dform neg prec dmode acc]; auto|].
    repeat split; reflexivity. }
  destruct (dform x) eqn:F.
  - destruct (Hspecial ltac:(discriminate)) as (x' & H1 & H2 & H3 & H4 & H5 & H6 & H7 & H8).
    exists x'. repeat (split; [assumption|]). discriminate.
  - clear Hspecial. pose proof (WF_finite x W F) as Hx.
    destruct (enc_split x Hx) as (Hn & Hsplit & Hdiv). cbv zeta in Hn, Hsplit, Hdiv.
    pose proof Hx as [Hne Hok Htop Hprec Hexp Htail].
    set (L := zlen (mant x)) in *. set (c := (prec x + (DW - 1)) / DW) in *.
    set (n := if L <? c then L else c) in *. set (k := Z.to_nat (L - n)) in *.
    set (top := skipn k (mant x)) in *.
    assert (Hk : Z.of_nat k = L - n) by (unfold k; rewrite Z2Nat.id; lia).
    assert (Hkl : (k < length (mant x))%nat) by (unfold L, zlen in *; lia).
    assert (HokT : words_ok top = true) by (apply words_ok_skipn, Hok).
    assert (HlenT : zlen top = n) by (unfold top; rewrite zlen_skipn by lia; fold L; lia).
    assert (HlastT : last_word top = last_word (mant x)) by (apply last_skipn, Hkl).
    assert (HneT : top <> []) by (intros E; rewrite E in HlenT; change (zlen (@nil Z)) with 0 in HlenT; lia).
    assert (B10 : 0 < B / 10) by (rewrite B_eq; reflexivity).
    assert (Hnorm : norm top = top) by (apply norm_nonempty_last; [exact HneT|unfold last_word in *; lia]).
    assert (HsB : setBytes (words_bytes top) = top) by (rewrite setBytes_words_bytes by exact HokT; exact Hnorm).
    assert (HvT : 0 < val top).
    { pose proof (val_ge_last top HokT HneT) as [Hlo _]. unfold last_word in *.
      assert (0 < B ^ (zlen top - 1)) by (apply Z.pow_pos_nonneg; [apply B_pos|lia]).
      clear - Hlo HlastT Htop B10 H. nia. }
    assert (Hmp : (prec x <? mant_minprec top) = false).
    { apply Z.ltb_ge. unfold mant_minprec. rewrite HlenT, DW_eq.
      destruct (ntz10_spec (val top) HvT) as (Ht & _ & _).
      destruct Hdiv as [D|D]; [lia|].
      destruct (Z.le_gt_cases (19 * n) (prec x)); [lia|].
      apply (ntz10_div (val top) (19 * n - prec x) HvT) in D; lia. }
    destruct (be_bytes_4 (exp x mod 4294967296)) as (e1 & e2 & e3 & e4 & E4e).
    assert (He : i32 (be_val [e1; e2; e3; e4]) = exp x).
    { rewrite <- E4e, be_val_be_bytes. change (256 ^ Z.of_nat 4) with 4294967296.
      rewrite Z.mod_mod by lia. apply i32_u32, Hexp. }
    rewrite E4, E4e. cbn [app]. change decimalGobVersion with 1.
    rewrite (GobDecode_finite dec_zero b a1 a2 a3 a4 e1 e2 e3 e4 _ _ _ Hm Ha Hf);
      cbv zeta; rewrite ?HsB, ?Hp; try assumption.
    + unfold finish. cbn [prec dec_zero Z.eqb]. rewrite Hng, He.
      eexists. split; [reflexivity|]. cbn [dform neg prec dmode acc exp mant].
      assert (Wx' : WFfin (mkDec top (exp x) (prec x) (dmode x) (acc x) Ffinite (neg x))).
      { constructor; cbn [mant exp prec dform]; try assumption.
        - rewrite HlastT. exact Htop.
        - unfold mdigits. rewrite HlenT, DW_eq. destruct Hdiv as [D|D]; [left; exact D|right; exact D]. }
      split; [apply (WF_reprec _ (prec x) (dmode x) (acc x)) in Wx'; [exact Wx'|cbn [prec]; lia]|].
      split.
      { apply oeq_intro; cbn [dform neg prec dmode acc exp mant]; auto.
        intros _. split; [reflexivity|]. rewrite Hsplit. apply strip_low_zeros. }
      do 5 (split; [reflexivity|]). intros _. split; [reflexivity|].
      split; [exists k; exact Hsplit|]. split.
      * unfold mag. cbn [mant exp]. unfold mdigits. rewrite HlenT. fold L.
        assert (EV : val (mant x) = val top * 10 ^ (19 * Z.of_nat k)).
        { rewrite Hsplit at 1. rewrite val_zeros_app, pow10_19 by lia. ring. }
        rewrite EV, scaled_pow by lia. rewrite DW_eq.
        replace (exp x - 19 * L + 19 * Z.of_nat k) with (exp x - 19 * n) by lia. reflexivity.
      * intros Hshort. assert (k = 0%nat).
        { assert (c = (prec x + 18) / 19) by reflexivity.
          unfold n in Hk. destruct (Z.ltb_spec L c); lia. }
        assert (ET : top = mant x) by (unfold top; rewrite H; reflexivity).
        rewrite ET. clear - F. destruct x as [m0 e0 p0 md0 ac0 f0 n0]. cbn [dform mant exp prec dmode acc neg] in *. now rewrite F.
    + destruct (Z.ltb_spec (last_word top) (B / 10)); [|reflexivity]. rewrite HlastT in *. lia.
    + apply forallb_ltB, HokT.
  - destruct (Hspecial ltac:(discriminate)) as (x' & H1 & H2 & H3 & H4 & H5 & H6 & H7 & H8).
    exists x'. repeat (split; [assumption|]). discriminate.
Qed.

(* ------------------------------------------------------------------ *)
(* decoding into a receiver with a precision *)

Lemma GobDecode_any_receiver z buf d : buf <> [] -> GobDecode dec_zero buf = GobOk d ->
  GobDecode z buf =
  finish z (match dform d with
            | Ffinite => d
            | _ => mkDec (mant z) (exp z) (prec d) (dmode d) (acc d) (dform d) (neg d)
            end).
Proof.
  intros Hne H. destruct buf as [|v rest]; [congruence|]. unfold GobDecode in *.
  destruct (negb (v =? decimalGobVersion)); [discriminate|].
  destruct (zlen (v :: rest) <? 6); [discriminate|].
  destruct (mode_of_bits _) as [md|]; [|discriminate].
  destruct (acc_of_bits _) as [ac|]; [|discriminate].
  destruct (form_of_bits _) as [f|]; [|discriminate].
  fold (finish z). cbn [prec dec_zero Z.eqb] in H.
  destruct f.
  - injection H as <-. reflexivity.
  - destruct (zlen (v :: rest) <? 10); [discriminate|].
    destruct (_ || _); [discriminate|].
    destruct (negb _); [discriminate|].
    destruct (_ <? mant_minprec _); [discriminate|].
    injection H as <-. reflexivity.
  - injection H as <-. reflexivity.
Qed.

Lemma SetPrec_special d p : dform d <> Ffinite -> 1 <= p <= MaxPrec ->
  SetPrec d p = OkR (mkDec (mant d) (exp d) p (dmode d) Exact (dform d) (neg d)).
Proof.
  intros Hf Hp. destruct d as [m0 e0 p0 md0 ac0 f0 n0]. cbn [dform mant exp dmode neg] in *.
  unfold SetPrec. destruct (Z.eqb_spec p 0); [lia|].
  destruct (Z.ltb_spec MaxPrec p); [lia|]. cbv zeta. cbn [prec with_acc with_prec].
  destruct (p <? p0); [|reflexivity].
  unfold round. cbn [dform with_acc with_prec]. destruct f0; [reflexivity|congruence|reflexivity].
Qed.

(* C17_receiver *)
Theorem Gob_receiver z buf d :
  Forall (fun b => 0 <= b < 256) buf -> buf <> [] -> zlen buf < 1073741824 ->
  WF z -> prec z <> 0 ->
  GobDecode dec_zero buf = GobOk d ->
  exists z', GobDecode z buf = GobOk z' /\ prec z' = prec z /\ dmode z' = dmode z /\ WF z' /\
    match dform d with
    | Ffinite => result_spec (prec z) (dmode z) (neg d) (mag d) z'
    | f => z' = mkDec (mant z) (exp z) (prec z) (dmode z) Exact f (neg d)
    end.
Proof.
  intros Hb Hne Hlen Wz Hpz Hd. pose proof (WF_prec z Wz) as HP.
  assert (Wd : WF d).
  { destruct (Gob_total dec_zero buf Hb ltac:(reflexivity) ltac:(left; reflexivity)) as (_ & _ & HW).
    apply HW, Hd. }
  assert (Hlenm : dform d = Ffinite -> mdigits (mant d) < 4294967296 - 18).
  { intros Ff. destruct (GobDecode_shape dec_zero buf Hb) as [[E _]|[E|(d' & Hd' & E)]]; [congruence|congruence|].
    rewrite Hd in E. unfold finish in E. cbn [prec dec_zero Z.eqb] in E. injection E as <-.
    destruct Hd' as [Hf _ _ _|_ _ HL _]; [congruence|]. unfold mdigits. rewrite DW_eq. lia. }
  rewrite (GobDecode_any_receiver z buf d Hne Hd). unfold finish.
  destruct (Z.eqb_spec (prec z) 0) as [C|_]; [contradiction|].
  destruct (dform d) eqn:F.
  - rewrite SetPrec_special by (cbn [with_mode dform]; first [discriminate|lia]).
    cbn [with_mode mant exp dmode dform neg]. eexists. split; [reflexivity|]. cbn [prec dmode].
    split; [reflexivity|]. split; [reflexivity|]. split; [|reflexivity].
    apply WF_nonfinite; cbn [dform prec]; [discriminate|lia].
  - pose proof (SetPrec_correct (with_mode d (dmode z)) (prec z)
                  (WF_with_mode d (dmode z) Wd) F (Hlenm eq_refl) ltac:(lia)) as HS.
    cbv zeta in HS. destruct (Z.ltb_spec MaxPrec (prec z)) as [C|_]; [lia|].
    destruct HS as (z' & E & HR & Hp' & Hm' & W'). rewrite E.
    exists z'. split; [reflexivity|]. split; [exact Hp'|]. split; [exact Hm'|]. split; [exact W'|].
    exact HR.
  - rewrite SetPrec_special by (cbn [with_mode dform]; first [discriminate|lia]).
    cbn [with_mode mant exp dmode dform neg]. eexists. split; [reflexivity|]. cbn [prec dmode].
    split; [reflexivity|]. split; [reflexivity|]. split; [|reflexivity].
    apply WF_nonfinite; cbn [dform prec]; [discriminate|lia].
Qed.
