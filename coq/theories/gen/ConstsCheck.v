(* gen/ConstsCheck.v — hand-written (NOT generated).  The literals used by the
   hand-written model must equal the constants that tools/go2coq extracts from
   the Go source on every check; a change of a constant in the Go source
   therefore breaks one of these proof obligations. *)
From Coq Require Import ZArith List.
From Dec Require Import Base.Words L3.Decimal L1.U64 L1.X86 gen.Consts gen.Tables gen.AsmProgs.
Import ListNotations.
Open Scope Z_scope.

Lemma chk_W : c_W = 64.  Proof. reflexivity. Qed.
Lemma chk_W64 : W64 = 2 ^ c_W.  Proof. reflexivity. Qed.
Lemma chk_DB : Base.Words.B = c_DB.  Proof. reflexivity. Qed.
Lemma chk_DW : Base.Words.DW = c_DW.  Proof. reflexivity. Qed.
Lemma chk_DB_pow : c_DB = 10 ^ c_DW.  Proof. reflexivity. Qed.
Lemma chk_DMax : c_DMax = Base.Words.B - 1.  Proof. reflexivity. Qed.
Lemma chk_DWb : c_DWb = Z.log2 c_DB + 1.  Proof. reflexivity. Qed.
Lemma chk_MaxExp : L3.Decimal.MaxExp = c_MaxExp.  Proof. reflexivity. Qed.
Lemma chk_MinExp : L3.Decimal.MinExp = c_MinExp.  Proof. reflexivity. Qed.
Lemma chk_MaxPrec : L3.Decimal.MaxPrec = c_MaxPrec.  Proof. reflexivity. Qed.
Lemma chk_DefaultDecimalPrec : L3.Decimal.DefaultDecimalPrec = c_DefaultDecimalPrec.  Proof. reflexivity. Qed.

(* numeric order of the enumerations *)
Lemma chk_form : map form_num [Fzero; Ffinite; Finf] = [c_zero; c_finite; c_inf].
Proof. reflexivity. Qed.
Lemma chk_mode :
  map mode_num [ToNearestEven; ToNearestAway; ToZero; AwayFromZero; ToNegativeInf; ToPositiveInf]
  = [c_ToNearestEven; c_ToNearestAway; c_ToZero; c_AwayFromZero; c_ToNegativeInf; c_ToPositiveInf].
Proof. reflexivity. Qed.
Lemma chk_acc : map acc_num [Below; Exact; Above] = [c_Below; c_Exact; c_Above].
Proof. reflexivity. Qed.

(* div10W_g: N = l = 64 (so n2 = n1, n10 = n0), d = dNorm = _DB, and m' is
   floor((2^128 - 1) / d) - 2^64 *)
Lemma chk_div10W_N : c_div10W_N = c_W.  Proof. reflexivity. Qed.
Lemma chk_div10W_l : c_l = c_div10W_N.  Proof. reflexivity. Qed.
Lemma chk_div10W_d : c_div10W_d = c_DB.  Proof. reflexivity. Qed.
Lemma chk_div10W_dNorm : c_dNorm = c_DB.  Proof. reflexivity. Qed.
Lemma chk_div10W_mP : c_mP = (2 ^ 128 - 1) / c_DB - 2 ^ 64.  Proof. vm_compute. reflexivity. Qed.

(* tables *)
Lemma chk_pow10tab : pow10tab = map (fun k => 10 ^ Z.of_nat k) (seq 0 20).
Proof. vm_compute. reflexivity. Qed.
Lemma chk_pow10DivTab64_len : length pow10DivTab64 = 18%nat.  Proof. reflexivity. Qed.
Lemma chk_pow10DivTab64_d :
  map (fun r => match r with (d, _, _, _) => d end) pow10DivTab64 = map (fun k => 10 ^ Z.of_nat k) (seq 1 18).
Proof. vm_compute. reflexivity. Qed.
(* the layout the assembly relies on: 24-byte rows, d at +0, m at +8, pre at +16, post at +17 *)
Lemma chk_magic_layout : magic_size = 24 /\ magic_offsets = [0; 8; 16; 17].
Proof. split; reflexivity. Qed.

(* the assembly's own copies of the constants (immediates in the generated
   programs) agree with the Go constants *)
Lemma chk_asm_mP_DB :
  nth_error prog_div10W 6 = Some (MOVQ (Imm c_mP) (Reg CX)) /\
  nth_error prog_div10W 8 = Some (MOVQ (Imm c_DB) (Reg CX)).
Proof. split; reflexivity. Qed.
