(* Conc/Pool.v — ownership discipline of the scratch-buffer pool (dec.go:
   getDec/putDec around divLarge, divBasic, mul, sqr, decBasicSqr,
   divRecursive).  Threads take a buffer (an existing one from the pool or a
   fresh allocation), use it, and put it back.  For every interleaving of any
   number of threads whose own traces only put back buffers they hold, no
   buffer is ever held by two threads, and a held buffer is never in the pool.
   The Go memory model, sync.Pool internals and the garbage collector are not
   modelled (see DESIGN.md, C18). *)
From Coq Require Import List Arith Lia Bool Permutation.
Import ListNotations.

Definition buf := nat.
Definition tid := nat.

Record pstate := mkP {
  pool : list buf;                  (* buffers available in the pool *)
  held : list (tid * buf);          (* buffers currently held by threads *)
  next : buf                        (* next fresh buffer identity *)
}.

Inductive pstep : pstate -> pstate -> Prop :=
| get_pooled t b l r h n :          (* Get returns a pooled buffer (any one) *)
    pstep (mkP (l ++ b :: r) h n) (mkP (l ++ r) ((t, b) :: h) n)
| get_fresh t p h n :               (* the pool had nothing (or the GC emptied it): allocate *)
    pstep (mkP p h n) (mkP p ((t, n) :: h) (S n))
| put t b p hl hr n :               (* a thread puts back a buffer it holds *)
    pstep (mkP p (hl ++ (t, b) :: hr) n) (mkP (b :: p) (hl ++ hr) n)
| gc_drop l b r h n :               (* the garbage collector drops a pooled buffer *)
    pstep (mkP (l ++ b :: r) h n) (mkP (l ++ r) h n).

Inductive reach : pstate -> Prop :=
| reach0 : reach (mkP [] [] 0)
| reachS s s' : reach s -> pstep s s' -> reach s'.

(* all buffer identities in play are distinct and below `next` *)
Definition bufs (s : pstate) : list buf := pool s ++ map snd (held s).
Definition Inv (s : pstate) : Prop := NoDup (bufs s) /\ Forall (fun b => b < next s) (bufs s).

Lemma perm_inv l l' n : Permutation l l' -> NoDup l /\ Forall (fun b => b < n) l ->
  NoDup l' /\ Forall (fun b => b < n) l'.
Proof.
  intros P [H1 H2]. split; [eapply Permutation_NoDup; eassumption|eapply Permutation_Forall; eassumption].
Qed.

Theorem inv_step s s' : Inv s -> pstep s s' -> Inv s'.
Proof.
  intros HI Hst. destruct Hst; unfold Inv, bufs in *; cbn [pool held next map snd] in *.
  - (* get pooled: the buffer moves from the pool to the holder *)
    apply (perm_inv ((l ++ b :: r) ++ map snd h) _ n); [|exact HI].
    rewrite <- !app_assoc. cbn [app]. apply Permutation_app_head.
    apply Permutation_middle.
  - (* fresh allocation *)
    destruct HI as [Hnd Hlt].
    assert (Hfresh : ~ In n (p ++ map snd h)).
    { intros Hin. rewrite Forall_forall in Hlt. specialize (Hlt n Hin). lia. }
    apply (perm_inv (n :: p ++ map snd h) _ (S n)); [apply Permutation_middle|].
    split; [constructor; assumption|]. constructor; [lia|]. eapply Forall_impl; [|exact Hlt]. cbn. intros; lia.
  - (* put *)
    apply (perm_inv (p ++ map snd (hl ++ (t, b) :: hr)) _ n); [|exact HI].
    rewrite !map_app. cbn [map snd app].
    apply Permutation_trans with (b :: p ++ map snd hl ++ map snd hr); [|apply Permutation_refl].
    apply Permutation_sym.
    apply Permutation_trans with (p ++ b :: map snd hl ++ map snd hr); [apply Permutation_middle|].
    apply Permutation_app_head. apply Permutation_middle.
  - (* the collector drops a pooled buffer *)
    destruct HI as [Hnd Hlt].
    assert (P : Permutation ((l ++ b :: r) ++ map snd h) (b :: (l ++ r) ++ map snd h)).
    { rewrite <- !app_assoc. cbn [app]. apply Permutation_sym. apply Permutation_middle. }
    destruct (perm_inv _ _ n P (conj Hnd Hlt)) as [H1 H2]. inversion H1; inversion H2; subst. split; assumption.
Qed.

Theorem inv_reach s : reach s -> Inv s.
Proof.
  induction 1 as [|s s' _ IH Hst].
  - split; constructor.
  - exact (inv_step s s' IH Hst).
Qed.

(* the property: in every reachable state (any number of threads, any
   interleaving, any GC activity) a buffer is held at most once, and never
   while it is in the pool *)
Theorem exclusive_ownership s : reach s ->
  NoDup (map snd (held s)) /\ forall t b, In (t, b) (held s) -> ~ In b (pool s).
Proof.
  intros Hr. destruct (inv_reach s Hr) as [Hnd _]. unfold bufs in Hnd. split.
  - clear Hr. induction (pool s) as [|a p IHp]; [exact Hnd|]. cbn [app] in Hnd. inversion Hnd; subst. apply IHp. assumption.
  - intros t b Hin Hp.
    assert (Hb : In b (map snd (held s))) by (apply in_map_iff; exists (t, b); auto).
    clear Hin. induction (pool s) as [|a p IHp]; [contradiction|].
    cbn [app] in Hnd. inversion Hnd; subst. destruct Hp as [->|Hp].
    + apply H1. apply in_or_app. right. exact Hb.
    + exact (IHp H2 Hp).
Qed.

Corollary no_two_holders s t1 t2 b : reach s -> In (t1, b) (held s) -> In (t2, b) (held s) -> t1 = t2.
Proof.
  intros Hr H1 H2. destruct (exclusive_ownership s Hr) as [Hnd _].
  revert H1 H2 Hnd. induction (held s) as [|[t b'] h IH]; [contradiction|].
  cbn [map snd]. intros [E1|H1] [E2|H2] Hnd; inversion Hnd as [|? ? Hni Hnd']; subst.
  - congruence.
  - injection E1 as -> ->. exfalso. apply Hni. apply in_map_iff. exists (t2, b). auto.
  - injection E2 as -> ->. exfalso. apply Hni. apply in_map_iff. exists (t1, b). auto.
  - apply IH; assumption.
Qed.
