(* L2/DivRecProofs.v — divRecursiveStep / divRecursive (Burnikel-Ziegler) compute
   the exact quotient and remainder for every size, every divRecursiveThreshold
   >= 4, every decKaratsubaThreshold >= 1 and every contents of recycled
   buffers; dec.div for every divisor length. *)
From Coq Require Import ZArith List Bool Lia.
From Dec Require Import Base.Words Base.WordsProofs L2.KernV L2.KernVProofs L2.Nat L2.NatProofs
  L2.Mul L2.MulProofs L2.Div L2.DivProofs L2.DivRecLemmas gen.Consts.
Import ListNotations.
Open Scope Z_scope.

(* ---- arithmetic helpers ---------------------------------------------------- *)

Lemma qbound q Vh X Y : 0 <= q -> 0 < X -> X <= 2 * Vh -> q * Vh < Y * X -> q < 2 * Y.
Proof. intros. nia. Qed.

Lemma Bp_ge2 k : (1 <= k)%nat -> 2 <= Bp k.
Proof.
  intros H. pose proof (Bp_le 1 k H) as H1. change (Bp 1) with (B ^ 1) in H1. rewrite Z.pow_1_r in H1.
  pose proof B_gt1. lia.
Qed.

Lemma prod_lt_3 q Vl X P D : 0 <= q < 2 * X -> 0 <= Vl < P -> 0 < X -> 2 <= D -> q * Vl < X * P * D.
Proof.
  intros Hq HV HX HD. assert (q * Vl <= q * P) by nia. assert (q * P < 2 * X * P) by nia.
  assert (2 * (X * P) <= D * (X * P)) by (apply Z.mul_le_mono_nonneg_r; nia). lia.
Qed.

Lemma half_nat n : (2 <= n)%nat -> (1 <= n / 2 /\ 2 * (n / 2) <= n /\ n <= 2 * (n / 2) + 1)%nat.
Proof.
  intros H. pose proof (Nat.div_mod n 2 ltac:(lia)). pose proof (Nat.mod_upper_bound n 2 ltac:(lia)). lia.
Qed.

(* ---- one division-with-correction step (a block, or the final step) ------- *)

(* uu = lo ++ W ++ hi with len lo = s = n/2 - 1 and hi zero; the recursive call
   divided W by v[s:] giving q̂ and W'.  After at most two corrections q̂ is the
   quotient of uu by v and the subtraction leaves the remainder. *)
Lemma step_core thrK junk v lo W hi qhat W' :
  let n := length v in
  let Bk := (n / 2)%nat in
  let s := (Bk - 1)%nat in
  1 <= thrK -> (4 <= n)%nat -> words_ok v = true -> B <= 2 * nthw v (n - 1) ->
  words_ok lo = true -> words_ok W = true -> words_ok hi = true ->
  length lo = s -> val hi = 0 -> val W < Bp (S n) -> (n <= length (lo ++ W ++ hi))%nat ->
  words_ok qhat = true -> words_ok W' = true -> length W' = length W ->
  val W = val qhat * val (skipn s v) + val W' -> 0 <= val W' < val (skipn s v) ->
  exists qh qhv uu uu',
    adj1 v s (adj1 v s (norm qhat, mul thrK junk (norm qhat) (firstn s v), lo ++ W' ++ hi)) = (qh, qhv, uu) /\
    (0 <? nat_cmp qhv (norm uu)) = false /\
    rec_subtract uu qhv = (uu', 0) /\
    words_ok qh = true /\ length qh = length (norm qhat) /\ 0 <= val qh < 2 * Bp Bk /\
    words_ok uu' = true /\ length uu' = length (lo ++ W ++ hi) /\
    val (lo ++ W ++ hi) = val qh * val v + val uu' /\ 0 <= val uu' < val v.
Proof.
  intros n Bk s HthrK Hn Ov Htop Olo OW Ohi Llo Vhi BW HLu Oq OW' LW' EW BW'.
  destruct (half_nat n ltac:(lia)) as (HBk1 & HBk2 & HBk3). fold Bk in HBk1, HBk2, HBk3.
  assert (Es : s = (Bk - 1)%nat) by reflexivity.
  assert (Ln : length v = n) by reflexivity.
  clearbody s. clearbody Bk. clearbody n.
  assert (Hs : (s <= n)%nat) by (clear - Es HBk2; lia).
  assert (Hns : (S Bk <= n - s)%nat) by (clear - Es HBk1 HBk2; lia).
  assert (Hns2 : (Bk + (n - s) = S n)%nat) by (clear - Es HBk1 HBk2; lia).
  assert (Hns3 : (1 <= n - Bk - s)%nat) by (clear - Es HBk1 HBk2; lia).
  assert (Hns4 : (Bk + s + (n - Bk - s) = n)%nat) by (clear - Es HBk1 HBk2; lia).
  assert (Hns5 : (s + (n - s - 1) = n - 1)%nat) by (clear - Es HBk1 HBk2; lia).
  assert (Hns6 : (1 <= n - s)%nat) by (clear - Hns; lia).
  assert (Hns7 : (s + (n - s) = n)%nat) by (clear - Hs; lia).
  set (Vh := val (skipn s v)) in *. set (Vl := val (firstn s v)).
  set (P := Bp s). set (q := val qhat).
  assert (OVl : words_ok (firstn s v) = true) by now apply words_ok_firstn.
  assert (OVh : words_ok (skipn s v) = true) by now apply words_ok_skipn.
  assert (LVl : length (firstn s v) = s) by (rewrite firstn_length, Ln; clear - Hs; lia).
  assert (LVh : length (skipn s v) = (n - s)%nat) by (rewrite skipn_length, Ln; reflexivity).
  pose proof (val_bounds' _ OVl) as BVl. rewrite LVl in BVl. fold Vl P in BVl.
  pose proof (val_split s v ltac:(rewrite Ln; exact Hs)) as Vv. fold Vl Vh P in Vv.
  assert (HP : 0 < P) by apply Bp_pos.
  (* 2·Vh >= B^(n-s) *)
  assert (HVh : Bp (n - s) <= 2 * Vh).
  { apply (val_top_half (skipn s v) (n - s) LVh Hns6 OVh).
    rewrite nthw_skipn. rewrite Hns5. assumption. }
  pose proof (Bp_pos (n - s)) as Hpns.
  assert (HVh0 : 0 < Vh) by (clear - HVh Hpns; lia).
  pose proof (val_nonneg qhat Oq) as Hq0. fold q in Hq0, EW.
  pose proof (val_nonneg W' OW') as HW'0.
  (* q̂ < 2·B^Bk *)
  assert (Hq2 : q < 2 * Bp Bk).
  { apply (qbound q Vh (Bp (n - s)) (Bp Bk) Hq0 Hpns HVh).
    rewrite <- Bp_add. rewrite Hns2. clear - EW BW HW'0. lia. }
  (* q̂ <= 2·Vh *)
  assert (Hq3 : q <= 2 * Vh + 2).
  { pose proof (Bp_le (S Bk) (n - s) Hns) as Hle. rewrite Bp_S in Hle.
    pose proof (Bp_pos Bk). pose proof B_gt1. clear - Hle Hq2 HVh H H0. nia. }
  set (U := val (lo ++ W ++ hi)).
  assert (EU : U = val W * P + val lo).
  { unfold U. rewrite val3, Vhi, Llo. fold P. ring. }
  pose proof (val_bounds' lo Olo) as Blo. rewrite Llo in Blo. fold P in Blo.
  assert (Hup : U < (q + 1) * val v).
  { rewrite EU, Vv. replace (Vl + P * Vh) with (Vh * P + Vl) by ring.
    apply (est_upper (val W) (val lo) Vh Vl P q (val W')); try assumption.
    clear - BVl; lia. }
  assert (Hlo : (q - 2) * val v <= U).
  { rewrite EU, Vv. replace (Vl + P * Vh) with (Vh * P + Vl) by ring.
    apply (est_lower (val W) (val lo) Vh Vl P q (val W')); try assumption.
    clear - Blo; lia. }
  (* the product q̂·v[:s] *)
  set (qn := norm qhat).
  assert (Oqn : words_ok qn = true) by now apply words_ok_norm.
  assert (Vqn : val qn = q) by apply val_norm.
  set (qv := mul thrK junk qn (firstn s v)).
  assert (Eqv : qv = of_Z (q * Vl)).
  { unfold qv. rewrite mul_spec by assumption. unfold dec_mul. now rewrite Vqn. }
  assert (Hqvl0 : 0 <= q * Vl) by (clear - Hq0 BVl; nia).
  assert (Oqv : words_ok qv = true) by (rewrite Eqv; apply words_ok_of_Z).
  assert (Nqv : norm qv = qv) by (rewrite Eqv; apply of_Z_norm).
  assert (Vqv : val qv = q * Vl) by (rewrite Eqv; now apply val_of_Z).
  assert (Lqv : (length qv <= n)%nat).
  { apply norm_length_le; try assumption. rewrite Vqv.
    assert (Bp n = Bp Bk * P * Bp (n - Bk - s)) as ->.
    { unfold P. rewrite <- !Bp_add. rewrite Hns4. reflexivity. }
    pose proof (Bp_pos Bk) as HpBk.
    pose proof (Bp_ge2 (n - Bk - s) Hns3) as HD.
    apply prod_lt_3; [split|assumption|assumption|assumption]; assumption. }
  set (uu1 := lo ++ W' ++ hi).
  assert (Luu1 : length uu1 = length (lo ++ W ++ hi)) by (unfold uu1; rewrite !app_length, LW'; reflexivity).
  set (Lu := length (lo ++ W ++ hi)) in *.
  assert (Ouu1 : words_ok uu1 = true).
  { unfold uu1. apply words_ok_app; split; [assumption|]. apply words_ok_app; now split. }
  assert (Vuu1 : val uu1 = val W' * P + val lo).
  { unfold uu1. rewrite val3, Vhi, Llo. fold P. ring. }
  assert (Hinv : cinv v s U (length qn) (length qv) Lu (qn, qv, uu1)).
  { unfold cinv. repeat split; try assumption; try reflexivity.
    - fold Vl. rewrite Vqv, Vqn. reflexivity.
    - fold Vh P. rewrite Vuu1, Vqn, EU, EW. ring.
    - left; assumption. }
  assert (HUlt : U < Bp Lu).
  { unfold U, Lu. apply val_bounds'. apply words_ok_app; split; [assumption|]. apply words_ok_app; now split. }
  assert (Hbig : Bp (length v) <= B * (Bp s * val (skipn s v))).
  { rewrite Ln. fold Vh P. assert (Bp n = P * Bp (n - s)) as -> by (unfold P; rewrite <- Bp_add, Hns7; reflexivity).
    pose proof B_gt1. assert (Bp (n - s) <= B * Vh) by (clear - Hpns HVh H; nia).
    replace (B * (P * Vh)) with (P * (B * Vh)) by ring.
    apply Z.mul_le_mono_nonneg_l; [clear - HP; lia | assumption]. }
  rewrite <- Ln in Hs, HLu, Lqv.
  destruct (corr_spec v s U (length qn) (length qv) Lu (qn, qv, uu1) Ov Hs HLu Lqv HUlt Hbig Hinv)
    as (qh & qhv & uu & uu' & E2 & Ecmp & Esub & Oqh & Lqh & Ouu' & Luu' & Bqh & Vuu' & Buu').
  { unfold cq. cbn [fst]. rewrite Vqn. assumption. }
  { unfold cq. cbn [fst]. rewrite Vqn. assumption. }
  unfold cq in Bqh. cbn [fst] in Bqh. rewrite Vqn in Bqh.
  exists qh, qhv, uu, uu'. split; [assumption|]. split; [assumption|]. split; [assumption|].
  pose proof (val_nonneg qh Oqh) as Hqh0.
  repeat split; try assumption; try (clear - Hqh0 Bqh Hq2; lia); try (clear - Vuu'; lia);
    clear - Buu'; lia.
Qed.

(* ---- the two shapes of the correction loop -------------------------------- *)

Lemma blocks_style_eq v s (q qv u : list Z) :
  (if nat_cmp qv (norm u) <=? 0 then (q, qv, u)
   else let '(q', qv', u') := rec_adjust q qv u v s in
        if nat_cmp qv' (norm u') <=? 0 then (q', qv', u') else rec_adjust q' qv' u' v s)
  = adj1 v s (adj1 v s (q, qv, u)).
Proof.
  unfold adj1 at 2. rewrite leb0_ltb0. destruct (0 <? nat_cmp qv (norm u)) eqn:E; cbn [negb].
  - destruct (rec_adjust q qv u v s) as [[q' qv'] u']. unfold adj1. rewrite leb0_ltb0.
    destruct (0 <? nat_cmp qv' (norm u')); reflexivity.
  - unfold adj1. rewrite E. reflexivity.
Qed.

Lemma rec_blocks_done rec thrK junk qlen Bk n v fuel j z un temps : (j <= Bk)%nat ->
  rec_blocks rec thrK junk qlen Bk n v fuel j z un temps = Some (z, un, temps).
Proof.
  intros H. apply Nat.ltb_ge in H. destruct fuel; cbn [rec_blocks]; rewrite H; reflexivity.
Qed.

Lemma rec_blocks_S rec thrK junk qlen Bk n v f j z un temps : (Bk < j)%nat ->
  rec_blocks rec thrK junk qlen Bk n v (S f) j z un temps =
  let s := (Bk - 1)%nat in
  let uu := skipn (j - Bk) un in
  match rec temps (repeat 0 qlen) (win uu s (Bk + n - s)) (skipn s v) with
  | None => None
  | Some (qhat, w, temps) =>
      let '(qh, qhv, uu2) :=
        adj1 v s (adj1 v s (norm qhat, mul thrK junk (norm qhat) (firstn s v), splice uu s w)) in
      if 0 <? nat_cmp qhv (norm uu2) then None
      else let (uu3, _) := rec_subtract uu2 qhv in
           rec_blocks rec thrK junk qlen Bk n v f (j - Bk) (decAddAt z qh (j - Bk))
             (firstn (j - Bk) un ++ uu3) temps
  end.
Proof.
  intros H. apply Nat.ltb_lt in H. cbn [rec_blocks]. rewrite H. cbv zeta.
  destruct (rec temps (repeat 0 qlen) (win (skipn (j - Bk) un) (Bk - 1) (Bk + n - (Bk - 1))) (skipn (Bk - 1) v))
    as [[[qhat w] t]|]; [|reflexivity].
  rewrite blocks_style_eq. reflexivity.
Qed.

Lemma step_core' thrK junk v lo W hi qhat W' n Bk s :
  length v = n -> Bk = (n / 2)%nat -> s = (Bk - 1)%nat ->
  1 <= thrK -> (4 <= n)%nat -> words_ok v = true -> B <= 2 * nthw v (n - 1) ->
  words_ok lo = true -> words_ok W = true -> words_ok hi = true ->
  length lo = s -> val hi = 0 -> val W < Bp (S n) -> (n <= length (lo ++ W ++ hi))%nat ->
  words_ok qhat = true -> words_ok W' = true -> length W' = length W ->
  val W = val qhat * val (skipn s v) + val W' -> 0 <= val W' < val (skipn s v) ->
  exists qh qhv uu uu',
    adj1 v s (adj1 v s (norm qhat, mul thrK junk (norm qhat) (firstn s v), lo ++ W' ++ hi)) = (qh, qhv, uu) /\
    (0 <? nat_cmp qhv (norm uu)) = false /\
    rec_subtract uu qhv = (uu', 0) /\
    words_ok qh = true /\ length qh = length (norm qhat) /\ 0 <= val qh < 2 * Bp Bk /\
    words_ok uu' = true /\ length uu' = length (lo ++ W ++ hi) /\
    val (lo ++ W ++ hi) = val qh * val v + val uu' /\ 0 <= val uu' < val v.
Proof. intros Ln EBk Es. subst s Bk n. apply step_core. Qed.

(* ---- the specification of a recursive call --------------------------------- *)

(* what divRecursiveStep guarantees: for a zeroed quotient buffer z long enough
   for the quotient, a divisor of 2..nmax words whose top word is >= B/2 *)
Definition rec_ok (rec : list bool -> list Z -> list Z -> list Z -> option rstate) (Lt nmax : nat) : Prop :=
  forall temps z u v,
    length temps = Lt -> (2 <= length v <= nmax)%nat ->
    z = repeat 0 (length z) -> words_ok u = true -> words_ok v = true ->
    B <= 2 * nthw v (length v - 1) -> val u < val v * Bp (length z) ->
    exists q u' temps', rec temps z u v = Some (q, u', temps') /\
      length temps' = Lt /\ length q = length z /\ length u' = length u /\
      words_ok q = true /\ words_ok u' = true /\
      val u = val q * val v + val u' /\ 0 <= val u' < val v.

Lemma rem_bound un j n Bk : words_ok un = true -> (j <= length un)%nat -> (j <= Bk)%nat ->
  val (skipn j un) < Bp n -> val un < Bp (n + Bk).
Proof.
  intros Ou Hj HjB H. rewrite (val_split j un Hj).
  pose proof (val_bounds' _ (words_ok_firstn j un Ou)) as Bf. rewrite firstn_length, Nat.min_l in Bf by assumption.
  pose proof (Bp_pos j). pose proof (Bp_le (j + n) (n + Bk) ltac:(lia)) as Hle. rewrite Bp_add in Hle.
  pose proof (val_nonneg _ (words_ok_skipn j un Ou)). nia.
Qed.

(* the window handed to the recursive call is below Vh·B^qlen *)
Lemma window_fits W Vh X n Bk qlen : val W < Bp (S n) -> X <= 2 * Vh -> B * Bp (S n) <= X * Bp (S Bk) ->
  (S Bk <= qlen)%nat -> 0 <= Vh -> val W < Vh * Bp qlen.
Proof.
  intros HW HX HB Hq HV. pose proof (Bp_le (S Bk) qlen Hq) as Hle. pose proof (Bp_pos (S Bk)).
  pose proof (Bp_pos (S n)). pose proof B_gt1.
  assert (X * Bp (S Bk) <= 2 * Vh * Bp (S Bk)) by (apply Z.mul_le_mono_nonneg_r; lia).
  assert (Vh * Bp (S Bk) <= Vh * Bp qlen) by (apply Z.mul_le_mono_nonneg_l; lia).
  nia.
Qed.

(* exactness of the accumulated quotient: z + q̂·B^i stays below B^len(z) *)
Lemma quot_fits zv q Pi V U0 un un' Lzp : 0 < V -> 0 <= un' -> U0 = zv * V + un ->
  un' = un - Pi * (q * V) -> U0 < V * Lzp -> zv + Pi * q < Lzp.
Proof. intros. nia. Qed.

(* ---- the loop over the blocks ------------------------------------------------ *)

Lemma rec_blocks_spec rec thrK junk qlen Lt nmax v n Bk Lz U0 N :
  length v = n -> Bk = (n / 2)%nat ->
  1 <= thrK -> (4 <= n)%nat -> words_ok v = true -> B <= 2 * nthw v (n - 1) ->
  rec_ok rec Lt nmax -> (n - Bk + 1 <= nmax)%nat -> (S Bk <= qlen)%nat ->
  U0 < val v * Bp Lz ->
  forall fuel j z un temps,
    (j <= fuel)%nat -> length temps = Lt -> length z = Lz -> words_ok z = true ->
    length un = N -> words_ok un = true -> (j + n <= N)%nat -> (j <= Lz)%nat ->
    U0 = val z * val v + val un -> val (skipn j un) < Bp n ->
    exists z' un' temps',
      rec_blocks rec thrK junk qlen Bk n v fuel j z un temps = Some (z', un', temps') /\
      length temps' = Lt /\ length z' = Lz /\ words_ok z' = true /\
      length un' = N /\ words_ok un' = true /\
      U0 = val z' * val v + val un' /\ val un' < Bp (n + Bk).
Proof.
  intros Ln EBk HthrK Hn Ov Htop Hrec Hnmax Hqlen HU0.
  destruct (half_nat n ltac:(lia)) as (HBk1 & HBk2 & HBk3). rewrite <- EBk in HBk1, HBk2, HBk3.
  set (s := (Bk - 1)%nat). assert (Es : s = (Bk - 1)%nat) by reflexivity. clearbody s.
  assert (Hs : (s <= n)%nat) by (clear - Es HBk2; lia).
  assert (Hns : (Bk + n - s = S n)%nat) by (clear - Es HBk1 HBk2; lia).
  assert (Hns5 : (s + (n - s - 1) = n - 1)%nat) by (clear - Es HBk1 HBk2; lia).
  assert (Hns6 : (1 <= n - s)%nat) by (clear - Es HBk1 HBk2; lia).
  assert (OVh : words_ok (skipn s v) = true) by now apply words_ok_skipn.
  assert (LVh : length (skipn s v) = (n - s)%nat) by (rewrite skipn_length, Ln; reflexivity).
  assert (HVh : Bp (n - s) <= 2 * val (skipn s v)).
  { apply (val_top_half (skipn s v) (n - s) LVh Hns6 OVh). rewrite nthw_skipn, Hns5. assumption. }
  assert (HtopH : B <= 2 * nthw (skipn s v) (length (skipn s v) - 1)).
  { rewrite LVh, nthw_skipn, Hns5. assumption. }
  pose proof (val_nonneg _ OVh) as HVh0.
  pose proof (val_bounds' v Ov) as BV. rewrite Ln in BV.
  assert (HVpos : 0 < val v).
  { pose proof (val_top_half v n Ln ltac:(clear - Hn; lia) Ov Htop). pose proof (Bp_pos n). lia. }
  induction fuel as [|f IH]; intros j z un temps Hj Lt' Lz' Oz LN Oun HjN HjLz Hacc Hrem.
  - rewrite rec_blocks_done by (clear - Hj; lia). exists z, un, temps.
    repeat split; try assumption. apply (rem_bound un j n Bk); try assumption; clear - Hj HjN LN; lia.
  - destruct (Nat.le_gt_cases j Bk) as [Hle|Hgt].
    + rewrite rec_blocks_done by assumption. exists z, un, temps.
      repeat split; try assumption. apply (rem_bound un j n Bk); try assumption. clear - HjN LN; lia.
    + rewrite rec_blocks_S by assumption. cbv zeta. rewrite <- Es. rewrite Hns.
      set (uu := skipn (j - Bk) un).
      assert (Luu : length uu = (N - (j - Bk))%nat) by (unfold uu; rewrite skipn_length, LN; reflexivity).
      assert (Ouu : words_ok uu = true) by (unfold uu; now apply words_ok_skipn).
      assert (HsW : (s + S n <= length uu)%nat) by (rewrite Luu; clear - Es HBk1 HjN Hgt; lia).
      set (W := win uu s (S n)).
      assert (LW : length W = S n) by (unfold W; now apply length_win).
      assert (OW : words_ok W = true) by (unfold W; now apply words_ok_win).
      pose proof (val_bounds' W OW) as BW. rewrite LW in BW.
      (* the recursive call *)
      destruct (Hrec temps (repeat 0 qlen) W (skipn s v)) as (qhat & W' & temps1 & Erec & Lt1 & Lqh & LW' & Oqh & OW' & EW & BW').
      { assumption. } { rewrite LVh. clear - Es HBk1 HBk2 Hnmax. lia. }
      { now rewrite repeat_length. } { assumption. } { assumption. } { assumption. }
      { rewrite repeat_length. apply (window_fits W _ (Bp (n - s)) n Bk qlen); try assumption; [lia|].
        rewrite <- Bp_S, <- Bp_add. apply Bp_le. clear - Es HBk1 HBk2. lia. }
      rewrite Erec.
      (* uu = lo ++ W ++ hi *)
      set (lo := firstn s uu). set (hi := skipn (s + S n) uu).
      assert (Euu : uu = lo ++ W ++ hi) by apply split3.
      assert (Esp : splice uu s W' = lo ++ W' ++ hi) by (unfold splice; rewrite LW', LW; reflexivity).
      rewrite Esp.
      assert (Vhi : val hi = 0).
      { unfold hi, uu. rewrite skipn_skipn'. replace (j - Bk + (s + S n))%nat with (j + n)%nat by (clear - Es HBk1 Hgt; lia).
        rewrite <- skipn_skipn'. apply val_zero_tail; [now apply words_ok_skipn | assumption]. }
      destruct (step_core' thrK junk v lo W hi qhat W' n Bk s Ln EBk Es HthrK Hn Ov Htop)
        as (qh & qhv & uu2 & uu3 & E2 & Ecmp & Esub & Oq & Lq & Bq & Ou3 & Lu3 & Vu3 & Bu3);
        try assumption.
      { unfold lo. now apply words_ok_firstn. } { unfold hi. now apply words_ok_skipn. }
      { unfold lo. rewrite firstn_length. clear - HsW. lia. } { clear - BW; lia. }
      { rewrite <- Euu, Luu. clear - HjN Hgt. lia. }
      rewrite E2, Ecmp, Esub. rewrite <- Euu in Lu3, Vu3.
      (* the new state *)
      set (i := (j - Bk)%nat) in *.
      assert (Hi : (i <= length un)%nat) by (rewrite LN; unfold i; clear - HjN; lia).
      pose proof (val_split i un Hi) as Vun. fold uu in Vun.
      assert (Lfi : length (firstn i un) = i) by (rewrite firstn_length; clear - Hi; lia).
      set (un' := firstn i un ++ uu3).
      assert (Vun' : val un' = val un - Bp i * (val qh * val v)).
      { unfold un'. rewrite val_app', Lfi, Vun, Vu3. ring. }
      assert (Oun' : words_ok un' = true).
      { unfold un'. apply words_ok_app. split; [now apply words_ok_firstn | assumption]. }
      pose proof (val_nonneg un' Oun') as Hun'0.
      destruct (decAddAt_exact_gen z qh i Oz Oq) as (Lz1 & Oz1 & Vz1).
      { rewrite Lz'. unfold i. clear - HjLz. lia. }
      { rewrite Lz'. apply (quot_fits (val z) (val qh) (Bp i) (val v) U0 (val un) (val un') (Bp Lz)); assumption. }
      apply (IH i (decAddAt z qh i) un' temps1); try assumption.
      * unfold i. clear - Hj HBk1 Hgt. lia.
      * now rewrite Lz1.
      * unfold un'. rewrite app_length, Lfi, Lu3, Luu. unfold i. clear - HjN Hgt. lia.
      * unfold i. clear - HjN. lia.
      * unfold i. clear - HjLz. lia.
      * rewrite Vz1, Vun', Hacc. ring.
      * unfold un'. rewrite skipn_app_exact by (symmetry; exact Lfi). clear - Bu3 BV. lia.
Qed.

(* ---- divRecursiveStep -------------------------------------------------------- *)

(* the part of divRecursiveStep after the last recursive call *)
Definition final_tail (thrK junk : Z) (vn : list Z) (s : nat) (z rest : list Z) (temps : list bool)
    (qhat0 w un : list Z) : option rstate :=
  let un := firstn s un ++ w in
  let qhat := norm qhat0 in
  let qhatv := mul thrK junk qhat (firstn s vn) in
  let '(qhat, qhatv, un) :=
    if 0 <? nat_cmp qhatv (norm un) then rec_adjust qhat qhatv un vn s else (qhat, qhatv, un) in
  let '(qhat, qhatv, un) :=
    if 0 <? nat_cmp qhatv (norm un) then rec_adjust qhat qhatv un vn s else (qhat, qhatv, un) in
  if 0 <? nat_cmp qhatv (norm un) then None
  else let (un, c) := rec_subtract un qhatv in
       if 0 <? c then None else Some (decAddAt z (norm qhat) 0, un ++ rest, temps).

Lemma final_tail_eq thrK junk vn s z rest temps qhat0 w un :
  final_tail thrK junk vn s z rest temps qhat0 w un =
  let '(qh, qhv, un2) :=
    adj1 vn s (adj1 vn s (norm qhat0, mul thrK junk (norm qhat0) (firstn s vn), firstn s un ++ w)) in
  if 0 <? nat_cmp qhv (norm un2) then None
  else let (un3, c) := rec_subtract un2 qhv in
       if 0 <? c then None else Some (decAddAt z (norm qh) 0, un3 ++ rest, temps).
Proof.
  unfold final_tail. cbv zeta.
  change (if 0 <? nat_cmp (mul thrK junk (norm qhat0) (firstn s vn)) (norm (firstn s un ++ w))
          then rec_adjust (norm qhat0) (mul thrK junk (norm qhat0) (firstn s vn)) (firstn s un ++ w) vn s
          else (norm qhat0, mul thrK junk (norm qhat0) (firstn s vn), firstn s un ++ w))
    with (adj1 vn s (norm qhat0, mul thrK junk (norm qhat0) (firstn s vn), firstn s un ++ w)).
  destruct (adj1 vn s (norm qhat0, mul thrK junk (norm qhat0) (firstn s vn), firstn s un ++ w)) as [[q1 qv1] u1].
  reflexivity.
Qed.

Lemma divRecStep_S f thrD thrK junk depth temps z u v :
  divRecStep (S f) thrD thrK junk depth temps z u v =
  let un := norm u in
  let vn := norm v in
  let rest := skipn (length un) u in
  if (length un =? 0)%nat then Some (clear z, u, temps)
  else
    let n := length vn in
    if Z.of_nat n <? thrD then
      match divBasic z un vn with
      | None => None
      | Some (z', u') => Some (z', u' ++ rest, temps)
      end
    else if (length un <? n)%nat then Some (z, u, temps)
    else
      let m := (length un - n)%nat in
      let Bk := (n / 2)%nat in
      if (length temps <=? depth)%nat then None
      else
        let qlen := if nth depth temps false then S Bk else n in
        let temps := set_nth temps depth true in
        match rec_blocks (divRecStep f thrD thrK junk (S depth)) thrK junk qlen Bk n vn
                (length un) m z un temps with
        | None => None
        | Some (z, un, temps) =>
            let s := (Bk - 1)%nat in
            match divRecStep f thrD thrK junk (S depth) temps (repeat 0 qlen)
                    (skipn s un) (skipn s vn) with
            | None => None
            | Some (qhat, w, temps) => final_tail thrK junk vn s z rest temps qhat w un
            end
        end.
Proof. reflexivity. Qed.

Lemma Bp_lt_inv a b : Bp a < Bp b -> (a < b)%nat.
Proof.
  intros H. destruct (Nat.le_gt_cases b a) as [Hle|]; [|assumption].
  pose proof (Bp_le b a Hle). lia.
Qed.

Lemma length_set_nth {A} (l : list A) i a : (i < length l)%nat -> length (set_nth l i a) = length l.
Proof.
  intros H. unfold set_nth. rewrite app_length, firstn_length. cbn [length]. rewrite skipn_length. lia.
Qed.

Lemma pow2_half (x e : Z) : 4 <= x + 2 -> x <= 2 ^ e -> 1 <= e /\ 2 ^ e = 2 * 2 ^ (e - 1).
Proof.
  intros Hx H. assert (1 <= e).
  { destruct (Z.le_gt_cases 1 e); [assumption|]. exfalso.
    destruct (Z.eq_dec e 0) as [->|]; [change (2 ^ 0) with 1 in H; lia|].
    rewrite Z.pow_neg_r in H by lia. lia. }
  split; [assumption|]. replace e with (Z.succ (e - 1)) at 1 by lia. rewrite Z.pow_succ_r by lia. reflexivity.
Qed.

(* the quotient buffer is long enough for the digits the length of u implies *)
Lemma quot_len un v Lz : words_ok un = true -> norm un = un -> un <> [] -> words_ok v = true ->
  val un < val v * Bp Lz -> (length un - length v <= Lz)%nat.
Proof.
  intros Ou Nu Hne Ov H. pose proof (norm_nonempty_bounds un Ou Nu Hne) as Hlo.
  pose proof (val_bounds' v Ov) as BV. pose proof (Bp_pos Lz).
  assert (Bp (length un - 1) < Bp (length v + Lz)) by (rewrite Bp_add; nia).
  apply Bp_lt_inv in H1. lia.
Qed.

Lemma skip_lt un v m : words_ok un = true -> val un < val v * Bp m -> val (skipn m un) < val v.
Proof.
  intros Ou H. rewrite val_skipn by assumption. apply Z.div_lt_upper_bound; [apply Bp_pos|]. lia.
Qed.

Theorem divRecStep_spec thrD thrK junk : 4 <= thrD -> 1 <= thrK ->
  forall fuel depth temps z u v,
    (length v < fuel)%nat ->
    Z.of_nat (length v) - 2 <= 2 ^ (Z.of_nat (length temps) - Z.of_nat depth) ->
    (2 <= length v)%nat -> z = repeat 0 (length z) ->
    words_ok u = true -> words_ok v = true -> B <= 2 * nthw v (length v - 1) ->
    val u < val v * Bp (length z) ->
    exists q u' temps', divRecStep fuel thrD thrK junk depth temps z u v = Some (q, u', temps') /\
      length temps' = length temps /\ length q = length z /\ length u' = length u /\
      words_ok q = true /\ words_ok u' = true /\
      val u = val q * val v + val u' /\ 0 <= val u' < val v.
Proof.
  intros HthrD HthrK. induction fuel as [|f IH]; intros depth temps z u v Hfuel Hdepth Hn2 Ez Ou Ov Htop Hfit;
    [exfalso; clear - Hfuel; lia|].
  rewrite divRecStep_S. cbv zeta.
  assert (Nv : norm v = v).
  { apply norm_of_top_pos; [clear - Hn2; lia|]. pose proof B_pos. clear - Htop H. lia. }
  rewrite Nv.
  set (n := length v) in *. set (Lz := length z) in *.
  assert (Oz : words_ok z = true) by (rewrite Ez; apply words_ok_repeat0).
  assert (Vz : val z = 0) by (rewrite Ez; apply val_repeat0).
  pose proof (val_bounds' v Ov) as BV. fold n in BV.
  assert (HVpos : 0 < val v).
  { pose proof (val_top_half v n eq_refl ltac:(clear - Hn2; lia) Ov Htop). pose proof (Bp_pos n). lia. }
  set (un := norm u).
  assert (Oun : words_ok un = true) by now apply words_ok_norm.
  assert (Nun : norm un = un) by apply norm_idem.
  assert (Vun : val un = val u) by apply val_norm.
  destruct (norm_skipn u) as [k Erest]. fold un in Erest.
  pose proof (length_norm_le u) as Hlun. fold un in Hlun.
  assert (Lk : (length un + k = length u)%nat).
  { pose proof (f_equal (@length Z) Erest) as E. rewrite skipn_length, repeat_length in E. clear - E Hlun. lia. }
  assert (Eu : un ++ repeat 0 k = u).
  { rewrite <- Erest. unfold un at 1. rewrite norm_firstn. fold un. apply firstn_skipn. }
  rewrite Erest.
  assert (Happ : forall u', words_ok u' = true -> length u' = length un ->
            length (u' ++ repeat 0 k) = length u /\ words_ok (u' ++ repeat 0 k) = true /\
            val (u' ++ repeat 0 k) = val u').
  { intros u' O' L'. repeat split.
    - rewrite app_length, repeat_length, L'. exact Lk.
    - apply words_ok_app. split; [assumption | apply words_ok_repeat0].
    - rewrite val_app', val_repeat0. ring. }
  destruct (Nat.eqb_spec (length un) 0) as [E0|E0].
  { (* u = 0 *)
    assert (un = []) by (destruct un; [reflexivity | discriminate]).
    assert (val u = 0) by (rewrite <- Vun, H; reflexivity).
    exists (clear z), u, temps. unfold clear. rewrite repeat_length, val_repeat0.
    repeat split; try assumption; try apply words_ok_repeat0; try lia. }
  assert (Hne : un <> []) by (intros E; rewrite E in E0; apply E0; reflexivity).
  (* u shorter than v *)
  assert (Hshort : (length un < n)%nat -> val u < val v).
  { intros Hl. rewrite <- Vun. apply shorter_smaller; assumption. }
  pose proof (val_nonneg u Ou) as Hu0.
  rewrite <- Vun in Hfit.
  pose proof (quot_len un v Lz Oun Nun Hne Ov Hfit) as HmLz. fold n in HmLz.
  destruct (Z.ltb_spec (Z.of_nat n) thrD) as [Hsmall|Hbig].
  { (* divBasic *)
    destruct (Nat.le_gt_cases n (length un)) as [Hge|Hlt].
    - destruct (divBasic_spec z un v) as (q' & u' & E & Lq' & Lu' & Ou' & Oq' & Sk & Acc & Bu'); try assumption.
      { intros Em. apply skip_lt; [assumption|]. rewrite <- Em. exact Hfit. }
      rewrite E. fold n Lz in Oq', Sk, Acc.
      set (Lq := Nat.min (S (length un - n)) Lz) in *.
      assert (Vsk : val (skipn Lq q') = 0).
      { rewrite Sk. rewrite val_skipn by assumption. rewrite Vz. apply Z.div_0_l. pose proof (Bp_pos Lq). lia. }
      assert (Osk : words_ok (skipn Lq q') = true) by (rewrite Sk; now apply words_ok_skipn).
      assert (Oq'' : words_ok q' = true).
      { rewrite <- (firstn_skipn Lq q'). apply words_ok_app. now split. }
      assert (Vq' : val q' = val (firstn Lq q')).
      { rewrite (val_firstn_skipn Lq q') at 1. rewrite Vsk. ring. }
      destruct (Happ u' Ou' Lu') as (H1 & H2 & H3).
      exists q', (u' ++ repeat 0 k), temps. rewrite H3, Vq', <- Vun.
      repeat split; try assumption; try reflexivity; try lia.
    - assert (Ed : divBasic z un v = Some (z, un)).
      { unfold divBasic. fold n. destruct (Nat.eqb_spec n 0); [clear - e Hn2; lia|].
        destruct (Nat.ltb_spec (length un) n); [reflexivity | clear - H Hlt; lia]. }
      rewrite Ed, Eu. exists z, u, temps. rewrite Vz. specialize (Hshort Hlt).
      repeat split; try assumption; try reflexivity; try lia. }
  destruct (Nat.ltb_spec (length un) n) as [Hlt|Hge].
  { exists z, u, temps. rewrite Vz. specialize (Hshort Hlt).
    repeat split; try assumption; try reflexivity; try lia. }
  (* the recursive case *)
  assert (Hn4 : (4 <= n)%nat) by (clear - HthrD Hbig; lia).
  destruct (half_nat n ltac:(clear - Hn4; lia)) as (HBk1 & HBk2 & HBk3).
  set (Bk := (n / 2)%nat) in *. assert (EBk : Bk = (n / 2)%nat) by reflexivity. clearbody Bk.
  set (s := (Bk - 1)%nat). assert (Es : s = (Bk - 1)%nat) by reflexivity. clearbody s.
  set (Lt := length temps) in *.
  destruct (pow2_half (Z.of_nat n - 2) (Z.of_nat Lt - Z.of_nat depth) ltac:(clear - Hn4; lia) Hdepth) as (He1 & He2).
  destruct (Nat.leb_spec Lt depth) as [Hbad|Hdl]; [exfalso; clear - Hbad He1; lia|].
  set (qlen := if nth depth temps false then S Bk else n).
  assert (Hqlen : (S Bk <= qlen)%nat) by (unfold qlen; destruct (nth depth temps false); clear - HBk1 HBk2; lia).
  clearbody qlen.
  set (temps2 := set_nth temps depth true).
  assert (Lt2 : length temps2 = Lt) by (unfold temps2; now apply length_set_nth).
  clearbody temps2.
  set (nmax := (n - Bk + 1)%nat).
  assert (Hrec : rec_ok (divRecStep f thrD thrK junk (S depth)) Lt nmax).
  { intros t' z' u' v' HLt' Hlen' Hz' Ou' Ov' Htop' Hfit'.
    destruct (IH (S depth) t' z' u' v') as (q1 & u1 & t1 & E1 & R1); try assumption.
    - unfold nmax in Hlen'. clear - Hlen' Hfuel HBk1 HBk2 HBk3 Hn4. lia.
    - rewrite HLt'. replace (Z.of_nat Lt - Z.of_nat (S depth)) with (Z.of_nat Lt - Z.of_nat depth - 1) by lia.
      unfold nmax in Hlen'. clear - Hlen' He2 Hdepth HBk1 HBk2 HBk3. lia.
    - clear - Hlen'; lia.
    - exists q1, u1, t1. rewrite HLt' in R1. split; assumption. }
  assert (Hm : (length un - n + n = length un)%nat) by (clear - Hge; lia).
  destruct (rec_blocks_spec (divRecStep f thrD thrK junk (S depth)) thrK junk qlen Lt nmax v n Bk Lz (val un)
              (length un) eq_refl EBk HthrK Hn4 Ov Htop Hrec ltac:(unfold nmax; lia) Hqlen Hfit
              (length un) (length un - n)%nat z un temps2)
    as (z1 & un1 & temps3 & Eb & Lt3 & Lz1 & Oz1 & Lun1 & Oun1 & Acc1 & Bun1); try assumption; try reflexivity.
  { clear; lia. } { clear - Hm; lia. } { rewrite Vz. ring. }
  { pose proof (val_bounds' _ (words_ok_skipn (length un - n) un Oun)) as Hb.
    rewrite skipn_length in Hb. replace (length un - (length un - n))%nat with n in Hb by (clear - Hge; lia).
    clear - Hb; lia. }
  rewrite Eb.
  (* the final step *)
  assert (Hs : (s <= n)%nat) by (clear - Es HBk2; lia).
  assert (Hns5 : (s + (n - s - 1) = n - 1)%nat) by (clear - Es HBk1 HBk2; lia).
  assert (Hns6 : (1 <= n - s)%nat) by (clear - Es HBk1 HBk2; lia).
  assert (OVh : words_ok (skipn s v) = true) by now apply words_ok_skipn.
  assert (LVh : length (skipn s v) = (n - s)%nat) by (rewrite skipn_length; reflexivity).
  assert (HVh : Bp (n - s) <= 2 * val (skipn s v)).
  { apply (val_top_half (skipn s v) (n - s) LVh Hns6 OVh). rewrite nthw_skipn, Hns5. assumption. }
  pose proof (val_nonneg _ OVh) as HVh0.
  set (W := skipn s un1).
  assert (OW : words_ok W = true) by (unfold W; now apply words_ok_skipn).
  assert (HsN : (s <= length un1)%nat) by (rewrite Lun1; clear - Hs Hge; lia).
  assert (BW : val W < Bp (S n)).
  { unfold W. rewrite val_skipn by assumption. apply Z.div_lt_upper_bound; [apply Bp_pos|].
    rewrite <- Bp_add. replace (s + S n)%nat with (n + Bk)%nat by (clear - Es HBk1; lia). assumption. }
  destruct (Hrec temps3 (repeat 0 qlen) W (skipn s v)) as (qhat & W' & temps4 & Erec & Lt4 & Lqh & LW' & Oqh & OW' & EW & BW').
  { assumption. } { rewrite LVh. unfold nmax. clear - Es HBk1 HBk2. lia. }
  { now rewrite repeat_length. } { assumption. } { assumption. }
  { rewrite LVh, nthw_skipn, Hns5. assumption. }
  { rewrite repeat_length. apply (window_fits W _ (Bp (n - s)) n Bk qlen); try assumption.
    rewrite <- Bp_S, <- Bp_add. apply Bp_le. clear - Es HBk1 HBk2. lia. }
  rewrite Erec. rewrite final_tail_eq.
  set (lo := firstn s un1).
  assert (Eun1 : lo ++ W = un1) by apply firstn_skipn.
  destruct (step_core' thrK junk v lo W [] qhat W' n Bk s eq_refl EBk Es HthrK Hn4 Ov Htop)
    as (qh & qhv & uu2 & uu3 & E2 & Ecmp & Esub & Oq & Lq & Bq & Ou3 & Lu3 & Vu3 & Bu3);
    try assumption; try reflexivity.
  { unfold lo. now apply words_ok_firstn. }
  { unfold lo. rewrite firstn_length. clear - HsN. lia. }
  { rewrite app_nil_r, Eun1, Lun1. exact Hge. }
  rewrite !app_nil_r in *. rewrite Eun1 in Lu3, Vu3.
  rewrite E2, Ecmp, Esub. change (0 <? 0) with false. cbv iota.
  assert (Onq : words_ok (norm qh) = true) by now apply words_ok_norm.
  destruct (decAddAt_exact_gen z1 (norm qh) 0 Oz1 Onq ltac:(clear; lia)) as (Lz2 & Oz2 & Vz2).
  { rewrite Lz1, val_norm. change (Bp 0) with 1.
    apply (quot_fits (val z1) (val qh) 1 (val v) (val un) (val un1) (val uu3) (Bp Lz)); try assumption.
    - clear - Bu3; lia.
    - rewrite Vu3. ring. }
  rewrite val_norm in Vz2. change (Bp 0) with 1 in Vz2.
  destruct (Happ uu3 Ou3 ltac:(rewrite Lu3; exact Lun1)) as (H1 & H2 & H3).
  exists (decAddAt z1 (norm qh) 0), (uu3 ++ repeat 0 k), temps4.
  rewrite H3, Vz2, <- Vun, Acc1, Vu3.
  repeat split; try assumption; try (clear - Bu3; lia); try (rewrite Lz2; exact Lz1); ring.
Qed.

(* ---- divRecursive -------------------------------------------------------------- *)

Lemma bitlen_bound n : (1 <= n)%nat -> Z.of_nat n < 2 ^ Z.of_nat (bitlen n).
Proof.
  intros H. unfold bitlen. pose proof (Z.log2_nonneg (Z.of_nat n)).
  rewrite Z2Nat.id by lia. pose proof (Z.log2_spec (Z.of_nat n) ltac:(lia)) as [_ Hs].
  replace (Z.log2 (Z.of_nat n) + 1) with (Z.succ (Z.log2 (Z.of_nat n))) by lia. exact Hs.
Qed.

(* z.divRecursive(u, v): the recursion fuel S(len v) of the model and the
   2·bits.Len(len v) scratch slots are enough; no panic; u0 = q·v + r, 0 <= r < v *)
Theorem divRecursive_spec thrD thrK junk q u v :
  4 <= thrD -> 1 <= thrK ->
  (2 <= length v)%nat -> words_ok u = true -> words_ok v = true ->
  B <= 2 * nthw v (length v - 1) -> val u < val v * Bp (length q) ->
  exists q' u', divRecursive thrD thrK junk q u v = Some (q', u') /\
    length q' = length q /\ length u' = length u /\ words_ok q' = true /\ words_ok u' = true /\
    val u = val q' * val v + val u' /\ 0 <= val u' < val v.
Proof.
  intros HthrD HthrK Hn Ou Ov Htop Hfit. unfold divRecursive.
  destruct (Nat.eqb_spec (length v) 0) as [E0|_]; [exfalso; clear - E0 Hn; lia|].
  set (recDepth := (2 * bitlen (length v))%nat).
  destruct (divRecStep_spec thrD thrK junk HthrD HthrK (S (length v)) 0 (repeat false recDepth) (clear q) u v)
    as (q' & u' & t' & E & _ & Lq & R); try assumption.
  - clear; lia.
  - rewrite repeat_length. unfold recDepth. pose proof (bitlen_bound (length v) ltac:(clear - Hn; lia)) as Hb.
    assert (2 ^ Z.of_nat (bitlen (length v)) <= 2 ^ (Z.of_nat (2 * bitlen (length v)) - Z.of_nat 0)).
    { apply Z.pow_le_mono_r; lia. }
    lia.
  - unfold clear. now rewrite repeat_length.
  - unfold clear. rewrite repeat_length. assumption.
  - rewrite E. exists q', u'. unfold clear in Lq. rewrite repeat_length in Lq.
    split; [reflexivity|]. split; [assumption|]. exact R.
Qed.

(* the same under the hypotheses of divBasic_spec (C06_divBasic) *)
Corollary divRecursive_spec' thrD thrK junk q u v :
  let n := length v in
  let m := (length u - n)%nat in
  4 <= thrD -> 1 <= thrK ->
  (2 <= n)%nat -> (n <= length u)%nat -> words_ok u = true -> words_ok v = true ->
  B <= 2 * nthw v (n - 1) -> (m <= length q)%nat -> (length q = m -> val (skipn m u) < val v) ->
  exists q' u', divRecursive thrD thrK junk q u v = Some (q', u') /\
    length q' = length q /\ length u' = length u /\ words_ok q' = true /\ words_ok u' = true /\
    val u = val q' * val v + val u' /\ 0 <= val u' < val v.
Proof.
  intros n m HthrD HthrK Hn Hlu Ou Ov Htop Hlq Hq0.
  apply divRecursive_spec; try assumption. fold n.
  pose proof (val_top_half v n eq_refl ltac:(lia) Ov Htop) as Hhalf.
  pose proof (val_bounds' u Ou) as Bu. pose proof (Bp_pos n). pose proof B_gt1.
  destruct (Nat.eq_dec (length q) m) as [Em|Nm].
  - specialize (Hq0 Em). rewrite Em. rewrite (val_split m u) by (unfold m; lia).
    pose proof (val_bounds' _ (words_ok_firstn m u Ou)) as Bf.
    rewrite firstn_length, Nat.min_l in Bf by (unfold m; lia).
    pose proof (val_nonneg _ (words_ok_skipn m u Ou)). nia.
  - pose proof (Bp_le (S m) (length q) ltac:(lia)) as Hle. rewrite Bp_S in Hle.
    assert (Bp (length u) = Bp n * Bp m) by (rewrite <- Bp_add; f_equal; f_equal; unfold m; lia).
    pose proof (Bp_pos m).
    assert (val u < 2 * val v * Bp m) by nia.
    assert (2 * val v * Bp m <= val v * (B * Bp m)) by nia.
    assert (val v * (B * Bp m) <= val v * Bp (length q)) by (apply Z.mul_le_mono_nonneg_l; lia).
    lia.
Qed.

(* ---- divLarge and dec.div for every divisor length ----------------------------- *)

Theorem divLarge_spec thrD thrK junk uIn vIn :
  4 <= thrD -> 1 <= thrK ->
  words_ok uIn = true -> words_ok vIn = true -> norm vIn = vIn ->
  (2 <= length vIn)%nat -> (length vIn <= length uIn)%nat ->
  divLarge thrD thrK junk uIn vIn = Some (dec_quo uIn vIn, dec_rem uIn vIn).
Proof.
  intros HthrD HthrK Ou Ov Nv Hn Hmn.
  destruct (Z.ltb_spec (Z.of_nat (length vIn)) thrD) as [Hlt|Hge];
    [apply divLarge_basic_spec; assumption|].
  unfold divLarge.
  set (n := length vIn) in *. set (m := length uIn) in *.
  assert (Hne : vIn <> []) by (intros ->; cbn in Hn; lia).
  destruct (divLarge_norm_spec vIn Ov Nv Hne) as (Hd & Lv & Ovn & Vv & Hc & Hnorm). fold n in Hd, Lv, Ovn, Vv, Hc, Hnorm.
  set (d := B / (nthw vIn (n - 1) + 1)) in *.
  set (v := fst (mulAdd10VWW_v vIn d 0)) in *.
  destruct (mulAdd10VWW_v uIn d 0) as [w c] eqn:Eu.
  destruct (mulAdd10VWW_v_spec uIn d 0 w c Ou ltac:(lia) ltac:(lia) Eu) as (Lw & Ow & Bc & Vw).
  fold m in Lw, Vw.
  set (u := w ++ [c]).
  assert (Lu : length u = S m) by (unfold u; len).
  assert (Ouu : words_ok u = true).
  { unfold u. apply words_ok_app. split; [assumption|]. apply words_ok_cons. split; [assumption | reflexivity]. }
  assert (Vu : val u = val uIn * d) by (unfold u; rewrite val_app', val_single, Lw; lia).
  destruct (Z.ltb_spec (Z.of_nat n) thrD); [lia|].
  set (q := mk junk (m - n + 1)).
  assert (Lq : length q = (m - n + 1)%nat) by (unfold q, mk; apply repeat_length).
  pose proof (norm_nonempty_bounds vIn Ov Nv Hne) as HvLo. fold n in HvLo.
  pose proof (val_bounds' uIn Ou) as BuIn. fold m in BuIn.
  pose proof (Bp_pos (n - 1)) as Hp1.
  assert (HVpos : 0 < val vIn) by lia.
  (* the quotient fits q *)
  assert (Hfit : val u < val v * Bp (length q)).
  { rewrite Lq, Vu, Vv.
    assert (Bp m = Bp (m - n + 1) * Bp (n - 1)) by (rewrite <- Bp_add; f_equal; f_equal; lia).
    pose proof (Bp_pos (m - n + 1)).
    assert (val uIn * d < Bp m * d) by nia.
    assert (Bp (n - 1) * d <= val vIn * d) by nia.
    assert (Bp (m - n + 1) * (Bp (n - 1) * d) <= Bp (m - n + 1) * (val vIn * d))
      by (apply Z.mul_le_mono_nonneg_l; lia).
    replace (Bp m * d) with (Bp (m - n + 1) * (Bp (n - 1) * d)) in * by (rewrite H0; ring).
    lia. }
  destruct (divRecursive_spec thrD thrK junk q u v HthrD HthrK) as (q' & u' & E & Lq' & Lu' & Oq' & Ou' & Acc & Bu');
    try assumption.
  { lia. } { rewrite Lv. assumption. }
  rewrite E.
  destruct (nat_divW_val u' d Ou' ltac:(lia)) as (r & r2 & Er & Or & Vr & _). rewrite Er.
  (* u0·d = q·(v0·d) + u'  ==>  u' = d·(u0 - q·v0) *)
  rewrite Vu, Vv in Acc. rewrite Vv in Bu'.
  set (R := val uIn - val q' * val vIn).
  assert (Eu' : val u' = d * R) by (unfold R; lia).
  assert (BR : 0 <= R < val vIn) by nia.
  destruct (divmod_unique (val uIn) (val vIn) (val q') R) as [Eq Em]; [lia | unfold R; lia |].
  assert (Vr' : val r = R).
  { rewrite Vr, Eu'. rewrite Z.mul_comm. apply Z.div_mul. lia. }
  unfold dec_quo, dec_rem. rewrite Eq, Em. f_equal. f_equal; now apply norm_eq_of_Z.
Qed.

(* dec.div: quotient and remainder are the value-level ones for every divisor
   length, every divRecursiveThreshold >= 4 and decKaratsubaThreshold >= 1; the
   only panic is the division by zero *)
Theorem div_spec thrD thrK junk u v :
  4 <= thrD -> 1 <= thrK ->
  words_ok u = true -> words_ok v = true -> norm u = u -> norm v = v ->
  div thrD thrK junk u v =
    if (length v =? 0)%nat then None else Some (dec_quo u v, dec_rem u v).
Proof.
  intros HthrD HthrK Ou Ov Nu Nv. unfold div.
  destruct (Nat.eqb_spec (length v) 0) as [E0|E0]; [reflexivity|].
  assert (Hne : v <> []) by (intros ->; cbn in E0; lia).
  pose proof (norm_nonempty_bounds v Ov Nv Hne) as HvLo. pose proof (Bp_pos (length v - 1)).
  pose proof (val_nonneg u Ou) as Hu0.
  rewrite (nat_cmp_spec u v Ou Ov Nu Nv). unfold zsgn, dec_quo, dec_rem.
  destruct (Z.ltb_spec (val u) (val v)) as [Hlt|Hge].
  - cbn [Z.ltb]. change (-1 <? 0) with true. cbv iota.
    rewrite Z.div_small, Z.mod_small by lia. rewrite of_Z_val, Nu by assumption. reflexivity.
  - assert (Hs : (if val v <? val u then 1 else 0) <? 0 = false) by (destruct (val v <? val u); reflexivity).
    rewrite Hs.
    destruct (Nat.eqb_spec (length v) 1) as [E1|E1].
    + destruct v as [|y [|? ?]]; try discriminate. cbn [hd]. rewrite val_single in *.
      apply words_ok_cons in Ov as [Hy _]. change (Bp (length [y] - 1)) with 1 in HvLo.
      rewrite (nat_divW_spec u y Ou Nu Hy). destruct (Z.eqb_spec y 0); [lia|].
      rewrite setWord_of_Z; [reflexivity|]. pose proof (Z.mod_pos_bound (val u) y ltac:(lia)). lia.
    + assert (Hlen : (length v <= length u)%nat).
      { destruct (Nat.le_gt_cases (length v) (length u)); [assumption|].
        pose proof (shorter_smaller u v Ou Ov Nv ltac:(lia)). lia. }
      apply divLarge_spec; try assumption; lia.
Qed.

(* the result of dec.div does not depend on the tuning at all *)
Corollary div_threshold_independent_full d1 k1 j1 d2 k2 j2 u v :
  4 <= d1 -> 1 <= k1 -> 4 <= d2 -> 1 <= k2 ->
  words_ok u = true -> words_ok v = true -> norm u = u -> norm v = v ->
  div d1 k1 j1 u v = div d2 k2 j2 u v.
Proof. intros. rewrite !div_spec by assumption. reflexivity. Qed.

(* ---- the shipped threshold ------------------------------------------------------ *)

(* divRecursiveThreshold as extracted from the Go source satisfies the hypothesis *)
Lemma chk_divRecursiveThreshold : 4 <= c_divRecursiveThreshold.
Proof. unfold c_divRecursiveThreshold. lia. Qed.

Theorem div_shipped_spec thrK junk u v :
  1 <= thrK -> words_ok u = true -> words_ok v = true -> norm u = u -> norm v = v ->
  div c_divRecursiveThreshold thrK junk u v =
    if (length v =? 0)%nat then None else Some (dec_quo u v, dec_rem u v).
Proof. intros. apply div_spec; try assumption. exact chk_divRecursiveThreshold. Qed.
