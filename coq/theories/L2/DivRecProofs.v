(* L2/DivRecProofs.v — divRecursiveStep / divRecursive (Burnikel-Ziegler) compute
   the exact quotient and remainder for every size, every divRecursiveThreshold
   >= 4, every decKaratsubaThreshold >= 1 and every contents of recycled
   buffers; dec.div for every divisor length. *)
From Coq Require Import ZArith List Bool Lia.
From Dec Require Import Base.Words Base.WordsProofs L2.KernV L2.KernVProofs L2.Nat L2.NatProofs
  L2.Mul L2.MulProofs L2.Div L2.DivProofs L2.DivRecLemmas.
Import ListNotations.
Open Scope Z_scope.

(* ---- arithmetic helpers ---------------------------------------------------- *)

Lemma qbound q Vh X Y : 0 <= q -> 0 < X -> X <= 2 * Vh -> q * Vh < Y * X -> q < 2 * Y.
Proof. intros. nia. Qed.

Lemma half_nat n : (2 <= n)%nat -> (1 <= n / 2 /\ 2 * (n / 2) <= n /\ n <= 2 * (n / 2) + 1)%nat.
Proof.
  intros H. pose proof (Nat.div_mod n 2 ltac:(lia)). pose proof (Nat.mod_upper_bound n 2 ltac:(lia)). lia.
Qed.

(* ---- one division-with-correction step (a block, or the final step) ------- *)

(* uu = lo ++ W ++ hi with len lo = s = n/2 - 1 and hi zero; the recursive call
   divided W by v[s:] giving q̂ and W'.  After at most two corrections q̂ is the
   quotient of uu by v and the subtraction leaves the remainder. *)
Lemma step_core thrK junk v lo W hi qhat W' :
  let n := length v in
  let Bk := (n / 2)%nat in
  let s := (Bk - 1)%nat in
  1 <= thrK -> (4 <= n)%nat -> words_ok v = true -> B <= 2 * nthw v (n - 1) ->
  words_ok lo = true -> words_ok W = true -> words_ok hi = true ->
  length lo = s -> val hi = 0 -> val W < Bp (S n) -> (n <= length (lo ++ W ++ hi))%nat ->
  words_ok qhat = true -> words_ok W' = true -> length W' = length W ->
  val W = val qhat * val (skipn s v) + val W' -> 0 <= val W' < val (skipn s v) ->
  exists qh qhv uu uu',
    adj1 v s (adj1 v s (norm qhat, mul thrK junk (norm qhat) (firstn s v), lo ++ W' ++ hi)) = (qh, qhv, uu) /\
    (0 <? nat_cmp qhv (norm uu)) = false /\
    rec_subtract uu qhv = (uu', 0) /\
    words_ok qh = true /\ length qh = length (norm qhat) /\ 0 <= val qh < 2 * Bp Bk /\
    words_ok uu' = true /\ length uu' = length (lo ++ W ++ hi) /\
    val (lo ++ W ++ hi) = val qh * val v + val uu' /\ 0 <= val uu' < val v.
Proof.
  intros n Bk s HthrK Hn Ov Htop Olo OW Ohi Llo Vhi BW HLu Oq OW' LW' EW BW'.
  destruct (half_nat n ltac:(lia)) as (HBk1 & HBk2 & HBk3). fold Bk in HBk1, HBk2, HBk3.
  assert (Hs : (s <= n)%nat) by (unfold s; lia).
  set (Vh := val (skipn s v)) in *. set (Vl := val (firstn s v)).
  set (P := Bp s). set (q := val qhat).
  assert (OVl : words_ok (firstn s v) = true) by now apply words_ok_firstn.
  assert (OVh : words_ok (skipn s v) = true) by now apply words_ok_skipn.
  assert (LVl : length (firstn s v) = s) by (rewrite firstn_length; fold n; lia).
  assert (LVh : length (skipn s v) = (n - s)%nat) by apply skipn_length.
  pose proof (val_bounds' _ OVl) as BVl. rewrite LVl in BVl. fold Vl P in BVl.
  pose proof (val_split s v Hs) as Vv. fold Vl Vh P in Vv.
  assert (HP : 0 < P) by apply Bp_pos.
  (* 2·Vh >= B^(n-s) *)
  assert (HVh : Bp (n - s) <= 2 * Vh).
  { apply (val_top_half (skipn s v) (n - s) LVh ltac:(lia) OVh).
    rewrite nthw_skipn. replace (s + (n - s - 1))%nat with (n - 1)%nat by lia. assumption. }
  pose proof (Bp_pos (n - s)) as Hpns.
  assert (HVh0 : 0 < Vh) by lia.
  pose proof (val_nonneg qhat Oq) as Hq0. fold q in Hq0, EW.
  pose proof (val_nonneg W' OW') as HW'0.
  (* q̂ < 2·B^Bk *)
  assert (Hq2 : q < 2 * Bp Bk).
  { apply (qbound q Vh (Bp (n - s)) (Bp Bk) Hq0 Hpns HVh).
    rewrite <- Bp_add. replace (Bk + (n - s))%nat with (S n) by (unfold s; lia).
    clear - EW BW HW'0. lia. }
  (* q̂ <= 2·Vh *)
  assert (Hq3 : q <= 2 * Vh + 2).
  { pose proof (Bp_le (S Bk) (n - s) ltac:(unfold s; lia)) as Hle. rewrite Bp_S in Hle.
    pose proof (Bp_pos Bk). pose proof B_gt1. clear - Hle Hq2 HVh H H0. nia. }
  set (U := val (lo ++ W ++ hi)).
  assert (EU : U = val W * P + val lo).
  { unfold U. rewrite val3, Vhi, Llo. fold P. ring. }
  pose proof (val_bounds' lo Olo) as Blo. rewrite Llo in Blo. fold P in Blo.
  assert (Hup : U < (q + 1) * val v).
  { rewrite EU, Vv. replace (Vl + P * Vh) with (Vh * P + Vl) by ring.
    apply (est_upper (val W) (val lo) Vh Vl P q (val W')); try assumption; lia. }
  assert (Hlo : (q - 2) * val v <= U).
  { rewrite EU, Vv. replace (Vl + P * Vh) with (Vh * P + Vl) by ring.
    apply (est_lower (val W) (val lo) Vh Vl P q (val W')); try assumption; lia. }
  (* the product q̂·v[:s] *)
  set (qn := norm qhat).
  assert (Oqn : words_ok qn = true) by now apply words_ok_norm.
  assert (Vqn : val qn = q) by apply val_norm.
  set (qv := mul thrK junk qn (firstn s v)).
  assert (Eqv : qv = of_Z (q * Vl)).
  { unfold qv. rewrite mul_spec by assumption. unfold dec_mul. now rewrite Vqn. }
  assert (Hqvl0 : 0 <= q * Vl) by (clear - Hq0 BVl; nia).
  assert (Oqv : words_ok qv = true) by (rewrite Eqv; apply words_ok_of_Z).
  assert (Nqv : norm qv = qv) by (rewrite Eqv; apply of_Z_norm).
  assert (Vqv : val qv = q * Vl) by (rewrite Eqv; now apply val_of_Z).
  assert (Lqv : (length qv <= n)%nat).
  { apply norm_length_le; try assumption. rewrite Vqv.
    assert (Bp n = Bp Bk * P * Bp (n - Bk - s)) as ->.
    { unfold P. rewrite <- !Bp_add. f_equal. f_equal. unfold s. lia. }
    pose proof (Bp_pos Bk). pose proof (Bp_pos (n - Bk - s)).
    assert (2 <= Bp (n - Bk - s) \/ Bp (n - Bk - s) = 1 /\ False \/ (s = 0)%nat /\ False) as Hc.
    { left. pose proof (Bp_le 1 (n - Bk - s) ltac:(unfold s; lia)) as H1. change (Bp 1) with (B ^ 1) in H1.
      rewrite Z.pow_1_r in H1. pose proof B_gt1. rewrite B_eq in *. lia. }
    destruct Hc as [Hc|[[_ []]|[_ []]]].
    assert (q * Vl < 2 * Bp Bk * P) by (clear - Hq0 Hq2 BVl HP H; nia).
    assert (2 * (Bp Bk * P) <= Bp (n - Bk - s) * (Bp Bk * P)) by (apply Z.mul_le_mono_nonneg_r; nia).
    clear - H1 H2. lia. }
  set (uu1 := lo ++ W' ++ hi).
  assert (Luu1 : length uu1 = length (lo ++ W ++ hi)) by (unfold uu1; rewrite !app_length, LW'; reflexivity).
  set (Lu := length (lo ++ W ++ hi)) in *.
  assert (Ouu1 : words_ok uu1 = true).
  { unfold uu1. apply words_ok_app; split; [assumption|]. apply words_ok_app; now split. }
  assert (Vuu1 : val uu1 = val W' * P + val lo).
  { unfold uu1. rewrite val3, Vhi, Llo. fold P. ring. }
  assert (Hinv : cinv v s U (length qn) (length qv) Lu (qn, qv, uu1)).
  { unfold cinv. repeat split; try assumption; try reflexivity.
    - fold Vl. rewrite Vqv, Vqn. reflexivity.
    - fold Vh P. rewrite Vuu1, Vqn, EU, EW. ring.
    - left; assumption. }
  assert (HUlt : U < Bp Lu).
  { unfold U, Lu. apply val_bounds'. apply words_ok_app; split; [assumption|]. apply words_ok_app; now split. }
  assert (Hbig : Bp (length v) <= B * (Bp s * val (skipn s v))).
  { fold n Vh P. assert (Bp n = P * Bp (n - s)) as -> by (unfold P; rewrite <- Bp_add; f_equal; f_equal; lia).
    pose proof B_gt1. clear - HP Hpns HVh H. nia. }
  destruct (corr_spec v s U (length qn) (length qv) Lu (qn, qv, uu1) Ov Hs HLu Lqv HUlt Hbig Hinv)
    as (qh & qhv & uu & uu' & E2 & Ecmp & Esub & Oqh & Lqh & Ouu' & Luu' & Bqh & Vuu' & Buu').
  { unfold cq. cbn [fst]. rewrite Vqn. assumption. }
  { unfold cq. cbn [fst]. rewrite Vqn. assumption. }
  unfold cq in Bqh. cbn [fst] in Bqh. rewrite Vqn in Bqh.
  exists qh, qhv, uu, uu'. split; [assumption|]. split; [assumption|]. split; [assumption|].
  pose proof (val_nonneg qh Oqh) as Hqh0.
  repeat split; try assumption; try lia.
Qed.
