(* L2/NatProofs.v — the small natural-number routines (L2/Nat.v) meet the
   value-level routines of Base/Words.v. *)
From Coq Require Import ZArith List Bool Lia.
From Dec Require Import Base.Words Base.WordsProofs L2.KernV L2.KernVProofs L2.Nat.
Open Scope Z_scope.

(* a normalised answer is determined by its value *)
Lemma norm_eq_of_Z l n : words_ok l = true -> val l = n -> norm l = of_Z n.
Proof. intros H <-. symmetry. now apply of_Z_val. Qed.

Lemma divmod_unique a y q r : 0 <= r < y -> a = y * q + r -> a / y = q /\ a mod y = r.
Proof.
  intros. split; [symmetry; apply (Z.div_unique_pos a y q r); lia
                 | symmetry; apply (Z.mod_unique_pos a y q r); lia].
Qed.

Lemma split3 (z : list Z) i n : z = firstn i z ++ win z i n ++ skipn (i + n) z.
Proof.
  unfold win. rewrite <- (skipn_skipn' n i z). rewrite firstn_skipn. now rewrite firstn_skipn.
Qed.

Lemma val3 a b c : val (a ++ b ++ c) = val a + Bp (length a) * (val b + Bp (length b) * val c).
Proof. now rewrite !val_app'. Qed.

Lemma length_firstn_le {A} k (l : list A) : (k <= length l)%nat -> length (firstn k l) = k.
Proof. intros. rewrite firstn_length. lia. Qed.

(* ---- decAddAt ----------------------------------------------------------- *)

Lemma decAddAt_spec z x i :
  words_ok z = true -> words_ok x = true -> (i + length x <= length z)%nat ->
  length (decAddAt z x i) = length z /\ words_ok (decAddAt z x i) = true /\
  exists c, 0 <= c <= 1 /\ val (decAddAt z x i) = val z + Bp i * val x - Bp (length z) * c.
Proof.
  intros Hz Hx Hl. unfold decAddAt.
  destruct (Nat.eqb_spec (length x) 0) as [E0|E0].
  - destruct x; [|discriminate]. repeat split; try assumption. exists 0. cbn [val]. lia.
  - set (n := length x) in *.
    destruct (add10VV_v (win z i n) x 0) as [w c] eqn:E.
    assert (Lw : length (win z i n) = n) by (apply length_win; lia).
    destruct (add10VV_v_spec (win z i n) x 0 w c Lw (words_ok_win z i n Hz) Hx ltac:(lia) E) as (L & O & C & V).
    rewrite Lw in L, V.
    assert (Ls : length (splice z i w) = length z) by (apply length_splice; lia).
    assert (Os : words_ok (splice z i w) = true) by (now apply words_ok_splice).
    (* value of the spliced list *)
    assert (Vs : val (splice z i w) = val z + Bp i * val x - Bp (i + n) * c).
    { rewrite (split3 z i n) at 2. unfold splice. rewrite !val3.
      rewrite length_firstn_le by lia. rewrite L, Lw.
      replace (i + length w)%nat with (i + n)%nat by lia. rewrite Bp_add.
      set (hi := val (skipn (i + n) z)). set (lo := val (firstn i z)). nia. }
    destruct (Z.eqb_spec c 0) as [Ec|Ec].
    + repeat split; try assumption. exists 0. subst c. rewrite Vs. lia.
    + assert (c = 1) by lia. subst c.
      destruct (Nat.ltb_spec (i + n) (length z)) as [Hj|Hj].
      * set (z1 := splice z i w) in *. set (j := (i + n)%nat) in *.
        destruct (add10VW_v (skipn j z1) 1) as [h c2] eqn:E2.
        destruct (add10VW_v_spec (skipn j z1) 1 h c2 (words_ok_skipn j z1 Os) ltac:(pose proof B_gt1; lia) E2)
          as (L2 & O2 & C0 & C2 & V2).
        cbn [fst].
        assert (Lj : length (firstn j z1) = j) by (apply length_firstn_le; lia).
        repeat split.
        -- rewrite app_length, Lj, L2, skipn_length. lia.
        -- apply words_ok_app. split; [now apply words_ok_firstn | assumption].
        -- exists c2. split.
           ++ destruct C2 as [C2 | [C2 _]]; [lia|].
              apply (f_equal (@length Z)) in C2. rewrite skipn_length in C2. cbn in C2. lia.
           ++ rewrite val_app', Lj. rewrite (val_split j z1) in Vs by lia.
              rewrite skipn_length in V2. replace (length z1) with (length z) in V2 by lia.
              rewrite (Bp_split j (length z)) by lia.
              set (hi := val (skipn j z1)) in *. set (lo := val (firstn j z1)) in *. nia.
      * repeat split; try assumption. exists 1. split; [lia|]. rewrite Vs.
        replace (i + n)%nat with (length z) by lia. lia.
Qed.

(* no carry is lost when the sum fits *)
Lemma decAddAt_exact z x i :
  words_ok z = true -> words_ok x = true -> (i + length x <= length z)%nat ->
  val z + Bp i * val x < Bp (length z) ->
  val (decAddAt z x i) = val z + Bp i * val x.
Proof.
  intros Hz Hx Hl Hs. destruct (decAddAt_spec z x i Hz Hx Hl) as (L & O & c & C & V).
  pose proof (val_bounds' _ O) as Bd. rewrite L in Bd.
  pose proof (Bp_pos (length z)).
  assert (c = 0 \/ c = 1) as [-> | ->] by lia; lia.
Qed.

(* ---- karatsubaLen ------------------------------------------------------- *)

Lemma karatsubaLen_f_bounds fuel : forall n thr i N,
  1 <= thr -> 1 <= n -> 0 <= i -> n * 2 ^ i <= N ->
  1 <= karatsubaLen_f fuel n thr i <= N.
Proof.
  induction fuel as [|f IH]; intros n thr i N Ht Hn Hi HN; cbn [karatsubaLen_f].
  - assert (0 < 2 ^ i) by (apply Z.pow_pos_nonneg; lia). nia.
  - destruct (Z.ltb_spec thr n).
    + apply IH; try lia.
      * apply Z.div_le_lower_bound; lia.
      * rewrite Z.pow_add_r, Z.pow_1_r by lia.
        assert (0 < 2 ^ i) by (apply Z.pow_pos_nonneg; lia).
        pose proof (Z.mul_div_le n 2 ltac:(lia)). nia.
    + assert (0 < 2 ^ i) by (apply Z.pow_pos_nonneg; lia). nia.
Qed.

Lemma karatsubaLen_bounds n thr : 1 <= thr -> (1 <= n)%nat ->
  (1 <= karatsubaLen n thr <= n)%nat.
Proof.
  intros Ht Hn. unfold karatsubaLen.
  pose proof (karatsubaLen_f_bounds (S n) (Z.of_nat n) thr 0 (Z.of_nat n) Ht ltac:(lia) ltac:(lia) ltac:(lia)).
  lia.
Qed.

(* ---- mulAddWW, divW ----------------------------------------------------- *)

Lemma setWord_of_Z r : 0 <= r < B -> setWord r = of_Z r.
Proof.
  intros H. unfold setWord. destruct (Z.eqb_spec r 0) as [->|E]; [reflexivity|].
  rewrite <- (norm_eq_of_Z [r] r).
  - cbn [norm]. destruct (Z.eqb_spec r 0); [lia | reflexivity].
  - apply words_ok_cons. split; [assumption | reflexivity].
  - apply val_single.
Qed.

Lemma nat_mulAddWW_spec x y r : words_ok x = true -> 0 <= y < B -> 0 <= r < B ->
  nat_mulAddWW x y r = of_Z (val x * y + r).
Proof.
  intros Hx Hy Hr. unfold nat_mulAddWW.
  destruct (Nat.eqb_spec (length x) 0) as [E|E]; cbn [orb].
  - destruct x; [|discriminate]. cbn [val]. rewrite Z.mul_0_l, Z.add_0_l. now apply setWord_of_Z.
  - destruct (Z.eqb_spec y 0) as [->|Ey].
    + rewrite Z.mul_0_r, Z.add_0_l. now apply setWord_of_Z.
    + destruct (mulAdd10VWW_v x y r) as [z c] eqn:E1.
      destruct (mulAdd10VWW_v_spec _ _ _ _ _ Hx Hy Hr E1) as (L & O & C & V).
      apply norm_eq_of_Z.
      * apply words_ok_app. split; [assumption|]. apply words_ok_cons. split; [assumption | reflexivity].
      * rewrite val_app', val_single, L. exact V.
Qed.

Lemma nat_divW_spec x y : words_ok x = true -> norm x = x -> 0 <= y < B ->
  nat_divW x y = if y =? 0 then None else Some (of_Z (val x / y), val x mod y).
Proof.
  intros Hx Nx Hy. unfold nat_divW.
  destruct (Z.eqb_spec y 0) as [->|E0]; [reflexivity|].
  destruct (Z.eqb_spec y 1) as [->|E1].
  - rewrite Z.div_1_r, Z.mod_1_r. now rewrite of_Z_val, Nx.
  - destruct (Nat.eqb_spec (length x) 0) as [E|E].
    + destruct x; [|discriminate]. cbn [val]. rewrite Z.div_0_l, Z.mod_0_l by lia. reflexivity.
    + destruct (div10VWW_v x y 0) as [q r] eqn:Ed.
      destruct (div10VWW_v_spec x y 0 q r Hx ltac:(lia) ltac:(lia) Ed) as (L & O & R & V).
      rewrite Z.mul_0_l, Z.add_0_l in V.
      assert (val x / y = val q /\ val x mod y = r) as [-> ->].
      { apply divmod_unique; lia. }
      f_equal. f_equal. now apply norm_eq_of_Z.
Qed.

(* ---- add, sub ----------------------------------------------------------- *)

Lemma nat_add_sym_aux x y : (length y <= length x)%nat ->
  words_ok x = true -> words_ok y = true -> norm x = x ->
  (if (length x =? 0)%nat then []
   else if (length y =? 0)%nat then x
   else let (z0, c) := add10VV_v (firstn (length y) x) y 0 in
        let (z1, c1) := if (length y <? length x)%nat then add10VW_v (skipn (length y) x) c else ([], c) in
        norm (z0 ++ z1 ++ [c1])) = of_Z (val x + val y).
Proof.
  intros Hl Hx Hy Nx.
  destruct (Nat.eqb_spec (length x) 0) as [E|E].
  - destruct x; [|discriminate]. destruct y; [|cbn in Hl; lia]. reflexivity.
  - destruct (Nat.eqb_spec (length y) 0) as [E'|E'].
    + destruct y; [|discriminate]. cbn [val]. rewrite Z.add_0_r. now rewrite of_Z_val, Nx.
    + set (n := length y) in *.
      destruct (add10VV_v (firstn n x) y 0) as [z0 c] eqn:E0.
      assert (Lf : length (firstn n x) = n) by (apply length_firstn_le; lia).
      destruct (add10VV_v_spec (firstn n x) y 0 z0 c Lf (words_ok_firstn n x Hx) Hy ltac:(lia) E0) as (L0 & O0 & C0 & V0).
      rewrite Lf in L0, V0. rewrite (val_split n x) by lia.
      destruct (Nat.ltb_spec n (length x)) as [Hlt|Hge].
      * destruct (add10VW_v (skipn n x) c) as [z1 c1] eqn:E1.
        destruct (add10VW_v_spec (skipn n x) c z1 c1 (words_ok_skipn n x Hx) ltac:(pose proof B_gt1; lia) E1)
          as (L1 & O1 & C1 & C1' & V1).
        assert (c1 <= 1).
        { destruct C1' as [?|[Hn _]]; [assumption|]. apply (f_equal (@length Z)) in Hn.
          rewrite skipn_length in Hn. cbn in Hn. lia. }
        apply norm_eq_of_Z.
        -- rewrite !words_ok_app. repeat split; try assumption. apply words_ok_cons.
           split; [pose proof B_gt1; lia | reflexivity].
        -- rewrite !val_app', val_single, L0, L1. set (lo := val (firstn n x)) in *.
           set (hi := val (skipn n x)) in *. pose proof (Bp_pos n). nia.
      * assert (length x = n) by lia.
        rewrite (skipn_all2 x) by lia. cbn [val]. rewrite Z.mul_0_r, Z.add_0_r.
        apply norm_eq_of_Z.
        -- rewrite !words_ok_app. repeat split; try assumption. apply words_ok_cons.
           split; [pose proof B_gt1; lia | reflexivity].
        -- cbn [app]. rewrite val_app', val_single, L0. lia.
Qed.

Lemma nat_add_spec x y : words_ok x = true -> words_ok y = true -> norm x = x -> norm y = y ->
  nat_add x y = dec_add x y.
Proof.
  intros Hx Hy Nx Ny. unfold nat_add, dec_add.
  destruct (Nat.ltb_spec (length x) (length y)).
  - rewrite (Z.add_comm (val x)). apply nat_add_sym_aux; try assumption. lia.
  - apply nat_add_sym_aux; try assumption.
Qed.

(* a normalised list that is shorter is smaller *)
Lemma norm_nonempty_bounds l : words_ok l = true -> norm l = l -> l <> [] ->
  Bp (length l - 1) <= val l.
Proof.
  intros Hl Nl Hne.
  assert (Hn : last l 0 <> 0) by (rewrite <- Nl; apply norm_last_nz; now rewrite Nl).
  destruct (val_ge_last l Hl Hne) as [Lo _].
  assert (Hw : 0 <= last l 0).
  { clear - Hl Hne. induction l as [|w l IH]; [congruence|]. apply words_ok_cons in Hl as [Hw Hl].
    destruct l; [cbn; lia|]. change (last (w :: z :: l) 0) with (last (z :: l) 0). apply IH; [assumption|congruence]. }
  replace (zlen l - 1) with (Z.of_nat (length l - 1)) in Lo.
  - pose proof (Bp_pos (length l - 1)). nia.
  - unfold zlen. destruct l; [congruence|]. cbn [length]. lia.
Qed.

Lemma shorter_smaller x y : words_ok x = true -> words_ok y = true -> norm y = y ->
  (length x < length y)%nat -> val x < val y.
Proof.
  intros Hx Hy Ny Hl.
  assert (y <> []) by (destruct y; [cbn in Hl; lia | congruence]).
  pose proof (norm_nonempty_bounds y Hy Ny H).
  pose proof (val_bounds' x Hx). pose proof (Bp_le (length x) (length y - 1) ltac:(lia)). lia.
Qed.

Lemma nat_sub_spec x y : words_ok x = true -> words_ok y = true -> norm x = x -> norm y = y ->
  nat_sub x y = if val x <? val y then None else Some (dec_sub x y).
Proof.
  intros Hx Hy Nx Ny. unfold nat_sub, dec_sub.
  destruct (Nat.ltb_spec (length x) (length y)) as [Hlt|Hge].
  - pose proof (shorter_smaller x y Hx Hy Ny Hlt). destruct (Z.ltb_spec (val x) (val y)); [reflexivity | lia].
  - destruct (Nat.eqb_spec (length x) 0) as [E|E].
    + destruct x; [|discriminate]. destruct y; [|cbn in Hge; lia]. reflexivity.
    + destruct (Nat.eqb_spec (length y) 0) as [E'|E'].
      * destruct y; [|discriminate]. cbn [val]. pose proof (val_nonneg x Hx).
        destruct (Z.ltb_spec (val x) 0); [lia|]. rewrite Z.sub_0_r. now rewrite of_Z_val, Nx.
      * set (n := length y) in *.
        destruct (sub10VV_v (firstn n x) y 0) as [z0 c] eqn:E0.
        assert (Lf : length (firstn n x) = n) by (apply length_firstn_le; lia).
        destruct (sub10VV_v_spec (firstn n x) y 0 z0 c Lf (words_ok_firstn n x Hx) Hy ltac:(lia) E0) as (L0 & O0 & C0 & V0).
        rewrite Lf in L0, V0. rewrite (val_split n x) by lia.
        pose proof (val_bounds' z0 O0) as Bz0. rewrite L0 in Bz0.
        destruct (Nat.ltb_spec n (length x)) as [Hlt|Hge'].
        -- destruct (sub10VW_v (skipn n x) c) as [z1 c1] eqn:E1.
           destruct (sub10VW_v_spec (skipn n x) c z1 c1 (words_ok_skipn n x Hx) ltac:(pose proof B_gt1; lia) E1)
             as (L1 & O1 & C1 & C1' & V1).
           assert (c1 <= 1).
           { destruct C1' as [?|[Hn _]]; [assumption|]. apply (f_equal (@length Z)) in Hn.
             rewrite skipn_length in Hn. cbn in Hn. lia. }
           pose proof (val_bounds' z1 O1) as Bz1. rewrite L1, skipn_length in Bz1.
           rewrite skipn_length in V1.
           set (lo := val (firstn n x)) in *. set (hi := val (skipn n x)) in *.
           pose proof (Bp_pos n). pose proof (Bp_pos (length x - n)).
           destruct (Z.eqb_spec c1 0) as [->|Ec1].
           ++ destruct (Z.ltb_spec (lo + Bp n * hi) (val y)); [nia|].
              f_equal. apply norm_eq_of_Z.
              ** apply words_ok_app. now split.
              ** rewrite val_app', L0. nia.
           ++ assert (c1 = 1) by lia. subst c1.
              destruct (Z.ltb_spec (lo + Bp n * hi) (val y)); [reflexivity | nia].
        -- assert (length x = n) by lia.
           rewrite (skipn_all2 x) by lia. cbn [val]. rewrite Z.mul_0_r, Z.add_0_r.
           pose proof (Bp_pos n).
           destruct (Z.eqb_spec c 0) as [->|Ec].
           ++ destruct (Z.ltb_spec (val (firstn n x)) (val y)); [lia|].
              f_equal. apply norm_eq_of_Z.
              ** rewrite app_nil_r. assumption.
              ** rewrite app_nil_r. lia.
           ++ assert (c = 1) by lia. subst c.
              destruct (Z.ltb_spec (val (firstn n x)) (val y)); [reflexivity | lia].
Qed.

(* ---- cmp ---------------------------------------------------------------- *)

Definition zsgn (a b : Z) : Z := if a <? b then -1 else if b <? a then 1 else 0.

Lemma cmp_words_spec x : forall y, length x = length y -> words_ok x = true -> words_ok y = true ->
  cmp_words x y = zsgn (val x) (val y).
Proof.
  induction x as [|a x IH]; intros y Hl Hx Hy.
  - destruct y; [reflexivity | discriminate].
  - destruct y as [|b y]; [discriminate|]. cbn [length] in Hl.
    apply words_ok_cons in Hx as [Ha Hx]. apply words_ok_cons in Hy as [Hb Hy].
    cbn [cmp_words val]. rewrite (IH y) by (assumption || lia). unfold zsgn.
    pose proof B_pos.
    destruct (Z.ltb_spec (val x) (val y)); cbn [Z.eqb].
    + destruct (Z.ltb_spec (a + B * val x) (b + B * val y)); [reflexivity | nia].
    + destruct (Z.ltb_spec (val y) (val x)); cbn [Z.eqb].
      * destruct (Z.ltb_spec (a + B * val x) (b + B * val y)); [nia|].
        destruct (Z.ltb_spec (b + B * val y) (a + B * val x)); [reflexivity | nia].
      * assert (val x = val y) by lia.
        destruct (Z.ltb_spec a b); destruct (Z.ltb_spec (a + B * val x) (b + B * val y)); try reflexivity; try nia.
        destruct (Z.ltb_spec b a); destruct (Z.ltb_spec (b + B * val y) (a + B * val x)); try reflexivity; nia.
Qed.

Lemma nat_cmp_spec x y : words_ok x = true -> words_ok y = true -> norm x = x -> norm y = y ->
  nat_cmp x y = zsgn (val x) (val y).
Proof.
  intros Hx Hy Nx Ny. unfold nat_cmp.
  destruct (Nat.ltb_spec (length x) (length y)) as [H1|H1].
  - pose proof (shorter_smaller x y Hx Hy Ny H1). unfold zsgn.
    destruct (Z.ltb_spec (val x) (val y)); [reflexivity | lia].
  - destruct (Nat.ltb_spec (length y) (length x)) as [H2|H2].
    + pose proof (shorter_smaller y x Hy Hx Nx H2). unfold zsgn.
      destruct (Z.ltb_spec (val x) (val y)); [lia|].
      destruct (Z.ltb_spec (val y) (val x)); [reflexivity | lia].
    + apply cmp_words_spec; try assumption. lia.
Qed.
