(* L2/KernVProofs.v — the value-level kernel specifications of KernV.v related
   to `val`, and the list/window lemmas the L2 proofs share. *)
From Coq Require Import ZArith List Bool Lia.
From Dec Require Import Base.Words Base.WordsProofs L2.KernV.
Open Scope Z_scope.

(* ---- powers of B ------------------------------------------------------- *)

Notation Bp n := (B ^ Z.of_nat n).

Lemma Bp_0 : Bp 0 = 1. Proof. reflexivity. Qed.
Lemma Bp_S n : Bp (S n) = B * Bp n.
Proof. rewrite Nat2Z.inj_succ, Z.pow_succ_r by lia. reflexivity. Qed.
Lemma Bp_add a b : Bp (a + b) = Bp a * Bp b.
Proof. rewrite Nat2Z.inj_add, Z.pow_add_r by lia. reflexivity. Qed.
Lemma Bp_pos n : 0 < Bp n. Proof. apply Bpow_pos. Qed.
Lemma Bp_ge1 n : 1 <= Bp n. Proof. pose proof (Bp_pos n). lia. Qed.
Lemma Bp_le a b : (a <= b)%nat -> Bp a <= Bp b.
Proof. intros. apply Z.pow_le_mono_r; [apply B_pos | lia]. Qed.
Lemma Bp_lt a b : (a < b)%nat -> Bp a < Bp b.
Proof. intros. apply Z.pow_lt_mono_r; [apply B_gt1 | lia | lia]. Qed.
Lemma Bp_split a b : (a <= b)%nat -> Bp b = Bp a * Bp (b - a).
Proof. intros. rewrite <- Bp_add. f_equal. f_equal. lia. Qed.

Lemma val_app' l r : val (l ++ r) = val l + Bp (length l) * val r.
Proof. apply val_app. Qed.
Lemma val_bounds' l : words_ok l = true -> 0 <= val l < Bp (length l).
Proof. apply val_bounds. Qed.
Lemma val_single w : val [w] = w.
Proof. cbn [val]. lia. Qed.

(* ---- lists: firstn / skipn / windows ----------------------------------- *)

Lemma words_ok_firstn k l : words_ok l = true -> words_ok (firstn k l) = true.
Proof.
  revert l; induction k as [|k IH]; intros l H; [reflexivity|].
  destruct l as [|w l]; [reflexivity|]. apply words_ok_cons in H as [Hw H]. cbn [firstn].
  apply words_ok_cons. split; [assumption | now apply IH].
Qed.

Lemma words_ok_nil : words_ok [] = true. Proof. reflexivity. Qed.

Lemma words_ok_repeat0 k : words_ok (repeat 0 k) = true.
Proof.
  induction k as [|k IH]; [reflexivity|]. cbn [repeat]. apply words_ok_cons. split; [|assumption].
  pose proof B_pos; lia.
Qed.

Lemma val_firstn_skipn k l : val l = val (firstn k l) + Bp (length (firstn k l)) * val (skipn k l).
Proof. rewrite <- val_app'. now rewrite firstn_skipn. Qed.

Lemma val_split k l : (k <= length l)%nat -> val l = val (firstn k l) + Bp k * val (skipn k l).
Proof. intros H. rewrite (val_firstn_skipn k l) at 1. rewrite firstn_length, Nat.min_l by lia. reflexivity. Qed.

Lemma firstn_app_l {A} k (l r : list A) : (k <= length l)%nat -> firstn k (l ++ r) = firstn k l.
Proof. intros H. rewrite firstn_app. replace (k - length l)%nat with 0%nat by lia. cbn [firstn]. now rewrite app_nil_r. Qed.
Lemma firstn_app_exact {A} (l r : list A) k : k = length l -> firstn k (l ++ r) = l.
Proof. intros ->. rewrite firstn_app, Nat.sub_diag, firstn_all. cbn. now rewrite app_nil_r. Qed.
Lemma skipn_app_exact {A} (l r : list A) k : k = length l -> skipn k (l ++ r) = r.
Proof. intros ->. rewrite skipn_app, Nat.sub_diag, skipn_all. reflexivity. Qed.
Lemma skipn_app_l {A} k (l r : list A) : (k <= length l)%nat -> skipn k (l ++ r) = skipn k l ++ r.
Proof. intros H. rewrite skipn_app. replace (k - length l)%nat with 0%nat by lia. reflexivity. Qed.
Lemma skipn_app_r {A} k (l r : list A) : (length l <= k)%nat -> skipn k (l ++ r) = skipn (k - length l) r.
Proof. intros H. rewrite skipn_app. rewrite (skipn_all2 l) by lia. reflexivity. Qed.
Lemma firstn_app_r {A} k (l r : list A) : (length l <= k)%nat -> firstn k (l ++ r) = l ++ firstn (k - length l) r.
Proof. intros H. rewrite firstn_app. rewrite (firstn_all2 l) by lia. reflexivity. Qed.

Lemma skipn_skipn' {A} a b (l : list A) : skipn a (skipn b l) = skipn (b + a) l.
Proof.
  revert l; induction b as [|b IH]; intros l; [reflexivity|].
  destruct l as [|w l]; [cbn; now rewrite skipn_nil|]. cbn [skipn Nat.add]. apply IH.
Qed.

Lemma firstn_skipn_comm' {A} a b (l : list A) : firstn a (skipn b l) = skipn b (firstn (b + a) l).
Proof. now rewrite firstn_skipn_comm. Qed.

Lemma firstn_firstn' {A} a b (l : list A) : (a <= b)%nat -> firstn a (firstn b l) = firstn a l.
Proof. intros. rewrite firstn_firstn. now rewrite Nat.min_l by lia. Qed.

Lemma length_win z i n : (i + n <= length z)%nat -> length (win z i n) = n.
Proof. intros. unfold win. rewrite firstn_length, skipn_length. lia. Qed.
Lemma words_ok_win z i n : words_ok z = true -> words_ok (win z i n) = true.
Proof. intros. unfold win. now apply words_ok_firstn, words_ok_skipn. Qed.

Lemma length_splice z i w : (i + length w <= length z)%nat -> length (splice z i w) = length z.
Proof. intros. unfold splice. rewrite !app_length, firstn_length, skipn_length. lia. Qed.
Lemma firstn_splice z i w k : (k <= i)%nat -> (i <= length z)%nat -> firstn k (splice z i w) = firstn k z.
Proof.
  intros. unfold splice. rewrite firstn_app_l by (rewrite firstn_length; lia).
  now rewrite firstn_firstn' by lia.
Qed.
Lemma skipn_splice z i w : (i <= length z)%nat -> skipn i (splice z i w) = w ++ skipn (i + length w) z.
Proof. intros. unfold splice. rewrite skipn_app_exact; [reflexivity|]. rewrite firstn_length; lia. Qed.
Lemma skipn_splice_above z i w k : (i + length w <= k)%nat -> (i <= length z)%nat ->
  skipn k (splice z i w) = skipn k z.
Proof.
  intros. unfold splice. rewrite skipn_app_r by (rewrite firstn_length; lia).
  rewrite firstn_length, Nat.min_l by lia. rewrite skipn_app_r by lia.
  rewrite skipn_skipn'. f_equal. lia.
Qed.
Lemma splice_0 z w : splice z 0 w = w ++ skipn (length w) z.
Proof. reflexivity. Qed.
Lemma win_splice_same z i w : (i <= length z)%nat -> win (splice z i w) i (length w) = w.
Proof. intros. unfold win. rewrite skipn_splice by assumption. now apply firstn_app_exact. Qed.

Lemma words_ok_splice z i w : words_ok z = true -> words_ok w = true -> words_ok (splice z i w) = true.
Proof.
  intros. unfold splice. rewrite !words_ok_app. repeat split;
  [now apply words_ok_firstn | assumption | now apply words_ok_skipn].
Qed.

(* ---- add10VV / sub10VV -------------------------------------------------- *)

Ltac fin_step :=
  cbn [length val]; rewrite Bp_S; repeat split; try lia;
  try (apply words_ok_cons; split; [lia | assumption]); try nia.

Lemma add10VV_v_spec x : forall y c z c',
  length x = length y -> words_ok x = true -> words_ok y = true -> 0 <= c <= 1 ->
  add10VV_v x y c = (z, c') ->
  length z = length x /\ words_ok z = true /\ 0 <= c' <= 1 /\
  val z + Bp (length x) * c' = val x + val y + c.
Proof.
  induction x as [|a x IH]; intros y c z c' Hl Hx Hy Hc E.
  - destruct y; [|discriminate]. cbn in E. inversion E; subst. cbn [length val]. change (Z.of_nat 0) with 0; rewrite Z.pow_0_r. repeat split; try lia.
  - destruct y as [|b y]; [discriminate|]. cbn [add10VV_v] in E.
    apply words_ok_cons in Hx as [Ha Hx]. apply words_ok_cons in Hy as [Hb Hy].
    cbn [length] in Hl.
    destruct (a + b + c <? B) eqn:Es; [apply Z.ltb_lt in Es | apply Z.ltb_ge in Es].
    + destruct (add10VV_v x y 0) as [z1 c1] eqn:E1. inversion E; subst.
      destruct (IH y 0 z1 c' ltac:(lia) Hx Hy ltac:(lia) E1) as (L & O & C & V).
      fin_step.
    + destruct (add10VV_v x y 1) as [z1 c1] eqn:E1. inversion E; subst.
      destruct (IH y 1 z1 c' ltac:(lia) Hx Hy ltac:(lia) E1) as (L & O & C & V).
      fin_step.
Qed.

Lemma sub10VV_v_spec x : forall y c z c',
  length x = length y -> words_ok x = true -> words_ok y = true -> 0 <= c <= 1 ->
  sub10VV_v x y c = (z, c') ->
  length z = length x /\ words_ok z = true /\ 0 <= c' <= 1 /\
  val z - Bp (length x) * c' = val x - val y - c.
Proof.
  induction x as [|a x IH]; intros y c z c' Hl Hx Hy Hc E.
  - destruct y; [|discriminate]. cbn in E. inversion E; subst. cbn [length val]. change (Z.of_nat 0) with 0; rewrite Z.pow_0_r. repeat split; try lia.
  - destruct y as [|b y]; [discriminate|]. cbn [sub10VV_v] in E.
    apply words_ok_cons in Hx as [Ha Hx]. apply words_ok_cons in Hy as [Hb Hy].
    cbn [length] in Hl.
    destruct (a - b - c <? 0) eqn:Es; [apply Z.ltb_lt in Es | apply Z.ltb_ge in Es].
    + destruct (sub10VV_v x y 1) as [z1 c1] eqn:E1. inversion E; subst.
      destruct (IH y 1 z1 c' ltac:(lia) Hx Hy ltac:(lia) E1) as (L & O & C & V).
      fin_step.
    + destruct (sub10VV_v x y 0) as [z1 c1] eqn:E1. inversion E; subst.
      destruct (IH y 0 z1 c' ltac:(lia) Hx Hy ltac:(lia) E1) as (L & O & C & V).
      fin_step.
Qed.

(* the borrow of a full-length subtraction says which operand is larger *)
Lemma sub10VV_v_borrow x y z c' :
  length x = length y -> words_ok x = true -> words_ok y = true ->
  sub10VV_v x y 0 = (z, c') ->
  (c' = 0 /\ val y <= val x /\ val z = val x - val y) \/
  (c' = 1 /\ val x < val y /\ val z = val x - val y + Bp (length x)).
Proof.
  intros Hl Hx Hy E.
  destruct (sub10VV_v_spec x y 0 z c' Hl Hx Hy ltac:(lia) E) as (L & O & C & V).
  pose proof (val_bounds' z O) as Bz. rewrite L in Bz.
  pose proof (val_bounds' x Hx). pose proof (val_bounds' y Hy). rewrite <- Hl in *.
  assert (c' = 0 \/ c' = 1) as [-> | ->] by lia; [left | right]; repeat split; lia.
Qed.

(* ---- add10VW / sub10VW -------------------------------------------------- *)

Lemma add10VW_v_spec x : forall y z c',
  words_ok x = true -> 0 <= y < B ->
  add10VW_v x y = (z, c') ->
  length z = length x /\ words_ok z = true /\ 0 <= c' /\ (c' <= 1 \/ (x = [] /\ c' = y)) /\
  val z + Bp (length x) * c' = val x + y.
Proof.
  induction x as [|a x IH]; intros y z c' Hx Hy E.
  - cbn in E. inversion E; subst. cbn [length val]. change (Z.of_nat 0) with 0; rewrite Z.pow_0_r. repeat split; try lia. right; split; reflexivity.
  - cbn [add10VW_v] in E. apply words_ok_cons in Hx as [Ha Hx].
    destruct (a + y <? B) eqn:Es; [apply Z.ltb_lt in Es | apply Z.ltb_ge in Es].
    + destruct (add10VW_v x 0) as [z1 c1] eqn:E1. inversion E; subst.
      destruct (IH 0 z1 c' Hx ltac:(pose proof B_pos; lia) E1) as (L & O & C0 & C & V).
      fin_step; try (left; destruct C as [C | [_ C]]; lia).
    + destruct (add10VW_v x 1) as [z1 c1] eqn:E1. inversion E; subst.
      destruct (IH 1 z1 c' Hx ltac:(pose proof B_gt1; lia) E1) as (L & O & C0 & C & V).
      fin_step; try (left; destruct C as [C | [_ C]]; lia).
Qed.

Lemma sub10VW_v_spec x : forall y z c',
  words_ok x = true -> 0 <= y < B ->
  sub10VW_v x y = (z, c') ->
  length z = length x /\ words_ok z = true /\ 0 <= c' /\ (c' <= 1 \/ (x = [] /\ c' = y)) /\
  val z - Bp (length x) * c' = val x - y.
Proof.
  induction x as [|a x IH]; intros y z c' Hx Hy E.
  - cbn in E. inversion E; subst. cbn [length val]. change (Z.of_nat 0) with 0; rewrite Z.pow_0_r. repeat split; try lia. right; split; reflexivity.
  - cbn [sub10VW_v] in E. apply words_ok_cons in Hx as [Ha Hx].
    destruct (a - y <? 0) eqn:Es; [apply Z.ltb_lt in Es | apply Z.ltb_ge in Es].
    + destruct (sub10VW_v x 1) as [z1 c1] eqn:E1. inversion E; subst.
      destruct (IH 1 z1 c' Hx ltac:(pose proof B_gt1; lia) E1) as (L & O & C0 & C & V).
      fin_step; try (left; destruct C as [C | [_ C]]; lia).
    + destruct (sub10VW_v x 0) as [z1 c1] eqn:E1. inversion E; subst.
      destruct (IH 0 z1 c' Hx ltac:(pose proof B_pos; lia) E1) as (L & O & C0 & C & V).
      fin_step; try (left; destruct C as [C | [_ C]]; lia).
Qed.

(* ---- mulAdd10VWW / addMul10VVW ------------------------------------------ *)

Lemma divmod_word t : 0 <= t < B * B -> 0 <= t mod B < B /\ 0 <= t / B < B /\ t = B * (t / B) + t mod B.
Proof.
  intros H. pose proof B_pos. pose proof (Z.mod_pos_bound t B ltac:(lia)).
  pose proof (Z.div_mod t B ltac:(lia)). repeat split; try lia.
  - apply Z.div_pos; lia.
  - apply Z.div_lt_upper_bound; lia.
Qed.

Lemma mulAdd10VWW_v_spec x : forall y r z c,
  words_ok x = true -> 0 <= y < B -> 0 <= r < B ->
  mulAdd10VWW_v x y r = (z, c) ->
  length z = length x /\ words_ok z = true /\ 0 <= c < B /\
  val z + Bp (length x) * c = val x * y + r.
Proof.
  induction x as [|a x IH]; intros y r z c Hx Hy Hr E.
  - cbn in E. inversion E; subst. cbn [length val]. change (Z.of_nat 0) with 0; rewrite Z.pow_0_r. repeat split; lia.
  - cbn [mulAdd10VWW_v] in E. apply words_ok_cons in Hx as [Ha Hx].
    destruct (mulAdd10VWW_v x y ((a * y + r) / B)) as [z1 c1] eqn:E1. inversion E; subst.
    assert (Ht : 0 <= a * y + r < B * B) by nia.
    destruct (divmod_word _ Ht) as (M & D & Q).
    destruct (IH y _ z1 c Hx Hy D E1) as (L & O & C & V).
    fin_step.
Qed.

Lemma addMul10VVW_c_spec z : forall x y c r c',
  length z = length x -> words_ok z = true -> words_ok x = true -> 0 <= y < B -> 0 <= c < B ->
  addMul10VVW_c z x y c = (r, c') ->
  length r = length z /\ words_ok r = true /\ 0 <= c' < B /\
  val r + Bp (length z) * c' = val z + val x * y + c.
Proof.
  induction z as [|w z IH]; intros x y c r c' Hl Hz Hx Hy Hc E.
  - destruct x; [|discriminate]. cbn in E. inversion E; subst. cbn [length val]. change (Z.of_nat 0) with 0; rewrite Z.pow_0_r. repeat split; lia.
  - destruct x as [|a x]; [discriminate|]. cbn [addMul10VVW_c] in E.
    apply words_ok_cons in Hx as [Ha Hx]. apply words_ok_cons in Hz as [Hw Hz]. cbn [length] in Hl.
    destruct (addMul10VVW_c z x y ((a * y + w + c) / B)) as [r1 c1] eqn:E1. inversion E; subst.
    assert (Ht : 0 <= a * y + w + c < B * B) by nia.
    destruct (divmod_word _ Ht) as (M & D & Q).
    destruct (IH x y _ r1 c' ltac:(lia) Hz Hx Hy D E1) as (L & O & C & V).
    fin_step.
Qed.

Lemma addMul10VVW_v_spec z x y r c' :
  length z = length x -> words_ok z = true -> words_ok x = true -> 0 <= y < B ->
  addMul10VVW_v z x y = (r, c') ->
  length r = length z /\ words_ok r = true /\ 0 <= c' < B /\
  val r + Bp (length z) * c' = val z + val x * y.
Proof.
  intros Hl Hz Hx Hy E. unfold addMul10VVW_v in E.
  destruct (addMul10VVW_c_spec z x y 0 r c' Hl Hz Hx Hy ltac:(pose proof B_pos; lia) E) as (L & O & C & V).
  repeat split; try assumption; lia.
Qed.

(* ---- div10VWW ----------------------------------------------------------- *)

Lemma div10VWW_v_spec x : forall y xn q r,
  words_ok x = true -> 0 < y -> 0 <= xn < y ->
  div10VWW_v x y xn = (q, r) ->
  length q = length x /\ words_ok q = true /\ 0 <= r < y /\
  val q * y + r = xn * Bp (length x) + val x.
Proof.
  induction x as [|a x IH]; intros y xn q r Hx Hy Hxn E.
  - cbn in E. inversion E; subst. cbn [length val]. change (Z.of_nat 0) with 0; rewrite Z.pow_0_r. repeat split; lia.
  - cbn [div10VWW_v] in E. apply words_ok_cons in Hx as [Ha Hx].
    destruct (div10VWW_v x y xn) as [q1 r1] eqn:E1. inversion E; subst.
    destruct (IH y xn q1 r1 Hx Hy Hxn E1) as (L & O & R & V).
    pose proof B_pos.
    pose proof (Z.mod_pos_bound (r1 * B + a) y Hy).
    pose proof (Z.div_mod (r1 * B + a) y ltac:(lia)).
    assert (0 <= (r1 * B + a) / y < B).
    { split; [apply Z.div_pos; nia | apply Z.div_lt_upper_bound; nia]. }
    fin_step.
Qed.

(* ---- mul10WW / div10WW -------------------------------------------------- *)

Lemma mul10WW_v_spec x y hi lo : 0 <= x < B -> 0 <= y < B -> mul10WW_v x y = (hi, lo) ->
  0 <= hi < B /\ 0 <= lo < B /\ hi * B + lo = x * y.
Proof.
  intros Hx Hy E. unfold mul10WW_v in E. inversion E; subst.
  assert (Ht : 0 <= x * y < B * B) by nia.
  destruct (divmod_word _ Ht) as (M & D & Q). repeat split; lia.
Qed.

Lemma div10WW_v_spec x1 x0 y q r : 0 <= x1 < y -> 0 <= x0 < B -> y <= B -> div10WW_v x1 x0 y = (q, r) ->
  0 <= q < B /\ 0 <= r < y /\ q * y + r = x1 * B + x0.
Proof.
  intros H1 H0 Hy E. unfold div10WW_v in E. inversion E; subst.
  pose proof (Z.mod_pos_bound (x1 * B + x0) y ltac:(lia)).
  pose proof (Z.div_mod (x1 * B + x0) y ltac:(lia)).
  repeat split; try lia.
  - apply Z.div_pos; nia.
  - apply Z.div_lt_upper_bound; nia.
Qed.
