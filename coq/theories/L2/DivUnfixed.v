(* L2/DivUnfixed.v — divRecursiveStep as it was before the fix of dec.go:905
   (`s := B` in the final step instead of `s := B - 1`, the math/big 1.14.0
   code): kept only for the refutation witness in Props/C06b.v.  Identical to
   Div.divRecStep except for the marked line.  Definitions only. *)
From Dec Require Export L2.Div.
Open Scope Z_scope.

Fixpoint divRecStep_unfixed (fuel : nat) (thrD thrK junk : Z) (depth : nat)
    (temps : list bool) (z u v : list Z) {struct fuel} : option rstate :=
  match fuel with
  | O => None
  | S f =>
      let un := norm u in
      let vn := norm v in
      let rest := skipn (length un) u in
      if (length un =? 0)%nat then Some (clear z, u, temps)
      else
        let n := length vn in
        if Z.of_nat n <? thrD then
          match divBasic z un vn with
          | None => None
          | Some (z', u') => Some (z', u' ++ rest, temps)
          end
        else if (length un <? n)%nat then Some (z, u, temps)
        else
          let m := (length un - n)%nat in
          let Bk := (n / 2)%nat in
          if (length temps <=? depth)%nat then None          (* temps[depth] out of range *)
          else
            let qlen := if nth depth temps false then S Bk else n in
            let temps := set_nth temps depth true in
            match rec_blocks (divRecStep_unfixed f thrD thrK junk (S depth)) thrK junk qlen Bk n vn
                    (length un) m z un temps with
            | None => None
            | Some (z, un, temps) =>
                let s := Bk in                      (* <- the defect: Div.v has Bk - 1 *)
                match divRecStep_unfixed f thrD thrK junk (S depth) temps (repeat 0 qlen)
                        (skipn s un) (skipn s vn) with
                | None => None
                | Some (qhat, w, temps) =>
                    let un := firstn s un ++ w in
                    let qhat := norm qhat in
                    let qhatv := mul thrK junk qhat (firstn s vn) in
                    let '(qhat, qhatv, un) :=
                      if 0 <? nat_cmp qhatv (norm un) then rec_adjust qhat qhatv un vn s
                      else (qhat, qhatv, un) in
                    let '(qhat, qhatv, un) :=
                      if 0 <? nat_cmp qhatv (norm un) then rec_adjust qhat qhatv un vn s
                      else (qhat, qhatv, un) in
                    if 0 <? nat_cmp qhatv (norm un) then None       (* panic("impossible") *)
                    else
                      let (un, c) := rec_subtract un qhatv in
                      if 0 <? c then None                           (* panic("impossible") *)
                      else Some (decAddAt z (norm qhat) 0, un ++ rest, temps)
                end
            end
  end.

Definition divRecursive_unfixed (thrD thrK junk : Z) (z u v : list Z) : option (list Z * list Z) :=
  let recDepth := (2 * (if (length v =? 0)%nat then 0 else bitlen (length v)))%nat in
  match divRecStep_unfixed (S (length v)) thrD thrK junk 0 (repeat false recDepth) (clear z) u v with
  | None => None
  | Some (z, u, _) => Some (z, u)
  end.

