(* L2/DivRecLemmas.v — the pieces of divRecursiveStep (Burnikel-Ziegler):
   value lemmas for rec_adjust, rec_subtract, decAddAt beyond the end of z,
   comparison with an unnormalised left operand, and the arithmetic of the
   block quotient estimate ("at most 2 too large"). *)
From Coq Require Import ZArith List Bool Lia.
From Dec Require Import Base.Words Base.WordsProofs L2.KernV L2.KernVProofs L2.Nat L2.NatProofs
  L2.Mul L2.MulProofs L2.Div L2.DivProofs.
Import ListNotations.
Open Scope Z_scope.

(* ---- lists --------------------------------------------------------------- *)

Lemma norm_prefix l : exists k, l = norm l ++ repeat 0 k.
Proof.
  induction l as [|w r [k IH]]; [exists 0%nat; reflexivity|].
  cbn [norm]. destruct (norm r) as [|a r'] eqn:E.
  - cbn [app] in IH. destruct (Z.eqb_spec w 0) as [->|Hw].
    + exists (S k). cbn [repeat app]. now rewrite IH at 1.
    + exists k. cbn [app]. now rewrite IH at 1.
  - exists k. cbn [app]. rewrite IH at 1. reflexivity.
Qed.

Lemma norm_firstn l : norm l = firstn (length (norm l)) l.
Proof. destruct (norm_prefix l) as [k E]. rewrite E at 3. now rewrite firstn_app_exact. Qed.

Lemma norm_skipn l : exists k, skipn (length (norm l)) l = repeat 0 k.
Proof. destruct (norm_prefix l) as [k E]. exists k. rewrite E at 2. now rewrite skipn_app_exact. Qed.

Lemma length_norm_le l : (length (norm l) <= length l)%nat.
Proof. pose proof (zlen_norm_le l). unfold zlen in *. lia. Qed.

Lemma val_zero_tail l k : words_ok l = true -> val l < Bp k -> val (skipn k l) = 0.
Proof.
  intros Ol H. rewrite val_skipn by assumption. apply Z.div_small.
  pose proof (val_nonneg l Ol). lia.
Qed.

Lemma val_firstn_of_small l k : words_ok l = true -> val l < Bp k -> val (firstn k l) = val l.
Proof.
  intros Ol H. pose proof (val_zero_tail l k Ol H) as Z0.
  pose proof (val_firstn_skipn k l) as E. rewrite Z0 in E. lia.
Qed.

(* a normalised list whose value is below B^k has at most k words *)
Lemma norm_length_le l k : words_ok l = true -> norm l = l -> val l < Bp k -> (length l <= k)%nat.
Proof.
  intros Ol Nl H. destruct l as [|a l']; [cbn [length]; lia|].
  pose proof (norm_nonempty_bounds (a :: l') Ol Nl ltac:(congruence)) as Hlo.
  destruct (Nat.le_gt_cases (length (a :: l')) k) as [|Hgt]; [assumption|].
  pose proof (Bp_le k (length (a :: l') - 1) ltac:(lia)). lia.
Qed.

(* top word non-zero: already normalised *)
Lemma norm_of_top_pos l : (1 <= length l)%nat -> nthw l (length l - 1) <> 0 -> norm l = l.
Proof.
  intros Hl Ht. assert (l <> []) by (intros ->; cbn in Hl; lia).
  apply norm_nonempty_last; [assumption|]. now rewrite <- nthw_last.
Qed.

Lemma nthw_skipn l s i : nthw (skipn s l) i = nthw l (s + i).
Proof. unfold nthw. apply nth_skipn'. Qed.

(* the value of a list with a large top word *)
Lemma val_top_half l n : length l = n -> (1 <= n)%nat -> words_ok l = true ->
  B <= 2 * nthw l (n - 1) -> Bp n <= 2 * val l.
Proof.
  intros Hl Hn Ol Ht. pose proof (val_top_lower l n Hl Hn Ol) as Hlo.
  pose proof (Bp_pos (n - 1)).
  replace (Bp n) with (B * Bp (n - 1)) by (rewrite <- Bp_S; f_equal; f_equal; lia). nia.
Qed.

(* ---- add10VV over operands of different lengths --------------------------- *)

Lemma add10VV_v_trunc x : forall y c, add10VV_v x y c = add10VV_v x (firstn (length x) y) c.
Proof.
  induction x as [|a x IH]; intros y c.
  - destruct y; reflexivity.
  - destruct y as [|b y]; [reflexivity|]. cbn [length firstn add10VV_v].
    destruct (if a + b + c <? B then (a + b + c, 0) else (a + b + c - B, 1)) as [w c1].
    now rewrite IH.
Qed.

(* decAddAt when x may reach beyond the end of z but the sum fits z: the words
   of x beyond z are zero and nothing is lost.  (In Go z[i:i+len x] then reaches
   into the capacity of z.) *)
Lemma decAddAt_exact_gen z x i :
  words_ok z = true -> words_ok x = true -> (i <= length z)%nat ->
  val z + Bp i * val x < Bp (length z) ->
  length (decAddAt z x i) = length z /\ words_ok (decAddAt z x i) = true /\
  val (decAddAt z x i) = val z + Bp i * val x.
Proof.
  intros Oz Ox Hi Hfit.
  destruct (Nat.le_gt_cases (i + length x) (length z)) as [Hle|Hgt].
  - destruct (decAddAt_spec z x i Oz Ox Hle) as (L & O & _).
    repeat split; try assumption. now apply decAddAt_exact.
  - unfold decAddAt. destruct (Nat.eqb_spec (length x) 0) as [E|E]; [lia|].
    set (k := (length z - i)%nat).
    assert (Hw : win z i (length x) = skipn i z).
    { unfold win. apply firstn_all2. rewrite skipn_length. lia. }
    rewrite Hw. rewrite add10VV_v_trunc. rewrite skipn_length. fold k.
    destruct (add10VV_v (skipn i z) (firstn k x) 0) as [w c] eqn:Ea.
    assert (Lk : length (firstn k x) = k) by (rewrite firstn_length; lia).
    destruct (add10VV_v_spec (skipn i z) (firstn k x) 0 w c) as (Lw & Ow & Cc & Vw);
      [rewrite skipn_length; lia | now apply words_ok_skipn | now apply words_ok_firstn | lia | assumption |].
    rewrite skipn_length in Lw, Vw. fold k in Lw, Vw.
    assert (Ez1 : splice z i w = firstn i z ++ w).
    { unfold splice. rewrite skipn_all2 by lia. now rewrite app_nil_r. }
    assert (R : (if c =? 0 then splice z i w
                 else if (i + length x <? length z)%nat
                      then firstn (i + length x) (splice z i w) ++
                           fst (add10VW_v (skipn (i + length x) (splice z i w)) c)
                      else splice z i w) = firstn i z ++ w).
    { destruct (c =? 0); [assumption|]. destruct (Nat.ltb_spec (i + length x) (length z)); [lia | assumption]. }
    rewrite R.
    assert (Li : length (firstn i z) = i) by (rewrite firstn_length; lia).
    (* the value *)
    pose proof (val_split i z Hi) as Vz.
    assert (Bx : val x < Bp k).
    { pose proof (val_nonneg z Oz). pose proof (Bp_pos i).
      assert (Bp (length z) = Bp i * Bp k) by (rewrite <- Bp_add; f_equal; f_equal; lia).
      nia. }
    pose proof (val_firstn_of_small x k Ox Bx) as Vfx.
    pose proof (val_bounds' w Ow) as Bw. rewrite Lw in Bw.
    assert (Hpow : Bp (length z) = Bp i * Bp k) by (rewrite <- Bp_add; f_equal; f_equal; lia).
    pose proof (Bp_pos i) as Hpi. pose proof (Bp_pos k) as Hpk.
    assert (Ec : c = 0).
    { pose proof (val_nonneg _ (words_ok_firstn i z Oz)) as Hf0.
      assert (Bp i * (val w + Bp k * c) < Bp i * Bp k) by (rewrite Vw, Vfx; lia).
      assert (val w + Bp k * c < Bp k) by nia. nia. }
    subst c. repeat split.
    + rewrite app_length, Li, Lw. lia.
    + apply words_ok_app. split; [now apply words_ok_firstn | assumption].
    + rewrite val_app', Li. rewrite Vz. rewrite Vfx in Vw. nia.
Qed.

(* ---- comparison ---------------------------------------------------------- *)

(* dec.cmp with an unnormalised left operand that is not longer than the right one *)
Lemma nat_cmp_short x y : words_ok x = true -> words_ok y = true ->
  Bp (length x) <= B * val y -> nat_cmp x (norm y) = zsgn (val x) (val y).
Proof.
  intros Ox Oy H. set (y' := norm y).
  assert (Oy' : words_ok y' = true) by now apply words_ok_norm.
  assert (Vy' : val y' = val y) by apply val_norm.
  pose proof (val_bounds' y' Oy') as By'. pose proof (val_bounds' x Ox) as Bx.
  assert (Hl : (length x <= length y')%nat).
  { destruct (Nat.le_gt_cases (length x) (length y')) as [|Hgt]; [assumption|].
    pose proof (Bp_le (S (length y')) (length x) ltac:(lia)) as Hp. rewrite Bp_S in Hp.
    pose proof B_pos. nia. }
  unfold nat_cmp. destruct (Nat.ltb_spec (length x) (length y')) as [Hlt|Hge].
  - assert (y' <> []) by (intros E; rewrite E in Hlt; cbn in Hlt; lia).
    pose proof (norm_nonempty_bounds y' Oy' (norm_idem y) H0) as Hlo.
    pose proof (Bp_le (length x) (length y' - 1) ltac:(lia)).
    unfold zsgn. destruct (Z.ltb_spec (val x) (val y)); [reflexivity | lia].
  - destruct (Nat.ltb_spec (length y') (length x)); [lia|].
    rewrite cmp_words_spec by (assumption || lia). now rewrite Vy'.
Qed.

Lemma nat_cmp_norm_r x y : words_ok x = true -> words_ok y = true -> norm x = x ->
  nat_cmp x (norm y) = zsgn (val x) (val y).
Proof.
  intros Ox Oy Nx. rewrite nat_cmp_spec; [now rewrite val_norm | assumption | now apply words_ok_norm
    | assumption | apply norm_idem].
Qed.

Lemma zsgn_pos a b : (0 <? zsgn a b) = (b <? a).
Proof.
  unfold zsgn. destruct (Z.ltb_spec a b), (Z.ltb_spec b a); try reflexivity; lia.
Qed.

Lemma leb0_ltb0 x : (x <=? 0) = negb (0 <? x).
Proof. destruct (Z.leb_spec x 0), (Z.ltb_spec 0 x); try reflexivity; lia. Qed.

(* ---- small arithmetic helpers (kept apart: nia is erratic in big contexts) -- *)

Lemma carry_zero a M c X : 0 <= a < M -> 0 <= X -> 0 <= c -> a = X + M * c -> c = 0.
Proof. intros. nia. Qed.

Lemma limb_sub_eq w w2 P Q c c2 a b Vl :
  w - P * c = a - Vl -> w2 - Q * c2 = b - c -> w + P * w2 = (a + P * b) - Vl + P * (Q * c2).
Proof. intros H1 H2. replace w with (a - Vl + P * c) by lia. replace w2 with (b - c + Q * c2) by lia. ring. Qed.

Lemma no_borrow_word q1 q M c : 0 <= q1 < M -> 0 <= q < M -> 1 <= q -> 0 <= c -> q1 - M * c = q - 1 -> c = 0.
Proof. intros. nia. Qed.

Lemma two_limb a b P Q : 0 <= a < P -> 0 <= b < Q -> 0 <= a + P * b < P * Q.
Proof. intros. nia. Qed.

(* ---- rec_subtract -------------------------------------------------------- *)

Lemma rec_subtract_spec uu qhatv :
  words_ok uu = true -> words_ok qhatv = true -> (length qhatv <= length uu)%nat ->
  val qhatv <= val uu ->
  exists uu', rec_subtract uu qhatv = (uu', 0) /\ length uu' = length uu /\ words_ok uu' = true /\
              val uu' = val uu - val qhatv.
Proof.
  intros Ou Oq Hl Hle. unfold rec_subtract. set (L := length qhatv).
  assert (LF : length (firstn L uu) = L) by (rewrite firstn_length; lia).
  destruct (sub10VV_v (firstn L uu) qhatv 0) as [w c] eqn:Es.
  destruct (sub10VV_v_spec (firstn L uu) qhatv 0 w c) as (Lw & Ow & Cc & Vw);
    [lia | now apply words_ok_firstn | assumption | lia | assumption |].
  rewrite LF in Lw, Vw.
  pose proof (val_split L uu Hl) as Vu.
  pose proof (val_bounds' w Ow) as Bw. rewrite Lw in Bw.
  pose proof (Bp_pos L) as HpL.
  assert (Os : words_ok (skipn L uu) = true) by now apply words_ok_skipn.
  assert (Ls : length (skipn L uu) = (length uu - L)%nat) by apply skipn_length.
  destruct (Z.ltb_spec 0 c) as [Hc|Hc].
  - destruct (sub10VW_v (skipn L uu) c) as [w2 c2] eqn:E2.
    destruct (sub10VW_v_spec (skipn L uu) c w2 c2 Os ltac:(pose proof B_gt1; lia) E2) as (L2 & O2 & C0 & C2 & V2).
    rewrite Ls in L2, V2.
    pose proof (val_bounds' w2 O2) as B2. rewrite L2 in B2.
    pose proof (Bp_pos (length uu - L)) as Hp2.
    assert (c2 = 0).
    { pose proof (two_limb (val w) (val w2) (Bp L) (Bp (length uu - L)) Bw B2) as Hb.
      apply (carry_zero (val w + Bp L * val w2) (Bp L * Bp (length uu - L)) c2 (val uu - val qhatv) Hb);
        [clear - Hle; lia | assumption |].
      rewrite (limb_sub_eq _ _ _ _ _ _ _ _ _ Vw V2). clear - Vu. lia. }
    subst c2. exists (w ++ w2). repeat split.
    + rewrite app_length. lia.
    + apply words_ok_app. now split.
    + rewrite val_app', Lw. nia.
  - assert (c = 0) by lia. subst c. exists (w ++ skipn L uu). repeat split.
    + rewrite app_length. lia.
    + apply words_ok_app. now split.
    + rewrite val_app', Lw. nia.
Qed.

(* ---- rec_adjust ---------------------------------------------------------- *)

Lemma rec_adjust_spec qhat qhatv uu v s :
  words_ok qhat = true -> words_ok qhatv = true -> words_ok uu = true -> words_ok v = true ->
  (s <= length v)%nat -> (length v <= length uu)%nat ->
  1 <= val qhat -> val qhatv = val qhat * val (firstn s v) ->
  val uu + Bp s * val (skipn s v) < Bp (length uu) ->
  exists qhat' qhatv' uu', rec_adjust qhat qhatv uu v s = (qhat', qhatv', uu') /\
    length qhat' = length qhat /\ length qhatv' = length qhatv /\ length uu' = length uu /\
    words_ok qhat' = true /\ words_ok qhatv' = true /\ words_ok uu' = true /\
    val qhat' = val qhat - 1 /\ val qhatv' = val qhatv - val (firstn s v) /\
    val uu' = val uu + Bp s * val (skipn s v).
Proof.
  intros Oq Oqv Ou Ov Hs Hlv Hq1 Vqv Hfit. unfold rec_adjust.
  set (Vl := val (firstn s v)) in *. set (Vh := val (skipn s v)) in *.
  assert (OVl : words_ok (firstn s v) = true) by now apply words_ok_firstn.
  pose proof (val_nonneg _ OVl) as HVl0. fold Vl in HVl0.
  assert (Hge : Vl <= val qhatv) by nia.
  (* q̂ - 1 *)
  destruct (sub10VW_v qhat 1) as [q1 c1] eqn:E1.
  destruct (sub10VW_v_spec qhat 1 q1 c1 Oq ltac:(pose proof B_gt1; lia) E1) as (L1 & O1 & C0 & C1 & V1).
  assert (Ec1 : c1 = 0).
  { pose proof (val_bounds' q1 O1) as B1. rewrite L1 in B1. pose proof (val_bounds' qhat Oq) as Bq.
    exact (no_borrow_word _ _ _ _ B1 Bq Hq1 C0 V1). }
  subst c1. cbn [fst].
  (* q̂v - v[:s] *)
  set (L := length qhatv).
  pose proof (val_bounds' qhatv Oqv) as Bqv. fold L in Bqv.
  assert (exists qv', (if (s <? L)%nat
            then let (w, c) := sub10VV_v (firstn s qhatv) (firstn s v) 0 in
                 w ++ fst (sub10VW_v (skipn s qhatv) c)
            else fst (sub10VV_v qhatv (firstn L v) 0)) = qv' /\
          length qv' = L /\ words_ok qv' = true /\ val qv' = val qhatv - Vl) as (qv' & Eqv & Lqv & Oqv' & Vqv').
  { destruct (Nat.ltb_spec s L) as [HsL|HsL].
    - assert (LF : length (firstn s qhatv) = s) by (rewrite firstn_length; fold L; lia).
      assert (LFv : length (firstn s v) = s) by (rewrite firstn_length; lia).
      destruct (sub10VV_v (firstn s qhatv) (firstn s v) 0) as [w c] eqn:Es.
      destruct (sub10VV_v_spec (firstn s qhatv) (firstn s v) 0 w c) as (Lw & Ow & Cc & Vw);
        [lia | now apply words_ok_firstn | assumption | lia | assumption |].
      rewrite LF in Lw, Vw. fold Vl in Vw.
      assert (Os : words_ok (skipn s qhatv) = true) by now apply words_ok_skipn.
      assert (Ls : length (skipn s qhatv) = (L - s)%nat) by apply skipn_length.
      destruct (sub10VW_v (skipn s qhatv) c) as [w2 c2] eqn:E2.
      destruct (sub10VW_v_spec (skipn s qhatv) c w2 c2 Os ltac:(pose proof B_gt1; lia) E2) as (L2 & O2 & C20 & C2 & V2).
      rewrite Ls in L2, V2. cbn [fst].
      pose proof (val_split s qhatv ltac:(fold L; lia)) as Vsp.
      pose proof (val_bounds' w Ow) as Bw. rewrite Lw in Bw.
      pose proof (val_bounds' w2 O2) as B2. rewrite L2 in B2.
      pose proof (Bp_pos s) as Hps. pose proof (Bp_pos (L - s)) as Hp2.
      assert (HpL : Bp L = Bp s * Bp (L - s)) by (rewrite <- Bp_add; f_equal; f_equal; lia).
      assert (Ec2 : c2 = 0).
      { pose proof (two_limb (val w) (val w2) (Bp s) (Bp (L - s)) Bw B2) as Hb.
        apply (carry_zero (val w + Bp s * val w2) (Bp s * Bp (L - s)) c2 (val qhatv - Vl) Hb);
          [clear - Hge; lia | assumption |].
        rewrite (limb_sub_eq _ _ _ _ _ _ _ _ _ Vw V2). clear - Vsp. lia. }
      subst c2. exists (w ++ w2). repeat split.
      + rewrite app_length. lia.
      + apply words_ok_app. now split.
      + rewrite val_app', Lw. nia.
    - (* len(q̂v) <= s: v[len q̂v:s] is zero because v[:s] <= q̂v *)
      assert (LFv : length (firstn L v) = L) by (rewrite firstn_length; lia).
      assert (VlL : val (firstn L v) = Vl).
      { unfold Vl. rewrite <- (firstn_firstn' L s v) by lia.
        apply val_firstn_of_small; [assumption | fold Vl; lia]. }
      destruct (sub10VV_v qhatv (firstn L v) 0) as [w c] eqn:Es.
      destruct (sub10VV_v_borrow qhatv (firstn L v) w c) as [(Ec & _ & Vw) | (Ec & Hlt & _)];
        [fold L; lia | assumption | now apply words_ok_firstn | assumption | | lia].
      destruct (sub10VV_v_spec qhatv (firstn L v) 0 w c) as (Lw & Ow & _);
        [fold L; lia | assumption | now apply words_ok_firstn | lia | assumption |].
      cbn [fst]. exists w. repeat split; [assumption | assumption | lia]. }
  rewrite Eqv.
  (* uu[s:] += v[s:] *)
  assert (Osu : words_ok (skipn s uu) = true) by now apply words_ok_skipn.
  assert (Osv : words_ok (skipn s v) = true) by now apply words_ok_skipn.
  assert (Lsu : length (skipn s uu) = (length uu - s)%nat) by apply skipn_length.
  assert (Lsv : length (skipn s v) = (length v - s)%nat) by apply skipn_length.
  pose proof (val_split s uu ltac:(lia)) as Vsu.
  pose proof (Bp_pos s) as Hps.
  assert (HpU : Bp (length uu) = Bp s * Bp (length uu - s)) by (rewrite <- Bp_add; f_equal; f_equal; lia).
  pose proof (val_nonneg _ (words_ok_firstn s uu Ou)) as Hf0.
  destruct (decAddAt_exact_gen (skipn s uu) (skipn s v) 0 Osu Osv ltac:(lia)) as (La & Oa & Va).
  { rewrite Lsu. change (Bp 0) with 1. fold Vh. rewrite Z.mul_1_l.
    apply (Z.mul_lt_mono_pos_l (Bp s)); [assumption|]. rewrite <- HpU.
    clear - Hfit Vsu Hf0. lia. }
  change (Bp 0) with 1 in Va. fold Vh in Va.
  assert (LFu : length (firstn s uu) = s) by (rewrite firstn_length; clear - Hs Hlv; lia).
  eexists _, _, _. split; [reflexivity|]. repeat split; try assumption.
  - rewrite app_length, La, LFu, Lsu. clear - Hs Hlv. lia.
  - apply words_ok_app. split; [now apply words_ok_firstn | assumption].
  - clear - V1. lia.
  - rewrite val_app', LFu, Va. clear - Vsu. lia.
Qed.

(* ---- the block quotient estimate ------------------------------------------ *)

(* u = Uh·P + Ul, v = Vh·P + Vl, q̂ = ⌊Uh/Vh⌋.  Lemma 2 of Burnikel-Ziegler:
   q̂ is not below ⌊u/v⌋ ... *)
Lemma est_upper Uh Ul Vh Vl P q R :
  0 < P -> 0 <= Ul < P -> 0 <= Vl -> 0 <= q -> 0 <= R < Vh -> Uh = q * Vh + R ->
  Uh * P + Ul < (q + 1) * (Vh * P + Vl).
Proof.
  intros HP HUl HVl Hq HR E.
  assert (Uh + 1 <= (q + 1) * Vh) by nia.
  assert ((Uh + 1) * P <= (q + 1) * Vh * P) by (apply Z.mul_le_mono_nonneg_r; lia).
  assert (0 <= (q + 1) * Vl) by nia. nia.
Qed.

(* ... and exceeds it by at most 2 when q̂ <= 2·Vh + 2 (which a divisor part Vh
   with enough words guarantees) *)
Lemma est_lower Uh Ul Vh Vl P q R :
  0 < P -> 0 <= Ul -> 0 <= Vl < P -> 0 <= R -> 0 < Vh -> 0 <= q -> Uh = q * Vh + R -> q <= 2 * Vh + 2 ->
  (q - 2) * (Vh * P + Vl) <= Uh * P + Ul.
Proof.
  intros HP HUl HVl HR HVh Hq0 E Hq.
  destruct (Z.le_gt_cases 2 q) as [H2|H2].
  - assert ((q - 2) * (Vh * P + Vl) <= (q - 2) * ((Vh + 1) * P)) by (apply Z.mul_le_mono_nonneg_l; nia).
    assert ((q - 2) * (Vh + 1) <= Uh) by nia.
    assert ((q - 2) * (Vh + 1) * P <= Uh * P) by (apply Z.mul_le_mono_nonneg_r; lia).
    nia.
  - assert (0 <= Uh) by nia. assert (0 <= Uh * P) by nia.
    assert ((q - 2) * (Vh * P + Vl) <= 0) by nia. lia.
Qed.

(* ---- the correction loop --------------------------------------------------- *)

Definition ctriple : Type := (list Z * list Z * list Z)%type.

(* one round of `if qhatv.cmp(uu.norm()) > 0 { adjust }` *)
Definition adj1 (v : list Z) (s : nat) (T : ctriple) : ctriple :=
  let '(qhat, qhatv, uu) := T in
  if 0 <? nat_cmp qhatv (norm uu) then rec_adjust qhat qhatv uu v s else T.

Definition cq (T : ctriple) : Z := val (fst (fst T)).

(* the invariant of the correction loop: q̂v = q̂·v[:s], uu = U - q̂·v[s:]·B^s *)
Definition cinv (v : list Z) (s : nat) (U : Z) (Lq Lqv Lu : nat) (T : ctriple) : Prop :=
  let '(qh, qhv, uu) := T in
  words_ok qh = true /\ words_ok qhv = true /\ words_ok uu = true /\
  length qh = Lq /\ length qhv = Lqv /\ length uu = Lu /\
  val qhv = val qh * val (firstn s v) /\
  val uu + val qh * (Bp s * val (skipn s v)) = U /\
  (norm qhv = qhv \/ Bp Lqv <= B * val uu).

Lemma cinv_cmp v s U Lq Lqv Lu qh qhv uu :
  words_ok v = true -> (s <= length v)%nat ->
  cinv v s U Lq Lqv Lu (qh, qhv, uu) ->
  (0 <? nat_cmp qhv (norm uu)) = (U <? val qh * val v).
Proof.
  intros Ov Hs (Oq & Oqv & Ou & _ & Lqv' & _ & Vqv & VU & Hn).
  assert (E : nat_cmp qhv (norm uu) = zsgn (val qhv) (val uu)).
  { destruct Hn as [Hn|Hn]; [now apply nat_cmp_norm_r | apply nat_cmp_short; try assumption; now rewrite Lqv']. }
  rewrite E, zsgn_pos. pose proof (val_split s v Hs) as Vv.
  destruct (Z.ltb_spec (val uu) (val qhv)), (Z.ltb_spec U (val qh * val v)); try reflexivity; exfalso;
    clear - H H0 Vqv VU Vv; nia.
Qed.

Lemma adj1_spec v s U Lq Lqv Lu T :
  words_ok v = true -> (s <= length v)%nat -> (length v <= Lu)%nat -> (Lqv <= length v)%nat ->
  U < Bp Lu -> Bp (length v) <= B * (Bp s * val (skipn s v)) ->
  cinv v s U Lq Lqv Lu T ->
  cinv v s U Lq Lqv Lu (adj1 v s T) /\
  ((cq (adj1 v s T) = cq T /\ cq T * val v <= U) \/
   (cq (adj1 v s T) = cq T - 1 /\ U < cq T * val v)).
Proof.
  intros Ov Hs Hlu Hlqv HU Hbig Hinv. destruct T as [[qh qhv] uu].
  pose proof (cinv_cmp v s U Lq Lqv Lu qh qhv uu Ov Hs Hinv) as Ecmp.
  unfold adj1. rewrite Ecmp. unfold cq at 2 4 5 6. cbn [fst].
  destruct (Z.ltb_spec U (val qh * val v)) as [Hlt|Hge].
  - destruct Hinv as (Oq & Oqv & Ou & Lq' & Lqv' & Lu' & Vqv & VU & Hn).
    pose proof (val_nonneg uu Ou) as Hu0. pose proof (val_nonneg qh Oq) as Hq0.
    pose proof (val_nonneg v Ov) as Hv0.
    pose proof (val_nonneg _ (words_ok_skipn s v Ov)) as Hh0. pose proof (Bp_pos s) as Hps.
    set (Vh := val (skipn s v)) in *.
    assert (Hq1 : 1 <= val qh).
    { destruct (Z.le_gt_cases 1 (val qh)); [assumption|]. exfalso.
      assert (val qh = 0) by lia. clear - H0 Hlt VU Hu0. rewrite H0 in *. lia. }
    assert (Hprod : 0 <= Bp s * Vh) by (clear - Hh0 Hps; nia).
    assert (Hfit : val uu + Bp s * Vh < Bp (length uu)).
    { rewrite Lu'. assert ((val qh - 1) * (Bp s * Vh) >= 0) by (clear - Hq1 Hprod; nia).
      clear - H HU VU. nia. }
    destruct (rec_adjust_spec qh qhv uu v s Oq Oqv Ou Ov Hs ltac:(lia) Hq1 Vqv Hfit)
      as (q' & qv' & u' & E & L1 & L2 & L3 & O1 & O2 & O3 & V1 & V2 & V3).
    rewrite E. unfold cq. cbn [fst]. split.
    + unfold cinv. repeat split; try assumption; try congruence.
      * rewrite V2, V1, Vqv. ring.
      * fold Vh. rewrite V3, V1. clear - VU. lia.
      * right. fold Vh in V3. rewrite V3.
        pose proof (Bp_le Lqv (length v) Hlqv) as Hle. pose proof B_pos.
        clear - Hle Hbig Hu0 H. nia.
    + right. split; [assumption | lia].
  - split; [assumption|]. left. unfold cq. cbn [fst]. split; [reflexivity | lia].
Qed.

(* two rounds suffice when q̂ is between ⌊U/v⌋ and ⌊U/v⌋+2; afterwards the
   comparison `q̂v > uu` is false, so panic("impossible") is unreachable and the
   subtraction leaves the remainder of U by v *)
Lemma corr_spec v s U Lq Lqv Lu T :
  words_ok v = true -> (s <= length v)%nat -> (length v <= Lu)%nat -> (Lqv <= length v)%nat ->
  U < Bp Lu -> Bp (length v) <= B * (Bp s * val (skipn s v)) ->
  cinv v s U Lq Lqv Lu T ->
  U < (cq T + 1) * val v -> (cq T - 2) * val v <= U ->
  exists qh qhv uu uu',
    adj1 v s (adj1 v s T) = (qh, qhv, uu) /\
    (0 <? nat_cmp qhv (norm uu)) = false /\
    rec_subtract uu qhv = (uu', 0) /\
    words_ok qh = true /\ length qh = Lq /\ words_ok uu' = true /\ length uu' = Lu /\
    cq T - 2 <= val qh <= cq T /\
    val uu' = U - val qh * val v /\ 0 <= val uu' < val v.
Proof.
  intros Ov Hs Hlu Hlqv HU Hbig Hinv Hup Hlo.
  destruct (adj1_spec v s U Lq Lqv Lu T Ov Hs Hlu Hlqv HU Hbig Hinv) as (I1 & C1).
  destruct (adj1_spec v s U Lq Lqv Lu (adj1 v s T) Ov Hs Hlu Hlqv HU Hbig I1) as (I2 & C2).
  set (T1 := adj1 v s T) in *. set (T2 := adj1 v s T1) in *.
  destruct T2 as [[qh qhv] uu] eqn:ET2.
  assert (Hq : cq T - 2 <= val qh <= cq T /\ val qh * val v <= U < (val qh + 1) * val v).
  { change (cq (qh, qhv, uu)) with (val qh) in C2.
    set (a := cq T) in *. set (b := cq T1) in *. set (V := val v) in *. set (c := val qh) in *.
    clearbody a b c V. clear - C1 C2 Hup Hlo.
    destruct C1 as [[E1 H1]|[E1 H1]]; destruct C2 as [[E2 H2]|[E2 H2]]; subst b c;
      repeat split; try lia; try (ring_simplify; ring_simplify in Hup; ring_simplify in Hlo;
        ring_simplify in H1; ring_simplify in H2; lia). }
  destruct Hq as (Hq & Hle & Hlt).
  pose proof (cinv_cmp v s U Lq Lqv Lu qh qhv uu Ov Hs I2) as Ecmp.
  destruct I2 as (Oq & Oqv & Ou & Lq' & Lqv' & Lu' & Vqv & VU & Hn).
  pose proof (val_split s v Hs) as Vv.
  assert (Hcmp : val qhv <= val uu) by (clear - Hle Vqv VU Vv; nia).
  destruct (rec_subtract_spec uu qhv Ou Oqv ltac:(lia) Hcmp) as (uu' & Es & Ls & Os & Vs).
  exists qh, qhv, uu, uu'. split; [reflexivity|]. split.
  { rewrite Ecmp. apply Z.ltb_ge. assumption. }
  split; [assumption|].
  assert (Vu' : val uu' = U - val qh * val v) by (rewrite Vs; clear - Vqv VU Vv; nia).
  repeat split; try assumption; try (clear - Hq; lia); try (clear - Ls Lu'; lia);
    clear - Vu' Hle Hlt; lia.
Qed.
