(* L2/KernV.v — value-level specifications of the word kernels that dec.go
   calls (add10VV, sub10VV, add10VW, sub10VW, mulAdd10VWW, addMul10VVW,
   div10VWW, shl10VU, shr10VU, mul10WW, div10WW, mulAddWWW_g, divWVW), as plain
   functions on little-endian word lists.  A Go call `k(z[a:b], x, y)` writes a
   window of z: here the kernel returns the new contents of the window and the
   caller splices it.  The L1 layer (somebody else's) proves that the Go and
   assembly kernels meet these specifications; L2 takes them as given.
   Definitions only; lemmas relating them to `val` are in KernVProofs.v. *)
From Dec Require Export Base.Words.
Open Scope Z_scope.

(* 2^_W on a 64-bit build (machine word modulus, for the base-2 kernels) *)
Definition W64 : Z := 18446744073709551616.

(* ---- windows of a slice ------------------------------------------------ *)

(* z[i:i+n] *)
Definition win (z : list Z) (i n : nat) : list Z := firstn n (skipn i z).
(* write the words w at z[i:i+len w] *)
Definition splice (z : list Z) (i : nat) (w : list Z) : list Z :=
  firstn i z ++ w ++ skipn (i + length w) z.
(* z[i] (0 when out of range; callers check the range where Go would panic) *)
Definition nthw (z : list Z) (i : nat) : Z := nth i z 0.

(* ---- decimal-base vector kernels --------------------------------------- *)

(* add10VV(z, x, y): z = x + y + c over min(len x, len y) words; returns the
   window and the carry (0 or 1) *)
Fixpoint add10VV_v (x y : list Z) (c : Z) : list Z * Z :=
  match x, y with
  | a :: x', b :: y' =>
      let s := a + b + c in
      let (w, c1) := if s <? B then (s, 0) else (s - B, 1) in
      let (z, c2) := add10VV_v x' y' c1 in (w :: z, c2)
  | _, _ => ([], c)
  end.

(* sub10VV(z, x, y): z = x - y - c; returns the window and the borrow *)
Fixpoint sub10VV_v (x y : list Z) (c : Z) : list Z * Z :=
  match x, y with
  | a :: x', b :: y' =>
      let d := a - b - c in
      let (w, c1) := if d <? 0 then (d + B, 1) else (d, 0) in
      let (z, c2) := sub10VV_v x' y' c1 in (w :: z, c2)
  | _, _ => ([], c)
  end.

(* add10VW(z, x, y): z = x + y for a single word y; carry out *)
Fixpoint add10VW_v (x : list Z) (y : Z) : list Z * Z :=
  match x with
  | [] => ([], y)
  | a :: x' =>
      let s := a + y in
      let (w, c1) := if s <? B then (s, 0) else (s - B, 1) in
      let (z, c2) := add10VW_v x' c1 in (w :: z, c2)
  end.

(* sub10VW(z, x, y): z = x - y for a single word y; borrow out *)
Fixpoint sub10VW_v (x : list Z) (y : Z) : list Z * Z :=
  match x with
  | [] => ([], y)
  | a :: x' =>
      let d := a - y in
      let (w, c1) := if d <? 0 then (d + B, 1) else (d, 0) in
      let (z, c2) := sub10VW_v x' c1 in (w :: z, c2)
  end.

(* mulAdd10VWW(z, x, y, r): z = x*y + r; returns window and carry word *)
Fixpoint mulAdd10VWW_v (x : list Z) (y r : Z) : list Z * Z :=
  match x with
  | [] => ([], r)
  | a :: x' =>
      let t := a * y + r in
      let (z, c) := mulAdd10VWW_v x' y (t / B) in (t mod B :: z, c)
  end.

(* addMul10VVW(z, x, y): z += x*y over min(len z, len x) words; carry word *)
Fixpoint addMul10VVW_c (z x : list Z) (y c : Z) : list Z * Z :=
  match z, x with
  | w :: z', a :: x' =>
      let t := a * y + w + c in
      let (r, c') := addMul10VVW_c z' x' y (t / B) in (t mod B :: r, c')
  | _, _ => ([], c)
  end.
Definition addMul10VVW_v (z x : list Z) (y : Z) : list Z * Z := addMul10VVW_c z x y 0.

(* div10VWW(z, x, y, xn): z = (xn:x) / y from the most significant word down;
   returns the quotient window and the remainder.  The word list is
   little-endian, so the recursion returns from the top. *)
Fixpoint div10VWW_v (x : list Z) (y xn : Z) : list Z * Z :=
  match x with
  | [] => ([], xn)
  | a :: x' =>
      let (q, r) := div10VWW_v x' y xn in
      let t := r * B + a in (t / y :: q, t mod y)
  end.

(* mul10WW(x, y) = (hi, lo) with hi*B + lo = x*y *)
Definition mul10WW_v (x y : Z) : Z * Z := ((x * y) / B, (x * y) mod B).
(* div10WW(x1, x0, y) = (q, r) with q*y + r = x1*B + x0; needs x1 < y *)
Definition div10WW_v (x1 x0 y : Z) : Z * Z := ((x1 * B + x0) / y, (x1 * B + x0) mod y).

(* shl10VU(z, x, s): z = x * 10^s (0 <= s < 19) word by word; returns the
   window and the digits shifted out at the top *)
Fixpoint shl10VU_c (x : list Z) (p c : Z) : list Z * Z :=
  match x with
  | [] => ([], c)
  | a :: x' =>
      let t := a * p + c in
      let (z, r) := shl10VU_c x' p (t / B) in (t mod B :: z, r)
  end.
Definition shl10VU_v (x : list Z) (s : Z) : list Z * Z := shl10VU_c x (10 ^ s) 0.

(* shr10VU(z, x, s): z = x / 10^s; returns the window and the digits shifted
   out at the bottom, left-aligned in a word ((x[0] mod 10^s) * 10^(19-s)) *)
Fixpoint shr10VU_w (x : list Z) (p m : Z) : list Z :=
  match x with
  | [] => []
  | a :: x' => (a / p + (hd 0 x' mod p) * m) :: shr10VU_w x' p m
  end.
Definition shr10VU_v (x : list Z) (s : Z) : list Z * Z :=
  (shr10VU_w x (10 ^ s) (10 ^ (DW - s)), (hd 0 x mod 10 ^ s) * 10 ^ (DW - s)).

(* ---- base-2^64 kernels (conversions) ----------------------------------- *)

(* mulAddWWW_g(x, y, c) = (hi, lo) with hi*2^64 + lo = x*y + c *)
Definition mulAddWWW_v (x y c : Z) : Z * Z := ((x * y + c) / W64, (x * y + c) mod W64).

(* divWVW(z, xn, x, y): z = (xn:x) / y in base 2^64; quotient window, remainder *)
Fixpoint divWVW_v (x : list Z) (y xn : Z) : list Z * Z :=
  match x with
  | [] => ([], xn)
  | a :: x' =>
      let (q, r) := divWVW_v x' y xn in
      let t := r * W64 + a in (t / y :: q, t mod y)
  end.
