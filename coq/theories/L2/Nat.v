(* L2/Nat.v — algorithmic models of the small natural-number routines of
   dec.go: norm (Base/Words.v), add, sub, cmp, divW, mulAddWW, shl, shr, digit,
   sticky, digits, trailingZeroDigits, decAddAt, and karatsubaLen of stdlib.go.
   Word lists are little-endian; a Go slice write z[i:j] = ... is a list update
   (`splice`); results that Go produces by panicking are `None`.
   Definitions only; the proofs are in NatProofs.v. *)
From Dec Require Export L2.KernV.
Open Scope Z_scope.

(* z.make(n) on a recycled buffer: n words of unspecified contents.  The
   theorems quantify over `junk` (and, for the window routines, over the whole
   previous contents of z). *)
Definition mk (junk : Z) (n : nat) : list Z := repeat junk n.
(* z.clear() *)
Definition clear (z : list Z) : list Z := repeat 0 (length z).
(* z.setWord(x) *)
Definition setWord (x : Z) : list Z := if x =? 0 then [] else [x].

(* dec.add *)
Definition nat_add (x y : list Z) : list Z :=
  let '(x, y) := if (length x <? length y)%nat then (y, x) else (x, y) in
  let m := length x in
  let n := length y in
  if (m =? 0)%nat then []
  else if (n =? 0)%nat then x            (* z.set(x): copied as it is *)
  else
    let (z0, c) := add10VV_v (firstn n x) y 0 in
    let (z1, c1) := if (n <? m)%nat then add10VW_v (skipn n x) c else ([], c) in
    norm (z0 ++ z1 ++ [c1]).

(* dec.sub; None = panic("underflow") *)
Definition nat_sub (x y : list Z) : option (list Z) :=
  let m := length x in
  let n := length y in
  if (m <? n)%nat then None
  else if (m =? 0)%nat then Some []
  else if (n =? 0)%nat then Some x
  else
    let (z0, c) := sub10VV_v (firstn n x) y 0 in
    let (z1, c1) := if (n <? m)%nat then sub10VW_v (skipn n x) c else ([], c) in
    if c1 =? 0 then Some (norm (z0 ++ z1)) else None.

(* dec.cmp: by length first, then the most significant differing word *)
Fixpoint cmp_words (x y : list Z) : Z :=
  match x, y with
  | a :: x', b :: y' =>
      let r := cmp_words x' y' in
      if r =? 0 then (if a <? b then -1 else if b <? a then 1 else 0) else r
  | _, _ => 0
  end.
Definition nat_cmp (x y : list Z) : Z :=
  if (length x <? length y)%nat then -1
  else if (length y <? length x)%nat then 1
  else cmp_words x y.

(* dec.divW; None = panic("division by zero") *)
Definition nat_divW (x : list Z) (y : Z) : option (list Z * Z) :=
  if y =? 0 then None
  else if y =? 1 then Some (x, 0)
  else if (length x =? 0)%nat then Some ([], 0)
  else let (q, r) := div10VWW_v x y 0 in Some (norm q, r).

(* dec.mulAddWW *)
Definition nat_mulAddWW (x : list Z) (y r : Z) : list Z :=
  if (length x =? 0)%nat || (y =? 0) then setWord r
  else let (z, c) := mulAdd10VWW_v x y r in norm (z ++ [c]).

(* dec.shl (z not aliasing x, or z same as x) *)
Definition nat_shl (x : list Z) (s : Z) : list Z :=
  if s =? 0 then x
  else if (length x =? 0)%nat then []
  else
    let (w, c) := shl10VU_v x (s mod DW) in
    norm (repeat 0 (Z.to_nat (s / DW)) ++ w ++ [c]).

(* dec.shr *)
Definition nat_shr (x : list Z) (s : Z) : list Z :=
  if s =? 0 then x
  else
    let k := Z.to_nat (s / DW) in
    if (length x <=? k)%nat then []
    else norm (fst (shr10VU_v (skipn k x) (s mod DW))).

(* dec.digit *)
Definition nat_digit (x : list Z) (i : Z) : Z :=
  let j := Z.to_nat (i / DW) in
  if (length x <=? j)%nat then 0 else (nthw x j / 10 ^ (i mod DW)) mod 10.

(* dec.sticky *)
Definition nat_sticky (x : list Z) (i : Z) : Z :=
  let j := Z.to_nat (i / DW) in
  if (length x <=? j)%nat then (if (length x =? 0)%nat then 0 else 1)
  else if existsb (fun w => negb (w =? 0)) (firstn j x) then 1
  else if nthw x j mod 10 ^ (i mod DW) =? 0 then 0 else 1.

(* dec.digits *)
Definition nat_digits (x : list Z) : Z :=
  match x with
  | [] => 0
  | _ => (zlen x - 1) * DW + ndig (last x 0)
  end.

(* dec.trailingZeroDigits; None = index out of range (all words zero) *)
Fixpoint tz_scan (x : list Z) : option Z :=
  match x with
  | [] => None
  | a :: x' =>
      if a =? 0 then match tz_scan x' with Some t => Some (DW + t) | None => None end
      else Some (ntz10 a)
  end.
Definition nat_tz (x : list Z) : option Z :=
  match x with [] => Some 0 | _ => tz_scan x end.

(* decAddAt(z, x, i): z += x * B^i inside z; a carry out of z is dropped, as
   in the Go code (the callers guarantee there is none) *)
Definition decAddAt (z x : list Z) (i : nat) : list Z :=
  let n := length x in
  if (n =? 0)%nat then z
  else
    let (w, c) := add10VV_v (win z i n) x 0 in
    let z1 := splice z i w in
    if c =? 0 then z1
    else
      let j := (i + n)%nat in
      if (j <? length z)%nat then firstn j z1 ++ fst (add10VW_v (skipn j z1) c) else z1.

(* stdlib.go karatsubaLen(n, threshold): halve n until it is <= threshold,
   then shift back *)
Fixpoint karatsubaLen_f (fuel : nat) (n thr i : Z) : Z :=
  match fuel with
  | O => n * 2 ^ i
  | S f => if thr <? n then karatsubaLen_f f (n / 2) thr (i + 1) else n * 2 ^ i
  end.
Definition karatsubaLen (n : nat) (thr : Z) : nat :=
  Z.to_nat (karatsubaLen_f (S n) (Z.of_nat n) thr 0).

(* stdlib.go greaterThan(x1, x2, y1, y2) *)
Definition greaterThan (x1 x2 y1 y2 : Z) : bool :=
  (y1 <? x1) || ((x1 =? y1) && (y2 <? x2)).
