(* L2/SqrProofs.v — decBasicSqr, decKaratsubaSqr and dec.sqr compute the exact
   square, for every length, buffer contents and thresholds. *)
From Coq Require Import ZArith List Bool Lia.
From Dec Require Import Base.Words Base.WordsProofs L2.KernV L2.KernVProofs L2.Nat L2.NatProofs
  L2.Mul L2.MulProofs L2.Div L2.DivProofs L2.Sqr.
Open Scope Z_scope.

(* ---- decBasicSqr --------------------------------------------------------- *)

Lemma val_firstn_S (x : list Z) i : (i < length x)%nat ->
  val (firstn (S i) x) = val (firstn i x) + Bp i * nthw x i.
Proof.
  intros Hi. rewrite (val_split i (firstn (S i) x)) by (rewrite firstn_length; lia).
  rewrite firstn_firstn' by lia. f_equal. f_equal.
  replace (S i) with (i + 1)%nat by lia. rewrite <- firstn_skipn_comm'.
  rewrite (skipn_cons_nth x i Hi). cbn [firstn]. apply val_single.
Qed.

(* invariant of the loop at index i (1 <= i <= n):
     firstn (2i) z + 2·t = (x[0:i])^2,  t[0] = 0,  t[2i-1:] = 0 *)
Lemma basicSqr_loop_spec x (n : nat) : length x = n -> words_ok x = true ->
  forall fuel z t i, (1 <= i)%nat -> (i + fuel = n)%nat ->
    (2 * n <= length z)%nat -> length t = (2 * n)%nat ->
    words_ok (firstn (2 * i) z) = true -> words_ok t = true ->
    val (firstn (2 * i) z) + 2 * val t = val (firstn i x) * val (firstn i x) ->
    firstn 1 t = [0] -> skipn (2 * i - 1) t = repeat 0 (2 * n - (2 * i - 1)) ->
    forall z' t', basicSqr_loop fuel z t x i = (z', t') ->
      length z' = length z /\ skipn (2 * n) z' = skipn (2 * n) z /\ length t' = (2 * n)%nat /\
      words_ok (firstn (2 * n) z') = true /\ words_ok t' = true /\
      val (firstn (2 * n) z') + 2 * val t' = val x * val x /\
      firstn 1 t' = [0] /\ nthw t' (2 * n - 1) = 0.
Proof.
  intros Lx Ox. induction fuel as [|f IH]; intros z t i Hi Hif Lz Lt Oz Ot Inv T0 Tz z' t' E.
  - cbn [basicSqr_loop] in E. inversion E; subst z' t'. clear E.
    assert (i = n) by lia. subst i.
    rewrite (firstn_all2 x) in Inv by lia.
    repeat split; try assumption; try lia.
    (* t[2n-1] = 0 from the zero tail *)
    assert (Hs : skipn (2 * n - 1) t = [0]).
    { rewrite Tz. replace (2 * n - (2 * n - 1))%nat with 1%nat by lia. reflexivity. }
    rewrite (skipn_cons_nth t (2 * n - 1)) in Hs by lia. now inversion Hs.
  - cbn [basicSqr_loop] in E.
    set (d := nthw x i) in *.
    assert (Hin : (i < n)%nat) by lia.
    assert (Bd : 0 <= d < B) by (apply nthw_bounds; [assumption | lia]).
    destruct (mul10WW_v d d) as [hi lo] eqn:Em.
    destruct (mul10WW_v_spec d d hi lo Bd Bd Em) as (Bhi & Blo & Vm).
    set (z1 := splice z (2 * i) [lo; hi]) in *.
    destruct (addMul10VVW_v (win t i i) (firstn i x) d) as [w c] eqn:Ea.
    assert (Lwin : length (win t i i) = i) by (apply length_win; lia).
    assert (Lfx : length (firstn i x) = i) by (rewrite firstn_length; lia).
    destruct (addMul10VVW_v_spec (win t i i) (firstn i x) d w c ltac:(lia) (words_ok_win t i i Ot)
                (words_ok_firstn i x Ox) Bd Ea) as (Lw & Ow & Bc & Vw).
    rewrite Lwin in Lw, Vw.
    set (t1 := splice (splice t i w) (2 * i) [c]) in *.
    (* shape of t: lo ++ win ++ 0 :: zeros *)
    assert (Et : t = firstn i t ++ win t i i ++ 0 :: repeat 0 (2 * n - (2 * i + 1))).
    { rewrite (split3 t i i) at 1. f_equal. f_equal.
      replace (i + i)%nat with (2 * i - 1 + 1)%nat by lia. rewrite <- skipn_skipn'. rewrite Tz.
      replace (2 * n - (2 * i - 1))%nat with (S (S (2 * n - (2 * i + 1)))) by lia. reflexivity. }
    assert (Et1 : t1 = firstn i t ++ w ++ c :: repeat 0 (2 * n - (2 * i + 1))).
    { unfold t1. rewrite Et at 1. unfold splice at 2.
      rewrite (firstn_app_exact (firstn i t)) by (rewrite firstn_length; lia).
      rewrite (skipn_app_at (firstn i t) _ (i + length w) i) by (rewrite firstn_length; lia).
      rewrite (skipn_app_exact (win t i i)) by lia.
      unfold splice.
      rewrite (firstn_app_at (firstn i t) _ (2 * i) i) by (rewrite firstn_length; lia).
      rewrite (firstn_app_exact w) by lia.
      rewrite (skipn_app_at (firstn i t) _ (2 * i + length [c]) (i + 1)) by (rewrite firstn_length; cbn [length]; lia).
      rewrite (skipn_app_at w _ (i + 1) 1) by lia. cbn [skipn].
      rewrite <- !app_assoc. reflexivity. }
    assert (Lt1 : length t1 = (2 * n)%nat).
    { rewrite Et1. rewrite !app_length, firstn_length. cbn [length]. rewrite repeat_length. lia. }
    assert (Ot1 : words_ok t1 = true).
    { rewrite Et1. apply words_ok_app. split; [now apply words_ok_firstn|]. apply words_ok_app. split; [assumption|].
      apply words_ok_cons. split; [assumption | apply words_ok_repeat0]. }
    assert (Vt1 : val t1 = val t + Bp i * (val (firstn i x) * d)).
    { rewrite Et1. rewrite Et at 2. rewrite !val_app'. cbn [val]. rewrite !val_repeat0.
      rewrite firstn_length, Nat.min_l by lia. rewrite Lw, Lwin. nia. }
    assert (T01 : firstn 1 t1 = [0]).
    { rewrite Et1. rewrite firstn_app_l by (rewrite firstn_length; lia). rewrite firstn_firstn' by lia. exact T0. }
    assert (Tz1 : skipn (2 * S i - 1) t1 = repeat 0 (2 * n - (2 * S i - 1))).
    { rewrite Et1. rewrite (skipn_app_at (firstn i t) _ (2 * S i - 1) (i + 1)) by (rewrite firstn_length; lia).
      rewrite (skipn_app_at w _ (i + 1) 1) by lia. cbn [skipn]. f_equal. lia. }
    (* z *)
    assert (Lz1 : length z1 = length z) by (apply length_splice; cbn [length]; lia).
    assert (Fz1 : firstn (2 * S i) z1 = firstn (2 * i) z ++ [lo; hi]).
    { unfold z1, splice. rewrite (firstn_app_at (firstn (2 * i) z) _ (2 * S i) 2) by (rewrite firstn_length; lia).
      reflexivity. }
    assert (Sz1 : skipn (2 * n) z1 = skipn (2 * n) z) by (apply skipn_splice_above; cbn [length]; lia).
    destruct (IH z1 t1 (S i) ltac:(lia) ltac:(lia) ltac:(lia) Lt1) with (z' := z') (t' := t')
      as (R1 & R2 & R3 & R4 & R5 & R6 & R7 & R8); try assumption.
    + rewrite Fz1. apply words_ok_app. split; [assumption|].
      apply words_ok_cons. split; [assumption|]. apply words_ok_cons. split; [assumption | reflexivity].
    + rewrite Fz1, val_app'. rewrite firstn_length, Nat.min_l by lia. cbn [val].
      rewrite (val_firstn_S x i) by lia. fold d. rewrite Vt1.
      replace (Bp (2 * i)) with (Bp i * Bp i) by (rewrite <- Bp_add; f_equal; f_equal; lia).
      set (Xi := val (firstn i x)) in *. set (P := Bp i). nia.
    + repeat split; try assumption; try lia. now rewrite R2.
Qed.

Lemma skipn_repeat {A} (a : A) n k : skipn k (repeat a n) = repeat a (n - k).
Proof.
  revert k; induction n as [|n IH]; intros k.
  - cbn. now rewrite skipn_nil.
  - destruct k; [reflexivity|]. cbn [repeat skipn Nat.sub]. apply IH.
Qed.

Theorem basicSqr_spec z x : (1 <= length x)%nat -> words_ok x = true -> (2 * length x <= length z)%nat ->
  exists R, basicSqr z x = R ++ skipn (2 * length x) z /\
            length R = (2 * length x)%nat /\ words_ok R = true /\ val R = val x * val x.
Proof.
  intros Hn Ox Lz. unfold basicSqr. set (n := length x) in *.
  set (d := nthw x 0).
  assert (Bd : 0 <= d < B) by (apply nthw_bounds; [assumption | fold n; lia]).
  destruct (mul10WW_v d d) as [hi lo] eqn:Em.
  destruct (mul10WW_v_spec d d hi lo Bd Bd Em) as (Bhi & Blo & Vm).
  set (z1 := splice z 0 [lo; hi]).
  set (t0 := repeat 0 (2 * n)).
  destruct (basicSqr_loop (n - 1) z1 t0 x 1) as [z' t'] eqn:El.
  assert (Lz1 : length z1 = length z) by (apply length_splice; cbn [length]; lia).
  assert (Sz1 : skipn (2 * n) z1 = skipn (2 * n) z) by (apply skipn_splice_above; cbn [length]; lia).
  assert (P1 : (2 * n <= length z1)%nat) by lia.
  assert (P2 : length t0 = (2 * n)%nat) by (unfold t0; apply repeat_length).
  assert (P3 : words_ok (firstn (2 * 1) z1) = true).
  { unfold z1. cbn [firstn splice app skipn length Nat.mul Nat.add].
    apply words_ok_cons. split; [assumption|]. apply words_ok_cons. split; [assumption | reflexivity]. }
  assert (P4 : words_ok t0 = true) by apply words_ok_repeat0.
  assert (P5 : val (firstn (2 * 1) z1) + 2 * val t0 = val (firstn 1 x) * val (firstn 1 x)).
  { assert (Ef : firstn 1 x = [d]).
    { change (firstn 1 x) with (firstn 1 (skipn 0 x)). rewrite (skipn_cons_nth x 0) by (fold n; lia). reflexivity. }
    rewrite Ef, val_single. unfold z1, t0. rewrite val_repeat0.
    cbn [firstn splice app skipn length Nat.mul Nat.add val]. lia. }
  assert (P6 : firstn 1 t0 = [0]).
  { unfold t0. destruct n; [lia|]. replace (2 * S n)%nat with (S (S (2 * n))) by lia. reflexivity. }
  assert (P7 : skipn (2 * 1 - 1) t0 = repeat 0 (2 * n - (2 * 1 - 1))) by (unfold t0; apply skipn_repeat).
  destruct (basicSqr_loop_spec x n eq_refl Ox (n - 1) z1 t0 1 (le_n 1) ltac:(lia) P1 P2 P3 P4 P5 P6 P7 z' t' El)
    as (R1 & R2 & R3 & R4 & R5 & R6 & R7 & R8).
  clear P1 P2 P3 P4 P5 P6 P7 El.
  (* the doubling of t[1:2n-1] *)
  set (mid := win t' 1 (2 * n - 2)).
  assert (Lmid : length mid = (2 * n - 2)%nat) by (apply length_win; lia).
  assert (Omid : words_ok mid = true) by (now apply words_ok_win).
  assert (Et' : t' = [0] ++ mid ++ [0]).
  { rewrite (split3 t' 1 (2 * n - 2)) at 1. rewrite R7. fold mid. f_equal. f_equal.
    replace (1 + (2 * n - 2))%nat with (2 * n - 1)%nat by lia.
    rewrite (skipn_last_one t' (2 * n - 1)) by lia. now rewrite R8. }
  assert (Vt' : val t' = B * val mid).
  { rewrite Et'. rewrite !val_app'. cbn [length val]. rewrite Bp_S. change (Bp 0) with 1. lia. }
  destruct B_even_big as [_ Hbig].
  destruct (mulAdd10VWW_v mid 2 0) as [w c] eqn:Ed.
  destruct (mulAdd10VWW_v_spec mid 2 0 w c Omid ltac:(lia) ltac:(lia) Ed) as (Lw & Ow & Bc & Vw).
  rewrite Lmid in Lw, Vw.
  set (t2 := splice (splice t' 1 w) (2 * n - 1) [c]).
  assert (Et2 : t2 = [0] ++ w ++ [c]).
  { unfold t2. rewrite Et' at 1. unfold splice at 2.
    rewrite (firstn_app_exact [0]) by reflexivity.
    rewrite (skipn_app_at [0] _ (1 + length w) (length w)) by reflexivity.
    rewrite (skipn_app_exact mid) by lia.
    unfold splice.
    rewrite (firstn_app_at [0] _ (2 * n - 1) (2 * n - 2)) by (cbn [length]; lia).
    rewrite (firstn_app_exact w) by lia.
    rewrite skipn_all2 by (rewrite !app_length; cbn [length]; lia).
    rewrite <- !app_assoc. rewrite app_nil_r. reflexivity. }
  assert (Lt2 : length t2 = (2 * n)%nat) by (rewrite Et2, !app_length; cbn [length]; lia).
  assert (Ot2 : words_ok t2 = true).
  { rewrite Et2. apply words_ok_cons. split; [lia|]. apply words_ok_app. split; [assumption|].
    apply words_ok_cons. split; [assumption | reflexivity]. }
  assert (Vt2 : val t2 = 2 * val t').
  { rewrite Et2, Vt'. rewrite !val_app'. cbn [length]. rewrite val_single, Lw, Bp_S. change (Bp 0) with 1.
    cbn [val]. nia. }
  (* the final addition *)
  set (Zf := firstn (2 * n) z') in *.
  assert (LZf : length Zf = (2 * n)%nat) by (unfold Zf; rewrite firstn_length; lia).
  destruct (add10VV_v Zf t2 0) as [r c'] eqn:Ea.
  destruct (add10VV_v_spec Zf t2 0 r c' ltac:(lia) R4 Ot2 ltac:(lia) Ea) as (Lr & Or & Bc' & Vr).
  rewrite LZf in Lr, Vr. cbn [fst].
  pose proof (val_bounds' x Ox) as Bx. fold n in Bx.
  pose proof (val_bounds' r Or) as Br. rewrite Lr in Br.
  assert (H2n : Bp (2 * n) = Bp n * Bp n) by (rewrite <- Bp_add; f_equal; f_equal; lia).
  assert (Hsq : 0 <= val x * val x < Bp (2 * n)) by (rewrite H2n; apply mul_lt_bounds; assumption).
  assert (c' = 0) by nia. subst c'.
  exists r. split; [|split; [assumption | split; [assumption | lia]]].
  unfold splice. cbn [firstn app Nat.add]. rewrite Lr, R2, Sz1. reflexivity.
Qed.

(* ---- decKaratsubaSqr ------------------------------------------------------ *)

Lemma karatsubaSqr_spec fuel thr : forall z x,
  (1 <= length x)%nat -> words_ok x = true -> (6 * length x <= length z)%nat ->
  exists R S, karatsubaSqr fuel thr z x = R ++ S /\ length R = (2 * length x)%nat /\
              (length S + 2 * length x = length z)%nat /\ words_ok R = true /\ val R = val x * val x.
Proof.
  assert (Base : forall z x, (1 <= length x)%nat -> words_ok x = true -> (6 * length x <= length z)%nat ->
            exists R S, basicSqr z x = R ++ S /\ length R = (2 * length x)%nat /\
              (length S + 2 * length x = length z)%nat /\ words_ok R = true /\ val R = val x * val x).
  { intros z x Hn Hx Hz. destruct (basicSqr_spec z x Hn Hx ltac:(lia)) as (R & E & L & O & V).
    exists R, (skipn (2 * length x) z). repeat split; try assumption. rewrite skipn_length. lia. }
  induction fuel as [|f IH]; intros z x Hn1 Hx Hz; cbn [karatsubaSqr]; [now apply Base|].
  set (n := length x) in *.
  destruct (Nat.odd n || (Z.of_nat n <? thr) || (n <? 2)%nat) eqn:Ecase; [now apply Base|].
  apply orb_false_iff in Ecase as [Ecase Hn2]. apply orb_false_iff in Ecase as [Hodd _].
  apply Nat.ltb_ge in Hn2. apply even_half in Hodd.
  set (n2 := (n / 2)%nat) in *.
  assert (Hnx : length x = n) by reflexivity. clearbody n2. clearbody n.
  set (x0 := firstn n2 x). set (x1 := skipn n2 x).
  assert (Lx0 : length x0 = n2) by (unfold x0; rewrite firstn_length; lia).
  assert (Lx1 : length x1 = n2) by (unfold x1; rewrite skipn_length; lia).
  assert (Ox0 : words_ok x0 = true) by (now apply words_ok_firstn).
  assert (Ox1 : words_ok x1 = true) by (now apply words_ok_skipn).
  assert (Vx : val x = val x0 + Bp n2 * val x1) by (apply val_split; lia).
  destruct (IH z x0 ltac:(lia) Ox0 ltac:(lia)) as (R0 & S0 & E0 & LR0 & LS0 & OR0 & VR0).
  rewrite Lx0 in LR0, LS0. rewrite E0.
  rewrite (firstn_app_exact R0 S0 n) by lia. rewrite (skipn_app_exact R0 S0 n) by lia.
  destruct (IH S0 x1 ltac:(lia) Ox1 ltac:(lia)) as (R2 & S2 & E2 & LR2 & LS2 & OR2 & VR2).
  rewrite Lx1 in LR2, LS2. rewrite E2.
  destruct (absdiff x1 x0) as [xd sx] eqn:Exd.
  destruct (absdiff_spec x1 x0 xd sx ltac:(lia) Ox1 Ox0 Exd) as (Lxd & Oxd & Vxd).
  set (M := firstn n (skipn (2 * n + n2) (R0 ++ R2 ++ S2))).
  (* z3 = R0 ++ R2 ++ (xd ++ junk) ++ rest; we only need its shape *)
  set (S3 := skipn n2 S2).
  assert (E3 : splice (R0 ++ R2 ++ S2) (2 * n) xd = R0 ++ R2 ++ xd ++ S3).
  { unfold splice, S3.
    rewrite (firstn_app_at R0 _ (2 * n) n) by lia. rewrite (firstn_app_exact R2 S2 n) by lia.
    rewrite (skipn_app_at R0 _ (2 * n + length xd) (n + n2)) by lia.
    rewrite (skipn_app_at R2 _ (n + n2) n2) by lia. now rewrite <- !app_assoc. }
  rewrite E3. clear E3 M.
  assert (LS3 : (length S3 + 2 * n + n2 = length z)%nat) by (unfold S3; rewrite skipn_length; lia).
  set (yd := firstn n2 S3). set (S4 := skipn n2 S3).
  assert (Lyd : length yd = n2) by (unfold yd; rewrite firstn_length; lia).
  assert (LS4 : (length S4 + 3 * n = length z)%nat) by (unfold S4; rewrite skipn_length; lia).
  assert (ES3 : S3 = yd ++ S4) by (symmetry; apply firstn_skipn).
  rewrite ES3.
  assert (F5 : firstn (3 * n) (R0 ++ R2 ++ xd ++ yd ++ S4) = R0 ++ R2 ++ xd ++ yd).
  { rewrite (firstn_app_at R0 _ (3 * n) (2 * n)) by lia.
    rewrite (firstn_app_at R2 _ (2 * n) n) by lia.
    rewrite (firstn_app_at xd _ n n2) by lia.
    now rewrite (firstn_app_exact yd S4 n2) by lia. }
  assert (S5' : skipn (3 * n) (R0 ++ R2 ++ xd ++ yd ++ S4) = S4).
  { rewrite (skipn_app_at R0 _ (3 * n) (2 * n)) by lia.
    rewrite (skipn_app_at R2 _ (2 * n) n) by lia.
    rewrite (skipn_app_at xd _ n n2) by lia.
    now rewrite (skipn_app_exact yd S4 n2) by lia. }
  rewrite F5, S5'. clear F5 S5'.
  destruct (IH S4 xd ltac:(lia) Oxd ltac:(lia)) as (P & S5 & E5 & LP & LS5 & OP & VP).
  rewrite Lxd, Lx1 in LP, LS5. rewrite E5.
  replace ((R0 ++ R2 ++ xd ++ yd) ++ P ++ S5) with (R0 ++ R2 ++ (xd ++ yd) ++ P ++ S5)
    by (now rewrite <- !app_assoc).
  assert (Hn' : Bp n = Bp n2 * Bp n2).
  { rewrite <- Bp_add. f_equal. f_equal. lia. }
  assert (H2n : Bp (2 * n) = Bp n * Bp n).
  { rewrite <- Bp_add. f_equal. f_equal. lia. }
  assert (Et : val R0 + Bp n * val R2 + Bp n2 * (val R0 + val R2 + (if false then 1 else -1) * val P)
               = val x * val x).
  { rewrite VR0, VR2, VP, Vx, Hn'.
    destruct Vxd as [(_ & Vxd)|(_ & Vxd & _)]; rewrite Vxd; ring. }
  assert (LM : length (xd ++ yd) = n) by (rewrite app_length, Lxd, Lyd, Lx1; lia).
  assert (LS5' : (2 * n <= length S5)%nat) by lia.
  assert (Hfit : 0 <= val x * val x < Bp (2 * n)).
  { pose proof (val_bounds' x Hx) as Bx. rewrite Hnx in Bx.
    rewrite H2n. apply mul_lt_bounds; assumption. }
  clear Hnx. subst n. clear IH Base.
  destruct (karatsubaCombine_spec n2 R0 R2 (xd ++ yd) P S5 false LR0 LR2 LM LP LS5' OR0 OR2 OP)
    as (R & S & E & LR & LS & OR & VR).
  { cbv zeta. rewrite Et. exact Hfit. }
  cbv zeta in VR. rewrite Et in VR.
  exists R, S. split; [exact E|]. split; [exact LR|]. split; [|split; [exact OR | exact VR]].
  lia.
Qed.

(* ---- dec.sqr --------------------------------------------------------------- *)

Lemma sq_sum_bound1 a b p X M : 0 <= a -> 0 <= b -> 0 < p -> X = a + p * b -> X * X < M ->
  a * a + p * (a * b) < M.
Proof. intros Ha Hb Hp -> HM. assert (0 <= p * b) by nia. nia. Qed.
Lemma sq_sum_bound2 a b p X M : 0 <= a -> 0 <= b -> 0 < p -> X = a + p * b -> X * X < M ->
  a * a + p * (a * b) + p * (a * b) < M.
Proof. intros Ha Hb Hp -> HM. assert (0 <= p * b) by nia. nia. Qed.
Lemma sq_sum_bound3 a b p X M : 0 <= a -> 0 <= b -> 0 < p -> X = a + p * b -> X * X < M ->
  a * a + p * (a * b) + p * (a * b) + p * p * (b * b) < M.
Proof. intros Ha Hb Hp -> HM. replace (a * a + p * (a * b) + p * (a * b) + p * p * (b * b)) with ((a + p * b) * (a + p * b)) by ring. exact HM. Qed.

Theorem sqr_f_spec thrM thrB thrK junk : 1 <= thrM -> 1 <= thrK -> forall fuel x,
  (length x < fuel)%nat -> words_ok x = true ->
  sqr_f fuel thrM thrB thrK junk x = of_Z (val x * val x).
Proof.
  intros HthrM HthrK. induction fuel as [|f IH]; intros x Hf Hx; [lia|].
  cbn [sqr_f]. set (n := length x) in *.
  destruct (Nat.eqb_spec n 0) as [E0|E0].
  { destruct x; [|discriminate]. reflexivity. }
  destruct (Nat.eqb_spec n 1) as [E1|E1].
  { destruct x as [|d [|? ?]]; try discriminate. cbn [hd]. apply words_ok_cons in Hx as [Bd _].
    destruct (mul10WW_v d d) as [hi lo] eqn:Em.
    destruct (mul10WW_v_spec d d hi lo Bd Bd Em) as (Bhi & Blo & Vm).
    apply norm_eq_of_Z.
    - apply words_ok_cons. split; [assumption|]. apply words_ok_cons. split; [assumption | reflexivity].
    - cbn [val]. lia. }
  destruct (Z.ltb_spec (Z.of_nat n) thrB) as [Hb|Hb].
  { destruct (basicMul_spec (mk junk (2 * n)) x x Hx Hx) as (R & E & L & O & V).
    fold n in E, L. unfold mk in E. rewrite skipn_all2 in E by (rewrite repeat_length; lia).
    rewrite app_nil_r in E. unfold mk. rewrite E. now apply norm_eq_of_Z. }
  destruct (Z.ltb_spec (Z.of_nat n) thrK) as [Hk0|Hk0].
  { destruct (basicSqr_spec (mk junk (2 * n)) x ltac:(fold n; lia) Hx) as (R & E & L & O & V).
    { unfold mk. rewrite repeat_length. fold n. lia. }
    fold n in E, L. unfold mk in E. rewrite skipn_all2 in E by (rewrite repeat_length; lia).
    rewrite app_nil_r in E. unfold mk. rewrite E. now apply norm_eq_of_Z. }
  pose proof (karatsubaLen_bounds n thrK HthrK ltac:(lia)) as Hk.
  set (k := karatsubaLen n thrK) in *. clearbody k.
  assert (Lxn : length x = n) by reflexivity. clearbody n. clear E0 Hb Hk0.
  set (x0 := firstn k x).
  assert (Lx0 : length x0 = k) by (unfold x0; rewrite firstn_length; clear - Hk Lxn; lia).
  assert (Ox0 : words_ok x0 = true) by (now apply words_ok_firstn).
  assert (Hz6 : (6 * length x0 <= length (mk junk (Nat.max (6 * k) (2 * n))))%nat).
  { unfold mk. rewrite repeat_length, Lx0. clear. lia. }
  destruct (karatsubaSqr_spec k thrK (mk junk (Nat.max (6 * k) (2 * n))) x0 ltac:(clear - Lx0 Hk; lia) Ox0 Hz6)
    as (R & S & E & LR & LS & OR & VR).
  rewrite Lx0 in LR, LS. rewrite E. rewrite (firstn_app_exact R S (2 * k) (eq_sym LR)).
  set (z := R ++ repeat 0 (2 * n - 2 * k)).
  assert (Lz : length z = (2 * n)%nat).
  { unfold z. rewrite app_length, repeat_length, LR. clear - Hk. lia. }
  assert (Oz : words_ok z = true) by (unfold z; apply words_ok_app; split; [assumption | apply words_ok_repeat0]).
  assert (Vz : val z = val x0 * val x0) by (unfold z; rewrite val_app', val_repeat0, VR; ring).
  clear E Hz6 LS S.
  destruct (Nat.ltb_spec k n) as [Hkn|Hkn].
  - set (x1 := skipn k x).
    assert (Ox1 : words_ok x1 = true) by (now apply words_ok_skipn).
    assert (Lx1 : (length x1 + k = n)%nat) by (unfold x1; rewrite skipn_length; clear - Hk Lxn; lia).
    assert (Vx : val x = val x0 + Bp k * val x1) by (apply val_split; clear - Hk Lxn; lia).
    pose proof (val_bounds' x0 Ox0) as Bx0. rewrite Lx0 in Bx0.
    pose proof (val_bounds' x1 Ox1) as Bx1.
    pose proof (val_bounds' x Hx) as Bx. rewrite Lxn in Bx.
    pose proof (Bp_pos k) as Hpk.
    rewrite (mul_spec thrM junk (norm x0) x1 HthrM (words_ok_norm x0 Ox0) Ox1).
    unfold dec_mul. rewrite val_norm.
    set (t := of_Z (val x0 * val x1)).
    assert (Vt : val t = val x0 * val x1).
    { unfold t. apply val_of_Z. apply Z.mul_nonneg_nonneg; [exact (proj1 Bx0) | exact (proj1 Bx1)]. }
    assert (Lt : (length t <= k + length x1)%nat).
    { unfold t. apply length_of_Z_le. rewrite Bp_add. apply mul_lt_bounds; assumption. }
    assert (Ot : words_ok t = true) by apply words_ok_of_Z.
    assert (Hxx : val x * val x < Bp (length z)).
    { rewrite Lz. replace (2 * n)%nat with (n + n)%nat by (clear; lia). rewrite Bp_add.
      apply mul_lt_bounds; assumption. }
    assert (Hl1 : (k + length t <= length z)%nat) by (clear - Lt Lx1 Lz; lia).
    destruct (decAddAt_spec z t k Oz Ot Hl1) as (Lz1 & Oz1 & _).
    assert (Vz1 : val (decAddAt z t k) = val z + Bp k * val t).
    { apply (decAddAt_exact z t k Oz Ot Hl1). rewrite Vz, Vt.
      exact (sq_sum_bound1 _ _ _ _ _ (proj1 Bx0) (proj1 Bx1) Hpk Vx Hxx). }
    set (z1 := decAddAt z t k) in *.
    assert (Hl2 : (k + length t <= length z1)%nat) by (rewrite Lz1; exact Hl1).
    destruct (decAddAt_spec z1 t k Oz1 Ot Hl2) as (Lz2 & Oz2 & _).
    assert (Vz2 : val (decAddAt z1 t k) = val z1 + Bp k * val t).
    { apply (decAddAt_exact z1 t k Oz1 Ot Hl2). rewrite Lz1, Vz1, Vz, Vt.
      exact (sq_sum_bound2 _ _ _ _ _ (proj1 Bx0) (proj1 Bx1) Hpk Vx Hxx). }
    set (z2 := decAddAt z1 t k) in *.
    assert (F1 : (length x1 < f)%nat) by (clear - Lx1 Hf Hk; lia).
    rewrite (IH x1 F1 Ox1).
    set (t' := of_Z (val x1 * val x1)).
    assert (Vt' : val t' = val x1 * val x1).
    { unfold t'. apply val_of_Z. apply Z.mul_nonneg_nonneg; exact (proj1 Bx1). }
    assert (Lt' : (length t' <= length x1 + length x1)%nat).
    { unfold t'. apply length_of_Z_le. rewrite Bp_add. apply mul_lt_bounds; assumption. }
    assert (Ot' : words_ok t' = true) by apply words_ok_of_Z.
    assert (Hl3 : (2 * k + length t' <= length z2)%nat) by (clear - Lt' Lx1 Lz Lz1 Lz2; lia).
    destruct (decAddAt_spec z2 t' (2 * k) Oz2 Ot' Hl3) as (Lz3 & Oz3 & _).
    assert (H2k : Bp (2 * k) = Bp k * Bp k) by (rewrite <- Bp_add; f_equal; f_equal; clear; lia).
    assert (Vz3 : val (decAddAt z2 t' (2 * k)) = val z2 + Bp (2 * k) * val t').
    { apply (decAddAt_exact z2 t' (2 * k) Oz2 Ot' Hl3). rewrite Lz2, Lz1, Vz2, Vz1, Vz, Vt, Vt', H2k.
      exact (sq_sum_bound3 _ _ _ _ _ (proj1 Bx0) (proj1 Bx1) Hpk Vx Hxx). }
    apply norm_eq_of_Z; [exact Oz3|].
    rewrite Vz3, Vz2, Vz1, Vz, Vt, Vt', H2k, Vx. ring.
  - apply norm_eq_of_Z; [assumption|]. rewrite Vz. unfold x0.
    rewrite !firstn_all2 by (clear - Hkn Hk Lxn; lia). reflexivity.
Qed.

Theorem sqr_spec thrM thrB thrK junk x : 1 <= thrM -> 1 <= thrK -> words_ok x = true ->
  sqr thrM thrB thrK junk x = dec_mul x x.
Proof. intros. unfold sqr, dec_mul. apply sqr_f_spec; (assumption || lia). Qed.

(* ---- the tuning thresholds (and recycled buffer contents) do not matter --- *)

Corollary mul_threshold_independent thr1 thr2 junk1 junk2 x y :
  1 <= thr1 -> 1 <= thr2 -> words_ok x = true -> words_ok y = true ->
  mul thr1 junk1 x y = mul thr2 junk2 x y.
Proof. intros. rewrite !mul_spec by assumption. reflexivity. Qed.

Corollary sqr_threshold_independent m1 b1 k1 j1 m2 b2 k2 j2 x :
  1 <= m1 -> 1 <= k1 -> 1 <= m2 -> 1 <= k2 -> words_ok x = true ->
  sqr m1 b1 k1 j1 x = sqr m2 b2 k2 j2 x.
Proof. intros. rewrite !sqr_spec by assumption. reflexivity. Qed.

Corollary div_threshold_independent d1 k1 j1 d2 k2 j2 u v :
  words_ok u = true -> words_ok v = true -> norm u = u -> norm v = v ->
  Z.of_nat (length v) < d1 -> Z.of_nat (length v) < d2 ->
  div d1 k1 j1 u v = div d2 k2 j2 u v.
Proof. intros. rewrite !div_basic_spec by assumption. reflexivity. Qed.
