(* L2/Mul.v — algorithmic models of decBasicMul, decKaratsubaAdd/Sub,
   decKaratsuba and dec.mul.  The result buffer z is threaded functionally:
   a Go sub-slice z[i:] is the list `skipn i z`, a write to z[i:j] a list update.
   Thresholds are parameters.  Definitions only (proofs: MulProofs.v). *)
From Dec Require Export L2.Nat.
Open Scope Z_scope.

(* decBasicMul(z, x, y): z[0:len x+len y] = x*y.
   `basicMul_rows z x y` is the loop `for i, d := range y` with z standing for
   z[i:] and y for y[i:]: row i adds x*d into z[i:i+len x] and stores the carry
   in z[i+len x] (rows with d = 0 are skipped). *)
Fixpoint basicMul_rows (z x y : list Z) : list Z :=
  match y with
  | [] => z
  | d :: y' =>
      let lx := length x in
      let z1 := if d =? 0 then z
                else let (w, c) := addMul10VVW_v (firstn lx z) x d in
                     w ++ c :: skipn (S lx) z in
      match z1 with
      | [] => []
      | w0 :: zt => w0 :: basicMul_rows zt x y'
      end
  end.
Definition basicMul (z x y : list Z) : list Z :=
  let l := (length x + length y)%nat in
  basicMul_rows (repeat 0 l ++ skipn l z) x y.      (* z[0:l].clear() *)

(* decKaratsubaAdd(z, x, n): z[0:n+n/2] += x[0:n]; a carry out of the window
   z[0:n+n/2] is dropped on purpose *)
Definition karatsubaAdd (z x : list Z) (n : nat) : list Z :=
  let (w, c) := add10VV_v (firstn n z) (firstn n x) 0 in
  if c =? 0 then w ++ skipn n z
  else
    let h := (n / 2)%nat in
    w ++ fst (add10VW_v (firstn h (skipn n z)) c) ++ skipn (n + h) z.

(* decKaratsubaSub: same with subtraction; the borrow out is dropped *)
Definition karatsubaSub (z x : list Z) (n : nat) : list Z :=
  let (w, c) := sub10VV_v (firstn n z) (firstn n x) 0 in
  if c =? 0 then w ++ skipn n z
  else
    let h := (n / 2)%nat in
    w ++ fst (sub10VW_v (firstn h (skipn n z)) c) ++ skipn (n + h) z.

(* |a - b| of two equal-length operands and whether a < b (the Go code
   subtracts, and on borrow subtracts the other way round) *)
Definition absdiff (a b : list Z) : list Z * bool :=
  let (d, c) := sub10VV_v a b 0 in
  if c =? 0 then (d, false) else (fst (sub10VV_v b a 0), true).

(* the last part of decKaratsuba and decKaratsubaSqr: with z0 in z[0:n], z2 in
   z[n:2n] and p = |xd|*|yd| in z[3n:4n],
     r := z[4n:]; copy(r, z[:2n])
     decKaratsubaAdd(z[n2:], r, n); decKaratsubaAdd(z[n2:], r[n:], n)
     decKaratsubaAdd(z[n2:], p, n)  or  decKaratsubaSub(z[n2:], p, n) *)
Definition karatsubaCombine (z : list Z) (n : nat) (add : bool) : list Z :=
  let n2 := (n / 2)%nat in
  let z := splice z (4 * n) (firstn (2 * n) z) in
  let r := skipn (4 * n) z in
  let p := skipn (3 * n) z in
  let zt := skipn n2 z in
  let zt := karatsubaAdd zt r n in
  let zt := karatsubaAdd zt (skipn n r) n in
  let zt := if add then karatsubaAdd zt p n else karatsubaSub zt p n in
  firstn n2 z ++ zt.

(* decKaratsuba(z, x, y): len x = len y = n, len z >= 6n; z[0:2n] = x*y and
   z[2n:6n] is scratch.  `fuel` bounds the recursion depth (n halves). *)
Fixpoint karatsuba (fuel : nat) (thr : Z) (z x y : list Z) : list Z :=
  let n := length y in
  match fuel with
  | O => basicMul z x y
  | S f =>
      if Nat.odd n || (Z.of_nat n <? thr) || (n <? 2)%nat then basicMul z x y
      else
        let n2 := (n / 2)%nat in
        let x1 := skipn n2 x in let x0 := firstn n2 x in
        let y1 := skipn n2 y in let y0 := firstn n2 y in
        (* z0 = x0*y0 in z[0:n], z2 = x1*y1 in z[n:2n] *)
        let z := karatsuba f thr z x0 y0 in
        let z := firstn n z ++ karatsuba f thr (skipn n z) x1 y1 in
        (* xd = |x1-x0| in z[2n:2n+n2], yd = |y0-y1| in z[2n+n2:3n] *)
        let (xd, sx) := absdiff x1 x0 in
        let z := splice z (2 * n) xd in
        let (yd, sy) := absdiff y0 y1 in
        let z := splice z (2 * n + n2) yd in
        (* p = xd*yd in z[3n:4n] *)
        let z := firstn (3 * n) z ++ karatsuba f thr (skipn (3 * n) z) xd yd in
        karatsubaCombine z n (Bool.eqb sx sy)
  end.

(* the block loop of dec.mul: for i := k; i < len(x); i += k.
   xs = x[i:], mulr = the recursive dec.mul *)
Fixpoint mul_blocks (mulr : list Z -> list Z -> list Z) (k : nat) (y0 y1 : list Z)
    (fuel : nat) (z xs : list Z) (i : nat) : list Z :=
  match fuel with
  | O => z
  | S f =>
      match xs with
      | [] => z
      | _ =>
          let xi := norm (firstn k xs) in
          let z := decAddAt z (mulr xi y0) i in
          let z := decAddAt z (mulr xi y1) (i + k) in
          mul_blocks mulr k y0 y1 f z (skipn k xs) (i + k)
      end
  end.

(* dec.mul(x, y) with decKaratsubaThreshold = thr *)
Fixpoint mul_f (fuel : nat) (thr junk : Z) (x y : list Z) {struct fuel} : list Z :=
  match fuel with
  | O => []
  | S f =>
      let '(x, y) := if (length x <? length y)%nat then (y, x) else (x, y) in
      let m := length x in
      let n := length y in
      if (n =? 0)%nat then []
      else if (n =? 1)%nat then nat_mulAddWW x (hd 0 y) 0
      else if Z.of_nat n <? thr then norm (basicMul (mk junk (m + n)) x y)
      else
        let k := karatsubaLen n thr in
        let x0 := firstn k x in
        let y0 := firstn k y in
        let z := karatsuba k thr (mk junk (Nat.max (6 * k) (m + n))) x0 y0 in
        (* z = z[0:m+n]; z[2k:].clear() *)
        let z := firstn (2 * k) z ++ repeat 0 (m + n - 2 * k) in
        if (k <? n)%nat || negb (m =? n)%nat then
          let x0n := norm x0 in
          let y1 := skipn k y in
          let z := decAddAt z (mul_f f thr junk x0n y1) k in
          let y0n := norm y0 in
          norm (mul_blocks (mul_f f thr junk) k y0n y1 m z (skipn k x) k)
        else norm z
  end.

Definition mul (thr junk : Z) (x y : list Z) : list Z :=
  mul_f (S (length x + length y)) thr junk x y.
