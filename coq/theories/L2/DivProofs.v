(* L2/DivProofs.v — dec.divW, divBasic (Knuth's Algorithm D with the two-word
   q̂ refinement and the wrapping add-back), the normalisation of divLarge, and
   dec.div for divisors below divRecursiveThreshold. *)
From Coq Require Import ZArith List Bool Lia.
From Dec Require Import Base.Words Base.WordsProofs L2.KernV L2.KernVProofs L2.Nat L2.NatProofs
  L2.Mul L2.MulProofs L2.Div.
Open Scope Z_scope.

(* ---- arithmetic of the quotient estimate -------------------------------- *)

Section Qhat.
  (* V = (v1·B + v2)·P + Vlow is the divisor, P = B^(n-2);
     U = (ujn·B² + ujn1·B + ujn2)·P + Ulow the current n+1-word dividend *)
  Variables v1 v2 P Vlow ujn ujn1 ujn2 Ulow : Z.
  Let V := (v1 * B + v2) * P + Vlow.
  Let top2 := ujn * B + ujn1.
  Let top3 := top2 * B + ujn2.
  Let U := top3 * P + Ulow.
  Hypothesis Hv1 : 1 <= v1 < B.
  Hypothesis Hv2 : 0 <= v2 < B.
  Hypothesis HP : 1 <= P.
  Hypothesis HVlow : 0 <= Vlow < P.
  Hypothesis Hujn : 0 <= ujn < B.
  Hypothesis Hujn1 : 0 <= ujn1 < B.
  Hypothesis Hujn2 : 0 <= ujn2 < B.
  Hypothesis HUlow : 0 <= Ulow < P.

  Lemma V_lower : v1 * B * P <= V.
  Proof. unfold V. nia. Qed.

  Lemma V_upper : V < (v1 * B + v2 + 1) * P.
  Proof. unfold V. nia. Qed.

  (* q·(v1·B+v2) <= top3 implies q is at most one too large *)
  Lemma qhat_good q : 0 <= q < B -> q * (v1 * B + v2) <= top3 -> (q - 1) * V <= U.
  Proof.
    intros Hq Ht. pose proof V_lower. pose proof B_pos.
    assert (q * Vlow <= q * P) by nia.
    assert (q * P <= B * P) by nia.
    assert (B * P <= v1 * B * P) by nia.
    assert (q * (v1 * B + v2) * P <= top3 * P) by nia.
    unfold U, V in *. nia.
  Qed.

  (* q·(v1·B+v2) > top3 implies q is too large *)
  Lemma qhat_bad q : 0 <= q -> top3 < q * (v1 * B + v2) -> U < q * V.
  Proof.
    intros Hq Ht.
    assert ((top3 + 1) * P <= q * (v1 * B + v2) * P) by nia.
    assert (0 <= q * Vlow) by nia.
    unfold U, V. nia.
  Qed.

  Lemma greaterThan_spec q rh : 0 <= q -> 0 <= rh ->
    let (x1, x2) := mul10WW_v q v2 in
    greaterThan x1 x2 rh ujn2 = (rh * B + ujn2 <? q * v2).
  Proof.
    intros Hq Hr. unfold mul10WW_v, greaterThan. pose proof B_pos.
    pose proof (Z.div_mod (q * v2) B ltac:(lia)). pose proof (Z.mod_pos_bound (q * v2) B ltac:(lia)).
    set (x1 := q * v2 / B) in *. set (x2 := (q * v2) mod B) in *.
    destruct (Z.ltb_spec (rh * B + ujn2) (q * v2)); destruct (Z.ltb_spec rh x1); cbn [orb]; try reflexivity.
    - destruct (Z.eqb_spec x1 rh); cbn [andb]; [|nia].
      destruct (Z.ltb_spec ujn2 x2); [reflexivity | nia].
    - nia.
    - destruct (Z.eqb_spec x1 rh); cbn [andb]; [|reflexivity].
      destruct (Z.ltb_spec ujn2 x2); [nia | reflexivity].
  Qed.

  Lemma qhat_loop_spec fuel : forall qh rh,
    0 <= qh < B -> 0 <= rh < W64 -> qh * v1 + rh = top2 -> U < (qh + 1) * V ->
    B <= rh + Z.of_nat fuel * v1 ->
    exists qhat, qhat_loop fuel qh rh v1 v2 ujn2 = Some qhat /\
                 0 <= qhat <= qh /\ U < (qhat + 1) * V /\ (qhat - 1) * V <= U.
  Proof.
    assert (HBW : B < W64) by (rewrite B_eq; reflexivity).
    induction fuel as [|f IH]; intros qh rh Hqh Hrh Heq Hub Hfuel; cbn [qhat_loop].
    - pose proof (greaterThan_spec qh rh ltac:(lia) ltac:(lia)) as G.
      destruct (mul10WW_v qh v2) as [x1 x2]. rewrite G.
      destruct (Z.ltb_spec (rh * B + ujn2) (qh * v2)); [nia|].
      exists qh. split; [reflexivity|]. split; [lia|]. split; [assumption|].
      apply qhat_good; [lia|]. unfold top3. nia.
    - pose proof (greaterThan_spec qh rh ltac:(lia) ltac:(lia)) as G.
      destruct (mul10WW_v qh v2) as [x1 x2]. rewrite G.
      destruct (Z.ltb_spec (rh * B + ujn2) (qh * v2)) as [Hgt|Hle].
      + assert (Hbad : U < qh * V) by (apply qhat_bad; [lia|]; unfold top3; nia).
        assert (1 <= qh) by nia.
        destruct (Z.ltb_spec ((rh + v1) mod W64) rh) as [Hwrap|Hnowrap].
        * (* r̂ overflowed the machine word: r̂ + v1 >= 2^64 > B *)
          assert (W64 <= rh + v1).
          { destruct (Z.lt_ge_cases (rh + v1) W64); [|assumption].
            rewrite Z.mod_small in Hwrap by lia. lia. }
          exists (qh - 1). split; [reflexivity|]. split; [lia|]. split.
          -- replace (qh - 1 + 1) with qh by lia. assumption.
          -- apply qhat_good; [lia|]. unfold top3. nia.
        * assert (rh + v1 < W64).
          { destruct (Z.lt_ge_cases (rh + v1) W64); [assumption|].
            assert ((rh + v1) mod W64 = rh + v1 - W64).
            { symmetry. apply (Z.mod_unique_pos _ _ 1); lia. }
            lia. }
          rewrite Z.mod_small by lia.
          destruct (IH (qh - 1) (rh + v1)) as (qhat & E & R1 & R2 & R3); try lia.
          exists qhat. split; [assumption|]. split; [lia|]. split; assumption.
      + exists qh. split; [reflexivity|]. split; [lia|]. split; [assumption|].
        apply qhat_good; [lia|]. unfold top3. nia.
  Qed.

  (* the estimate of D3 is the true quotient digit or one more *)
  Lemma qhat_calc_spec : B <= 2 * v1 -> U < B * V ->
    exists qhat, qhat_calc v1 v2 ujn ujn1 ujn2 = Some qhat /\
                 0 <= qhat < B /\ U < (qhat + 1) * V /\ (qhat - 1) * V <= U /\
                 (ujn = 0 -> qhat <= 1).
  Proof.
    intros Hnorm HU. unfold qhat_calc. pose proof B_pos. pose proof V_lower. pose proof V_upper.
    assert (Hle : ujn <= v1).
    { assert (ujn * B * B * P <= U) by (unfold U, top3, top2; nia).
      assert (ujn * B * B * P < B * ((v1 * B + v2 + 1) * P)) by nia.
      assert (ujn * (B * B * P) < (v1 + 1) * (B * B * P)) by nia.
      assert (0 < B * B * P) by nia. nia. }
    destruct (Z.eqb_spec ujn v1) as [Eq|Ne].
    - exists (B - 1). split; [reflexivity|]. split; [lia|]. split; [|split; [|lia]].
      + replace (B - 1 + 1) with B by lia. assumption.
      + (* (B-2)·V <= U needs the normalisation *)
        assert (v1 * B * B * P <= U) by (unfold U, top3, top2; subst ujn; nia).
        assert ((B - 2) * V <= (B - 2) * ((v1 * B + v2 + 1) * P)) by nia.
        pose proof B_gt1.
        assert (v1 * B + v2 + 1 <= (v1 + 1) * B) by lia.
        assert ((v1 * B + v2 + 1) * P <= (v1 + 1) * B * P) by (apply Z.mul_le_mono_nonneg_r; lia).
        assert ((B - 2) * ((v1 * B + v2 + 1) * P) <= (B - 2) * ((v1 + 1) * B * P))
          by (apply Z.mul_le_mono_nonneg_l; lia).
        assert ((B - 2) * (v1 + 1) <= v1 * B) by nia.
        assert (0 <= B * P) by nia.
        assert ((B - 2) * (v1 + 1) * (B * P) <= v1 * B * (B * P)) by (apply Z.mul_le_mono_nonneg_r; lia).
        replace (B - 1 - 1) with (B - 2) by lia.
        replace ((B - 2) * ((v1 + 1) * B * P)) with ((B - 2) * (v1 + 1) * (B * P)) in * by ring.
        replace (v1 * B * B * P) with (v1 * B * (B * P)) in * by ring.
        lia.
    - destruct (Z.ltb_spec v1 ujn); [lia|].
      destruct (div10WW_v ujn ujn1 v1) as [qh rh] eqn:Ed.
      destruct (div10WW_v_spec ujn ujn1 v1 qh rh ltac:(lia) Hujn1 ltac:(lia) Ed) as (Hq & Hr & Hqr).
      assert (HBW : B < W64) by (rewrite B_eq; reflexivity).
      destruct (qhat_loop_spec 2 qh rh Hq ltac:(lia)) as (qhat & E & R1 & R2 & R3).
      + unfold top2. lia.
      + (* U < (qh+1)·V *)
        assert (top2 + 1 <= (qh + 1) * v1) by (unfold top2; nia).
        assert (U < (top2 + 1) * B * P) by (unfold U, top3; nia).
        assert ((top2 + 1) * (B * P) <= (qh + 1) * v1 * (B * P)) by nia.
        nia.
      + change (Z.of_nat 2) with 2. lia.
      + exists qhat. split; [assumption|]. split; [lia|]. split; [assumption|]. split; [assumption|].
        intros ->. assert (qh * v1 <= ujn1) by lia. assert (qh <= 1) by nia. lia.
  Qed.
End Qhat.

(* ---- D4-D6 on the window ------------------------------------------------- *)

Lemma skipn_last_one (l : list Z) n : length l = S n -> skipn n l = [nthw l n].
Proof.
  revert l; induction n as [|n IH]; intros l Hl.
  - destruct l as [|a [|? ?]]; try discriminate. reflexivity.
  - destruct l as [|a l]; [discriminate|]. cbn [length] in Hl. cbn [skipn]. unfold nthw. cbn [nth].
    apply IH. lia.
Qed.

Lemma nthw_app_at (l r : list Z) n : length l = n -> nthw (l ++ r) n = nthw r 0.
Proof. intros <-. unfold nthw. rewrite app_nth2 by lia. now rewrite Nat.sub_diag. Qed.

(* subtract q̂·v from the window; on borrow add v back; the carry into the top
   word wraps at B.  With q̂ the true digit or one more, the window ends up
   holding the remainder and the digit is exact. *)
Lemma divBasic_window_spec w v qhatv qhat :
  let n := length v in
  let V := val v in
  let U := val w in
  words_ok w = true -> words_ok v = true -> words_ok qhatv = true ->
  length qhatv = S n -> val (firstn (length w) qhatv) = qhat * V ->
  (length w = S n \/ length w = n) ->
  0 < V -> 0 <= qhat -> U < (qhat + 1) * V -> (qhat - 1) * V <= U ->
  forall w' q', divBasic_window w v qhatv qhat = (w', q') ->
  length w' = length w /\ words_ok w' = true /\ q' = U / V /\ val w' = U mod V.
Proof.
  intros n V U Ow Ov Oq Lq Vq Lw HV Hq0 Hhi Hlo w' q' E.
  unfold divBasic_window in E. fold n in E.
  set (qhl := length w) in *.
  assert (Hqhl : (n <= qhl <= S n)%nat) by lia.
  set (QV := firstn qhl qhatv) in *.
  assert (LQV : length QV = qhl) by (unfold QV; len).
  assert (OQV : words_ok QV = true) by (now apply words_ok_firstn).
  destruct (sub10VV_v w QV 0) as [w1 c] eqn:Es.
  destruct (sub10VV_v_spec w QV 0 w1 c ltac:(lia) Ow OQV ltac:(lia) Es) as (L1 & O1 & C1 & V1).
  fold qhl in L1, V1. rewrite Vq in V1. fold U in V1.
  pose proof (val_bounds' w1 O1) as B1. rewrite L1 in B1.
  pose proof (val_bounds' v Ov) as Bv. fold n V in Bv.
  pose proof (Bp_pos qhl) as Hpq. pose proof (Bp_pos n) as Hpn.
  destruct (Z.eqb_spec c 0) as [->|Ec].
  - inversion E; subst w' q'. rewrite Z.mul_0_r, Z.sub_0_r in V1.
    destruct (divmod_unique U V qhat (val w1)) as [Ed Em]; [nia | lia |].
    repeat split; try assumption; lia.
  - assert (c = 1) by lia. subst c. rewrite Z.mul_1_r in V1.
    assert (Hneg : U < qhat * V) by lia.
    set (D := U - (qhat - 1) * V).
    assert (HD : 0 <= D < V) by (unfold D; nia).
    assert (Vw1 : val w1 = D - V + Bp qhl) by (unfold D; lia).
    destruct (divmod_unique U V (qhat - 1) D) as [Ed Em]; [lia | unfold D; lia |].
    set (wl := firstn n w1) in *.
    assert (Lwl : length wl = n) by (unfold wl; len).
    assert (Owl : words_ok wl = true) by (now apply words_ok_firstn).
    destruct (add10VV_v wl v 0) as [w2 c2] eqn:Ea.
    destruct (add10VV_v_spec wl v 0 w2 c2 Lwl Owl Ov ltac:(lia) Ea) as (L2 & O2 & C2 & V2).
    rewrite Lwl in L2, V2. fold V in V2.
    pose proof (val_bounds' w2 O2) as B2. rewrite L2 in B2.
    destruct Lw as [Lw|Lw].
    + (* the window has a top word *)
      assert (Hlt : (n <? qhl)%nat = true) by (apply Nat.ltb_lt; lia). rewrite Hlt in E.
      rewrite (skipn_last_one w1 n) in E by lia.
      set (wt := nthw w1 n) in *.
      assert (Vsplit : val w1 = val wl + Bp n * wt).
      { rewrite (val_split n w1) by lia. fold wl. rewrite (skipn_last_one w1 n) by lia. fold wt.
        now rewrite val_single. }
      assert (Owt : 0 <= wt < B).
      { assert (Hs : words_ok (skipn n w1) = true) by (now apply words_ok_skipn).
        rewrite (skipn_last_one w1 n) in Hs by lia. now apply words_ok_cons in Hs as [Hs _]. }
      rewrite (nthw_app_at w2 [wt] n L2) in E. change (nthw [wt] 0) with wt in E.
      rewrite (firstn_app_exact w2 [wt] n) in E by lia.
      assert (HB : Bp qhl = B * Bp n) by (replace qhl with (S n) by lia; apply Bp_S).
      assert (Hsum : wt + c2 = B) by nia.
      destruct (Z.leb_spec B (wt + c2)); [|lia].
      inversion E; subst w' q'. replace (wt + c2 - B) with 0 by lia.
      repeat split.
      * len.
      * apply words_ok_app. split; [assumption|]. apply words_ok_cons. split; [pose proof B_pos; lia | reflexivity].
      * lia.
      * rewrite val_app', val_single, L2, Em. nia.
    + (* no top word: the two carries cancel *)
      assert (Hlt : (n <? qhl)%nat = false) by (apply Nat.ltb_ge; lia). rewrite Hlt in E.
      assert (Ewl : wl = w1) by (unfold wl; apply firstn_all2; lia).
      rewrite skipn_all2 in E by lia. rewrite app_nil_r in E.
      inversion E; subst w' q'. rewrite Ewl in V2.
      replace qhl with n in * by lia.
      assert (c2 = 1) by nia. subst c2.
      repeat split; try assumption; try lia.
Qed.

(* ---- words of a list ----------------------------------------------------- *)

Lemma skipn_cons_nth (l : list Z) k : (k < length l)%nat -> skipn k l = nthw l k :: skipn (S k) l.
Proof.
  revert l; induction k as [|k IH]; intros l Hl.
  - destruct l; [cbn in Hl; lia | reflexivity].
  - destruct l as [|a l]; [cbn in Hl; lia|]. cbn [length] in Hl. cbn [skipn]. unfold nthw. cbn [nth].
    apply IH. lia.
Qed.

Lemma nthw_bounds l i : words_ok l = true -> (i < length l)%nat -> 0 <= nthw l i < B.
Proof.
  intros Hl Hi. pose proof (words_ok_skipn i l Hl) as H. rewrite (skipn_cons_nth l i Hi) in H.
  now apply words_ok_cons in H as [H _].
Qed.

Lemma nth_firstn' (l : list Z) : forall L i d, (i < L)%nat -> nth i (firstn L l) d = nth i l d.
Proof.
  induction l as [|a l IH]; intros L i d Hi.
  - now rewrite firstn_nil.
  - destruct L; [lia|]. destruct i; [reflexivity|]. cbn [firstn nth]. apply IH. lia.
Qed.
Lemma nth_skipn' (l : list Z) : forall j i d, nth i (skipn j l) d = nth (j + i) l d.
Proof.
  induction l as [|a l IH]; intros j i d.
  - rewrite skipn_nil. now destruct i, j.
  - destruct j; [reflexivity|]. cbn [skipn Nat.add nth]. apply IH.
Qed.

Lemma nthw_win u j L i : (i < L)%nat -> (j + L <= length u)%nat -> nthw (win u j L) i = nthw u (j + i).
Proof.
  intros Hi HL. unfold nthw, win. rewrite nth_firstn' by assumption. apply nth_skipn'.
Qed.

(* the two leading words *)
Lemma split_top2 l n : length l = n -> (2 <= n)%nat ->
  val l = val (firstn (n - 2) l) + Bp (n - 2) * (nthw l (n - 2) + B * nthw l (n - 1)).
Proof.
  intros Hl Hn. rewrite (val_split (n - 2) l) by lia. f_equal. f_equal.
  rewrite (skipn_cons_nth l (n - 2)) by lia. rewrite (skipn_cons_nth l (S (n - 2))) by lia.
  rewrite skipn_all2 by lia. replace (S (n - 2)) with (n - 1)%nat by lia. cbn [val]. lia.
Qed.

(* the three leading words *)
Lemma split_top3 l n : length l = S n -> (2 <= n)%nat ->
  val l = val (firstn (n - 2) l) +
          Bp (n - 2) * (nthw l (n - 2) + B * nthw l (n - 1) + B * B * nthw l n).
Proof.
  intros Hl Hn. rewrite (val_split (n - 2) l) by lia. f_equal. f_equal.
  rewrite (skipn_cons_nth l (n - 2)) by lia. rewrite (skipn_cons_nth l (S (n - 2))) by lia.
  rewrite (skipn_cons_nth l (S (S (n - 2)))) by lia.
  rewrite skipn_all2 by lia. replace (S (n - 2)) with (n - 1)%nat by lia.
  replace (S (n - 1)) with n by lia. cbn [val]. lia.
Qed.

Lemma val_top_lower l n : length l = n -> (1 <= n)%nat -> words_ok l = true ->
  nthw l (n - 1) * Bp (n - 1) <= val l.
Proof.
  intros Hl Hn Ol. rewrite (val_split (n - 1) l) by lia.
  rewrite (skipn_cons_nth l (n - 1)) by lia. rewrite skipn_all2 by lia. cbn [val].
  pose proof (val_nonneg _ (words_ok_firstn (n - 1) l Ol)). lia.
Qed.

(* ---- one step of Algorithm D --------------------------------------------- *)

Lemma divBasic_step_spec q u v j :
  let n := length v in
  let V := val v in
  let m := (length u - n)%nat in
  let Uj := val (skipn j u) in
  (2 <= n)%nat -> (n <= length u)%nat -> (j <= m)%nat ->
  words_ok u = true -> words_ok v = true -> B <= 2 * nthw v (n - 1) ->
  val (skipn (S j) u) < V ->
  (m <= length q)%nat -> (j = m -> length q = m -> val (skipn m u) < V) ->
  exists q' u', divBasic_step q u v j = Some (q', u') /\
    length u' = length u /\ words_ok u' = true /\ firstn j u' = firstn j u /\
    val (skipn j u') = Uj mod V /\ 0 <= Uj / V < B /\
    (((j < length q)%nat /\ q' = splice q j [Uj / V]) \/
     ((length q <= j)%nat /\ q' = q /\ Uj / V = 0)).
Proof.
  intros n V m Uj Hn Hlu Hj Ou Ov Hnorm Hinv Hlq Hq0.
  pose proof B_pos as HB. pose proof B_gt1 as HB1.
  assert (Hju : (j < length u)%nat) by lia.
  (* the divisor *)
  set (v1 := nthw v (n - 1)) in *. set (v2 := nthw v (n - 2)).
  set (P := Bp (n - 2)). set (Vlow := val (firstn (n - 2) v)).
  assert (HV : V = (v1 * B + v2) * P + Vlow).
  { unfold V. rewrite (split_top2 v n eq_refl Hn). fold v1 v2 P Vlow. ring. }
  assert (Bv1 : 0 <= v1 < B) by (apply nthw_bounds; [assumption | lia]).
  assert (Bv2 : 0 <= v2 < B) by (apply nthw_bounds; [assumption | lia]).
  assert (HP : 1 <= P) by apply Bp_ge1.
  assert (BVlow : 0 <= Vlow < P).
  { pose proof (val_bounds' _ (words_ok_firstn (n - 2) v Ov)) as Hb.
    rewrite firstn_length, Nat.min_l in Hb by lia. exact Hb. }
  assert (Hv1 : 1 <= v1) by lia.
  assert (HVpos : 0 < V).
  { rewrite HV. assert (1 <= v1 * B + v2) by nia. assert (1 <= (v1 * B + v2) * P) by nia. lia. }
  pose proof (val_bounds' v Ov) as BV. fold n V in BV.
  (* the dividend *)
  assert (EUj : Uj = nthw u j + B * val (skipn (S j) u)).
  { unfold Uj. rewrite (skipn_cons_nth u j Hju). reflexivity. }
  pose proof (nthw_bounds u j Ou Hju) as Buj.
  pose proof (val_nonneg _ (words_ok_skipn (S j) u Ou)) as Hhi0.
  assert (HUjB : 0 <= Uj < B * V) by nia.
  assert (Hqd : 0 <= Uj / V < B).
  { split; [apply Z.div_pos; lia | apply Z.div_lt_upper_bound; lia]. }
  unfold divBasic_step, divBasic_qhat. fold n v1 v2.
  replace (length u - n)%nat with m by reflexivity.
  destruct (Nat.ltb_spec (j + n) (length u)) as [Hlt|Hge].
  - (* ---- j < m: the window has n+1 words ---- *)
    set (W := win u j (S n)).
    assert (LW : length W = S n) by (apply length_win; lia).
    assert (OW : words_ok W = true) by (now apply words_ok_win).
    set (hi := skipn (j + S n) u).
    assert (Esk : skipn j u = W ++ hi).
    { unfold W, win, hi. rewrite <- (skipn_skipn' (S n) j u). symmetry. apply firstn_skipn. }
    assert (Ohi : words_ok hi = true) by (now apply words_ok_skipn).
    pose proof (val_nonneg hi Ohi) as Hhi.
    pose proof (val_bounds' W OW) as BW. rewrite LW in BW.
    assert (EU : Uj = val W + Bp (S n) * val hi) by (unfold Uj; rewrite Esk, val_app', LW; reflexivity).
    assert (Hhi' : val hi = 0).
    { assert (Uj < Bp (S n)) by (rewrite Bp_S; nia). pose proof (Bp_pos (S n)). nia. }
    assert (EW : val W = Uj) by lia.
    set (ujn := nthw u (j + n)). set (ujn1 := nthw u (j + n - 1)). set (ujn2 := nthw u (j + n - 2)).
    set (Ulow := val (firstn (n - 2) W)).
    assert (HW3 : val W = ((ujn * B + ujn1) * B + ujn2) * P + Ulow).
    { rewrite (split_top3 W n LW Hn). unfold W. rewrite !nthw_win by lia.
      replace (j + (n - 2))%nat with (j + n - 2)%nat by lia.
      replace (j + (n - 1))%nat with (j + n - 1)%nat by lia.
      fold W ujn ujn1 ujn2 P Ulow. ring. }
    assert (Bujn : 0 <= ujn < B) by (apply nthw_bounds; [assumption | lia]).
    assert (Bujn1 : 0 <= ujn1 < B) by (apply nthw_bounds; [assumption | lia]).
    assert (Bujn2 : 0 <= ujn2 < B) by (apply nthw_bounds; [assumption | lia]).
    assert (BUlow : 0 <= Ulow < P).
    { pose proof (val_bounds' _ (words_ok_firstn (n - 2) W OW)) as Hb.
      rewrite firstn_length, Nat.min_l in Hb by lia. exact Hb. }
    destruct (qhat_calc_spec v1 v2 P Vlow ujn ujn1 ujn2 Ulow) as (qhat & Eq & Bq & Hhi1 & Hlo1 & _);
      try assumption; try lia.
    rewrite <- HV, <- HW3, EW in Hhi1, Hlo1.
    rewrite Eq.
    destruct (mulAdd10VWW_v v qhat 0) as [qv cq] eqn:Em.
    destruct (mulAdd10VWW_v_spec v qhat 0 qv cq Ov Bq ltac:(lia) Em) as (Lqv & Oqv & Bcq & Vqv).
    fold n V in Lqv, Vqv.
    assert (E1 : (length u <? j + n + 1)%nat = false) by (apply Nat.ltb_ge; lia).
    rewrite E1. cbn [andb].
    assert (E2 : (length u <? j + S n)%nat = false) by (apply Nat.ltb_ge; lia).
    rewrite E2. fold W.
    destruct (divBasic_window W v (qv ++ [cq]) qhat) as [w' q''] eqn:Ewin.
    assert (P1 : words_ok (qv ++ [cq]) = true).
    { apply words_ok_app. split; [assumption|]. apply words_ok_cons. split; [assumption | reflexivity]. }
    assert (P2 : length (qv ++ [cq]) = S (length v)) by (fold n; len).
    assert (P3 : val (firstn (length W) (qv ++ [cq])) = qhat * val v).
    { rewrite LW. rewrite firstn_all2 by (fold n; len). rewrite val_app', val_single, Lqv. fold V. lia. }
    assert (P4 : length W = S (length v) \/ length W = length v) by (fold n; lia).
    assert (P5 : val W < (qhat + 1) * val v) by (fold V; lia).
    assert (P6 : (qhat - 1) * val v <= val W) by (fold V; lia).
    destruct (divBasic_window_spec W v (qv ++ [cq]) qhat OW Ov P1 P2 P3 P4 HVpos ltac:(lia) P5 P6 w' q'' Ewin)
      as (Lw' & Ow' & Eq'' & Vw').
    fold V in Eq'', Vw'. rewrite EW in Eq'', Vw'. rewrite LW in Lw'.
    assert (Ej : (j =? m)%nat = false) by (apply Nat.eqb_neq; lia). rewrite Ej. cbn [andb].
    assert (Elq : (length q <=? j)%nat = false) by (apply Nat.leb_gt; lia). rewrite Elq.
    exists (splice q j [q'']), (splice u j w'). split; [reflexivity|].
    split; [apply length_splice; lia|]. split; [now apply words_ok_splice|].
    split; [apply firstn_splice; lia|]. split.
    + rewrite skipn_splice by lia. rewrite Lw'. fold hi. rewrite val_app', Hhi'. lia.
    + split; [assumption|]. left. split; [lia|]. now rewrite Eq''.
  - (* ---- j = m: the window has n words and no top word ---- *)
    assert (Ejm : j = m) by lia.
    set (W := win u j n).
    assert (LW : length W = n) by (apply length_win; lia).
    assert (OW : words_ok W = true) by (now apply words_ok_win).
    assert (Esk : skipn j u = W).
    { unfold W, win. symmetry. apply firstn_all2. rewrite skipn_length. lia. }
    assert (EW : val W = Uj) by (unfold Uj; now rewrite Esk).
    set (ujn1 := nthw u (j + n - 1)). set (ujn2 := nthw u (j + n - 2)).
    set (Ulow := val (firstn (n - 2) W)).
    assert (HW3 : val W = ((0 * B + ujn1) * B + ujn2) * P + Ulow).
    { rewrite (split_top2 W n LW Hn). unfold W. rewrite !nthw_win by lia.
      replace (j + (n - 2))%nat with (j + n - 2)%nat by lia.
      replace (j + (n - 1))%nat with (j + n - 1)%nat by lia.
      fold W ujn1 ujn2 P Ulow. ring. }
    assert (Bujn1 : 0 <= ujn1 < B) by (apply nthw_bounds; [assumption | lia]).
    assert (Bujn2 : 0 <= ujn2 < B) by (apply nthw_bounds; [assumption | lia]).
    assert (BUlow : 0 <= Ulow < P).
    { pose proof (val_bounds' _ (words_ok_firstn (n - 2) W OW)) as Hb.
      rewrite firstn_length, Nat.min_l in Hb by lia. exact Hb. }
    destruct (qhat_calc_spec v1 v2 P Vlow 0 ujn1 ujn2 Ulow) as (qhat & Eq & Bq & Hhi1 & Hlo1 & Hq1);
      try assumption; try lia.
    rewrite <- HV, <- HW3, EW in Hhi1, Hlo1. specialize (Hq1 eq_refl).
    rewrite Eq.
    destruct (mulAdd10VWW_v v qhat 0) as [qv cq] eqn:Em.
    destruct (mulAdd10VWW_v_spec v qhat 0 qv cq Ov Bq ltac:(lia) Em) as (Lqv & Oqv & Bcq & Vqv).
    fold n V in Lqv, Vqv.
    pose proof (val_nonneg qv Oqv) as Hqv0. pose proof (Bp_pos n) as Hpn.
    assert (cq = 0) by nia. subst cq.
    assert (E1 : (length u <? j + n + 1)%nat = true) by (apply Nat.ltb_lt; lia).
    rewrite E1. cbn [andb Z.eqb].
    assert (E2 : (length u <? j + n)%nat = false) by (apply Nat.ltb_ge; lia).
    rewrite E2. fold W.
    destruct (divBasic_window W v (qv ++ [0]) qhat) as [w' q''] eqn:Ewin.
    assert (P1 : words_ok (qv ++ [0]) = true).
    { apply words_ok_app. split; [assumption|]. apply words_ok_cons. split; [lia | reflexivity]. }
    assert (P2 : length (qv ++ [0]) = S (length v)) by (fold n; len).
    assert (P3 : val (firstn (length W) (qv ++ [0])) = qhat * val v).
    { rewrite LW. rewrite (firstn_app_exact qv [0] n) by lia. fold V. lia. }
    assert (P4 : length W = S (length v) \/ length W = length v) by (fold n; lia).
    assert (P5 : val W < (qhat + 1) * val v) by (fold V; lia).
    assert (P6 : (qhat - 1) * val v <= val W) by (fold V; lia).
    destruct (divBasic_window_spec W v (qv ++ [0]) qhat OW Ov P1 P2 P3 P4 HVpos ltac:(lia) P5 P6 w' q'' Ewin)
      as (Lw' & Ow' & Eq'' & Vw').
    fold V in Eq'', Vw'. rewrite EW in Eq'', Vw'. rewrite LW in Lw'.
    assert (Ej : (j =? m)%nat = true) by (apply Nat.eqb_eq; lia). rewrite Ej. cbn [andb].
    assert (Hu' : length (splice u j w') = length u) by (apply length_splice; lia).
    assert (Hsk' : val (skipn j (splice u j w')) = Uj mod V).
    { rewrite skipn_splice by lia. rewrite skipn_all2 by lia. rewrite app_nil_r. lia. }
    destruct (Nat.eqb_spec m (length q)) as [Emq|Emq]; cbn [andb].
    + assert (Hz : Uj / V = 0).
      { apply Z.div_small. pose proof (Hq0 Ejm (eq_sym Emq)) as Hq0'. rewrite <- Ejm in Hq0'.
        fold Uj in Hq0'. lia. }
      rewrite Eq'', Hz. cbn [Z.eqb].
      exists q, (splice u j w'). split; [reflexivity|]. split; [assumption|].
      split; [now apply words_ok_splice|]. split; [apply firstn_splice; lia|].
      split; [assumption|]. split; [lia|]. right. repeat split; lia.
    + assert (Elq : (length q <=? j)%nat = false) by (apply Nat.leb_gt; lia).
      assert (Hif : (if q'' =? 0 then Some (q, splice u j w')
                     else if (length q <=? j)%nat then None else Some (splice q j [q''], splice u j w'))
                    = Some (if q'' =? 0 then q else splice q j [q''], splice u j w')).
      { rewrite Elq. now destruct (q'' =? 0). }
      (* when the digit is 0 the Go code still stores it: q[j] = qhat *)
      rewrite Elq.
      exists (splice q j [q'']), (splice u j w'). split; [reflexivity|]. split; [assumption|].
      split; [now apply words_ok_splice|]. split; [apply firstn_splice; lia|].
      split; [assumption|]. split; [assumption|]. left. split; [lia|]. now rewrite Eq''.
Qed.

(* ---- the loop of Algorithm D: accounting invariant and remainder bound ---- *)

Lemma divBasic_loop_spec v (m : nat) :
  let n := length v in
  let V := val v in
  (2 <= n)%nat -> words_ok v = true -> B <= 2 * nthw v (n - 1) ->
  forall k q u, (k <= S m)%nat -> length u = (m + n)%nat -> words_ok u = true ->
    (m <= length q)%nat -> val (skipn k u) < V ->
    (k = S m -> length q = m -> val (skipn m u) < V) ->
    exists q' u', divBasic_loop k q u v = Some (q', u') /\
      length q' = length q /\ length u' = length u /\ words_ok u' = true /\
      let k' := Nat.min k (length q) in
      words_ok (firstn k' q') = true /\ skipn k' q' = skipn k' q /\
      val u = val (firstn k' q') * V + val u' /\ 0 <= val u' < V.
Proof.
  intros n V Hn Ov Hnorm. induction k as [|j IH]; intros q u Hk Lu Ou Hlq Hinv Hq0; cbn [divBasic_loop].
  - exists q, u. split; [reflexivity|]. cbn [Nat.min firstn skipn val] in *.
    repeat split; try reflexivity; try assumption; try lia. now apply val_nonneg.
  - assert (Em : (length u - n)%nat = m) by lia.
    assert (S1 : (n <= length u)%nat) by lia.
    assert (S2 : (j <= length u - n)%nat) by lia.
    assert (S3 : (length u - n <= length q)%nat) by lia.
    assert (S4 : j = (length u - n)%nat -> length q = (length u - n)%nat -> val (skipn (length u - n) u) < V).
    { rewrite Em. intros Ej Eq. apply Hq0; [lia | assumption]. }
    destruct (divBasic_step_spec q u v j Hn S1 S2 Ou Ov Hnorm Hinv S3 S4)
      as (q1 & u1 & E1 & Lu1 & Ou1 & F1 & V1 & Bqd & Hq1).
    fold n V in V1, Bqd, Hq1. rewrite E1.
    set (Uj := val (skipn j u)) in *.
    assert (HVpos : 0 < V) by (pose proof (val_nonneg _ (words_ok_skipn (S j) u Ou)); lia).
    pose proof (Z.mod_pos_bound Uj V HVpos) as Hmod.
    pose proof (Z.div_mod Uj V ltac:(lia)) as Hdm.
    assert (Lq1 : length q1 = length q).
    { destruct Hq1 as [(Hjq & ->)|(_ & -> & _)]; [apply length_splice; cbn [length]; lia | reflexivity]. }
    destruct (IH q1 u1) as (q' & u' & E & Lq' & Lu' & Ou' & Oq' & Sq' & Acc & Bu'); try lia; try assumption.
    exists q', u'. split; [assumption|]. split; [lia|]. split; [lia|]. split; [assumption|].
    cbv zeta in *. rewrite Lq1 in *.
    (* val u = val u1 + B^j * (Uj / V) * V *)
    assert (Hu : val u = val u1 + Bp j * (Uj / V) * V).
    { rewrite (val_split j u) by lia. rewrite (val_split j u1) by lia. rewrite F1. fold Uj. rewrite V1. nia. }
    replace (Nat.min j (length q)) with j in * by lia.
    destruct Hq1 as [(Hjq & Eq1)|(Hjq & Eq1 & Hz)].
    + replace (Nat.min (S j) (length q)) with (S j) by lia.
      assert (Eskip : skipn j q' = (Uj / V) :: skipn (S j) q).
      { rewrite Sq', Eq1. rewrite skipn_splice by lia. cbn [length app]. f_equal. f_equal. lia. }
      assert (Efirst : firstn (S j) q' = firstn j q' ++ [Uj / V]).
      { rewrite <- (firstn_skipn j q') at 1. rewrite Eskip.
        rewrite (firstn_app_at (firstn j q') _ (S j) 1) by len. reflexivity. }
      rewrite Efirst. split; [|split; [|split]].
      * apply words_ok_app. split; [assumption|]. apply words_ok_cons. split; [assumption | reflexivity].
      * replace (S j) with (j + 1)%nat at 1 by lia. rewrite <- (skipn_skipn' 1 j q'). rewrite Eskip. reflexivity.
      * rewrite val_app', val_single. rewrite firstn_length, Nat.min_l by lia. lia.
      * assumption.
    + replace (Nat.min (S j) (length q)) with j by lia. subst q1.
      split; [assumption|]. split; [assumption|]. split; [|assumption]. rewrite Hu, Hz. lia.
Qed.

(* q.divBasic(u, v): the quotient digits written into q and the remainder left
   in u satisfy u0 = q·v + r with 0 <= r < v *)
Theorem divBasic_spec q u v :
  let n := length v in
  let m := (length u - n)%nat in
  let Lq := Nat.min (S m) (length q) in
  (2 <= n)%nat -> (n <= length u)%nat -> words_ok u = true -> words_ok v = true ->
  B <= 2 * nthw v (n - 1) -> (m <= length q)%nat -> (length q = m -> val (skipn m u) < val v) ->
  exists q' u', divBasic q u v = Some (q', u') /\
    length q' = length q /\ length u' = length u /\ words_ok u' = true /\
    words_ok (firstn Lq q') = true /\ skipn Lq q' = skipn Lq q /\
    val u = val (firstn Lq q') * val v + val u' /\ 0 <= val u' < val v.
Proof.
  intros n m Lq Hn Hlu Ou Ov Hnorm Hlq Hq0. unfold divBasic. fold n.
  destruct (Nat.eqb_spec n 0); [lia|].
  destruct (Nat.ltb_spec (length u) n); [lia|].
  destruct (Nat.ltb_spec n 2); [lia|]. fold m.
  assert (H3 : val (skipn (S m) u) < val v).
  { (* skipn (m+1) u has n-1 words *)
    pose proof (val_bounds' _ (words_ok_skipn (S m) u Ou)) as Hb. rewrite skipn_length in Hb.
    replace (length u - S m)%nat with (n - 1)%nat in Hb by lia.
    pose proof (val_top_lower v n eq_refl ltac:(lia) Ov) as Hlow.
    pose proof (Bp_pos (n - 1)). pose proof B_gt1. nia. }
  destruct (divBasic_loop_spec v m Hn Ov Hnorm (S m) q u (le_n _) ltac:(lia) Ou Hlq H3 (fun _ => Hq0))
    as (q' & u' & E & R).
  exists q', u'. split; [assumption|]. exact R.
Qed.

(* ---- divLarge: normalisation -------------------------------------------- *)

Lemma B_even_big : B mod 2 = 0 /\ 9 < B.
Proof. rewrite B_eq. split; reflexivity. Qed.

(* Knuth 4.3.1 exercise 23: d = B/(vt+1) scales the top word into [B/2, B) *)
Lemma norm_factor vt : 1 <= vt < B ->
  let d := B / (vt + 1) in 1 <= d < B /\ d * (vt + 1) <= B /\ B <= 2 * (vt * d).
Proof.
  intros Hvt d. destruct B_even_big as [Hev Hbig].
  pose proof (Z.div_mod B (vt + 1) ltac:(lia)) as Hdm. fold d in Hdm.
  pose proof (Z.mod_pos_bound B (vt + 1) ltac:(lia)) as Hm.
  pose proof (Z.div_mod B 2 ltac:(lia)) as H2. rewrite Hev in H2.
  assert (Hd1 : 1 <= d) by (apply Z.div_le_lower_bound; lia).
  assert (Hmul : d * (vt + 1) <= B) by lia.
  assert (Hnext : B < (d + 1) * (vt + 1)) by lia.
  split; [split; [assumption | nia]|]. split; [assumption|].
  destruct (Z.eq_dec d 1) as [E1|N1].
  - rewrite E1 in *. lia.
  - destruct (Z.eq_dec vt 1) as [E2|N2].
    + rewrite E2 in *. lia.
    + destruct (Z.eq_dec d 2) as [E3|N3]; destruct (Z.eq_dec vt 2) as [E4|N4].
      * rewrite E3, E4 in *. lia.
      * assert (2 <= (d - 1) * (vt - 1)) by nia. nia.
      * assert (2 <= (d - 1) * (vt - 1)) by nia. nia.
      * assert (2 <= (d - 1) * (vt - 1)) by nia. nia.
Qed.

Lemma nthw_last (l : list Z) : l <> [] -> nthw l (length l - 1) = last l 0.
Proof.
  induction l as [|a l IH]; [congruence|]. intros _. destruct l as [|b l].
  - reflexivity.
  - change (last (a :: b :: l) 0) with (last (b :: l) 0). rewrite <- IH by congruence.
    cbn [length]. unfold nthw. replace (S (S (length l)) - 1)%nat with (S (S (length l) - 1)) by lia.
    reflexivity.
Qed.

(* normalised non-empty list: the top word is at least 1 *)
Lemma norm_top_pos l : words_ok l = true -> norm l = l -> l <> [] -> 1 <= nthw l (length l - 1) < B.
Proof.
  intros Ol Nl Hne. rewrite nthw_last by assumption.
  assert (Hn : last l 0 <> 0) by (rewrite <- Nl; apply norm_last_nz; now rewrite Nl).
  rewrite <- nthw_last in * by assumption.
  pose proof (nthw_bounds l (length l - 1) Ol). destruct l; [congruence|]. cbn [length] in *.
  specialize (H ltac:(lia)). lia.
Qed.

(* C06_divLarge_norm: the scaled divisor fits n words, is d times the divisor
   and its top word is at least B/2 *)
Lemma divLarge_norm_spec vIn : words_ok vIn = true -> norm vIn = vIn -> vIn <> [] ->
  let n := length vIn in
  let d := B / (nthw vIn (n - 1) + 1) in
  let v := fst (mulAdd10VWW_v vIn d 0) in
  1 <= d < B /\ length v = n /\ words_ok v = true /\ val v = val vIn * d /\
  snd (mulAdd10VWW_v vIn d 0) = 0 /\ B <= 2 * nthw v (n - 1).
Proof.
  intros Ov Nv Hne n d v.
  pose proof (norm_top_pos vIn Ov Nv Hne) as Hvt. fold n in Hvt.
  destruct (norm_factor _ Hvt) as (Hd & Hmul & Hhalf). fold d in Hd, Hmul, Hhalf.
  assert (Hn : (1 <= n)%nat) by (unfold n; destruct vIn; [congruence | cbn [length]; lia]).
  set (vt := nthw vIn (n - 1)) in *.
  destruct (mulAdd10VWW_v vIn d 0) as [w c] eqn:Em.
  destruct (mulAdd10VWW_v_spec vIn d 0 w c Ov ltac:(lia) ltac:(pose proof B_pos; lia) Em) as (Lw & Ow & Bc & Vw).
  fold n in Lw, Vw. subst v. cbn [fst snd].
  (* vIn < (vt+1)·B^(n-1) *)
  assert (Hup : val vIn < (vt + 1) * Bp (n - 1)).
  { rewrite (val_split (n - 1) vIn) by (fold n; lia).
    rewrite (skipn_cons_nth vIn (n - 1)) by (fold n; lia). rewrite skipn_all2 by (fold n; lia).
    cbn [val]. fold vt.
    pose proof (val_bounds' _ (words_ok_firstn (n - 1) vIn Ov)) as Hb.
    rewrite firstn_length, Nat.min_l in Hb by (fold n; lia). lia. }
  pose proof (val_top_lower vIn n eq_refl Hn Ov) as Hlo. fold vt in Hlo.
  pose proof (Bp_pos (n - 1)) as Hp.
  assert (HBn : Bp n = B * Bp (n - 1)) by (rewrite <- Bp_S; f_equal; f_equal; lia).
  pose proof (val_nonneg w Ow) as Hw0.
  assert (Hfit : val vIn * d < Bp n) by (rewrite HBn; nia).
  assert (c = 0) by (pose proof (Bp_pos n); nia). subst c.
  repeat split; try assumption; try lia.
  (* the top word *)
  pose proof (nthw_bounds w (n - 1) Ow ltac:(lia)) as Bt.
  assert (Vsplit : val w = val (firstn (n - 1) w) + Bp (n - 1) * nthw w (n - 1)).
  { rewrite (val_split (n - 1) w) at 1 by lia.
    rewrite (skipn_cons_nth w (n - 1)) by lia. rewrite skipn_all2 by lia. cbn [val]. lia. }
  pose proof (val_bounds' _ (words_ok_firstn (n - 1) w Ow)) as Hb.
  rewrite firstn_length, Nat.min_l in Hb by lia.
  assert (vt * d * Bp (n - 1) <= val w) by nia.
  assert (vt * d <= nthw w (n - 1)) by nia.
  lia.
Qed.

(* divW without the normalisation assumption (the caller normalises) *)
Lemma nat_divW_val x y : words_ok x = true -> 0 < y < B ->
  exists q r, nat_divW x y = Some (q, r) /\ words_ok q = true /\ val q = val x / y /\ r = val x mod y.
Proof.
  intros Hx Hy. unfold nat_divW.
  destruct (Z.eqb_spec y 0); [lia|].
  destruct (Z.eqb_spec y 1) as [->|E1].
  - exists x, 0. rewrite Z.div_1_r, Z.mod_1_r. now repeat split.
  - destruct (Nat.eqb_spec (length x) 0) as [E|E].
    + destruct x; [|discriminate]. exists [], 0. cbn [val]. rewrite Z.div_0_l, Z.mod_0_l by lia. now repeat split.
    + destruct (div10VWW_v x y 0) as [q r] eqn:Ed.
      destruct (div10VWW_v_spec x y 0 q r Hx ltac:(lia) ltac:(lia) Ed) as (L & O & R & V).
      rewrite Z.mul_0_l, Z.add_0_l in V.
      destruct (divmod_unique (val x) y (val q) r) as [Eq Er]; [lia | lia |].
      exists (norm q), r. rewrite val_norm. repeat split; try lia. now apply words_ok_norm.
Qed.

Lemma firstn_all' {A} (l : list A) k : (length l <= k)%nat -> firstn k l = l.
Proof. apply firstn_all2. Qed.

(* divLarge with a divisor below divRecursiveThreshold (Algorithm D) *)
Theorem divLarge_basic_spec thrD thrK junk uIn vIn :
  words_ok uIn = true -> words_ok vIn = true -> norm vIn = vIn ->
  (2 <= length vIn)%nat -> (length vIn <= length uIn)%nat -> Z.of_nat (length vIn) < thrD ->
  divLarge thrD thrK junk uIn vIn = Some (dec_quo uIn vIn, dec_rem uIn vIn).
Proof.
  intros Ou Ov Nv Hn Hmn Hthr. unfold divLarge.
  set (n := length vIn) in *. set (m := length uIn) in *.
  assert (Hne : vIn <> []) by (intros ->; cbn in Hn; lia).
  destruct (divLarge_norm_spec vIn Ov Nv Hne) as (Hd & Lv & Ovn & Vv & Hc & Hnorm). fold n in Hd, Lv, Ovn, Vv, Hc, Hnorm.
  set (d := B / (nthw vIn (n - 1) + 1)) in *.
  set (v := fst (mulAdd10VWW_v vIn d 0)) in *.
  destruct (mulAdd10VWW_v uIn d 0) as [w c] eqn:Eu.
  destruct (mulAdd10VWW_v_spec uIn d 0 w c Ou ltac:(lia) ltac:(lia) Eu) as (Lw & Ow & Bc & Vw).
  fold m in Lw, Vw.
  set (u := w ++ [c]).
  assert (Lu : length u = S m) by (unfold u; len).
  assert (Ouu : words_ok u = true).
  { unfold u. apply words_ok_app. split; [assumption|]. apply words_ok_cons. split; [assumption | reflexivity]. }
  assert (Vu : val u = val uIn * d) by (unfold u; rewrite val_app', val_single, Lw; lia).
  destruct (Z.ltb_spec (Z.of_nat n) thrD); [|lia].
  set (q := mk junk (m - n + 1)).
  assert (Lq : length q = (m - n + 1)%nat) by (unfold q, mk; apply repeat_length).
  pose proof (norm_nonempty_bounds vIn Ov Nv Hne) as HvLo. fold n in HvLo.
  pose proof (val_bounds' uIn Ou) as BuIn. fold m in BuIn.
  pose proof (Bp_pos (n - 1)) as Hp1.
  assert (HVpos : 0 < val vIn) by lia.
  (* the top n words of u are below v *)
  assert (Htop : val (skipn (length u - length v) u) < val v).
  { rewrite Lu, Lv. rewrite val_skipn by assumption. rewrite Vu, Vv.
    apply Z.div_lt_upper_bound; [apply Bp_pos|].
    assert (Bp m = Bp (S m - n) * Bp (n - 1)) by (rewrite <- Bp_add; f_equal; f_equal; lia).
    pose proof (Bp_pos (S m - n)).
    assert (val uIn * d < Bp m * d) by nia.
    assert (Bp (n - 1) * d <= val vIn * d) by nia.
    assert (Bp (S m - n) * (Bp (n - 1) * d) <= Bp (S m - n) * (val vIn * d))
      by (apply Z.mul_le_mono_nonneg_l; lia).
    replace (Bp m * d) with (Bp (S m - n) * (Bp (n - 1) * d)) in * by (rewrite H0; ring).
    lia. }
  destruct (divBasic_spec q u v) as (q' & u' & E & Lq' & Lu' & Ou' & Oq' & _ & Acc & Bu').
  { lia. } { lia. } { assumption. } { assumption. } { rewrite Lv. assumption. } { lia. }
  { intros _. assumption. }
  rewrite E. rewrite Lu, Lv in Oq', Acc.
  replace (Nat.min (S (S m - n)) (length q)) with (length q) in Oq', Acc by lia.
  rewrite <- Lq' in Oq', Acc. rewrite firstn_all in Oq', Acc.
  destruct (nat_divW_val u' d Ou' ltac:(lia)) as (r & r2 & Er & Or & Vr & _). rewrite Er.
  (* u0·d = q·(v0·d) + u'  ==>  u' = d·(u0 - q·v0) *)
  rewrite Vu, Vv in Acc. rewrite Vv in Bu'.
  set (R := val uIn - val q' * val vIn).
  assert (Eu' : val u' = d * R) by (unfold R; lia).
  assert (BR : 0 <= R < val vIn) by nia.
  destruct (divmod_unique (val uIn) (val vIn) (val q') R) as [Eq Em]; [lia | unfold R; lia |].
  assert (Vr' : val r = R).
  { rewrite Vr, Eu'. rewrite Z.mul_comm. apply Z.div_mul. lia. }
  unfold dec_quo, dec_rem. rewrite Eq, Em. f_equal. f_equal; now apply norm_eq_of_Z.
Qed.

(* ---- dec.div -------------------------------------------------------------- *)

Theorem div_basic_spec thrD thrK junk u v :
  words_ok u = true -> words_ok v = true -> norm u = u -> norm v = v ->
  Z.of_nat (length v) < thrD ->
  div thrD thrK junk u v =
    if (length v =? 0)%nat then None else Some (dec_quo u v, dec_rem u v).
Proof.
  intros Ou Ov Nu Nv Hthr. unfold div.
  destruct (Nat.eqb_spec (length v) 0) as [E0|E0]; [reflexivity|].
  assert (Hne : v <> []) by (intros ->; cbn in E0; lia).
  pose proof (norm_nonempty_bounds v Ov Nv Hne) as HvLo. pose proof (Bp_pos (length v - 1)).
  pose proof (val_nonneg u Ou) as Hu0.
  rewrite (nat_cmp_spec u v Ou Ov Nu Nv). unfold zsgn, dec_quo, dec_rem.
  destruct (Z.ltb_spec (val u) (val v)) as [Hlt|Hge].
  - cbn [Z.ltb]. change (-1 <? 0) with true. cbv iota.
    rewrite Z.div_small, Z.mod_small by lia. rewrite of_Z_val, Nu by assumption. reflexivity.
  - assert (Hs : (if val v <? val u then 1 else 0) <? 0 = false) by (destruct (val v <? val u); reflexivity).
    rewrite Hs.
    destruct (Nat.eqb_spec (length v) 1) as [E1|E1].
    + destruct v as [|y [|? ?]]; try discriminate. cbn [hd]. rewrite val_single in *.
      apply words_ok_cons in Ov as [Hy _]. change (Bp (length [y] - 1)) with 1 in HvLo.
      rewrite (nat_divW_spec u y Ou Nu Hy). destruct (Z.eqb_spec y 0); [lia|].
      rewrite setWord_of_Z; [reflexivity|]. pose proof (Z.mod_pos_bound (val u) y ltac:(lia)). lia.
    + assert (Hlen : (length v <= length u)%nat).
      { destruct (Nat.le_gt_cases (length v) (length u)); [assumption|].
        pose proof (shorter_smaller u v Ou Ov Nv ltac:(lia)). lia. }
      apply divLarge_basic_spec; try assumption; lia.
Qed.

(* the accounting invariant alone (what the unwrapped add-back of the
   unrepaired code broke): dividend = quotient digits · divisor + remainder *)
Corollary divBasic_accounting q u v :
  let n := length v in
  let m := (length u - n)%nat in
  let Lq := Nat.min (S m) (length q) in
  (2 <= n)%nat -> (n <= length u)%nat -> words_ok u = true -> words_ok v = true ->
  B <= 2 * nthw v (n - 1) -> (m <= length q)%nat -> (length q = m -> val (skipn m u) < val v) ->
  exists q' u', divBasic q u v = Some (q', u') /\
    val u = val (firstn Lq q') * val v + val u'.
Proof.
  intros n m Lq Hn Hlu Ou Ov Hnorm Hlq Hq0.
  destruct (divBasic_spec q u v Hn Hlu Ou Ov Hnorm Hlq Hq0) as (q' & u' & E & _ & _ & _ & _ & _ & Acc & _).
  exists q', u'. split; assumption.
Qed.
