(* L2/Div.v — algorithmic models of dec.div, divLarge, divBasic (Knuth's
   Algorithm D), divRecursive and divRecursiveStep (Burnikel-Ziegler).
   The quotient buffer q and the dividend/remainder buffer u are threaded
   functionally.  `None` stands for a Go panic: "division by zero",
   "impossible", a hardware divide overflow inside div10WW, or an index/slice
   bound.  Definitions only (proofs: DivProofs.v). *)
From Dec Require Export L2.Mul.
Open Scope Z_scope.

(* D3: while q̂·v[n-2] > B·r̂ + u[j+n-2] { q̂--; r̂ += v[n-1]; stop if r̂ overflowed }.
   r̂ is a machine word: the Go test `rhat < prevRhat` detects the wrap at 2^64
   (not at B; for B <= r̂ < 2^64 the comparison fails and the loop ends as well).
   With v[n-1] >= B/2 two decrements are the most that can happen; `None`
   means the model ran out of fuel (never for a normalised divisor). *)
Fixpoint qhat_loop (fuel : nat) (qhat rhat vn1 vn2 ujn2 : Z) : option Z :=
  let (x1, x2) := mul10WW_v qhat vn2 in
  if greaterThan x1 x2 rhat ujn2 then
    match fuel with
    | O => None
    | S f =>
        let rhat' := (rhat + vn1) mod W64 in
        if rhat' <? rhat then Some (qhat - 1)
        else qhat_loop f (qhat - 1) rhat' vn1 vn2 ujn2
    end
  else Some qhat.

(* the estimate q̂ (D3) from the two leading words of v and the three leading
   words u[j+n], u[j+n-1], u[j+n-2] of the current dividend window *)
Definition qhat_calc (vn1 vn2 ujn ujn1 ujn2 : Z) : option Z :=
  if ujn =? vn1 then Some (B - 1)
  else if vn1 <? ujn then None            (* div10WW: quotient overflow / zero divisor *)
  else
    let (qh, rh) := div10WW_v ujn ujn1 vn1 in
    qhat_loop 2 qh rh vn1 vn2 ujn2.

Definition divBasic_qhat (u v : list Z) (j : nat) : option Z :=
  let n := length v in
  let ujn := if (j + n <? length u)%nat then nthw u (j + n) else 0 in
  qhat_calc (nthw v (n - 1)) (nthw v (n - 2)) ujn (nthw u (j + n - 1)) (nthw u (j + n - 2)).

(* D4-D6 on the window w = u[j:j+qhl]: subtract q̂·v; on borrow add v back to
   w[0:n] and let the carry into w[n] wrap at B (w[n] is a decimal word); returns
   the new window and the final quotient digit *)
Definition divBasic_window (w v qhatv : list Z) (qhat : Z) : list Z * Z :=
  let n := length v in
  let qhl := length w in
  let (w, c) := sub10VV_v w (firstn qhl qhatv) 0 in
  if c =? 0 then (w, qhat)
  else
    let (w2, c2) := add10VV_v (firstn n w) v 0 in
    let w := w2 ++ skipn n w in
    let w := if (n <? qhl)%nat
             then let t := nthw w n + c2 in
                  firstn n w ++ [if B <=? t then t - B else t]
             else w in
    (w, qhat - 1).

(* one iteration of the loop `for j := m; j >= 0; j--` (D3-D6) *)
Definition divBasic_step (q u v : list Z) (j : nat) : option (list Z * list Z) :=
  let n := length v in
  let m := (length u - n)%nat in
  match divBasic_qhat u v j with
  | None => None
  | Some qhat =>
      (* D4: qhatv = q̂·v, n+1 words *)
      let (qv, cq) := mulAdd10VWW_v v qhat 0 in
      let qhatv := qv ++ [cq] in
      let qhl := if (length u <? j + n + 1)%nat && (cq =? 0) then n else S n in
      if (length u <? j + qhl)%nat then None         (* u[j:j+qhl] out of range *)
      else
        let (w, qhat) := divBasic_window (win u j qhl) v qhatv qhat in
        let u := splice u j w in
        if (j =? m)%nat && (m =? length q)%nat && (qhat =? 0) then Some (q, u)
        else if (length q <=? j)%nat then None       (* q[j] out of range *)
        else Some (splice q j [qhat], u)
  end.

Fixpoint divBasic_loop (k : nat) (q u v : list Z) : option (list Z * list Z) :=
  match k with
  | O => Some (q, u)
  | S j =>
      match divBasic_step q u v j with
      | None => None
      | Some (q', u') => divBasic_loop j q' u' v
      end
  end.

(* q.divBasic(u, v): returns the new contents of q and u (the remainder) *)
Definition divBasic (q u v : list Z) : option (list Z * list Z) :=
  let n := length v in
  if (n =? 0)%nat then None                           (* v[n-1] out of range *)
  else if (length u <? n)%nat then Some (q, u)        (* m < 0: the loop body never runs *)
  else if (n <? 2)%nat then None                      (* v[n-2] out of range *)
  else divBasic_loop (S (length u - n)) q u v.

(* ---- divRecursive ------------------------------------------------------ *)

(* the correction `if qhatv > u { qhat--; qhatv -= v[:s]; u[s:] += v[s:] }` *)
Definition rec_adjust (qhat qhatv uu v : list Z) (s : nat) : list Z * list Z * list Z :=
  let qhat := fst (sub10VW_v qhat 1) in
  let L := length qhatv in
  let qhatv :=
    if (s <? L)%nat then
      let (w, c) := sub10VV_v (firstn s qhatv) (firstn s v) 0 in
      w ++ fst (sub10VW_v (skipn s qhatv) c)
    else
      (* qhatv[:s] reaches beyond len(qhatv); only the low L words are kept *)
      fst (sub10VV_v qhatv (firstn L v) 0) in
  let uu := firstn s uu ++ decAddAt (skipn s uu) (skipn s v) 0 in
  (qhat, qhatv, uu).

(* uu[:len qhatv] -= qhatv with the borrow propagated; returns the borrow out *)
Definition rec_subtract (uu qhatv : list Z) : list Z * Z :=
  let L := length qhatv in
  let (w, c) := sub10VV_v (firstn L uu) qhatv 0 in
  if 0 <? c then
    let (w2, c2) := sub10VW_v (skipn L uu) c in (w ++ w2, c2)
  else (w ++ skipn L uu, 0).

Definition rstate : Type := (list Z * list Z * list bool)%type.   (* z, u, temps *)

(* the loop `for j > B` of divRecursiveStep; `rec` is the recursive call at
   depth+1, un the normalised u, v the normalised divisor, Bk = n/2 *)
Fixpoint rec_blocks (rec : list bool -> list Z -> list Z -> list Z -> option rstate)
    (thrK junk : Z) (qlen Bk n : nat) (v : list Z)
    (fuel : nat) (j : nat) (z un : list Z) (temps : list bool) : option rstate :=
  if (Bk <? j)%nat then
    match fuel with
    | O => None
    | S f =>
        let s := (Bk - 1)%nat in
        let uu := skipn (j - Bk) un in
        match rec temps (repeat 0 qlen) (win uu s (Bk + n - s)) (skipn s v) with
        | None => None
        | Some (qhat, w, temps) =>
            let uu := splice uu s w in
            let qhat := norm qhat in
            let qhatv := mul thrK junk qhat (firstn s v) in
            (* for i := 0; i < 2; i++ { if qhatv <= uu break; adjust } *)
            let '(qhat, qhatv, uu) :=
              if nat_cmp qhatv (norm uu) <=? 0 then (qhat, qhatv, uu)
              else
                let '(qhat, qhatv, uu) := rec_adjust qhat qhatv uu v s in
                if nat_cmp qhatv (norm uu) <=? 0 then (qhat, qhatv, uu)
                else rec_adjust qhat qhatv uu v s in
            if 0 <? nat_cmp qhatv (norm uu) then None          (* panic("impossible") *)
            else
              let (uu, _) := rec_subtract uu qhatv in
              let z := decAddAt z qhat (j - Bk) in
              rec_blocks rec thrK junk qlen Bk n v f (j - Bk) z (firstn (j - Bk) un ++ uu) temps
        end
    end
  else Some (z, un, temps).

Definition set_nth {A} (l : list A) (i : nat) (a : A) : list A :=
  firstn i l ++ a :: skipn (S i) l.

(* z.divRecursiveStep(u, v, depth, tmp, temps).  thrD = divRecursiveThreshold,
   thrK = decKaratsubaThreshold (for the inner mul).  temps records which of the
   per-depth scratch buffers exist already (it decides the length of q̂'s buffer). *)
Fixpoint divRecStep (fuel : nat) (thrD thrK junk : Z) (depth : nat)
    (temps : list bool) (z u v : list Z) {struct fuel} : option rstate :=
  match fuel with
  | O => None
  | S f =>
      let un := norm u in
      let vn := norm v in
      let rest := skipn (length un) u in
      if (length un =? 0)%nat then Some (clear z, u, temps)
      else
        let n := length vn in
        if Z.of_nat n <? thrD then
          match divBasic z un vn with
          | None => None
          | Some (z', u') => Some (z', u' ++ rest, temps)
          end
        else if (length un <? n)%nat then Some (z, u, temps)
        else
          let m := (length un - n)%nat in
          let Bk := (n / 2)%nat in
          if (length temps <=? depth)%nat then None          (* temps[depth] out of range *)
          else
            let qlen := if nth depth temps false then S Bk else n in
            let temps := set_nth temps depth true in
            match rec_blocks (divRecStep f thrD thrK junk (S depth)) thrK junk qlen Bk n vn
                    (length un) m z un temps with
            | None => None
            | Some (z, un, temps) =>
                let s := (Bk - 1)%nat in
                match divRecStep f thrD thrK junk (S depth) temps (repeat 0 qlen)
                        (skipn s un) (skipn s vn) with
                | None => None
                | Some (qhat, w, temps) =>
                    let un := firstn s un ++ w in
                    let qhat := norm qhat in
                    let qhatv := mul thrK junk qhat (firstn s vn) in
                    let '(qhat, qhatv, un) :=
                      if 0 <? nat_cmp qhatv (norm un) then rec_adjust qhat qhatv un vn s
                      else (qhat, qhatv, un) in
                    let '(qhat, qhatv, un) :=
                      if 0 <? nat_cmp qhatv (norm un) then rec_adjust qhat qhatv un vn s
                      else (qhat, qhatv, un) in
                    if 0 <? nat_cmp qhatv (norm un) then None       (* panic("impossible") *)
                    else
                      let (un, c) := rec_subtract un qhatv in
                      if 0 <? c then None                           (* panic("impossible") *)
                      else Some (decAddAt z (norm qhat) 0, un ++ rest, temps)
                end
            end
  end.

(* bits.Len(uint(n)) *)
Definition bitlen (n : nat) : nat := Z.to_nat (Z.log2 (Z.of_nat n) + 1).

(* z.divRecursive(u, v) *)
Definition divRecursive (thrD thrK junk : Z) (z u v : list Z) : option (list Z * list Z) :=
  let recDepth := (2 * (if (length v =? 0)%nat then 0 else bitlen (length v)))%nat in
  match divRecStep (S (length v)) thrD thrK junk 0 (repeat false recDepth) (clear z) u v with
  | None => None
  | Some (z, u, _) => Some (z, u)
  end.

(* ---- divLarge, div ----------------------------------------------------- *)

(* z.divLarge(u, uIn, vIn): len vIn >= 2, len uIn >= len vIn *)
Definition divLarge (thrD thrK junk : Z) (uIn vIn : list Z) : option (list Z * list Z) :=
  let n := length vIn in
  let m := length uIn in
  (* D1: normalise by d = B / (v[n-1] + 1) *)
  let d := B / (nthw vIn (n - 1) + 1) in
  let v := fst (mulAdd10VWW_v vIn d 0) in
  let (w, c) := mulAdd10VWW_v uIn d 0 in
  let u := w ++ [c] in
  let q := mk junk (m - n + 1) in
  match (if Z.of_nat n <? thrD then divBasic q u v else divRecursive thrD thrK junk q u v) with
  | None => None
  | Some (q, u) =>
      match nat_divW u d with
      | None => None
      | Some (r, _) => Some (norm q, norm r)
      end
  end.

(* z.div(z2, u, v); None = panic *)
Definition div (thrD thrK junk : Z) (u v : list Z) : option (list Z * list Z) :=
  if (length v =? 0)%nat then None                       (* division by zero *)
  else if nat_cmp u v <? 0 then Some ([], u)
  else if (length v =? 1)%nat then
    match nat_divW u (hd 0 v) with
    | None => None
    | Some (q, r2) => Some (q, setWord r2)
    end
  else divLarge thrD thrK junk u v.
