(* L2/MulProofs.v — decBasicMul, decKaratsuba and dec.mul compute the exact
   product, for every length, every contents of the result buffer and every
   threshold. *)
From Coq Require Import ZArith List Bool Lia.
From Dec Require Import Base.Words Base.WordsProofs L2.KernV L2.KernVProofs L2.Nat L2.NatProofs L2.Mul.
Open Scope Z_scope.

Ltac len :=
  repeat (rewrite app_length || rewrite firstn_length || rewrite skipn_length || rewrite repeat_length);
  cbn [length]; lia.

(* lia with the quantified hypotheses (induction hypotheses, specifications of
   the recursive calls) removed from its view: they make it erratic *)
Ltac flia :=
  repeat match goal with
         | H : ?T |- _ =>
             lazymatch T with
             | forall x : ?A, _ => lazymatch type of A with Prop => fail | _ => clear H end
             end
         end; lia.

Lemma firstn_app_at {A} (l r : list A) k k' : (k = length l + k')%nat -> firstn k (l ++ r) = l ++ firstn k' r.
Proof. intros ->. rewrite firstn_app_r by lia. f_equal. f_equal. lia. Qed.
Lemma skipn_app_at {A} (l r : list A) k k' : (k = length l + k')%nat -> skipn k (l ++ r) = skipn k' r.
Proof. intros ->. rewrite skipn_app_r by lia. f_equal. lia. Qed.

Lemma mod_from_bounds w s M k : 0 <= w < M -> w = s - M * k -> w = s mod M.
Proof. intros Hw E. apply (Z.mod_unique_pos s M k w); lia. Qed.

(* ---- decBasicMul -------------------------------------------------------- *)

Lemma basicMul_rows_spec x : words_ok x = true -> forall y A T,
  length A = length x -> words_ok A = true -> words_ok y = true ->
  exists R, basicMul_rows (A ++ repeat 0 (length y) ++ T) x y = R ++ T /\
            length R = (length x + length y)%nat /\ words_ok R = true /\
            val R = val A + val x * val y.
Proof.
  intros Hx. induction y as [|d y IH]; intros A T LA OA Hy.
  - exists A. cbn [basicMul_rows length repeat app val]. repeat split; try assumption; lia.
  - apply words_ok_cons in Hy as [Hd Hy]. cbn [basicMul_rows].
    set (z := A ++ repeat 0 (length (d :: y)) ++ T).
    (* the row: A1 = the lx+1 words z[i:i+lx+1] after the row *)
    assert (exists A1, (if d =? 0 then z
                        else let (w, c) := addMul10VVW_v (firstn (length x) z) x d in
                             w ++ c :: skipn (S (length x)) z) = A1 ++ repeat 0 (length y) ++ T /\
                       length A1 = S (length x) /\ words_ok A1 = true /\
                       val A1 = val A + val x * d) as (A1 & E1 & L1 & O1 & V1).
    { destruct (Z.eqb_spec d 0) as [->|Ed].
      - exists (A ++ [0]). subst z. cbn [length repeat]. rewrite <- app_assoc. cbn [app].
        repeat split.
        + len.
        + apply words_ok_app. split; [assumption|]. apply words_ok_cons. split; [pose proof B_pos; lia | reflexivity].
        + rewrite val_app', val_single. lia.
      - subst z. rewrite firstn_app_exact by lia.
        destruct (addMul10VVW_v A x d) as [w c] eqn:Ea.
        destruct (addMul10VVW_v_spec A x d w c LA OA Hx Hd Ea) as (Lw & Ow & Cc & Vw).
        exists (w ++ [c]). cbn [length repeat].
        rewrite (skipn_app_at A _ (S (length x)) 1) by lia. cbn [skipn].
        rewrite <- app_assoc. cbn [app]. repeat split.
        + len.
        + apply words_ok_app. split; [assumption|]. apply words_ok_cons. split; [assumption | reflexivity].
        + rewrite val_app', val_single, Lw. lia. }
    rewrite E1. destruct A1 as [|a0 A1']; [discriminate|]. cbn [app].
    apply words_ok_cons in O1 as [Ha0 O1']. cbn [length] in L1.
    destruct (IH A1' T ltac:(lia) O1' Hy) as (R' & ER & LR & OR & VR).
    exists (a0 :: R'). rewrite ER. cbn [app length val] in *. repeat split.
    + lia.
    + apply words_ok_cons. split; assumption.
    + rewrite VR. nia.
Qed.

Lemma basicMul_spec z x y : words_ok x = true -> words_ok y = true ->
  exists R, basicMul z x y = R ++ skipn (length x + length y) z /\
            length R = (length x + length y)%nat /\ words_ok R = true /\ val R = val x * val y.
Proof.
  intros Hx Hy. unfold basicMul. rewrite repeat_app, <- app_assoc.
  destruct (basicMul_rows_spec x Hx y (repeat 0 (length x)) (skipn (length x + length y) z)
              ltac:(now rewrite repeat_length) (words_ok_repeat0 _) Hy) as (R & E & L & O & V).
  exists R. rewrite E. rewrite val_repeat0 in V. repeat split; try assumption; lia.
Qed.

(* ---- decKaratsubaAdd / Sub ---------------------------------------------- *)

Lemma karatsubaAdd_spec zt x n :
  (n + n / 2 <= length zt)%nat -> (n <= length x)%nat ->
  words_ok (firstn (n + n / 2) zt) = true -> words_ok (firstn n x) = true ->
  exists W, karatsubaAdd zt x n = W ++ skipn (n + n / 2) zt /\ length W = (n + n / 2)%nat /\
            words_ok W = true /\
            val W = (val (firstn (n + n / 2) zt) + val (firstn n x)) mod Bp (n + n / 2).
Proof.
  set (h := (n / 2)%nat). intros Lz Lx Oz Ox. unfold karatsubaAdd. fold h.
  assert (Ozn : words_ok (firstn n zt) = true).
  { rewrite <- (firstn_firstn' n (n + h) zt) by lia. now apply words_ok_firstn. }
  assert (Ozh : words_ok (firstn h (skipn n zt)) = true).
  { rewrite firstn_skipn_comm'. now apply words_ok_skipn. }
  assert (Vz : val (firstn (n + h) zt) = val (firstn n zt) + Bp n * val (firstn h (skipn n zt))).
  { rewrite (val_split n (firstn (n + h) zt)) by (rewrite firstn_length; lia).
    rewrite firstn_firstn' by lia. now rewrite firstn_skipn_comm'. }
  destruct (add10VV_v (firstn n zt) (firstn n x) 0) as [w c] eqn:E.
  destruct (add10VV_v_spec (firstn n zt) (firstn n x) 0 w c ltac:(len) Ozn Ox ltac:(lia) E) as (L & O & C & V).
  rewrite firstn_length, Nat.min_l in L, V by lia.
  destruct (Z.eqb_spec c 0) as [->|Ec].
  - exists (w ++ firstn h (skipn n zt)).
    assert (OW : words_ok (w ++ firstn h (skipn n zt)) = true) by (apply words_ok_app; now split).
    assert (LW : length (w ++ firstn h (skipn n zt)) = (n + h)%nat) by len.
    repeat split; try assumption.
    + rewrite <- app_assoc. f_equal. rewrite <- (skipn_skipn' h n zt). now rewrite firstn_skipn.
    + pose proof (val_bounds' _ OW) as Bd. rewrite LW in Bd.
      apply (mod_from_bounds _ _ _ 0); [assumption|]. rewrite val_app', L, Vz. lia.
  - assert (c = 1) by lia. subst c.
    destruct (add10VW_v (firstn h (skipn n zt)) 1) as [hw c2] eqn:E2.
    destruct (add10VW_v_spec _ 1 hw c2 Ozh ltac:(pose proof B_gt1; lia) E2) as (L2 & O2 & C2 & _ & V2).
    rewrite firstn_length, skipn_length, Nat.min_l in L2, V2 by lia. cbn [fst].
    exists (w ++ hw).
    assert (OW : words_ok (w ++ hw) = true) by (apply words_ok_app; now split).
    assert (LW : length (w ++ hw) = (n + h)%nat) by len.
    repeat split; try assumption.
    + now rewrite <- app_assoc.
    + pose proof (val_bounds' _ OW) as Bd. rewrite LW in Bd.
      apply (mod_from_bounds _ _ _ c2); [assumption|]. rewrite val_app', L, Vz, Bp_add.
      set (H := val (firstn h (skipn n zt))) in *. nia.
Qed.

Lemma karatsubaSub_spec zt x n :
  (n + n / 2 <= length zt)%nat -> (n <= length x)%nat ->
  words_ok (firstn (n + n / 2) zt) = true -> words_ok (firstn n x) = true ->
  exists W, karatsubaSub zt x n = W ++ skipn (n + n / 2) zt /\ length W = (n + n / 2)%nat /\
            words_ok W = true /\
            val W = (val (firstn (n + n / 2) zt) - val (firstn n x)) mod Bp (n + n / 2).
Proof.
  set (h := (n / 2)%nat). intros Lz Lx Oz Ox. unfold karatsubaSub. fold h.
  assert (Ozn : words_ok (firstn n zt) = true).
  { rewrite <- (firstn_firstn' n (n + h) zt) by lia. now apply words_ok_firstn. }
  assert (Ozh : words_ok (firstn h (skipn n zt)) = true).
  { rewrite firstn_skipn_comm'. now apply words_ok_skipn. }
  assert (Vz : val (firstn (n + h) zt) = val (firstn n zt) + Bp n * val (firstn h (skipn n zt))).
  { rewrite (val_split n (firstn (n + h) zt)) by (rewrite firstn_length; lia).
    rewrite firstn_firstn' by lia. now rewrite firstn_skipn_comm'. }
  destruct (sub10VV_v (firstn n zt) (firstn n x) 0) as [w c] eqn:E.
  destruct (sub10VV_v_spec (firstn n zt) (firstn n x) 0 w c ltac:(len) Ozn Ox ltac:(lia) E) as (L & O & C & V).
  rewrite firstn_length, Nat.min_l in L, V by lia.
  destruct (Z.eqb_spec c 0) as [->|Ec].
  - exists (w ++ firstn h (skipn n zt)).
    assert (OW : words_ok (w ++ firstn h (skipn n zt)) = true) by (apply words_ok_app; now split).
    assert (LW : length (w ++ firstn h (skipn n zt)) = (n + h)%nat) by len.
    repeat split; try assumption.
    + rewrite <- app_assoc. f_equal. rewrite <- (skipn_skipn' h n zt). now rewrite firstn_skipn.
    + pose proof (val_bounds' _ OW) as Bd. rewrite LW in Bd.
      apply (mod_from_bounds _ _ _ 0); [assumption|]. rewrite val_app', L, Vz. lia.
  - assert (c = 1) by lia. subst c.
    destruct (sub10VW_v (firstn h (skipn n zt)) 1) as [hw c2] eqn:E2.
    destruct (sub10VW_v_spec _ 1 hw c2 Ozh ltac:(pose proof B_gt1; lia) E2) as (L2 & O2 & C2 & _ & V2).
    rewrite firstn_length, skipn_length, Nat.min_l in L2, V2 by lia. cbn [fst].
    exists (w ++ hw).
    assert (OW : words_ok (w ++ hw) = true) by (apply words_ok_app; now split).
    assert (LW : length (w ++ hw) = (n + h)%nat) by len.
    repeat split; try assumption.
    + now rewrite <- app_assoc.
    + pose proof (val_bounds' _ OW) as Bd. rewrite LW in Bd.
      apply (mod_from_bounds _ _ _ (- c2)); [assumption|]. rewrite val_app', L, Vz, Bp_add.
      set (H := val (firstn h (skipn n zt))) in *. nia.
Qed.

(* ---- the recombination step of Karatsuba -------------------------------- *)

(* z = [ z0 | z2 | xd:yd | p | scratch ]: the dropped carries of
   decKaratsubaAdd/Sub are harmless because the exact result fits 2n words *)
Lemma karatsubaCombine_spec n2 R0 R2 M P T (add : bool) :
  let n := (2 * n2)%nat in
  length R0 = n -> length R2 = n -> length M = n -> length P = n -> (2 * n <= length T)%nat ->
  words_ok R0 = true -> words_ok R2 = true -> words_ok P = true ->
  let total := val R0 + Bp n * val R2 + Bp n2 * (val R0 + val R2 + (if add then 1 else -1) * val P) in
  0 <= total < Bp (2 * n) ->
  exists R S, karatsubaCombine (R0 ++ R2 ++ M ++ P ++ T) n add = R ++ S /\
    length R = (2 * n)%nat /\ length S = (2 * n + length T)%nat /\ words_ok R = true /\ val R = total.
Proof.
  intros n L0 L2 LM LP LT O0 O2 OP total Htot.
  unfold karatsubaCombine.
  assert (Hh : (n / 2 = n2)%nat) by (unfold n; rewrite Nat.mul_comm; apply Nat.div_mul; lia).
  rewrite Hh.
  set (z := R0 ++ R2 ++ M ++ P ++ T).
  assert (F2 : firstn (2 * n) z = R0 ++ R2).
  { unfold z. rewrite (firstn_app_at R0 _ (2 * n) n) by lia. now rewrite firstn_app_exact by lia. }
  rewrite F2.
  set (T' := skipn (2 * n) T).
  assert (LT' : length T' = (length T - 2 * n)%nat) by (unfold T'; len).
  assert (E6 : splice z (4 * n) (R0 ++ R2) = R0 ++ R2 ++ M ++ P ++ (R0 ++ R2) ++ T').
  { unfold splice, z.
    rewrite (firstn_app_at R0 _ (4 * n) (3 * n)) by lia.
    rewrite (firstn_app_at R2 _ (3 * n) (2 * n)) by lia.
    rewrite (firstn_app_at M _ (2 * n) n) by lia.
    rewrite (firstn_app_exact P T n) by lia.
    rewrite (skipn_app_at R0 _ (4 * n + length (R0 ++ R2)) (5 * n)) by len.
    rewrite (skipn_app_at R2 _ (5 * n) (4 * n)) by lia.
    rewrite (skipn_app_at M _ (4 * n) (3 * n)) by lia.
    rewrite (skipn_app_at P _ (3 * n) (2 * n)) by lia.
    fold T'. now rewrite <- !app_assoc. }
  rewrite E6. clear E6 F2. clear z.
  set (rr := (R0 ++ R2) ++ T').
  (* r, p *)
  assert (Er : skipn (4 * n) (R0 ++ R2 ++ M ++ P ++ rr) = rr).
  { rewrite (skipn_app_at R0 _ (4 * n) (3 * n)) by lia.
    rewrite (skipn_app_at R2 _ (3 * n) (2 * n)) by lia.
    rewrite (skipn_app_at M _ (2 * n) n) by lia.
    now rewrite (skipn_app_exact P rr n) by lia. }
  assert (Ep : skipn (3 * n) (R0 ++ R2 ++ M ++ P ++ rr) = P ++ rr).
  { rewrite (skipn_app_at R0 _ (3 * n) (2 * n)) by lia.
    rewrite (skipn_app_at R2 _ (2 * n) n) by lia.
    now rewrite (skipn_app_exact M _ n) by lia. }
  rewrite Er, Ep.
  set (R0a := firstn n2 R0). set (R0b := skipn n2 R0).
  assert (La : length R0a = n2) by (unfold R0a; len).
  assert (Lb : length R0b = n2) by (unfold R0b; len).
  assert (Oa : words_ok R0a = true) by (now apply words_ok_firstn).
  assert (Ob : words_ok R0b = true) by (now apply words_ok_skipn).
  assert (V0 : val R0 = val R0a + Bp n2 * val R0b) by (apply val_split; lia).
  rewrite (firstn_app_l n2 R0) by lia. rewrite (skipn_app_l n2 R0) by lia. fold R0a R0b.
  set (tail := M ++ P ++ rr).
  assert (Ltail : length tail = (2 * n + length T)%nat) by (unfold tail, rr; len).
  (* first addition: + z0 *)
  assert (Fr : firstn n rr = R0) by (unfold rr; rewrite <- app_assoc; now apply firstn_app_exact).
  assert (Sr : firstn n (skipn n rr) = R2).
  { unfold rr. rewrite <- app_assoc. rewrite (skipn_app_exact R0 _ n) by lia. now apply firstn_app_exact. }
  assert (Fp : firstn n (P ++ rr) = P) by (now apply firstn_app_exact).
  assert (Lrr : (2 * n <= length rr)%nat) by (unfold rr; len).
  assert (Fz0 : firstn (n + n2) (R0b ++ R2 ++ tail) = R0b ++ R2).
  { rewrite (firstn_app_at R0b _ (n + n2) n) by lia. now rewrite firstn_app_exact by lia. }
  assert (Sz0 : skipn (n + n2) (R0b ++ R2 ++ tail) = tail).
  { rewrite (skipn_app_at R0b _ (n + n2) n) by lia. now rewrite skipn_app_exact by lia. }
  destruct (karatsubaAdd_spec (R0b ++ R2 ++ tail) rr n) as (W1 & E1 & LW1 & OW1 & VW1).
  { len. } { lia. }
  { rewrite Hh, Fz0. apply words_ok_app. now split. }
  { now rewrite Fr. }
  rewrite Hh in E1, LW1, VW1. rewrite Fz0, Fr in VW1. rewrite Sz0 in E1. rewrite E1. clear E1.
  (* second addition: + z2 *)
  destruct (karatsubaAdd_spec (W1 ++ tail) (skipn n rr) n) as (W2 & E2 & LW2 & OW2 & VW2).
  { len. } { len. }
  { rewrite Hh. now rewrite firstn_app_exact by lia. }
  { now rewrite Sr. }
  rewrite Hh in E2, LW2, VW2. rewrite Sr in VW2.
  rewrite (firstn_app_exact W1 tail) in VW2 by lia. rewrite (skipn_app_exact W1 tail) in E2 by lia.
  rewrite E2. clear E2.
  set (Mo := Bp (n + n2)) in *.
  set (W0 := val R0b + Bp n2 * val R2).
  assert (VW0 : val (R0b ++ R2) = W0) by (unfold W0; now rewrite val_app', Lb).
  pose proof (val_bounds' R0a Oa) as Ba. rewrite La in Ba.
  assert (Hsplit : Bp (2 * n) = Bp n2 * Mo).
  { unfold Mo. rewrite <- Bp_add. f_equal. f_equal. lia. }
  assert (Hnn : Bp n = Bp n2 * Bp n2) by (rewrite <- Bp_add; f_equal; f_equal; lia).
  pose proof (Bp_pos n2) as Hp2. assert (0 < Mo) by apply Bp_pos.
  assert (Hm3 : forall a b c, ((a mod Mo + b) mod Mo + c) mod Mo = (a + b + c) mod Mo).
  { intros. rewrite Zplus_mod_idemp_l. rewrite <- Z.add_assoc, Zplus_mod_idemp_l. now rewrite Z.add_assoc. }
  (* third: +- p *)
  destruct add.
  - destruct (karatsubaAdd_spec (W2 ++ tail) (P ++ rr) n) as (W3 & E3 & LW3 & OW3 & VW3).
    { len. } { len. }
    { rewrite Hh. now rewrite firstn_app_exact by lia. }
    { now rewrite Fp. }
    rewrite Hh in E3, LW3, VW3. rewrite Fp in VW3.
    rewrite (firstn_app_exact W2 tail) in VW3 by lia. rewrite (skipn_app_exact W2 tail) in E3 by lia.
    rewrite E3. exists (R0a ++ W3), tail. rewrite <- app_assoc. repeat split.
    + len.
    + lia.
    + apply words_ok_app. now split.
    + fold Mo in VW3. rewrite val_app', La, VW3, VW2, VW1, VW0. rewrite Hm3.
      set (Tq := W0 + val R0 + val R2 + val P).
      assert (Et : total = val R0a + Bp n2 * Tq) by (unfold total, Tq, W0; nia).
      assert (0 <= Tq < Mo) by nia.
      rewrite Z.mod_small by assumption. lia.
  - destruct (karatsubaSub_spec (W2 ++ tail) (P ++ rr) n) as (W3 & E3 & LW3 & OW3 & VW3).
    { len. } { len. }
    { rewrite Hh. now rewrite firstn_app_exact by lia. }
    { now rewrite Fp. }
    rewrite Hh in E3, LW3, VW3. rewrite Fp in VW3.
    rewrite (firstn_app_exact W2 tail) in VW3 by lia. rewrite (skipn_app_exact W2 tail) in E3 by lia.
    rewrite E3. exists (R0a ++ W3), tail. rewrite <- app_assoc. repeat split.
    + len.
    + lia.
    + apply words_ok_app. now split.
    + fold Mo in VW3. rewrite val_app', La, VW3, VW2, VW1, VW0. rewrite <- Z.add_opp_r, Hm3, Z.add_opp_r.
      set (Tq := W0 + val R0 + val R2 - val P).
      assert (Et : total = val R0a + Bp n2 * Tq) by (unfold total, Tq, W0; nia).
      assert (0 <= Tq < Mo) by nia.
      rewrite Z.mod_small by assumption. lia.
Qed.

(* ---- decKaratsuba -------------------------------------------------------- *)

Lemma absdiff_spec a b d s : length a = length b -> words_ok a = true -> words_ok b = true ->
  absdiff a b = (d, s) ->
  length d = length a /\ words_ok d = true /\
  ((s = false /\ val d = val a - val b) \/ (s = true /\ val d = val b - val a /\ val a < val b)).
Proof.
  intros Hl Ha Hb E. unfold absdiff in E.
  destruct (sub10VV_v a b 0) as [d1 c1] eqn:E1.
  destruct (sub10VV_v_spec a b 0 d1 c1 Hl Ha Hb ltac:(lia) E1) as (L1 & O1 & C1 & _).
  destruct (sub10VV_v_borrow a b d1 c1 Hl Ha Hb E1) as [(-> & Hle & V)|(-> & Hlt & V)]; cbn [Z.eqb] in E.
  - inversion E; subst. repeat split; try assumption. left. now split.
  - destruct (sub10VV_v b a 0) as [d2 c2] eqn:E2. cbn [fst] in E. inversion E; subst.
    destruct (sub10VV_v_spec b a 0 d c2 (eq_sym Hl) Hb Ha ltac:(lia) E2) as (L2 & O2 & C2 & _).
    destruct (sub10VV_v_borrow b a d c2 (eq_sym Hl) Hb Ha E2) as [(-> & Hle & V2)|(-> & Hlt2 & V2)].
    + split; [lia|]. split; [assumption|]. right. repeat split; lia.
    + lia.
Qed.

Lemma even_half n : Nat.odd n = false -> n = (2 * (n / 2))%nat.
Proof.
  intros H. destruct (Nat.Even_or_Odd n) as [[k Hk]|Ho].
  - subst n. rewrite Nat.mul_comm, Nat.div_mul by lia. lia.
  - apply Nat.odd_spec in Ho. congruence.
Qed.

Lemma karatsuba_spec fuel thr : forall z x y,
  length x = length y -> words_ok x = true -> words_ok y = true -> (6 * length y <= length z)%nat ->
  exists R S, karatsuba fuel thr z x y = R ++ S /\ length R = (2 * length y)%nat /\
              (length S + 2 * length y = length z)%nat /\ words_ok R = true /\ val R = val x * val y.
Proof.
  assert (Base : forall z x y, length x = length y -> words_ok x = true -> words_ok y = true ->
            (6 * length y <= length z)%nat ->
            exists R S, basicMul z x y = R ++ S /\ length R = (2 * length y)%nat /\
              (length S + 2 * length y = length z)%nat /\ words_ok R = true /\ val R = val x * val y).
  { intros z x y Hl Hx Hy Hz. destruct (basicMul_spec z x y Hx Hy) as (R & E & L & O & V).
    exists R, (skipn (length x + length y) z). repeat split; try assumption; [lia | len]. }
  induction fuel as [|f IH]; intros z x y Hl Hx Hy Hz; cbn [karatsuba]; [now apply Base|].
  set (n := length y) in *.
  destruct (Nat.odd n || (Z.of_nat n <? thr) || (n <? 2)%nat) eqn:Ecase; [now apply Base|].
  apply orb_false_iff in Ecase as [Ecase Hn2]. apply orb_false_iff in Ecase as [Hodd _].
  apply Nat.ltb_ge in Hn2. apply even_half in Hodd.
  set (n2 := (n / 2)%nat) in *.
  assert (Hny : length y = n) by reflexivity. clearbody n2. clearbody n.
  set (x0 := firstn n2 x). set (x1 := skipn n2 x). set (y0 := firstn n2 y). set (y1 := skipn n2 y).
  assert (Lx0 : length x0 = n2) by (unfold x0; len).
  assert (Lx1 : length x1 = n2) by (unfold x1; len).
  assert (Ly0 : length y0 = n2) by (unfold y0; len).
  assert (Ly1 : length y1 = n2) by (unfold y1; len).
  assert (Ox0 : words_ok x0 = true) by (now apply words_ok_firstn).
  assert (Ox1 : words_ok x1 = true) by (now apply words_ok_skipn).
  assert (Oy0 : words_ok y0 = true) by (now apply words_ok_firstn).
  assert (Oy1 : words_ok y1 = true) by (now apply words_ok_skipn).
  assert (Vx : val x = val x0 + Bp n2 * val x1) by (apply val_split; lia).
  assert (Vy : val y = val y0 + Bp n2 * val y1) by (apply val_split; lia).
  (* z0 *)
  destruct (IH z x0 y0 ltac:(lia) Ox0 Oy0 ltac:(lia)) as (R0 & S0 & E0 & LR0 & LS0 & OR0 & VR0).
  rewrite Ly0 in LR0, LS0. rewrite E0.
  rewrite (firstn_app_exact R0 S0 n) by lia. rewrite (skipn_app_exact R0 S0 n) by lia.
  (* z2 *)
  destruct (IH S0 x1 y1 ltac:(lia) Ox1 Oy1 ltac:(lia)) as (R2 & S2 & E2 & LR2 & LS2 & OR2 & VR2).
  rewrite Ly1 in LR2, LS2. rewrite E2.
  (* xd, yd *)
  destruct (absdiff x1 x0) as [xd sx] eqn:Exd.
  destruct (absdiff_spec x1 x0 xd sx ltac:(lia) Ox1 Ox0 Exd) as (Lxd & Oxd & Vxd).
  destruct (absdiff y0 y1) as [yd sy] eqn:Eyd.
  destruct (absdiff_spec y0 y1 yd sy ltac:(lia) Oy0 Oy1 Eyd) as (Lyd & Oyd & Vyd).
  assert (E3 : splice (R0 ++ R2 ++ S2) (2 * n) xd = R0 ++ R2 ++ xd ++ skipn n2 S2).
  { unfold splice.
    rewrite (firstn_app_at R0 _ (2 * n) n) by lia. rewrite (firstn_app_exact R2 S2 n) by lia.
    rewrite (skipn_app_at R0 _ (2 * n + length xd) (n + n2)) by lia.
    rewrite (skipn_app_at R2 _ (n + n2) n2) by lia. now rewrite <- !app_assoc. }
  rewrite E3. clear E3.
  set (S4 := skipn n2 (skipn n2 S2)).
  assert (LS4 : (length S4 + 3 * n = length z)%nat) by (unfold S4; len).
  assert (E4 : splice (R0 ++ R2 ++ xd ++ skipn n2 S2) (2 * n + n2) yd = R0 ++ R2 ++ xd ++ yd ++ S4).
  { unfold splice.
    rewrite (firstn_app_at R0 _ (2 * n + n2) (n + n2)) by lia.
    rewrite (firstn_app_at R2 _ (n + n2) n2) by lia.
    rewrite (firstn_app_exact xd _ n2) by lia.
    rewrite (skipn_app_at R0 _ (2 * n + n2 + length yd) (n + n2 + n2)) by lia.
    rewrite (skipn_app_at R2 _ (n + n2 + n2) (n2 + n2)) by lia.
    rewrite (skipn_app_at xd _ (n2 + n2) n2) by lia.
    fold S4. now rewrite <- !app_assoc. }
  rewrite E4. clear E4.
  assert (F5 : firstn (3 * n) (R0 ++ R2 ++ xd ++ yd ++ S4) = R0 ++ R2 ++ xd ++ yd).
  { rewrite (firstn_app_at R0 _ (3 * n) (2 * n)) by lia.
    rewrite (firstn_app_at R2 _ (2 * n) n) by lia.
    rewrite (firstn_app_at xd _ n n2) by lia.
    now rewrite (firstn_app_exact yd S4 n2) by lia. }
  assert (S5' : skipn (3 * n) (R0 ++ R2 ++ xd ++ yd ++ S4) = S4).
  { rewrite (skipn_app_at R0 _ (3 * n) (2 * n)) by lia.
    rewrite (skipn_app_at R2 _ (2 * n) n) by lia.
    rewrite (skipn_app_at xd _ n n2) by lia.
    now rewrite (skipn_app_exact yd S4 n2) by lia. }
  rewrite F5, S5'. clear F5 S5'.
  (* p *)
  destruct (IH S4 xd yd ltac:(lia) Oxd Oyd ltac:(lia)) as (P & S5 & E5 & LP & LS5 & OP & VP).
  rewrite Lyd, Ly0 in LP, LS5. rewrite E5.
  replace ((R0 ++ R2 ++ xd ++ yd) ++ P ++ S5) with (R0 ++ R2 ++ (xd ++ yd) ++ P ++ S5)
    by (now rewrite <- !app_assoc).
  assert (Hn' : Bp n = Bp n2 * Bp n2).
  { rewrite <- Bp_add. f_equal. f_equal. rewrite Hodd at 1. lia. }
  assert (H2n : Bp (2 * n) = Bp n * Bp n).
  { rewrite <- Bp_add. f_equal. f_equal. lia. }
  assert (Et : val R0 + Bp n * val R2 +
               Bp n2 * (val R0 + val R2 + (if Bool.eqb sx sy then 1 else -1) * val P)
               = val x * val y).
  { rewrite VR0, VR2, VP, Vx, Vy, Hn'.
    destruct Vxd as [(-> & Vxd)|(-> & Vxd & _)]; destruct Vyd as [(-> & Vyd)|(-> & Vyd & _)];
      cbn [Bool.eqb]; rewrite Vxd, Vyd; ring. }
  assert (LM : length (xd ++ yd) = n) by (rewrite app_length, Lxd, Lyd, Lx1, Ly0; lia).
  assert (LS5' : (2 * n <= length S5)%nat) by lia.
  assert (Hfit : 0 <= val x * val y < Bp (2 * n)).
  { pose proof (val_bounds' x Hx) as Bx. pose proof (val_bounds' y Hy) as By'. rewrite Hl in Bx. rewrite Hny in By'.
    rewrite H2n. split; [apply Z.mul_nonneg_nonneg; lia | apply Z.mul_lt_mono_nonneg; lia]. }
  clear Hl Hny. subst n. clear IH Base.
  destruct (karatsubaCombine_spec n2 R0 R2 (xd ++ yd) P S5 (Bool.eqb sx sy) LR0 LR2 LM LP LS5' OR0 OR2 OP)
    as (R & S & E & LR & LS & OR & VR).
  { cbv zeta. rewrite Et. exact Hfit. }
  cbv zeta in VR. rewrite Et in VR.
  exists R, S. split; [exact E|]. split; [exact LR|]. split; [|split; [exact OR | exact VR]].
  lia.
Qed.

(* ---- dec.mul ------------------------------------------------------------- *)

Lemma mul_lt_bounds a b A C : 0 <= a < A -> 0 <= b < C -> 0 <= a * b < A * C.
Proof. intros. split; [apply Z.mul_nonneg_nonneg; lia | apply Z.mul_lt_mono_nonneg; lia]. Qed.

(* partial sums of the block products stay below the full product *)
Lemma acc_bound1 A b y0 y1 y X M pi pk :
  0 <= A -> 0 <= b -> 0 <= y0 -> 0 <= y1 -> 0 < pi -> 0 < pk ->
  y = y0 + pk * y1 -> A + pi * b <= X -> X * y < M -> A * y + pi * (b * y0) < M.
Proof.
  intros HA Hb H0 H1 Hpi Hpk -> HX HM.
  assert (0 <= pi * b) by nia. assert (0 <= pk * y1) by nia.
  assert (A * (y0 + pk * y1) + pi * (b * y0) <= (A + pi * b) * (y0 + pk * y1)) by nia.
  assert ((A + pi * b) * (y0 + pk * y1) <= X * (y0 + pk * y1)) by (apply Z.mul_le_mono_nonneg_r; lia).
  lia.
Qed.
Lemma acc_bound2 A b y0 y1 y X M pi pk :
  0 <= A -> 0 <= b -> 0 <= y0 -> 0 <= y1 -> 0 < pi -> 0 < pk ->
  y = y0 + pk * y1 -> A + pi * b <= X -> X * y < M ->
  A * y + pi * (b * y0) + pi * pk * (b * y1) < M.
Proof.
  intros HA Hb H0 H1 Hpi Hpk -> HX HM.
  assert (0 <= pi * b) by nia. assert (0 <= pk * y1) by nia.
  assert (A * (y0 + pk * y1) + pi * (b * y0) + pi * pk * (b * y1) = (A + pi * b) * (y0 + pk * y1)) by ring.
  assert ((A + pi * b) * (y0 + pk * y1) <= X * (y0 + pk * y1)) by (apply Z.mul_le_mono_nonneg_r; lia).
  lia.
Qed.

Lemma length_of_Z_le v L : 0 <= v < Bp L -> (length (of_Z v) <= L)%nat.
Proof.
  intros Hv. destruct (of_Z v) as [|w l] eqn:E; [cbn; lia|].
  pose proof (norm_nonempty_bounds (of_Z v) (words_ok_of_Z v) (of_Z_norm v)) as Hb.
  rewrite E in Hb. specialize (Hb ltac:(congruence)). rewrite <- E, val_of_Z in Hb by lia. rewrite E in Hb.
  destruct (Nat.le_gt_cases (length (w :: l)) L) as [|Hgt]; [assumption|].
  pose proof (Bp_le L (length (w :: l) - 1) ltac:(lia)). lia.
Qed.

Lemma val_firstn_le j x : words_ok x = true -> 0 <= val (firstn j x) <= val x.
Proof.
  intros Hx. pose proof (val_firstn_skipn j x) as E.
  pose proof (val_nonneg _ (words_ok_firstn j x Hx)). pose proof (val_nonneg _ (words_ok_skipn j x Hx)).
  pose proof (Bp_pos (length (firstn j x))). nia.
Qed.

Lemma words_ok_mk0 junk n z : words_ok (firstn 0 (mk junk n) ++ z) = words_ok z.
Proof. reflexivity. Qed.

Lemma mul_blocks_spec mulr F k x y0 y1 y (m n : nat) :
  (forall a b, words_ok a = true -> words_ok b = true -> (length a + length b < F)%nat ->
               mulr a b = of_Z (val a * val b)) ->
  length x = m -> (1 <= k <= n)%nat -> (n <= m)%nat -> words_ok x = true ->
  words_ok y0 = true -> words_ok y1 = true -> (length y0 <= k)%nat -> (length y1 + k = n)%nat ->
  val y = val y0 + Bp k * val y1 -> 0 <= val y0 < Bp k -> 0 <= val y < Bp n ->
  (2 * k < F)%nat -> (n < F)%nat ->
  forall fuel z i, (m <= i + fuel)%nat -> length z = (m + n)%nat -> words_ok z = true ->
    val z = val (firstn i x) * val y ->
    let r := mul_blocks mulr k y0 y1 fuel z (skipn i x) i in
    length r = (m + n)%nat /\ words_ok r = true /\ val r = val x * val y.
Proof.
  intros Hmul Lx Hk Hnm Ox Oy0 Oy1 Ly0 Ly1 Vy By0 By HF1 HF2.
  assert (Done : forall z i, (m <= i)%nat -> length z = (m + n)%nat -> words_ok z = true ->
            val z = val (firstn i x) * val y ->
            length z = (m + n)%nat /\ words_ok z = true /\ val z = val x * val y).
  { intros z i Hi Lz Oz Vz. rewrite firstn_all2 in Vz by flia. now repeat split. }
  induction fuel as [|f IH]; intros z i Hf Lz Oz Vz; cbn [mul_blocks].
  - cbv zeta. apply (Done z i); (assumption || flia).
  - cbv zeta. destruct (skipn i x) as [|w xs'] eqn:Exs.
    + apply (Done z i); try assumption. apply (f_equal (@length Z)) in Exs. rewrite skipn_length in Exs. cbn in Exs. flia.
    + assert (Hi : (i < m)%nat).
      { apply (f_equal (@length Z)) in Exs. rewrite skipn_length in Exs. cbn in Exs. flia. }
      rewrite <- Exs. clear Exs w xs'.
      set (xs := skipn i x). set (bi := firstn k xs). set (xi := norm bi).
      assert (Oxs : words_ok xs = true) by (now apply words_ok_skipn).
      assert (Obi : words_ok bi = true) by (now apply words_ok_firstn).
      assert (Oxi : words_ok xi = true) by (now apply words_ok_norm).
      assert (Vxi : val xi = val bi) by apply val_norm.
      assert (Lbi : (length bi <= k /\ i + length bi <= m)%nat) by (unfold bi, xs; len).
      assert (Lxi : (length xi <= length bi)%nat).
      { pose proof (zlen_norm_le bi). unfold zlen in *. unfold xi. flia. }
      pose proof (val_bounds' bi Obi) as Bbi.
      (* firstn (i+k) x = firstn i x ++ bi *)
      assert (Vnext : val (firstn (i + k) x) = val (firstn i x) + Bp i * val bi).
      { rewrite (val_split i (firstn (i + k) x)) by len.
        rewrite firstn_firstn' by flia. unfold bi, xs. now rewrite firstn_skipn_comm'. }
      pose proof (val_firstn_le (i + k) x Ox) as Hle.
      pose proof (val_firstn_le i x Ox) as Hle0.
      pose proof (val_bounds' x Ox) as Bx. rewrite Lx in Bx.
      pose proof (val_nonneg y0 Oy0) as Hy0. pose proof (val_nonneg y1 Oy1) as Hy1.
      pose proof (Bp_pos i) as Hpi. pose proof (Bp_pos k) as Hpk.
      assert (HX : val (firstn i x) + Bp i * val bi <= val x) by (rewrite <- Vnext; exact (proj2 Hle)).
      assert (Hxy : val x * val y < Bp (length z)).
      { rewrite Lz, Bp_add. apply mul_lt_bounds; assumption. }
      pose proof (val_bounds' y1 Oy1) as By1.
      (* t = xi * y0 at i *)
      assert (F1 : (length xi + length y0 < F)%nat) by (clear - Lxi Lbi Ly0 HF1; lia).
      rewrite (Hmul xi y0 Oxi Oy0 F1).
      set (t1 := of_Z (val xi * val y0)).
      assert (Vt1 : val t1 = val bi * val y0).
      { unfold t1. rewrite val_of_Z by (rewrite Vxi; apply Z.mul_nonneg_nonneg; [exact (proj1 Bbi) | exact Hy0]).
        now rewrite Vxi. }
      assert (Lt1 : (length t1 <= length bi + k)%nat).
      { unfold t1. apply length_of_Z_le. rewrite Vxi, Bp_add. apply mul_lt_bounds; assumption. }
      assert (Ot1 : words_ok t1 = true) by apply words_ok_of_Z.
      assert (Hl1 : (i + length t1 <= length z)%nat) by (clear - Lt1 Lbi Lz Hk; lia).
      destruct (decAddAt_spec z t1 i Oz Ot1 Hl1) as (Lz1 & Oz1 & _).
      assert (Vz1 : val (decAddAt z t1 i) = val z + Bp i * val t1).
      { apply (decAddAt_exact z t1 i Oz Ot1 Hl1). rewrite Vz, Vt1.
        exact (acc_bound1 _ _ _ _ _ _ _ _ _ (proj1 Hle0) (proj1 Bbi) Hy0 Hy1 Hpi Hpk Vy HX Hxy). }
      set (z1 := decAddAt z t1 i) in *.
      (* t = xi * y1 at i + k *)
      assert (F2 : (length xi + length y1 < F)%nat) by (clear - Lxi Lbi Ly1 HF2; lia).
      rewrite (Hmul xi y1 Oxi Oy1 F2).
      set (t2 := of_Z (val xi * val y1)).
      assert (Vt2 : val t2 = val bi * val y1).
      { unfold t2. rewrite val_of_Z by (rewrite Vxi; apply Z.mul_nonneg_nonneg; [exact (proj1 Bbi) | exact Hy1]).
        now rewrite Vxi. }
      assert (Lt2 : (length t2 <= length bi + length y1)%nat).
      { unfold t2. apply length_of_Z_le. rewrite Vxi, Bp_add. apply mul_lt_bounds; assumption. }
      assert (Ot2 : words_ok t2 = true) by apply words_ok_of_Z.
      assert (Hl2 : (i + k + length t2 <= length z1)%nat) by (clear - Lt2 Lbi Lz Lz1 Ly1; lia).
      destruct (decAddAt_spec z1 t2 (i + k) Oz1 Ot2 Hl2) as (Lz2 & Oz2 & _).
      assert (Vz2 : val (decAddAt z1 t2 (i + k)) = val z1 + Bp (i + k) * val t2).
      { apply (decAddAt_exact z1 t2 (i + k) Oz1 Ot2 Hl2). rewrite Lz1, Vz1, Vz, Vt1, Vt2, Bp_add.
        exact (acc_bound2 _ _ _ _ _ _ _ _ _ (proj1 Hle0) (proj1 Bbi) Hy0 Hy1 Hpi Hpk Vy HX Hxy). }
      set (z2 := decAddAt z1 t2 (i + k)) in *.
      unfold xs. rewrite skipn_skipn'.
      apply IH.
      * clear - Hf Hk. lia.
      * clear - Lz2 Lz1 Lz. lia.
      * exact Oz2.
      * rewrite Vz2, Vz1, Vz, Vt1, Vt2, Vnext, Vy, Bp_add. ring.
Qed.

Theorem mul_f_spec thr junk : 1 <= thr -> forall fuel x y,
  (length x + length y < fuel)%nat -> words_ok x = true -> words_ok y = true ->
  mul_f fuel thr junk x y = of_Z (val x * val y).
Proof.
  intros Hthr. induction fuel as [|f IH]; intros x y Hf Hx Hy; [flia|].
  (* after the operand swap: m >= n *)
  assert (Core : forall x y, (length y <= length x)%nat -> (length x + length y <= f)%nat ->
            words_ok x = true -> words_ok y = true ->
            (let m := length x in let n := length y in
             if (n =? 0)%nat then []
             else if (n =? 1)%nat then nat_mulAddWW x (hd 0 y) 0
             else if Z.of_nat n <? thr then norm (basicMul (mk junk (m + n)) x y)
             else
               let k := karatsubaLen n thr in
               let x0 := firstn k x in
               let y0 := firstn k y in
               let z := karatsuba k thr (mk junk (Nat.max (6 * k) (m + n))) x0 y0 in
               let z := firstn (2 * k) z ++ repeat 0 (m + n - 2 * k) in
               if (k <? n)%nat || negb (m =? n)%nat then
                 let x0n := norm x0 in
                 let y1 := skipn k y in
                 let z := decAddAt z (mul_f f thr junk x0n y1) k in
                 let y0n := norm y0 in
                 norm (mul_blocks (mul_f f thr junk) k y0n y1 m z (skipn k x) k)
               else norm z) = of_Z (val x * val y)).
  { clear x y Hf Hx Hy. intros x y Hmn Hf Hx Hy. cbv zeta.
    set (m := length x) in *. set (n := length y) in *.
    destruct (Nat.eqb_spec n 0) as [E0|E0].
    { destruct y; [|discriminate]. cbn [val]. now rewrite Z.mul_0_r. }
    destruct (Nat.eqb_spec n 1) as [E1|E1].
    { destruct y as [|y0 [|? ?]]; try discriminate. cbn [hd].
      apply words_ok_cons in Hy as [Hy0 _]. rewrite nat_mulAddWW_spec by (assumption || (pose proof B_pos; flia)).
      rewrite val_single. f_equal. flia. }
    destruct (Z.ltb_spec (Z.of_nat n) thr) as [Hb|Hb].
    { destruct (basicMul_spec (mk junk (m + n)) x y Hx Hy) as (R & E & L & O & V).
      fold m n in E, L. unfold mk in E. rewrite skipn_all2 in E by (rewrite repeat_length; flia).
      rewrite app_nil_r in E. unfold mk. rewrite E. now apply norm_eq_of_Z. }
    pose proof (karatsubaLen_bounds n thr Hthr ltac:(flia)) as Hk.
    set (k := karatsubaLen n thr) in *. clearbody k.
    assert (Lxm : length x = m) by reflexivity. assert (Lyn : length y = n) by reflexivity.
    clearbody m n. clear E0 Hb.
    set (x0 := firstn k x). set (y0 := firstn k y).
    assert (Lx0 : length x0 = k) by (unfold x0; rewrite firstn_length; clear - Hk Hmn Lxm; lia).
    assert (Ly0 : length y0 = k) by (unfold y0; rewrite firstn_length; clear - Hk Lyn; lia).
    assert (Ox0 : words_ok x0 = true) by (now apply words_ok_firstn).
    assert (Oy0 : words_ok y0 = true) by (now apply words_ok_firstn).
    assert (Hz6 : (6 * length y0 <= length (mk junk (Nat.max (6 * k) (m + n))))%nat).
    { unfold mk. rewrite repeat_length, Ly0. clear. lia. }
    destruct (karatsuba_spec k thr (mk junk (Nat.max (6 * k) (m + n))) x0 y0
                (eq_trans Lx0 (eq_sym Ly0)) Ox0 Oy0 Hz6) as (R & S & E & LR & LS & OR & VR).
    rewrite Ly0 in LR, LS. rewrite E. rewrite (firstn_app_exact R S (2 * k) (eq_sym LR)).
    set (z := R ++ repeat 0 (m + n - 2 * k)).
    assert (Lz : length z = (m + n)%nat).
    { unfold z. rewrite app_length, repeat_length, LR. clear - Hk Hmn. lia. }
    assert (Oz : words_ok z = true) by (unfold z; apply words_ok_app; split; [assumption | apply words_ok_repeat0]).
    assert (Vz : val z = val x0 * val y0) by (unfold z; rewrite val_app', val_repeat0, VR; ring).
    clear E Hz6 LS S.
    destruct ((k <? n)%nat || negb (m =? n)%nat) eqn:Ebr.
    - assert (Hbr : (2 * k < m + n)%nat).
      { apply orb_true_iff in Ebr as [Hb1|Hb1].
        - apply Nat.ltb_lt in Hb1. clear - Hb1 Hmn. lia.
        - apply negb_true_iff in Hb1. apply Nat.eqb_neq in Hb1. clear - Hb1 Hmn Hk. lia. }
      clear Ebr.
      set (y1 := skipn k y).
      assert (Oy1 : words_ok y1 = true) by (now apply words_ok_skipn).
      assert (Ly1 : (length y1 + k = n)%nat) by (unfold y1; rewrite skipn_length; clear - Hk Lyn; lia).
      assert (Vy : val y = val y0 + Bp k * val y1) by (apply val_split; clear - Hk Lyn; lia).
      pose proof (val_bounds' y0 Oy0) as By0. rewrite Ly0 in By0.
      pose proof (val_bounds' x0 Ox0) as Bx0. rewrite Lx0 in Bx0.
      pose proof (val_bounds' y1 Oy1) as By1.
      pose proof (val_bounds' y Hy) as By. rewrite Lyn in By.
      pose proof (val_bounds' x Hx) as Bx. rewrite Lxm in Bx.
      assert (Ox0n : words_ok (norm x0) = true) by (now apply words_ok_norm).
      assert (Lx0n : (length (norm x0) <= k)%nat).
      { pose proof (zlen_norm_le x0) as Hz. unfold zlen in Hz. clear - Hz Lx0. lia. }
      assert (F0 : (length (norm x0) + length y1 < f)%nat) by (clear - Lx0n Ly1 Hf Hmn Hk; lia).
      rewrite (IH (norm x0) y1 F0 Ox0n Oy1). rewrite val_norm.
      set (t := of_Z (val x0 * val y1)).
      assert (Vt : val t = val x0 * val y1).
      { unfold t. apply val_of_Z. apply Z.mul_nonneg_nonneg; [exact (proj1 Bx0) | exact (proj1 By1)]. }
      assert (Lt : (length t <= k + length y1)%nat).
      { unfold t. apply length_of_Z_le. rewrite Bp_add. apply mul_lt_bounds; assumption. }
      assert (Ot : words_ok t = true) by apply words_ok_of_Z.
      pose proof (val_firstn_le k x Hx) as Hx0le. fold x0 in Hx0le.
      pose proof (Bp_pos k) as Hpk.
      assert (Hxy : val x * val y < Bp (length z)).
      { rewrite Lz, Bp_add. apply mul_lt_bounds; assumption. }
      assert (Hl1 : (k + length t <= length z)%nat) by (clear - Lt Ly1 Lz Hmn; lia).
      destruct (decAddAt_spec z t k Oz Ot Hl1) as (Lz1 & Oz1 & _).
      assert (Vz1 : val (decAddAt z t k) = val z + Bp k * val t).
      { apply (decAddAt_exact z t k Oz Ot Hl1). rewrite Vz, Vt.
        assert (E1' : val x0 * val y0 + Bp k * (val x0 * val y1) = val x0 * val y) by (rewrite Vy; ring).
        assert (E2' : val x0 * val y <= val x * val y).
        { apply Z.mul_le_mono_nonneg_r; [exact (proj1 By) | exact (proj2 Hx0le)]. }
        rewrite E1'. clear - E2' Hxy. lia. }
      assert (Hmul : forall a b, words_ok a = true -> words_ok b = true -> (length a + length b < f)%nat ->
                       mul_f f thr junk a b = of_Z (val a * val b)).
      { intros a b Ha Hb' Hlen. apply IH; assumption. }
      assert (Ly0n : (length (norm y0) <= k)%nat).
      { pose proof (zlen_norm_le y0) as Hz. unfold zlen in Hz. clear - Hz Ly0. lia. }
      assert (Vy' : val y = val (norm y0) + Bp k * val y1) by (now rewrite val_norm).
      assert (By0' : 0 <= val (norm y0) < Bp k) by (now rewrite val_norm).
      assert (HF1 : (2 * k < f)%nat) by (clear - Hbr Hf; lia).
      assert (HF2 : (n < f)%nat) by (clear - Hf Hmn Hk; lia).
      assert (Hfuel : (m <= k + m)%nat) by (clear; lia).
      assert (Lz1' : length (decAddAt z t k) = (m + n)%nat) by (rewrite Lz1; exact Lz).
      assert (Vstart : val (decAddAt z t k) = val (firstn k x) * val y).
      { rewrite Vz1, Vz, Vt, Vy. fold x0. ring. }
      destruct (mul_blocks_spec (mul_f f thr junk) f k x (norm y0) y1 y m n Hmul Lxm Hk Hmn Hx
                  (words_ok_norm y0 Oy0) Oy1 Ly0n Ly1 Vy' By0' By HF1 HF2 m (decAddAt z t k) k
                  Hfuel Lz1' Oz1 Vstart) as (Lr & Or & Vr).
      now apply norm_eq_of_Z.
    - apply orb_false_iff in Ebr as [Hb1 Hb2]. apply Nat.ltb_ge in Hb1.
      apply negb_false_iff in Hb2. apply Nat.eqb_eq in Hb2.
      apply norm_eq_of_Z; [assumption|]. rewrite Vz. unfold x0, y0.
      rewrite !firstn_all2 by (clear - Hb1 Hb2 Hk Lxm Lyn; lia). reflexivity. }
  cbn [mul_f].
  destruct (Nat.ltb_spec (length x) (length y)).
  - rewrite (Z.mul_comm (val x)). apply Core; (assumption || flia).
  - apply Core; (assumption || flia).
Qed.

Theorem mul_spec thr junk x y : 1 <= thr -> words_ok x = true -> words_ok y = true ->
  mul thr junk x y = dec_mul x y.
Proof. intros. unfold mul, dec_mul. apply mul_f_spec; (assumption || lia). Qed.
