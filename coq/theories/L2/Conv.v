(* L2/Conv.v — algorithmic models of the dec conversions: setUint64, toUint64,
   decToNat, setNat, bytes, setBytes.  Definitions only. *)
From Dec Require Export L2.Nat.
Open Scope Z_scope.

(* z.setUint64(x), 0 <= x < 2^64.  The loop `z[i] = x % _DB; x /= _DB` over
   (decDigits64(x)+_DW-1)/_DW words is `to_words`. *)
Definition setUint64 (x : Z) : list Z :=
  if x <? B then setWord x
  else norm (to_words (Z.to_nat ((ndig x + DW - 1) / DW)) x).

(* x.toUint64() on a 64-bit build: (low 64 bits or MaxUint64, fits) *)
Definition toUint64 (x : list Z) : Z * bool :=
  match x with
  | [] => (0, true)
  | [x0] => let (hi, lo) := mulAddWWW_v 0 B x0 in (lo, hi =? 0)
  | [x0; x1] => let (hi, lo) := mulAddWWW_v x1 B x0 in (lo, hi =? 0)
  | _ => (W64 - 1, false)
  end.

(* float64(d) * log2_10 truncated to int, for 0 <= d < 2^53: log2_10 is the
   float64 nearest to Ln10/Ln2 = 7480317065143153 * 2^-51; the product is
   rounded to 53 bits (nearest even) before the truncation. *)
Definition log2_10_m : Z := 7480317065143153.
Definition f64_mul_log2_10_floor (d : Z) : Z :=
  let p := d * log2_10_m in                     (* exact product, scaled by 2^51 *)
  let bits := if p =? 0 then 0 else Z.log2 p + 1 in
  let sh := bits - 53 in
  if sh <=? 0 then p / 2 ^ 51
  else
    let q := p / 2 ^ sh in
    let r := p mod 2 ^ sh in
    let half := 2 ^ (sh - 1) in
    let q' := if (half <? r) || ((r =? half) && Z.odd q) then q + 1 else q in
    (q' * 2 ^ sh) / 2 ^ 51.

(* one pass `for j := len(zz)-1; j >= 0; j-- { zz[j], r = mulAddWWW_g(r, _DB, zz[j]) }`:
   zz = zz / 2^64 (still in base B), r = zz mod 2^64 *)
Fixpoint toNat_pass (zz : list Z) : list Z * Z :=
  match zz with
  | [] => ([], 0)
  | a :: zz' =>
      let (q, r) := toNat_pass zz' in
      let (hi, lo) := mulAddWWW_v r B a in (hi :: q, lo)
  end.
Fixpoint toNat_loop (k : nat) (zz : list Z) : list Z :=
  match k with
  | O => []
  | S k' => let (q, r) := toNat_pass zz in r :: toNat_loop k' (norm q)
  end.
(* strip high zero words of a base-2^64 list: same as norm *)
Definition decToNat (x : list Z) : list Z :=
  match x with
  | [] => []
  | [x0] => [x0]
  | _ =>
      let nw := Z.to_nat ((f64_mul_log2_10_floor (nat_digits x) + 64) / 64) in
      norm (toNat_loop nw x)
  end.

(* z.setNat(x) with len z = n: n times `z[i] = divWVW(b, 0, b, _DB)` *)
Fixpoint setNat_loop (k : nat) (b : list Z) : list Z :=
  match k with
  | O => []
  | S k' => let (q, r) := divWVW_v b B 0 in r :: setNat_loop k' q
  end.
Definition setNat (n : nat) (x : list Z) : list Z := norm (setNat_loop n x).

(* x.bytes(buf): the words (not the value) as 8 big-endian bytes each, most
   significant word first, leading zero bytes stripped *)
Fixpoint word_bytes_le (k : nat) (d : Z) : list Z :=
  match k with
  | O => []
  | S k' => d mod 256 :: word_bytes_le k' (d / 256)
  end.
Fixpoint strip_zeros (l : list Z) : list Z :=
  match l with
  | 0 :: r => strip_zeros r
  | _ => l
  end.
Definition nat_bytes (x : list Z) : list Z :=
  strip_zeros (rev (flat_map (word_bytes_le 8) x)).

(* z.setBytes(buf): groups of 8 bytes from the end, as raw words *)
Fixpoint le_val (bs : list Z) : Z :=
  match bs with
  | [] => 0
  | b :: r => b + 256 * le_val r
  end.
Fixpoint chunks_le (fuel : nat) (rb : list Z) : list Z :=
  match fuel with
  | O => []
  | S f =>
      match rb with
      | [] => []
      | _ => le_val (firstn 8 rb) :: chunks_le f (skipn 8 rb)
      end
  end.
Definition nat_setBytes (buf : list Z) : list Z :=
  norm (chunks_le (length buf) (rev buf)).
