(* L2/Sqr.v — algorithmic models of decBasicSqr, decKaratsubaSqr and dec.sqr.
   Definitions only (proofs: SqrProofs.v). *)
From Dec Require Export L2.Mul.
Open Scope Z_scope.

(* the loop `for i := 1; i < n; i++` of decBasicSqr: z collects the squares
   x[i]^2 at z[2i:2i+2], t the products x[i]*x[0:i] at t[i:2i] with the carry
   in t[2i] *)
Fixpoint basicSqr_loop (fuel : nat) (z t x : list Z) (i : nat) : list Z * list Z :=
  match fuel with
  | O => (z, t)
  | S f =>
      let d := nthw x i in
      let (hi, lo) := mul10WW_v d d in
      let z := splice z (2 * i) [lo; hi] in
      let (w, c) := addMul10VVW_v (win t i i) (firstn i x) d in
      let t := splice (splice t i w) (2 * i) [c] in
      basicSqr_loop f z t x (S i)
  end.

(* decBasicSqr(z, x): len x = n > 0, z[0:2n] = x*x *)
Definition basicSqr (z x : list Z) : list Z :=
  let n := length x in
  let t := repeat 0 (2 * n) in                      (* getDec(2n); t.clear() *)
  let (hi, lo) := mul10WW_v (nthw x 0) (nthw x 0) in
  let z := splice z 0 [lo; hi] in
  let (z, t) := basicSqr_loop (n - 1) z t x 1 in
  (* t[2n-1] = mulAdd10VWW(t[1:2n-1], t[1:2n-1], 2, 0) *)
  let (w, c) := mulAdd10VWW_v (win t 1 (2 * n - 2)) 2 0 in
  let t := splice (splice t 1 w) (2 * n - 1) [c] in
  (* add10VV(z, z, t); the carry is not looked at *)
  splice z 0 (fst (add10VV_v (firstn (2 * n) z) t 0)).

(* decKaratsubaSqr(z, x): len x = n, len z >= 6n, z[0:2n] = x*x *)
Fixpoint karatsubaSqr (fuel : nat) (thr : Z) (z x : list Z) : list Z :=
  let n := length x in
  match fuel with
  | O => basicSqr z x
  | S f =>
      if Nat.odd n || (Z.of_nat n <? thr) || (n <? 2)%nat
      then basicSqr z x                            (* decBasicSqr(z[:2n], x) *)
      else
        let n2 := (n / 2)%nat in
        let x1 := skipn n2 x in let x0 := firstn n2 x in
        let z := karatsubaSqr f thr z x0 in
        let z := firstn n z ++ karatsubaSqr f thr (skipn n z) x1 in
        let (xd, _) := absdiff x1 x0 in
        let z := splice z (2 * n) xd in
        let z := firstn (3 * n) z ++ karatsubaSqr f thr (skipn (3 * n) z) xd in
        karatsubaCombine z n false
  end.

(* dec.sqr(x) with decKaratsubaThreshold = thrM (used by the inner mul),
   decBasicSqrThreshold = thrB, decKaratsubaSqrThreshold = thrK *)
Fixpoint sqr_f (fuel : nat) (thrM thrB thrK junk : Z) (x : list Z) {struct fuel} : list Z :=
  match fuel with
  | O => []
  | S f =>
      let n := length x in
      if (n =? 0)%nat then []
      else if (n =? 1)%nat then
        let (hi, lo) := mul10WW_v (hd 0 x) (hd 0 x) in norm [lo; hi]
      else if Z.of_nat n <? thrB then norm (basicMul (mk junk (2 * n)) x x)
      else if Z.of_nat n <? thrK then norm (basicSqr (mk junk (2 * n)) x)
      else
        let k := karatsubaLen n thrK in
        let x0 := firstn k x in
        let z := karatsubaSqr k thrK (mk junk (Nat.max (6 * k) (2 * n))) x0 in
        let z := firstn (2 * k) z ++ repeat 0 (2 * n - 2 * k) in
        if (k <? n)%nat then
          let x0n := norm x0 in
          let x1 := skipn k x in
          let t := mul thrM junk x0n x1 in
          let z := decAddAt z t k in
          let z := decAddAt z t k in
          let t := sqr_f f thrM thrB thrK junk x1 in
          let z := decAddAt z t (2 * k) in
          norm z
        else norm z
  end.

Definition sqr (thrM thrB thrK junk : Z) (x : list Z) : list Z :=
  sqr_f (S (length x)) thrM thrB thrK junk x.
