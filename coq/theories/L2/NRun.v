(* L2/NRun.v — the interpreter used by the C06 correspondence check: one
   natural-number operation -> the observation that the Go driver prints for the
   real `dec` routine.  For every operation both the algorithmic model (L2/*.v,
   with the thresholds of the case) and the value-level routine (Base/Words.v)
   are evaluated; the tokens are the value-level answer and `agree` says whether
   the algorithmic model produced the same.  Definitions only. *)
From Dec Require Export L2.Nat L2.Mul L2.Sqr L2.Div L2.Conv.
Open Scope Z_scope.

Record ncfg := mkCfg {
  c_thrM : Z;      (* decKaratsubaThreshold *)
  c_thrB : Z;      (* decBasicSqrThreshold *)
  c_thrK : Z;      (* decKaratsubaSqrThreshold *)
  c_thrD : Z;      (* divRecursiveThreshold *)
  c_junk : Z       (* contents of recycled scratch buffers *)
}.

Inductive nop :=
| NMul (x y : list Z) | NSqr (x : list Z) | NDiv (u v : list Z) | NDivW (x : list Z) (y : Z)
| NAdd (x y : list Z) | NSub (x y : list Z) | NShl (x : list Z) (s : Z) | NShr (x : list Z) (s : Z)
| NCmp (x y : list Z) | NDigit (x : list Z) (i : Z) | NSticky (x : list Z) (i : Z)
| NDigits (x : list Z) | NTZ (x : list Z)
| NSetUint64 (x : Z) | NToUint64 (x : list Z) | NToNat (x : list Z) | NSetNat (n : Z) (x : list Z)
| NBytes (x : list Z) | NSetBytes (b : list Z).

Record nout := mkOut {
  o_crash : bool;          (* the Go routine panics *)
  o_toks : list Z;         (* result tokens; a list is printed as length, words *)
  o_agree : bool           (* algorithmic model = value-level routine *)
}.

Fixpoint zlist_eqb (a b : list Z) : bool :=
  match a, b with
  | [], [] => true
  | x :: a', y :: b' => (x =? y) && zlist_eqb a' b'
  | _, _ => false
  end.

Definition tl_list (l : list Z) : list Z := zlen l :: l.
Definition ok1 (valr algr : list Z) : nout := mkOut false (tl_list valr) (zlist_eqb valr algr).
Definition crash (agree : bool) : nout := mkOut true [] agree.
Definition b2z (b : bool) : Z := if b then 1 else 0.
Definition sgn3 (a b : Z) : Z := if a <? b then -1 else if b <? a then 1 else 0.

(* value of a base-2^64 word list *)
Fixpoint val64 (l : list Z) : Z :=
  match l with
  | [] => 0
  | w :: r => w + W64 * val64 r
  end.

Definition nrun (c : ncfg) (o : nop) : nout :=
  match o with
  | NMul x y => ok1 (dec_mul x y) (mul (c_thrM c) (c_junk c) x y)
  | NSqr x => ok1 (dec_mul x x) (sqr (c_thrM c) (c_thrB c) (c_thrK c) (c_junk c) x)
  | NDiv u v =>
      match div (c_thrD c) (c_thrM c) (c_junk c) u v with
      | None => crash ((length v =? 0)%nat)
      | Some (q, r) =>
          let qv := dec_quo u v in
          let rv := dec_rem u v in
          mkOut false (tl_list qv ++ tl_list rv) (zlist_eqb q qv && zlist_eqb r rv)
      end
  | NDivW x y =>
      match nat_divW x y with
      | None => crash (y =? 0)
      | Some (q, r) =>
          let qv := of_Z (val x / y) in
          let rv := val x mod y in
          mkOut false (tl_list qv ++ [rv]) (zlist_eqb q qv && (r =? rv))
      end
  | NAdd x y => ok1 (dec_add x y) (nat_add x y)
  | NSub x y =>
      match nat_sub x y with
      | None => crash (val x <? val y)
      | Some z => mkOut false (tl_list (dec_sub x y)) (zlist_eqb z (dec_sub x y) && (val y <=? val x))
      end
  | NShl x s => ok1 (dec_shl x s) (nat_shl x s)
  | NShr x s => ok1 (dec_shr x s) (nat_shr x s)
  | NCmp x y => let r := sgn3 (val x) (val y) in mkOut false [r] (nat_cmp x y =? r)
  | NDigit x i => let r := dec_digit x i in mkOut false [r] (nat_digit x i =? r)
  | NSticky x i => let r := dec_sticky x i in mkOut false [r] (nat_sticky x i =? r)
  | NDigits x => let r := ndig (val x) in mkOut false [r] (nat_digits x =? r)
  | NTZ x =>
      match nat_tz x with
      | None => crash (negb (length x =? 0)%nat && (val x =? 0))
      | Some t => let r := ntz10 (val x) in mkOut false [r] (t =? r)
      end
  | NSetUint64 x => ok1 (of_Z x) (setUint64 x)
  | NToUint64 x =>
      let (lo, ok) := toUint64 x in
      mkOut false [lo; b2z ok]
        (if val x <? W64 then (lo =? val x) && ok
         else negb ok && ((lo =? val x mod W64) || ((2 <? length x)%nat && (lo =? W64 - 1))))
  | NToNat x =>
      let r := decToNat x in
      mkOut false (tl_list r) (val64 r =? val x)
  | NSetNat n x =>
      let r := setNat (Z.to_nat n) x in
      mkOut false (tl_list r) (val r =? val64 x mod B ^ n)
  | NBytes x => mkOut false (tl_list (nat_bytes x)) true
  | NSetBytes b => mkOut false (tl_list (nat_setBytes b)) true
  end.

(* comparison with an observation of the implementation, for the in-kernel
   (vm_compute) sample: same crash flag, same tokens, and the models agree *)
Definition ncheck (c : ncfg) (o : nop) (g_crash : bool) (g_toks : list Z) : bool :=
  let r := nrun c o in
  Bool.eqb (o_crash r) g_crash && (o_crash r || zlist_eqb (o_toks r) g_toks) && o_agree r.

Fixpoint nmismatches (i : nat) (l : list (ncfg * nop * bool * list Z)) : list nat :=
  match l with
  | [] => []
  | (c, o, gc, gt) :: r =>
      if ncheck c o gc gt then nmismatches (S i) r else i :: nmismatches (S i) r
  end.
