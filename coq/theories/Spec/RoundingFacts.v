(* Spec/RoundingFacts.v — from integer-level rounding decisions to the
   rational specification of Spec/Rounding.v. *)
From Coq Require Import ZArith QArith Bool Lia Lqa.
From Dec Require Import Base.Words Base.WordsProofs Base.QPow L3.Decimal Spec.Rounding.
Open Scope Z_scope.

(* ---- scaled with a common exponent behaves like the integers ---- *)
Lemma scaled_lt_same a b x : a < b <-> (scaled a x < scaled b x)%Q.
Proof.
  rewrite (scaled_lt_gen a x b x x) by lia. rewrite Z.sub_diag, Z.pow_0_r. lia.
Qed.
Lemma scaled_le_same a b x : a <= b <-> (scaled a x <= scaled b x)%Q.
Proof.
  rewrite (scaled_le_gen a x b x x) by lia. rewrite Z.sub_diag, Z.pow_0_r. lia.
Qed.
Lemma scaled_eq_same a b x : a = b <-> (scaled a x == scaled b x)%Q.
Proof.
  rewrite (scaled_eq_gen a x b x x) by lia. rewrite Z.sub_diag, Z.pow_0_r. lia.
Qed.
Lemma scaled_add a b x : (scaled (a + b) x == scaled a x + scaled b x)%Q.
Proof. unfold scaled. rewrite inject_Z_plus. ring. Qed.
Lemma scaled_double a x : (scaled (2 * a) x == scaled a x + scaled a x)%Q.
Proof. replace (2 * a) with (a + a) by lia. apply scaled_add. Qed.

(* the integer-level rounding decision: N = M0 * P + rem, sticky s says that
   the exact value lies strictly above N *)
Definition inc_dec (d : dir) (M0 rem P : Z) (s : bool) : bool :=
  if (rem =? 0) && negb s then false
  else match d with
       | Down => false
       | Up => true
       | NearEven => (P <? 2 * rem) || ((2 * rem =? P) && (s || Z.odd M0))
       | NearAway => P <=? 2 * rem
       end.

Section IntegerToRational.
  Variables (d : dir) (p N k x : Z) (s : bool) (v : Q).
  Hypothesis Hp : 1 <= p.
  Hypothesis Hk : 1 <= k.
  Let P := 10 ^ k.
  Let M0 := N / P.
  Let rem := N mod P.
  Hypothesis HN : 10 ^ (p + k - 1) <= N < 10 ^ (p + k).
  Hypothesis Hlo : (scaled N x <= v)%Q.
  Hypothesis Hhi : (v < scaled (N + 1) x)%Q.
  Hypothesis Hs0 : s = false -> (v == scaled N x)%Q.
  Hypothesis Hs1 : s = true -> (scaled N x < v)%Q.

  Lemma P_pos : 0 < P. Proof. apply pow10_pos; lia. Qed.
  Lemma P_even : exists h, P = 2 * h.
  Proof.
    exists (5 * 10 ^ (k - 1)). unfold P. replace k with (1 + (k - 1)) at 1 by lia.
    rewrite Z.pow_add_r by lia. lia.
  Qed.
  Lemma N_split : N = M0 * P + rem /\ 0 <= rem < P.
  Proof.
    pose proof P_pos. unfold M0, rem. split; [rewrite Z.mul_comm; apply Z.div_mod; lia|].
    apply Z.mod_pos_bound; lia.
  Qed.
  Lemma M0_bounds : 10 ^ (p - 1) <= M0 < 10 ^ p.
  Proof.
    pose proof P_pos. destruct N_split as [E R]. unfold M0.
    replace (p + k - 1) with (p - 1 + k) in HN by lia.
    rewrite !Z.pow_add_r in HN by lia. fold P in HN. split.
    - apply Z.div_le_lower_bound; lia.
    - apply Z.div_lt_upper_bound; lia.
  Qed.

  Let lo := scaled M0 (x + k).
  Let hi := scaled (M0 + 1) (x + k).

  Lemma lo_eq : (lo == scaled (M0 * P) x)%Q.
  Proof. unfold lo, P. symmetry. apply scaled_pow. lia. Qed.
  Lemma hi_eq : (hi == scaled (M0 * P + P) x)%Q.
  Proof. unfold hi, P. replace (M0 * 10 ^ k + 10 ^ k) with ((M0 + 1) * 10 ^ k) by ring. symmetry. apply scaled_pow. lia. Qed.

  Lemma isdown : IsDown p v M0 (x + k).
  Proof.
    destruct N_split as [E R]. split; [apply M0_bounds|]. fold lo hi. rewrite lo_eq, hi_eq. split.
    - eapply Qle_trans; [|exact Hlo]. apply scaled_le_same. lia.
    - eapply Qlt_le_trans; [exact Hhi|]. apply scaled_le_same. lia.
  Qed.

  Lemma exact_iff : (v == lo)%Q <-> (rem = 0 /\ s = false).
  Proof.
    destruct N_split as [E R]. rewrite lo_eq. split.
    - intros Hv. destruct s eqn:Es.
      + specialize (Hs1 eq_refl). exfalso.
        assert (scaled (M0 * P) x <= scaled N x)%Q by (apply scaled_le_same; lia). lra.
      + split; [|reflexivity]. specialize (Hs0 eq_refl). rewrite Hs0 in Hv.
        apply scaled_eq_same in Hv. lia.
    - intros [Hr Hs]. rewrite (Hs0 Hs). apply scaled_eq_same. lia.
  Qed.

  Theorem inc_dec_rounds :
    RoundsDir d p v (scaled (M0 + (if inc_dec d M0 rem P s then 1 else 0)) (x + k)).
  Proof.
    exists M0, (x + k). split; [apply isdown|]. cbn zeta. fold lo hi.
    destruct N_split as [E R]. destruct P_even as [h Ph]. pose proof P_pos as PP.
    split.
    - intros Hv. apply exact_iff in Hv as [Hr Hs]. unfold inc_dec. rewrite Hr, Hs. cbn.
      rewrite Z.add_0_r. reflexivity.
    - intros Hne. rewrite exact_iff in Hne.
      assert (Hin : (rem =? 0) && negb s = false).
      { destruct (Z.eqb_spec rem 0), s; cbn; try reflexivity. exfalso; apply Hne; auto. }
      unfold inc_dec. rewrite Hin.
      (* facts in units of 10^x *)
      pose proof (scaled_add (M0 * P) rem x) as EN. rewrite <- E in EN.
      pose proof (scaled_add N 1 x) as EN1.
      pose proof (scaled_add (M0 * P) P x) as EH.
      pose proof lo_eq as El. pose proof hi_eq as Eh.
      set (uN := scaled N x) in *. set (u1 := scaled 1 x) in *.
      set (uB := scaled (M0 * P) x) in *. set (uP := scaled P x) in *. set (ur := scaled rem x) in *.
      assert (H1pos : (0 < u1)%Q) by (apply scaled_pos; lia).
      (* rem + 1 <= P, so ur + u1 <= uP *)
      assert (Hr1 : (ur + u1 <= uP)%Q).
      { unfold ur, u1, uP. rewrite <- scaled_add. apply scaled_le_same. lia. }
      assert (Hr0 : (0 <= ur)%Q).
      { unfold ur. rewrite <- (scaled_0 x). apply scaled_le_same. lia. }
      destruct d.
      + (* Down *) rewrite Z.add_0_r. reflexivity.
      + (* Up *) reflexivity.
      + (* NearEven *)
        destruct (Z.ltb_spec P (2 * rem)) as [Hgt|Hle]; cbn [orb].
        * (* above half *)
          assert (Hx : (uP + u1 <= ur + ur)%Q).
          { unfold uP, u1, ur. rewrite <- !scaled_add. apply scaled_le_same. lia. }
          repeat split; intros Hc; try reflexivity; exfalso; lra.
        * destruct (Z.eqb_spec (2 * rem) P) as [Heq|Hneq]; cbn [andb].
          -- (* exactly half in N *)
             assert (Hx : (ur + ur == uP)%Q).
             { unfold uP, ur. rewrite <- scaled_add. apply scaled_eq_same. lia. }
             destruct s eqn:Es; cbn [orb].
             ++ specialize (Hs1 eq_refl). repeat split; intros Hc; try reflexivity; exfalso; lra.
             ++ specialize (Hs0 eq_refl). rewrite <- Z.negb_even.
                destruct (Z.even M0); cbn [negb]; rewrite ?Z.add_0_r;
                  repeat split; intros Hc; try reflexivity; exfalso; lra.
          -- (* below half: 2 rem + 2 <= P *)
             assert (Hx : (ur + ur + u1 + u1 <= uP)%Q).
             { unfold uP, u1, ur. rewrite <- !scaled_add. apply scaled_le_same. lia. }
             rewrite Z.add_0_r.
             repeat split; intros Hc; try reflexivity; exfalso; lra.
      + (* NearAway *)
        destruct (Z.leb_spec P (2 * rem)) as [Hge|Hlt].
        * assert (Hx : (uP <= ur + ur)%Q).
          { unfold uP, ur. rewrite <- !scaled_add. apply scaled_le_same. lia. }
          repeat split; intros Hc; try reflexivity; exfalso; lra.
        * assert (Hx : (ur + ur + u1 + u1 <= uP)%Q).
          { unfold uP, u1, ur. rewrite <- !scaled_add. apply scaled_le_same. lia. }
          rewrite Z.add_0_r.
          repeat split; intros Hc; try reflexivity; exfalso; lra.
  Qed.

  (* accuracy of the rounded magnitude *)
  Theorem inc_dec_acc (ng : bool) :
    let inc := inc_dec d M0 rem P s in
    acc_of ng (scaled (M0 + (if inc then 1 else 0)) (x + k)) v =
      if (rem =? 0) && negb s then Exact else makeAcc (xorb inc ng).
  Proof.
    cbn zeta. destruct N_split as [E R]. pose proof P_pos as PP.
    pose proof lo_eq as El. pose proof hi_eq as Eh.
    destruct ((rem =? 0) && negb s) eqn:Hin.
    - apply andb_true_iff in Hin as [Hr Hs]. apply Z.eqb_eq in Hr. apply negb_true_iff in Hs.
      unfold inc_dec. rewrite Hr, Hs. cbn [Z.eqb negb andb]. rewrite Z.add_0_r. fold lo.
      unfold acc_of. assert (Hv : (v == lo)%Q) by (apply exact_iff; auto).
      rewrite (Qeq_cmp lo v) by (symmetry; exact Hv). reflexivity.
    - assert (Hne : ~ (v == lo)%Q).
      { rewrite exact_iff. intros [Hr Hs]. rewrite Hr, Hs in Hin. discriminate. }
      destruct (inc_dec d M0 rem P s).
      + fold hi. unfold acc_of.
        assert (v < hi)%Q as Hlt.
        { rewrite Eh. eapply Qlt_le_trans; [exact Hhi|]. apply scaled_le_same. lia. }
        rewrite (Qgt_cmp hi v Hlt). destruct ng; reflexivity.
      + rewrite Z.add_0_r. fold lo. unfold acc_of.
        assert (lo < v)%Q as Hlt.
        { assert (lo <= v)%Q. { rewrite El. eapply Qle_trans; [|exact Hlo]. apply scaled_le_same. lia. }
          apply Qle_lt_or_eq in H as [H|H]; [exact H|]. exfalso. apply Hne. symmetry. exact H. }
        rewrite (Qlt_cmp lo v Hlt). destruct ng; reflexivity.
  Qed.
End IntegerToRational.

(* no digit is lost: the value itself is a p-digit decimal *)
Lemma exact_rounds d p N j x :
  1 <= p -> 0 <= j -> 10 ^ (p - j - 1) <= N < 10 ^ (p - j) -> j < p ->
  RoundsDir d p (scaled N x) (scaled N x).
Proof.
  intros Hp Hj HN Hjp.
  exists (N * 10 ^ j), (x - j).
  assert (E : (scaled (N * 10 ^ j) (x - j) == scaled N x)%Q).
  { rewrite scaled_pow by lia. replace (x - j + j) with x by lia. reflexivity. }
  assert (0 < 10 ^ j) by (apply pow10_pos; lia).
  split; [split; [|split]|].
  - replace (p - 1) with (p - j - 1 + j) by lia. replace p with (p - j + j) at 2 by lia.
    rewrite !Z.pow_add_r by lia. nia.
  - rewrite E. apply Qle_refl.
  - rewrite <- E. apply scaled_lt_same. lia.
  - cbn zeta. split; [intros _; symmetry; exact E|]. intros Hne. exfalso. apply Hne. symmetry. exact E.
Qed.

(* the specification respects rational equality *)
Lemma RoundsDir_ext d p v v' r r' :
  (v == v')%Q -> (r == r')%Q -> RoundsDir d p v r -> RoundsDir d p v' r'.
Proof.
  intros Hv Hr (M & e & [HM [H1 H2]] & H). exists M, e. split.
  - split; [exact HM|]. rewrite <- Hv. split; assumption.
  - cbn zeta in *. destruct d; rewrite <- Hv, <- Hr; exact H.
Qed.

Lemma acc_of_ext ng r r' v v' : (r == r')%Q -> (v == v')%Q -> acc_of ng r v = acc_of ng r' v'.
Proof. intros Hr Hv. unfold acc_of. now rewrite Hr, Hv. Qed.

(* the decision is invariant under scaling N and the cut position together
   (trailing zero digits shifted into the mantissa do not change it) *)
Lemma inc_dec_scale d N2 P2 T s : 0 < T -> 0 < P2 -> 0 <= N2 ->
  inc_dec d ((N2 * T) / (P2 * T)) ((N2 * T) mod (P2 * T)) (P2 * T) s =
  inc_dec d (N2 / P2) (N2 mod P2) P2 s.
Proof.
  intros HT HP HN.
  rewrite Z.div_mul_cancel_r by lia. rewrite Z.mul_mod_distr_r by lia.
  pose proof (Z.mod_pos_bound N2 P2 HP) as Hr. set (r := N2 mod P2) in *. set (M := N2 / P2).
  unfold inc_dec.
  assert (E0 : (r * T =? 0) = (r =? 0)).
  { destruct (Z.eqb_spec (r * T) 0), (Z.eqb_spec r 0); try reflexivity; exfalso; nia. }
  rewrite E0. destruct ((r =? 0) && negb s); [reflexivity|].
  destruct d; try reflexivity.
  - assert (E1 : (P2 * T <? 2 * (r * T)) = (P2 <? 2 * r)).
    { destruct (Z.ltb_spec (P2 * T) (2 * (r * T))), (Z.ltb_spec P2 (2 * r)); try reflexivity; exfalso; nia. }
    assert (E2 : (2 * (r * T) =? P2 * T) = (2 * r =? P2)).
    { destruct (Z.eqb_spec (2 * (r * T)) (P2 * T)), (Z.eqb_spec (2 * r) P2); try reflexivity; exfalso; nia. }
    now rewrite E1, E2.
  - destruct (Z.leb_spec (P2 * T) (2 * (r * T))), (Z.leb_spec P2 (2 * r)); try reflexivity; exfalso; nia.
Qed.

(* ---- the specification is functional ---- *)
Lemma scaled1_le_mono a b : a <= b -> (scaled 1 a <= scaled 1 b)%Q.
Proof.
  intros H. apply (scaled_le_gen _ _ _ _ a); try lia.
  rewrite Z.sub_diag, Z.pow_0_r. assert (0 < 10 ^ (b - a)) by (apply pow10_pos; lia). lia.
Qed.

Lemma IsDown_unique p v M e M' e' : 1 <= p ->
  IsDown p v M e -> IsDown p v M' e' -> M = M' /\ e = e'.
Proof.
  intros Hp [HM [H1 H2]] [HM' [H1' H2']].
  assert (He : e = e').
  { (* v lies in [10^(p-1+e), 10^(p+e)) and in [10^(p-1+e'), 10^(p+e')) *)
    assert (A : forall M e M' e', 10 ^ (p - 1) <= M < 10 ^ p -> 10 ^ (p - 1) <= M' < 10 ^ p ->
                 (v < scaled (M + 1) e)%Q -> (scaled M' e' <= v)%Q -> e' <= e).
    { clear - Hp. intros M e M' e' HM HM' Hhi Hlo'.
      destruct (Z.le_gt_cases e' e) as [C|C]; [exact C|exfalso].
      assert (scaled (M + 1) e <= scaled M' e')%Q.
      { apply (scaled_le_gen _ _ _ _ e); try lia. rewrite Z.sub_diag, Z.pow_0_r.
        assert (10 <= 10 ^ (e' - e)).
        { replace 10 with (10 ^ 1) at 1 by reflexivity. apply Z.pow_le_mono_r; lia. }
        assert (10 ^ p = 10 * 10 ^ (p - 1)).
        { replace p with (1 + (p - 1)) at 1 by lia. rewrite Z.pow_add_r by lia. reflexivity. }
        assert (0 < 10 ^ (p - 1)) by (apply pow10_pos; lia). nia. }
      lra. }
    pose proof (A M e M' e' HM HM' H2 H1'). pose proof (A M' e' M e HM' HM H2' H1). lia. }
  subst e'. split; [|reflexivity].
  assert (scaled M e < scaled (M' + 1) e)%Q by lra.
  assert (scaled M' e < scaled (M + 1) e)%Q by lra.
  apply scaled_lt_same in H, H0. lia.
Qed.

Theorem RoundsDir_unique d p v r r' : 1 <= p ->
  RoundsDir d p v r -> RoundsDir d p v r' -> (r == r')%Q.
Proof.
  intros Hp (M & e & HD & Hex & Hin) (M' & e' & HD' & Hex' & Hin').
  destruct (IsDown_unique p v M e M' e' Hp HD HD') as [<- <-].
  cbn zeta in *.
  set (lo := scaled M e) in *. set (hi := scaled (M + 1) e) in *.
  destruct (Qeq_dec v lo) as [E|E].
  - rewrite (Hex E), (Hex' E). reflexivity.
  - specialize (Hin E). specialize (Hin' E).
    destruct d.
    + now rewrite Hin, Hin'.
    + now rewrite Hin, Hin'.
    + destruct Hin as (A1 & A2 & A3), Hin' as (B1 & B2 & B3).
      destruct (Q_dec (v - lo) (hi - v)) as [[C|C]|C].
      * now rewrite (A1 C), (B1 C).
      * now rewrite (A2 C), (B2 C).
      * now rewrite (A3 C), (B3 C).
    + destruct Hin as (A1 & A2), Hin' as (B1 & B2).
      destruct (Qlt_le_dec (v - lo) (hi - v)) as [C|C].
      * now rewrite (A1 C), (B1 C).
      * now rewrite (A2 C), (B2 C).
Qed.

Theorem Rounds_unique m ng p v r r' :
  (0 < v)%Q -> 1 <= p -> Rounds m ng p v r -> Rounds m ng p v r' -> (r == r')%Q.
Proof. intros _ Hp. apply RoundsDir_unique. exact Hp. Qed.
