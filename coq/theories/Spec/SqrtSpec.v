(* Spec/SqrtSpec.v — what "the square root of a rational, rounded once to p
   significant decimal digits under a rounding mode" means, without real
   numbers.  Definitions only. *)
From Coq Require Import ZArith QArith Bool.
From Dec Require Import Base.QPow L3.Decimal Spec.Rounding.
Open Scope Z_scope.

(* the magnitude of r is the positive rational v rounded once to p digits under
   mode md (Spec/Rounding.v, sign +), and the accuracy of r is the sign of
   (mag r - v) *)
Definition RoundedTo (md : mode) (p : Z) (v : Q) (r : Dec) : Prop :=
  Rounds md false p v (mag r) /\ acc r = acc_of false (mag r) v.

(* r is sqrt(xq) rounded once: either xq has a rational root v and r is v
   rounded, or there is an open rational interval (lo, hi) around the root
   (lo^2 < xq < hi^2) on which "v rounded once" is constantly r — rounding and
   accuracy included.  Rounding is monotone, so the second clause pins r down
   as the rounding of the (real) root as well. *)
Definition IsSqrtRounding (md : mode) (p : Z) (xq : Q) (r : Dec) : Prop :=
  (exists v, (0 <= v)%Q /\ (v * v == xq)%Q /\ RoundedTo md p v r) \/
  (exists lo hi, (0 <= lo)%Q /\ (lo < hi)%Q /\ (lo * lo < xq)%Q /\ (xq < hi * hi)%Q /\
     forall v, (lo < v)%Q -> (v < hi)%Q -> RoundedTo md p v r).
