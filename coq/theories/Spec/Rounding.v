(* Spec/Rounding.v — what "the exact result rounded once to p significant
   decimal digits under a rounding mode" means.  Short, executable where
   possible, no reference to the implementation's algorithms. *)
From Coq Require Import ZArith QArith Bool.
From Dec Require Import Base.QPow L3.Decimal.
Open Scope Z_scope.

(* rounding direction on magnitudes *)
Inductive dir := Down | Up | NearEven | NearAway.

Definition dir_of (m : mode) (ng : bool) : dir :=
  match m with
  | ToZero => Down
  | AwayFromZero => Up
  | ToNegativeInf => if ng then Up else Down
  | ToPositiveInf => if ng then Down else Up
  | ToNearestEven => NearEven
  | ToNearestAway => NearAway
  end.

(* M * 10^e is the largest p-digit decimal not above v *)
Definition IsDown (p : Z) (v : Q) (M e : Z) : Prop :=
  10 ^ (p - 1) <= M < 10 ^ p /\ (scaled M e <= v)%Q /\ (v < scaled (M + 1) e)%Q.

(* r is the magnitude v > 0 rounded to p digits in direction d *)
Definition RoundsDir (d : dir) (p : Z) (v r : Q) : Prop :=
  exists M e, IsDown p v M e /\
    let lo := scaled M e in let hi := scaled (M + 1) e in
    ((v == lo)%Q -> (r == lo)%Q) /\
    (~ (v == lo)%Q ->
       match d with
       | Down => (r == lo)%Q
       | Up => (r == hi)%Q
       | NearEven =>
           ((v - lo < hi - v)%Q -> (r == lo)%Q) /\
           ((hi - v < v - lo)%Q -> (r == hi)%Q) /\
           ((v - lo == hi - v)%Q -> (r == if Z.even M then lo else hi)%Q)
       | NearAway =>
           ((v - lo < hi - v)%Q -> (r == lo)%Q) /\
           ((hi - v <= v - lo)%Q -> (r == hi)%Q)
       end).

(* rounding the magnitude of a value of sign ng under mode m *)
Definition Rounds (m : mode) (ng : bool) (p : Z) (v r : Q) : Prop :=
  RoundsDir (dir_of m ng) p v r.

(* accuracy = sign of (stored - exact) for a value of sign ng with stored
   magnitude r and exact magnitude v *)
Definition acc_of (ng : bool) (r v : Q) : accuracy :=
  match Qcompare r v with
  | Eq => Exact
  | Gt => if ng then Below else Above
  | Lt => if ng then Above else Below
  end.

(* The complete result rule of C01/C02 for a non-zero exact value of sign ng
   and magnitude v > 0, receiver precision p and mode m:
   - |v| < 10^(MinExp-1): a zero of that sign, accuracy relative to the exact value;
   - rounded magnitude >= 10^MaxExp: an infinity of that sign;
   - otherwise the finite value of magnitude r = Rounds ... v. *)
Definition result_spec (p : Z) (m : mode) (ng : bool) (v : Q) (z : Dec) : Prop :=
  neg z = ng /\
  if Qlt_le_dec v (scaled 1 (MinExp - 1)) then
    dform z = Fzero /\ acc z = makeAcc ng
  else
    exists r, Rounds m ng p v r /\
      if Qlt_le_dec r (scaled 1 MaxExp) then
        dform z = Ffinite /\ (mag z == r)%Q /\ acc z = acc_of ng r v
      else
        dform z = Finf /\ acc z = makeAcc (negb ng).
