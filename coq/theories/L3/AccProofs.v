(* L3/AccProofs.v — the accuracy delivered with a result is the sign of
   (stored value - exact value) (C02). *)
From Coq Require Import ZArith List Bool Lia QArith Qabs Lqa.
From Dec Require Import Base.Words Base.QPow L3.Decimal L3.Cmp L3.CmpProofs Spec.Rounding
  L3.Round L3.Arith Spec.RoundingFacts L3.RoundProofs L3.ArithProofs.
Open Scope Z_scope.

(* sign of (stored - exact) for an extended stored value *)
Definition xacc (s : xval) (e : Q) : accuracy :=
  match s with
  | XNegInf => Below
  | XPosInf => Above
  | XFin q => match (q ?= e)%Q with Lt => Below | Eq => Exact | Gt => Above end
  end.

Theorem acc_truthful p md ng v z :
  result_spec p md ng v z -> (0 < v)%Q ->
  acc z = xacc (value z) (if ng then - v else v).
Proof.
  intros [Hn H] Hv. unfold value.
  destruct (Qlt_le_dec v (scaled 1 (MinExp - 1))).
  - destruct H as [Hf Ha]. rewrite Hf, Ha. cbn [xacc]. destruct ng; cbn [makeAcc].
    + assert (- v < 0)%Q by lra. now rewrite (Qgt_cmp 0 (- v) H).
    + now rewrite (Qlt_cmp 0 v Hv).
  - destruct H as (r & _ & Hr). destruct (Qlt_le_dec r (scaled 1 MaxExp)).
    + destruct Hr as (Hf & Hm & Ha). rewrite Hf, Hn, Ha. cbn [xacc]. unfold acc_of.
      destruct ng.
      * rewrite Hm. rewrite Qcompare_opp. rewrite <- (Qcompare_antisym r v).
        destruct (r ?= v)%Q; reflexivity.
      * rewrite Hm. destruct (r ?= v)%Q; reflexivity.
    + destruct Hr as (Hf & Ha). rewrite Hf, Hn, Ha. destruct ng; reflexivity.
Qed.

(* Exact if and only if nothing was lost *)
Corollary acc_exact_iff p md ng v z :
  result_spec p md ng v z -> (0 < v)%Q ->
  (acc z = Exact <-> exists q, value z = XFin q /\ (q == (if ng then - v else v))%Q).
Proof.
  intros H Hv. rewrite (acc_truthful p md ng v z H Hv). destruct (value z) as [|q|]; cbn [xacc].
  - split; [discriminate|intros (q & E & _); discriminate].
  - split.
    + intros E. exists q. split; [reflexivity|]. apply Qeq_alt. destruct (q ?= _)%Q; congruence.
    + intros (q' & E & Hq). injection E as <-. now rewrite (Qeq_cmp _ _ Hq).
  - split; [discriminate|intros (q & E & _); discriminate].
Qed.

(* ---- instances for the arithmetic operations ---- *)

Lemma OpPost_acc p md ng v r z' : OpPost p md ng v r -> (0 < v)%Q -> r = OkR z' ->
  acc z' = xacc (value z') (if ng then - v else v).
Proof.
  intros (z0 & E & HS & _) Hv E'. rewrite E in E'. injection E' as <-.
  now apply (acc_truthful p md ng v).
Qed.

Lemma WF_mag_pos x : WF x -> dform x = Ffinite -> (0 < mag x)%Q.
Proof. intros W F. apply mag_pos. now apply WF_finite. Qed.

Theorem Mul_acc z x y z' :
  WF x -> WF y -> dform x = Ffinite -> dform y = Ffinite -> 0 <= prec z <= MaxPrec ->
  mdigits (mant x) + mdigits (mant y) < 4294967296 - 18 ->
  Mul z x y = OkR z' ->
  acc z' = xacc (value z') (if xorb (neg x) (neg y) then - (mag x * mag y) else mag x * mag y).
Proof.
  intros Wx Wy Fx Fy Pz Hl E.
  apply (OpPost_acc _ _ _ _ _ _ (Mul_correct z x y Wx Wy Fx Fy Pz Hl)); [|exact E].
  pose proof (WF_mag_pos x Wx Fx). pose proof (WF_mag_pos y Wy Fy). nra.
Qed.

Theorem Quo_acc z x y z' :
  WF x -> WF y -> dform x = Ffinite -> dform y = Ffinite -> 0 <= prec z <= MaxPrec ->
  mdigits (mant x) + mdigits (mant y) + eff_prec z x y + 38 < 4294967296 - 18 ->
  Quo z x y = OkR z' ->
  acc z' = xacc (value z') (if xorb (neg x) (neg y) then - (mag x / mag y) else mag x / mag y).
Proof.
  intros Wx Wy Fx Fy Pz Hl E.
  apply (OpPost_acc _ _ _ _ _ _ (Quo_correct z x y Wx Wy Fx Fy Pz Hl)); [|exact E].
  pose proof (WF_mag_pos x Wx Fx). pose proof (WF_mag_pos y Wy Fy).
  apply Qlt_shift_div_l; [assumption|]. lra.
Qed.

Lemma AddPost_acc p md q r z' : AddPost p md q r -> r = OkR z' -> acc z' = xacc (value z') q.
Proof.
  intros (z0 & E & _ & _ & _ & H0 & H1) E'. rewrite E in E'. injection E' as <-.
  destruct (Qeq_dec q 0) as [C|C].
  - destruct (H0 C) as (Hf & Ha & _). unfold value. rewrite Hf, Ha. cbn [xacc].
    rewrite (Qeq_cmp 0 q) by (symmetry; exact C). reflexivity.
  - specialize (H1 C).
    assert (Hpos : (0 < Qabs q)%Q).
    { destruct (Qlt_le_dec q 0); [rewrite Qabs_neg; lra|rewrite Qabs_pos; [|assumption]].
      apply Qle_lt_or_eq in q0 as [?|?]; [assumption|exfalso; apply C; symmetry; assumption]. }
    rewrite (acc_truthful _ _ _ _ _ H1 Hpos).
    assert (Eq : ((if qneg q then - Qabs q else Qabs q) == q)%Q).
    { unfold qneg. destruct (Qlt_le_dec q 0); [rewrite Qabs_neg by lra; ring|rewrite Qabs_pos by assumption; reflexivity]. }
    destruct (value z0); cbn [xacc]; try reflexivity. now rewrite Eq.
Qed.

Theorem Add_acc zx zy z x y z' :
  WF x -> WF y -> dform x = Ffinite -> dform y = Ffinite -> 0 <= prec z <= MaxPrec ->
  add_span x y + 40 < 4294967296 - 18 ->
  Add zx zy z x y = OkR z' -> acc z' = xacc (value z') (sval x + sval y).
Proof. intros Wx Wy Fx Fy Pz Hl. apply AddPost_acc with (p := eff_prec z x y) (md := dmode z). now apply Add_correct. Qed.

Theorem Sub_acc zx zy z x y z' :
  WF x -> WF y -> dform x = Ffinite -> dform y = Ffinite -> 0 <= prec z <= MaxPrec ->
  add_span x y + 40 < 4294967296 - 18 ->
  Sub zx zy z x y = OkR z' -> acc z' = xacc (value z') (sval x - sval y).
Proof. intros Wx Wy Fx Fy Pz Hl. apply AddPost_acc with (p := eff_prec z x y) (md := dmode z). now apply Sub_correct. Qed.

Theorem Set_acc same z x z' :
  WF x -> dform x = Ffinite -> mdigits (mant x) < 4294967296 - 18 ->
  0 <= prec z <= MaxPrec -> (same = true -> z = x) ->
  Set_ same z x = OkR z' -> acc z' = xacc (value z') (sval x).
Proof.
  intros Wx Fx Lx Pz Hs E.
  apply (OpPost_acc _ _ _ _ _ _ (Set_correct same z x Wx Fx Lx Pz Hs)); [|exact E].
  now apply WF_mag_pos.
Qed.

Theorem SetPrec_acc z p' z' :
  WF z -> dform z = Ffinite -> mdigits (mant z) < 4294967296 - 18 -> 1 <= p' ->
  SetPrec z p' = OkR z' -> acc z' = xacc (value z') (sval z).
Proof.
  intros Wz Fz Lz Hp E.
  apply (OpPost_acc _ _ _ _ _ _ (SetPrec_correct z p' Wz Fz Lz Hp)); [|exact E].
  now apply WF_mag_pos.
Qed.
