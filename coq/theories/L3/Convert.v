(* L3/Convert.v — models of the integer/rational setters and getters, raw
   mantissa access and MantExp/SetMantExp (decimal.go). *)
From Dec Require Export L3.Round L3.Arith L3.Cmp.
Open Scope Z_scope.

(* clampExp: saturate far-out-of-range exponent arguments (commit 28c71ae) *)
Definition clampExp (e : Z) : Z :=
  let lim := 1099511627776 in   (* 1 << 40 *)
  if lim <? e then lim else if e <? - lim then - lim else e.

(* setBits64(neg, x, exp): x is a uint64, exp an int64 *)
Definition setBits64 (z : Dec) (ng : bool) (x : Z) (e : Z) : ores :=
  let z := if prec z =? 0 then with_prec z DefaultDecimalPrec else z in
  let z := with_neg (with_acc z Exact) ng in
  if x =? 0 then OkR (with_form z Fzero)
  else
    let z := with_form z Ffinite in
    match dnorm (of_Z x) with
    | None => CrashR
    | Some (m', s) => of_opt (setExpAndRound (with_mant z m') (clampExp e + zlen m' * DW - s) 0)
    end.

Definition int64_abs_as_u64 (x : Z) : Z := u64 (Z.abs x).   (* u = -u wraps for MinInt64 *)

Definition SetInt64 (z : Dec) (x : Z) : ores := setBits64 z (x <? 0) (int64_abs_as_u64 x) 0.
Definition SetUint64 (z : Dec) (x : Z) : ores := setBits64 z false x 0.
Definition NewDecimal (x e : Z) : ores := setBits64 dec_zero (x <? 0) (int64_abs_as_u64 x) e.

(* SetInt(x *big.Int).  The mantissa buffer is sized from a float64 estimate of
   the digit count, which never under-estimates for bit lengths below 2^32 (see
   DESIGN.md); the model takes the exact digits. *)
Definition SetInt (z : Dec) (x : Z) : ores :=
  let z := with_neg (with_acc z Exact) (x <? 0) in
  if x =? 0 then
    let z := with_form z Fzero in
    OkR (if prec z =? 0 then with_prec z DefaultDecimalPrec else z)
  else
    let m := of_Z (Z.abs x) in
    let z := if prec z =? 0 then
               let digits := zlen m * DW - nlz10 (last_word m) in
               let digits := if MaxPrec <? digits then MaxPrec else digits in
               with_prec z (umax32 (u32 digits) DefaultDecimalPrec)
             else z in
    match dnorm m with
    | None => CrashR
    | Some (m', s) => of_opt (setExpAndRound (with_mant z m') (zlen m' * DW - s) 0)
    end.

(* SetRat(x = num/den), den > 0, gcd(num, den) = 1 (big.Rat normal form) *)
Definition SetRat (z : Dec) (num den : Z) : ores :=
  if den =? 1 then SetInt z num
  else
    match SetInt dec_zero num, SetInt dec_zero den with
    | OkR a, OkR b =>
        let z := if prec z =? 0 then with_prec z (umax32 (prec a) (prec b)) else z in
        Quo z a b
    | _, _ => CrashR
    end.

(* SetMantExp(mant, exp) *)
Definition SetMantExp (same : bool) (z m : Dec) (e : Z) : ores :=
  match Copy same z m with
  | OkR z =>
      match dform z with
      | Ffinite => of_opt (setExpAndRound z (exp z + clampExp e) 0)
      | _ => OkR z
      end
  | r => r
  end.

(* x.MantExp(mant): returns the exponent; mant (if given) receives the mantissa *)
Definition MantExp_exp (x : Dec) : Z := match dform x with Ffinite => exp x | _ => 0 end.
Definition MantExp_mant (same : bool) (m x : Dec) : ores :=
  match Copy same m x with
  | OkR m => OkR (match dform m with Ffinite => with_exp m 0 | _ => m end)
  | r => r
  end.

(* SetBitsExp(mant, exp); contract: every word < 10^19 *)
Definition SetBitsExp (z : Dec) (ws : list Z) (e : Z) : ores :=
  let m := norm ws in
  let z := with_neg (with_mant z m) false in
  match m with
  | [] => OkR (with_exp (with_form (with_acc z Exact) Fzero) 0)
  | _ =>
      let z := if prec z =? 0 then
                 let d := zlen m * DW in
                 with_prec z (if d <? MaxPrec then u32 d else MaxPrec)
               else z in
      match dnorm m with
      | None => CrashR
      | Some (m', s) => of_opt (setExpAndRound (with_mant z m') (clampExp e - s - (zlen ws - zlen m) * DW) 0)
      end
  end.

(* BitsExp: mantissa words (empty unless finite) and exponent *)
Definition BitsExp_mant (x : Dec) : list Z := match dform x with Ffinite => mant x | _ => [] end.

(* ---- getters ---- *)
Definition MinPrec (x : Dec) : Z :=
  match dform x with
  | Ffinite => zlen (mant x) * DW - ntz10 (val (mant x))
  | _ => 0
  end.

Definition IsInt (x : Dec) : bool :=
  match dform x with
  | Fzero => true
  | Finf => false
  | Ffinite =>
      if exp x <=? 0 then false
      else (prec x <=? u32 (exp x)) || (MinPrec x <=? exp x)
  end.

(* integer part of |x| for exp > 0: the value of intMant() *)
Definition intMant (x : Dec) : Z :=
  let all := zlen (mant x) * DW in
  if all <? exp x then val (mant x) * 10 ^ (exp x - all)
  else val (mant x) / 10 ^ (all - exp x).

(* dec.toUint64 on a normalised word list of value n: (low 64 bits, fits) *)
Definition toUint64 (n : Z) : Z * bool :=
  if n <? B * B then (u64 n, n <? 18446744073709551616) else (18446744073709551615, false).

Definition MaxInt64 : Z := 9223372036854775807.
Definition MinInt64 : Z := -9223372036854775808.
Definition MaxUint64 : Z := 18446744073709551615.

Definition Int64 (x : Dec) : Z * accuracy :=
  match dform x with
  | Fzero => (0, Exact)
  | Finf => if neg x then (MinInt64, Above) else (MaxInt64, Below)
  | Ffinite =>
      let a := makeAcc (neg x) in
      if exp x <=? 0 then (0, a)
      else
        let big := if neg x then (MinInt64, Above) else (MaxInt64, Below) in
        if exp x <=? 20 then
          let '(t, ok) := toUint64 (intMant x) in
          if ok then
            let i := i64 t in
            let i := if neg x then i64 (- i) else i in
            let a := if MinPrec x <=? exp x then Exact else a in
            if (t <? 9223372036854775808) || (neg x && (t =? 9223372036854775808)) then (i, a) else big
          else big
        else big
  end.

Definition Uint64 (x : Dec) : Z * accuracy :=
  match dform x with
  | Fzero => (0, Exact)
  | Finf => if neg x then (0, Above) else (MaxUint64, Below)
  | Ffinite =>
      if neg x then (0, Above)
      else if exp x <=? 0 then (0, Below)
      else if exp x <=? 20 then
        let a := if exp x <? MinPrec x then Below else Exact in
        let '(r, ok) := toUint64 (intMant x) in
        if ok then (r, a) else (MaxUint64, Below)
      else (MaxUint64, Below)
  end.

(* Int: None = nil result (infinity) *)
Definition Int (x : Dec) : option Z * accuracy :=
  match dform x with
  | Fzero => (Some 0, Exact)
  | Finf => (None, makeAcc (neg x))
  | Ffinite =>
      let a := makeAcc (neg x) in
      if exp x <=? 0 then (Some 0, a)
      else
        let a := if MinPrec x <=? exp x then Exact else a in
        let v := intMant x in
        (Some (if neg x then - v else v), a)
  end.

(* Rat: numerator and denominator in lowest terms *)
Definition Rat (x : Dec) : option (Z * Z) * accuracy :=
  match dform x with
  | Fzero => (Some (0, 1), Exact)
  | Finf => (None, makeAcc (neg x))
  | Ffinite =>
      let all := zlen (mant x) * DW in
      let '(n, d) := if all <? exp x then (val (mant x) * 10 ^ (exp x - all), 1)
                     else (val (mant x), 10 ^ (all - exp x)) in
      let g := Z.gcd n d in
      let n := n / g in let d := d / g in
      (Some (if neg x then - n else n, d), Exact)
  end.
