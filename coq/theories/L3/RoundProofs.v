(* L3/RoundProofs.v — the model of Decimal.round meets the rounding
   specification (shared lemma of C01, C02, C08, ...). *)
From Coq Require Import ZArith List Bool Lia QArith Lqa.
From Dec Require Import Base.Words Base.WordsProofs Base.QPow L3.Decimal L3.Cmp L3.CmpProofs
  L3.Round Spec.Rounding Spec.RoundingFacts.
Open Scope Z_scope.

(* ------------------------------------------------------------------ *)
(* rounding digit and sticky bit decide the comparison with one half   *)
Section Half.
  Variables N k : Z.
  Hypothesis HN : 0 <= N.
  Hypothesis Hk : 1 <= k.
  Let P := 10 ^ k.
  Let P1 := 10 ^ (k - 1).
  Let rdigit := (N / P1) mod 10.
  Let low := N mod P1.
  Let rem := N mod P.

  Lemma P_eq : P = 10 * P1.
  Proof. unfold P, P1. replace k with (1 + (k - 1)) at 1 by lia. rewrite Z.pow_add_r by lia. reflexivity. Qed.
  Lemma P1_pos : 0 < P1. Proof. unfold P1. apply pow10_pos; lia. Qed.
  Lemma rdigit_range : 0 <= rdigit < 10. Proof. unfold rdigit. apply Z.mod_pos_bound; lia. Qed.
  Lemma low_range : 0 <= low < P1. Proof. unfold low. apply Z.mod_pos_bound, P1_pos. Qed.
  Lemma rem_decomp : rem = rdigit * P1 + low.
  Proof.
    unfold rem, rdigit, low. rewrite P_eq. pose proof P1_pos.
    rewrite Z.mul_comm. rewrite Z.rem_mul_r by lia. lia.
  Qed.
  Ltac half_setup :=
    rewrite rem_decomp, ?P_eq; pose proof P1_pos as HP1; pose proof rdigit_range as Hrd; pose proof low_range as Hlw;
    assert (rdigit <= 4 \/ rdigit = 5 \/ 6 <= rdigit) as Hc by lia.
  Lemma rem_zero_iff : rem = 0 <-> rdigit = 0 /\ low = 0.
  Proof. half_setup. split; [intros H|intros [-> ->]; lia]. split; nia. Qed.
  Lemma gt_half_iff : P < 2 * rem <-> 5 < rdigit \/ (rdigit = 5 /\ low <> 0).
  Proof.
    half_setup. split.
    - intros H. destruct Hc as [C|[C|C]]; [exfalso; nia| right; split; [exact C|nia] | left; lia].
    - intros [H|[H1 H2]]; nia.
  Qed.
  Lemma eq_half_iff : 2 * rem = P <-> rdigit = 5 /\ low = 0.
  Proof.
    half_setup. split.
    - intros H. destruct Hc as [C|[C|C]]; [exfalso; nia| split; [exact C|nia] | exfalso; nia].
    - intros [H1 H2]. nia.
  Qed.
  Lemma ge_half_iff : P <= 2 * rem <-> 5 <= rdigit.
  Proof.
    half_setup. split.
    - intros H. destruct Hc as [C|[C|C]]; [exfalso; nia| lia | lia].
    - intros H. nia.
  Qed.
End Half.

(* the rounding decision of the code is the integer-level decision *)
Lemma round_inc_eq md ng N k (s : bool) (sb : Z) :
  0 <= N -> 1 <= k ->
  let P := 10 ^ k in let P1 := 10 ^ (k - 1) in
  let rdigit := (N / P1) mod 10 in
  let low := N mod P1 in
  let M0 := N / P in let rem := N mod P in
  (* sb: the sticky value the code ends up with *)
  (sb = 0 \/ sb = 1) ->
  (sb = 1 <-> (if (rdigit =? 0) || mode_eqb md ToNearestEven then negb (low =? 0) || s else s) = true) ->
  negb ((rdigit =? 0) && (sb =? 0)) = negb ((rem =? 0) && negb s) /\
  (negb ((rem =? 0) && negb s) = true ->
   round_inc md ng rdigit sb (M0 mod 10) = inc_dec (dir_of md ng) M0 rem P s).
Proof.
  intros HN Hk P P1 rdigit low M0 rem Hsb Hs.
  pose proof (rem_zero_iff N k Hk) as Hz. pose proof (gt_half_iff N k Hk) as Hg.
  pose proof (eq_half_iff N k Hk) as He. pose proof (ge_half_iff N k Hk) as Hge.
  pose proof (rdigit_range N k) as Hr. pose proof (low_range N k Hk) as Hl.
  cbn zeta in Hz, Hg, He, Hge, Hr, Hl. fold P P1 in Hz, Hg, He, Hge, Hr, Hl.
  fold rdigit low rem in Hz, Hg, He, Hge, Hr, Hl.
  assert (Hodd : Z.odd (M0 mod 10) = Z.odd M0).
  { rewrite (Z.div_mod M0 10) at 2 by lia.
    replace (10 * (M0 / 10) + M0 mod 10) with (M0 mod 10 + 2 * (5 * (M0 / 10))) by ring.
    rewrite Z.odd_add_mul_2. reflexivity. }
  split.
  - (* guards agree *)
    destruct (Z.eqb_spec rdigit 0) as [R0|R0]; cbn [orb andb] in *.
    + destruct (Z.eqb_spec low 0) as [L0|L0]; cbn [negb orb] in *.
      * assert (rem = 0) as -> by (apply Hz; auto). cbn [Z.eqb andb].
        destruct s; destruct Hsb as [->| ->]; cbn; try reflexivity; exfalso;
          (destruct Hs as [H1 H2]; (discriminate (H1 eq_refl) || (specialize (H2 eq_refl); discriminate))).
      * assert (rem <> 0) by (intros E; apply Hz in E; tauto).
        destruct (Z.eqb_spec rem 0); [contradiction|]. cbn [andb negb].
        destruct Hsb as [->| ->]; cbn; [|reflexivity]. destruct Hs as [_ H2]. specialize (H2 eq_refl). discriminate.
    + assert (rem <> 0) by (intros E; apply Hz in E; tauto).
      destruct (Z.eqb_spec rem 0); [contradiction|]. reflexivity.
  - intros Hguard.
    unfold round_inc, inc_dec. apply negb_true_iff in Hguard. rewrite Hguard.
    destruct md, ng; cbn [dir_of]; try reflexivity.
    + (* ToNearestEven, neg *)
      cbn [mode_eqb] in Hs. rewrite orb_true_r in Hs. rewrite Hodd.
      destruct (Z.ltb_spec 5 rdigit) as [G|G]; cbn [orb].
      * destruct (Z.ltb_spec P (2 * rem)); [reflexivity|]. exfalso. lia.
      * destruct (Z.eqb_spec rdigit 5) as [E5|E5]; cbn [andb].
        -- destruct (Z.eqb_spec low 0) as [L0|L0]; cbn [negb orb] in Hs.
           ++ assert (2 * rem = P) as E by (apply He; auto).
              destruct (Z.ltb_spec P (2 * rem)); [lia|]. destruct (Z.eqb_spec (2 * rem) P); [|lia]. cbn [orb andb].
              destruct s; destruct Hsb as [->| ->]; cbn; try reflexivity; exfalso;
                (destruct Hs as [H1 H2]; (discriminate (H1 eq_refl) || (specialize (H2 eq_refl); discriminate))).
           ++ assert (P < 2 * rem) by (apply Hg; right; auto).
              destruct (Z.ltb_spec P (2 * rem)); [|lia]. cbn [orb].
              destruct Hsb as [->| ->]; cbn; [|reflexivity]. destruct Hs as [_ H2]. specialize (H2 eq_refl). discriminate.
        -- destruct (Z.ltb_spec P (2 * rem)) as [C|C]; [exfalso; apply Hg in C; lia|].
           destruct (Z.eqb_spec (2 * rem) P) as [C2|C2]; [exfalso; apply He in C2; lia|]. reflexivity.
    + (* ToNearestEven, pos: same proof *)
      cbn [mode_eqb] in Hs. rewrite orb_true_r in Hs. rewrite Hodd.
      destruct (Z.ltb_spec 5 rdigit) as [G|G]; cbn [orb].
      * destruct (Z.ltb_spec P (2 * rem)); [reflexivity|]. exfalso. lia.
      * destruct (Z.eqb_spec rdigit 5) as [E5|E5]; cbn [andb].
        -- destruct (Z.eqb_spec low 0) as [L0|L0]; cbn [negb orb] in Hs.
           ++ assert (2 * rem = P) as E by (apply He; auto).
              destruct (Z.ltb_spec P (2 * rem)); [lia|]. destruct (Z.eqb_spec (2 * rem) P); [|lia]. cbn [orb andb].
              destruct s; destruct Hsb as [->| ->]; cbn; try reflexivity; exfalso;
                (destruct Hs as [H1 H2]; (discriminate (H1 eq_refl) || (specialize (H2 eq_refl); discriminate))).
           ++ assert (P < 2 * rem) by (apply Hg; right; auto).
              destruct (Z.ltb_spec P (2 * rem)); [|lia]. cbn [orb].
              destruct Hsb as [->| ->]; cbn; [|reflexivity]. destruct Hs as [_ H2]. specialize (H2 eq_refl). discriminate.
        -- destruct (Z.ltb_spec P (2 * rem)) as [C|C]; [exfalso; apply Hg in C; lia|].
           destruct (Z.eqb_spec (2 * rem) P) as [C2|C2]; [exfalso; apply He in C2; lia|]. reflexivity.
    + (* ToNearestAway *)
      destruct (Z.leb_spec 5 rdigit), (Z.leb_spec P (2 * rem)); try reflexivity; exfalso; lia.
    + destruct (Z.leb_spec 5 rdigit), (Z.leb_spec P (2 * rem)); try reflexivity; exfalso; lia.
Qed.

(* ------------------------------------------------------------------ *)
(* list-level facts used by round                                       *)

Ltac pw := match goal with
  | |- 0 < 10 ^ _ => apply pow10_pos; lia
  | |- 10 ^ ?e <> 0 => let H := fresh in assert (H : 0 < 10 ^ e) by (apply pow10_pos; lia); lia
  end.

Lemma u32_small a : 0 <= a < 4294967296 -> u32 a = a.
Proof. intros H. unfold u32. apply Z.mod_small. exact H. Qed.

Lemma lsd_divides_B t : 0 <= t <= 18 -> exists q, B = q * 10 ^ t /\ 0 < q.
Proof.
  intros H. exists (10 ^ (19 - t)). rewrite B_eq. rewrite <- Z.pow_add_r by lia.
  replace (19 - t + t) with 19 by lia. split; [reflexivity|apply pow10_pos; lia].
Qed.

Lemma clear_low_facts l t : l <> [] -> words_ok l = true -> 0 <= t <= 18 ->
  val (clear_low l (10 ^ t)) = val l - val l mod 10 ^ t /\
  words_ok (clear_low l (10 ^ t)) = true /\
  length (clear_low l (10 ^ t)) = length l.
Proof.
  intros Hne Hok Ht. destruct l as [|w r]; [congruence|].
  apply words_ok_cons in Hok as [Hw Hr]. cbn [clear_low val length].
  destruct (lsd_divides_B t Ht) as [q [Hq Hq0]].
  assert (Hl : 0 < 10 ^ t) by (apply pow10_pos; lia).
  assert (Hmod : (w + B * val r) mod 10 ^ t = w mod 10 ^ t).
  { rewrite Hq. replace (w + q * 10 ^ t * val r) with (w + (q * val r) * 10 ^ t) by ring.
    apply Z.mod_add. lia. }
  rewrite Hmod. split; [ring|]. split; [|reflexivity].
  apply words_ok_cons. split; [|exact Hr].
  pose proof (Z.mod_pos_bound w (10 ^ t) Hl). pose proof (Z.mod_le w (10 ^ t) ltac:(lia) Hl). lia.
Qed.

Lemma zlen_length {A} (l : list A) : zlen l = Z.of_nat (length l).
Proof. reflexivity. Qed.

(* cutting the mantissa to n words *)
Lemma cut_facts m n : words_ok m = true -> 1 <= n <= zlen m ->
  let m1 := if n <? zlen m then skipn (Z.to_nat (zlen m - n)) m else m in
  val m1 = val m / 10 ^ (19 * (zlen m - n)) /\ zlen m1 = n /\ words_ok m1 = true /\
  last m1 0 = last m 0 /\ m1 <> [].
Proof.
  intros Hok Hn. cbn zeta. destruct (Z.ltb_spec n (zlen m)) as [Hlt|Hge].
  - assert (Hj : (Z.to_nat (zlen m - n) < length m)%nat) by (unfold zlen in *; lia).
    rewrite val_skipn by assumption. rewrite Z2Nat.id by lia. rewrite pow10_19 by lia.
    rewrite zlen_skipn by lia. rewrite Z2Nat.id by lia.
    split; [reflexivity|]. split; [lia|]. split; [now apply words_ok_skipn|].
    split; [now apply last_skipn|].
    intros E. apply (f_equal (@length Z)) in E. rewrite skipn_length in E. cbn in E. lia.
  - assert (n = zlen m) as -> by lia. rewrite Z.sub_diag, Z.mul_0_r, Z.pow_0_r, Z.div_1_r.
    repeat split; try assumption. intros E. rewrite E in Hn. cbn in Hn. lia.
Qed.

(* a mantissa of n words holding M' * 10^ntz with M' a p-digit number *)
Lemma final_mant_facts F n p ntz M' :
  words_ok F = true -> zlen F = n -> 1 <= n -> 1 <= p -> 0 <= ntz -> 19 * n = p + ntz ->
  val F = M' * 10 ^ ntz -> 10 ^ (p - 1) <= M' < 10 ^ p ->
  F <> [] /\ B / 10 <= last_word F /\ mdigits F = 19 * n /\
  val F mod 10 ^ (mdigits F - p) = 0.
Proof.
  intros Hok Hlen Hn Hp Hntz H19 Hval HM.
  assert (Hne : F <> []) by (intros ->; cbn in Hlen; lia).
  assert (Hmd : mdigits F = 19 * n) by (unfold mdigits; rewrite Hlen; reflexivity).
  split; [exact Hne|]. split; [|split; [exact Hmd|]].
  - pose proof (val_ge_last F Hok Hne) as [_ Hhi]. unfold last_word.
    rewrite Hlen in Hhi. rewrite <- pow10_19 in Hhi by lia.
    assert (Hge : 10 ^ (19 * n - 1) <= val F).
    { rewrite Hval. replace (19 * n - 1) with (p - 1 + ntz) by lia. rewrite Z.pow_add_r by lia.
      assert (0 < 10 ^ ntz) by (apply pow10_pos; lia). nia. }
    replace (19 * n - 1) with (18 + 19 * (n - 1)) in Hge by lia. rewrite Z.pow_add_r in Hge by lia.
    assert (B / 10 = 10 ^ 18) as -> by (rewrite B_eq; reflexivity).
    assert (0 < 10 ^ (19 * (n - 1))) by (apply pow10_pos; lia).
    assert (0 <= last F 0).
    { destruct (exists_last Hne) as [l' [a ->]]. rewrite last_last.
      apply words_ok_app in Hok as [_ Ha]. apply words_ok_cons in Ha as [Ha _]. lia. }
    nia.
  - rewrite Hmd, Hval. replace (19 * n - p) with ntz by lia. apply Z.mod_mul.
    assert (0 < 10 ^ ntz) by (apply pow10_pos; lia). lia.
Qed.

Lemma WF_intro z :
  dform z = Ffinite -> mant z <> [] -> words_ok (mant z) = true -> B / 10 <= last_word (mant z) ->
  1 <= prec z <= MaxPrec -> MinExp <= exp z <= MaxExp ->
  (mdigits (mant z) <= prec z \/ val (mant z) mod 10 ^ (mdigits (mant z) - prec z) = 0) -> WF z.
Proof.
  intros Hf Hne Hok Htop Hp He Ht. unfold WF, wf_b. rewrite Hf, Hok.
  destruct (mant z) eqn:Em; [congruence|]. rewrite <- Em in *.
  repeat (apply andb_true_iff; split); try (apply Z.leb_le; lia); try reflexivity.
  destruct (Z.leb_spec (mdigits (mant z)) (prec z)); [reflexivity|].
  apply Z.eqb_eq. destruct Ht; [lia|assumption].
Qed.

Lemma WF_nonfinite z : dform z <> Ffinite -> 0 <= prec z <= MaxPrec -> WF z.
Proof.
  intros Hf Hp. unfold WF, wf_b. destruct (dform z); try congruence;
    apply andb_true_iff; split; [apply andb_true_iff; split; apply Z.leb_le; lia|reflexivity | apply andb_true_iff; split; apply Z.leb_le; lia|reflexivity].
Qed.

Lemma mant_val_bounds m : m <> [] -> words_ok m = true -> B / 10 <= last_word m ->
  10 ^ (mdigits m - 1) <= val m < 10 ^ mdigits m.
Proof.
  intros Hne Hok Htop.
  pose proof (val_ge_last m Hok Hne) as [Hlo _].
  pose proof (val_bounds m Hok) as [_ Hhi].
  unfold mdigits. pose proof (zlen_nonneg m).
  assert (Hl : 1 <= zlen m).
  { destruct m; [congruence|rewrite zlen_cons; pose proof (zlen_nonneg m); lia]. }
  rewrite Bpow_10 in Hhi by lia. split; [|exact Hhi].
  unfold last_word in Htop. rewrite Bpow_10 in Hlo by lia.
  replace (DW * zlen m - 1) with (18 + DW * (zlen m - 1)) by (cbv [DW]; lia).
  rewrite Z.pow_add_r by (cbv [DW]; lia).
  assert (B / 10 = 10 ^ 18) by (rewrite B_eq; reflexivity).
  assert (0 < 10 ^ (DW * (zlen m - 1))) by (apply pow10_pos; cbv [DW]; lia).
  nia.
Qed.


Record RoundPre (z : Dec) : Prop := {
  rp_form : dform z = Ffinite;
  rp_ne : mant z <> [];
  rp_ok : words_ok (mant z) = true;
  rp_top : B / 10 <= last_word (mant z);
  rp_prec : 1 <= prec z <= MaxPrec;
  rp_exp : MinExp <= exp z <= MaxExp;
  rp_len : mdigits (mant z) < 4294967296 - 18
}.

(* postcondition shared by all callers *)
Definition RoundPost (z : Dec) (v : Q) (z' : Dec) : Prop :=
  result_spec (prec z) (dmode z) (neg z) v z' /\
  prec z' = prec z /\ dmode z' = dmode z /\ WF z'.

Lemma scaled1_pow a : (scaled 1 a == Qpow10 a)%Q.
Proof. unfold scaled. ring. Qed.


(* a finite result with mantissa F = M' * 10^ntz in n words *)
Lemma finite_result (z : Dec) v F e' a M' n ntz :
  1 <= prec z <= MaxPrec -> words_ok F = true -> zlen F = n -> 1 <= n -> 0 <= ntz ->
  19 * n = prec z + ntz -> val F = M' * 10 ^ ntz -> 10 ^ (prec z - 1) <= M' < 10 ^ prec z ->
  MinExp <= e' <= MaxExp -> ~ (v < scaled 1 (MinExp - 1))%Q ->
  Rounds (dmode z) (neg z) (prec z) v (scaled M' (e' - prec z)) ->
  a = acc_of (neg z) (scaled M' (e' - prec z)) v ->
  RoundPost z v (mkDec F e' (prec z) (dmode z) a Ffinite (neg z)).
Proof.
  intros Hp Hok Hlen Hn Hntz H19 Hval HM He' Hnu HR Ha.
  destruct (final_mant_facts F n (prec z) ntz M' Hok Hlen Hn ltac:(lia) Hntz H19 Hval HM) as (Hne & Htop & Hmd & Htail).
  assert (Hmag : (mag (mkDec F e' (prec z) (dmode z) a Ffinite (neg z)) == scaled M' (e' - prec z))%Q).
  { unfold mag. cbn [mant exp]. rewrite Hmd, Hval. rewrite scaled_pow by lia.
    replace (e' - 19 * n + ntz) with (e' - prec z) by lia. reflexivity. }
  unfold RoundPost. split; [|split; [reflexivity|split; [reflexivity|]]].
  - unfold result_spec. cbn [neg]. split; [reflexivity|].
    destruct (Qlt_le_dec v (scaled 1 (MinExp - 1))) as [U|_]; [contradiction|].
    exists (scaled M' (e' - prec z)). split; [exact HR|].
    destruct (Qlt_le_dec (scaled M' (e' - prec z)) (scaled 1 MaxExp)) as [_|O].
    + cbn [dform acc]. split; [reflexivity|]. split; [exact Hmag|exact Ha].
    + exfalso.
      assert (scaled M' (e' - prec z) < scaled 1 e')%Q.
      { apply (scaled_lt_gen _ _ _ _ (e' - prec z)); try lia.
        replace (e' - (e' - prec z)) with (prec z) by lia. rewrite Z.sub_diag, Z.pow_0_r. lia. }
      assert (scaled 1 e' <= scaled 1 MaxExp)%Q by (apply scaled1_le; lia). lra.
  - apply WF_intro; cbn [dform mant prec exp]; try assumption; try reflexivity. right. exact Htail.
Qed.

Lemma sb_facts (s : bool) (c : bool) (low : Z) :
  let sb := (if (b2z s =? 0) && c then (if low =? 0 then 0 else 1) else b2z s) mod 2 in
  (sb = 0 \/ sb = 1) /\
  (sb = 1 <-> (if c then negb (low =? 0) || s else s) = true).
Proof.
  cbn zeta. destruct s, c, (low =? 0); vm_compute; (split; [auto|split; intros; congruence]).
Qed.

Section RoundMain.
  (* t: the mantissa may have been scaled by 10^t after the exact value was
     truncated (dnorm after a division): then the exact value lies within
     10^t units above N and N is a multiple of 10^t *)
  Variables (z : Dec) (s : bool) (v : Q) (t : Z).
  Hypothesis Pre : RoundPre z.
  Let N := val (mant z).
  Let L := mdigits (mant z).
  Let x := exp z - L.
  Let p := prec z.
  Hypothesis Ht : 0 <= t.
  Hypothesis HNt : N mod 10 ^ t = 0.
  Hypothesis Hlo : (scaled N x <= v)%Q.
  Hypothesis Hhi : (v < scaled (N + 10 ^ t) x)%Q.
  Hypothesis Hs0 : s = false -> (v == scaled N x)%Q.
  Hypothesis Hs1 : s = true -> (scaled N x < v)%Q /\ p + t < L.

  Lemma NL : 10 ^ (L - 1) <= N < 10 ^ L.
  Proof. destruct Pre. now apply mant_val_bounds. Qed.
  Lemma L_pos : 19 <= L.
  Proof.
    destruct Pre as [_ Hne _ _ _ _ _]. unfold L, mdigits. destruct (mant z); [congruence|].
    rewrite zlen_cons. pose proof (zlen_nonneg l). cbv [DW]. lia.
  Qed.

  (* v is at least 10^(exp-1): never in the underflow branch *)
  Lemma v_lower : (scaled 1 (exp z - 1) <= v)%Q.
  Proof.
    eapply Qle_trans; [|exact Hlo]. pose proof NL. pose proof L_pos.
    apply (scaled_le_gen _ _ _ _ x); unfold x; try lia.
    replace (exp z - 1 - (exp z - L)) with (L - 1) by lia. rewrite Z.sub_diag, Z.pow_0_r. lia.
  Qed.
  Lemma not_underflow : ~ (v < scaled 1 (MinExp - 1))%Q.
  Proof.
    intros H. pose proof v_lower. destruct Pre.
    assert (scaled 1 (MinExp - 1) <= scaled 1 (exp z - 1))%Q by (apply scaled1_le; lia). lra.
  Qed.

  (* ---- case 1: the mantissa fits ---- *)
  Lemma round_fits : L <= p -> exists z', round z (b2z s) = Some z' /\ RoundPost z v z'.
  Proof.
    intros HLp. destruct Pre as [Hf Hne Hok Htop Hp He Hlen].
    assert (Hs : s = false) by (destruct s; [destruct (Hs1 eq_refl); lia|reflexivity]).
    pose proof (Hs0 Hs) as Hv0.
    exists (with_acc z Exact). split.
    - unfold round. cbn [dform with_acc]. rewrite Hf. cbn [mant with_acc prec].
      pose proof L_pos. fold L in Hlen. unfold L, mdigits in *.
      rewrite (u32_small (zlen (mant z))) by (cbv [DW] in *; lia).
      rewrite u32_small by (cbv [DW] in *; lia).
      destruct (Z.leb_spec (zlen (mant z) * DW) (prec z)); [reflexivity|]. fold p in H0. lia.
    - unfold RoundPost. split; [|split; [reflexivity|split; [reflexivity|]]].
      + unfold result_spec. cbn [neg with_acc]. split; [reflexivity|].
        destruct (Qlt_le_dec v (scaled 1 (MinExp - 1))) as [U|_]; [exfalso; now apply not_underflow|].
        exists (scaled N x). split.
        * unfold Rounds. pose proof NL. pose proof L_pos.
          apply (RoundsDir_ext _ _ (scaled N x) v (scaled N x) (scaled N x));
            [symmetry; exact Hv0|reflexivity|].
          apply (exact_rounds _ p N (p - L) x); try lia.
          -- replace (p - (p - L) - 1) with (L - 1) by lia. replace (p - (p - L)) with L by lia. assumption.
        * destruct (Qlt_le_dec (scaled N x) (scaled 1 MaxExp)) as [_|O].
          -- cbn [dform with_acc acc]. split; [exact Hf|]. split; [reflexivity|].
             unfold acc_of. rewrite (Qeq_cmp (scaled N x) v) by (symmetry; exact Hv0). reflexivity.
          -- exfalso. pose proof NL. pose proof L_pos.
             assert (scaled N x < scaled 1 (exp z))%Q.
             { apply (scaled_lt_gen _ _ _ _ x); unfold x; try lia.
               replace (exp z - (exp z - L)) with L by lia. rewrite Z.sub_diag, Z.pow_0_r. lia. }
             assert (scaled 1 (exp z) <= scaled 1 MaxExp)%Q by (apply scaled1_le; lia). lra.
      + apply WF_intro; cbn [dform mant prec exp with_acc]; try assumption. left. exact HLp.
  Qed.

  (* ---- case 2: the mantissa is too long: round ---- *)
  Lemma round_rounds : p < L -> exists z', round z (b2z s) = Some z' /\ RoundPost z v z'.
  Proof.
    intros HpL. destruct Pre as [Hf Hne Hok Htop Hp He Hlen].
    pose proof NL as HNL. pose proof L_pos as HL19.
    set (len := zlen (mant z)).
    assert (HLlen : L = 19 * len) by (unfold L, mdigits, len; cbv [DW]; lia).
    fold L in Hlen.
    set (n := (p + 18) / 19).
    assert (Hn : 1 <= n <= len) by (unfold n; Z.div_mod_to_equations; lia).
    set (ntz := 19 * n - p).
    assert (Hntz : 0 <= ntz <= 18) by (unfold ntz, n; Z.div_mod_to_equations; lia).
    set (k := L - p). assert (Hk : 1 <= k) by (unfold k; lia).
    assert (Hkj : k = 19 * (len - n) + ntz) by (unfold k, ntz; lia).
    unfold round. cbn [dform with_acc]. rewrite Hf. cbn [mant with_acc prec dmode neg exp].
    fold len p. change (DW - 1) with 18. cbv [DW].
    rewrite (u32_small len) by lia. rewrite (u32_small (len * 19)) by lia.
    rewrite (u32_small (p + 18)) by (unfold p in *; lia). fold n.
    rewrite (u32_small (n * 19)) by lia.
    destruct (Z.leb_spec (len * 19) p) as [C|_]; [lia|].
    replace (len * 19 - p - 1) with (k - 1) by (unfold k; lia).
    replace (n * 19 - p) with ntz by (unfold ntz; lia).
    cbv zeta.
    pose proof (cut_facts (mant z) n Hok Hn) as CF. cbn zeta in CF. fold len in CF.
    remember (if n <? len then skipn (Z.to_nat (len - n)) (mant z) else mant z) as m1 eqn:Em1.
    destruct CF as (Vm1 & Lm1 & Okm1 & _ & Nem1). fold N in Vm1.
    set (P := 10 ^ k). set (M0 := N / P). set (rem := N mod P).
    set (rd := (N / 10 ^ (k - 1)) mod 10). set (low := N mod 10 ^ (k - 1)).
    assert (HN0 : 0 <= N) by (assert (0 < 10 ^ (L - 1)) by (apply pow10_pos; lia); lia).
    assert (HM0 : val m1 / 10 ^ ntz = M0).
    { rewrite Vm1. rewrite Z.div_div by pw.
      rewrite <- Z.pow_add_r by lia. unfold M0, P. f_equal. f_equal. lia. }
    assert (Hdig : dec_digit m1 ntz = M0 mod 10) by (unfold dec_digit; now rewrite HM0).
    rewrite Hdig. unfold dec_digit, dec_sticky. fold N rd low.
    (* the sticky value the code ends up with *)
    pose proof (sb_facts s ((rd =? 0) || mode_eqb (dmode z) ToNearestEven) low) as [Hsb Hsbs].
    cbn zeta in Hsb, Hsbs.
    set (sb := (if (b2z s =? 0) && ((rd =? 0) || mode_eqb (dmode z) ToNearestEven)
                then if low =? 0 then 0 else 1 else b2z s) mod 2) in *.
    destruct (round_inc_eq (dmode z) (neg z) N k s sb HN0 Hk Hsb Hsbs) as [Hguard Hinc].
    cbn zeta in Hguard, Hinc. fold P M0 rem rd low in Hguard, Hinc.
    rewrite Hguard.
    (* the specification side: work in units of 10^te, te = t if sticky else 0 *)
    set (te := if s then t else 0).
    assert (Hte : 0 <= te < k).
    { unfold te. destruct s; [destruct (Hs1 eq_refl); unfold k; lia|lia]. }
    set (T := 10 ^ te). assert (HT : 0 < T) by (apply pow10_pos; lia).
    assert (HNT : N mod T = 0) by (unfold T, te; destruct s; [exact HNt|now rewrite Z.pow_0_r, Z.mod_1_r]).
    set (N2 := N / T).
    assert (EN2 : N = N2 * T) by (unfold N2; rewrite (Z.div_mod N T) at 1 by lia; rewrite HNT; ring).
    set (k2 := k - te). assert (Hk2 : 1 <= k2) by (unfold k2; lia).
    set (x2 := x + te).
    assert (HN2 : 0 <= N2) by (apply Z.div_pos; lia).
    assert (Hlo2 : (scaled N2 x2 <= v)%Q).
    { unfold x2. rewrite <- scaled_pow by lia. fold T. rewrite <- EN2. exact Hlo. }
    assert (Hhi2 : (v < scaled (N2 + 1) x2)%Q).
    { unfold x2. rewrite <- scaled_pow by lia. fold T. replace ((N2 + 1) * T) with (N + T) by (rewrite EN2; ring).
      unfold T, te. destruct s eqn:Es; [exact Hhi|]. rewrite Z.pow_0_r.
      rewrite (Hs0 eq_refl). apply scaled_lt_same. lia. }
    assert (Hs02 : s = false -> (v == scaled N2 x2)%Q).
    { intros E. unfold x2. rewrite <- scaled_pow by lia. fold T. rewrite <- EN2. exact (Hs0 E). }
    assert (Hs12 : s = true -> (scaled N2 x2 < v)%Q).
    { intros E. unfold x2. rewrite <- scaled_pow by lia. fold T. rewrite <- EN2. apply (Hs1 E). }
    assert (HNpk2 : 10 ^ (p + k2 - 1) <= N2 < 10 ^ (p + k2)).
    { assert (EL : L = p + k2 + te) by (unfold k2, k; lia). rewrite EL in HNL.
      replace (p + k2 + te - 1) with (p + k2 - 1 + te) in HNL by lia.
      rewrite (Z.pow_add_r 10 (p + k2 - 1) te), (Z.pow_add_r 10 (p + k2) te) in HNL by lia. fold T in HNL.
      destruct HNL as [HNLa HNLb]. rewrite EN2 in HNLa, HNLb.
      split; [apply (Z.mul_le_mono_pos_r _ _ T HT); exact HNLa|apply (Z.mul_lt_mono_pos_r T _ _ HT); exact HNLb]. }
    pose proof (inc_dec_rounds (dir_of (dmode z) (neg z)) p N2 k2 x2 s v ltac:(lia) Hk2 HNpk2 Hlo2 Hhi2 Hs02 Hs12) as HR.
    pose proof (inc_dec_acc (dir_of (dmode z) (neg z)) p N2 k2 x2 s v ltac:(lia) Hk2 Hlo2 Hhi2 Hs02 Hs12 (neg z)) as HA.
    pose proof (M0_bounds p N2 k2 ltac:(lia) Hk2 HNpk2) as HM0b.
    cbn zeta in HR, HA.
    assert (EP : P = 10 ^ k2 * T) by (unfold P, T, k2; rewrite <- Z.pow_add_r by lia; f_equal; lia).
    assert (EM : N2 / 10 ^ k2 = M0).
    { unfold M0. rewrite EP, EN2. rewrite Z.div_mul_cancel_r by (try lia; pw). reflexivity. }
    assert (Eincs : inc_dec (dir_of (dmode z) (neg z)) (N2 / 10 ^ k2) (N2 mod 10 ^ k2) (10 ^ k2) s =
                   inc_dec (dir_of (dmode z) (neg z)) M0 rem P s).
    { unfold M0, rem. rewrite EP, EN2. symmetry. apply inc_dec_scale; try lia; pw. }
    assert (Erem0 : (N2 mod 10 ^ k2 =? 0) = (rem =? 0)).
    { unfold rem. rewrite EP, EN2. rewrite Z.mul_mod_distr_r by (try lia; pw).
      destruct (Z.eqb_spec (N2 mod 10 ^ k2) 0), (Z.eqb_spec (N2 mod 10 ^ k2 * T) 0); try reflexivity; exfalso; nia. }
    rewrite Eincs, EM in HR. rewrite Eincs, EM, Erem0 in HA. rewrite EM in HM0b. clear Eincs.
    replace (x2 + k2) with (x + k) in HR, HA by (unfold x2, k2; lia).
    clear EM Erem0 EP HNpk2 Hlo2 Hhi2 Hs02 Hs12 EN2 HN2 HNT Hk2 Hte HT.
    clear x2 k2 N2 T te.
    assert (Hxk : x + k = exp z - p) by (unfold x, k; lia). rewrite Hxk in HR, HA.
    pose proof not_underflow as Hnu.
    destruct m1 as [|w1 r1]; [congruence|]. cbv iota.
    set (m1 := w1 :: r1) in *.
    assert (Hlsd : 0 < 10 ^ ntz) by (apply pow10_pos; lia).
    destruct (clear_low_facts m1 ntz Nem1 Okm1 Hntz) as (Vc & Okc & Lc).
    assert (Vc' : val (clear_low m1 (10 ^ ntz)) = M0 * 10 ^ ntz).
    { rewrite Vc. rewrite <- HM0. rewrite (Z.div_mod (val m1) (10 ^ ntz)) at 1 by lia. ring. }
    assert (Lc' : zlen (clear_low m1 (10 ^ ntz)) = n) by (unfold zlen in *; rewrite Lc; exact Lm1).
    destruct ((rem =? 0) && negb s) eqn:Hex; cbn [negb].
    - (* exact: nothing to round *)
      eexists. split; [reflexivity|].
      unfold inc_dec in HR, HA. rewrite Hex in HR, HA. rewrite Z.add_0_r in HR, HA.
      unfold with_mant, with_acc. cbn [mant exp prec dmode acc dform neg]. rewrite Hf.
      apply (finite_result z v _ (exp z) Exact M0 n ntz); fold p; try assumption; try lia.
      symmetry. exact HA.
    - (* inexact *)
      specialize (Hinc eq_refl). rewrite Hinc.
      set (inc := inc_dec (dir_of (dmode z) (neg z)) M0 rem P s) in *.
      unfold with_acc at 1. cbn [neg].
      destruct inc eqn:Einc.
      + (* increment *)
        unfold add10VW_v.
        set (S1 := val m1 + 10 ^ ntz).
        assert (HS1 : S1 = M0 * 10 ^ ntz + val m1 mod 10 ^ ntz + 10 ^ ntz).
        { unfold S1. rewrite (Z.div_mod (val m1) (10 ^ ntz)) at 1 by lia. rewrite HM0. ring. }
        assert (Hmodr : 0 <= val m1 mod 10 ^ ntz < 10 ^ ntz) by (apply Z.mod_pos_bound; lia).
        assert (HBn : B ^ zlen m1 = 10 ^ p * 10 ^ ntz).
        { rewrite Lm1. rewrite <- pow10_19 by lia. rewrite <- Z.pow_add_r by lia. f_equal. unfold ntz. lia. }
        rewrite HBn.
        assert (Hlenm1 : length m1 = Z.to_nat n) by (unfold zlen in Lm1; lia).
        destruct (Z.eqb_spec (S1 / (10 ^ p * 10 ^ ntz)) 0) as [Hc0|Hc1]; cbn [negb].
        * (* no carry *)
          assert (HS1lt : S1 < 10 ^ p * 10 ^ ntz).
          { assert (0 < 10 ^ p * 10 ^ ntz) by (assert (0 < 10 ^ p) by (apply pow10_pos; lia); nia).
            apply Z.div_small_iff in Hc0; [|lia]. destruct Hc0 as [?|?]; lia. }
          assert (HS1nn : 0 <= S1) by nia.
          set (m2 := to_words (length m1) S1).
          assert (Vm2 : val m2 = S1).
          { unfold m2. apply val_to_words_small. split; [lia|]. fold (zlen m1). rewrite HBn. exact HS1lt. }
          assert (Okm2 : words_ok m2 = true) by apply words_ok_to_words.
          assert (Nem2 : m2 <> []).
          { intros E. apply (f_equal (@length Z)) in E. unfold m2 in E. rewrite length_to_words in E.
            cbn [length] in E. lia. }
          destruct (clear_low_facts m2 ntz Nem2 Okm2 Hntz) as (Vc2 & Okc2 & Lc2).
          eexists. split; [reflexivity|].
          unfold with_mant, with_acc. cbn [mant exp prec dmode acc dform neg]. rewrite Hf.
          apply (finite_result z v _ (exp z) _ (M0 + 1) n ntz); fold p; try assumption; try lia.
          -- unfold zlen. rewrite Lc2. unfold m2. rewrite length_to_words. unfold zlen in Lm1. exact Lm1.
          -- rewrite Vc2, Vm2, HS1.
             replace (M0 * 10 ^ ntz + val m1 mod 10 ^ ntz + 10 ^ ntz) with (val m1 mod 10 ^ ntz + (M0 + 1) * 10 ^ ntz) by ring.
             rewrite Z.mod_add by lia. rewrite Z.mod_mod by lia. ring.
          -- (* M0 + 1 < 10^p *) split; [lia|].
             destruct (Z.eq_dec (M0 + 1) (10 ^ p)) as [E|E]; [|lia]. exfalso.
             rewrite HS1 in HS1lt. nia.
          -- rewrite HA. reflexivity.
        * (* carry out of the mantissa: it was all nines *)
          assert (HM0max : M0 + 1 = 10 ^ p).
          { destruct (Z.eq_dec (M0 + 1) (10 ^ p)) as [E|E]; [exact E|]. exfalso. apply Hc1.
            apply Z.div_small. split; [nia|]. rewrite HS1. nia. }
          assert (HS1c : S1 = 10 ^ p * 10 ^ ntz + val m1 mod 10 ^ ntz) by (rewrite HS1; nia).
          destruct (Z.leb_spec MaxExp (exp z)) as [Hov|Hnov].
          -- (* exponent overflow: infinity *)
             eexists. split; [reflexivity|].
             unfold RoundPost. unfold with_form, with_mant, with_acc. cbn [mant exp prec dmode acc dform neg].
             split; [|split; [reflexivity|split; [reflexivity|]]].
             ++ unfold result_spec. cbn [neg]. split; [reflexivity|].
                destruct (Qlt_le_dec v (scaled 1 (MinExp - 1))) as [U|_]; [contradiction|].
                exists (scaled (M0 + 1) (exp z - p)). split; [exact HR|].
                destruct (Qlt_le_dec (scaled (M0 + 1) (exp z - p)) (scaled 1 MaxExp)) as [O|_].
                ** exfalso. rewrite HM0max in O.
                   assert (Hee : exp z = MaxExp) by lia.
                   apply (scaled_lt_gen _ _ _ _ (exp z - p)) in O; try lia.
                   rewrite Z.sub_diag, Z.pow_0_r in O. replace (MaxExp - (exp z - p)) with p in O by lia. lia.
                ** cbn [dform acc]. split; [reflexivity|]. destruct (neg z); reflexivity.
             ++ apply WF_nonfinite; cbn [dform prec]; [discriminate|lia].
          -- (* exponent + 1, mantissa 10^(19n-1) *)
             set (m2 := to_words (length m1) S1).
             set (m3 := set_nth m2 (Z.to_nat (n - 1)) (B / 10)).
             assert (Hm3 : clear_low m3 (10 ^ ntz) = repeat 0 (Z.to_nat (n - 1)) ++ [B / 10]).
             { unfold m3, m2. rewrite Hlenm1.
               assert (Hw0 : 0 <= val m1 mod 10 ^ ntz < B).
               { destruct (lsd_divides_B ntz Hntz) as [q [Hq Hq0]]. split; [lia|]. nia. }
               destruct (Z.to_nat n) as [|n'] eqn:En; [lia|].
               replace (Z.to_nat (n - 1)) with n' by lia.
               assert (HS1B : B ^ Z.of_nat (S n') = 10 ^ p * 10 ^ ntz).
               { rewrite <- HBn. f_equal. unfold zlen. lia. }
               change (to_words (S n') S1) with (S1 mod B :: to_words n' (S1 / B)).
               assert (Hmod0 : S1 mod B = val m1 mod 10 ^ ntz).
               { rewrite HS1c, <- HS1B. rewrite Nat2Z.inj_succ, Z.pow_succ_r by lia.
                 replace (B * B ^ Z.of_nat n' + val m1 mod 10 ^ ntz) with (val m1 mod 10 ^ ntz + B ^ Z.of_nat n' * B) by ring.
                 rewrite Z.mod_add by (pose proof B_pos; lia). apply Z.mod_small. exact Hw0. }
               assert (Hdiv0 : S1 / B = B ^ Z.of_nat n').
               { rewrite HS1c, <- HS1B. rewrite Nat2Z.inj_succ, Z.pow_succ_r by lia.
                 replace (B * B ^ Z.of_nat n' + val m1 mod 10 ^ ntz) with (val m1 mod 10 ^ ntz + B ^ Z.of_nat n' * B) by ring.
                 rewrite Z.div_add by (pose proof B_pos; lia). rewrite Z.div_small by exact Hw0. lia. }
               rewrite Hmod0, Hdiv0.
               destruct n' as [|n''].
               - cbn [to_words set_nth clear_low repeat app].
                 f_equal. destruct (lsd_divides_B ntz Hntz) as [q [Hq Hq0]].
                 assert (B / 10 = 10 ^ (18 - ntz) * 10 ^ ntz) as ->.
                 { rewrite <- Z.pow_add_r by lia. replace (18 - ntz + ntz) with 18 by lia. rewrite B_eq. reflexivity. }
                 rewrite Z.mod_mul by lia. lia.
               - (* at least two words: [low; 0...; 1] -> [0; ...; B/10] *)
                 assert (Htw : forall j, to_words j (B ^ Z.of_nat j) = repeat 0 j).
                 { induction j as [|j IHj]; [reflexivity|].
                   change (to_words (S j) (B ^ Z.of_nat (S j))) with
                       ((B ^ Z.of_nat (S j)) mod B :: to_words j (B ^ Z.of_nat (S j) / B)).
                   rewrite Nat2Z.inj_succ, Z.pow_succ_r by lia. pose proof B_pos.
                   rewrite Z.mul_comm, Z.mod_mul, Z.div_mul by lia. rewrite IHj. reflexivity. }
                 rewrite Htw.
                 assert (Hset : forall j a, set_nth (repeat 0 (S j)) j a = repeat 0 j ++ [a]).
                 { induction j as [|j IHj]; intros a; [reflexivity|].
                   change (repeat 0 (S (S j))) with (0 :: repeat 0 (S j)).
                   change (set_nth (0 :: repeat 0 (S j)) (S j) a) with (0 :: set_nth (repeat 0 (S j)) j a).
                   rewrite IHj. reflexivity. }
                 cbn [set_nth]. rewrite Hset. cbn [clear_low].
                 rewrite (Z.mod_small (val m1 mod 10 ^ ntz) (10 ^ ntz)) by exact Hmodr.
                 rewrite Z.sub_diag. reflexivity. }
             eexists. split; [reflexivity|].
             unfold with_mant, with_exp, with_acc. cbn [mant exp prec dmode acc dform neg]. rewrite Hf.
             fold m2 m3. rewrite Hm3.
             set (F := repeat 0 (Z.to_nat (n - 1)) ++ [B / 10]).
             assert (VF : val F = 10 ^ (p - 1) * 10 ^ ntz).
             { unfold F. rewrite val_app, val_repeat0. cbn [val]. unfold zlen. rewrite repeat_length.
               rewrite Z2Nat.id by lia. rewrite <- pow10_19 by lia.
               assert (B / 10 = 10 ^ 18) as -> by (rewrite B_eq; reflexivity).
               rewrite Z.mul_0_r, Z.add_0_r, Z.add_0_l. rewrite <- !Z.pow_add_r by lia. f_equal. unfold ntz. lia. }
             assert (OkF : words_ok F = true).
             { unfold F. apply words_ok_app. split.
               - unfold words_ok. apply forallb_forall. intros y Hy. apply repeat_spec in Hy. subst y. reflexivity.
               - rewrite B_eq. reflexivity. }
             assert (LF : zlen F = n).
             { unfold F. rewrite zlen_app. unfold zlen. rewrite repeat_length. cbn [length]. lia. }
             apply (finite_result z v F (exp z + 1) _ (10 ^ (p - 1)) n ntz); fold p; try assumption; try lia.
             ++ unfold Rounds. apply (RoundsDir_ext _ _ v v (scaled (M0 + 1) (exp z - p)) _); [reflexivity| |exact HR].
                rewrite HM0max. apply (scaled_eq_gen _ _ _ _ (exp z - p)); try lia.
                rewrite Z.sub_diag, Z.pow_0_r. replace (exp z + 1 - p - (exp z - p)) with 1 by lia.
                replace p with (p - 1 + 1) at 1 by lia. rewrite Z.pow_add_r by lia. ring.
             ++ rewrite <- HA. apply acc_of_ext; [|reflexivity].
                rewrite HM0max. apply (scaled_eq_gen _ _ _ _ (exp z - p)); try lia.
                rewrite Z.sub_diag, Z.pow_0_r. replace (exp z + 1 - p - (exp z - p)) with 1 by lia.
                replace p with (p - 1 + 1) at 1 by lia. rewrite Z.pow_add_r by lia. ring.
      + (* truncate *)
        eexists. split; [reflexivity|].
        rewrite Z.add_0_r in HR, HA.
        unfold with_mant, with_acc. cbn [mant exp prec dmode acc dform neg]. rewrite Hf.
        apply (finite_result z v _ (exp z) _ M0 n ntz); fold p; try assumption; try lia.
        rewrite HA. reflexivity.
  Qed.

  Theorem round_correct_sec : exists z', round z (b2z s) = Some z' /\ RoundPost z v z'.
  Proof.
    destruct (Z.le_gt_cases L p) as [H|H]; [now apply round_fits|apply round_rounds; lia].
  Qed.
End RoundMain.

(* The shared lemma: for a normalised finite z whose mantissa integer N and
   sticky flag s bracket the exact magnitude v (v = N units if s = false,
   N < v < N + 10^t units if s = true, N a multiple of 10^t, one unit =
   10^(exp - digits)), round returns the result prescribed by the
   specification and a canonical Decimal. *)
Theorem round_correct_gen z (s : bool) v t :
  RoundPre z -> 0 <= t ->
  let N := val (mant z) in let x := exp z - mdigits (mant z) in
  N mod 10 ^ t = 0 ->
  (scaled N x <= v)%Q -> (v < scaled (N + 10 ^ t) x)%Q ->
  (s = false -> (v == scaled N x)%Q) ->
  (s = true -> (scaled N x < v)%Q /\ prec z + t < mdigits (mant z)) ->
  exists z', round z (b2z s) = Some z' /\ RoundPost z v z'.
Proof. intros. now apply (round_correct_sec z s v t). Qed.

Theorem round_correct z (s : bool) v :
  RoundPre z ->
  let N := val (mant z) in let x := exp z - mdigits (mant z) in
  (scaled N x <= v)%Q -> (v < scaled (N + 1) x)%Q ->
  (s = false -> (v == scaled N x)%Q) ->
  (s = true -> (scaled N x < v)%Q /\ prec z < mdigits (mant z)) ->
  exists z', round z (b2z s) = Some z' /\ RoundPost z v z'.
Proof.
  intros Pre N x Hlo Hhi Hs0 Hs1. apply (round_correct_gen z s v 0); try assumption; try lia.
  - apply Z.mod_1_r.
  - intros E. destruct (Hs1 E). split; [assumption|]. rewrite Z.add_0_r. assumption.
Qed.
