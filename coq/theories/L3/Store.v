(* L3/Store.v — programs over a store of Decimal variables: the object the
   correspondence check executes on both sides. Variables are indices into a
   list; every operation names its receiver and operands by index, so all
   aliasing shapes of the Go API are expressible. *)
From Dec Require Export L3.Decimal L3.Cmp L3.Round L3.Arith L3.Convert L4.Gob.
Open Scope Z_scope.

Definition store := list Dec.

Definition get (s : store) (i : nat) : Dec := nth i s dec_zero.
Fixpoint set (s : store) (i : nat) (d : Dec) : store :=
  match s, i with
  | [], _ => []
  | _ :: r, O => d :: r
  | x :: r, S i' => x :: set r i' d
  end.

Inductive outcome := Ok | NaN | Crash.

(* observable results of an operation: integers (booleans as 0/1, accuracies
   as -1/0/1) and byte strings *)
Record result := mkRes { r_out : outcome; r_ints : list Z; r_bytes : list (list Z) }.
Definition res_ok (ints : list Z) : result := mkRes Ok ints [].
Definition res_none : result := mkRes Ok [] [].


Inductive op :=
| OCmp (x y : nat)
| OSign (x : nat)
| OSignbit (x : nat)
| OIsZero (x : nat)
| OIsInf (x : nat)
| OAdd (z x y : nat)
| OSub (z x y : nat)
| OMul (z x y : nat)
| OQuo (z x y : nat)
| OFMA (z x y u : nat)
| OSet (z x : nat)
| ONeg (z x : nat)
| OAbs (z x : nat)
| OCopy (z x : nat)
| OSetPrec (z : nat) (p : Z)
| OSetMode (z : nat) (m : mode)
| OSetInf (z : nat) (sb : bool)
| OSetInt64 (z : nat) (x : Z)
| OSetUint64 (z : nat) (x : Z)
| OSetInt (z : nat) (x : Z)
| OSetRat (z : nat) (num den : Z)
| ONewDecimal (z : nat) (x e : Z)
| OSetMantExp (z m : nat) (e : Z)
| OMantExp (x : nat) (m : option nat)
| OSetBitsExp (z : nat) (e : Z) (ws : list Z)
| OBitsExp (x : nat)
| OMinPrec (x : nat)
| OIsInt (x : nat)
| OInt64 (x : nat)
| OUint64 (x : nat)
| OInt (x : nat)
| ORat (x : nat)
| OGobEncode (x : nat)
| OGobDecode (z : nat) (buf : list Z)
| OGobRoundTrip (z x : nat).

(* write the receiver back *)
Definition put (s : store) (z : nat) (r : ores) : store * result :=
  match r with
  | OkR d => (set s z d, res_none)
  | NaNR d => (set s z d, mkRes NaN [] [])
  | CrashR => (s, mkRes Crash [] [])
  end.

Definition step (s : store) (o : op) : store * result :=
  match o with
  | OCmp x y => (s, res_ok [Cmp (get s x) (get s y)])
  | OSign x => (s, res_ok [Sign (get s x)])
  | OSignbit x => (s, res_ok [b2z (Signbit (get s x))])
  | OIsZero x => (s, res_ok [b2z (IsZero (get s x))])
  | OIsInf x => (s, res_ok [b2z (IsInf (get s x))])
  | OAdd z x y => put s z (Add (Nat.eqb z x) (Nat.eqb z y) (get s z) (get s x) (get s y))
  | OSub z x y => put s z (Sub (Nat.eqb z x) (Nat.eqb z y) (get s z) (get s x) (get s y))
  | OMul z x y => put s z (Mul (get s z) (get s x) (get s y))
  | OQuo z x y => put s z (Quo (get s z) (get s x) (get s y))
  | OFMA z x y u => put s z (FMA (Nat.eqb z u) (get s z) (get s x) (get s y) (get s u))
  | OSet z x => put s z (Set_ (Nat.eqb z x) (get s z) (get s x))
  | ONeg z x => put s z (Neg_ (Nat.eqb z x) (get s z) (get s x))
  | OAbs z x => put s z (Abs_ (Nat.eqb z x) (get s z) (get s x))
  | OCopy z x => put s z (Copy (Nat.eqb z x) (get s z) (get s x))
  | OSetPrec z p => put s z (SetPrec (get s z) p)
  | OSetMode z m => put s z (SetMode (get s z) m)
  | OSetInf z sb => put s z (SetInf (get s z) sb)
  | OSetInt64 z x => put s z (SetInt64 (get s z) x)
  | OSetUint64 z x => put s z (SetUint64 (get s z) x)
  | OSetInt z x => put s z (SetInt (get s z) x)
  | OSetRat z n d => put s z (SetRat (get s z) n d)
  | ONewDecimal z x e => put s z (NewDecimal x e)
  | OSetMantExp z m e => put s z (SetMantExp (Nat.eqb z m) (get s z) (get s m) e)
  | OMantExp x None => (s, res_ok [MantExp_exp (get s x)])
  | OMantExp x (Some m) =>
      let e := MantExp_exp (get s x) in
      match MantExp_mant (Nat.eqb m x) (get s m) (get s x) with
      | OkR d => (set s m d, res_ok [e])
      | _ => (s, mkRes Crash [] [])
      end
  | OSetBitsExp z e ws => put s z (SetBitsExp (get s z) ws e)
  | OBitsExp x =>
      let d := get s x in
      (s, res_ok (match dform d with Ffinite => exp d | _ => 0 end :: zlen (BitsExp_mant d) :: BitsExp_mant d))
  | OMinPrec x => (s, res_ok [MinPrec (get s x)])
  | OIsInt x => (s, res_ok [b2z (IsInt (get s x))])
  | OInt64 x => let '(v, a) := Int64 (get s x) in (s, res_ok [v; acc_num a])
  | OUint64 x => let '(v, a) := Uint64 (get s x) in (s, res_ok [v; acc_num a])
  | OInt x =>
      match Int (get s x) with
      | (Some v, a) => (s, res_ok [1; v; acc_num a])
      | (None, a) => (s, res_ok [0; 0; acc_num a])
      end
  | ORat x =>
      match Rat (get s x) with
      | (Some (n, d), a) => (s, res_ok [1; n; d; acc_num a])
      | (None, a) => (s, res_ok [0; 0; 1; acc_num a])
      end
  | OGobEncode x => (s, mkRes Ok [] [GobEncode (get s x)])
  | OGobDecode z buf =>
      match GobDecode (get s z) buf with
      | GobOk d => (set s z d, res_ok [0])
      | GobErr d => (set s z d, res_ok [1])
      | GobCrash => (s, mkRes Crash [] [])
      end
  | OGobRoundTrip z x =>
      match GobDecode (get s z) (GobEncode (get s x)) with
      | GobOk d => (set s z d, res_ok [0])
      | GobErr d => (set s z d, res_ok [1])
      | GobCrash => (s, mkRes Crash [] [])
      end
  end.

(* run a program, collecting the result and store after every step; stops at
   the first Crash *)
Fixpoint run (s : store) (p : list op) : list (result * store) :=
  match p with
  | [] => []
  | o :: p' =>
      let '(s', r) := step s o in
      match r_out r with
      | Crash => [(r, s')]
      | _ => (r, s') :: run s' p'
      end
  end.

(* ---- canonical comparison of observations (used by the in-kernel sample) ---- *)
Fixpoint list_eqb {A} (eqb : A -> A -> bool) (l r : list A) : bool :=
  match l, r with
  | [], [] => true
  | a :: l', b :: r' => eqb a b && list_eqb eqb l' r'
  | _, _ => false
  end.

Definition outcome_eqb (a b : outcome) : bool :=
  match a, b with Ok, Ok | NaN, NaN | Crash, Crash => true | _, _ => false end.

(* zero and infinite values carry only sign and attributes; finite values are
   compared up to low zero words *)
Definition dec_obs_eqb (a b : Dec) : bool :=
  form_eqb (dform a) (dform b) && Bool.eqb (neg a) (neg b) && (prec a =? prec b) &&
  mode_eqb (dmode a) (dmode b) && acc_eqb (acc a) (acc b) &&
  match dform a with
  | Ffinite => (exp a =? exp b) && list_eqb Z.eqb (strip_low (mant a)) (strip_low (mant b))
  | _ => true
  end.

Definition result_eqb (a b : result) : bool :=
  outcome_eqb (r_out a) (r_out b) && list_eqb Z.eqb (r_ints a) (r_ints b) &&
  list_eqb (list_eqb Z.eqb) (r_bytes a) (r_bytes b).

Definition obs_eqb (a b : result * store) : bool :=
  result_eqb (fst a) (fst b) && list_eqb dec_obs_eqb (snd a) (snd b).

(* a case: initial store, program, observations of the implementation *)
Definition case := (store * list op * list (result * store))%type.
Definition case_ok (c : case) : bool :=
  let '(s, p, o) := c in list_eqb obs_eqb (run s p) o.
Fixpoint mismatches_from (i : nat) (cs : list case) : list nat :=
  match cs with
  | [] => []
  | c :: r => if case_ok c then mismatches_from (S i) r else i :: mismatches_from (S i) r
  end.
Definition mismatches (cs : list case) : list nat := mismatches_from 0 cs.
