(* L3/Float.v — models of the binary floating-point conversions of decimal.go:
   SetFloat64, SetFloat, Float, Float64, Float32 (and pow2 of decimal_conv.go,
   floatPow5 of stdlib.go).  Definitions only.

   float64 arguments are bit patterns; a *big.Float is the record BF below
   (value bman * 2^bexp).  Every math/big.Float method used by the library is
   modelled with the structure of its source (float.go of Go 1.23: SetPrec,
   SetMode, SetInt, SetUint64, SetInf, Neg, SetMantExp, Mul, Quo, round,
   setExpAndRound, Float64, Float32) on the assumption, named in C15, that
   umul/uquo/round return the exact result rounded once (Bin.rnd_pos). *)
From Coq Require Import ZArith Bool List Lia.
From Dec Require Export L3.Arith L3.Convert L3.Bin.
From Dec Require L4.Scan gen.Tables.
Open Scope Z_scope.

Definition bindR (r : ores) (f : Dec -> ores) : ores :=
  match r with OkR z => f z | NaNR z => NaNR z | CrashR => CrashR end.
(* a temporary is computed while the receiver is in state z *)
Definition bindT (z : Dec) (r : ores) (f : Dec -> ores) : ores :=
  match r with OkR t => f t | NaNR _ => NaNR z | CrashR => CrashR end.

(* decimal_conv.go: (z *Decimal).pow2(n) — modelled in L4/Scan.v (loop,
   precisions and the early break included); the same definition is used here *)
Definition pow2 : Dec -> Z -> ores := Scan.pow2.

(* "multiply / divide by 2**exp with increased precision" *)
Definition prec_extra (z : Dec) : Z := if prec z <? MaxPrec then 1 else 0.
Definition apply_pow2 (z : Dec) (exp2 : Z) : ores :=
  let extra := prec_extra z in
  let z := with_prec z (u32 (prec z + extra)) in                     (* z.prec += extra (uint32) *)
  bindT z (SetPrec dec_zero (prec z)) (fun t =>
  bindR (if exp2 <? 0 then bindT z (pow2 t (u64 (- exp2))) (fun pw => Quo z z pw)
         else bindT z (pow2 t (u64 exp2)) (fun pw => Mul z z pw)) (fun z =>
  OkR (with_prec z (u32 (prec z - extra))))).                        (* z.prec -= extra *)

(* SetFloat64(x) *)
Definition SetFloat64_fl (z : Dec) (x : fl) : ores :=
  let z := if prec z =? 0 then with_prec z 17 else z in
  match x with
  | FlNaN => NaNR z
  | FlZero s => OkR (with_form (with_neg (with_acc z Exact) s) Fzero)
  | FlInf s => OkR (with_form (with_neg (with_acc z Exact) s) Finf)
  | FlFin s m e =>
      let z := with_form (with_neg (with_acc z Exact) s) Ffinite in
      let '(M, exp2) := fl_frexp_int binary64 m e in                 (* Frexp; exp2 -= 53 *)
      match dnorm (of_Z M) with
      | None => CrashR
      | Some (m', sh) =>
          let z := with_exp (with_mant z m') (i32 (zlen m' * DW - sh)) in
          bindR (if exp2 =? 0 then OkR z else apply_pow2 z exp2) (fun z => of_opt (round z 0))
      end
  end.
(* x given by its bit pattern *)
Definition SetFloat64 (z : Dec) (bits : Z) : ores := SetFloat64_fl z (fl_of_bits binary64 bits).

(* ------------------------------------------------------------------ *)
(* math/big.Float *)

Record BF := mkBF { bprec : Z; bmode : mode; bacc : accuracy; bform : form; bneg : bool;
                    bman : Z; bexp : Z }.       (* finite: bman * 2^bexp, bman > 0 *)
Definition bf_new : BF := mkBF 0 ToNearestEven Exact Fzero false 0 0.
Definition BMaxExp : Z := 2147483647.
Definition BMinExp : Z := -2147483648.
Definition BMaxPrec : Z := 4294967295.

Definition bf_with_prec z p := mkBF p (bmode z) (bacc z) (bform z) (bneg z) (bman z) (bexp z).
Definition bf_with_mode z m := mkBF (bprec z) m (bacc z) (bform z) (bneg z) (bman z) (bexp z).
Definition bf_with_acc z a := mkBF (bprec z) (bmode z) a (bform z) (bneg z) (bman z) (bexp z).
Definition bf_with_form z f := mkBF (bprec z) (bmode z) (bacc z) f (bneg z) (bman z) (bexp z).
Definition bf_with_neg z n := mkBF (bprec z) (bmode z) (bacc z) (bform z) n (bman z) (bexp z).
Definition bf_with_val z m e := mkBF (bprec z) (bmode z) (bacc z) (bform z) (bneg z) m e.

Definition bitlen (n : Z) : Z := if n =? 0 then 0 else Z.log2 n + 1.
Fixpoint pos_ctz (p : positive) : Z := match p with xO p' => 1 + pos_ctz p' | _ => 0 end.
Definition ctz (n : Z) : Z := match n with Zpos p => pos_ctz p | _ => 0 end.

(* the exponent field of a finite value: |z| = 0.1xxx * 2^bf_E *)
Definition bf_E (z : BF) : Z := bexp z + bitlen (bman z).

Definition acc_of_c (c : Z) (ng : bool) : accuracy :=
  if c =? 0 then Exact else makeAcc (xorb (0 <? c) ng).

(* z := (n/d) * 2^k > 0 rounded once to z's precision and mode, with the
   exponent-range checks of setExpAndRound and round (z.neg already set) *)
Definition bf_set (z : BF) (n d k : Z) : BF :=
  let E := qlog2 n d + 1 + k in
  if E <? BMinExp then bf_with_form (bf_with_acc z (makeAcc (bneg z))) Fzero
  else if BMaxExp <? E then bf_with_form (bf_with_acc z (makeAcc (negb (bneg z)))) Finf
  else
    let '(m, e, c) := rnd_pos (bprec z) (bmode z) (bneg z) n d in
    let z := bf_with_acc z (acc_of_c c (bneg z)) in
    if BMaxExp <? e + k + bprec z then bf_with_form z Finf
    else bf_with_val (bf_with_form z Ffinite) m (e + k).

(* (z *Float).round(0) *)
Definition bf_round (z : BF) : BF :=
  let z := bf_with_acc z Exact in
  match bform z with
  | Ffinite => if bitlen (bman z) <=? bprec z then z else bf_set z (bman z) 1 (bexp z)
  | _ => z
  end.

(* setExpAndRound(exp, 0) on a finite mantissa *)
Definition bf_setExpAndRound (z : BF) (E : Z) : BF :=
  if E <? BMinExp then bf_with_form (bf_with_acc z (makeAcc (bneg z))) Fzero
  else if BMaxExp <? E then bf_with_form (bf_with_acc z (makeAcc (negb (bneg z)))) Finf
  else bf_round (bf_with_val (bf_with_form z Ffinite) (bman z) (E - bitlen (bman z))).

Definition bf_SetPrec (z : BF) (p : Z) : BF :=
  let z := bf_with_acc z Exact in
  if p =? 0 then
    let z := bf_with_prec z 0 in
    match bform z with
    | Ffinite => bf_with_form (bf_with_acc z (makeAcc (bneg z))) Fzero
    | _ => z
    end
  else
    let p := if BMaxPrec <? p then BMaxPrec else p in
    let old := bprec z in
    let z := bf_with_prec z p in
    if p <? old then bf_round z else z.

Definition bf_SetMode (z : BF) (m : mode) : BF := bf_with_acc (bf_with_mode z m) Exact.
Definition bf_SetInf (z : BF) (sb : bool) : BF := bf_with_neg (bf_with_form (bf_with_acc z Exact) Finf) sb.
(* z.Neg(z), z.SetMantExp(z, e): Set(z) on itself only resets the accuracy *)
Definition bf_Neg (z : BF) : BF := let z := bf_with_acc z Exact in bf_with_neg z (negb (bneg z)).
Definition bf_SetMantExp (z : BF) (e : Z) : BF :=
  let z := bf_with_acc z Exact in
  match bform z with
  | Ffinite => bf_setExpAndRound z (bf_E z + e)
  | _ => z
  end.

Definition bf_SetInt (z : BF) (x : Z) : BF :=
  let bits := u32 (bitlen (Z.abs x)) in
  let z := if bprec z =? 0 then bf_with_prec z (umax32 bits 64) else z in
  let z := bf_with_neg (bf_with_acc z Exact) (x <? 0) in
  if x =? 0 then bf_with_form z Fzero
  else bf_setExpAndRound (bf_with_val z (Z.abs x) 0) bits.

Definition bf_SetUint64 (z : BF) (x : Z) : BF :=
  let z := if bprec z =? 0 then bf_with_prec z 64 else z in
  let z := bf_with_neg (bf_with_acc z Exact) false in
  if x =? 0 then bf_with_form z Fzero
  else
    let z := bf_with_val (bf_with_form z Ffinite) x 0 in
    if bprec z <? 64 then bf_round z else z.

(* None = panic(big.ErrNaN) *)
Definition bf_Mul (z x y : BF) : option BF :=
  let z := if bprec z =? 0 then bf_with_prec z (umax32 (bprec x) (bprec y)) else z in
  let z := bf_with_neg z (xorb (bneg x) (bneg y)) in
  match bform x, bform y with
  | Ffinite, Ffinite => Some (bf_set z (bman x * bman y) 1 (bexp x + bexp y))
  | Fzero, Finf | Finf, Fzero => None
  | Finf, _ | _, Finf => Some (bf_with_form (bf_with_acc z Exact) Finf)
  | _, _ => Some (bf_with_form (bf_with_acc z Exact) Fzero)
  end.

Definition bf_Quo (z x y : BF) : option BF :=
  let z := if bprec z =? 0 then bf_with_prec z (umax32 (bprec x) (bprec y)) else z in
  let z := bf_with_neg z (xorb (bneg x) (bneg y)) in
  match bform x, bform y with
  | Ffinite, Ffinite => Some (bf_set z (bman x) (bman y) (bexp x - bexp y))
  | Fzero, Fzero | Finf, Finf => None
  | Fzero, _ | _, Finf => Some (bf_with_form (bf_with_acc z Exact) Fzero)
  | _, _ => Some (bf_with_form (bf_with_acc z Exact) Finf)
  end.

(* (x *Float).Float64() / Float32(): nearest even in the format, with
   subnormals, underflow to ±0 and overflow to ±Inf; accuracy = sign of
   (returned - x) *)
Definition bf_to_fl (f : fmt) (x : BF) : fl * accuracy :=
  match bform x with
  | Fzero => (FlZero (bneg x), Exact)
  | Finf => (FlInf (bneg x), Exact)
  | Ffinite =>
      let '(n, d) := frac_of (bman x) (bexp x) 1 0 in
      let '(r, c) := fl_round_c f (bneg x) n d in
      (r, acc_of_c c (bneg x))
  end.

(* odd mantissa / matching exponent: the canonical observation of a big.Float *)
Definition bf_canon (z : BF) : BF :=
  match bform z with
  | Ffinite => let t := ctz (bman z) in bf_with_val z (bman z / 2 ^ t) (bexp z + t)
  | _ => bf_with_val z 0 0
  end.

(* ------------------------------------------------------------------ *)
(* stdlib.go: floatPow5 *)

Definition obf_bind (o : option BF) (f : BF -> option BF) : option BF :=
  match o with Some z => f z | None => None end.

Fixpoint floatPow5_loop (fuel : nat) (z f : BF) (n : Z) : option BF :=
  match fuel with
  | O => Some z
  | S k =>
      if n <=? 0 then Some z
      else
        obf_bind (if Z.odd n then bf_Mul z z f else Some z) (fun z' =>
        obf_bind (bf_Mul f f f) (fun f' => floatPow5_loop k z' f' (n / 2)))
  end.

Definition pow5_m : Z := zlen Tables.pow5tab - 1.
Definition floatPow5 (z : BF) (n : Z) : option BF :=
  if n <=? pow5_m then Some (bf_SetUint64 z (nth (Z.to_nat n) Tables.pow5tab 0))
  else
    let z := bf_SetUint64 z (nth (Z.to_nat pow5_m) Tables.pow5tab 0) in
    let f := bf_SetUint64 (bf_SetPrec bf_new (bprec z + 64)) 5 in
    floatPow5_loop 64 z f (n - pow5_m).

(* ------------------------------------------------------------------ *)
(* constants math.Ln10/math.Ln2 and math.Ln2/math.Ln10 as float64 *)
Definition f64_log2_10 : fl := FlFin false 7480317065143153 (-51).
Definition f64_log10_2 : fl := FlFin false 5422874305198591 (-54).
(* math.Ceil(float64(n) * c) *)
Definition ceil_mul_f64 (n : Z) (c : fl) : Z := fl_ceil_Z (b64_mul (b64_of_Z n) c).

(* SetFloat(x *big.Float) *)
Definition SetFloat (z : Dec) (x : BF) : ores :=
  let z := if prec z =? 0 then with_prec z (u32 (ceil_mul_f64 (bprec x) f64_log10_2)) else z in
  let z := with_neg (with_acc z Exact) (bneg x) in
  match bform x with
  | Finf => OkR (with_form z Finf)
  | Fzero => OkR (with_form z Fzero)
  | Ffinite =>
      (* f.MantExp(f); f.MinPrec(); f.SetMantExp(f, fprec); f.Int(nil) *)
      let tz := ctz (bman x) in
      let M := bman x / 2 ^ tz in
      let fprec := bitlen M in
      let exp2 := bexp x + tz in                                   (* exp2 -= fprec *)
      bindR (SetInt z (if bneg x then - M else M)) (fun z =>
      bindR
        (if exp2 =? 0 then OkR z
         else
           let extra := prec_extra z in
           let z := with_prec z (u32 (prec z + extra)) in
           bindT z (SetPrec dec_zero (prec z)) (fun t =>
           bindR
             (if exp2 <? 0 then
                if exp2 <? MinExp then
                  let exp2' := exp2 + fprec in
                  bindT z (pow2 t (u64 fprec)) (fun pw =>
                  bindR (Quo z z pw) (fun z =>
                  bindT z (pow2 pw (u64 (- exp2'))) (fun pw' => Quo z z pw')))
                else bindT z (pow2 t (u64 (- exp2))) (fun pw => Quo z z pw)
              else bindT z (pow2 t (u64 exp2)) (fun pw => Mul z z pw))
             (fun z => OkR (with_prec z (u32 (prec z - extra))))))
        (fun z => of_opt (round z 0)))
  end.

(* x.Float(z).  znil: the argument is nil; otherwise z is the argument's state.
   None = panic(big.ErrNaN) *)
Definition Float (x : Dec) (znil : bool) (z : BF) : option BF :=
  let z := if znil then bf_SetMode bf_new (dmode x) else z in
  let p := bprec z in
  let p := if p =? 0 then Z.max (ceil_mul_f64 (prec x) f64_log2_10) 64 else p in
  let z := bf_SetPrec z 0 in
  match dform x with
  | Fzero =>
      let z := bf_SetUint64 (bf_SetPrec z p) 0 in                    (* z.SetPrec(p).SetInt64(0) *)
      Some (if xorb (neg x) (bneg z) then bf_Neg z else z)
  | Finf => Some (bf_SetPrec (bf_SetInf z (neg x)) p)
  | Ffinite =>
      let z := bf_SetPrec z (p + 1) in
      let m := zlen (mant x) * DW in
      let e := exp x - m in
      let z := bf_SetInt z (val (mant x)) in
      let z := if neg x then bf_Neg z else z in
      let z := bf_SetMantExp z (- m) in
      let z := bf_SetMantExp z (exp x) in
      obf_bind
        (if e =? 0 then Some z
         else
           let t := bf_SetPrec bf_new p in
           if e <? 0 then obf_bind (floatPow5 t (- e)) (fun pw => bf_Quo z z pw)
           else obf_bind (floatPow5 t e) (fun pw => bf_Mul z z pw))
        (fun z => Some (bf_SetPrec z p))
  end.

Definition Float_fmt (f : fmt) (x : Dec) : option (fl * accuracy) :=
  match Float x false (bf_SetPrec bf_new (f_width f)) with
  | None => None
  | Some z =>
      let '(r, a) := bf_to_fl f z in
      Some (r, if acc_eqb a Exact then bacc z else a)
  end.
Definition Float64 (x : Dec) := Float_fmt binary64 x.
Definition Float32 (x : Dec) := Float_fmt binary32 x.
