(* L3/IndepProofs.v — results do not depend on the receiver's previous
   contents (C10, model level): only its precision and mode are read. *)
From Coq Require Import ZArith List Bool Lia.
From Dec Require Import Base.Words L3.Decimal L3.Cmp L3.Round L3.Arith L3.Store.
Open Scope Z_scope.

(* observational equality: what the API can see of a Decimal *)
Definition oeq (a b : Dec) : Prop := dec_obs_eqb a b = true.
Definition ores_oeq (r r' : ores) : Prop :=
  match r, r' with
  | OkR a, OkR b | NaNR a, NaNR b => oeq a b
  | CrashR, CrashR => True
  | _, _ => False
  end.

Lemma list_eqb_refl (l : list Z) : list_eqb Z.eqb l l = true.
Proof. induction l as [|a l IH]; [reflexivity|]. cbn. rewrite Z.eqb_refl, IH. reflexivity. Qed.

Lemma oeq_refl a : oeq a a.
Proof.
  unfold oeq, dec_obs_eqb. destruct a as [m e p md ac f n]; cbn.
  assert (form_eqb f f = true) as -> by (destruct f; reflexivity).
  assert (mode_eqb md md = true) as -> by (destruct md; reflexivity).
  assert (acc_eqb ac ac = true) as -> by (destruct ac; reflexivity).
  rewrite Bool.eqb_reflx, !Z.eqb_refl. cbn. destruct f; try reflexivity. rewrite list_eqb_refl. reflexivity.
Qed.

Lemma ores_oeq_refl r : ores_oeq r r.
Proof. destruct r; cbn; try apply oeq_refl; exact I. Qed.

(* two non-finite values with the same class, sign and attributes are observationally equal *)
Lemma oeq_nonfinite a b : dform a = dform b -> dform a <> Ffinite -> neg a = neg b -> prec a = prec b ->
  dmode a = dmode b -> acc a = acc b -> oeq a b.
Proof.
  intros Hf Hnf Hn Hp Hm Ha. unfold oeq, dec_obs_eqb. rewrite <- Hf, <- Hn, <- Hp, <- Hm, <- Ha.
  assert (form_eqb (dform a) (dform a) = true) as -> by (destruct (dform a); reflexivity).
  assert (mode_eqb (dmode a) (dmode a) = true) as -> by (destruct (dmode a); reflexivity).
  assert (acc_eqb (acc a) (acc a) = true) as -> by (destruct (acc a); reflexivity).
  rewrite Bool.eqb_reflx, Z.eqb_refl. cbn. destruct (dform a); try reflexivity. congruence.
Qed.

(* receivers that agree on what the operations read *)
Definition sim (z z' : Dec) : Prop := prec z = prec z' /\ dmode z = dmode z'.

Lemma round_acc_irrelevant z a sb : round (with_acc z a) sb = round z sb.
Proof. reflexivity. Qed.

(* setExpAndRound reads mant, prec, mode, neg of its receiver only *)
Lemma setExpAndRound_indep z z' e sb :
  sim z z' -> mant z = mant z' -> neg z = neg z' ->
  match setExpAndRound z e sb, setExpAndRound z' e sb with
  | Some a, Some b => oeq a b
  | None, None => True
  | _, _ => False
  end.
Proof.
  intros [Hp Hm] Hmant Hn. unfold setExpAndRound.
  destruct (e <? MinExp).
  - apply oeq_nonfinite; cbn [dform neg prec dmode acc with_form with_acc]; try assumption; try discriminate; try reflexivity.
    now rewrite Hn.
  - destruct (MaxExp <? e).
    + apply oeq_nonfinite; cbn [dform neg prec dmode acc with_form with_acc]; try assumption; try discriminate; try reflexivity.
      now rewrite Hn.
    + assert (E : round (with_exp (with_form z Ffinite) (i32 e)) sb = round (with_exp (with_form z' Ffinite) (i32 e)) sb).
      { unfold round. cbn [dform with_acc with_exp with_form mant prec dmode neg exp]. rewrite Hp, Hm, Hmant, Hn.
        destruct z, z'; cbn in *; subst. reflexivity. }
      rewrite E. set (r := round (with_exp (with_form z' Ffinite) (i32 e)) sb). destruct r; [apply oeq_refl|exact I].
Qed.

Lemma with_mant_sim z z' m : sim z z' -> sim (with_mant z m) (with_mant z' m).
Proof. intros [H1 H2]. split; assumption. Qed.
Lemma with_neg_sim z z' b : sim z z' -> sim (with_neg z b) (with_neg z' b).
Proof. intros [H1 H2]. split; assumption. Qed.

Definition opt_oeq (o o' : option Dec) : Prop :=
  match o, o' with Some a, Some b => oeq a b | None, None => True | _, _ => False end.

Lemma umul_indep z z' x y : sim z z' -> neg z = neg z' -> opt_oeq (umul z x y) (umul z' x y).
Proof.
  intros Hs Hn. unfold umul. destruct (dnorm _) as [[m' s]|]; [|exact I].
  apply setExpAndRound_indep; [apply with_mant_sim; exact Hs|reflexivity|exact Hn].
Qed.

Lemma uquo_indep z z' x y : sim z z' -> neg z = neg z' -> opt_oeq (uquo z x y) (uquo z' x y).
Proof.
  intros Hs Hn. unfold uquo. destruct Hs as [Hp Hm]. rewrite Hp.
  destruct (val (mant y) =? 0); [exact I|].
  destruct (dnorm _) as [[m' s]|]; [|exact I].
  apply setExpAndRound_indep; [split; assumption|reflexivity|exact Hn].
Qed.

Lemma uadd_indep z z' x y : sim z z' -> neg z = neg z' -> opt_oeq (uadd z x y) (uadd z' x y).
Proof.
  intros Hs Hn. unfold uadd.
  destruct (if _ <? _ then _ else _) as [m ex]. destruct (dnorm m) as [[m' s]|]; [|exact I].
  apply setExpAndRound_indep; [apply with_mant_sim; exact Hs|reflexivity|exact Hn].
Qed.

Lemma usub_indep z z' x y : sim z z' -> neg z = neg z' -> opt_oeq (usub z x y) (usub z' x y).
Proof.
  intros Hs Hn. unfold usub.
  destruct (if _ <? _ then _ else _) as [om ex]. destruct om as [m|]; [|exact I].
  destruct m as [|w r].
  - apply oeq_nonfinite; cbn [dform neg prec dmode acc with_neg with_form with_acc with_mant]; try reflexivity; try discriminate; apply Hs.
  - destruct (dnorm (w :: r)) as [[m' s]|]; [|exact I].
    apply setExpAndRound_indep; [apply with_mant_sim; exact Hs|reflexivity|exact Hn].
Qed.

Lemma fix_zero_sign_oeq a b : oeq a b -> oeq (fix_zero_sign a) (fix_zero_sign b).
Proof.
  unfold oeq, dec_obs_eqb, fix_zero_sign. intros H.
  repeat (apply andb_true_iff in H as [H ?]).
  assert (Ef : dform a = dform b) by (destruct (dform a), (dform b); try discriminate; reflexivity).
  assert (Em : dmode a = dmode b) by (destruct (dmode a), (dmode b); try discriminate; reflexivity).
  assert (Ea : acc a = acc b) by (destruct (acc a), (acc b); try discriminate; reflexivity).
  rewrite <- Ef, <- Em, <- Ea.
  destruct (form_eqb (dform a) Fzero && mode_eqb (dmode a) ToNegativeInf && acc_eqb (acc a) Exact) eqn:E.
  - cbn [dform neg prec dmode acc with_neg mant exp]. rewrite <- Ef, <- Em, <- Ea.
    apply andb_true_iff in E as [E _]. apply andb_true_iff in E as [E _]. destruct (dform a); try discriminate.
    destruct (dmode a), (acc a); reflexivity || (cbn; rewrite ?Z.eqb_refl; try assumption; reflexivity) || (cbn; rewrite H3; reflexivity).
  - repeat (apply andb_true_iff; split); assumption.
Qed.

(* The four arithmetic operations on finite operands: the receiver's previous value, sign,
   accuracy, exponent and mantissa are irrelevant; only its precision and mode matter *)
Theorem Add_indep zx zy z z' x y : sim z z' -> dform x = Ffinite -> dform y = Ffinite ->
  ores_oeq (Add zx zy z x y) (Add zx zy z' x y).
Proof.
  intros [Hp Hm] Fx Fy. unfold Add. rewrite Fx, Fy, Hp.
  set (w := if prec z' =? 0 then with_prec z (umax32 (prec x) (prec y)) else z).
  set (w' := if prec z' =? 0 then with_prec z' (umax32 (prec x) (prec y)) else z').
  assert (Hs : sim w w') by (unfold w, w', sim; destruct (prec z' =? 0); cbn [prec dmode with_prec]; auto).
  assert (H : opt_oeq
    (if Bool.eqb (neg x) (neg y) then uadd (with_neg w (neg x)) x y
     else if 0 <? ucmp x y then usub (with_neg w (neg x)) x y
     else usub (with_neg (with_neg w (neg x)) (negb (neg (with_neg w (neg x))))) y x)
    (if Bool.eqb (neg x) (neg y) then uadd (with_neg w' (neg x)) x y
     else if 0 <? ucmp x y then usub (with_neg w' (neg x)) x y
     else usub (with_neg (with_neg w' (neg x)) (negb (neg (with_neg w' (neg x))))) y x)).
  { destruct (Bool.eqb (neg x) (neg y)); [apply uadd_indep; [apply with_neg_sim; exact Hs|reflexivity]|].
    destruct (0 <? ucmp x y); apply usub_indep; try reflexivity; repeat apply with_neg_sim; exact Hs. }
  destruct (if Bool.eqb (neg x) (neg y) then _ else _) as [a|], (if Bool.eqb (neg x) (neg y) then _ else _) as [b|];
    cbn [opt_oeq ores_oeq] in *; try contradiction; try exact I. now apply fix_zero_sign_oeq.
Qed.

Theorem Mul_indep z z' x y : sim z z' -> dform x = Ffinite -> dform y = Ffinite ->
  ores_oeq (Mul z x y) (Mul z' x y).
Proof.
  intros [Hp Hm] Fx Fy. unfold Mul. rewrite Fx, Fy, Hp.
  set (w := if prec z' =? 0 then with_prec z (umax32 (prec x) (prec y)) else z).
  set (w' := if prec z' =? 0 then with_prec z' (umax32 (prec x) (prec y)) else z').
  assert (Hs : sim w w') by (unfold w, w', sim; destruct (prec z' =? 0); cbn [prec dmode with_prec]; auto).
  pose proof (umul_indep (with_neg w (xorb (neg x) (neg y))) (with_neg w' (xorb (neg x) (neg y))) x y (with_neg_sim _ _ _ Hs) eq_refl) as H.
  destruct (umul _ x y), (umul _ x y); cbn [opt_oeq of_opt ores_oeq] in *; auto.
Qed.

Theorem Quo_indep z z' x y : sim z z' -> dform x = Ffinite -> dform y = Ffinite ->
  ores_oeq (Quo z x y) (Quo z' x y).
Proof.
  intros [Hp Hm] Fx Fy. unfold Quo. rewrite Fx, Fy, Hp.
  set (w := if prec z' =? 0 then with_prec z (umax32 (prec x) (prec y)) else z).
  set (w' := if prec z' =? 0 then with_prec z' (umax32 (prec x) (prec y)) else z').
  assert (Hs : sim w w') by (unfold w, w', sim; destruct (prec z' =? 0); cbn [prec dmode with_prec]; auto).
  pose proof (uquo_indep (with_neg w (xorb (neg x) (neg y))) (with_neg w' (xorb (neg x) (neg y))) x y (with_neg_sim _ _ _ Hs) eq_refl) as H.
  destruct (uquo _ x y), (uquo _ x y); cbn [opt_oeq of_opt ores_oeq] in *; auto.
Qed.

(* aliasing: in the value-level model the flags zx, zy (receiver is x / is y) are not even read
   when both operands are finite *)
Theorem Add_alias_flags_irrelevant zx zy zx' zy' z x y : dform x = Ffinite -> dform y = Ffinite ->
  Add zx zy z x y = Add zx' zy' z x y.
Proof. intros Fx Fy. unfold Add. rewrite Fx, Fy. reflexivity. Qed.
