(* L3/ConvertProofs.v — setters and raw access meet the rounding specification
   (C14, C20). *)
From Coq Require Import ZArith List Bool Lia QArith Qabs Lqa.
From Dec Require Import Base.Words Base.WordsProofs Base.QPow L3.Decimal L3.Cmp L3.CmpProofs
  L3.Round L3.Arith L3.Convert Spec.Rounding Spec.RoundingFacts L3.RoundProofs L3.ArithProofs.
Open Scope Z_scope.

(* exponents beyond the clamp behave like the clamped ones: both take the same
   overflow/underflow branch of setExpAndRound *)
Lemma setExpAndRound_far z e e' sb :
  (MaxExp < e /\ MaxExp < e') \/ (e < MinExp /\ e' < MinExp) ->
  setExpAndRound z e sb = setExpAndRound z e' sb.
Proof.
  unfold setExpAndRound, MinExp, MaxExp. intros [[H1 H2]|[H1 H2]].
  - destruct (Z.ltb_spec e (-2147483648)); [lia|]. destruct (Z.ltb_spec e' (-2147483648)); [lia|].
    destruct (Z.ltb_spec 2147483647 e); [|lia]. destruct (Z.ltb_spec 2147483647 e'); [|lia]. reflexivity.
  - destruct (Z.ltb_spec e (-2147483648)); [|lia]. destruct (Z.ltb_spec e' (-2147483648)); [|lia]. reflexivity.
Qed.

Lemma clampExp_spec e : (clampExp e = e /\ - 1099511627776 <= e <= 1099511627776) \/
  (1099511627776 < e /\ clampExp e = 1099511627776) \/ (e < - 1099511627776 /\ clampExp e = - 1099511627776).
Proof.
  unfold clampExp. cbv zeta.
  repeat match goal with |- context [if ?a <? ?b then _ else _] => destruct (Z.ltb_spec a b) end; lia.
Qed.

(* normalise an integer S > 0 with unit exponent b and round: the tail shared by
   setBits64, SetInt and SetBitsExp; the exponent argument may have been clamped *)
Lemma norm_round_clamped z S b v D :
  0 < S < 10 ^ D -> 0 <= D -> D + 19 < 4294967296 - 18 -> 1 <= prec z <= MaxPrec ->
  (v == scaled S b)%Q ->
  forall b', (b' = b \/ (1099511627776 - 4294967296 <= b' /\ b' <= b) \/ (b' <= - 1099511627776 + 4294967296 /\ b <= b')) ->
  exists z',
    match dnorm (of_Z S) with
    | None => None
    | Some (m', s) => setExpAndRound (with_mant z m') (b' + zlen m' * DW - s) 0
    end = Some z' /\ RoundPost z v z'.
Proof.
  intros HS HD HDl Hp Hv b' Hb'.
  pose proof (norm_round z S b v D HS HD HDl Hp Hv) as H.
  destruct (of_Z_pos_facts S ltac:(lia)) as (Hok & Hne & Hlast & Hval).
  destruct (dnorm_spec _ Hok Hne Hlast) as (m' & sh & Ed & Hsh & Vm' & Lm' & Okm' & Nem' & Topm').
  rewrite Ed in *.
  pose proof (zlen_of_Z_bound S D HS HD) as Hzl.
  destruct Hb' as [->|[[H1 H2]|[H1 H2]]]; [exact H| |].
  - rewrite (setExpAndRound_far _ (b' + zlen m' * DW - sh) (b + zlen m' * DW - sh)); [exact H|].
    left. rewrite Lm'. unfold MaxExp. pose proof (zlen_nonneg (of_Z S)). cbv [DW]. lia.
  - rewrite (setExpAndRound_far _ (b' + zlen m' * DW - sh) (b + zlen m' * DW - sh)); [exact H|].
    right. rewrite Lm'. unfold MinExp. cbv [DW]. lia.
Qed.

(* ---- setBits64: SetInt64, SetUint64, NewDecimal ---- *)
Theorem setBits64_correct z ng x e :
  0 < x < 18446744073709551616 -> 0 <= prec z <= MaxPrec ->
  let p := if prec z =? 0 then DefaultDecimalPrec else prec z in
  OpPost p (dmode z) ng (scaled x e) (setBits64 z ng x e).
Proof.
  intros Hx Pz p. unfold setBits64.
  destruct (Z.eqb_spec x 0); [lia|].
  set (z0 := if prec z =? 0 then with_prec z DefaultDecimalPrec else z).
  set (z1 := with_form (with_neg (with_acc z0 Exact) ng) Ffinite).
  assert (Hp1 : prec z1 = p) by (unfold z1, z0, p; destruct (prec z =? 0); reflexivity).
  assert (Hm1 : dmode z1 = dmode z) by (unfold z1, z0; destruct (prec z =? 0); reflexivity).
  assert (Hn1 : neg z1 = ng) by reflexivity.
  assert (Hpe : 1 <= p <= MaxPrec) by (unfold p, DefaultDecimalPrec, MaxPrec in *; destruct (Z.eqb_spec (prec z) 0); lia).
  assert (HG : forall r, OpPost (prec z1) (dmode z1) (neg z1) (scaled x e) r -> OpPost p (dmode z) ng (scaled x e) r).
  { intros r. rewrite Hp1, Hm1, Hn1. auto. }
  apply HG.
  assert (Hx20 : 0 < x < 10 ^ 20) by (split; [lia|]; change (10 ^ 20) with 100000000000000000000; lia).
  destruct (clampExp_spec e) as [[Ec Hr]|[[Hr Ec]|[Hr Ec]]]; rewrite Ec.
  - destruct (norm_round_clamped z1 x e (scaled x e) 20 Hx20 ltac:(lia) ltac:(lia) ltac:(rewrite Hp1; exact Hpe) ltac:(reflexivity) e ltac:(left; reflexivity))
      as (z' & E & HR).
    destruct (dnorm (of_Z x)) as [[m' s]|]; [|discriminate]. apply of_opt_post_gen. exists z'. split; assumption.
  - destruct (norm_round_clamped z1 x e (scaled x e) 20 Hx20 ltac:(lia) ltac:(lia) ltac:(rewrite Hp1; exact Hpe) ltac:(reflexivity) 1099511627776 ltac:(right; left; lia))
      as (z' & E & HR).
    destruct (dnorm (of_Z x)) as [[m' s]|]; [|discriminate]. apply of_opt_post_gen. exists z'. split; assumption.
  - destruct (norm_round_clamped z1 x e (scaled x e) 20 Hx20 ltac:(lia) ltac:(lia) ltac:(rewrite Hp1; exact Hpe) ltac:(reflexivity) (-1099511627776) ltac:(right; right; lia))
      as (z' & E & HR).
    destruct (dnorm (of_Z x)) as [[m' s]|]; [|discriminate]. apply of_opt_post_gen. exists z'. split; assumption.
Qed.

Lemma setBits64_zero z ng e : 0 <= prec z <= MaxPrec ->
  exists z', setBits64 z ng 0 e = OkR z' /\ dform z' = Fzero /\ neg z' = ng /\ acc z' = Exact /\
    prec z' = (if prec z =? 0 then DefaultDecimalPrec else prec z) /\ dmode z' = dmode z /\ WF z'.
Proof.
  intros Pz. unfold setBits64. cbn [Z.eqb]. eexists. split; [reflexivity|].
  destruct (Z.eqb_spec (prec z) 0); simp_with; repeat split; try reflexivity;
    apply WF_nonfinite; cbn [dform prec]; try discriminate; unfold DefaultDecimalPrec, MaxPrec in *; lia.
Qed.

(* SetInt64 / SetUint64 / NewDecimal store x * 10^e rounded once (34 digits when
   the receiver had precision 0), saturating to +-0 / +-Inf outside the range *)
Theorem SetInt64_correct z x : MinInt64 <= x <= MaxInt64 -> x <> 0 -> 0 <= prec z <= MaxPrec ->
  OpPost (if prec z =? 0 then DefaultDecimalPrec else prec z) (dmode z) (x <? 0) (scaled (Z.abs x) 0) (SetInt64 z x).
Proof.
  intros Hx Hnz Pz. unfold SetInt64, int64_abs_as_u64, u64, MinInt64, MaxInt64 in *.
  rewrite Z.mod_small by lia. apply setBits64_correct; lia.
Qed.

Theorem SetUint64_correct z x : 0 < x <= MaxUint64 -> 0 <= prec z <= MaxPrec ->
  OpPost (if prec z =? 0 then DefaultDecimalPrec else prec z) (dmode z) false (scaled x 0) (SetUint64 z x).
Proof. intros Hx Pz. unfold SetUint64, MaxUint64 in *. apply setBits64_correct; lia. Qed.

Theorem NewDecimal_correct x e : MinInt64 <= x <= MaxInt64 -> x <> 0 ->
  OpPost DefaultDecimalPrec ToNearestEven (x <? 0) (scaled (Z.abs x) e) (NewDecimal x e).
Proof.
  intros Hx Hnz. unfold NewDecimal, int64_abs_as_u64, u64, MinInt64, MaxInt64 in *.
  rewrite Z.mod_small by lia.
  apply (setBits64_correct dec_zero (x <? 0) (Z.abs x) e); cbn [prec dec_zero]; unfold MaxPrec; lia.
Qed.

(* ---- SetInt ---- *)
Lemma digits_of_Z n : 0 < n -> zlen (of_Z n) * DW - nlz10 (last_word (of_Z n)) = ndig n.
Proof.
  intros Hn. destruct (of_Z_pos_facts n Hn) as (Hok & Hne & Hlast & Hval).
  pose proof (val_ge_last (of_Z n) Hok Hne) as [Hlo Hhi]. rewrite Hval in *.
  pose proof (last_in_words_ok (of_Z n) Hok Hne) as Hw.
  set (len := zlen (of_Z n)) in *. set (w := last (of_Z n) 0) in *.
  assert (Hlen : 1 <= len) by (unfold len; destruct (of_Z n); [congruence|rewrite zlen_cons; pose proof (zlen_nonneg l); lia]).
  unfold nlz10, last_word. fold w. cbv [DW].
  destruct (ndig_spec w ltac:(lia)) as [Hp [Hl Hh]]. pose proof (ndig_word_le w ltac:(lia)).
  symmetry. replace (len * 19 - (19 - ndig w)) with (19 * (len - 1) + ndig w) by lia.
  apply ndig_unique; [lia|].
  rewrite <- pow10_19 in Hlo, Hhi by lia.
  assert (0 < 10 ^ (19 * (len - 1))) by (apply pow10_pos; lia).
  split.
  - replace (19 * (len - 1) + ndig w - 1) with (ndig w - 1 + 19 * (len - 1)) by lia.
    rewrite Z.pow_add_r by lia. nia.
  - replace (19 * (len - 1) + ndig w) with (ndig w + 19 * (len - 1)) by lia.
    rewrite Z.pow_add_r by lia. nia.
Qed.

Definition setint_prec (z : Dec) (x : Z) : Z :=
  if prec z =? 0 then Z.max (Z.min (ndig (Z.abs x)) MaxPrec) DefaultDecimalPrec else prec z.

Theorem SetInt_correct z x D :
  x <> 0 -> Z.abs x < 10 ^ D -> 0 <= D -> D + 19 < 4294967296 - 18 -> 0 <= prec z <= MaxPrec ->
  OpPost (setint_prec z x) (dmode z) (x <? 0) (scaled (Z.abs x) 0) (SetInt z x).
Proof.
  intros Hnz HD HD0 HDl Pz. unfold SetInt. destruct (Z.eqb_spec x 0); [contradiction|].
  assert (Hax : 0 < Z.abs x) by lia.
  pose proof (digits_of_Z (Z.abs x) Hax) as Hdig. rewrite Hdig.
  destruct (ndig_spec (Z.abs x) Hax) as [Hnp _].
  set (z0 := with_neg (with_acc z Exact) (x <? 0)).
  set (z1 := if prec z0 =? 0 then
               with_prec z0 (umax32 (u32 (if MaxPrec <? ndig (Z.abs x) then MaxPrec else ndig (Z.abs x))) DefaultDecimalPrec)
             else z0).
  assert (Hp1 : prec z1 = setint_prec z x).
  { unfold z1, z0, setint_prec. cbn [prec with_neg with_acc]. destruct (Z.eqb_spec (prec z) 0); [|reflexivity].
    cbn [prec with_prec]. rewrite umax32_spec. unfold MaxPrec, DefaultDecimalPrec in *.
    destruct (Z.ltb_spec 4294967295 (ndig (Z.abs x))); rewrite u32_small by lia; lia. }
  assert (Hm1 : dmode z1 = dmode z) by (unfold z1, z0; destruct (prec _ =? 0); reflexivity).
  assert (Hn1 : neg z1 = (x <? 0)) by (unfold z1, z0; destruct (prec _ =? 0); reflexivity).
  assert (Hpe : 1 <= setint_prec z x <= MaxPrec).
  { unfold setint_prec, MaxPrec, DefaultDecimalPrec in *. destruct (Z.eqb_spec (prec z) 0); lia. }
  assert (HG : forall r, OpPost (prec z1) (dmode z1) (neg z1) (scaled (Z.abs x) 0) r ->
                         OpPost (setint_prec z x) (dmode z) (x <? 0) (scaled (Z.abs x) 0) r).
  { intros r. rewrite Hp1, Hm1, Hn1. auto. }
  apply HG.
  destruct (norm_round z1 (Z.abs x) 0 (scaled (Z.abs x) 0) D ltac:(lia) HD0 HDl ltac:(rewrite Hp1; exact Hpe) ltac:(reflexivity))
    as (z' & E & HR).
  destruct (dnorm (of_Z (Z.abs x))) as [[m' s]|]; [|discriminate].
  rewrite Z.add_0_l in E. apply of_opt_post_gen. exists z'. split; assumption.
Qed.

(* ---- SetMantExp ---- *)
Theorem SetMantExp_correct same z m e :
  WF m -> dform m = Ffinite -> mdigits (mant m) < 4294967296 - 18 -> (same = true -> z = m) ->
  OpPost (prec m) (dmode m) (neg m) (mag m * Qpow10 e) (SetMantExp same z m e).
Proof.
  intros Wm Fm Lm Hs. pose proof (WF_finite m Wm Fm) as Hm.
  pose proof Hm as [Hne Hok Htop Hprec Hexp Htail].
  pose proof (WFfin_val_bounds m Hm) as HN.
  unfold SetMantExp.
  assert (Ec : exists z1, Copy same z m = OkR z1 /\ mant z1 = mant m /\ exp z1 = exp m /\ prec z1 = prec m /\
                          dmode z1 = dmode m /\ dform z1 = Ffinite /\ neg z1 = neg m).
  { unfold Copy. destruct same.
    - rewrite (Hs eq_refl). exists m. repeat split; auto.
    - rewrite Fm. eexists. split; [reflexivity|]. repeat split. }
  destruct Ec as (z1 & E1 & Em & Ee & Ep & Emd & Ef & En). rewrite E1, Ef.
  set (L := mdigits (mant m)) in *. set (N := val (mant m)) in *.
  assert (HL : 19 <= L).
  { unfold L, mdigits. destruct (mant m); [congruence|]. rewrite zlen_cons. pose proof (zlen_nonneg l). cbv [DW]. lia. }
  assert (Hv : (mag m * Qpow10 e == scaled N (exp m + e - L))%Q).
  { unfold mag. fold N L. unfold scaled. rewrite <- Qmult_assoc, <- Qpow10_add. replace (exp m - L + e) with (exp m + e - L) by lia. reflexivity. }
  assert (HG : forall r, OpPost (prec z1) (dmode z1) (neg z1) (mag m * Qpow10 e) r ->
                         OpPost (prec m) (dmode m) (neg m) (mag m * Qpow10 e) r).
  { intros r. rewrite Ep, Emd, En. auto. }
  apply HG. apply of_opt_post_gen.
  assert (HNM : NormMant (mant z1)) by (rewrite Em; constructor; assumption).
  assert (Hbr : forall E, exists z', setExpAndRound z1 E (b2z false) = Some z' /\ RoundPost z1 (scaled N (E - L)) z').
  { intros E. apply (setExpAndRound_correct z1 E false (scaled N (E - L))).
    - exact HNM.
    - rewrite Ep. exact Hprec.
    - rewrite Em. fold N L. apply Qle_refl.
    - rewrite Em. fold N L. apply scaled_lt_same. lia.
    - intros _. rewrite Em. fold N L. reflexivity.
    - discriminate. }
  change 0 with (b2z false).
  destruct (clampExp_spec e) as [[Ec Hr]|[[Hr Ec]|[Hr Ec]]]; rewrite Ec, Ee.
  - destruct (Hbr (exp m + e)) as (z' & E & HR). exists z'. split; [exact E|].
    destruct HR as (H1 & H2). split; [|exact H2]. eapply result_spec_ext; [|exact H1]. symmetry. exact Hv.
  - (* far overflow: same branch as the true exponent *)
    destruct (Hbr (exp m + e)) as (z' & E & HR). exists z'. split.
    + rewrite <- E. apply setExpAndRound_far. left. unfold MaxExp, MinExp in *. lia.
    + destruct HR as (H1 & H2). split; [|exact H2]. eapply result_spec_ext; [|exact H1]. symmetry. exact Hv.
  - destruct (Hbr (exp m + e)) as (z' & E & HR). exists z'. split.
    + rewrite <- E. apply setExpAndRound_far. right. unfold MaxExp, MinExp in *. lia.
    + destruct HR as (H1 & H2). split; [|exact H2]. eapply result_spec_ext; [|exact H1]. symmetry. exact Hv.
Qed.

(* ---- SetBitsExp ---- *)
Definition setbits_prec (z : Dec) (ws : list Z) : Z :=
  if prec z =? 0 then Z.min (zlen (norm ws) * DW) MaxPrec else prec z.

Theorem SetBitsExp_correct z ws e :
  words_ok ws = true -> 0 < val ws -> 19 * zlen ws + 19 < 4294967296 - 18 -> 0 <= prec z <= MaxPrec ->
  OpPost (setbits_prec z ws) (dmode z) false (scaled (val ws) (e - 19 * zlen ws)) (SetBitsExp z ws e).
Proof.
  intros Hok Hv Hlen Pz. unfold SetBitsExp.
  set (m := norm ws).
  assert (Hokm : words_ok m = true) by (apply words_ok_norm; exact Hok).
  assert (Hvm : val m = val ws) by apply val_norm.
  assert (Hnem : m <> []) by (intros E; apply norm_nil_iff in E; [lia|exact Hok]).
  assert (Hlastm : last m 0 <> 0) by (apply norm_last_nz; exact Hnem).
  assert (Hlm : 1 <= zlen m <= zlen ws).
  { split; [destruct m; [congruence|rewrite zlen_cons; pose proof (zlen_nonneg m); lia]|apply zlen_norm_le]. }
  destruct m as [|w0 r0] eqn:Em; [congruence|]. rewrite <- Em in *.
  set (z0 := with_neg (with_mant z m) false).
  set (z1 := if prec z0 =? 0 then with_prec z0 (if zlen m * DW <? MaxPrec then u32 (zlen m * DW) else MaxPrec) else z0).
  assert (Hp1 : prec z1 = setbits_prec z ws).
  { unfold z1, z0, setbits_prec. fold m. cbn [prec with_neg with_mant]. destruct (Z.eqb_spec (prec z) 0); [|reflexivity].
    cbn [prec with_prec]. unfold MaxPrec in *. destruct (Z.ltb_spec (zlen m * DW) 4294967295).
    - rewrite u32_small by (cbv [DW] in *; lia). lia.
    - lia. }
  assert (Hm1 : dmode z1 = dmode z) by (unfold z1, z0; destruct (prec _ =? 0); reflexivity).
  assert (Hn1 : neg z1 = false) by (unfold z1, z0; destruct (prec _ =? 0); reflexivity).
  assert (Hpe : 1 <= setbits_prec z ws <= MaxPrec).
  { unfold setbits_prec, MaxPrec in *. fold m. destruct (Z.eqb_spec (prec z) 0); cbv [DW]; lia. }
  set (v := scaled (val ws) (e - 19 * zlen ws)).
  assert (HG : forall r, OpPost (prec z1) (dmode z1) (neg z1) v r -> OpPost (setbits_prec z ws) (dmode z) false v r).
  { intros r. rewrite Hp1, Hm1, Hn1. auto. }
  apply HG.
  destruct (dnorm_spec m Hokm Hnem Hlastm) as (m' & sh & Ed & Hsh & Vm' & Lm' & Okm' & Nem' & Topm').
  rewrite Ed.
  (* bounds *)
  pose proof (val_bounds ws Hok) as [_ Hvb]. rewrite <- pow10_19 in Hvb by apply zlen_nonneg.
  assert (Hmd : mdigits m' = 19 * zlen m) by (unfold mdigits; rewrite Lm'; reflexivity).
  assert (H10 : 0 < 10 ^ sh) by (apply pow10_pos; lia).
  set (z2 := with_mant z1 m').
  assert (Hz2 : forall r, OpPost (prec z2) (dmode z2) (neg z2) v r -> OpPost (prec z1) (dmode z1) (neg z1) v r) by auto.
  apply Hz2. apply of_opt_post_gen.
  (* true unit exponent of the normalised mantissa *)
  set (bt := e - 19 * zlen ws).
  assert (HsQ : forall a, (scaled (a * 10 ^ sh) (bt - sh) == scaled a bt)%Q).
  { intros a. rewrite scaled_pow by lia. replace (bt - sh + sh) with bt by lia. reflexivity. }
  assert (Hcore : forall E, E - mdigits m' = bt - sh ->
            exists z', setExpAndRound z2 E (b2z false) = Some z' /\ RoundPost z2 v z').
  { intros E HE. apply (setExpAndRound_correct z2 E false v).
    - change (mant z2) with m'. constructor; try assumption. rewrite Hmd. lia.
    - change (prec z2) with (prec z1). rewrite Hp1. exact Hpe.
    - change (mant z2) with m'. rewrite HE, Vm', Hvm, HsQ. apply Qle_refl.
    - change (mant z2) with m'. rewrite HE, Vm', Hvm. unfold v. fold bt. rewrite <- (HsQ (val ws)). apply scaled_lt_same. lia.
    - intros _. change (mant z2) with m'. rewrite HE, Vm', Hvm, HsQ. reflexivity.
    - discriminate. }
  change 0 with (b2z false).
  destruct (Hcore (e + 19 * zlen m - sh - 19 * zlen ws)) as (z' & E & HR); [rewrite Hmd; unfold bt; lia|].
  exists z'. split; [|exact HR]. rewrite <- E.
  destruct (clampExp_spec e) as [[Ec Hr]|[[Hr Ec]|[Hr Ec]]]; rewrite Ec.
  - f_equal. cbv [DW]. lia.
  - apply setExpAndRound_far. left. unfold MaxExp. cbv [DW]. lia.
  - apply setExpAndRound_far. right. unfold MinExp. cbv [DW]. lia.
Qed.

Lemma SetBitsExp_zero z ws : words_ok ws = true -> val ws = 0 ->
  0 <= prec z <= MaxPrec ->
  exists z', SetBitsExp z ws 0 = OkR z' /\ dform z' = Fzero /\ neg z' = false /\ acc z' = Exact /\ prec z' = prec z /\ dmode z' = dmode z.
Proof.
  intros Hok Hv Pz. unfold SetBitsExp. assert (E : norm ws = []) by (apply norm_nil_iff; assumption). rewrite E.
  eexists. split; [reflexivity|]. simp_with. repeat split.
Qed.

(* ---- getters ---- *)
Lemma ntz_fuel_spec f n a : 0 < n -> n < 2 ^ Z.of_nat f ->
  let t := ntz_fuel f n a - a in 0 <= t /\ n mod 10 ^ t = 0 /\ (n / 10 ^ t) mod 10 <> 0.
Proof.
  revert n a; induction f as [|f IH]; intros n a Hn Hlt; [cbn in Hlt; lia|].
  cbn [ntz_fuel]. destruct (Z.eqb_spec (n mod 10) 0) as [E|E].
  - assert (H10 : 0 < n / 10).
    { apply Z.div_str_pos. pose proof (Z.div_mod n 10 ltac:(lia)). lia. }
    assert (Hlt' : n / 10 < 2 ^ Z.of_nat f).
    { rewrite Nat2Z.inj_succ, Z.pow_succ_r in Hlt by lia. apply Z.div_lt_upper_bound; [lia|].
      assert (0 < 2 ^ Z.of_nat f) by (apply Z.pow_pos_nonneg; lia). lia. }
    specialize (IH (n / 10) (a + 1) H10 Hlt'). cbn zeta in *. destruct IH as (H0 & H1 & H2).
    set (t := ntz_fuel f (n / 10) (a + 1) - (a + 1)) in *.
    replace (ntz_fuel f (n / 10) (a + 1) - a) with (t + 1) by (unfold t; lia).
    assert (Hp : 0 < 10 ^ t) by (apply pow10_pos; lia).
    rewrite Z.pow_add_r, Z.pow_1_r by lia. split; [lia|]. split.
    + rewrite Z.mul_comm. rewrite Z.rem_mul_r by lia. rewrite E, H1. lia.
    + rewrite Z.mul_comm. rewrite <- Z.div_div by lia. exact H2.
  - cbn zeta. replace (a - a) with 0 by lia. rewrite Z.pow_0_r, Z.mod_1_r, Z.div_1_r. repeat split; [lia|exact E].
Qed.

Lemma ntz10_spec n : 0 < n -> 0 <= ntz10 n /\ n mod 10 ^ ntz10 n = 0 /\ (n / 10 ^ ntz10 n) mod 10 <> 0.
Proof.
  intros Hn. unfold ntz10. destruct (Z.leb_spec n 0); [lia|].
  pose proof (ntz_fuel_spec (S (Z.to_nat (Z.log2 n))) n 0 Hn) as Hs. cbn zeta in Hs. rewrite Z.sub_0_r in Hs.
  apply Hs. rewrite Nat2Z.inj_succ, Z2Nat.id by apply Z.log2_nonneg. apply Z.log2_spec; lia.
Qed.

(* divisibility by a power of ten is decided by the trailing-zero count *)
Lemma ntz10_div n k : 0 < n -> 0 <= k -> (n mod 10 ^ k = 0 <-> k <= ntz10 n).
Proof.
  intros Hn Hk. destruct (ntz10_spec n Hn) as (Ht & Hd & Hnd). set (t := ntz10 n) in *. split.
  - intros H. destruct (Z.le_gt_cases k t) as [C|C]; [exact C|exfalso].
    apply (mod_pow10_weaken n k (t + 1)) in H; [|lia].
    apply Hnd. rewrite Z.pow_add_r, Z.pow_1_r in H by lia.
    assert (0 < 10 ^ t) by (apply pow10_pos; lia).
    rewrite Z.rem_mul_r in H by lia. rewrite Hd in H. lia.
  - intros H. apply (mod_pow10_weaken n t k); [lia|exact Hd].
Qed.

(* MinPrec is the number of significant digits *)
Lemma MinPrec_spec x : WFfin x -> dform x = Ffinite ->
  1 <= MinPrec x <= mdigits (mant x) /\ MinPrec x <= prec x /\
  forall k, 0 <= k -> (val (mant x) mod 10 ^ k = 0 <-> k <= mdigits (mant x) - MinPrec x).
Proof.
  intros Hx Fx. pose proof (WFfin_val_bounds x Hx) as HN. destruct (WFfin_len x Hx) as [Hl HL].
  destruct Hx as [Hne Hok Htop Hprec Hexp Htail].
  set (N := val (mant x)) in *. set (L := mdigits (mant x)) in *.
  assert (HN0 : 0 < N) by (assert (0 < 10 ^ (L - 1)) by (apply pow10_pos; lia); lia).
  destruct (ntz10_spec N HN0) as (Ht & Hd & Hnd).
  assert (EM : MinPrec x = L - ntz10 N).
  { unfold MinPrec. rewrite Fx. unfold L, mdigits, N. cbv [DW]. lia. }
  assert (Htl : ntz10 N < L).
  { destruct (Z.lt_ge_cases (ntz10 N) L) as [C|C]; [exact C|exfalso].
    assert (N mod 10 ^ L = 0) by (apply (ntz10_div N L HN0); lia).
    rewrite Z.mod_small in H by lia. lia. }
  rewrite EM. split; [lia|]. split.
  - destruct Htail as [T|T]; [lia|]. destruct (Z.le_gt_cases L (prec x)); [lia|].
    apply (ntz10_div N (L - prec x) HN0) in T; lia.
  - intros k Hk. rewrite (ntz10_div N k HN0 Hk). lia.
Qed.

(* intMant is the integer part of |x| (exp > 0) *)
Lemma intMant_floor x : WFfin x -> 0 < exp x ->
  (scaled (intMant x) 0 <= mag x)%Q /\ (mag x < scaled (intMant x + 1) 0)%Q /\
  ((mag x == scaled (intMant x) 0)%Q <-> (mdigits (mant x) <= exp x \/ val (mant x) mod 10 ^ (mdigits (mant x) - exp x) = 0)).
Proof.
  intros Hx He. pose proof (WFfin_val_bounds x Hx) as HN. destruct (WFfin_len x Hx) as [Hl HL].
  set (N := val (mant x)) in *. set (L := mdigits (mant x)) in *.
  assert (HN0 : 0 < N) by (assert (0 < 10 ^ (L - 1)) by (apply pow10_pos; lia); lia).
  unfold intMant, mag. fold N L. replace (zlen (mant x) * DW) with L by (unfold L, mdigits; cbv [DW]; lia).
  destruct (Z.ltb_spec L (exp x)) as [C|C].
  - assert (E : (scaled (N * 10 ^ (exp x - L)) 0 == scaled N (exp x - L))%Q) by (rewrite scaled_pow by lia; reflexivity).
    split; [rewrite E; apply Qle_refl|]. split.
    + rewrite <- E. apply scaled_lt_same. lia.
    + split; [intros _; left; lia|intros _; symmetry; exact E].
  - set (k := L - exp x). assert (Hk : 0 <= k) by (unfold k; lia).
    assert (HP : 0 < 10 ^ k) by (apply pow10_pos; lia).
    pose proof (Z.div_mod N (10 ^ k) ltac:(lia)) as Hdm. pose proof (Z.mod_pos_bound N (10 ^ k) HP) as Hmb.
    replace (exp x - L) with (- k) by (unfold k; lia).
    split; [|split].
    + apply (scaled_le_gen _ _ _ _ (- k)); try lia. rewrite Z.sub_diag, Z.pow_0_r. replace (0 - - k) with k by lia. nia.
    + apply (scaled_lt_gen _ _ _ _ (- k)); try lia. rewrite Z.sub_diag, Z.pow_0_r. replace (0 - - k) with k by lia. nia.
    + rewrite (scaled_eq_gen _ _ _ _ (- k)) by lia. rewrite Z.sub_diag, Z.pow_0_r. replace (0 - - k) with k by lia.
      split.
      * intros E. destruct (Z.eq_dec k 0) as [K0|K0]; [left; unfold k in K0; lia|right]. fold k. nia.
      * intros [E|E]; [assert (k = 0) as K0 by (unfold k in *; lia); rewrite K0 in *; rewrite Z.pow_0_r, Z.div_1_r; lia|].
        fold k in E. nia.
Qed.

(* Int: truncation toward zero; Exact iff x is an integer *)
Theorem Int_correct x : WF x -> dform x = Ffinite -> 0 < exp x ->
  exists t a, Int x = (Some t, a) /\
    (scaled (Z.abs t) 0 <= mag x)%Q /\ (mag x < scaled (Z.abs t + 1) 0)%Q /\
    (t < 0 -> neg x = true) /\ (0 < t -> neg x = false) /\
    (a = Exact <-> (mag x == scaled (Z.abs t) 0)%Q) /\ (a <> Exact -> a = makeAcc (neg x)).
Proof.
  intros Wx Fx He. pose proof (WF_finite x Wx Fx) as Hx.
  destruct (intMant_floor x Hx He) as (Hlo & Hhi & Hint).
  destruct (MinPrec_spec x Hx Fx) as (Hmp & _ & Hdiv).
  pose proof (WFfin_val_bounds x Hx) as HN. destruct (WFfin_len x Hx) as [Hl HL].
  assert (Hpos : 0 <= intMant x).
  { unfold intMant. assert (0 <= val (mant x)) by (assert (0 < 10 ^ (mdigits (mant x) - 1)) by (apply pow10_pos; lia); lia).
    destruct (Z.ltb_spec (zlen (mant x) * DW) (exp x)); [apply Z.mul_nonneg_nonneg; [lia|apply Z.pow_nonneg; lia]|apply Z.div_pos; [lia|apply pow10_pos; lia]]. }
  unfold Int. rewrite Fx. destruct (Z.leb_spec (exp x) 0); [lia|].
  eexists _, _. split; [reflexivity|].
  assert (Eabs : Z.abs (if neg x then - intMant x else intMant x) = intMant x) by (destruct (neg x); lia).
  rewrite Eabs. split; [exact Hlo|]. split; [exact Hhi|].
  split; [destruct (neg x); [reflexivity|lia]|]. split; [destruct (neg x); [lia|reflexivity]|].
  assert (Hiff : MinPrec x <= exp x <-> (mag x == scaled (intMant x) 0)%Q).
  { rewrite Hint. split.
    - intros H1. destruct (Z.le_gt_cases (mdigits (mant x)) (exp x)); [left; assumption|right]. apply Hdiv; lia.
    - intros [H1|H1]; [lia|]. destruct (Z.le_gt_cases (mdigits (mant x)) (exp x)); [lia|]. apply Hdiv in H1; lia. }
  destruct (Z.leb_spec (MinPrec x) (exp x)) as [C|C].
  - split; [split; [intros _; apply Hiff; exact C|reflexivity]|congruence].
  - split; [split; [destruct (neg x); discriminate|intros E; apply Hiff in E; lia]|reflexivity].
Qed.

(* Rat returns exactly x *)
Theorem Rat_exact x : WF x -> dform x = Ffinite ->
  exists n d, Rat x = (Some (n, d), Exact) /\ 0 < d /\ Z.gcd n d = 1 /\
    (inject_Z n / inject_Z d == sval x)%Q.
Proof.
  intros Wx Fx. pose proof (WF_finite x Wx Fx) as Hx.
  pose proof (WFfin_val_bounds x Hx) as HN. destruct (WFfin_len x Hx) as [Hl HL].
  set (N := val (mant x)) in *. set (L := mdigits (mant x)) in *.
  assert (HN0 : 0 < N) by (assert (0 < 10 ^ (L - 1)) by (apply pow10_pos; lia); lia).
  unfold Rat. rewrite Fx. fold N. replace (zlen (mant x) * DW) with L by (unfold L, mdigits; cbv [DW]; lia).
  set (nd := if L <? exp x then (N * 10 ^ (exp x - L), 1) else (N, 10 ^ (L - exp x))).
  assert (Hnd : 0 < fst nd /\ 0 < snd nd /\ (inject_Z (fst nd) / inject_Z (snd nd) == mag x)%Q).
  { unfold nd, mag. fold N L. destruct (Z.ltb_spec L (exp x)); cbn [fst snd].
    - assert (0 < 10 ^ (exp x - L)) by (apply pow10_pos; lia). split; [nia|]. split; [lia|].
      unfold Qdiv. change (/ inject_Z 1)%Q with 1%Q. rewrite Qmult_1_r.
      unfold scaled. rewrite inject_Z_mult, Qpow10_nonneg by lia. reflexivity.
    - assert (HP : 0 < 10 ^ (L - exp x)) by (apply pow10_pos; lia). split; [lia|]. split; [lia|].
      unfold scaled. rewrite <- Qpow10_nonneg by lia. replace (exp x - L) with (- (L - exp x)) by lia.
      rewrite Qpow10_opp. reflexivity. }
  destruct nd as [n0 d0]. cbn [fst snd] in Hnd. destruct Hnd as (Hn0 & Hd0 & Hq).
  set (g := Z.gcd n0 d0).
  assert (Hg : 0 < g) by (unfold g; pose proof (Z.gcd_nonneg n0 d0); destruct (Z.eq_dec (Z.gcd n0 d0) 0) as [E|E]; [apply Z.gcd_eq_0_l in E; lia|lia]).
  destruct (Z.gcd_divide_l n0 d0) as [a Ha]. destruct (Z.gcd_divide_r n0 d0) as [b Hb]. fold g in Ha, Hb.
  assert (En : n0 / g = a) by (rewrite Ha; apply Z.div_mul; lia).
  assert (Ed : d0 / g = b) by (rewrite Hb; apply Z.div_mul; lia).
  rewrite En, Ed.
  assert (Hb0 : 0 < b) by nia. assert (Ha0 : 0 < a) by nia.
  exists (if neg x then - a else a), b. split; [reflexivity|]. split; [exact Hb0|]. split.
  - assert (G : Z.gcd a b = 1).
    { assert (H := Z.gcd_mul_mono_r_nonneg a b g ltac:(lia)). rewrite <- Ha, <- Hb in H. fold g in H. nia. }
    destruct (neg x); [rewrite Z.gcd_opp_l|]; exact G.
  - assert (Eq : (inject_Z n0 / inject_Z d0 == inject_Z a / inject_Z b)%Q).
    { unfold Qdiv, Qeq, Qmult, Qinv; cbn [Qnum Qden inject_Z].
      destruct d0; try lia. destruct b; try lia. cbn [Qnum Qden]. nia. }
    unfold sval. destruct (neg x).
    + rewrite <- Hq, Eq, inject_Z_opp. unfold Qdiv. ring.
    + rewrite <- Hq, Eq. reflexivity.
Qed.

(* ---- MantExp / BitsExp ---- *)
Theorem MantExp_split same m x : WF x -> dform x = Ffinite -> (same = true -> m = x) ->
  exists m', MantExp_mant same m x = OkR m' /\ WF m' /\ dform m' = Ffinite /\ exp m' = 0 /\
    neg m' = neg x /\ prec m' = prec x /\ dmode m' = dmode x /\
    (scaled 1 (-1) <= mag m' < scaled 1 0)%Q /\
    (mag m' * Qpow10 (MantExp_exp x) == mag x)%Q.
Proof.
  intros Wx Fx Hs. pose proof (WF_finite x Wx Fx) as Hx. pose proof Hx as [Hne Hok Htop Hprec Hexp Htail].
  unfold MantExp_mant, MantExp_exp, Copy. rewrite Fx.
  set (m' := mkDec (mant x) 0 (prec x) (dmode x) (acc x) Ffinite (neg x)).
  assert (Em : (if same then OkR m else OkR (with_exp (with_mant (mkDec (mant m) (exp m) (prec x) (dmode x) (acc x) (dform x) (neg x)) (mant x)) (exp x)))
               = OkR (if same then x else mkDec (mant x) (exp x) (prec x) (dmode x) (acc x) (dform x) (neg x))).
  { destruct same; [rewrite (Hs eq_refl)|]; reflexivity. }
  rewrite Fx in Em. rewrite Em.
  assert (Ex : (if same then x else mkDec (mant x) (exp x) (prec x) (dmode x) (acc x) Ffinite (neg x)) = x).
  { destruct same; [reflexivity|]. destruct x; cbn in *. subst. reflexivity. }
  rewrite Ex, Fx. exists (with_exp x 0).
  assert (Hx' : WFfin (with_exp x 0)).
  { constructor; cbn [mant exp prec with_exp]; try assumption. unfold MinExp, MaxExp. lia. }
  split; [reflexivity|]. split.
  { apply WF_intro; cbn [dform mant prec exp with_exp]; try assumption. unfold MinExp, MaxExp. lia. }
  repeat split; try assumption; try reflexivity.
  - exact (proj1 (mag_bounds _ Hx')).
  - exact (proj2 (mag_bounds _ Hx')).
  - unfold mag. cbn [mant exp with_exp]. unfold scaled. rewrite <- Qmult_assoc, <- Qpow10_add.
    replace (0 - mdigits (mant x) + exp x) with (exp x - mdigits (mant x)) by lia. reflexivity.
Qed.

Theorem BitsExp_denotes x : dform x = Ffinite ->
  (scaled (val (BitsExp_mant x)) (exp x - 19 * zlen (BitsExp_mant x)) == mag x)%Q.
Proof. intros Fx. unfold BitsExp_mant, mag, mdigits. rewrite Fx. cbv [DW]. reflexivity. Qed.

(* SetMantExp(mant, MantExp(mant)) rebuilds x: the value is x's and nothing is lost *)
Theorem MantExp_inverse x z m0 : WF x -> dform x = Ffinite -> mdigits (mant x) < 4294967296 - 18 ->
  exists m', MantExp_mant false m0 x = OkR m' /\
    OpPost (prec x) (dmode x) (neg x) (mag x) (SetMantExp false z m' (MantExp_exp x)).
Proof.
  intros Wx Fx Lx.
  destruct (MantExp_split false m0 x Wx Fx ltac:(discriminate)) as (m' & E & Wm & Fm & Em0 & Nm & Pm & Mm & _ & Hv).
  exists m'. split; [exact E|].
  assert (Lm : mdigits (mant m') < 4294967296 - 18).
  { unfold MantExp_mant, Copy in E. rewrite Fx in E. cbn in E. injection E as <-. exact Lx. }
  pose proof (SetMantExp_correct false z m' (MantExp_exp x) Wm Fm Lm ltac:(discriminate)) as H.
  rewrite Pm, Mm, Nm in H. destruct H as (z' & E' & HS & R). exists z'. split; [exact E'|]. split; [|exact R].
  eapply result_spec_ext; [exact Hv|exact HS].
Qed.
