(* L3/StoreProofs.v — invariants of programs over the store (C08, C09). *)
From Coq Require Import ZArith List Bool Lia QArith.
From Dec Require Import Base.Words Base.WordsProofs Base.QPow L3.Decimal L3.Cmp L3.CmpProofs
  L3.Round L3.Arith L3.Convert Spec.Rounding Spec.RoundingFacts L3.RoundProofs L3.ArithProofs
  L3.SpecialProofs L3.ConvertProofs L3.Store.
Open Scope Z_scope.

Definition WFstore (s : store) : Prop := Forall WF s.

Lemma WFstore_get s i : WFstore s -> WF (get s i).
Proof.
  intros H. unfold get. revert i. induction H as [|a s Ha Hs IH]; intros i; destruct i; cbn [nth]; try assumption; try reflexivity.
  apply IH.
Qed.

Lemma WFstore_set s i d : WFstore s -> WF d -> WFstore (set s i d).
Proof.
  intros H Hd. revert i. induction H as [|a s Ha Hs IH]; intros i; cbn [set]; [constructor|].
  destruct i; constructor; try assumption. apply IH.
Qed.

Lemma set_other s i j d : i <> j -> get (set s i d) j = get s j.
Proof.
  revert i j; induction s as [|a s IH]; intros i j H; [destruct i; reflexivity|].
  destruct i, j; try reflexivity; try congruence. cbn [set get nth]. apply IH. congruence.
Qed.

(* result of an operation is canonical (and it did not crash) *)
Definition ores_WF (r : ores) : Prop :=
  match r with OkR d | NaNR d => WF d | CrashR => False end.

Lemma put_WF s z r : WFstore s -> ores_WF r -> WFstore (fst (put s z r)) /\ r_out (snd (put s z r)) <> Crash.
Proof.
  intros Hs Hr. destruct r; cbn [put fst snd ores_WF r_out] in *; try contradiction;
    (split; [apply WFstore_set; assumption|discriminate]).
Qed.

Lemma OpPost_WF p md ng v r : OpPost p md ng v r -> ores_WF r.
Proof. intros (z' & -> & _ & _ & _ & W). exact W. Qed.
Lemma AddPost_WF p md q r : AddPost p md q r -> ores_WF r.
Proof. intros (z' & -> & _ & _ & W & _). exact W. Qed.

(* ---- per-operation canonical-form lemmas ---- *)
Lemma alias_eq s z x : Nat.eqb z x = true -> get s z = get s x.
Proof. intros E. apply Nat.eqb_eq in E. now subst. Qed.

Lemma Set_WF same z x : WF x -> 0 <= prec z <= MaxPrec -> (same = true -> z = x) ->
  (dform x = Ffinite -> mdigits (mant x) < 4294967296 - 18) -> ores_WF (Set_ same z x).
Proof.
  intros Wx Pz Hs Hl. destruct (dform x) eqn:Fx.
  - destruct (Set_nonfinite same z x ltac:(congruence) Pz (WF_prec x Wx) ltac:(intros E; rewrite (Hs E); auto)) as (z' & E & _ & _ & _ & W & _).
    rewrite E. exact W.
  - eapply OpPost_WF. apply Set_correct; auto.
  - destruct (Set_nonfinite same z x ltac:(congruence) Pz (WF_prec x Wx) ltac:(intros E; rewrite (Hs E); auto)) as (z' & E & _ & _ & _ & W & _).
    rewrite E. exact W.
Qed.

Lemma lift_neg_WF f r : (forall d, WF d -> WF (f d)) -> ores_WF r -> ores_WF (lift f r).
Proof. intros Hf Hr. destruct r; cbn [lift ores_WF] in *; auto. Qed.

Lemma Add_WF zx zy z x y :
  WF x -> WF y -> 0 <= prec z <= MaxPrec -> (zx = true -> z = x) -> (zy = true -> z = y) ->
  add_span x y + 40 < 4294967296 - 18 -> ores_WF (Add zx zy z x y).
Proof.
  intros Wx Wy Pz Hzx Hzy Hsp.
  pose proof (Add_special zx zy z x y Wx Wy Pz Hzx Hzy) as HS. unfold add_table in HS.
  pose proof (mdigits_le_span_x x y). pose proof (mdigits_le_span_y x y).
  assert (Pz0 : forall z0, z0 = (if prec z =? 0 then with_prec z (umax32 (prec x) (prec y)) else z) -> 0 <= prec z0 <= MaxPrec).
  { intros z0 ->. pose proof (WF_prec x Wx). pose proof (WF_prec y Wy). destruct (prec z =? 0); cbn [prec with_prec]; [rewrite umax32_spec|]; lia. }
  destruct (dform x) eqn:Fx, (dform y) eqn:Fy; cbn [SpecialPost] in HS;
    try (destruct HS as (z' & E & HS'); rewrite E; cbn [ores_WF]; tauto).
  - unfold Add. rewrite Fx, Fy. apply Set_WF; auto.
    + intros E. specialize (Hzy E). subst z. pose proof (WF_finite y Wy Fy) as [_ _ _ Hp _ _].
      destruct (Z.eqb_spec (prec y) 0); [lia|reflexivity].
    + intros _. lia.
  - unfold Add. rewrite Fx, Fy. apply Set_WF; auto.
    + intros E. specialize (Hzx E). subst z. pose proof (WF_finite x Wx Fx) as [_ _ _ Hp _ _].
      destruct (Z.eqb_spec (prec x) 0); [lia|reflexivity].
    + intros _. lia.
  - eapply AddPost_WF. apply Add_correct; auto.
  - destruct (Bool.eqb (neg x) (neg y)); cbn [SpecialPost] in HS; destruct HS as (z' & E & HS'); rewrite E; cbn [ores_WF]; tauto.
Qed.

Lemma Mul_WF z x y : WF x -> WF y -> 0 <= prec z <= MaxPrec ->
  mdigits (mant x) + mdigits (mant y) < 4294967296 - 18 -> ores_WF (Mul z x y).
Proof.
  intros Wx Wy Pz Hl. pose proof (Mul_special z x y Wx Wy Pz) as HS. unfold mul_table in HS.
  destruct (dform x) eqn:Fx, (dform y) eqn:Fy; cbn [SpecialPost] in HS;
    try (destruct HS as (z' & E & HS'); rewrite E; cbn [ores_WF]; tauto).
  eapply OpPost_WF. apply Mul_correct; auto.
Qed.

Lemma Quo_WF z x y : WF x -> WF y -> 0 <= prec z <= MaxPrec ->
  mdigits (mant x) + mdigits (mant y) + eff_prec z x y + 38 < 4294967296 - 18 -> ores_WF (Quo z x y).
Proof.
  intros Wx Wy Pz Hl. pose proof (Quo_special z x y Wx Wy Pz) as HS. unfold quo_table in HS.
  destruct (dform x) eqn:Fx, (dform y) eqn:Fy; cbn [SpecialPost] in HS;
    try (destruct HS as (z' & E & HS'); rewrite E; cbn [ores_WF]; tauto).
  eapply OpPost_WF. apply Quo_correct; auto.
Qed.

Lemma SetPrec_WF z p : WF z -> 0 <= p -> (dform z = Ffinite -> mdigits (mant z) < 4294967296 - 18) -> ores_WF (SetPrec z p).
Proof.
  intros Wz Hp Hl. destruct (Z.eq_dec p 0) as [->|Hnz].
  - unfold SetPrec. cbn [Z.eqb]. destruct (dform (with_prec (with_acc z Exact) 0)) eqn:F; cbn [ores_WF];
      apply WF_nonfinite; cbn [dform prec with_form with_acc with_prec] in *; try congruence; try discriminate; unfold MaxPrec; lia.
  - destruct (dform z) eqn:Fz.
    + unfold SetPrec. destruct (Z.eqb_spec p 0); [contradiction|]. cbn [prec with_acc with_prec].
      destruct (_ <? prec z); [unfold round; cbn [dform with_acc with_prec]; rewrite Fz; cbn [of_opt ores_WF]|cbn [ores_WF]];
        apply WF_nonfinite; cbn [dform prec with_acc with_prec]; try (rewrite Fz; discriminate);
        destruct (MaxPrec <? p) eqn:E; unfold MaxPrec in *; try lia; apply Z.ltb_ge in E; lia.
    + eapply OpPost_WF. apply SetPrec_correct; auto. lia.
    + unfold SetPrec. destruct (Z.eqb_spec p 0); [contradiction|]. cbn [prec with_acc with_prec].
      destruct (_ <? prec z); [unfold round; cbn [dform with_acc with_prec]; rewrite Fz; cbn [of_opt ores_WF]|cbn [ores_WF]];
        apply WF_nonfinite; cbn [dform prec with_acc with_prec]; try (rewrite Fz; discriminate);
        destruct (MaxPrec <? p) eqn:E; unfold MaxPrec in *; try lia; apply Z.ltb_ge in E; lia.
Qed.

Lemma setBits64_WF z ng x e : 0 <= x < 18446744073709551616 -> 0 <= prec z <= MaxPrec -> ores_WF (setBits64 z ng x e).
Proof.
  intros Hx Pz. destruct (Z.eq_dec x 0) as [->|Hnz].
  - destruct (setBits64_zero z ng e Pz) as (z' & E & _ & _ & _ & _ & _ & W). rewrite E. exact W.
  - eapply OpPost_WF. apply setBits64_correct; [lia|exact Pz].
Qed.

Lemma WF_prec_range s i : WFstore s -> 0 <= prec (get s i) <= MaxPrec.
Proof. intros H. apply WF_prec. now apply WFstore_get. Qed.

Definition fin_short (d : Dec) : Prop := dform d = Ffinite -> mdigits (mant d) < 4294967296 - 18.

(* Side conditions of an operation: the documented contracts plus resource bounds (digit
   spans below 2^32, because the code counts digits in uint32).  Operations not listed
   (Sub, FMA, SetRat, MantExp, the getters with results, Gob) are outside this theorem. *)
Definition valid_op (s : store) (o : op) : Prop :=
  match o with
  | OAdd z x y => add_span (get s x) (get s y) + 40 < 4294967296 - 18
  | OMul z x y => mdigits (mant (get s x)) + mdigits (mant (get s y)) < 4294967296 - 18
  | OQuo z x y => mdigits (mant (get s x)) + mdigits (mant (get s y)) + eff_prec (get s z) (get s x) (get s y) + 38 < 4294967296 - 18
  | OSet z x | ONeg z x | OAbs z x => fin_short (get s x)
  | OCopy z x => True
  | OSetPrec z p => 0 <= p /\ fin_short (get s z)
  | OSetMode _ _ | OSetInf _ _ => True
  | OSetInt64 z x => MinInt64 <= x <= MaxInt64
  | OSetUint64 z x => 0 <= x <= MaxUint64
  | ONewDecimal z x e => MinInt64 <= x <= MaxInt64
  | OSetInt z x => exists D, Z.abs x < 10 ^ D /\ 0 <= D /\ D + 19 < 4294967296 - 18
  | OSetBitsExp z e ws => words_ok ws = true /\ 19 * zlen ws + 19 < 4294967296 - 18
  | OSetMantExp z m e => fin_short (get s m)
  | OCmp _ _ | OSign _ | OSignbit _ | OIsZero _ | OIsInf _ | OMinPrec _ | OIsInt _ | OBitsExp _
  | OInt64 _ | OUint64 _ | OInt _ | ORat _ | OGobEncode _ => True
  | _ => False
  end.

Lemma WF_with_neg' z b : WF z -> WF (with_neg z b).
Proof. apply WF_with_neg. Qed.

Lemma Copy_WF same z x : WF z -> WF x -> ores_WF (Copy same z x).
Proof.
  intros Wz Wx. unfold Copy. destruct same; [exact Wz|].
  destruct (dform x) eqn:Fx; cbn [ores_WF].
  - apply WF_nonfinite; cbn [dform prec]; [discriminate|apply WF_prec; exact Wx].
  - pose proof (WF_finite x Wx Fx) as Hx. pose proof (WF_reprec x (prec x) (dmode x) (acc x) Hx ltac:(destruct Hx; lia)) as W.
    unfold with_exp, with_mant. cbn [mant exp prec dmode acc dform neg]. exact W.
  - apply WF_nonfinite; cbn [dform prec]; [discriminate|apply WF_prec; exact Wx].
Qed.

Theorem step_preserves_WF s o : WFstore s -> valid_op s o ->
  WFstore (fst (step s o)) /\ r_out (snd (step s o)) <> Crash.
Proof.
  intros Hs Hv. pose proof (WFstore_get s) as G. pose proof (fun i => WF_prec_range s i Hs) as P.
  destruct o; cbn [valid_op] in Hv; try contradiction; cbn [step];
    try (split; [exact Hs|discriminate]);
    try (destruct (Int64 _)); try (destruct (Uint64 _)); try (split; [exact Hs|discriminate]).
  - (* Add *) apply put_WF; [exact Hs|]. apply Add_WF; auto; intros E; apply Nat.eqb_eq in E; now subst.
  - (* Mul *) apply put_WF; [exact Hs|]. apply Mul_WF; auto.
  - (* Quo *) apply put_WF; [exact Hs|]. apply Quo_WF; auto.
  - (* Set *) apply put_WF; [exact Hs|]. apply Set_WF; auto. intros E; apply Nat.eqb_eq in E; now subst.
  - (* Neg *) apply put_WF; [exact Hs|]. unfold Neg_. apply lift_neg_WF; [intros d Wd; now apply WF_with_neg|].
    apply Set_WF; auto. intros E; apply Nat.eqb_eq in E; now subst.
  - (* Abs *) apply put_WF; [exact Hs|]. unfold Abs_. apply lift_neg_WF; [intros d Wd; now apply WF_with_neg|].
    apply Set_WF; auto. intros E; apply Nat.eqb_eq in E; now subst.
  - (* Copy *) apply put_WF; [exact Hs|]. apply Copy_WF; auto.
  - (* SetPrec *) destruct Hv as [Hp Hl]. apply put_WF; [exact Hs|]. apply SetPrec_WF; auto.
  - (* SetMode *) apply put_WF; [exact Hs|]. unfold SetMode. cbn [ores_WF]. exact (G z Hs).
  - (* SetInf *) apply put_WF; [exact Hs|]. unfold SetInf. cbn [ores_WF].
    apply WF_nonfinite; cbn [dform prec with_neg with_form with_acc]; [discriminate|apply P].
  - (* SetInt64 *) apply put_WF; [exact Hs|]. unfold SetInt64, int64_abs_as_u64, u64, MinInt64, MaxInt64 in *.
    apply setBits64_WF; [|apply P]. rewrite Z.mod_small by lia. lia.
  - (* SetUint64 *) apply put_WF; [exact Hs|]. unfold SetUint64, MaxUint64 in *. apply setBits64_WF; [lia|apply P].
  - (* SetInt *) destruct Hv as (D & H1 & H2 & H3). apply put_WF; [exact Hs|].
    destruct (Z.eq_dec x 0) as [->|Hnz].
    + unfold SetInt. cbn [Z.eqb]. pose proof (P z).
      destruct (prec (with_form (with_neg (with_acc (get s z) Exact) (0 <? 0)) Fzero) =? 0) eqn:E; cbn [ores_WF];
        apply WF_nonfinite; cbn [dform prec with_prec with_form with_neg with_acc]; try discriminate; unfold DefaultDecimalPrec, MaxPrec in *; lia.
    + eapply OpPost_WF. apply (SetInt_correct (get s z) x D); auto.
  - (* NewDecimal *) apply put_WF; [exact Hs|]. unfold NewDecimal, int64_abs_as_u64, u64, MinInt64, MaxInt64 in *.
    apply setBits64_WF; [rewrite Z.mod_small by lia; lia|cbn; unfold MaxPrec; lia].
  - (* SetMantExp *) apply put_WF; [exact Hs|].
    destruct (dform (get s m)) eqn:Fm.
    + unfold SetMantExp. pose proof (Copy_WF (Nat.eqb z m) (get s z) (get s m) (G z Hs) (G m Hs)) as HC.
      destruct (Copy (Nat.eqb z m) (get s z) (get s m)) as [d| |] eqn:EC; try exact HC.
      assert (Fd : dform d = Fzero).
      { unfold Copy in EC. destruct (Nat.eqb_spec z m); [subst; injection EC as <-; exact Fm|]. rewrite Fm in EC. injection EC as <-. reflexivity. }
      rewrite Fd. exact HC.
    + eapply OpPost_WF. apply SetMantExp_correct; auto. intros E; apply Nat.eqb_eq in E; now subst.
    + unfold SetMantExp. pose proof (Copy_WF (Nat.eqb z m) (get s z) (get s m) (G z Hs) (G m Hs)) as HC.
      destruct (Copy (Nat.eqb z m) (get s z) (get s m)) as [d| |] eqn:EC; try exact HC.
      assert (Fd : dform d = Finf).
      { unfold Copy in EC. destruct (Nat.eqb_spec z m); [subst; injection EC as <-; exact Fm|]. rewrite Fm in EC. injection EC as <-. reflexivity. }
      rewrite Fd. exact HC.
  - (* SetBitsExp *) destruct Hv as [Hok Hl]. apply put_WF; [exact Hs|].
    pose proof (val_nonneg ws Hok). destruct (Z.eq_dec (val ws) 0) as [E0|Hnz].
    + unfold SetBitsExp. assert (En : norm ws = []) by (apply norm_nil_iff; assumption). rewrite En. cbn [ores_WF].
      apply WF_nonfinite; cbn [dform prec with_exp with_form with_acc with_neg with_mant]; [discriminate|apply P].
    + eapply OpPost_WF. apply SetBitsExp_correct; auto. lia.
  - (* Int *) destruct (Int (get s x)) as [[v|] a]; split; try exact Hs; discriminate.
  - (* Rat *) destruct (Rat (get s x)) as [[[n d]|] a]; split; try exact Hs; discriminate.
Qed.

(* every program of valid operations keeps every variable canonical and never crashes *)
Fixpoint valid_prog (s : store) (p : list op) : Prop :=
  match p with
  | [] => True
  | o :: p' => valid_op s o /\ valid_prog (fst (step s o)) p'
  end.

Theorem run_preserves_WF p : forall s, WFstore s -> valid_prog s p ->
  Forall (fun rs => WFstore (snd rs) /\ r_out (fst rs) <> Crash) (run s p).
Proof.
  induction p as [|o p IH]; intros s Hs Hv; cbn [run]; [constructor|].
  destruct Hv as [Hv1 Hv2]. destruct (step_preserves_WF s o Hs Hv1) as [H1 H2].
  destruct (step s o) as [s' r] eqn:E. cbn [fst snd] in *.
  destruct (r_out r) eqn:Er; try congruence.
  - constructor; [cbn [fst snd]; split; [assumption|rewrite Er; discriminate]|]. apply IH; assumption.
  - constructor; [cbn [fst snd]; split; [assumption|rewrite Er; discriminate]|]. apply IH; assumption.
Qed.

(* operands that are not the receiver are never modified (C09, model level) *)
Definition receiver (o : op) : option nat :=
  match o with
  | OAdd z _ _ | OSub z _ _ | OMul z _ _ | OQuo z _ _ | OFMA z _ _ _ | OSet z _ | ONeg z _ | OAbs z _ | OCopy z _
  | OSetPrec z _ | OSetMode z _ | OSetInf z _ | OSetInt64 z _ | OSetUint64 z _ | OSetInt z _ | OSetRat z _ _
  | ONewDecimal z _ _ | OSetMantExp z _ _ | OSetBitsExp z _ _ | OGobDecode z _ | OGobRoundTrip z _ => Some z
  | OMantExp _ (Some m) => Some m
  | _ => None
  end.

Theorem operands_untouched s o i : receiver o <> Some i -> get (fst (step s o)) i = get s i.
Proof.
  intros H. destruct o; cbn [receiver] in H; cbn [step];
    try reflexivity;
    try (match goal with |- context [put s ?z ?r] => destruct r; cbn [put fst]; try reflexivity; apply set_other; congruence end).
  - destruct m as [m|]; [|reflexivity]. destruct (MantExp_mant _ _ _); cbn [fst]; try reflexivity. apply set_other. congruence.
  - destruct (Int64 _); reflexivity.
  - destruct (Uint64 _); reflexivity.
  - destruct (Int _) as [[v|] a]; reflexivity.
  - destruct (Rat _) as [[[n d]|] a]; reflexivity.
  - destruct (GobDecode _ _); cbn [fst]; try reflexivity; apply set_other; congruence.
  - destruct (GobDecode _ _); cbn [fst]; try reflexivity; apply set_other; congruence.
Qed.
