(* L3/Cmp.v — model of Cmp, ord, ucmp and the sign predicates (decimal.go). *)
From Dec Require Export L3.Decimal.
Open Scope Z_scope.

(* ord: -2 -Inf, -1 negative finite, 0 zero, 1 positive finite, 2 +Inf *)
Definition ord (x : Dec) : Z :=
  match dform x with
  | Fzero => 0
  | Ffinite => if neg x then -1 else 1
  | Finf => if neg x then -2 else 2
  end.

(* The word loop of ucmp, run from the most significant word of both
   mantissas, a missing word counting as 0. Arguments are big-endian. *)
Fixpoint ucmp_be (xs ys : list Z) {struct xs} : Z :=
  match xs with
  | [] => if forallb (fun w => w =? 0) ys then 0 else -1
  | x :: xs' =>
      match ys with
      | [] => if x =? 0 then ucmp_be xs' [] else 1
      | y :: ys' => if x <? y then -1 else if y <? x then 1 else ucmp_be xs' ys'
      end
  end.

Definition ucmp (x y : Dec) : Z :=
  if exp x <? exp y then -1
  else if exp y <? exp x then 1
  else ucmp_be (rev (mant x)) (rev (mant y)).

Definition Cmp (x y : Dec) : Z :=
  let mx := ord x in let my := ord y in
  if mx <? my then -1
  else if my <? mx then 1
  else if mx =? -1 then ucmp y x
  else if mx =? 1 then ucmp x y
  else 0.

Definition Sign (x : Dec) : Z :=
  match dform x with Fzero => 0 | _ => if neg x then -1 else 1 end.
Definition Signbit (x : Dec) : bool := neg x.
Definition IsZero (x : Dec) : bool := form_eqb (dform x) Fzero.
Definition IsInf (x : Dec) : bool := form_eqb (dform x) Finf.
