(* L3/StoreProofs2.v — the program-level canonical-form invariant (C08) for the
   WHOLE operation set of L3/Store.v: StoreProofs.v covers 29 of the 35
   operations; here Sub, FMA, SetRat, MantExp (with and without out-parameter),
   GobDecode and GobRoundTrip are added. *)
From Coq Require Import ZArith List Bool Lia QArith.
From Dec Require Import Base.Words Base.WordsProofs Base.QPow L3.Decimal L3.Cmp L3.CmpProofs
  L3.Round L3.Arith L3.Convert Spec.Rounding Spec.RoundingFacts L3.RoundProofs L3.ArithProofs
  L3.SpecialProofs L3.FmaProofs L3.SpecialProofs2 L3.ConvertProofs L3.ConvProofs2
  L4.Gob L4.GobProofs L3.Store L3.StoreProofs.
Open Scope Z_scope.

(* ------------------------------------------------------------------ *)
(* Add / Sub with the digit-span bound required only where it is used
   (both operands finite); non-finite operands may carry any stale words *)

Definition addsub_valid (x y : Dec) : Prop :=
  fin_short x /\ fin_short y /\
  (dform x = Ffinite -> dform y = Ffinite -> add_span x y + 40 < 4294967296 - 18).

Lemma span_addsub_valid x y : add_span x y + 40 < 4294967296 - 18 -> addsub_valid x y.
Proof.
  intros H. pose proof (mdigits_le_span_x x y). pose proof (mdigits_le_span_y x y).
  split; [intros _; lia|]. split; [intros _; lia|]. intros _ _. exact H.
Qed.

Lemma prec0_range z x y : WF x -> WF y -> 0 <= prec z <= MaxPrec ->
  0 <= prec (if prec z =? 0 then with_prec z (umax32 (prec x) (prec y)) else z) <= MaxPrec.
Proof.
  intros Wx Wy Pz. pose proof (WF_prec x Wx). pose proof (WF_prec y Wy).
  destruct (prec z =? 0); cbn [prec with_prec]; [rewrite umax32_spec|]; lia.
Qed.

Lemma Add_WF_gen zx zy z x y :
  WF x -> WF y -> 0 <= prec z <= MaxPrec -> (zx = true -> z = x) -> (zy = true -> z = y) ->
  addsub_valid x y -> ores_WF (Add zx zy z x y).
Proof.
  intros Wx Wy Pz Hzx Hzy (Lx & Ly & Hsp).
  pose proof (Add_special zx zy z x y Wx Wy Pz Hzx Hzy) as HS. unfold add_table in HS.
  pose proof (prec0_range z x y Wx Wy Pz) as Pz0.
  destruct (dform x) eqn:Fx, (dform y) eqn:Fy; cbn [SpecialPost] in HS;
    try (destruct HS as (z' & E & HS'); rewrite E; cbn [ores_WF]; tauto).
  - unfold Add. rewrite Fx, Fy. apply Set_WF; auto.
    intros E. specialize (Hzy E). subst z. pose proof (WF_finite y Wy Fy) as [_ _ _ Hp _ _].
    destruct (Z.eqb_spec (prec y) 0); [lia|reflexivity].
  - unfold Add. rewrite Fx, Fy. apply Set_WF; auto.
    intros E. specialize (Hzx E). subst z. pose proof (WF_finite x Wx Fx) as [_ _ _ Hp _ _].
    destruct (Z.eqb_spec (prec x) 0); [lia|reflexivity].
  - eapply AddPost_WF. apply Add_correct; auto.
  - destruct (Bool.eqb (neg x) (neg y)); cbn [SpecialPost] in HS; destruct HS as (z' & E & HS'); rewrite E; cbn [ores_WF]; tauto.
Qed.

Lemma Sub_WF zx zy z x y :
  WF x -> WF y -> 0 <= prec z <= MaxPrec -> (zx = true -> z = x) -> (zy = true -> z = y) ->
  addsub_valid x y -> ores_WF (Sub zx zy z x y).
Proof.
  intros Wx Wy Pz Hzx Hzy (Lx & Ly & Hsp).
  pose proof (Sub_special zx zy z x y Wx Wy Pz Hzx Hzy) as HS. unfold sub_table in HS.
  pose proof (prec0_range z x y Wx Wy Pz) as Pz0.
  destruct (dform x) eqn:Fx, (dform y) eqn:Fy; cbn [SpecialPost] in HS;
    try (destruct HS as (z' & E & HS'); rewrite E; cbn [ores_WF]; tauto).
  - (* 0 - finite y *)
    unfold Sub. rewrite Fx, Fy.
    set (z0 := if prec z =? 0 then with_prec z (umax32 (prec x) (prec y)) else z) in *.
    pose proof (WF_finite y Wy Fy) as [_ _ _ Hp _ _].
    assert (Pz1 : 1 <= prec z0 <= MaxPrec).
    { pose proof (WF_prec x Wx). unfold z0. destruct (Z.eqb_spec (prec z) 0); cbn [prec with_prec]; [rewrite umax32_spec|]; lia. }
    assert (Hal : zy = true -> z0 = y).
    { intros E. specialize (Hzy E). subst z. unfold z0. destruct (Z.eqb_spec (prec y) 0); [lia|reflexivity]. }
    eapply OpPost_WF. apply (SubNeg_correct zy z0 y Wy Fy (Ly Fy) Pz1 Hal).
  - (* finite x - 0 *)
    unfold Sub. rewrite Fx, Fy. apply Set_WF; auto.
    intros E. specialize (Hzx E). subst z. pose proof (WF_finite x Wx Fx) as [_ _ _ Hp _ _].
    destruct (Z.eqb_spec (prec x) 0); [lia|reflexivity].
  - eapply AddPost_WF. apply Sub_correct; auto.
  - destruct (Bool.eqb (neg x) (neg y)); cbn [SpecialPost] in HS; destruct HS as (z' & E & HS'); rewrite E; cbn [ores_WF]; tauto.
Qed.

(* ------------------------------------------------------------------ *)
(* FMA.  The all-finite case does not go through FMA_correct here: its span hypothesis
   quantifies over every canonical representation of the exact product (which may carry
   arbitrarily many low zero words); instead the shape of the product the model actually
   computes is pinned down (umul_shape, L3/FmaProofs.v) and a concrete bound (fma_span,
   ibid.) is used. *)

Lemma FMA_finite_WF zu z x y u :
  WF x -> WF y -> WF u -> dform x = Ffinite -> dform y = Ffinite -> dform u = Ffinite ->
  0 <= prec z <= MaxPrec -> (zu = true -> z = u) ->
  mdigits (mant x) + mdigits (mant y) < 4294967296 - 18 ->
  fma_span x y u + 58 < 4294967296 - 18 ->
  ores_WF (FMA zu z x y u).
Proof.
  intros Wx Wy Wu Fx Fy Fu Pz Hzu Hlen Hspan.
  pose proof (WF_finite x Wx Fx) as Hx. pose proof (WF_finite y Wy Fy) as Hy. pose proof (WF_finite u Wu Fu) as Hu.
  pose proof Hx as [_ _ _ Hpx _ _]. pose proof Hy as [_ _ _ Hpy _ _]. pose proof Hu as [_ _ _ Hpu _ _].
  unfold FMA. rewrite Fu, Fx, Fy.
  set (p := eff_prec3 z x y u).
  assert (Hpe : 1 <= p <= MaxPrec).
  { unfold p, eff_prec3. rewrite !umax32_spec. destruct (Z.eqb_spec (prec z) 0); lia. }
  set (z1 := if prec z =? 0 then with_prec z (umax32 (umax32 (prec x) (prec y)) (prec u)) else z).
  assert (Hp1 : prec z1 = p) by (unfold z1, p, eff_prec3; destruct (prec z =? 0); reflexivity).
  assert (Hal : zu = true -> z1 = u).
  { intros E. unfold z1. rewrite (Hzu E). destruct (Z.eqb_spec (prec u) 0); [lia|reflexivity]. }
  set (ng := xorb (neg x) (neg y)).
  set (z0 := with_neg (if zu then mkDec [] 0 (prec z1) (dmode z1) Exact Fzero false else z1) ng).
  assert (Hp0 : prec z0 = p) by (unfold z0; destruct zu; cbn [prec with_neg]; assumption).
  set (zM := with_prec z0 MaxPrec).
  assert (PM : 0 <= prec zM <= MaxPrec) by (cbn; unfold MaxPrec; lia).
  pose proof (Mul_correct zM x y Wx Wy Fx Fy PM Hlen) as HMul.
  assert (EMul : Mul zM x y = of_opt (umul zM x y)).
  { unfold Mul. rewrite Fx, Fy. cbn [prec zM with_prec]. unfold MaxPrec at 1. cbn [Z.eqb].
    unfold zM, z0. destruct zu; reflexivity. }
  rewrite EMul in HMul. destruct HMul as (zP & EP & _ & HpP & _ & WP).
  destruct (umul zM x y) as [zP'|] eqn:EU; [|discriminate]. cbn [of_opt] in EP. injection EP as ->.
  cbn [form_eqb].
  set (zPp := with_prec zP (prec z0)).
  assert (Precv : 0 <= prec (if zu then z1 else zPp) <= MaxPrec).
  { destruct zu; [rewrite Hp1|unfold zPp; cbn [prec with_prec]; rewrite Hp0]; lia. }
  destruct (dform zP) eqn:FP.
  - (* the product underflowed to zero *)
    assert (WPp : WF zPp).
    { apply WF_nonfinite; unfold zPp; cbn [dform prec with_prec]; [rewrite FP; discriminate|rewrite Hp0; lia]. }
    apply Add_WF_gen; auto.
    + destruct zu; [discriminate|reflexivity].
    + intros E. subst zu. exact (Hal eq_refl).
    + split; [intros C; unfold zPp in C; cbn [dform with_prec] in C; congruence|].
      split; [intros _; unfold fma_span in Hspan; lia|].
      intros C; unfold zPp in C; cbn [dform with_prec] in C; congruence.
  - (* finite product: the exact one *)
    assert (Hrecv : prec (if zu then z1 else zPp) <> 0).
    { destruct zu; [rewrite Hp1|unfold zPp; cbn [prec with_prec]; rewrite Hp0]; lia. }
    change (Add (negb zu) zu (if zu then z1 else zPp) zPp u) with (Add (negb zu) zu (if zu then z1 else zPp) (with_prec zP (prec z0)) u).
    rewrite (Add_prec_x_irrelevant (negb zu) zu (if zu then z1 else zPp) zP u (prec z0) Hrecv FP Fu).
    destruct (umul_shape zM x y zP Hx Hy Hlen ltac:(cbn [prec zM with_prec]; unfold MaxPrec; lia) EU FP) as [Hmd Hex].
    eapply AddPost_WF. apply Add_correct; auto.
    unfold add_span. rewrite Hmd. unfold fma_span in Hspan. clear - Hspan Hex. lia.
  - (* the product overflowed to infinity *)
    assert (WPp : WF zPp).
    { apply WF_nonfinite; unfold zPp; cbn [dform prec with_prec]; [rewrite FP; discriminate|rewrite Hp0; lia]. }
    apply Add_WF_gen; auto.
    + destruct zu; [discriminate|reflexivity].
    + intros E. subst zu. exact (Hal eq_refl).
    + split; [intros C; unfold zPp in C; cbn [dform with_prec] in C; congruence|].
      split; [intros _; unfold fma_span in Hspan; lia|].
      intros C; unfold zPp in C; cbn [dform with_prec] in C; congruence.
Qed.

(* resource bounds of FMA: digit counts of the product and of the aligned final addition
   (counted in uint32 by the code).  No range condition on the exact product is needed for
   canonical form: outside the exponent range the value is wrong (known finding K3) but the
   result is still canonical. *)
Definition fma_valid (x y u : Dec) : Prop :=
  fin_short u /\
  (dform x = Ffinite -> dform y = Ffinite -> mdigits (mant x) + mdigits (mant y) < 4294967296 - 18) /\
  (dform x = Ffinite -> dform y = Ffinite -> dform u = Ffinite -> fma_span x y u + 58 < 4294967296 - 18).

Lemma FMA_WF zu z x y u :
  WF x -> WF y -> WF u -> 0 <= prec z <= MaxPrec -> (zu = true -> z = u) ->
  fma_valid x y u -> ores_WF (FMA zu z x y u).
Proof.
  intros Wx Wy Wu Pz Hzu (Lu & Lxy & Hfin).
  pose proof (FMA_special zu z x y u Wx Wy Wu Pz Hzu) as HS. unfold fma_table, mul_table in HS.
  pose proof (WF_prec u Wu) as Pu.
  destruct (dform x) eqn:Fx, (dform y) eqn:Fy, (dform u) eqn:Fu; cbn [SpecialPost] in HS;
    try (destruct HS as (z' & E & HS'); rewrite E; cbn [ores_WF]; tauto);
    try (destruct (Bool.eqb _ _); cbn [SpecialPost] in HS; destruct HS as (z' & E & HS'); rewrite E; cbn [ores_WF]; tauto);
    try (eapply OpPost_WF; apply (FMA_zero_product zu z x y u Wx Wy Wu Fu
                     ltac:(rewrite Fx, Fy; first [left; split; [reflexivity|discriminate]|right; split; [reflexivity|discriminate]])
                     (Lu Fu) Pz Hzu)).
  - eapply OpPost_WF. apply (FMA_zero_addend zu z x y u Wx Wy Fx Fy Fu Pz Pu (Lxy eq_refl eq_refl)).
  - apply FMA_finite_WF; auto.
Qed.

(* ------------------------------------------------------------------ *)
(* SetRat *)
Definition setrat_valid (z : Dec) (num den : Z) : Prop :=
  0 < den /\
  exists Dn Dd, Z.abs num < 10 ^ Dn /\ den < 10 ^ Dd /\ 0 <= Dn <= MaxExp /\ 0 <= Dd <= MaxExp /\
                Dn + Dd + setrat_prec z num den + 76 < 4294967296 - 18.

Lemma SetInt_WF z x : 0 <= prec z <= MaxPrec ->
  (exists D, Z.abs x < 10 ^ D /\ 0 <= D /\ D + 19 < 4294967296 - 18) -> ores_WF (SetInt z x).
Proof.
  intros Pz (D & H1 & H2 & H3). destruct (Z.eq_dec x 0) as [->|Hnz].
  - unfold SetInt. cbn [Z.eqb].
    destruct (prec (with_form (with_neg (with_acc z Exact) (0 <? 0)) Fzero) =? 0) eqn:E; cbn [ores_WF];
      apply WF_nonfinite; cbn [dform prec with_prec with_form with_neg with_acc]; try discriminate; unfold DefaultDecimalPrec, MaxPrec in *; lia.
  - eapply OpPost_WF. apply (SetInt_correct z x D); auto.
Qed.

Lemma setrat_prec_range z num den : 0 <= prec z <= MaxPrec -> 1 <= setrat_prec z num den <= MaxPrec.
Proof.
  intros Pz. unfold setrat_prec, setint_prec, DefaultDecimalPrec, MaxPrec in *. cbn [prec dec_zero Z.eqb].
  destruct (Z.eqb_spec (prec z) 0); lia.
Qed.

Lemma SetRat_WF z num den : 0 <= prec z <= MaxPrec -> setrat_valid z num den -> ores_WF (SetRat z num den).
Proof.
  intros Pz (Hden & Dn & Dd & Hn & Hd & HDn & HDd & Hsz).
  pose proof (setrat_prec_range z num den Pz) as Hpr.
  destruct (Z.eq_dec den 1) as [->|Hd1].
  - rewrite SetRat_den1. apply SetInt_WF; [exact Pz|]. exists Dn. split; [exact Hn|]. split; lia.
  - destruct (Z.eq_dec num 0) as [->|Hnz].
    + destruct (SetRat_zero z den Dd ltac:(lia) Hd HDd Pz) as (z' & E & _ & _ & _ & _ & _ & W).
      rewrite E. exact W.
    + eapply OpPost_WF. apply (SetRat_correct z num den Dn Dd); auto. lia.
Qed.

(* ------------------------------------------------------------------ *)
(* MantExp with an out-parameter *)
Lemma MantExp_mant_WF same m x : WF m -> WF x -> (same = true -> m = x) ->
  exists d, MantExp_mant same m x = OkR d /\ WF d.
Proof.
  intros Wm Wx Hs. destruct (dform x) eqn:Fx.
  - unfold MantExp_mant. pose proof (Copy_WF same m x Wm Wx) as HC.
    assert (EC : exists d, Copy same m x = OkR d /\ dform d = Fzero).
    { unfold Copy. destruct same; [rewrite (Hs eq_refl); eexists; split; [reflexivity|exact Fx]|].
      rewrite Fx. eexists; split; reflexivity. }
    destruct EC as (d & EC & Fd). rewrite EC in *. rewrite Fd. exists d. split; [reflexivity|exact HC].
  - destruct (MantExp_split same m x Wx Fx Hs) as (m' & E & W & _). exists m'. split; assumption.
  - unfold MantExp_mant. pose proof (Copy_WF same m x Wm Wx) as HC.
    assert (EC : exists d, Copy same m x = OkR d /\ dform d = Finf).
    { unfold Copy. destruct same; [rewrite (Hs eq_refl); eexists; split; [reflexivity|exact Fx]|].
      rewrite Fx. eexists; split; reflexivity. }
    destruct EC as (d & EC & Fd). rewrite EC in *. rewrite Fd. exists d. split; [reflexivity|exact HC].
Qed.

(* ------------------------------------------------------------------ *)
(* Gob: the encoder's output is a byte string of bounded length *)
Lemma hdr_byte_range md ac f ng :
  0 <= mode_bits md * 32 + acc_bits ac * 8 + form_bits f * 2 + b2z ng < 256.
Proof. destruct md, ac, f, ng; vm_compute; split; congruence. Qed.

Lemma GobEncode_bytes_ok x : bytes_ok (GobEncode x).
Proof.
  unfold GobEncode. cbv zeta.
  assert (H : bytes_ok ([decimalGobVersion; mode_bits (dmode x) * 32 + acc_bits (acc x) * 8 + form_bits (dform x) * 2 + b2z (neg x)]
                        ++ be_bytes 4 (prec x))).
  { apply Forall_app. split; [|apply be_bytes_ok].
    constructor; [unfold decimalGobVersion; lia|]. constructor; [apply hdr_byte_range|constructor]. }
  destruct (dform x); try exact H.
  apply Forall_app. split; [exact H|]. apply Forall_app. split; [apply be_bytes_ok|apply words_bytes_ok].
Qed.

Lemma GobEncode_len x :
  zlen (GobEncode x) <= 10 + match dform x with Ffinite => 8 * zlen (mant x) | _ => 0 end.
Proof.
  unfold GobEncode. cbv zeta. pose proof (zlen_nonneg (mant x)) as H0.
  destruct (dform x); unfold zlen in *; rewrite ?app_length, ?length_be_bytes; cbn [length]; try lia.
  unfold words_bytes. rewrite (length_flat_map_const _ 8) by (intros; apply length_be_bytes).
  rewrite rev_length, skipn_length. lia.
Qed.

(* ------------------------------------------------------------------ *)
(* Side conditions of one operation, ALL 35 operations of L3/Store.v covered.
   For the operations of StoreProofs.v the conditions are unchanged (valid_op).  New:
   - Sub: as Add, but the span of the aligned operands is only required when both are
     finite (addsub_valid; `add_span x y + 40 < 2^32 - 18` implies it: span_addsub_valid);
   - FMA: digit counts of the addend, the product and the aligned final addition
     (fma_valid); NO condition on the magnitude of the exact product;
   - SetRat: den > 0 (big.Rat invariant) and decimal sizes of num, den such that the
     quotient's working length fits uint32 (setrat_valid; gcd(num, den) = 1 is not needed);
   - MantExp, with or without out-parameter: none;
   - GobDecode: the buffer holds bytes; it is shorter than 2^30 bytes unless the receiver's
     precision is 0 (then the decoded value is not re-rounded);
   - GobRoundTrip (decode into z the encoding of x): the same length bound, stated on x. *)
Definition valid_op2 (s : store) (o : op) : Prop :=
  match o with
  | OSub z x y => addsub_valid (get s x) (get s y)
  | OFMA z x y u => fma_valid (get s x) (get s y) (get s u)
  | OSetRat z num den => setrat_valid (get s z) num den
  | OMantExp x m => True
  | OGobDecode z buf => bytes_ok buf /\ (prec (get s z) = 0 \/ zlen buf < 1073741824)
  | OGobRoundTrip z x =>
      prec (get s z) = 0 \/ (dform (get s x) = Ffinite -> 10 + 8 * zlen (mant (get s x)) < 1073741824)
  | _ => valid_op s o
  end.

Lemma valid_op_valid_op2 s o : valid_op s o -> valid_op2 s o.
Proof. destruct o; cbn [valid_op valid_op2]; try contradiction; exact (fun H => H). Qed.

Lemma gob_step_WF s z buf : WFstore s -> bytes_ok buf -> (prec (get s z) = 0 \/ zlen buf < 1073741824) ->
  let r := match GobDecode (get s z) buf with
           | GobOk d => (set s z d, res_ok [0])
           | GobErr d => (set s z d, res_ok [1])
           | GobCrash => (s, mkRes Crash [] [])
           end in
  WFstore (fst r) /\ r_out (snd r) <> Crash.
Proof.
  intros Hs Hb Hl. pose proof (WFstore_get s z Hs) as Wz.
  destruct (Gob_total (get s z) buf Hb Wz Hl) as (Hc & He & Ho).
  destruct (GobDecode (get s z) buf) as [d|d|]; cbn [fst snd r_out res_ok]; [| |contradiction].
  - split; [apply WFstore_set; [exact Hs|apply Ho; reflexivity]|discriminate].
  - split; [apply WFstore_set; [exact Hs|rewrite (He d eq_refl); exact Wz]|discriminate].
Qed.

Theorem step_preserves_WF2 s o : WFstore s -> valid_op2 s o ->
  WFstore (fst (step s o)) /\ r_out (snd (step s o)) <> Crash.
Proof.
  intros Hs Hv. pose proof (WFstore_get s) as G. pose proof (fun i => WF_prec_range s i Hs) as P.
  destruct o; cbn [valid_op2] in Hv; try (apply step_preserves_WF; assumption); cbn [step].
  - (* Sub *) apply put_WF; [exact Hs|]. apply Sub_WF; auto; intros E; apply Nat.eqb_eq in E; now subst.
  - (* FMA *) apply put_WF; [exact Hs|]. apply FMA_WF; auto. intros E; apply Nat.eqb_eq in E; now subst.
  - (* SetRat *) apply put_WF; [exact Hs|]. apply SetRat_WF; auto.
  - (* MantExp *) destruct m as [m|]; [|split; [exact Hs|discriminate]].
    destruct (MantExp_mant_WF (Nat.eqb m x) (get s m) (get s x) (G m Hs) (G x Hs)) as (d & E & W).
    { intros E; apply Nat.eqb_eq in E; now subst. }
    rewrite E. cbn [fst snd r_out res_ok]. split; [apply WFstore_set; assumption|discriminate].
  - (* GobDecode *) destruct Hv as [Hb Hl]. apply gob_step_WF; assumption.
  - (* GobRoundTrip *) apply gob_step_WF; [exact Hs|apply GobEncode_bytes_ok|].
    destruct Hv as [Hv|Hv]; [left; exact Hv|right].
    pose proof (GobEncode_len (get s x)) as HL. destruct (dform (get s x)); [lia|specialize (Hv eq_refl); lia|lia].
Qed.

(* every program of valid operations keeps every variable canonical and never crashes *)
Fixpoint valid_prog2 (s : store) (p : list op) : Prop :=
  match p with
  | [] => True
  | o :: p' => valid_op2 s o /\ valid_prog2 (fst (step s o)) p'
  end.

Lemma valid_prog_valid_prog2 p : forall s, valid_prog s p -> valid_prog2 s p.
Proof.
  induction p as [|o p IH]; intros s; cbn [valid_prog valid_prog2]; [exact (fun H => H)|].
  intros [H1 H2]. split; [apply valid_op_valid_op2; exact H1|apply IH; exact H2].
Qed.

Theorem run_preserves_WF2 p : forall s, WFstore s -> valid_prog2 s p ->
  Forall (fun rs => WFstore (snd rs) /\ r_out (fst rs) <> Crash) (run s p).
Proof.
  induction p as [|o p IH]; intros s Hs Hv; cbn [run]; [constructor|].
  destruct Hv as [Hv1 Hv2]. destruct (step_preserves_WF2 s o Hs Hv1) as [H1 H2].
  destruct (step s o) as [s' r] eqn:E. cbn [fst snd] in *.
  destruct (r_out r) eqn:Er; try congruence.
  - constructor; [cbn [fst snd]; split; [assumption|rewrite Er; discriminate]|]. apply IH; assumption.
  - constructor; [cbn [fst snd]; split; [assumption|rewrite Er; discriminate]|]. apply IH; assumption.
Qed.

(* Operations still outside step_preserves_WF2: NONE.  The 35 constructors of `op` are all
   handled and valid_op2 has no `False` branch (every branch of valid_op that was `False`
   is overridden above: OSub, OFMA, OSetRat, OMantExp _ None, OMantExp _ (Some _),
   OGobDecode, OGobRoundTrip).  Props/C08b.v runs a program through all the new ones. *)
