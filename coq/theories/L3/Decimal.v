(* L3/Decimal.v — the Decimal record, its well-formedness predicate and its
   value. Definitions only. *)
From Coq Require Export ZArith List Bool Lia QArith.
From Dec Require Export Base.Words Base.QPow.
Open Scope Z_scope.

(* stdlib.go: form, RoundingMode, Accuracy — numeric order checked against
   the generated constants in gen/ConstsCheck.v *)
Inductive form := Fzero | Ffinite | Finf.
Inductive mode := ToNearestEven | ToNearestAway | ToZero | AwayFromZero
                | ToNegativeInf | ToPositiveInf.
Inductive accuracy := Below | Exact | Above.

Definition form_eqb (a b : form) : bool :=
  match a, b with Fzero, Fzero | Ffinite, Ffinite | Finf, Finf => true | _, _ => false end.
Definition mode_eqb (a b : mode) : bool :=
  match a, b with
  | ToNearestEven, ToNearestEven | ToNearestAway, ToNearestAway | ToZero, ToZero
  | AwayFromZero, AwayFromZero | ToNegativeInf, ToNegativeInf | ToPositiveInf, ToPositiveInf => true
  | _, _ => false end.
Definition acc_eqb (a b : accuracy) : bool :=
  match a, b with Below, Below | Exact, Exact | Above, Above => true | _, _ => false end.

Definition form_num (f : form) : Z := match f with Fzero => 0 | Ffinite => 1 | Finf => 2 end.
Definition mode_num (m : mode) : Z :=
  match m with ToNearestEven => 0 | ToNearestAway => 1 | ToZero => 2
             | AwayFromZero => 3 | ToNegativeInf => 4 | ToPositiveInf => 5 end.
Definition acc_num (a : accuracy) : Z := match a with Below => -1 | Exact => 0 | Above => 1 end.

Definition makeAcc (above : bool) : accuracy := if above then Above else Below.
Definition acc_neg (a : accuracy) : accuracy :=
  match a with Below => Above | Exact => Exact | Above => Below end.

Definition MaxExp : Z := 2147483647.
Definition MinExp : Z := -2147483648.
Definition MaxPrec : Z := 4294967295.
Definition DefaultDecimalPrec : Z := 34.

Record Dec := mkDec {
  mant : list Z;     (* little-endian words; meaningful only when finite *)
  exp  : Z;          (* int32 *)
  prec : Z;          (* uint32 *)
  dmode : mode;
  acc  : accuracy;
  dform : form;
  neg  : bool
}.

(* the zero value of the Go struct *)
Definition dec_zero : Dec := mkDec [] 0 0 ToNearestEven Exact Fzero false.

Definition with_mant d m := mkDec m (exp d) (prec d) (dmode d) (acc d) (dform d) (neg d).
Definition with_exp d e := mkDec (mant d) e (prec d) (dmode d) (acc d) (dform d) (neg d).
Definition with_prec d p := mkDec (mant d) (exp d) p (dmode d) (acc d) (dform d) (neg d).
Definition with_mode d m := mkDec (mant d) (exp d) (prec d) m (acc d) (dform d) (neg d).
Definition with_acc d a := mkDec (mant d) (exp d) (prec d) (dmode d) a (dform d) (neg d).
Definition with_form d f := mkDec (mant d) (exp d) (prec d) (dmode d) (acc d) f (neg d).
Definition with_neg d n := mkDec (mant d) (exp d) (prec d) (dmode d) (acc d) (dform d) n.

(* number of decimal digits held by the mantissa slice *)
Definition mdigits (m : list Z) : Z := DW * zlen m.

(* Canonical-form predicate (C08): for a finite value the mantissa is
   non-empty, every word is below the base, the top word has a non-zero leading
   digit, the precision is at least 1 and at most MaxPrec, no non-zero digit
   lies beyond the precision, and the exponent fits an int32. Zero and infinity
   only need sane attribute ranges. *)
Definition wf_b (d : Dec) : bool :=
  (0 <=? prec d) && (prec d <=? MaxPrec) &&
  match dform d with
  | Ffinite =>
      negb (match mant d with [] => true | _ => false end) &&
      words_ok (mant d) &&
      (B / 10 <=? last_word (mant d)) &&
      (1 <=? prec d) &&
      (MinExp <=? exp d) && (exp d <=? MaxExp) &&
      (* no non-zero digit beyond prec *)
      (if mdigits (mant d) <=? prec d then true
       else val (mant d) mod 10 ^ (mdigits (mant d) - prec d) =? 0)
  | _ => true
  end.
Definition WF (d : Dec) : Prop := wf_b d = true.

(* magnitude of a finite Decimal: 0.mant * 10^exp = val mant * 10^(exp - 19 len) *)
Definition mag (d : Dec) : Q := scaled (val (mant d)) (exp d - mdigits (mant d)).

(* extended value: finite rationals plus two infinities *)
Inductive xval := XNegInf | XFin (q : Q) | XPosInf.
Definition value (d : Dec) : xval :=
  match dform d with
  | Fzero => XFin 0
  | Ffinite => XFin (if neg d then - mag d else mag d)
  | Finf => if neg d then XNegInf else XPosInf
  end.

(* sign of the comparison of two extended values, as -1/0/1 *)
Definition Qsgn_cmp (a b : Q) : Z :=
  match Qcompare a b with Lt => -1 | Eq => 0 | Gt => 1 end.
Definition xcmp (a b : xval) : Z :=
  match a, b with
  | XNegInf, XNegInf => 0 | XNegInf, _ => -1
  | XPosInf, XPosInf => 0 | XPosInf, _ => 1
  | XFin _, XNegInf => 1 | XFin _, XPosInf => -1
  | XFin p, XFin q => Qsgn_cmp p q
  end.
