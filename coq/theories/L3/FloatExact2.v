(* L3/FloatExact2.v — pow2(n) is exactly 2^n whenever the precision holds 2^n
   (every step of the square-and-multiply loop is exact), and with it the
   exactness of SetFloat64 for every binary exponent. *)
From Coq Require Import ZArith List Bool Lia QArith.
From Dec Require Import Base.Words Base.WordsProofs Base.QPow L3.Decimal L3.Cmp L3.CmpProofs L3.Round L3.Arith
  L3.Convert L3.Bin L3.Float L3.FloatProofs Spec.Rounding Spec.RoundingFacts L3.RoundProofs L3.ArithProofs
  L3.ConvertProofs L3.FloatExact.
From Dec Require L4.Scan L4.ScanProofs.
From Dec Require Import L4.Pow2Proofs.
Open Scope Z_scope.

(* x is exactly 2^a, canonical, of precision P, positive, not too long *)
Definition Pw (x : Dec) (a P : Z) : Prop :=
  WF x /\ dform x = Ffinite /\ neg x = false /\ (mag x == scaled (2 ^ a) 0)%Q /\ prec x = P /\
  mdigits (mant x) <= P + 18.

Lemma pow2_lt_mono a b P : 0 <= a <= b -> 2 ^ b < 10 ^ P -> 2 ^ a < 10 ^ P.
Proof. intros H Hb. apply Z.le_lt_trans with (2 ^ b); [apply Z.pow_le_mono_r; lia|exact Hb]. Qed.

Lemma Mul_pow_exact z x y a b P Px Py :
  Pw x a Px -> Pw y b Py -> prec z = P -> 1 <= P <= PB -> 1 <= Px <= PB -> 1 <= Py <= PB ->
  0 <= a -> 0 <= b -> 2 ^ (a + b) < 10 ^ P ->
  exists r, Mul z x y = OkR r /\ Pw r (a + b) P /\ dmode r = dmode z.
Proof.
  intros (Wx & Fx & Nx & Mx & Ppx & Lx) (Wy & Fy & Ny & My & Ppy & Ly) Pz HP HPx HPy Ha Hb Hfit.
  assert (Pz' : 0 <= prec z <= MaxPrec) by (rewrite Pz; unfold PB, MaxPrec in *; lia).
  destruct (Mul_correct z x y Wx Wy Fx Fy Pz') as (r & Eq & Sp & Pr & Mr & Wr).
  { unfold PB in *. lia. }
  assert (Ez : eff_prec z x y = P).
  { unfold eff_prec. rewrite Pz. destruct (Z.eqb_spec P 0); [lia|reflexivity]. }
  rewrite Ez in Sp, Pr. rewrite Nx, Ny in Sp. cbn [xorb] in Sp.
  assert (Hv : (mag x * mag y == scaled (2 ^ (a + b)) 0)%Q).
  { rewrite Mx, My, scaled_mul, Z.pow_add_r by lia. reflexivity. }
  assert (H2 : 1 <= 2 ^ (a + b)) by (pose proof (Z.pow_pos_nonneg 2 (a + b) ltac:(lia) ltac:(lia)); lia).
  destruct (exact_of_spec P _ _ _ r (2 ^ (a + b)) 0 ltac:(lia) ltac:(lia) Hv
              ltac:(unfold MinExp; lia) ltac:(unfold MaxExp, PB in *; lia) Sp) as (Ff & Fm & Fa & Fn).
  exists r. split; [exact Eq|]. split; [|exact Mr].
  split; [exact Wr|]. split; [exact Ff|]. split; [exact Fn|]. split; [rewrite Fm; exact Hv|]. split; [exact Pr|].
  rewrite <- Pz.
  pose proof (WF_finite x Wx Fx) as [_ Okx _ _ _ _]. pose proof (WF_finite y Wy Fy) as [_ Oky _ _ _ _].
  refine (Mul_finite_len z x y r _ Fx Fy Okx Oky _ Eq Ff).
  - rewrite Pz. unfold PB, MaxPrec in *. lia.
  - unfold mdigits in Lx, Ly. rewrite DW_eq in Lx, Ly. unfold PB in *. lia.
Qed.

Lemma pow2_loop_exact P T fuel : 1 <= P <= PB - 19 -> 2 ^ T < 10 ^ P ->
  forall z f n a b, Pw z a P -> Pw f b (P + 19) -> 0 <= a -> 1 <= b -> 0 <= n < 2 ^ Z.of_nat fuel ->
    a + b * n = T ->
    exists r, Scan.pow2_loop fuel z f n = OkR r /\ Pw r T P.
Proof.
  intros HP Hfit. induction fuel as [|k IH]; intros z f n a b Hz Hf Ha Hb Hn HT.
  - cbn [Scan.pow2_loop]. change (2 ^ Z.of_nat 0) with 1 in Hn. assert (n = 0) by lia. subst n.
    exists z. split; [reflexivity|]. replace T with a by lia. exact Hz.
  - cbn [Scan.pow2_loop]. destruct (Z.leb_spec n 0) as [N0|Npos].
    { assert (n = 0) by lia. subst n. exists z. split; [reflexivity|]. replace T with a by lia. exact Hz. }
    assert (HT0 : 0 <= T) by nia.
    pose proof (Z.div_mod n 2 ltac:(lia)) as DM. pose proof (Zmod_odd n) as MO.
    assert (Hk : 0 <= n / 2 < 2 ^ Z.of_nat k).
    { rewrite Nat2Z.inj_succ, Z.pow_succ_r in Hn by lia. split; [apply Z.div_pos; lia|]. apply Z.div_lt_upper_bound; lia. }
    assert (Pzp : prec z = P) by (destruct Hz as (_ & _ & _ & _ & E & _); exact E).
    assert (Pfp : prec f = P + 19) by (destruct Hf as (_ & _ & _ & _ & E & _); exact E).
    destruct (Z.odd n) eqn:Od.
    + (* odd *)
      assert (Hab : a + b <= T) by nia.
      destruct (Mul_pow_exact z z f a b P P (P + 19) Hz Hf Pzp ltac:(lia) ltac:(lia) ltac:(unfold PB in *; lia) Ha ltac:(lia)
                  (pow2_lt_mono (a + b) T P ltac:(lia) Hfit)) as (z' & Ez & Hz' & _).
      rewrite Ez. cbn [Scan.obind].
      destruct (Z.eqb_spec n 1) as [->|N1].
      * exists z'. split; [reflexivity|]. replace T with (a + b) by lia. exact Hz'.
      * assert (H2b : b + b <= T) by nia.
        destruct (Mul_pow_exact f f f b b (P + 19) (P + 19) (P + 19) Hf Hf Pfp ltac:(unfold PB in *; lia) ltac:(unfold PB in *; lia)
                    ltac:(unfold PB in *; lia) ltac:(lia) ltac:(lia)) as (f' & Ef & Hf' & _).
        { apply Z.lt_trans with (10 ^ P); [apply (pow2_lt_mono (b + b) T P); [lia|exact Hfit]|apply Z.pow_lt_mono_r; lia]. }
        rewrite Ef. cbn [Scan.obind].
        apply (IH z' f' (n / 2) (a + b) (b + b)); try assumption; try lia.
    + (* even *)
      assert (H2b : b + b <= T).
      { assert (2 <= n) by lia. assert (b * 2 <= b * n) by (apply Z.mul_le_mono_nonneg_l; lia). lia. }
      destruct (Mul_pow_exact f f f b b (P + 19) (P + 19) (P + 19) Hf Hf Pfp ltac:(unfold PB in *; lia) ltac:(unfold PB in *; lia)
                  ltac:(unfold PB in *; lia) ltac:(lia) ltac:(lia)) as (f' & Ef & Hf' & _).
      { apply Z.lt_trans with (10 ^ P); [apply (pow2_lt_mono (b + b) T P); [lia|exact Hfit]|apply Z.pow_lt_mono_r; lia]. }
      rewrite Ef. cbn [Scan.obind].
      apply (IH z f' (n / 2) a (b + b)); try assumption; try lia.
Qed.

(* pow2 on a fresh temporary of precision P *)
Theorem pow2_exact P n :
  1 <= P <= PB - 19 -> 0 <= n < 18446744073709551616 -> 2 ^ n < 10 ^ P ->
  exists pw, pow2 (mkDec [] 0 P ToNearestEven Exact Fzero false) n = OkR pw /\ Pw pw n P.
Proof.
  intros HP Hn Hfit. destruct (Z.ltb_spec n 64) as [Hs|Hl].
  - destruct (pow2_small_exact P n ltac:(unfold PB in *; lia) ltac:(lia) Hfit) as (pw & E & W & F & Ng & M & Pp & L).
    exists pw. split; [exact E|]. repeat split; assumption.
  - unfold pow2, Scan.pow2. replace (n <? 64) with false by (symmetry; apply Z.ltb_ge; lia).
    destruct (pow2_small_exact P 63 ltac:(unfold PB in *; lia) ltac:(lia) (pow2_lt_mono 63 n P ltac:(lia) Hfit))
      as (z1 & E1 & W1 & F1 & N1 & M1 & P1 & L1).
    unfold pow2, Scan.pow2 in E1. change (63 <? 64) with true in E1. cbv iota in E1.
    rewrite E1. cbn [Scan.obind]. rewrite P1, DW_eq.
    rewrite (SetPrec_zero (P + 19)) by (unfold PB, MaxPrec in *; lia). cbn [Scan.obind].
    assert (H2 : 2 ^ 1 < 10 ^ (P + 19)).
    { apply Z.lt_le_trans with (10 ^ 1); [reflexivity|apply Z.pow_le_mono_r; lia]. }
    destruct (pow2_small_exact (P + 19) 1 ltac:(unfold PB in *; lia) ltac:(lia) H2) as (f & Ef & Wf & Ff & Nf & Mf & Pf & Lf).
    unfold pow2, Scan.pow2 in Ef. change (1 <? 64) with true in Ef. cbv iota in Ef. change (2 ^ 1) with 2 in Ef.
    rewrite Ef. cbn [Scan.obind].
    apply (pow2_loop_exact P n 64 HP Hfit z1 f (n - 63) 63 1); try lia.
    + repeat split; assumption.
    + repeat split; assumption.
Qed.

(* ------------------------------------------------------------------ *)
(* SetFloat64 stores the value exactly, for every binary exponent, when the
   value has at most p digits and 2^|exp2| fits p+1 digits *)
Theorem SetFloat64_exact z bits s m e M exp2 N x :
  0 <= prec z <= 1073741824 ->
  fl_of_bits binary64 bits = FlFin s m e -> fl_frexp_int binary64 m e = (M, exp2) -> 0 < M < 2 ^ 53 ->
  exp2 <> 0 -> -2000 <= exp2 <= 2000 ->
  let p := sf64_prec z in
  2 ^ Z.abs exp2 < 10 ^ (p + 1) ->                                   (* 2^|exp2| fits the working precision p+1 *)
  (inject_Z M * pow2Q exp2 == scaled N x)%Q -> 1 <= N < 10 ^ p ->    (* the value has at most p digits *)
  -2000 <= x <= 2000 ->
  exists r, SetFloat64 z bits = OkR r /\ dform r = Ffinite /\ neg r = s /\ (mag r == scaled N x)%Q /\
            acc r = Exact /\ prec r = p /\ dmode r = dmode z /\ WF r.
Proof.
  intros Pz Eb Ef HM He0 He p Hfit HV HN Hx.
  unfold SetFloat64. rewrite Eb. unfold SetFloat64_fl. rewrite Ef.
  set (z1 := if prec z =? 0 then with_prec z 17 else z).
  assert (Z1 : prec z1 = p /\ dmode z1 = dmode z /\ 1 <= p <= 1073741824).
  { unfold z1, p, sf64_prec. destruct (Z.eqb_spec (prec z) 0); cbn [prec dmode with_prec]; repeat split; lia. }
  destruct Z1 as (Z1p & Z1m & Hp).
  change (2 ^ 53) with 9007199254740992 in HM.
  destruct (ScanProofs.dnorm_of_Z M ltac:(lia)) as (m' & sh & Ed & Hs & Vm & Okm & Nem & Topm & Hexp & Hmd).
  rewrite Ed. replace (exp2 =? 0) with false by (symmetry; apply Z.eqb_neq; exact He0).
  assert (Hnd : 1 <= ndig M <= 16).
  { destruct (ndig_spec M ltac:(lia)) as [H1 [Hlo _]]. split; [lia|].
    destruct (Z.le_gt_cases (ndig M) 16); [assumption|exfalso].
    assert (10 ^ 16 <= 10 ^ (ndig M - 1)) by (apply Z.pow_le_mono_r; lia).
    change (10 ^ 16) with 10000000000000000 in *. lia. }
  assert (Hz1 : zlen m' = 1).
  { unfold mdigits in Hmd. rewrite DW_eq in Hmd. pose proof (zlen_nonneg m'). lia. }
  rewrite Hexp. rewrite (i32_small (ndig M)) by (unfold MinExp, MaxExp; lia).
  set (z2 := with_exp (with_mant (with_form (with_neg (with_acc z1 Exact) s) Ffinite) m') (ndig M)).
  (* apply_pow2 *)
  unfold apply_pow2, prec_extra. cbn [prec z2 with_exp with_mant with_form with_neg with_acc]. rewrite Z1p.
  replace (p <? MaxPrec) with true by (symmetry; apply Z.ltb_lt; unfold MaxPrec; lia).
  assert (U1 : u32 (p + 1) = p + 1) by (unfold u32; apply Z.mod_small; lia).
  rewrite U1. set (z3 := with_prec z2 (p + 1)).
  cbn [prec z3 with_prec]. rewrite (SetPrec_zero (p + 1)) by (unfold MaxPrec; lia).
  cbn [bindT].
  set (t0 := mkDec [] 0 (p + 1) ToNearestEven Exact Fzero false).
  set (n := Z.abs exp2) in *.
  assert (Hn : 0 <= n < 18446744073709551616) by (unfold n; lia).
  destruct (pow2_exact (p + 1) n ltac:(unfold PB; lia) Hn Hfit) as (pw & Epw & Wpw & Fpw & Npw & Mpw & Ppw & Lpw).
  fold t0 in Epw.
  (* the operand: z3 seen with a precision that makes it canonical *)
  set (x' := with_prec z3 19).
  assert (Wx' : WF x').
  { apply WF_intro; cbn [dform mant prec exp x' z3 z2 with_prec with_exp with_mant with_form]; try assumption; try reflexivity.
    - unfold MaxPrec; lia.
    - unfold MinExp, MaxExp; lia.
    - left. unfold mdigits. rewrite Hz1, DW_eq. lia. }
  assert (Fx' : dform x' = Ffinite) by reflexivity.
  assert (Mx' : (mag x' == inject_Z M)%Q).
  { unfold mag. cbn [mant exp x' z3 z2 with_prec with_exp with_mant]. rewrite Hmd, Vm.
    rewrite scaled_pow by lia. replace (ndig M - (ndig M + sh) + sh) with 0 by lia. apply scaled0. }
  assert (Pz3 : 0 <= prec z3 <= MaxPrec) by (cbn [prec z3 with_prec]; unfold MaxPrec; lia).
  assert (Ez3 : eff_prec z3 x' pw = p + 1).
  { unfold eff_prec. cbn [prec z3 with_prec]. destruct (Z.eqb_spec (p + 1) 0); [lia|reflexivity]. }
  assert (Lx' : mdigits (mant x') = 19) by (cbn [mant x' z3 z2 with_prec with_exp with_mant]; unfold mdigits; rewrite Hz1, DW_eq; lia).
  assert (Wpw' := WF_finite pw Wpw Fpw).
  assert (HN1 : 1 <= N < 10 ^ (p + 1)).
  { split; [lia|]. apply Z.lt_trans with (10 ^ p); [lia|]. apply Z.pow_lt_mono_r; lia. }
  assert (Final : forall r1, WF r1 -> prec r1 = p + 1 -> dmode r1 = dmode z ->
            result_spec (p + 1) (dmode z) s (scaled N x) r1 -> mdigits (mant r1) <= p + 1 + 18 ->
            exists r, of_opt (round (with_prec r1 (u32 (prec r1 - 1))) 0) = OkR r /\ dform r = Ffinite /\ neg r = s /\
                      (mag r == scaled N x)%Q /\ acc r = Exact /\ prec r = p /\ dmode r = dmode z /\ WF r).
  { intros r1 W1 P1 M1 S1 L1.
    destruct (exact_of_spec (p + 1) _ _ _ r1 N x ltac:(lia) HN1 ltac:(reflexivity)
                ltac:(unfold MinExp; lia) ltac:(unfold MaxExp; lia) S1) as (Ff & Fm & Fa & Fn).
    rewrite P1. replace (p + 1 - 1) with p by lia.
    replace (u32 p) with p by (unfold u32; symmetry; apply Z.mod_small; lia).
    destruct (final_round_exact r1 p s N x W1 Ff Fn Fm ltac:(unfold MaxPrec; lia) ltac:(lia) HN
                ltac:(unfold MinExp; lia) ltac:(unfold MaxExp; lia)) as (r & Er & R1 & R2 & R3 & R4 & R5 & R6 & R7).
    exists r. rewrite Er. cbn [of_opt]. rewrite M1 in R6. repeat split; assumption. }
  assert (U2 : u64 n = n) by (unfold u64; apply Z.mod_small; lia).
  destruct (Z.ltb_spec exp2 0) as [Hneg|Hpos].
  - (* divide by 2^n *)
    replace (- exp2) with n by (unfold n; lia). rewrite U2, Epw. cbn [bindT].
    rewrite <- (Quo_prec_irrel z3 z3 pw 19) by (cbn [prec z3 with_prec]; lia). fold x'.
    destruct (Quo_correct z3 x' pw Wx' Wpw Fx' Fpw Pz3) as (r1 & Eq & Sp & Pr1 & Mr1 & Wr1).
    { rewrite Ez3, Lx'. lia. }
    rewrite Eq. cbn [bindR]. rewrite Ez3 in Sp, Pr1.
    cbn [dmode neg x' z3 z2 with_prec with_exp with_mant with_form with_neg with_acc] in Sp, Mr1.
    rewrite Z1m in Sp, Mr1. rewrite Npw, xorb_false_r in Sp.
    assert (Hv : (mag x' / mag pw == scaled N x)%Q).
    { rewrite Mx', Mpw, scaled0, <- HV. unfold pow2Q.
      replace (exp2 <? 0) with true by (symmetry; apply Z.ltb_lt; exact Hneg).
      replace (- exp2) with n by (unfold n; lia). reflexivity. }
    apply (result_spec_ext _ _ _ _ _ _ Hv) in Sp.
    assert (L1 : mdigits (mant r1) <= p + 1 + 18).
    { destruct (exact_of_spec (p + 1) _ _ _ r1 N x ltac:(lia) HN1 ltac:(reflexivity)
                  ltac:(unfold MinExp; lia) ltac:(unfold MaxExp; lia) Sp) as (Ff & _).
      assert (B1 : 1 <= prec z3 <= MaxPrec - 18) by (cbn [prec z3 with_prec]; unfold MaxPrec; lia).
      assert (B2 : words_ok (mant x') = true) by (destruct (WF_finite x' Wx' Fx'); assumption).
      assert (B3 : words_ok (mant pw) = true) by (destruct Wpw'; assumption).
      refine (Quo_finite_len z3 x' pw r1 B1 Fx' Fpw B2 B3 _ Eq Ff).
      cbn [prec z3 with_prec]. unfold mdigits in Lx', Lpw. rewrite DW_eq in Lx', Lpw. lia. }
    exact (Final r1 Wr1 Pr1 Mr1 Sp L1).
  - (* multiply by 2^n *)
    replace exp2 with n by (unfold n; lia). rewrite U2, Epw. cbn [bindT].
    rewrite <- (Mul_prec_irrel z3 z3 pw 19) by (cbn [prec z3 with_prec]; lia). fold x'.
    destruct (Mul_correct z3 x' pw Wx' Wpw Fx' Fpw Pz3) as (r1 & Eq & Sp & Pr1 & Mr1 & Wr1).
    { rewrite Lx'. unfold PB in *. lia. }
    rewrite Eq. cbn [bindR]. rewrite Ez3 in Sp, Pr1.
    cbn [dmode neg x' z3 z2 with_prec with_exp with_mant with_form with_neg with_acc] in Sp, Mr1.
    rewrite Z1m in Sp, Mr1. rewrite Npw, xorb_false_r in Sp.
    assert (Hv : (mag x' * mag pw == scaled N x)%Q).
    { rewrite Mx', Mpw, scaled0, <- HV. unfold pow2Q.
      replace (exp2 <? 0) with false by (symmetry; apply Z.ltb_ge; exact Hpos).
      replace exp2 with n by (unfold n; lia). reflexivity. }
    apply (result_spec_ext _ _ _ _ _ _ Hv) in Sp.
    assert (L1 : mdigits (mant r1) <= p + 1 + 18).
    { destruct (exact_of_spec (p + 1) _ _ _ r1 N x ltac:(lia) HN1 ltac:(reflexivity)
                  ltac:(unfold MinExp; lia) ltac:(unfold MaxExp; lia) Sp) as (Ff & _).
      assert (B1 : 1 <= prec z3 <= MaxPrec - 18) by (cbn [prec z3 with_prec]; unfold MaxPrec; lia).
      assert (B2 : words_ok (mant x') = true) by (destruct (WF_finite x' Wx' Fx'); assumption).
      assert (B3 : words_ok (mant pw) = true) by (destruct Wpw'; assumption).
      refine (Mul_finite_len z3 x' pw r1 B1 Fx' Fpw B2 B3 _ Eq Ff).
      unfold mdigits in Lx', Lpw. rewrite DW_eq in Lx', Lpw. lia. }
    exact (Final r1 Wr1 Pr1 Mr1 Sp L1).
Qed.
