(* L3/IndepProofs2.v — C10 continued: receiver independence for the whole
   arithmetic and conversion API (IndepProofs.v has Add/Mul/Quo on finite
   operands).  The statements are proved for a relation `geq` that is finer than
   the observational equality `oeq`: the two results agree on EVERY field, except
   that the mantissa words and the exponent of a zero or an infinity (which no
   method reads) may differ.  The `_indep` theorems restate them with `oeq`. *)
From Coq Require Import ZArith List Bool Lia.
From Dec Require Import Base.Words L3.Decimal L3.Cmp L3.Round L3.Arith L3.Convert L3.Store L3.IndepProofs.
Open Scope Z_scope.

Ltac fields :=
  cbn [dform neg prec dmode acc mant exp with_mant with_exp with_prec with_mode with_acc with_form with_neg].

Ltac geq_tac :=
  repeat split; fields; auto; try discriminate; try congruence;
  try (match goal with H : dform _ = Ffinite |- _ =>
         cbn [dform neg prec dmode acc mant exp with_mant with_exp with_prec with_mode with_acc with_form with_neg] in H;
         (discriminate || congruence) end).

(* equal, up to the fields that are dead in a non-finite value *)
Definition geq (a b : Dec) : Prop :=
  dform a = dform b /\ neg a = neg b /\ prec a = prec b /\ dmode a = dmode b /\ acc a = acc b /\
  (dform a = Ffinite -> mant a = mant b /\ exp a = exp b).

Lemma geq_refl a : geq a a.
Proof. repeat split. Qed.

Lemma geq_finite_eq a b : geq a b -> dform a = Ffinite -> a = b.
Proof.
  intros (Hf & Hn & Hp & Hm & Ha & Hfin) F. destruct (Hfin F) as [H1 H2].
  destruct a, b; cbn in *; subst; reflexivity.
Qed.

Lemma geq_oeq a b : geq a b -> oeq a b.
Proof.
  intros H. destruct (dform a) eqn:F.
  - destruct H as (Hf & Hn & Hp & Hm & Ha & _). apply oeq_nonfinite; auto. congruence.
  - rewrite <- (geq_finite_eq a b H F). apply oeq_refl.
  - destruct H as (Hf & Hn & Hp & Hm & Ha & _). apply oeq_nonfinite; auto. congruence.
Qed.

Lemma geq_nonfinite a b : dform a = dform b -> dform a <> Ffinite -> neg a = neg b -> prec a = prec b ->
  dmode a = dmode b -> acc a = acc b -> geq a b.
Proof. intros Hf Hnf Hn Hp Hm Ha. repeat split; auto; contradiction. Qed.

Definition ores_geq (r r' : ores) : Prop :=
  match r, r' with
  | OkR a, OkR b | NaNR a, NaNR b => geq a b
  | CrashR, CrashR => True
  | _, _ => False
  end.
Definition opt_geq (o o' : option Dec) : Prop :=
  match o, o' with Some a, Some b => geq a b | None, None => True | _, _ => False end.

Lemma ores_geq_oeq r r' : ores_geq r r' -> ores_oeq r r'.
Proof. destruct r, r'; cbn [ores_geq ores_oeq]; auto using geq_oeq. Qed.
Lemma ores_geq_refl r : ores_geq r r.
Proof. destruct r; cbn; auto using geq_refl. Qed.
Lemma opt_geq_refl o : opt_geq o o.
Proof. destruct o; cbn; auto using geq_refl. Qed.
Lemma of_opt_geq o o' : opt_geq o o' -> ores_geq (of_opt o) (of_opt o').
Proof. destruct o, o'; cbn; auto. Qed.

Lemma geq_with_neg a b s : geq a b -> geq (with_neg a s) (with_neg b s).
Proof. intros (Hf & Hn & Hp & Hm & Ha & Hfin). repeat split; fields; auto; apply Hfin; assumption. Qed.
Lemma geq_with_prec a b p : geq a b -> geq (with_prec a p) (with_prec b p).
Proof. intros (Hf & Hn & Hp & Hm & Ha & Hfin). repeat split; fields; auto; apply Hfin; assumption. Qed.
Lemma geq_sim a b : geq a b -> sim a b.
Proof. intros (Hf & Hn & Hp & Hm & Ha & Hfin). split; assumption. Qed.

(* ---- rounding ---- *)
(* round does not read the accuracy *)
Definition req (a b : Dec) : Prop :=
  dform a = dform b /\ neg a = neg b /\ prec a = prec b /\ dmode a = dmode b /\
  (dform a = Ffinite -> mant a = mant b /\ exp a = exp b).

Lemma round_req a b sb : req a b -> opt_geq (round a sb) (round b sb).
Proof.
  intros (Hf & Hn & Hp & Hm & Hfin). destruct (dform a) eqn:F.
  - unfold round. fields. rewrite <- Hf, F. apply geq_nonfinite; fields; auto; congruence.
  - assert (E : with_acc a Exact = with_acc b Exact).
    { destruct (Hfin eq_refl) as [H1 H2]. destruct a, b; cbn in *; subst; reflexivity. }
    change (round a sb) with (round (with_acc a Exact) sb). change (round b sb) with (round (with_acc b Exact) sb).
    rewrite E. apply opt_geq_refl.
  - unfold round. fields. rewrite <- Hf, F. apply geq_nonfinite; fields; auto; congruence.
Qed.

Lemma setExpAndRound_geq z z' e sb :
  sim z z' -> mant z = mant z' -> neg z = neg z' ->
  opt_geq (setExpAndRound z e sb) (setExpAndRound z' e sb).
Proof.
  intros [Hp Hm] Hmant Hn. unfold setExpAndRound.
  destruct (e <? MinExp).
  - apply geq_nonfinite; fields; auto; try discriminate. now rewrite Hn.
  - destruct (MaxExp <? e).
    + apply geq_nonfinite; fields; auto; try discriminate. now rewrite Hn.
    + apply round_req. repeat split; fields; auto.
Qed.

(* ---- Set, Neg, Abs, Copy, SetInf: only prec and mode of the receiver are read ---- *)
Lemma Set_geq z z' x : sim z z' -> ores_geq (Set_ false z x) (Set_ false z' x).
Proof.
  intros [Hp Hm]. unfold Set_. destruct (dform x) eqn:Fx; fields; rewrite Hp;
    (destruct (prec z' =? 0); [cbn [ores_geq]|destruct (prec z' <? prec x); [apply of_opt_geq, round_req|cbn [ores_geq]]]);
    geq_tac.
Qed.

Lemma lift_geq f r r' : (forall a b, geq a b -> geq (f a) (f b)) -> ores_geq r r' -> ores_geq (lift f r) (lift f r').
Proof. intros Hf H. destruct r, r'; cbn [lift ores_geq] in *; auto. Qed.

Lemma Neg_geq z z' x : sim z z' -> ores_geq (Neg_ false z x) (Neg_ false z' x).
Proof.
  intros Hs. unfold Neg_. apply lift_geq; [|apply Set_geq; exact Hs].
  intros a b H. destruct H as (Hf & Hn & R). rewrite Hn. apply geq_with_neg. split; [exact Hf|split; [exact Hn|exact R]].
Qed.

Lemma Abs_geq z z' x : sim z z' -> ores_geq (Abs_ false z x) (Abs_ false z' x).
Proof.
  intros Hs. unfold Abs_. apply lift_geq; [|apply Set_geq; exact Hs].
  intros a b H. apply geq_with_neg. exact H.
Qed.

(* Copy does not read the receiver at all *)
Lemma Copy_geq z z' x : ores_geq (Copy false z x) (Copy false z' x).
Proof. unfold Copy. destruct (dform x) eqn:Fx; cbn [ores_geq]; geq_tac. Qed.

Lemma SetInf_geq z z' sb : sim z z' -> ores_geq (SetInf z sb) (SetInf z' sb).
Proof. intros [Hp Hm]. unfold SetInf. cbn [ores_geq]. geq_tac. Qed.

(* ---- the unsigned cores ---- *)
Lemma umul_geq z z' x y : sim z z' -> neg z = neg z' -> opt_geq (umul z x y) (umul z' x y).
Proof.
  intros Hs Hn. unfold umul. destruct (dnorm _) as [[m' s]|]; [|exact I].
  apply setExpAndRound_geq; [apply with_mant_sim; exact Hs|reflexivity|exact Hn].
Qed.

Lemma uquo_geq z z' x y : sim z z' -> neg z = neg z' -> opt_geq (uquo z x y) (uquo z' x y).
Proof.
  intros Hs Hn. unfold uquo. destruct Hs as [Hp Hm]. rewrite Hp.
  destruct (val (mant y) =? 0); [exact I|].
  destruct (dnorm _) as [[m' s]|]; [|exact I].
  apply setExpAndRound_geq; [split; assumption|reflexivity|exact Hn].
Qed.

Lemma uadd_geq z z' x y : sim z z' -> neg z = neg z' -> opt_geq (uadd z x y) (uadd z' x y).
Proof.
  intros Hs Hn. unfold uadd.
  destruct (if _ <? _ then _ else _) as [m ex]. destruct (dnorm m) as [[m' s]|]; [|exact I].
  apply setExpAndRound_geq; [apply with_mant_sim; exact Hs|reflexivity|exact Hn].
Qed.

Lemma usub_geq z z' x y : sim z z' -> neg z = neg z' -> opt_geq (usub z x y) (usub z' x y).
Proof.
  intros Hs Hn. unfold usub.
  destruct (if _ <? _ then _ else _) as [om ex]. destruct om as [m|]; [|exact I].
  destruct m as [|w r].
  - apply geq_nonfinite; fields; try reflexivity; try discriminate; apply Hs.
  - destruct (dnorm (w :: r)) as [[m' s]|]; [|exact I].
    apply setExpAndRound_geq; [apply with_mant_sim; exact Hs|reflexivity|exact Hn].
Qed.

Lemma fix_zero_sign_geq a b : geq a b -> geq (fix_zero_sign a) (fix_zero_sign b).
Proof.
  intros H. pose proof H as (Hf & Hn & Hp & Hm & Ha & Hfin). unfold fix_zero_sign.
  rewrite <- Hf, <- Hm, <- Ha.
  destruct (form_eqb (dform a) Fzero && mode_eqb (dmode a) ToNegativeInf && acc_eqb (acc a) Exact);
    [apply geq_with_neg|]; exact H.
Qed.

Lemma prec0_sim z z' p : sim z z' ->
  sim (if prec z =? 0 then with_prec z p else z) (if prec z' =? 0 then with_prec z' p else z').
Proof. intros [Hp Hm]. rewrite Hp. destruct (prec z' =? 0); split; fields; auto. Qed.

Lemma opt_geq_fix r r' : opt_geq r r' ->
  ores_geq (match r with None => CrashR | Some z => OkR (fix_zero_sign z) end)
           (match r' with None => CrashR | Some z => OkR (fix_zero_sign z) end).
Proof. destruct r, r'; cbn [opt_geq ores_geq]; auto using fix_zero_sign_geq. Qed.

(* ---- Add, Sub, Mul, Quo for ALL operand classes (receiver distinct from the operands) ---- *)
Lemma Add_geq z z' x y : sim z z' -> ores_geq (Add false false z x y) (Add false false z' x y).
Proof.
  intros Hs0. unfold Add.
  pose proof (prec0_sim z z' (umax32 (prec x) (prec y)) Hs0) as Hs.
  set (w := if prec z =? 0 then with_prec z (umax32 (prec x) (prec y)) else z) in *.
  set (w' := if prec z' =? 0 then with_prec z' (umax32 (prec x) (prec y)) else z') in *.
  clearbody w w'. destruct Hs as [Hp Hm].
  destruct (dform x) eqn:Fx, (dform y) eqn:Fy; try (apply Set_geq; split; assumption).
  - rewrite Hm. cbn [ores_geq]. geq_tac.
  - apply opt_geq_fix. destruct (Bool.eqb (neg x) (neg y)); [apply uadd_geq; [split; assumption|reflexivity]|].
    destruct (0 <? ucmp x y); apply usub_geq; try reflexivity; split; assumption.
  - destruct (negb (Bool.eqb (neg x) (neg y))); [|apply Set_geq; split; assumption].
    cbn [ores_geq]. geq_tac.
Qed.

Lemma SubNeg_geq z z' y : sim z z' -> ores_geq (SubNeg false z y) (SubNeg false z' y).
Proof.
  intros [Hp Hm]. unfold SubNeg. destruct (dform y) eqn:Fy; fields; rewrite Hp;
    (destruct (prec z' <? prec y); [apply of_opt_geq, round_req|cbn [ores_geq]]);
    geq_tac.
Qed.

Lemma Sub_geq z z' x y : sim z z' -> ores_geq (Sub false false z x y) (Sub false false z' x y).
Proof.
  intros Hs0. unfold Sub.
  pose proof (prec0_sim z z' (umax32 (prec x) (prec y)) Hs0) as Hs.
  set (w := if prec z =? 0 then with_prec z (umax32 (prec x) (prec y)) else z) in *.
  set (w' := if prec z' =? 0 then with_prec z' (umax32 (prec x) (prec y)) else z') in *.
  clearbody w w'. destruct Hs as [Hp Hm].
  destruct (dform x) eqn:Fx, (dform y) eqn:Fy; try (apply Set_geq; split; assumption);
    try (apply SubNeg_geq; split; assumption).
  - rewrite Hm. cbn [ores_geq]. geq_tac.
  - apply opt_geq_fix. destruct (negb (Bool.eqb (neg x) (neg y))); [apply uadd_geq; [split; assumption|reflexivity]|].
    destruct (0 <? ucmp x y); apply usub_geq; try reflexivity; split; assumption.
  - destruct (Bool.eqb (neg x) (neg y)); [|apply Set_geq; split; assumption].
    cbn [ores_geq]. geq_tac.
Qed.

Lemma Mul_geq z z' x y : sim z z' -> ores_geq (Mul z x y) (Mul z' x y).
Proof.
  intros Hs0. unfold Mul.
  pose proof (prec0_sim z z' (umax32 (prec x) (prec y)) Hs0) as Hs.
  set (w := if prec z =? 0 then with_prec z (umax32 (prec x) (prec y)) else z) in *.
  set (w' := if prec z' =? 0 then with_prec z' (umax32 (prec x) (prec y)) else z') in *.
  clearbody w w'. pose proof Hs as [Hp Hm].
  destruct (dform x) eqn:Fx, (dform y) eqn:Fy;
    try (cbn [ores_geq]; geq_tac).
  apply of_opt_geq, umul_geq; [apply with_neg_sim; exact Hs|reflexivity].
Qed.

Lemma Quo_geq z z' x y : sim z z' -> ores_geq (Quo z x y) (Quo z' x y).
Proof.
  intros Hs0. unfold Quo.
  pose proof (prec0_sim z z' (umax32 (prec x) (prec y)) Hs0) as Hs.
  set (w := if prec z =? 0 then with_prec z (umax32 (prec x) (prec y)) else z) in *.
  set (w' := if prec z' =? 0 then with_prec z' (umax32 (prec x) (prec y)) else z') in *.
  clearbody w w'. pose proof Hs as [Hp Hm].
  destruct (dform x) eqn:Fx, (dform y) eqn:Fy;
    try (cbn [ores_geq]; geq_tac).
  apply of_opt_geq, uquo_geq; [apply with_neg_sim; exact Hs|reflexivity].
Qed.

(* ---- FMA (receiver distinct from u: the temporary z0 is the receiver itself) ---- *)
Lemma geq_with_acc a b c : geq a b -> geq (with_acc a c) (with_acc b c).
Proof. intros (Hf & Hn & Hp & Hm & Ha & Hfin). repeat split; fields; auto; apply Hfin; assumption. Qed.

(* the inner addition of FMA: receiver and first operand are the same temporary *)
Lemma Add_self_geq a a' u : geq a a' -> ores_geq (Add true false a a u) (Add true false a' a' u).
Proof.
  intros H. destruct (dform a) eqn:Fa; [|rewrite <- (geq_finite_eq a a' H Fa); apply ores_geq_refl|];
    (pose proof H as (Hf & Hn & Hp & Hm & Ha & _); unfold Add; rewrite <- Hf, <- Hn, <- Hp, Fa;
     assert (Hw : geq (if prec a =? 0 then with_prec a (umax32 (prec a) (prec u)) else a)
                      (if prec a =? 0 then with_prec a' (umax32 (prec a) (prec u)) else a'))
       by (destruct (prec a =? 0); [apply geq_with_prec|]; exact H);
     set (w := if prec a =? 0 then with_prec a (umax32 (prec a) (prec u)) else a) in *;
     set (w' := if prec a =? 0 then with_prec a' (umax32 (prec a) (prec u)) else a') in *;
     clearbody w w'; pose proof Hw as (Hwf & Hwn & Hwp & Hwm & Hwa & _); pose proof (geq_sim _ _ Hw) as Hs;
     destruct (dform u) eqn:Fu; rewrite <- ?Hwm;
     try (apply Set_geq; exact Hs);
     try (destruct (negb (Bool.eqb (neg a) (neg u))));
     try (unfold Set_; cbn [ores_geq]; apply geq_with_acc; exact Hw);
     cbn [ores_geq]; geq_tac).
Qed.

Lemma FMA_geq z z' x y u : sim z z' -> ores_geq (FMA false z x y u) (FMA false z' x y u).
Proof.
  intros Hs0. unfold FMA.
  pose proof (prec0_sim z z' (umax32 (umax32 (prec x) (prec y)) (prec u)) Hs0) as Hs.
  set (w := if prec z =? 0 then with_prec z (umax32 (umax32 (prec x) (prec y)) (prec u)) else z) in *.
  set (w' := if prec z' =? 0 then with_prec z' (umax32 (umax32 (prec x) (prec y)) (prec u)) else z') in *.
  clearbody w w'. pose proof Hs as [Hp Hm]. cbv beta iota zeta.
  set (s := xorb (neg x) (neg y)).
  assert (Hinf : geq (with_form (with_acc (with_neg w s) Exact) Finf) (with_form (with_acc (with_neg w' s) Exact) Finf)) by geq_tac.
  assert (HU : opt_geq (umul (with_prec (with_neg w s) MaxPrec) x y) (umul (with_prec (with_neg w' s) MaxPrec) x y)).
  { apply umul_geq; [split; fields; auto|reflexivity]. }
  destruct (dform u) eqn:Fu.
  - (* zero addend *)
    pose proof (Mul_geq w w' x y Hs) as HM.
    destruct (Mul w x y) as [a|a|], (Mul w' x y) as [b|b|]; cbn [ores_geq] in *; try contradiction; auto.
    pose proof HM as (Hf & Hn & _ & Hmm & Ha & _). rewrite <- Hf, <- Ha, <- Hn, <- Hmm.
    destruct (form_eqb (dform a) Fzero && acc_eqb (acc a) Exact && negb (Bool.eqb (neg a) (neg u)));
      [apply geq_with_neg|]; exact HM.
  - (* finite addend *)
    cbn [form_eqb].
    destruct (dform x) eqn:Fx, (dform y) eqn:Fy;
      try (apply Set_geq; exact Hs); try (apply Add_self_geq; exact Hinf); try (cbn [ores_geq]; geq_tac).
    destruct (umul (with_prec (with_neg w s) MaxPrec) x y) as [a|], (umul (with_prec (with_neg w' s) MaxPrec) x y) as [b|];
      cbn [opt_geq ores_geq] in *; try contradiction; auto.
    fields. rewrite Hp. apply Add_self_geq, geq_with_prec. exact HU.
  - (* infinite addend *)
    cbn [form_eqb].
    destruct (dform x) eqn:Fx, (dform y) eqn:Fy;
      try (apply Set_geq; exact Hs); try (apply Add_self_geq; exact Hinf); try (cbn [ores_geq]; geq_tac).
Qed.

(* ---- the setters of L3/Convert.v ---- *)
Lemma setBits64_geq z z' ng x e : sim z z' -> ores_geq (setBits64 z ng x e) (setBits64 z' ng x e).
Proof.
  intros Hs0. unfold setBits64.
  pose proof (prec0_sim z z' DefaultDecimalPrec Hs0) as Hs.
  set (w := if prec z =? 0 then with_prec z DefaultDecimalPrec else z) in *.
  set (w' := if prec z' =? 0 then with_prec z' DefaultDecimalPrec else z') in *.
  clearbody w w'. pose proof Hs as [Hp Hm].
  destruct (x =? 0); [cbn [ores_geq]; geq_tac|].
  destruct (dnorm (of_Z x)) as [[m' s]|]; [|exact I].
  apply of_opt_geq, setExpAndRound_geq; [split; fields; assumption|reflexivity|reflexivity].
Qed.

Lemma SetInt64_geq z z' x : sim z z' -> ores_geq (SetInt64 z x) (SetInt64 z' x).
Proof. apply setBits64_geq. Qed.
Lemma SetUint64_geq z z' x : sim z z' -> ores_geq (SetUint64 z x) (SetUint64 z' x).
Proof. apply setBits64_geq. Qed.

Lemma SetInt_geq z z' x : sim z z' -> ores_geq (SetInt z x) (SetInt z' x).
Proof.
  intros [Hp Hm]. unfold SetInt. fields. rewrite Hp.
  destruct (x =? 0).
  - destruct (prec z' =? 0); cbn [ores_geq]; geq_tac.
  - destruct (dnorm (of_Z (Z.abs x))) as [[m' s]|]; [|destruct (prec z' =? 0); exact I].
    apply of_opt_geq, setExpAndRound_geq; destruct (prec z' =? 0); try reflexivity; split; fields; first [assumption|reflexivity].
Qed.

Lemma SetRat_geq z z' num den : sim z z' -> ores_geq (SetRat z num den) (SetRat z' num den).
Proof.
  intros Hs. unfold SetRat. destruct (den =? 1); [apply SetInt_geq; exact Hs|].
  destruct (SetInt dec_zero num) as [a|a|]; try exact I.
  destruct (SetInt dec_zero den) as [b|b|]; try exact I.
  apply Quo_geq, prec0_sim. exact Hs.
Qed.

(* SetMantExp and MantExp's out-parameter take everything from the operand: the receiver
   is not read at all (no `sim` hypothesis) *)
Lemma SetMantExp_geq z z' m e : ores_geq (SetMantExp false z m e) (SetMantExp false z' m e).
Proof.
  unfold SetMantExp. pose proof (Copy_geq z z' m) as HC.
  destruct (Copy false z m) as [a|a|], (Copy false z' m) as [b|b|]; cbn [ores_geq] in HC; try contradiction; try exact HC.
  destruct (dform a) eqn:Fa.
  - destruct HC as (Hf & R). rewrite <- Hf, Fa. cbn [ores_geq]. split; [exact Hf|exact R].
  - rewrite <- (geq_finite_eq a b HC Fa), Fa. apply ores_geq_refl.
  - destruct HC as (Hf & R). rewrite <- Hf, Fa. cbn [ores_geq]. split; [exact Hf|exact R].
Qed.

Lemma MantExp_mant_geq m m' x : ores_geq (MantExp_mant false m x) (MantExp_mant false m' x).
Proof.
  unfold MantExp_mant. pose proof (Copy_geq m m' x) as HC.
  destruct (Copy false m x) as [a|a|], (Copy false m' x) as [b|b|]; cbn [ores_geq] in HC; try contradiction; try exact HC.
  destruct (dform a) eqn:Fa.
  - destruct HC as (Hf & R). rewrite <- Hf, Fa. cbn [ores_geq]. split; [exact Hf|exact R].
  - rewrite <- (geq_finite_eq a b HC Fa), Fa. apply ores_geq_refl.
  - destruct HC as (Hf & R). rewrite <- Hf, Fa. cbn [ores_geq]. split; [exact Hf|exact R].
Qed.

Lemma SetBitsExp_geq z z' ws e : sim z z' -> ores_geq (SetBitsExp z ws e) (SetBitsExp z' ws e).
Proof.
  intros [Hp Hm]. unfold SetBitsExp. destruct (norm ws) as [|w0 r0] eqn:En; [cbn [ores_geq]; geq_tac|].
  fields. rewrite Hp.
  destruct (dnorm (w0 :: r0)) as [[m' s]|]; [|destruct (prec z' =? 0); exact I].
  apply of_opt_geq, setExpAndRound_geq; destruct (prec z' =? 0); try reflexivity; split; fields; first [assumption|reflexivity].
Qed.

(* ------------------------------------------------------------------ *)
(* The C10 statements: observational equality of the results *)
Theorem Set_indep z z' x : sim z z' -> ores_oeq (Set_ false z x) (Set_ false z' x).
Proof. intros H. apply ores_geq_oeq, Set_geq, H. Qed.
Theorem Neg_indep z z' x : sim z z' -> ores_oeq (Neg_ false z x) (Neg_ false z' x).
Proof. intros H. apply ores_geq_oeq, Neg_geq, H. Qed.
Theorem Abs_indep z z' x : sim z z' -> ores_oeq (Abs_ false z x) (Abs_ false z' x).
Proof. intros H. apply ores_geq_oeq, Abs_geq, H. Qed.
Theorem Copy_indep z z' x : ores_oeq (Copy false z x) (Copy false z' x).
Proof. apply ores_geq_oeq, Copy_geq. Qed.
Theorem SetInf_indep z z' sb : sim z z' -> ores_oeq (SetInf z sb) (SetInf z' sb).
Proof. intros H. apply ores_geq_oeq, SetInf_geq, H. Qed.

(* Add, Sub, Mul, Quo, FMA for ALL operand classes (zero, finite, infinite; ErrNaN outcomes
   included): no `dform _ = Ffinite` hypotheses.  The alias flags are false: the receiver is
   a variable distinct from the operands (otherwise z and z' are both the operand). *)
Theorem Add_indep_all z z' x y : sim z z' -> ores_oeq (Add false false z x y) (Add false false z' x y).
Proof. intros H. apply ores_geq_oeq, Add_geq, H. Qed.
Theorem Sub_indep_all z z' x y : sim z z' -> ores_oeq (Sub false false z x y) (Sub false false z' x y).
Proof. intros H. apply ores_geq_oeq, Sub_geq, H. Qed.
Theorem Mul_indep_all z z' x y : sim z z' -> ores_oeq (Mul z x y) (Mul z' x y).
Proof. intros H. apply ores_geq_oeq, Mul_geq, H. Qed.
Theorem Quo_indep_all z z' x y : sim z z' -> ores_oeq (Quo z x y) (Quo z' x y).
Proof. intros H. apply ores_geq_oeq, Quo_geq, H. Qed.
Theorem FMA_indep z z' x y u : sim z z' -> ores_oeq (FMA false z x y u) (FMA false z' x y u).
Proof. intros H. apply ores_geq_oeq, FMA_geq, H. Qed.

(* Sub on finite operands with any alias flags (they are not read), as Add_indep *)
Theorem Sub_indep zx zy z z' x y : sim z z' -> dform x = Ffinite -> dform y = Ffinite ->
  ores_oeq (Sub zx zy z x y) (Sub zx zy z' x y).
Proof.
  intros H Fx Fy.
  assert (E : forall w, Sub zx zy w x y = Sub false false w x y) by (intros w; unfold Sub; rewrite Fx, Fy; reflexivity).
  rewrite !E. apply Sub_indep_all, H.
Qed.

Theorem SetInt64_indep z z' x : sim z z' -> ores_oeq (SetInt64 z x) (SetInt64 z' x).
Proof. intros H. apply ores_geq_oeq, SetInt64_geq, H. Qed.
Theorem SetUint64_indep z z' x : sim z z' -> ores_oeq (SetUint64 z x) (SetUint64 z' x).
Proof. intros H. apply ores_geq_oeq, SetUint64_geq, H. Qed.
Theorem SetInt_indep z z' x : sim z z' -> ores_oeq (SetInt z x) (SetInt z' x).
Proof. intros H. apply ores_geq_oeq, SetInt_geq, H. Qed.
Theorem SetRat_indep z z' num den : sim z z' -> ores_oeq (SetRat z num den) (SetRat z' num den).
Proof. intros H. apply ores_geq_oeq, SetRat_geq, H. Qed.
Theorem SetMantExp_indep z z' m e : ores_oeq (SetMantExp false z m e) (SetMantExp false z' m e).
Proof. apply ores_geq_oeq, SetMantExp_geq. Qed.
Theorem MantExp_mant_indep m m' x : ores_oeq (MantExp_mant false m x) (MantExp_mant false m' x).
Proof. apply ores_geq_oeq, MantExp_mant_geq. Qed.
Theorem SetBitsExp_indep z z' ws e : sim z z' -> ores_oeq (SetBitsExp z ws e) (SetBitsExp z' ws e).
Proof. intros H. apply ores_geq_oeq, SetBitsExp_geq, H. Qed.

(* ------------------------------------------------------------------ *)
(* FMA with the receiver aliasing the addend (z == u): the code then computes the product
   in a fresh temporary z0 carrying only z's precision and mode.  The result is the same
   as for a receiver distinct from u with the precision and mode of u. *)

(* rounding keeps precision, mode and sign *)
Lemma round_attrs z sb z' : round z sb = Some z' -> prec z' = prec z /\ dmode z' = dmode z /\ neg z' = neg z.
Proof.
  unfold round. cbn [dform with_acc mant prec dmode neg exp].
  destruct (dform z); try (intros E; injection E as <-; repeat split).
  destruct (_ <=? prec z); [intros E; injection E as <-; repeat split|].
  set (m := u32 (zlen (mant z))). set (n := u32 (prec z + (DW - 1)) / DW).
  set (mant1 := if n <? m then skipn (Z.to_nat (m - n)) (mant z) else mant z).
  destruct mant1 as [|w0 r0] eqn:E1; [discriminate|]. rewrite <- E1 in *. clear E1.
  set (lsd := 10 ^ (u32 (n * DW) - prec z)).
  destruct (negb _).
  - destruct (round_inc _ _ _ _ _).
    + destruct (add10VW_v mant1 lsd) as [mant2 c].
      destruct (negb (c =? 0)).
      * destruct (MaxExp <=? exp z); intros E; injection E as <-; repeat split.
      * intros E; injection E as <-. repeat split.
    + intros E; injection E as <-. repeat split.
  - intros E; injection E as <-. repeat split.
Qed.

Lemma setExpAndRound_attrs z e sb z' : setExpAndRound z e sb = Some z' ->
  prec z' = prec z /\ dmode z' = dmode z /\ neg z' = neg z.
Proof.
  unfold setExpAndRound. destruct (e <? MinExp); [intros E; injection E as <-; repeat split|].
  destruct (MaxExp <? e); [intros E; injection E as <-; repeat split|].
  intros E. apply round_attrs in E. exact E.
Qed.

Lemma umul_attrs z x y z' : umul z x y = Some z' -> prec z' = prec z /\ dmode z' = dmode z /\ neg z' = neg z.
Proof.
  unfold umul. destruct (dnorm _) as [[m' s]|]; [|discriminate].
  intros E. apply setExpAndRound_attrs in E. exact E.
Qed.

(* w holds the value of u (it is u, possibly with another precision) *)
Definition carries (w u : Dec) : Prop :=
  dform w = dform u /\ neg w = neg u /\ dmode w = dmode u /\ mant w = mant u /\ exp w = exp u.
Definition prec_fits (w u : Dec) : Prop := prec w = prec u \/ (prec u = 0 /\ 0 <= prec w).

Lemma carries_adj w u p : carries w u -> carries (if prec w =? 0 then with_prec w p else w) u.
Proof. intros H. destruct (prec w =? 0); [|exact H]. destruct H as (?&?&?&?&?). repeat split; fields; assumption. Qed.

Lemma umax32_ge0 a : 0 <= umax32 a 0.
Proof. unfold umax32. destruct (Z.ltb_spec 0 a); lia. Qed.

(* Set into the operand itself = Set of the operand into a receiver of the same precision/mode *)
Lemma Set_alias_geq w w' u : carries w u -> sim w w' -> prec_fits w u ->
  ores_geq (Set_ true w u) (Set_ false w' u).
Proof.
  intros (Cf & Cn & Cm & Cma & Ce) [Hp Hm] Hfit. unfold Set_, prec_fits in *.
  destruct (dform u) eqn:Fu; fields; rewrite <- ?Hp;
    (destruct (Z.eqb_spec (prec w) 0); [|destruct (Z.ltb_spec (prec w) (prec u)); [exfalso; lia|]]);
    cbn [ores_geq]; geq_tac; try lia.
Qed.

(* an infinite operand: copied into w, or already held by w' *)
Lemma Set_inf_alias_geq w w' t t' :
  dform t = Finf -> neg t = neg t' -> dform w' = Finf -> neg w' = neg t' -> sim w w' ->
  ~ prec w < prec t -> (prec w = 0 -> prec t = 0) ->
  ores_geq (Set_ false w t) (Set_ true w' t').
Proof.
  intros Ft Hn Fw' Nw' [Hp Hm] H1 H2. unfold Set_. rewrite Ft. fields.
  destruct (Z.eqb_spec (prec w) 0); [|destruct (Z.ltb_spec (prec w) (prec t)); [contradiction|]];
    cbn [ores_geq]; geq_tac; try lia.
Qed.

(* the final addition of FMA: receiver r (= u) with operand t, against receiver t' = operand *)
Lemma Add_alias_geq r t t' u :
  geq t t' -> carries r u -> prec_fits r u -> prec t = prec r -> dmode t = dmode r -> dform u <> Fzero ->
  ores_geq (Add false true r t u) (Add true false t' t' u).
Proof.
  intros Hg Hc Hfit Hpt Hmt Hu. pose proof Hg as (Gf & Gn & Gp & Gm & Ga & _).
  unfold Add. rewrite <- Gf, <- Gn, <- Gp.
  set (w := if prec r =? 0 then with_prec r (umax32 (prec t) (prec u)) else r).
  set (w' := if prec t =? 0 then with_prec t' (umax32 (prec t) (prec u)) else t').
  assert (Hs : sim w w').
  { unfold w, w'. rewrite Hpt. destruct (prec r =? 0); split; fields; congruence. }
  assert (Hcw : carries w u) by (apply carries_adj; exact Hc).
  assert (Hfw : prec_fits w u).
  { unfold w, prec_fits in *. destruct (Z.eqb_spec (prec r) 0) as [E0|E0]; fields; [|exact Hfit].
    left. assert (Eu : prec u = 0) by lia. rewrite Eu, Hpt, E0. reflexivity. }
  assert (Hw' : dform w' = dform t /\ neg w' = neg t /\ prec w' = prec w).
  { split; [|split; [|symmetry; apply Hs]]; unfold w'; destruct (prec t =? 0); fields; congruence. }
  assert (Hpw : ~ prec w < prec t /\ (prec w = 0 -> prec t = 0)).
  { unfold w. destruct (Z.eqb_spec (prec r) 0) as [E0|E0]; fields; [|lia].
    unfold umax32. destruct (Z.ltb_spec (prec u) (prec t)); lia. }
  destruct Hw' as (Fw' & Nw' & Pw'). destruct Hpw as [Hpw1 Hpw2]. pose proof Hs as [Hp Hm].
  clearbody w w'.
  destruct (dform t) eqn:Ft; destruct (dform u) eqn:Fu; try congruence;
    try (apply Set_alias_geq; assumption);
    try (apply Set_inf_alias_geq; try assumption; congruence).
  - (* both finite: t' = t, the flags are not read *)
    assert (Et : t' = t) by (symmetry; apply geq_finite_eq; assumption). subst t'.
    apply opt_geq_fix. destruct (Bool.eqb (neg t) (neg u)); [apply uadd_geq; [split; assumption|reflexivity]|].
    destruct (0 <? ucmp t u); apply usub_geq; try reflexivity; split; assumption.
  - (* Inf + Inf *)
    destruct (negb (Bool.eqb (neg t) (neg u))); [cbn [ores_geq]; geq_tac|].
    apply Set_inf_alias_geq; try assumption; congruence.
Qed.

Lemma FMA_alias_geq z x y u : sim u z -> ores_geq (FMA true u x y u) (FMA false z x y u).
Proof.
  intros Hs0. unfold FMA.
  pose proof (prec0_sim u z (umax32 (umax32 (prec x) (prec y)) (prec u)) Hs0) as Hs.
  assert (Hc : carries (if prec u =? 0 then with_prec u (umax32 (umax32 (prec x) (prec y)) (prec u)) else u) u).
  { apply carries_adj. repeat split. }
  assert (Hfit : prec_fits (if prec u =? 0 then with_prec u (umax32 (umax32 (prec x) (prec y)) (prec u)) else u) u).
  { unfold prec_fits. destruct (Z.eqb_spec (prec u) 0) as [E0|E0]; [right|left; reflexivity].
    fields. split; [exact E0|]. rewrite E0. apply umax32_ge0. }
  set (w := if prec u =? 0 then with_prec u (umax32 (umax32 (prec x) (prec y)) (prec u)) else u) in *.
  set (w' := if prec z =? 0 then with_prec z (umax32 (umax32 (prec x) (prec y)) (prec u)) else z) in *.
  clearbody w w'. pose proof Hs as [Hp Hm]. cbv beta iota zeta.
  set (s := xorb (neg x) (neg y)).
  set (z0 := with_neg (mkDec [] 0 (prec w) (dmode w) Exact Fzero false) s).
  assert (Hinf : geq (with_form (with_acc z0 Exact) Finf) (with_form (with_acc (with_neg w' s) Exact) Finf)) by (unfold z0; geq_tac).
  assert (HU : opt_geq (umul (with_prec z0 MaxPrec) x y) (umul (with_prec (with_neg w' s) MaxPrec) x y)).
  { apply umul_geq; [split; fields; auto|reflexivity]. }
  destruct (dform u) eqn:Fu.
  - (* zero addend: no temporary *)
    pose proof (Mul_geq w w' x y Hs) as HM.
    destruct (Mul w x y) as [a|a|], (Mul w' x y) as [b|b|]; cbn [ores_geq] in *; try contradiction; auto.
    pose proof HM as (Hf & Hn & _ & Hmm & Ha & _). rewrite <- Hf, <- Ha, <- Hn, <- Hmm.
    destruct (form_eqb (dform a) Fzero && acc_eqb (acc a) Exact && negb (Bool.eqb (neg a) (neg u)));
      [apply geq_with_neg|]; exact HM.
  - (* finite addend *)
    cbn [form_eqb].
    destruct (dform x) eqn:Fx, (dform y) eqn:Fy;
      try (apply Set_alias_geq; assumption);
      try (apply Add_alias_geq; try assumption; try reflexivity; congruence);
      try (cbn [ores_geq]; geq_tac).
    destruct (umul (with_prec z0 MaxPrec) x y) as [a|] eqn:Ea, (umul (with_prec (with_neg w' s) MaxPrec) x y) as [b|];
      cbn [opt_geq ores_geq] in *; try contradiction; auto.
    apply umul_attrs in Ea. destruct Ea as (_ & Ema & _).
    apply Add_alias_geq; try assumption; try congruence.
    + fields. rewrite <- Hp. apply geq_with_prec. exact HU.
    + first [reflexivity|fields; exact Ema].
  - (* infinite addend *)
    cbn [form_eqb].
    destruct (dform x) eqn:Fx, (dform y) eqn:Fy;
      try (apply Set_alias_geq; assumption);
      try (apply Add_alias_geq; try assumption; try reflexivity; congruence);
      try (cbn [ores_geq]; geq_tac).
Qed.

Theorem FMA_alias_indep z x y u : sim u z -> ores_oeq (FMA true u x y u) (FMA false z x y u).
Proof. intros H. apply ores_geq_oeq, FMA_alias_geq, H. Qed.
