(* L3/Sqrt.v — model of decimal_sqrt.go: Sqrt, sqrtRound, sqrtInverse, newDecimal.
   Definitions only.  The float64 initial guess
     1 / math.Sqrt(float64(top/10) / float64(pow10(18-exp)))
   is computed by the correctly rounded binary64 operations of L3/Bin.v. *)
From Coq Require Import ZArith Bool List Lia.
From Dec Require Export L3.Float.
From Dec Require gen.Tables.
Open Scope Z_scope.

Definition ores_get (r : ores) : Dec := match r with OkR d | NaNR d => d | CrashR => dec_zero end.

(* package variables *)
Definition oneHalf : Dec := ores_get (NewDecimal 5 (-1)).
Definition three : Dec := ores_get (NewDecimal 3 0).

(* newDecimal(prec2): a zero value whose buffer has room for 2*(prec2/19)
   words; buffers are not modelled above L1, so only the zero value remains *)
Definition newDecimal (prec2 : Z) : Dec := dec_zero.

(* xf := float64(x.mant[len-1]/10) / float64(pow10(uint(_DW-1-x.exp)));
   1 / math.Sqrt(xf).  None = index out of range *)
Definition sqrt_guess (x : Dec) : option fl :=
  let n := DW - 1 - exp x in
  match mant x with
  | [] => None
  | _ =>
      if (0 <=? n) && (n <? zlen Tables.pow10tab) then
        let xf := b64_div (b64_of_Z (last_word (mant x) / 10))
                          (b64_of_Z (nth (Z.to_nat n) Tables.pow10tab 0)) in
        Some (b64_div b64_one (b64_sqrt xf))
      else None
  end.

(* the Newton loop: t = ½t(3 - x·t²) with the working precision
   t.prec*2 - 2 (uint32) while t.prec < lim; z is the caller's receiver (only
   used to report the receiver state if a temporary panics).  Running out of
   fuel = the Go loop would not terminate *)
Fixpoint newton (fuel : nat) (lim : Z) (z x t u v : Dec) : ores :=
  match fuel with
  | O => CrashR
  | S k =>
      if prec t <? lim then
        let p := u32 (prec t * 2 - 2) in
        let t := with_prec t p in
        let u := with_prec u p in
        let v := with_prec v p in
        bindT z (Mul u t t) (fun u =>                      (* u = t²          *)
        bindT z (Mul u x u) (fun u =>                      (*   = x·t²        *)
        bindT z (Sub false false v three u) (fun v =>      (* v = 3 - x·t²    *)
        bindT z (Mul u t v) (fun u =>                      (* u = t(3 - x·t²) *)
        bindT z (Mul t u oneHalf) (fun t =>                (* t = ½t(3 - x·t²)*)
        newton k lim z x t u v)))))
      else OkR t
  end.

(* z.sqrtInverse(x): z supplies the working precision and mode, x the operand *)
Definition sqrtInverse (z x : Dec) : ores :=
  match sqrt_guess x with
  | None => CrashR
  | Some g =>
      bindT z (SetFloat64_fl (newDecimal (prec z)) g) (fun t =>
      bindT z (newton 40 (u32 (prec z + 2)) z x t (newDecimal (prec z)) (newDecimal (prec z))) (fun t =>
      Mul z x t))
  end.

(* a fresh temporary of precision p: new(Decimal).SetPrec(p) *)
Definition tmpDec (p : Z) : Dec := mkDec [] 0 p ToNearestEven Exact Fzero false.

(* for sq.Mul(z, z).Cmp(x) > 0 { z.Sub(z, ulp) }
   Running out of fuel = more than `fuel` iterations of the Go loop *)
Fixpoint sqrt_down (fuel : nat) (psq : Z) (z x ulp : Dec) : ores :=
  match fuel with
  | O => CrashR
  | S k =>
      bindT z (Mul (tmpDec psq) z z) (fun sq =>
      if Cmp sq x =? 1 then bindR (Sub true false z z ulp) (fun z' => sqrt_down k psq z' x ulp)
      else OkR z)
  end.

(* for sq.Mul(t.Add(z, ulp), t).Cmp(x) <= 0 { z.Set(t) } *)
Fixpoint sqrt_up (fuel : nat) (psq pt : Z) (z x ulp : Dec) : ores :=
  match fuel with
  | O => CrashR
  | S k =>
      bindT z (Arith.Add false false (tmpDec pt) z ulp) (fun t =>
      bindT z (Mul (tmpDec psq) t t) (fun sq =>
      if Cmp sq x <=? 0 then bindR (Set_ false z t) (fun z' => sqrt_up k psq pt z' x ulp)
      else OkR z))
  end.

Definition sqrt_fuel : nat := 200.

(* z.sqrtRound(x, prec, mode) *)
Definition sqrtRound (z x : Dec) (p : Z) (md : mode) : ores :=
  let ulp := ores_get (NewDecimal 1 (exp z - prec z)) in
  let half := ores_get (NewDecimal 5 (exp z - prec z - 1)) in
  let z := with_prec z (u32 (prec z + 1)) in                    (* z.prec++ *)
  let psq := let q := 2 * prec z + 2 in if MaxPrec <? q then MaxPrec else q in
  let pt := let q := prec z + 1 in if MaxPrec <? q then MaxPrec else q in
  bindR (sqrt_down sqrt_fuel psq z x ulp) (fun z =>
  bindR (sqrt_up sqrt_fuel psq pt z x ulp) (fun z =>
  bindT z (Mul (tmpDec psq) z z) (fun sq =>
  bindR (if Cmp sq x =? 0 then OkR z
         else Arith.Add true false (with_prec z (u32 (prec z + 2))) (with_prec z (u32 (prec z + 2))) half) (fun z =>
  SetPrec (with_mode z md) p)))).

(* z.Sqrt(x); same: z and x are the same variable *)
Definition Sqrt (same : bool) (z x : Dec) : ores :=
  let z := if prec z =? 0 then with_prec z (prec x) else z in
  if Sign x =? -1 then NaNR z
  else
    match dform x with
    | Ffinite =>
        let p := prec z in
        let md := dmode z in
        let b := MantExp_exp x in
        bindR (MantExp_mant same z x) (fun z =>
        let z := with_mode (with_prec z p) md in
        let r := Z.rem b 2 in
        let z := if r =? 1 then with_exp z (i32 (exp z + 1))
                 else if r =? -1 then with_exp z (i32 (exp z - 1))
                 else z in
        let x0 := z in                                           (* new(Decimal).Copy(z) *)
        let z := with_mode (with_prec z (u32 (p + 2))) ToZero in
        bindR (sqrtInverse z x0) (fun z =>
        bindR (sqrtRound z x0 p md) (fun z =>
        let a := acc z in
        bindR (SetMantExp true z z (Z.quot b 2)) (fun z => OkR (with_acc z a)))))
    | _ => OkR (with_neg (with_form (with_acc z Exact) (dform x)) (neg x))
    end.
