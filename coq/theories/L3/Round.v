(* L3/Round.v — model of Decimal.round, setExpAndRound and dnorm
   (decimal.go).  The natural-number routines are the value-level ones of
   Base/Words.v; machine-integer wrap-around is written out where the Go code
   has it. *)
From Dec Require Export L3.Decimal.
Open Scope Z_scope.

Definition b2z (b : bool) : Z := if b then 1 else 0.

Definition u32 (x : Z) : Z := x mod 4294967296.
Definition i64 (x : Z) : Z := (x + 9223372036854775808) mod 18446744073709551616 - 9223372036854775808.
Definition i32 (x : Z) : Z := (x + 2147483648) mod 4294967296 - 2147483648.
Definition u64 (x : Z) : Z := x mod 18446744073709551616.

(* add10VW(z, z, y) on an n-word vector, value level: new words and carry *)
Definition add10VW_v (m : list Z) (y : Z) : list Z * Z :=
  let s := val m + y in
  (to_words (length m) s, s / B ^ zlen m).

(* z.mant[i] = w *)
Fixpoint set_nth (l : list Z) (i : nat) (w : Z) : list Z :=
  match l, i with
  | [], _ => []
  | _ :: r, O => w :: r
  | x :: r, S i' => x :: set_nth r i' w
  end.

(* z.mant[0] -= z.mant[0] % lsd *)
Definition clear_low (m : list Z) (lsd : Z) : list Z :=
  match m with
  | [] => []
  | w :: r => (w - w mod lsd) :: r
  end.

(* dnorm: shift the mantissa left so that the top word has a non-zero leading
   digit; returns the new words and the shift. None = index out of range
   (empty mantissa). *)
Definition dnorm (m : list Z) : option (list Z * Z) :=
  match m with
  | [] => None
  | _ =>
      let s := nlz10 (last_word m) in
      if 0 <? s then Some (to_words (length m) (val m * 10 ^ s), s)
      else Some (m, s)
  end.

(* rounding decision: increment the truncated magnitude? *)
Definition round_inc (md : mode) (ng : bool) (rdigit sbit lastdigit : Z) : bool :=
  match md with
  | ToNegativeInf => ng
  | ToZero => false
  | ToNearestEven => (5 <? rdigit) || ((rdigit =? 5) && (negb (sbit =? 0) || Z.odd lastdigit))
  | ToNearestAway => 5 <=? rdigit
  | AwayFromZero => true
  | ToPositiveInf => negb ng
  end.

(* (z *Decimal).round(sbit). None = run-time panic (index out of range on an
   empty mantissa). *)
Definition round (z : Dec) (sbit : Z) : option Dec :=
  let z := with_acc z Exact in
  match dform z with
  | Ffinite =>
      let m := u32 (zlen (mant z)) in
      let digits := u32 (m * DW) in
      if digits <=? prec z then Some z
      else
        let r := digits - prec z - 1 in
        let rdigit := dec_digit (mant z) r in
        let sbit := if (sbit =? 0) && ((rdigit =? 0) || mode_eqb (dmode z) ToNearestEven)
                    then dec_sticky (mant z) r else sbit in
        let sbit := sbit mod 2 in
        let n := u32 (prec z + (DW - 1)) / DW in
        let mant1 := if n <? m then skipn (Z.to_nat (m - n)) (mant z) else mant z in
        let ntz := u32 (n * DW) - prec z in
        let lsd := 10 ^ ntz in
        match mant1 with
        | [] => None
        | _ =>
          if negb ((rdigit =? 0) && (sbit =? 0)) then
            let inc := round_inc (dmode z) (neg z) rdigit sbit (dec_digit mant1 ntz) in
            let z := with_acc z (makeAcc (xorb inc (neg z))) in
            if inc then
              let '(mant2, c) := add10VW_v mant1 lsd in
              if negb (c =? 0) then
                if MaxExp <=? exp z then Some (with_form (with_mant z mant2) Finf)
                else
                  let mant3 := set_nth mant2 (Z.to_nat (n - 1)) (B / 10) in
                  Some (with_mant (with_exp z (exp z + 1)) (clear_low mant3 lsd))
              else Some (with_mant z (clear_low mant2 lsd))
            else Some (with_mant z (clear_low mant1 lsd))
          else Some (with_mant z (clear_low mant1 lsd))
        end
  | _ => Some z
  end.

(* setExpAndRound(exp int64, sbit) *)
Definition setExpAndRound (z : Dec) (e : Z) (sbit : Z) : option Dec :=
  if e <? MinExp then Some (with_form (with_acc z (makeAcc (neg z))) Fzero)
  else if MaxExp <? e then Some (with_form (with_acc z (makeAcc (negb (neg z)))) Finf)
  else round (with_exp (with_form z Ffinite) (i32 e)) sbit.
