(* L3/NonVacuity.v — machine-checked satisfiability of the hypotheses of the
   correctness theorems: each Example APPLIES the theorem to small concrete
   operands and discharges EVERY hypothesis (not merely evaluates the function).
   An unsatisfiable hypothesis (like the `forall p'` span hypothesis FMA_correct
   had before it was replaced by `fma_span`) makes the corresponding Example
   unprovable. *)
From Coq Require Import ZArith List Bool Lia QArith.
From Dec Require Import Base.Words Base.WordsProofs Base.QPow L3.Decimal L3.Cmp L3.CmpProofs
  L3.Convert L3.Round L3.Arith Spec.Rounding Spec.RoundingFacts L3.RoundProofs L3.ArithProofs
  L3.SpecialProofs L3.FmaProofs L3.SpecialProofs2 L3.ConvertProofs L3.ConvProofs2
  L4.Gob L4.GobProofs.
Open Scope Z_scope.

Definition nv_x : Dec := mkDec [1250000000000000000] 1 3 ToNearestEven Exact Ffinite false.   (* 1.25 *)
Definition nv_y : Dec := mkDec [3000000000000000000] 0 1 ToNearestAway Exact Ffinite true.    (* -0.3 *)
Definition nv_z : Dec := mkDec [7; 9999999999999999999] 40 2 ToZero Above Ffinite true.       (* stale, prec 2 *)
Definition nv_z0 : Dec := dec_zero.                                                           (* prec 0 *)
Definition nv_0 : Dec := mkDec [] 0 5 ToNearestEven Exact Fzero true.                         (* -0 *)

(* closed side conditions: decided by evaluation (no argument-less `discriminate`: with a
   Q inequality about 10^MaxExp in the context it would try to evaluate it) *)
Ltac nv :=
  first [ reflexivity
        | (let H := fresh in intro H; discriminate H)
        | (vm_compute; first [reflexivity | congruence | (split; congruence)]) ].

(* ---- L3/ArithProofs.v ---- *)
Example nv_Set_correct : OpPost 2 ToZero false (mag nv_x) (Set_ false nv_z nv_x).
Proof. apply (Set_correct false nv_z nv_x); nv. Qed.
Example nv_Set_correct_alias : OpPost 3 ToNearestEven false (mag nv_x) (Set_ true nv_x nv_x).
Proof. apply (Set_correct true nv_x nv_x); nv. Qed.
Example nv_Set_correct_prec0 : OpPost 3 ToNearestEven false (mag nv_x) (Set_ false nv_z0 nv_x).
Proof. apply (Set_correct false nv_z0 nv_x); nv. Qed.

Example nv_Neg_correct : exists z', Neg_ false nv_z nv_x = OkR (with_neg z' true) /\
  result_spec 2 ToZero false (mag nv_x) z' /\ prec z' = 2 /\ dmode z' = ToZero /\ WF z'.
Proof. apply (Neg_correct false nv_z nv_x); nv. Qed.
Example nv_Abs_correct : exists z', Abs_ false nv_z nv_y = OkR (with_neg z' false) /\
  result_spec 2 ToZero true (mag nv_y) z' /\ prec z' = 2 /\ dmode z' = ToZero /\ WF z'.
Proof. apply (Abs_correct false nv_z nv_y); nv. Qed.

Example nv_SetPrec_correct : OpPost 2 ToNearestEven false (mag nv_x) (SetPrec nv_x 2).
Proof. apply (SetPrec_correct nv_x 2); nv. Qed.

Example nv_Add_correct : AddPost 2 ToZero (sval nv_x + sval nv_y) (Add false false nv_z nv_x nv_y).
Proof. apply (Add_correct false false nv_z nv_x nv_y); nv. Qed.
Example nv_Add_correct_alias : AddPost 3 ToNearestEven (sval nv_x + sval nv_y) (Add true false nv_x nv_x nv_y).
Proof. apply (Add_correct true false nv_x nv_x nv_y); nv. Qed.
Example nv_Sub_correct : AddPost 2 ToZero (sval nv_x - sval nv_y) (Sub false false nv_z nv_x nv_y).
Proof. apply (Sub_correct false false nv_z nv_x nv_y); nv. Qed.
Example nv_Mul_correct : OpPost 2 ToZero true (mag nv_x * mag nv_y) (Mul nv_z nv_x nv_y).
Proof. apply (Mul_correct nv_z nv_x nv_y); nv. Qed.
Example nv_Mul_correct_prec0 : OpPost 3 ToNearestEven true (mag nv_x * mag nv_y) (Mul nv_z0 nv_x nv_y).
Proof. apply (Mul_correct nv_z0 nv_x nv_y); nv. Qed.
Example nv_Quo_correct : OpPost 2 ToZero true (mag nv_x / mag nv_y) (Quo nv_z nv_x nv_y).
Proof. apply (Quo_correct nv_z nv_x nv_y); nv. Qed.

(* ---- L3/SpecialProofs.v, L3/SpecialProofs2.v ---- *)
Example nv_Add_special : SpecialPost nv_z 2 (add_table ToZero nv_0 nv_x) (Add false false nv_z nv_0 nv_x).
Proof. apply (Add_special false false nv_z nv_0 nv_x); nv. Qed.
Example nv_SubNeg_correct : OpPost 2 ToZero false (mag nv_y) (SubNeg false nv_z nv_y).
Proof. apply (SubNeg_correct false nv_z nv_y); nv. Qed.
Example nv_Sub_no_crash : Sub false false nv_z nv_0 nv_y <> CrashR.
Proof. apply (Sub_no_crash false false nv_z nv_0 nv_y); nv. Qed.

(* ---- L3/FmaProofs.v: all hypotheses of FMA_correct, including the range of the exact
   product (through FMA_range_sufficient) and the span bound ---- *)
Example nv_FMA_correct :
  AddPost 2 ToZero (- (mag nv_x * mag nv_y) + sval nv_x) (FMA false nv_z nv_x nv_y nv_x).
Proof.
  destruct (FMA_range_sufficient nv_x nv_y ltac:(reflexivity) ltac:(reflexivity) eq_refl eq_refl
              ltac:(cbn [exp nv_x nv_y]; unfold MinExp, MaxExp; lia)) as [Hlo Hhi].
  refine (FMA_correct false nv_z nv_x nv_y nv_x _ _ _ _ _ _ _ _ _ Hlo Hhi _); nv.
Qed.
Example nv_FMA_correct_alias :
  AddPost 3 ToNearestEven (- (mag nv_x * mag nv_y) + sval nv_x) (FMA true nv_x nv_x nv_y nv_x).
Proof.
  destruct (FMA_range_sufficient nv_x nv_y ltac:(reflexivity) ltac:(reflexivity) eq_refl eq_refl
              ltac:(cbn [exp nv_x nv_y]; unfold MinExp, MaxExp; lia)) as [Hlo Hhi].
  refine (FMA_correct true nv_x nv_x nv_y nv_x _ _ _ _ _ _ _ _ _ Hlo Hhi _); nv.
Qed.
Example nv_FMA_zero_addend : OpPost 2 ToZero true (mag nv_x * mag nv_y) (FMA false nv_z nv_x nv_y nv_0).
Proof. apply (FMA_zero_addend false nv_z nv_x nv_y nv_0); nv. Qed.
Example nv_FMA_zero_product : OpPost 2 ToZero false (mag nv_x) (FMA false nv_z nv_0 nv_y nv_x).
Proof. apply (FMA_zero_product false nv_z nv_0 nv_y nv_x); try nv. left. split; nv. Qed.
Example nv_FMA_no_crash : FMA false nv_z nv_x nv_y nv_x <> CrashR.
Proof.
  apply (FMA_no_crash false nv_z nv_x nv_y nv_x); [nv|nv|nv|nv|nv|nv|nv|].
  intros _ _ _.
  destruct (FMA_range_sufficient nv_x nv_y ltac:(reflexivity) ltac:(reflexivity) eq_refl eq_refl
              ltac:(cbn [exp nv_x nv_y]; unfold MinExp, MaxExp; lia)) as [Hlo Hhi].
  split; [exact Hlo|]. split; [exact Hhi|]. nv.
Qed.

(* ---- L3/ConvertProofs.v, L3/ConvProofs2.v ---- *)
Example nv_setBits64_correct : OpPost 2 ToZero true (scaled 12345 (-2)) (setBits64 nv_z true 12345 (-2)).
Proof. apply (setBits64_correct nv_z true 12345 (-2)); nv. Qed.
Example nv_SetInt_correct : OpPost 34 ToNearestEven true (scaled 12345 0) (SetInt nv_z0 (-12345)).
Proof. apply (SetInt_correct nv_z0 (-12345) 5); nv. Qed.
Example nv_SetRat_correct : OpPost 2 ToZero false (inject_Z 1 / inject_Z 3) (SetRat nv_z 1 3).
Proof. apply (SetRat_correct nv_z 1 3 1 1); nv. Qed.
Example nv_SetRat_correct_prec0 : OpPost 34 ToNearestEven true (inject_Z 22 / inject_Z 7) (SetRat nv_z0 (-22) 7).
Proof. apply (SetRat_correct nv_z0 (-22) 7 2 1); nv. Qed.
Example nv_SetMantExp_correct : OpPost 3 ToNearestEven false (mag nv_x * Qpow10 5) (SetMantExp false nv_z nv_x 5).
Proof. apply (SetMantExp_correct false nv_z nv_x 5); nv. Qed.
Example nv_SetBitsExp_correct :
  OpPost 2 ToZero false (scaled 125 (3 - 19 * 2)) (SetBitsExp nv_z [125; 0] 3).
Proof. apply (SetBitsExp_correct nv_z [125; 0] 3); nv. Qed.
Example nv_MantExp_inverse : exists m', MantExp_mant false nv_z nv_x = OkR m' /\
  OpPost 3 ToNearestEven false (mag nv_x) (SetMantExp false nv_0 m' (MantExp_exp nv_x)).
Proof. apply (MantExp_inverse nv_x nv_0 nv_z); nv. Qed.

(* ---- L4/GobProofs.v (the receiver has to be canonical) ---- *)
Definition nv_zw : Dec := mkDec [] 0 2 ToZero Exact Fzero false.
Example nv_Gob_total :
  GobDecode nv_zw (GobEncode nv_x) <> GobCrash /\
  (forall z', GobDecode nv_zw (GobEncode nv_x) = GobErr z' -> z' = nv_zw) /\
  (forall z', GobDecode nv_zw (GobEncode nv_x) = GobOk z' -> WF z').
Proof.
  apply (Gob_total nv_zw (GobEncode nv_x)).
  - vm_compute. repeat (constructor; [split; congruence|]). constructor.
  - reflexivity.
  - right. vm_compute. reflexivity.
Qed.
Example nv_Gob_receiver : exists z', GobDecode nv_zw (GobEncode nv_x) = GobOk z' /\ prec z' = 2 /\ dmode z' = ToZero /\ WF z' /\
  result_spec 2 ToZero false (mag nv_x) z'.
Proof.
  destruct (Gob_receiver nv_zw (GobEncode nv_x) nv_x) as (z' & E & Hp & Hm & W & HS).
  - vm_compute. repeat (constructor; [split; congruence|]). constructor.
  - vm_compute. discriminate.
  - vm_compute. reflexivity.
  - reflexivity.
  - vm_compute. discriminate.
  - vm_compute. reflexivity.
  - exists z'. split; [exact E|]. split; [exact Hp|]. split; [exact Hm|]. split; [exact W|exact HS].
Qed.
