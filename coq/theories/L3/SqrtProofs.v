(* L3/SqrtProofs.v — proofs about the model of Sqrt (L3/Sqrt.v):
   - special values (±0, +Inf, negative operands) for every receiver;
   - the receiver's precision and rounding mode after Sqrt are the documented
     ones whenever the model returns normally;
   - an integer-square decision procedure for "M*10^q is the correctly rounded
     p-digit square root of N*10^e" and a computed witness on which the model
     (hence, by correspondence, the code) does not return it (finding K1). *)
From Coq Require Import ZArith List Bool Lia.
From Dec Require Import Base.Words L3.Decimal L3.Cmp L3.Round L3.Arith L3.Convert L3.Bin L3.Float L3.Sqrt
  Spec.Rounding.
Open Scope Z_scope.

(* ------------------------------------------------------------------ *)
(* precision and mode are untouched by round / setExpAndRound / Mul / SetMantExp *)

Definition same_attrs (a b : Dec) : Prop := prec a = prec b /\ dmode a = dmode b.

Lemma round_attrs z s z' : round z s = Some z' -> same_attrs z' z.
Proof.
  unfold round, same_attrs. intros H.
  repeat match type of H with
         | context [match ?c with _ => _ end] => destruct c eqn:?
         end;
    try discriminate; inversion H; subst; cbn; auto.
Qed.

Lemma setExpAndRound_attrs z e s z' : setExpAndRound z e s = Some z' -> same_attrs z' z.
Proof.
  unfold setExpAndRound. intros H.
  destruct (e <? MinExp). { inversion H; subst; split; reflexivity. }
  destruct (MaxExp <? e). { inversion H; subst; split; reflexivity. }
  apply round_attrs in H. destruct H as [H1 H2]. split; [rewrite H1|rewrite H2]; reflexivity.
Qed.

Definition mul_prec (z x y : Dec) : Z := if prec z =? 0 then umax32 (prec x) (prec y) else prec z.

Lemma Mul_attrs z x y z' : Mul z x y = OkR z' -> prec z' = mul_prec z x y /\ dmode z' = dmode z.
Proof.
  unfold Mul, mul_prec. intros H.
  set (z1 := if prec z =? 0 then with_prec z (umax32 (prec x) (prec y)) else z) in *.
  assert (E : prec z1 = (if prec z =? 0 then umax32 (prec x) (prec y) else prec z) /\ dmode z1 = dmode z).
  { unfold z1. destruct (prec z =? 0); split; reflexivity. }
  destruct E as [E1 E2]. rewrite <- E1, <- E2. clear E1 E2.
  destruct (dform x), (dform y); try discriminate; try (inversion H; subst; split; reflexivity).
  unfold umul, of_opt in H.
  destruct (dnorm (dec_mul (mant x) (mant y))) as [[m' s]|]; [|discriminate].
  destruct (setExpAndRound _ _ _) eqn:E; [|discriminate]. inversion H; subst.
  apply setExpAndRound_attrs in E. destruct E as [E1 E2]. split; [rewrite E1|rewrite E2]; reflexivity.
Qed.

Lemma SetMantExp_self_attrs z e z' : SetMantExp true z z e = OkR z' -> same_attrs z' z.
Proof.
  unfold SetMantExp, Copy. destruct (dform z).
  - intros H; inversion H; subst; split; reflexivity.
  - unfold of_opt. destruct (setExpAndRound _ _ _) eqn:E; [|discriminate].
    intros H; inversion H; subst. exact (setExpAndRound_attrs _ _ _ _ E).
  - intros H; inversion H; subst; split; reflexivity.
Qed.

(* the final multiplication of sqrtInverse is the only step that writes the receiver *)
Lemma sqrtInverse_attrs z z' : prec z <> 0 -> sqrtInverse z = OkR z' -> same_attrs z' z.
Proof.
  intros Hp. unfold sqrtInverse, bindT.
  destruct (sqrt_guess z); [|discriminate].
  destruct (SetFloat64_fl _ _); try discriminate.
  destruct (newton _ _ _ _ _ _ _) as [t| |]; try discriminate.
  intros H. apply Mul_attrs in H. unfold mul_prec in H.
  destruct (Z.eqb_spec (prec z) 0); [contradiction|]. exact H.
Qed.

(* documented precision of the receiver *)
Definition sqrt_prec (z x : Dec) : Z := if prec z =? 0 then prec x else prec z.

Theorem Sqrt_attrs same z x z' :
  Sqrt same z x = OkR z' ->
  (dform x = Ffinite -> sqrt_prec z x <> 0) ->
  prec z' = sqrt_prec z x /\ dmode z' = dmode z.
Proof.
  unfold Sqrt, sqrt_prec. intros H Hp.
  set (z1 := if prec z =? 0 then with_prec z (prec x) else z) in *.
  assert (E : prec z1 = (if prec z =? 0 then prec x else prec z) /\ dmode z1 = dmode z).
  { unfold z1. destruct (prec z =? 0); split; reflexivity. }
  destruct E as [E1 E2]. rewrite <- E1, <- E2. rewrite <- E1 in Hp. clear E1 E2.
  destruct (Sign x =? -1); [discriminate|].
  destruct (dform x) eqn:Fx; try (inversion H; subst; split; reflexivity).
  specialize (Hp eq_refl).
  unfold bindR in H.
  destruct (MantExp_mant same z1 x) as [z2| |]; try discriminate.
  set (z3 := with_mode (with_prec z2 (prec z1)) (dmode z1)) in *.
  set (z4 := if Z.rem (MantExp_exp x) 2 =? 1 then with_exp z3 (i32 (exp z3 + 1))
             else if Z.rem (MantExp_exp x) 2 =? -1 then with_exp z3 (i32 (exp z3 - 1)) else z3) in *.
  assert (A4 : same_attrs z4 z1).
  { unfold z4. destruct (_ =? 1); [split; reflexivity|]. destruct (_ =? -1); split; reflexivity. }
  destruct (sqrtInverse z4) as [z5| |] eqn:E5; try discriminate.
  destruct A4 as [A4p A4m].
  apply sqrtInverse_attrs in E5; [|rewrite A4p; exact Hp].
  apply SetMantExp_self_attrs in H.
  destruct E5 as [E5p E5m]. destruct H as [Hp' Hm'].
  split; congruence.
Qed.

(* ------------------------------------------------------------------ *)
(* special values *)

Theorem Sqrt_zero same z x : dform x = Fzero ->
  exists r, Sqrt same z x = OkR r /\ dform r = Fzero /\ neg r = neg x /\ acc r = Exact /\
            prec r = sqrt_prec z x /\ dmode r = dmode z.
Proof.
  intros Fx. unfold Sqrt, Sign, sqrt_prec. rewrite Fx. cbn [Z.eqb].
  eexists. split; [reflexivity|]. destruct (prec z =? 0); repeat split; reflexivity.
Qed.

Theorem Sqrt_posinf same z x : dform x = Finf -> neg x = false ->
  exists r, Sqrt same z x = OkR r /\ dform r = Finf /\ neg r = false /\ acc r = Exact /\
            prec r = sqrt_prec z x /\ dmode r = dmode z.
Proof.
  intros Fx Nx. unfold Sqrt, Sign, sqrt_prec. rewrite Fx, Nx. cbn [Z.eqb].
  eexists. split; [reflexivity|]. destruct (prec z =? 0); repeat split; reflexivity.
Qed.

(* negative operands (finite or -Inf): ErrNaN, for every receiver *)
Theorem Sqrt_negative same z x : dform x <> Fzero -> neg x = true ->
  exists r, Sqrt same z x = NaNR r.
Proof.
  intros Fx Nx. unfold Sqrt, Sign. rewrite Nx.
  destruct (dform x); [contradiction| |]; cbn [Z.eqb]; eexists; reflexivity.
Qed.

(* ------------------------------------------------------------------ *)
(* correct rounding of a square root, decided with integer squares only.
   x = N * 10^ex (N > 0); candidate r = M * 10^q. *)

(* comparison of (a * 10^qa)^2 with N * 10^ex *)
Definition cmp_sq (a qa N ex : Z) : comparison :=
  let m := Z.min (2 * qa) ex in
  (a * a * 10 ^ (2 * qa - m)) ?= (N * 10 ^ (ex - m)).

Definition sqrt_rounds_b (md : mode) (p : Z) (N ex M q : Z) : bool :=
  (10 ^ (p - 1) <=? M) && (M <? 10 ^ p) &&
  match cmp_sq M q N ex with
  | Eq => true                                   (* the exact root, in every mode *)
  | Lt =>                                        (* r < sqrt x: r must be the floor and the mode must keep it *)
      match cmp_sq (M + 1) q N ex with
      | Gt =>
          match dir_of md false with
          | Down => true
          | Up => false
          | NearEven => match cmp_sq (2 * M + 1) q (4 * N) ex with Gt => true | Eq => Z.even M | Lt => false end
          | NearAway => match cmp_sq (2 * M + 1) q (4 * N) ex with Gt => true | _ => false end
          end
      | _ => false
      end
  | Gt =>                                        (* r > sqrt x: the p-digit predecessor must be below the root *)
      let '(M', q') := if M =? 10 ^ (p - 1) then (10 ^ p - 1, q - 1) else (M - 1, q) in
      match cmp_sq M' q' N ex with
      | Lt =>
          let '(h, qh) := if M =? 10 ^ (p - 1) then (2 * 10 ^ p - 1, q - 1) else (2 * M - 1, q) in   (* 2 * midpoint *)
          match dir_of md false with
          | Down => false
          | Up => true
          | NearEven => match cmp_sq h qh (4 * N) ex with Lt => true | Eq => Z.even M | Gt => false end
          | NearAway => match cmp_sq h qh (4 * N) ex with Gt => false | _ => true end
          end
      | _ => false
      end
  end.

(* the predicate applied to a model result *)
Definition sqrt_result_ok (md : mode) (x r : Dec) : bool :=
  let p := prec r in
  let dr := mdigits (mant r) in
  let M := if p <=? dr then val (mant r) / 10 ^ (dr - p) else val (mant r) * 10 ^ (p - dr) in
  sqrt_rounds_b md p (val (mant x)) (exp x - mdigits (mant x)) M (exp r - p).

(* finding K1: 30 digits, ToNearestEven, x = 773288910932290629180064891113.1 *)
Definition k1_z : Dec := mkDec [] 0 30 ToNearestEven Exact Fzero false.
Definition k1_x : Dec :=
  mkDec [8006489111310000000; 7732889109322906291] 30 31 ToNearestEven Exact Ffinite false.

Definition k1_r : Dec := Eval vm_compute in ores_get (Sqrt false k1_z k1_x).

Theorem Sqrt_not_correctly_rounded :
  wf_b k1_x = true /\ Sqrt false k1_z k1_x = OkR k1_r /\ wf_b k1_r = true /\
  dform k1_r = Ffinite /\ prec k1_r = 30 /\ sqrt_result_ok ToNearestEven k1_x k1_r = false.
Proof. vm_compute. repeat split. Qed.

(* ------------------------------------------------------------------ *)
(* the exponent split: Sqrt runs sqrtInverse on x's mantissa with the exponent
   b rem 2 (so 0.01 <= value < 10) and re-attaches b quot 2 *)
From Coq Require Import QArith Lqa.
From Dec Require Import Base.WordsProofs Base.QPow L3.CmpProofs.

Theorem Sqrt_exponent same z x :
  WF x -> dform x = Ffinite -> neg x = false -> (same = true -> z = x) ->
  exists z4,
    Sqrt same z x = bindR (sqrtInverse z4) (fun r => SetMantExp true r r (Z.quot (exp x) 2)) /\
    mant z4 = mant x /\ exp z4 = Z.rem (exp x) 2 /\ dform z4 = Ffinite /\ neg z4 = false /\
    prec z4 = sqrt_prec z x /\ dmode z4 = dmode z /\
    (mag x == mag z4 * Qpow10 (2 * Z.quot (exp x) 2))%Q /\
    (scaled 1 (-2) <= mag z4)%Q /\ (mag z4 < scaled 1 1)%Q.
Proof.
  intros Wx Fx Nx Hsame.
  pose proof (WF_finite x Wx Fx) as Hx.
  set (b := exp x).
  pose proof (Z.quot_rem' b 2) as QR.
  pose proof (Z.rem_bound_abs b 2 ltac:(lia)) as RB.
  set (r := Z.rem b 2) in *.
  set (z1 := if prec z =? 0 then with_prec z (prec x) else z).
  set (z4 := mkDec (mant x) r (prec z1) (dmode z1) (acc x) Ffinite false).
  exists z4.
  assert (P1 : prec z1 = sqrt_prec z x /\ dmode z1 = dmode z).
  { unfold z1, sqrt_prec. destruct (prec z =? 0); split; reflexivity. }
  destruct P1 as [P1 M1].
  split.
  - unfold Sqrt, Sign. rewrite Fx, Nx. cbn [Z.eqb]. fold z1. unfold MantExp_exp. rewrite Fx. fold b. fold r.
    assert (E : MantExp_mant same z1 x =
                OkR (mkDec (mant x) 0 (prec x) (dmode x) (acc x) Ffinite false)).
    { unfold MantExp_mant, Copy. destruct same.
      - specialize (Hsame eq_refl). subst z. unfold z1.
        destruct (prec x =? 0); cbn [dform with_prec]; rewrite Fx; cbn; rewrite <- Nx, <- Fx; destruct x; reflexivity.
      - rewrite Fx, Nx. reflexivity. }
    rewrite E. cbn [bindR].
    assert (E4 : (let z0 := with_mode (with_prec (mkDec (mant x) 0 (prec x) (dmode x) (acc x) Ffinite false) (prec z1)) (dmode z1) in
                  if r =? 1 then with_exp z0 (i32 (exp z0 + 1)) else if r =? -1 then with_exp z0 (i32 (exp z0 - 1)) else z0) = z4).
    { cbv zeta. unfold z4.
      destruct (Z.eqb_spec r 1) as [->|]; [reflexivity|]. destruct (Z.eqb_spec r (-1)) as [->|]; [reflexivity|].
      replace r with 0 by lia. reflexivity. }
    cbv zeta in E4. rewrite E4. reflexivity.
  - split; [reflexivity|]. split; [reflexivity|]. split; [reflexivity|]. split; [reflexivity|].
    split; [exact P1|]. split; [exact M1|].
    assert (Hz4 : WFfin (with_prec (with_exp x r) (prec x))).
    { destruct Hx as [Hne Hok Htop Hprec Hexp Htail]. constructor; cbn [mant prec exp with_prec with_exp]; try assumption.
      unfold MinExp, MaxExp. lia. }
    pose proof (mag_bounds _ Hz4) as [Blo Bhi].
    assert (Em : mag (with_prec (with_exp x r) (prec x)) = mag z4) by reflexivity.
    rewrite Em in Blo, Bhi. cbn [exp with_prec with_exp] in Blo, Bhi.
    split; [|split].
    + unfold mag. cbn [mant exp z4]. fold b. unfold scaled.
      replace (b - mdigits (mant x)) with ((r - mdigits (mant x)) + 2 * Z.quot b 2) by lia.
      rewrite Qpow10_add. ring.
    + apply Qle_trans with (scaled 1 (r - 1)); [apply scaled1_le; lia|exact Blo].
    + apply Qlt_le_trans with (scaled 1 r); [exact Bhi|apply scaled1_le; lia].
Qed.

(* K1 on a perfect square: Sqrt(9) into a 4-digit ToZero receiver is 2.999, and
   into a 34-digit ToPositiveInf receiver 3.000000000000000000000000000000001 *)
Definition nine : Dec := mkDec [9000000000000000000] 1 1 ToNearestEven Exact Ffinite false.
Definition k1_sq_r : Dec := Eval vm_compute in ores_get (Sqrt false (mkDec [] 0 4 ToZero Exact Fzero false) nine).
Definition k1_sq_r' : Dec := Eval vm_compute in ores_get (Sqrt false (mkDec [] 0 34 ToPositiveInf Exact Fzero false) nine).

Theorem Sqrt_perfect_square_not_exact :
  Sqrt false (mkDec [] 0 4 ToZero Exact Fzero false) nine = OkR k1_sq_r /\
  mant k1_sq_r = [2999000000000000000] /\ exp k1_sq_r = 1 /\
  sqrt_result_ok ToZero nine k1_sq_r = false /\
  Sqrt false (mkDec [] 0 34 ToPositiveInf Exact Fzero false) nine = OkR k1_sq_r' /\
  mant k1_sq_r' = [10000; 3000000000000000000] /\ exp k1_sq_r' = 1 /\ prec k1_sq_r' = 34 /\
  sqrt_result_ok ToPositiveInf nine k1_sq_r' = false.
Proof. vm_compute. repeat split. Qed.
