(* L3/SqrtProofs.v — the repaired Sqrt (model L3/Sqrt.v) is correctly
   rounded (C05).

   The proof does not look at the Newton iteration: it only needs its output to
   be a canonical positive finite Decimal whose exponent is not absurd.  The
   correction loops of sqrtRound then move that value (given one more digit of
   precision, so that every step is exact) on the grid of its last digit until z^2 <= x < (z + ulp)^2 (their exit conditions; running out of
   fuel is a crash, excluded by the hypothesis that the model returns), a
   half-ulp sticky digit is added when z^2 <> x, and one SetPrec performs the
   single rounding. *)
From Coq Require Import ZArith List Bool Lia QArith Qabs Lqa.
From Dec Require Import Base.Words Base.WordsProofs Base.QPow L3.Decimal L3.Cmp L3.CmpProofs
  L3.Round L3.Arith L3.Convert Spec.Rounding Spec.RoundingFacts L3.RoundProofs L3.ArithProofs
  L3.ConvertProofs L3.AccProofs L4.Pow2Proofs Spec.SqrtSpec L3.SqrtLemmas L3.Sqrt.
Open Scope Z_scope.

Notation AddD := L3.Arith.Add.

(* ------------------------------------------------------------------ *)
(* small facts *)

Lemma Qsgn_cmp_ext a a' b b' : (a == a')%Q -> (b == b')%Q -> Qsgn_cmp a b = Qsgn_cmp a' b'.
Proof. intros Ha Hb. unfold Qsgn_cmp. now rewrite Ha, Hb. Qed.

Lemma Qsgn_cmp_gt a b : Qsgn_cmp a b = 1 <-> (b < a)%Q.
Proof. unfold Qsgn_cmp. rewrite Qgt_alt. destruct (a ?= b)%Q; split; intros; try congruence; lia. Qed.

Lemma Qsgn_cmp_eq a b : Qsgn_cmp a b = 0 <-> (a == b)%Q.
Proof. unfold Qsgn_cmp. rewrite Qeq_alt. destruct (a ?= b)%Q; split; intros; try congruence; lia. Qed.

Lemma Qsgn_cmp_range a b : Qsgn_cmp a b = -1 \/ Qsgn_cmp a b = 0 \/ Qsgn_cmp a b = 1.
Proof. unfold Qsgn_cmp. destruct (a ?= b)%Q; auto. Qed.

Lemma value_pos_finite a : dform a = Ffinite -> neg a = false -> value a = XFin (mag a).
Proof. intros F N. unfold value. now rewrite F, N. Qed.

Lemma sval_pos a : neg a = false -> sval a = mag a.
Proof. intros N. unfold sval. now rewrite N. Qed.

Lemma WF_with_prec_up a P : WF a -> dform a = Ffinite -> prec a <= P <= MaxPrec -> WF (with_prec a P).
Proof.
  intros W F HP. pose proof (WF_finite a W F) as Ha.
  pose proof (WF_reprec a P (dmode a) (acc a) Ha HP) as H. unfold with_prec. rewrite F. exact H.
Qed.

Lemma WF_with_mode a m : WF a -> WF (with_mode a m).
Proof. unfold WF, wf_b. cbn [with_mode prec dform mant exp]. auto. Qed.

(* exponent of a canonical value from bounds on its magnitude *)
Lemma exp_range a lo hi : WF a -> dform a = Ffinite ->
  (scaled 1 lo <= mag a)%Q -> (mag a < scaled 1 hi)%Q -> lo < exp a <= hi.
Proof.
  intros W F Hlo Hhi. pose proof (mag_bounds a (WF_finite a W F)) as [B1 B2]. split.
  - apply scaled1_lt_inv. lra.
  - assert (exp a - 1 < hi) by (apply scaled1_lt_inv; lra). lia.
Qed.

(* ------------------------------------------------------------------ *)
(* the correction loops *)

Section Loops.
  Variables (eu P pm : Z) (x : Dec).
  Hypothesis HP : 3 <= P <= 1000000003.
  Hypothesis Hpm : 0 <= pm <= P.
  Hypothesis Heu1 : - 1073741000 <= eu.
  Hypothesis Heu2 : eu + P <= 2000.
  Hypothesis Wx : WF x.
  Hypothesis Fx : dform x = Ffinite.
  Hypothesis Nx : neg x = false.

  Let ulp := dconst 1 eu.
  Let psq := 2 * P + 2.
  Let pt := P + 1.
  Let kmin := 10 ^ pm.
  (* the root is at least kmin grid units *)
  Hypothesis Hroot : (scaled (kmin * kmin) (2 * eu) <= mag x)%Q.

  Lemma kmin_pos : 1 <= kmin.
  Proof. unfold kmin. assert (0 < 10 ^ pm) by (apply pow10_pos; lia). lia. Qed.
  Lemma kmin_le : kmin <= 10 ^ P.
  Proof. unfold kmin. apply Z.pow_le_mono_r; lia. Qed.

  Lemma ulp_facts : WF ulp /\ dform ulp = Ffinite /\ neg ulp = false /\
    (mag ulp == scaled 1 eu)%Q /\ mdigits (mant ulp) = 19 /\ exp ulp = eu + 1.
  Proof. apply dconst_facts; unfold MinExp, MaxExp; lia. Qed.

  (* a canonical positive value of k grid units *)
  Record OnGrid (D k : Z) (a : Dec) : Prop := {
    og_wf : WF a; og_fin : dform a = Ffinite; og_neg : neg a = false;
    og_mag : (mag a == scaled k eu)%Q;
    og_len : mdigits (mant a) <= P + D;
    og_k : 1 <= k <= 10 ^ P + 1
  }.

  Lemma OnGrid_exp D k a : OnGrid D k a -> eu < exp a <= eu + P + 1.
  Proof.
    intros [W F N M L K]. apply (exp_range a eu (eu + P + 1) W F).
    - rewrite M. apply scaled_le_same. lia.
    - replace (eu + P + 1) with (eu + (P + 1)) by lia.
      rewrite M, <- (scaled_pow10 (P + 1) eu) by lia. apply scaled_lt_same.
      rewrite Z.pow_add_r by lia. assert (0 < 10 ^ P) by (apply pow10_pos; lia). lia.
  Qed.

  Lemma OnGrid_span D k a : 0 <= D <= 30 -> OnGrid D k a -> add_span a ulp + 40 < 4294967296 - 18.
  Proof.
    intros HD G. pose proof (OnGrid_exp D k a G) as He. destruct G as [W F N M L K].
    destruct ulp_facts as (_ & _ & _ & _ & Lu & Eu).
    destruct (WFfin_len a (WF_finite a W F)) as [Hl1 Hl2].
    unfold add_span. rewrite Lu, Eu. clear - HP HD He L Hl1 Hl2. lia.
  Qed.

  (* squares on the grid are exact at precision 2P+2, so Cmp decides z^2 ? x *)
  Lemma square_cmp D k a : 0 <= D <= 30 -> OnGrid D k a ->
    exists sq, Mul (tmpDec psq) a a = OkR sq /\
      Cmp sq x = Qsgn_cmp (scaled (k * k) (2 * eu)) (mag x).
  Proof.
    intros HD [W F N M L K].
    destruct (Mul_correct (tmpDec psq) a a W W F F) as (sq & E & Sp & Pr & Md & Wsq).
    { cbn [prec tmpDec]. unfold psq, MaxPrec. lia. }
    { clear - HP HD L. lia. }
    exists sq. split; [exact E|].
    assert (Ep : eff_prec (tmpDec psq) a a = psq).
    { unfold eff_prec. cbn [prec tmpDec]. destruct (Z.eqb_spec psq 0); [unfold psq in *; lia|reflexivity]. }
    rewrite Ep, N in Sp. cbn [xorb] in Sp.
    assert (P10 : 0 < 10 ^ P) by (apply pow10_pos; lia).
    assert (Ev : (mag a * mag a == scaled (k * k) (2 * eu))%Q).
    { rewrite M, scaled_mul. replace (eu + eu) with (2 * eu) by lia. reflexivity. }
    assert (A1 : 1 <= psq) by (unfold psq; lia).
    assert (A2 : 1 <= k * k <= 10 ^ psq).
    { split; [nia|]. unfold psq. replace (2 * P + 2) with (P + P + 2) by lia.
      rewrite !Z.pow_add_r by lia. change (10 ^ 2) with 100. nia. }
    assert (A3 : MinExp <= 2 * eu) by (unfold MinExp; lia).
    assert (A4 : 2 * eu + psq < MaxExp) by (unfold psq, MaxExp; lia).
    destruct (exact_le psq _ false _ sq (k * k) (2 * eu) A1 A2 Ev A3 A4 Sp) as (Fs & Ms & As & Ns).
    rewrite (Cmp_correct sq x Wsq Wx), (value_pos_finite sq Fs Ns), (value_pos_finite x Fx Nx).
    cbn [xcmp]. apply Qsgn_cmp_ext; [rewrite Ms; exact Ev|reflexivity].
  Qed.

  (* the state of the receiver during the loops *)
  Record Grid (k : Z) (z : Dec) : Prop := {
    g_on : OnGrid 18 k z;
    g_prec : prec z = P;
    g_k : kmin <= k <= 10 ^ P
  }.

  (* sq.Mul(z, z).Cmp(x) > 0 { z.Sub(z, ulp) }: on exit z^2 <= x *)
  Lemma sqrt_down_exit fuel : forall z k r, Grid k z ->
    sqrt_down fuel psq z x ulp = OkR r ->
    exists k', Grid k' r /\ k' <= k /\ (scaled (k' * k') (2 * eu) <= mag x)%Q.
  Proof.
    induction fuel as [|fuel IH]; intros z k r G H; [discriminate|].
    cbn [sqrt_down] in H.
    destruct (square_cmp 18 k z ltac:(lia) (g_on k z G)) as (sq & Esq & Ec).
    rewrite Esq in H. cbn [bindT] in H. rewrite Ec in H.
    destruct (Z.eqb_spec (Qsgn_cmp (scaled (k * k) (2 * eu)) (mag x)) 1) as [C|C].
    - (* z^2 > x: one unit down *)
      apply Qsgn_cmp_gt in C.
      pose proof kmin_pos as Km. destruct G as [[W F N M L K] Pz Kz].
      assert (Hk : kmin < k).
      { assert (X : (scaled (kmin * kmin) (2 * eu) < scaled (k * k) (2 * eu))%Q) by lra.
        apply scaled_lt_same in X. clear - X Km Kz. nia. }
      destruct ulp_facts as (Wu & Fu & Nu & Mu & Lu & Eu).
      pose proof (OnGrid_span 18 k z ltac:(lia) (Build_OnGrid 18 k z W F N M L K)) as Hsp.
      destruct (Sub_correct true false z z ulp W Wu F Fu ltac:(rewrite Pz; unfold MaxPrec; lia) Hsp)
        as (z' & E & Pz' & Mz' & W' & _ & H1).
      assert (Ep : eff_prec z z ulp = P).
      { unfold eff_prec. rewrite Pz. destruct (Z.eqb_spec P 0); [lia|reflexivity]. }
      rewrite Ep in *.
      assert (Eq : (sval z - sval ulp == scaled (k - 1) eu)%Q).
      { rewrite (sval_pos z N), (sval_pos ulp Nu), M, Mu. unfold Qminus. rewrite scaled_opp, <- scaled_add.
        apply scaled_eq_same. lia. }
      assert (Qp : (0 < sval z - sval ulp)%Q) by (rewrite Eq; apply scaled_pos; lia).
      destruct (qneg_pos _ Qp) as [Qn Qa].
      assert (Qnz : ~ (sval z - sval ulp == 0)%Q) by (intros X; rewrite X in Qp; exact (Qlt_irrefl 0 Qp)).
      specialize (H1 Qnz). rewrite Qn in H1.
      assert (A1 : 1 <= P) by lia.
      assert (A2 : 1 <= k - 1 <= 10 ^ P) by lia.
      assert (A3 : (Qabs (sval z - sval ulp) == scaled (k - 1) eu)%Q) by (rewrite Qa; exact Eq).
      assert (A4 : MinExp <= eu) by (unfold MinExp; lia).
      assert (A5 : eu + P < MaxExp) by (unfold MaxExp; lia).
      destruct (exact_le P _ false _ z' (k - 1) eu A1 A2 A3 A4 A5 H1) as (F' & M' & A' & N').
      rewrite E in H. cbn [bindR] in H.
      destruct (IH z' (k - 1) r) as (k' & G' & Hk' & B'); [|exact H|exists k'; split; [exact G'|split; [lia|exact B']]].
      constructor; [constructor| |]; try assumption; try lia.
      + rewrite M', Qa. exact Eq.
      + rewrite <- Pz.
        assert (Pz2 : 1 <= prec z <= MaxPrec - 18) by (rewrite Pz; unfold MaxPrec; lia).
        exact (Sub_finite_len true false z z ulp z' W Wu F Fu Pz2 Hsp E F').
    - (* exit *)
      injection H as <-. exists k. split; [exact G|]. split; [lia|].
      apply Qsgn_cmp_le. destruct (Qsgn_cmp_range (scaled (k * k) (2 * eu)) (mag x)) as [X|[X|X]]; lia.
  Qed.
  (* t.Add(z, ulp) is exact at precision P+1 *)
  Lemma add_ulp k z : Grid k z ->
    exists t, AddD false false (tmpDec pt) z ulp = OkR t /\ OnGrid 19 (k + 1) t /\ prec t = pt.
  Proof.
    intros [[W F N M L K] Pz Kz]. pose proof kmin_pos as Km.
    destruct ulp_facts as (Wu & Fu & Nu & Mu & Lu & Eu).
    pose proof (OnGrid_span 18 k z ltac:(lia) (Build_OnGrid 18 k z W F N M L K)) as Hsp.
    assert (Pt : 0 <= prec (tmpDec pt) <= MaxPrec) by (cbn [prec tmpDec]; unfold pt, MaxPrec; lia).
    destruct (Add_correct false false (tmpDec pt) z ulp W Wu F Fu Pt Hsp) as (t & E & Pt' & Mt' & Wt & _ & H1).
    assert (Ep : eff_prec (tmpDec pt) z ulp = pt).
    { unfold eff_prec. cbn [prec tmpDec]. destruct (Z.eqb_spec pt 0); [unfold pt in *; lia|reflexivity]. }
    rewrite Ep in *.
    assert (Eq : (sval z + sval ulp == scaled (k + 1) eu)%Q).
    { rewrite (sval_pos z N), (sval_pos ulp Nu), M, Mu, <- scaled_add. reflexivity. }
    assert (Qp : (0 < sval z + sval ulp)%Q) by (rewrite Eq; apply scaled_pos; lia).
    destruct (qneg_pos _ Qp) as [Qn Qa].
    assert (Qnz : ~ (sval z + sval ulp == 0)%Q) by (intros X; rewrite X in Qp; exact (Qlt_irrefl 0 Qp)).
    specialize (H1 Qnz). rewrite Qn in H1.
    assert (P10 : 0 < 10 ^ P) by (apply pow10_pos; lia).
    assert (A1 : 1 <= pt) by (unfold pt; lia).
    assert (A2 : 1 <= k + 1 <= 10 ^ pt).
    { unfold pt. rewrite Z.pow_add_r by lia. lia. }
    assert (A3 : (Qabs (sval z + sval ulp) == scaled (k + 1) eu)%Q) by (rewrite Qa; exact Eq).
    assert (A4 : MinExp <= eu) by (unfold MinExp; lia).
    assert (A5 : eu + pt < MaxExp) by (unfold pt, MaxExp; lia).
    destruct (exact_le pt _ false _ t (k + 1) eu A1 A2 A3 A4 A5 H1) as (F' & M' & A' & N').
    exists t. split; [exact E|]. split; [|exact Pt'].
    constructor; try assumption; try lia.
    - rewrite M'. exact A3.
    - replace (P + 19) with (prec (tmpDec pt) + 18) by (cbn [prec tmpDec]; unfold pt; lia).
      assert (Pt2 : 1 <= prec (tmpDec pt) <= MaxPrec - 18) by (cbn [prec tmpDec]; unfold pt, MaxPrec; lia).
      exact (Add_finite_len false false (tmpDec pt) z ulp t W Wu F Fu Pt2 Hsp E F').
  Qed.

  (* z.Set(t) is exact as long as k + 1 fits the precision *)
  Lemma set_next k z t : Grid k z -> OnGrid 19 (k + 1) t -> prec t = pt -> k + 1 <= 10 ^ P ->
    exists z', Set_ false z t = OkR z' /\ Grid (k + 1) z'.
  Proof.
    intros [[W F N M L K] Pz Kz] [Wt Ft Nt Mt Lt Kt] Pt Hfit. pose proof kmin_pos as Km.
    assert (Pz' : 0 <= prec z <= MaxPrec) by (rewrite Pz; unfold MaxPrec; lia).
    destruct (Set_correct false z t Wt Ft ltac:(clear - Lt HP; lia) Pz' ltac:(discriminate))
      as (z' & E & Sp & Pr & Md & W').
    replace (if prec z =? 0 then prec t else prec z) with P in *
      by (rewrite Pz; destruct (Z.eqb_spec P 0); [lia|reflexivity]).
    rewrite Nt in *.
    assert (A4 : MinExp <= eu) by (unfold MinExp; lia).
    destruct (exact_le P _ false _ z' (k + 1) eu ltac:(lia) ltac:(lia) Mt A4 ltac:(unfold MaxExp; lia) Sp)
      as (F' & M' & A' & N').
    exists z'. split; [exact E|].
    constructor; [constructor| |]; try assumption; try lia.
    - rewrite M'. exact Mt.
    - rewrite <- Pz.
      assert (Pz2 : 1 <= prec z <= MaxPrec - 18) by (rewrite Pz; unfold MaxPrec; lia).
      assert (Pz3 : prec z < prec t) by (rewrite Pz, Pt; unfold pt; lia).
      assert (Lt3 : mdigits (mant t) < 4294967296) by (clear - Lt HP; lia).
      exact (Set_finite_len z t z' Ft Pz2 Pz3 Lt3 E F').
  Qed.

  (* sq.Mul(t.Add(z, ulp), t).Cmp(x) <= 0 { z.Set(t) }: on exit z^2 <= x < (z+ulp)^2;
     fewer steps than the room left in the precision, so every z.Set(t) is exact *)
  Lemma sqrt_up_exit fuel : forall z k r, Grid k z ->
    k + Z.of_nat fuel <= 10 ^ P ->
    (scaled (k * k) (2 * eu) <= mag x)%Q ->
    sqrt_up fuel psq pt z x ulp = OkR r ->
    exists k', Grid k' r /\ (scaled (k' * k') (2 * eu) <= mag x)%Q /\
               (mag x < scaled ((k' + 1) * (k' + 1)) (2 * eu))%Q.
  Proof.
    induction fuel as [|fuel IH]; intros z k r G Hfuel Hle H; [discriminate|].
    cbn [sqrt_up] in H.
    destruct (add_ulp k z G) as (t & Et & Gt & Pt).
    rewrite Et in H. cbn [bindT] in H.
    destruct (square_cmp 19 (k + 1) t ltac:(lia) Gt) as (sq & Esq & Ec).
    rewrite Esq in H. cbn [bindT] in H. rewrite Ec in H.
    destruct (Z.leb_spec (Qsgn_cmp (scaled ((k + 1) * (k + 1)) (2 * eu)) (mag x)) 0) as [C|C].
    - apply Qsgn_cmp_le in C.
      destruct (set_next k z t G Gt Pt ltac:(lia)) as (z' & Es & G').
      rewrite Es in H. cbn [bindR] in H.
      apply (IH z' _ r G'); [lia|exact C|exact H].
    - injection H as <-. exists k. split; [exact G|]. split; [exact Hle|].
      apply Qsgn_cmp_gt.
      destruct (Qsgn_cmp_range (scaled ((k + 1) * (k + 1)) (2 * eu)) (mag x)) as [X|[X|X]]; lia.
  Qed.
End Loops.

(* ------------------------------------------------------------------ *)
(* a canonical value is an integer number of units of its last digit *)
Lemma WF_on_grid a : WFfin a ->
  exists k, 10 ^ (prec a - 1) <= k < 10 ^ prec a /\ (mag a == scaled k (exp a - prec a))%Q.
Proof.
  intros Ha. pose proof (WFfin_val_bounds a Ha) as HN.
  destruct (WFfin_len a Ha) as [Hl1 Hl2].
  destruct Ha as [Hne Hok Htop Hprec Hexp Htail].
  set (L := mdigits (mant a)) in *. set (N := val (mant a)) in *. set (p := prec a) in *.
  unfold mag. fold N L.
  destruct (Z.le_gt_cases L p) as [C|C].
  - exists (N * 10 ^ (p - L)). split.
    + assert (0 < 10 ^ (p - L)) by (apply pow10_pos; lia).
      assert (X1 : 10 ^ (p - 1) = 10 ^ (L - 1) * 10 ^ (p - L)) by (rewrite <- Z.pow_add_r by lia; f_equal; lia).
      assert (X2 : 10 ^ p = 10 ^ L * 10 ^ (p - L)) by (rewrite <- Z.pow_add_r by lia; f_equal; lia).
      rewrite X1, X2. clear - HN H. nia.
    + rewrite scaled_pow by lia. replace (exp a - p + (p - L)) with (exp a - L) by lia. reflexivity.
  - assert (Hmod : N mod 10 ^ (L - p) = 0) by (destruct Htail as [T|T]; [lia|exact T]).
    set (j := L - p) in *. assert (Hj : 1 <= j) by (unfold j; lia).
    assert (HP : 0 < 10 ^ j) by (apply pow10_pos; lia).
    set (N' := N / 10 ^ j).
    assert (EN : N = N' * 10 ^ j).
    { unfold N'. rewrite (Z.div_mod N (10 ^ j)) at 1 by lia. rewrite Hmod. ring. }
    exists N'. split.
    + replace L with (p + j) in HN by (unfold j; lia). rewrite EN in HN.
      replace (p + j - 1) with (p - 1 + j) in HN by lia. rewrite !Z.pow_add_r in HN by lia. nia.
    + rewrite EN, scaled_pow by lia. replace (exp a - L + j) with (exp a - p) by (unfold j; lia). reflexivity.
Qed.

Lemma acc_of_cmp r v v' : (r ?= v)%Q = (r ?= v')%Q -> acc_of false r v = acc_of false r v'.
Proof. intros H. unfold acc_of. now rewrite H. Qed.

(* ------------------------------------------------------------------ *)
(* sqrtRound: from any canonical positive approximation z with p + 2 digits
   whose exponent is at most two above the root's, to sqrt(x) rounded once to p
   digits under md.  P = p + 2 is the incoming precision, the grid unit is
   10^(exp z - P), the loops run at precision Q = P + 1. *)
Theorem sqrtRound_correct z x p md r :
  WF z -> dform z = Ffinite -> neg z = false -> prec z = p + 2 ->
  mdigits (mant z) <= prec z + 18 ->
  1 <= p <= 1000000000 -> - 1000000 <= exp z <= 1000 ->
  WF x -> dform x = Ffinite -> neg x = false ->
  (scaled 1 (2 * (exp z - 2)) <= mag x)%Q ->
  sqrtRound z x p md = OkR r ->
  WF r /\ dform r = Ffinite /\ neg r = false /\ prec r = p /\ dmode r = md /\
  IsSqrtRounding md p (mag x) r /\
  (scaled 1 (exp z - 2) <= mag r)%Q /\ (mag r <= scaled 1 (exp z + 2))%Q /\
  mdigits (mant r) <= p + 23.
Proof.
  intros Wz Fz Nz Pz Lz Hp He Wx Fx Nx Hroot H.
  set (P := p + 2) in *. set (Q := P + 1). set (eu := exp z - P).
  assert (HQ : 3 <= Q <= 1000000003) by (unfold Q, P; lia).
  assert (Hpm : 0 <= p <= Q) by (unfold Q, P; lia).
  assert (Heu1 : - 1073741000 <= eu) by (unfold eu, P; lia).
  assert (Heu2 : eu + Q <= 2000) by (unfold eu, Q; lia).
  assert (Pp : 0 < 10 ^ p) by (apply pow10_pos; lia).
  assert (PP : 0 < 10 ^ P) by (apply pow10_pos; unfold P; lia).
  assert (EQ : 10 ^ Q = 10 * 10 ^ P).
  { unfold Q. rewrite Z.pow_add_r by (unfold P; lia). change (10 ^ 1) with 10. lia. }
  assert (Hroot' : (scaled (10 ^ p * 10 ^ p) (2 * eu) <= mag x)%Q).
  { rewrite <- Z.pow_add_r, scaled_pow10 by lia.
    replace (2 * eu + (p + p)) with (2 * (exp z - 2)) by (unfold eu, P; lia). exact Hroot. }
  (* unfold the body *)
  set (zq := with_prec z Q).
  assert (Hunf : sqrtRound z x p md =
    bindR (sqrt_down sqrt_fuel (2 * Q + 2) zq x (dconst 1 eu)) (fun z =>
    bindR (sqrt_up sqrt_fuel (2 * Q + 2) (Q + 1) z x (dconst 1 eu)) (fun z =>
    bindT z (Mul (tmpDec (2 * Q + 2)) z z) (fun sq =>
    bindR (if Cmp sq x =? 0 then OkR z
           else AddD true false (with_prec z (u32 (prec z + 2))) (with_prec z (u32 (prec z + 2))) (dconst 5 (eu - 1))) (fun z =>
    SetPrec (with_mode z md) p))))).
  { unfold sqrtRound. rewrite Pz.
    rewrite (NewDecimal_1 (exp z - P)) by (unfold MinExp, MaxExp; lia).
    rewrite (NewDecimal_5 (exp z - P - 1)) by (unfold MinExp, MaxExp; lia).
    cbn [ores_get]. cbv zeta. cbn [prec with_prec].
    rewrite (u32_small (P + 1)) by (unfold P; lia). fold Q. fold zq.
    destruct (Z.ltb_spec MaxPrec (2 * Q + 2)) as [C|_]; [unfold MaxPrec in C; lia|].
    destruct (Z.ltb_spec MaxPrec (Q + 1)) as [C|_]; [unfold MaxPrec in C; lia|].
    unfold dconst, eu. replace (exp z - P - 1 + 1) with (exp z - P) by lia. reflexivity. }
  rewrite Hunf in H. clear Hunf.
  (* the starting point is on the grid *)
  destruct (WF_on_grid z (WF_finite z Wz Fz)) as (k0 & Hk0 & Mk0).
  rewrite Pz in Hk0, Mk0. fold eu in Mk0.
  assert (E1 : 10 ^ P = 10 * 10 ^ (P - 1)).
  { replace P with (1 + (P - 1)) at 1 by (unfold P; lia). rewrite Z.pow_add_r by (unfold P; lia). reflexivity. }
  assert (E2 : 10 ^ (P - 1) = 10 * 10 ^ p).
  { replace (P - 1) with (1 + p) by (unfold P; lia). rewrite Z.pow_add_r by lia. reflexivity. }
  assert (Wq : WF zq) by (apply WF_with_prec_up; [exact Wz|exact Fz|rewrite Pz; unfold Q, MaxPrec; lia]).
  assert (G0 : Grid eu Q p k0 zq).
  { constructor; [constructor| |]; try assumption; try reflexivity; try lia.
    cbn [zq mant with_prec]. unfold Q. lia. }
  destruct (sqrt_down sqrt_fuel (2 * Q + 2) zq x (dconst 1 eu)) as [z1| |] eqn:Ed; try discriminate.
  cbn [bindR] in H.
  destruct (sqrt_down_exit eu Q p x HQ Hpm Heu1 Heu2 Wx Fx Nx Hroot' sqrt_fuel zq k0 z1 G0 Ed) as (k1 & G1 & Hk1 & B1).
  destruct (sqrt_up sqrt_fuel (2 * Q + 2) (Q + 1) z1 x (dconst 1 eu)) as [z2| |] eqn:Eu; try discriminate.
  cbn [bindR] in H.
  assert (Hfuel : k1 + Z.of_nat sqrt_fuel <= 10 ^ Q).
  { change (Z.of_nat sqrt_fuel) with 200.
    assert (100 <= 10 ^ P) by (rewrite E1, E2; lia). lia. }
  destruct (sqrt_up_exit eu Q p x HQ Hpm Heu1 Heu2 Wx Fx Nx sqrt_fuel z1 k1 z2 G1 Hfuel B1 Eu) as (k & G & Blo & Bhi).
  clear Ed Eu G0 G1 B1 Mk0 Hk0 Hk1 Hfuel k0 z1 k1.
  (* z2 = k grid units, (k u)^2 <= x < ((k+1) u)^2 *)
  destruct (square_cmp eu Q p x HQ Hpm Heu1 Heu2 Wx Fx Nx 18 k z2 ltac:(lia) (g_on _ _ _ _ _ G)) as (sq & Esq & Ec).
  rewrite Esq in H. cbn [bindT] in H. rewrite Ec in H.
  destruct G as [[W2 F2 N2 M2 L2 K2] P2 Kk].
  assert (Hlo0 : (scaled 1 (exp z - 2) <= scaled k eu)%Q).
  { replace (exp z - 2) with (eu + p) by (unfold eu, P; lia). rewrite <- scaled_pow10 by lia.
    apply scaled_le_same. lia. }
  assert (Hhi0 : (scaled (k + 1) eu <= scaled 1 (exp z + 2))%Q).
  { replace (exp z + 2) with (eu + (Q + 1)) by (unfold eu, Q; lia). rewrite <- scaled_pow10 by lia.
    apply scaled_le_same. rewrite Z.pow_add_r by lia. lia. }
  assert (Hmin : (scaled 1 (MinExp - 1) <= scaled 1 (exp z - 2))%Q) by (apply scaled1_le; unfold MinExp; lia).
  assert (HK : exp z + 2 < MaxExp) by (unfold MaxExp; lia).
  assert (Hsq : forall a, (scaled a eu * scaled a eu == scaled (a * a) (2 * eu))%Q).
  { intros a. rewrite scaled_mul. replace (eu + eu) with (2 * eu) by lia. reflexivity. }
  destruct (Z.eqb_spec (Qsgn_cmp (scaled (k * k) (2 * eu)) (mag x)) 0) as [C|C].
  - (* z2^2 = x: the root is z2 itself *)
    apply Qsgn_cmp_eq in C. cbn [bindR] in H.
    set (z3 := with_mode z2 md) in *.
    assert (W3 : WF z3) by (apply WF_with_mode; exact W2).
    destruct (SetPrec_correct z3 p W3 F2 ltac:(cbn [z3 mant with_mode]; clear - L2 HQ; lia) ltac:(lia))
      as (r' & E & Sp & Pr & Mr & Wr).
    rewrite H in E. injection E as <-.
    replace (if MaxPrec <? p then MaxPrec else p) with p in *
      by (destruct (Z.ltb_spec MaxPrec p) as [X|X]; [unfold MaxPrec in X; lia|reflexivity]).
    cbn [z3 dmode neg with_mode] in *. rewrite N2 in Sp.
    assert (Em : mag z3 = mag z2) by reflexivity. rewrite Em in Sp.
    destruct (result_spec_RoundedTo p md (mag z2) (exp z + 2) r ltac:(lia)) as (Fr & Nr & Rr & Ur); try assumption.
    { rewrite M2. lra. }
    { rewrite M2. apply Qle_trans with (scaled (k + 1) eu); [apply scaled_le_same; lia|exact Hhi0]. }
    split; [exact Wr|]. split; [exact Fr|]. split; [exact Nr|]. split; [exact Pr|]. split; [exact Mr|].
    split; [|split; [|split; [exact Ur|]]].
    + left. exists (mag z2). split; [rewrite M2, <- (scaled_0 eu); apply scaled_le_same; lia|].
      split; [rewrite M2, Hsq; exact C|exact Rr].
    + destruct Rr as [Rr _]. apply (rounds_ge md false p (mag z2)); [lia|exact Rr|rewrite M2; exact Hlo0].
    + apply SetPrec_len in H. cbn [z3 mant with_mode] in H. unfold mdigits in *. cbv [DW] in *. clear - H L2 HQ. unfold Q, P in *. lia.
  - (* z2^2 < x: add the sticky half unit at two more digits, then round *)
    assert (Blo' : (scaled (k * k) (2 * eu) < mag x)%Q).
    { apply Qle_lt_or_eq in Blo as [X|X]; [exact X|]. exfalso. apply C. apply Qsgn_cmp_eq. exact X. }
    rewrite P2 in H. rewrite (u32_small (Q + 2)) in H by lia.
    set (z2' := with_prec z2 (Q + 2)) in *.
    assert (W2' : WF z2') by (apply WF_with_prec_up; [exact W2|exact F2|rewrite P2; unfold MaxPrec; lia]).
    destruct (dconst_facts 5 (eu - 1) ltac:(lia) ltac:(unfold MinExp, MaxExp; lia)) as (Wh & Fh & Nh & Mh & Lh & Eh).
    set (half := dconst 5 (eu - 1)) in *.
    pose proof (OnGrid_exp eu Q p HQ Hpm 18 k z2 (Build_OnGrid eu Q 18 k z2 W2 F2 N2 M2 L2 K2)) as Hexp.
    assert (Hsp : add_span z2' half + 40 < 4294967296 - 18).
    { destruct (WFfin_len z2 (WF_finite z2 W2 F2)) as [Hl1 Hl2].
      unfold add_span. rewrite Lh, Eh. cbn [z2' mant exp with_prec]. clear - HQ Hexp L2 Hl1 Hl2. lia. }
    assert (Pz2 : 0 <= prec z2' <= MaxPrec) by (cbn [z2' prec with_prec]; unfold MaxPrec; lia).
    destruct (Add_correct true false z2' z2' half W2' Wh F2 Fh Pz2 Hsp) as (z3 & E3 & P3 & Md3 & W3 & _ & H3).
    assert (Ep : eff_prec z2' z2' half = Q + 2).
    { unfold eff_prec. cbn [z2' prec with_prec]. destruct (Z.eqb_spec (Q + 2) 0); [lia|reflexivity]. }
    rewrite Ep in *.
    assert (Eq : (sval z2' + sval half == scaled (10 * k + 5) (eu - 1))%Q).
    { rewrite (sval_pos z2' N2), (sval_pos half Nh), Mh.
      assert (X : mag z2' = mag z2) by reflexivity. rewrite X, M2.
      assert (Y : (scaled k eu == scaled (10 * k) (eu - 1))%Q).
      { apply (scaled_eq_gen _ _ _ _ (eu - 1)); try lia. replace (eu - (eu - 1)) with 1 by lia.
        rewrite Z.sub_diag, Z.pow_0_r, Z.pow_1_r. lia. }
      rewrite Y, <- scaled_add. reflexivity. }
    assert (Qp : (0 < sval z2' + sval half)%Q) by (rewrite Eq; apply scaled_pos; lia).
    destruct (qneg_pos _ Qp) as [Qn Qa].
    assert (Qnz : ~ (sval z2' + sval half == 0)%Q) by (intros X; rewrite X in Qp; exact (Qlt_irrefl 0 Qp)).
    specialize (H3 Qnz). rewrite Qn in H3.
    assert (A1 : 1 <= Q + 2) by lia.
    assert (A2 : 1 <= 10 * k + 5 <= 10 ^ (Q + 2)).
    { rewrite Z.pow_add_r by lia. change (10 ^ 2) with 100. lia. }
    assert (A3 : (Qabs (sval z2' + sval half) == scaled (10 * k + 5) (eu - 1))%Q) by (rewrite Qa; exact Eq).
    assert (A4 : MinExp <= eu - 1) by (unfold MinExp; lia).
    assert (A5 : eu - 1 + (Q + 2) < MaxExp) by (unfold MaxExp; lia).
    destruct (exact_le (Q + 2) _ false _ z3 (10 * k + 5) (eu - 1) A1 A2 A3 A4 A5 H3) as (F3 & M3 & _ & N3).
    rewrite A3 in M3.
    assert (L3 : mdigits (mant z3) <= Q + 2 + 18).
    { assert (Pz3 : 1 <= prec z2' <= MaxPrec - 18) by (cbn [z2' prec with_prec]; unfold MaxPrec; lia).
      exact (Add_finite_len true false z2' z2' half z3 W2' Wh F2 Fh Pz3 Hsp E3 F3). }
    rewrite E3 in H. cbn [bindR] in H.
    set (z4 := with_mode z3 md) in *.
    assert (W4 : WF z4) by (apply WF_with_mode; exact W3).
    destruct (SetPrec_correct z4 p W4 F3 ltac:(cbn [z4 mant with_mode]; clear - L3 HQ; lia) ltac:(lia))
      as (r' & E & Sp & Pr & Mr & Wr).
    rewrite H in E. injection E as <-.
    replace (if MaxPrec <? p then MaxPrec else p) with p in *
      by (destruct (Z.ltb_spec MaxPrec p) as [X|X]; [unfold MaxPrec in X; lia|reflexivity]).
    cbn [z4 dmode neg with_mode] in *. rewrite N3 in Sp.
    assert (Em : mag z4 = mag z3) by reflexivity. rewrite Em in Sp.
    (* the sticky value lies strictly inside the cell *)
    assert (V1 : (scaled k eu < mag z3)%Q).
    { rewrite M3. apply (scaled_lt_gen _ _ _ _ (eu - 1)); try lia. replace (eu - (eu - 1)) with 1 by lia.
      rewrite Z.sub_diag, Z.pow_0_r, Z.pow_1_r. lia. }
    assert (V2 : (mag z3 < scaled (k + 1) eu)%Q).
    { rewrite M3. apply (scaled_lt_gen _ _ _ _ (eu - 1)); try lia. replace (eu - (eu - 1)) with 1 by lia.
      rewrite Z.sub_diag, Z.pow_0_r, Z.pow_1_r. lia. }
    destruct (result_spec_RoundedTo p md (mag z3) (exp z + 2) r ltac:(lia)) as (Fr & Nr & [Rr Ar] & Ur); try assumption.
    { lra. }
    { lra. }
    split; [exact Wr|]. split; [exact Fr|]. split; [exact Nr|]. split; [exact Pr|]. split; [exact Mr|].
    split; [|split; [|split; [exact Ur|]]].
    + right. exists (scaled k eu), (scaled (k + 1) eu).
      split; [rewrite <- (scaled_0 eu); apply scaled_le_same; lia|].
      split; [apply scaled_lt_same; lia|].
      split; [rewrite Hsq; exact Blo'|]. split; [rewrite Hsq; exact Bhi|].
      intros v Hv1 Hv2.
      destruct (rounds_interval (dir_of md false) p k eu (mag z3) v (mag r) ltac:(lia) ltac:(lia) V1 V2 Hv1 Hv2 Rr)
        as [Rv Cv].
      split; [exact Rv|]. rewrite Ar. symmetry. apply acc_of_cmp. exact Cv.
    + apply (rounds_ge md false p (mag z3)); [lia|exact Rr|lra].
    + apply SetPrec_len in H. cbn [z4 mant with_mode] in H. unfold mdigits in *. cbv [DW] in *. clear - H L3 HQ. unfold Q, P in *. lia.
Qed.

(* ------------------------------------------------------------------ *)
(* precision and mode through the operations (ported from the pre-fix proofs) *)

Definition same_attrs (a b : Dec) : Prop := prec a = prec b /\ dmode a = dmode b.

Lemma round_attrs z s z' : round z s = Some z' -> same_attrs z' z.
Proof.
  unfold round, same_attrs. intros H.
  repeat match type of H with
         | context [match ?c with _ => _ end] => destruct c eqn:?
         end;
    try discriminate; inversion H; subst; cbn; auto.
Qed.

Lemma setExpAndRound_attrs z e s z' : setExpAndRound z e s = Some z' -> same_attrs z' z.
Proof.
  unfold setExpAndRound. intros H.
  destruct (e <? MinExp). { inversion H; subst; split; reflexivity. }
  destruct (MaxExp <? e). { inversion H; subst; split; reflexivity. }
  apply round_attrs in H. destruct H as [H1 H2]. split; [rewrite H1|rewrite H2]; reflexivity.
Qed.

Definition mul_prec (z x y : Dec) : Z := if prec z =? 0 then umax32 (prec x) (prec y) else prec z.

Lemma Mul_attrs z x y z' : Mul z x y = OkR z' -> prec z' = mul_prec z x y /\ dmode z' = dmode z.
Proof.
  unfold Mul, mul_prec. intros H.
  set (z1 := if prec z =? 0 then with_prec z (umax32 (prec x) (prec y)) else z) in *.
  assert (E : prec z1 = (if prec z =? 0 then umax32 (prec x) (prec y) else prec z) /\ dmode z1 = dmode z).
  { unfold z1. destruct (prec z =? 0); split; reflexivity. }
  destruct E as [E1 E2]. rewrite <- E1, <- E2. clear E1 E2.
  destruct (dform x), (dform y); try discriminate; try (inversion H; subst; split; reflexivity).
  unfold umul, of_opt in H.
  destruct (dnorm (dec_mul (mant x) (mant y))) as [[m' s]|]; [|discriminate].
  destruct (setExpAndRound _ _ _) eqn:E; [|discriminate]. inversion H; subst.
  apply setExpAndRound_attrs in E. destruct E as [E1 E2]. split; [rewrite E1|rewrite E2]; reflexivity.
Qed.

Lemma SetMantExp_self_attrs z e z' : SetMantExp true z z e = OkR z' -> same_attrs z' z.
Proof.
  unfold SetMantExp, Copy. destruct (dform z).
  - intros H; inversion H; subst; split; reflexivity.
  - unfold of_opt. destruct (setExpAndRound _ _ _) eqn:E; [|discriminate].
    intros H; inversion H; subst. exact (setExpAndRound_attrs _ _ _ _ E).
  - intros H; inversion H; subst; split; reflexivity.
Qed.

Lemma SetPrec_attrs z p z' : SetPrec z p = OkR z' -> 1 <= p <= MaxPrec -> prec z' = p /\ dmode z' = dmode z.
Proof.
  unfold SetPrec. intros H Hp. destruct (Z.eqb_spec p 0); [lia|].
  destruct (Z.ltb_spec MaxPrec p); [lia|]. cbn [prec with_acc with_prec] in H.
  destruct (p <? prec z).
  - unfold of_opt in H. destruct (round _ 0) as [w|] eqn:Er; [|discriminate]. injection H as <-.
    apply round_attrs in Er. destruct Er as [E1 E2]. split; [rewrite E1|rewrite E2]; reflexivity.
  - injection H as <-. split; reflexivity.
Qed.

(* the final multiplication of sqrtInverse is the only step that writes the receiver *)
Lemma sqrtInverse_attrs z x z' : prec z <> 0 -> sqrtInverse z x = OkR z' -> same_attrs z' z.
Proof.
  intros Hp. unfold sqrtInverse, bindT.
  destruct (sqrt_guess x); [|discriminate].
  destruct (SetFloat64_fl _ _); try discriminate.
  destruct (newton _ _ _ _ _ _ _) as [t| |]; try discriminate.
  intros H. apply Mul_attrs in H. unfold mul_prec in H.
  destruct (Z.eqb_spec (prec z) 0); [contradiction|]. exact H.
Qed.

Lemma bindR_ok a f r : bindR a f = OkR r -> exists y, a = OkR y /\ f y = OkR r.
Proof. destruct a; cbn [bindR]; try discriminate. intros H. eauto. Qed.
Lemma bindT_ok z a f r : bindT z a f = OkR r -> exists y, a = OkR y /\ f y = OkR r.
Proof. destruct a; cbn [bindT]; try discriminate. intros H. eauto. Qed.

Lemma sqrtRound_attrs z x p md r : sqrtRound z x p md = OkR r -> 1 <= p <= MaxPrec ->
  prec r = p /\ dmode r = md.
Proof.
  unfold sqrtRound. cbv zeta. intros H Hp.
  apply bindR_ok in H as (z1 & _ & H). apply bindR_ok in H as (z2 & _ & H).
  apply bindT_ok in H as (sq & _ & H). apply bindR_ok in H as (z3 & _ & H).
  apply SetPrec_attrs in H; [|exact Hp]. exact H.
Qed.

(* documented precision of the receiver *)
Definition sqrt_prec (z x : Dec) : Z := if prec z =? 0 then prec x else prec z.

Theorem Sqrt_attrs same z x z' :
  Sqrt same z x = OkR z' ->
  (dform x = Ffinite -> 1 <= sqrt_prec z x <= MaxPrec) ->
  prec z' = sqrt_prec z x /\ dmode z' = dmode z.
Proof.
  unfold Sqrt, sqrt_prec. intros H Hp.
  set (z1 := if prec z =? 0 then with_prec z (prec x) else z) in *.
  assert (E : prec z1 = (if prec z =? 0 then prec x else prec z) /\ dmode z1 = dmode z).
  { unfold z1. destruct (prec z =? 0); split; reflexivity. }
  destruct E as [E1 E2]. rewrite <- E1, <- E2. rewrite <- E1 in Hp. clear E1 E2.
  destruct (Sign x =? -1); [discriminate|].
  destruct (dform x) eqn:Fx; try (inversion H; subst; split; reflexivity).
  specialize (Hp eq_refl).
  apply bindR_ok in H as (z2 & _ & H). cbv zeta in H.
  apply bindR_ok in H as (z5 & _ & H). apply bindR_ok in H as (z6 & E6 & H).
  apply bindR_ok in H as (z7 & E7 & H). injection H as <-.
  apply sqrtRound_attrs in E6; [|exact Hp]. apply SetMantExp_self_attrs in E7.
  destruct E6 as [A1 A2], E7 as [B1 B2]. cbn [prec dmode with_acc]. split; congruence.
Qed.

(* ------------------------------------------------------------------ *)
(* special values *)

Theorem Sqrt_zero same z x : dform x = Fzero ->
  exists r, Sqrt same z x = OkR r /\ dform r = Fzero /\ neg r = neg x /\ acc r = Exact /\
            prec r = sqrt_prec z x /\ dmode r = dmode z.
Proof.
  intros Fx. unfold Sqrt, Sign, sqrt_prec. rewrite Fx. cbn [Z.eqb].
  eexists. split; [reflexivity|]. destruct (prec z =? 0); repeat split; reflexivity.
Qed.

Theorem Sqrt_posinf same z x : dform x = Finf -> neg x = false ->
  exists r, Sqrt same z x = OkR r /\ dform r = Finf /\ neg r = false /\ acc r = Exact /\
            prec r = sqrt_prec z x /\ dmode r = dmode z.
Proof.
  intros Fx Nx. unfold Sqrt, Sign, sqrt_prec. rewrite Fx, Nx. cbn [Z.eqb].
  eexists. split; [reflexivity|]. destruct (prec z =? 0); repeat split; reflexivity.
Qed.

(* negative operands (finite or -Inf): ErrNaN, for every receiver *)
Theorem Sqrt_negative same z x : dform x <> Fzero -> neg x = true ->
  exists r, Sqrt same z x = NaNR r.
Proof.
  intros Fx Nx. unfold Sqrt, Sign. rewrite Nx.
  destruct (dform x); [contradiction| |]; cbn [Z.eqb]; eexists; reflexivity.
Qed.

(* ------------------------------------------------------------------ *)
(* the exponent split: Sqrt runs the approximation and the correction on
   x0 = x's mantissa with exponent (exp x) rem 2, a value in [0.01, 10) with
   x = x0 * 10^(2 * (exp x quot 2)), and re-attaches (exp x) quot 2 *)

Definition sqrt_x0 (z x : Dec) : Dec :=
  mkDec (mant x) (Z.rem (exp x) 2) (sqrt_prec z x) (dmode z) (acc x) Ffinite false.
(* the receiver handed to sqrtInverse: two guard digits, truncation *)
Definition sqrt_zN (z x : Dec) : Dec :=
  with_mode (with_prec (sqrt_x0 z x) (u32 (sqrt_prec z x + 2))) ToZero.

Theorem Sqrt_unfold same z x :
  dform x = Ffinite -> neg x = false -> (same = true -> z = x) ->
  Sqrt same z x =
    bindR (sqrtInverse (sqrt_zN z x) (sqrt_x0 z x)) (fun z1 =>
    bindR (sqrtRound z1 (sqrt_x0 z x) (sqrt_prec z x) (dmode z)) (fun z2 =>
    bindR (SetMantExp true z2 z2 (Z.quot (exp x) 2)) (fun z3 => OkR (with_acc z3 (acc z2))))).
Proof.
  intros Fx Nx Hsame.
  set (b := exp x). set (r := Z.rem b 2).
  pose proof (Z.rem_bound_abs b 2 ltac:(lia)) as RB. fold r in RB.
  set (z1 := if prec z =? 0 then with_prec z (prec x) else z).
  assert (P1 : prec z1 = sqrt_prec z x /\ dmode z1 = dmode z).
  { unfold z1, sqrt_prec. destruct (prec z =? 0); split; reflexivity. }
  destruct P1 as [P1 M1].
  unfold Sqrt, Sign. rewrite Fx, Nx. cbn [Z.eqb]. fold z1. unfold MantExp_exp. rewrite Fx. fold b. fold r.
  assert (E : MantExp_mant same z1 x =
              OkR (mkDec (mant x) 0 (prec x) (dmode x) (acc x) Ffinite false)).
  { unfold MantExp_mant, Copy. destruct same.
    - specialize (Hsame eq_refl). subst z. unfold z1.
      destruct (prec x =? 0); cbn [dform with_prec]; rewrite Fx; cbn; rewrite <- Nx, <- Fx; destruct x; reflexivity.
    - rewrite Fx, Nx. reflexivity. }
  rewrite E. cbn [bindR]. cbv zeta.
  assert (E4 : (let z0 := with_mode (with_prec (mkDec (mant x) 0 (prec x) (dmode x) (acc x) Ffinite false) (prec z1)) (dmode z1) in
                if r =? 1 then with_exp z0 (i32 (exp z0 + 1)) else if r =? -1 then with_exp z0 (i32 (exp z0 - 1)) else z0)
               = sqrt_x0 z x).
  { cbv zeta. unfold sqrt_x0. fold b. fold r. rewrite <- P1, <- M1.
    destruct (Z.eqb_spec r 1) as [->|]; [reflexivity|]. destruct (Z.eqb_spec r (-1)) as [->|]; [reflexivity|].
    replace r with 0 by lia. reflexivity. }
  cbv zeta in E4. rewrite E4. rewrite P1, M1. reflexivity.
Qed.

Lemma sqrt_x0_facts z x : WF x -> dform x = Ffinite ->
  WF (with_prec (sqrt_x0 z x) (prec x)) /\
  (mag x == mag (sqrt_x0 z x) * Qpow10 (2 * Z.quot (exp x) 2))%Q /\
  (scaled 1 (-2) <= mag (sqrt_x0 z x))%Q /\ (mag (sqrt_x0 z x) < scaled 1 1)%Q.
Proof.
  intros Wx Fx. pose proof (WF_finite x Wx Fx) as Hx.
  set (b := exp x). pose proof (Z.quot_rem' b 2) as QR.
  pose proof (Z.rem_bound_abs b 2 ltac:(lia)) as RB. set (r := Z.rem b 2) in *.
  assert (Hz4 : WFfin (with_prec (sqrt_x0 z x) (prec x))).
  { destruct Hx as [Hne Hok Htop Hprec Hexp Htail]. constructor; cbn [mant prec exp with_prec sqrt_x0]; try assumption.
    fold b. fold r. unfold MinExp, MaxExp. lia. }
  split.
  - destruct Hz4 as [Hne Hok Htop Hprec Hexp Htail].
    apply WF_intro; cbn [dform with_prec sqrt_x0]; try assumption; reflexivity.
  - pose proof (mag_bounds _ Hz4) as [Blo Bhi].
    assert (Em : mag (with_prec (sqrt_x0 z x) (prec x)) = mag (sqrt_x0 z x)) by reflexivity.
    rewrite Em in Blo, Bhi. cbn [exp with_prec sqrt_x0] in Blo, Bhi. fold b in Blo, Bhi. fold r in Blo, Bhi.
    split; [|split].
    + unfold mag. cbn [mant exp sqrt_x0]. fold b. fold r. unfold scaled.
      replace (b - mdigits (mant x)) with ((r - mdigits (mant x)) + 2 * Z.quot b 2) by lia.
      rewrite Qpow10_add. ring.
    + apply Qle_trans with (scaled 1 (r - 1)); [apply scaled1_le; lia|exact Blo].
    + apply Qlt_le_trans with (scaled 1 r); [exact Bhi|apply scaled1_le; lia].
Qed.

(* ------------------------------------------------------------------ *)
(* the operand's precision is irrelevant to sqrtRound (it is only compared) *)
Lemma sqrt_down_xprec q fuel psq ulp x : forall z,
  sqrt_down fuel psq z (with_prec x q) ulp = sqrt_down fuel psq z x ulp.
Proof.
  induction fuel as [|fuel IH]; intros z; [reflexivity|]. cbn [sqrt_down].
  destruct (Mul (tmpDec psq) z z) as [sq| |]; cbn [bindT]; try reflexivity.
  change (Cmp sq (with_prec x q)) with (Cmp sq x).
  destruct (Cmp sq x =? 1); [|reflexivity].
  destruct (Sub true false z z ulp) as [z'| |]; cbn [bindR]; auto.
Qed.

Lemma sqrt_up_xprec q fuel psq pt ulp x : forall z,
  sqrt_up fuel psq pt z (with_prec x q) ulp = sqrt_up fuel psq pt z x ulp.
Proof.
  induction fuel as [|fuel IH]; intros z; [reflexivity|]. cbn [sqrt_up].
  destruct (AddD false false (tmpDec pt) z ulp) as [t| |]; cbn [bindT]; try reflexivity.
  destruct (Mul (tmpDec psq) t t) as [sq| |]; cbn [bindT]; try reflexivity.
  change (Cmp sq (with_prec x q)) with (Cmp sq x).
  destruct (Cmp sq x <=? 0); [|reflexivity].
  destruct (Set_ false z t) as [z'| |]; cbn [bindR]; auto.
Qed.

Lemma sqrtRound_xprec q z x p md : sqrtRound z (with_prec x q) p md = sqrtRound z x p md.
Proof.
  unfold sqrtRound. cbv zeta. rewrite sqrt_down_xprec.
  destruct (sqrt_down _ _ _ x _) as [z1| |]; cbn [bindR]; [|reflexivity|reflexivity].
  rewrite sqrt_up_xprec. reflexivity.
Qed.

(* ------------------------------------------------------------------ *)
(* storing a value that is already a p-digit decimal is exact *)
Lemma result_spec_repr p md v z' : 1 <= p -> RoundsDir (dir_of md false) p v v ->
  (scaled 1 (MinExp - 1) <= v)%Q -> (v < scaled 1 MaxExp)%Q ->
  result_spec p md false v z' -> dform z' = Ffinite /\ (mag z' == v)%Q /\ neg z' = false.
Proof.
  intros Hp HR L1 L2 [Hn H].
  destruct (Qlt_le_dec v (scaled 1 (MinExp - 1))) as [C|_]; [exfalso; lra|].
  destruct H as (r & HR' & H).
  assert (Er : (r == v)%Q) by (apply (RoundsDir_unique (dir_of md false) p v); assumption).
  destruct (Qlt_le_dec r (scaled 1 MaxExp)) as [_|C]; [|exfalso; lra].
  destruct H as (Hf & Hm & _). split; [exact Hf|]. split; [rewrite Hm; exact Er|exact Hn].
Qed.

Lemma WF_with_acc a c : WF a -> WF (with_acc a c).
Proof. unfold WF, wf_b. cbn [with_acc prec dform mant exp]. auto. Qed.

(* ------------------------------------------------------------------ *)
(* sqrt(x * 100^h) = sqrt(x) * 10^h at the level of the specification *)
Lemma RoundedTo_scale md p v r0 r h :
  RoundedTo md p v r0 -> (mag r == mag r0 * Qpow10 h)%Q -> acc r = acc r0 ->
  RoundedTo md p (v * Qpow10 h) r.
Proof.
  intros [HR HA] Hm Ha. split.
  - unfold Rounds in *. eapply RoundsDir_ext; [reflexivity|symmetry; exact Hm|].
    apply RoundsDir_scale. exact HR.
  - rewrite Ha, HA. unfold acc_of. rewrite Hm.
    rewrite (Qcompare_mult_pos_r (mag r0) v (Qpow10 h) (Qpow10_pos h)). reflexivity.
Qed.

Lemma RoundedTo_ext md p v v' r : (v == v')%Q -> RoundedTo md p v r -> RoundedTo md p v' r.
Proof.
  intros Hv [HR HA]. split.
  - unfold Rounds in *. eapply RoundsDir_ext; [exact Hv|reflexivity|exact HR].
  - rewrite HA. apply acc_of_ext; [reflexivity|exact Hv].
Qed.

Lemma IsSqrtRounding_scale md p xq xq' r0 r h :
  IsSqrtRounding md p xq r0 -> (mag r == mag r0 * Qpow10 h)%Q -> acc r = acc r0 ->
  (xq' == xq * Qpow10 (2 * h))%Q ->
  IsSqrtRounding md p xq' r.
Proof.
  intros H Hm Ha Hx.
  pose proof (Qpow10_pos h) as Hc. set (c := Qpow10 h) in *.
  assert (Ecc : (Qpow10 (2 * h) == c * c)%Q).
  { replace (2 * h) with (h + h) by lia. apply Qpow10_add. }
  assert (Hcc : (0 < c * c)%Q) by (apply Qmult_lt_0_compat; exact Hc).
  set (c' := Qpow10 (- h)).
  assert (Hc' : (0 < c')%Q) by apply Qpow10_pos.
  assert (E1 : (c * c' == 1)%Q).
  { unfold c, c'. rewrite <- Qpow10_add. replace (h + - h) with 0 by lia. reflexivity. }
  destruct H as [(v & Hv0 & Hvv & HR)|(lo & hi & Hlo0 & Hlh & Hl & Hh & HR)].
  - left. exists (v * c)%Q. split; [apply Qmult_le_0_compat; lra|]. split.
    + rewrite Hx, Ecc, <- Hvv. ring.
    + apply (RoundedTo_scale md p v r0 r h); assumption.
  - right. exists (lo * c)%Q, (hi * c)%Q.
    split; [apply Qmult_le_0_compat; lra|].
    split; [apply Qmult_lt_r; assumption|].
    split; [|split].
    + rewrite Hx, Ecc. setoid_replace (lo * c * (lo * c))%Q with (lo * lo * (c * c))%Q by ring.
      apply Qmult_lt_r; assumption.
    + rewrite Hx, Ecc. setoid_replace (hi * c * (hi * c))%Q with (hi * hi * (c * c))%Q by ring.
      apply Qmult_lt_r; assumption.
    + intros v Hv1 Hv2.
      assert (Ev : (v == v * c' * c)%Q).
      { setoid_replace (v * c' * c)%Q with (v * (c * c'))%Q by ring. rewrite E1. ring. }
      apply (RoundedTo_ext md p (v * c' * c)%Q v); [symmetry; exact Ev|].
      apply (RoundedTo_scale md p (v * c')%Q r0 r h); try assumption.
      apply HR.
      * setoid_replace lo with (lo * c * c')%Q by (setoid_replace (lo * c * c')%Q with (lo * (c * c'))%Q by ring; rewrite E1; ring).
        apply Qmult_lt_r; assumption.
      * setoid_replace hi with (hi * c * c')%Q by (setoid_replace (hi * c * c')%Q with (hi * (c * c'))%Q by ring; rewrite E1; ring).
        apply Qmult_lt_r; assumption.
Qed.

Lemma scaled1_mul a h : (scaled 1 a * Qpow10 h == scaled 1 (a + h))%Q.
Proof. unfold scaled. rewrite Qpow10_add. ring. Qed.

(* ------------------------------------------------------------------ *)
(* the main theorem, relative to a sanity condition on the Newton stage *)

(* what the correction step needs from the approximation: a canonical positive
   finite Decimal, not longer than its precision plus a word, whose exponent is
   at most 1 (the root of a value in [0.01, 10) is below 3.17) and not absurdly
   small.  Nothing about its accuracy. *)
Definition ApproxOK (z1 : Dec) : Prop :=
  WF z1 /\ dform z1 = Ffinite /\ neg z1 = false /\
  mdigits (mant z1) <= prec z1 + 18 /\ - 1000000 <= exp z1 <= 1.

Theorem Sqrt_correct_partial same z x r :
  WF x -> dform x = Ffinite -> neg x = false -> (same = true -> z = x) ->
  0 <= prec z -> sqrt_prec z x <= 1000000000 ->
  (forall z1, sqrtInverse (sqrt_zN z x) (sqrt_x0 z x) = OkR z1 -> ApproxOK z1) ->
  Sqrt same z x = OkR r ->
  WF r /\ dform r = Ffinite /\ neg r = false /\
  prec r = sqrt_prec z x /\ dmode r = dmode z /\
  IsSqrtRounding (dmode z) (sqrt_prec z x) (mag x) r.
Proof.
  intros Wx Fx Nx Hsame Pz0 Pmax HN H.
  pose proof (WF_finite x Wx Fx) as Hx. pose proof Hx as [_ _ _ Hpx Hex _].
  set (p := sqrt_prec z x) in *. set (md := dmode z) in *.
  assert (Hp : 1 <= p <= 1000000000).
  { split; [|exact Pmax]. unfold p, sqrt_prec. destruct (Z.eqb_spec (prec z) 0); lia. }
  rewrite (Sqrt_unfold same z x Fx Nx Hsame) in H. fold p md in H.
  set (x0 := sqrt_x0 z x) in *. set (zN := sqrt_zN z x) in *.
  set (h := Z.quot (exp x) 2) in *.
  apply bindR_ok in H as (z1 & E1 & H). apply bindR_ok in H as (r0 & E2 & H).
  apply bindR_ok in H as (r' & E3 & H). injection H as <-.
  destruct (HN z1 E1) as (W1 & F1 & N1 & L1 & X1).
  assert (PN : prec zN = p + 2).
  { unfold zN, sqrt_zN. cbn [prec with_mode with_prec]. fold p. apply u32_small. lia. }
  destruct (sqrtInverse_attrs zN x0 z1 ltac:(rewrite PN; lia) E1) as [P1 M1].
  rewrite PN in P1.
  destruct (sqrt_x0_facts z x Wx Fx) as (Wx0 & Ex0 & Blo & Bhi). fold x0 h in Wx0, Ex0, Blo, Bhi.
  rewrite <- (sqrtRound_xprec (prec x)) in E2.
  assert (Hroot : (scaled 1 (2 * (exp z1 - 2)) <= mag (with_prec x0 (prec x)))%Q).
  { assert (Em : mag (with_prec x0 (prec x)) = mag x0) by reflexivity. rewrite Em.
    apply Qle_trans with (scaled 1 (-2)); [apply scaled1_le; lia|exact Blo]. }
  destruct (sqrtRound_correct z1 (with_prec x0 (prec x)) p md r0 W1 F1 N1 P1 L1 Hp ltac:(lia) Wx0
              eq_refl eq_refl Hroot E2) as (Wr0 & Fr0 & Nr0 & Pr0 & Mr0 & HS & Glo & Ghi & Lr0).
  assert (Em : mag (with_prec x0 (prec x)) = mag x0) by reflexivity. rewrite Em in HS. clear Em.
  (* re-attach the halved exponent *)
  destruct (SetMantExp_correct true r0 r0 h Wr0 Fr0 ltac:(clear - Lr0 Hp; lia) ltac:(reflexivity))
    as (r'' & E3' & Sp & Pr' & Mr' & Wr').
  rewrite E3 in E3'. injection E3' as <-. rewrite Pr0, Mr0, Nr0 in *.
  assert (Hh : - 1073741824 <= h <= 1073741824).
  { unfold h, MinExp, MaxExp in *. clear - Hex. pose proof (Z.quot_rem' (exp x) 2).
    pose proof (Z.rem_bound_abs (exp x) 2 ltac:(lia)). lia. }
  assert (V1 : (scaled 1 (MinExp - 1) <= mag r0 * Qpow10 h)%Q).
  { apply Qle_trans with (scaled 1 (exp z1 - 2) * Qpow10 h)%Q.
    - rewrite scaled1_mul. apply scaled1_le. unfold MinExp. lia.
    - apply Qmult_le_r; [apply Qpow10_pos|exact Glo]. }
  assert (V2 : (mag r0 * Qpow10 h < scaled 1 MaxExp)%Q).
  { apply Qle_lt_trans with (scaled 1 (exp z1 + 2) * Qpow10 h)%Q.
    - apply Qmult_le_r; [apply Qpow10_pos|exact Ghi].
    - rewrite scaled1_mul. apply (scaled_lt_gen _ _ _ _ (exp z1 + 2 + h)); try (unfold MaxExp; lia).
      rewrite Z.sub_diag, Z.pow_0_r.
      assert (1 < 10 ^ (MaxExp - (exp z1 + 2 + h))) by (apply Z.pow_gt_1; unfold MaxExp; lia). lia. }
  assert (HR : RoundsDir (dir_of md false) p (mag r0 * Qpow10 h) (mag r0 * Qpow10 h)).
  { apply RoundsDir_scale. apply repr_rounds; [apply WF_finite; assumption|lia]. }
  destruct (result_spec_repr p md _ r' ltac:(lia) HR V1 V2 Sp) as (Fr' & Mr'' & Nr').
  set (r := with_acc r' (acc r0)).
  split; [apply WF_with_acc; exact Wr'|]. split; [exact Fr'|]. split; [exact Nr'|].
  split; [exact Pr'|]. split; [exact Mr'|].
  apply (IsSqrtRounding_scale md p (mag x0) (mag x) r0 r h HS); [exact Mr''|reflexivity|exact Ex0].
Qed.

(* ------------------------------------------------------------------ *)
(* consequences through squares: the accuracy is the sign of (r^2 - x) *)
Lemma sq_le_mono a b : (0 <= a)%Q -> (a <= b)%Q -> (a * a <= b * b)%Q.
Proof. intros. nra. Qed.
Lemma sq_lt_mono a b : (0 <= a)%Q -> (a < b)%Q -> (a * a < b * b)%Q.
Proof. intros. nra. Qed.

Theorem IsSqrtRounding_accuracy md p xq r : 1 <= p ->
  IsSqrtRounding md p xq r ->
  match acc r with
  | Below => (mag r * mag r < xq)%Q
  | Exact => (mag r * mag r == xq)%Q
  | Above => (xq < mag r * mag r)%Q
  end.
Proof.
  intros Hp1.
  assert (Hpos : forall v, Rounds md false p v (mag r) -> (0 < v)%Q /\ (0 < mag r)%Q).
  { intros v HR. destruct (RoundsDir_cases _ _ _ _ HR) as (M & e & (HM & Hlo & Hhi) & Hr).
    assert (0 < 10 ^ (p - 1)) by (apply pow10_pos; lia).
    assert (L0 : (0 < scaled M e)%Q) by (apply scaled_pos; lia).
    assert (L1 : (scaled M e < scaled (M + 1) e)%Q) by (apply scaled_lt_same; lia).
    split; [lra|]. destruct Hr as [Hr|[_ Hr]]; rewrite Hr; lra. }
  intros [(v & Hv0 & Hvv & HR & HA)|(lo & hi & Hlo0 & Hlh & Hl & Hh & HR)].
  - destruct (Hpos v HR) as [Pv Pr]. rewrite HA. unfold acc_of.
    destruct (mag r ?= v)%Q eqn:C.
    + apply Qeq_alt in C. rewrite <- Hvv, C. reflexivity.
    + apply Qlt_alt in C. rewrite <- Hvv. apply sq_lt_mono; lra.
    + apply Qgt_alt in C. rewrite <- Hvv. apply sq_lt_mono; lra.
  - set (m1 := ((2 # 3) * lo + (1 # 3) * hi)%Q). set (m2 := ((1 # 3) * lo + (2 # 3) * hi)%Q).
    assert (A1 : (lo < m1)%Q /\ (m1 < m2)%Q /\ (m2 < hi)%Q) by (unfold m1, m2; repeat split; lra).
    destruct A1 as (A1 & A2 & A3).
    destruct (HR m1 A1 ltac:(lra)) as [R1 C1]. destruct (HR m2 ltac:(lra) A3) as [R2 C2].
    destruct (Hpos m1 R1) as [_ Pr].
    unfold acc_of in C1, C2.
    destruct (acc r) eqn:Ea.
    + (* Below: r < every v in the cell, so r <= lo *)
      assert (X : (mag r <= lo)%Q).
      { destruct (Qlt_le_dec lo (mag r)) as [Y|Y]; [exfalso|exact Y].
        destruct (Qlt_le_dec (mag r) hi) as [Z|Z].
        - destruct (HR (mag r) Y Z) as [_ C]. unfold acc_of in C. rewrite (Qeq_cmp (mag r) (mag r)) in C by reflexivity. congruence.
        - assert (Q : (m1 < mag r)%Q) by lra. rewrite (Qgt_cmp _ _ Q) in C1. discriminate. }
      apply Qle_lt_trans with (lo * lo)%Q; [apply sq_le_mono; lra|exact Hl].
    + (* Exact at two different points is impossible *)
      exfalso.
      destruct (mag r ?= m1)%Q eqn:D1; try discriminate. destruct (mag r ?= m2)%Q eqn:D2; try discriminate.
      apply Qeq_alt in D1, D2. lra.
    + assert (X : (hi <= mag r)%Q).
      { destruct (Qlt_le_dec (mag r) hi) as [Y|Y]; [exfalso|exact Y].
        destruct (Qlt_le_dec lo (mag r)) as [Z|Z].
        - destruct (HR (mag r) Z Y) as [_ C]. unfold acc_of in C. rewrite (Qeq_cmp (mag r) (mag r)) in C by reflexivity. congruence.
        - assert (Q : (mag r < m2)%Q) by lra. rewrite (Qlt_cmp _ _ Q) in C2. discriminate. }
      apply Qlt_le_trans with (hi * hi)%Q; [exact Hh|apply sq_le_mono; lra].
Qed.

(* ------------------------------------------------------------------ *)
(* concrete values for the non-vacuity examples of Props/C05.v *)
Definition ex_z5 : Dec := mkDec [] 0 5 ToNearestEven Exact Fzero false.
Definition ex_four : Dec := mkDec [4000000000000000000] 1 1 ToZero Exact Ffinite false.
Definition ex_two : Dec := mkDec [2000000000000000000] 1 1 ToZero Exact Ffinite false.
Definition ex_nine : Dec := mkDec [9000000000000000000] 1 1 ToNearestEven Exact Ffinite false.
(* the witnesses of finding K1 on the unrepaired code *)
Definition ex_k1_z : Dec := mkDec [] 0 30 ToNearestEven Exact Fzero false.
Definition ex_k1_x : Dec :=
  mkDec [8006489111310000000; 7732889109322906291] 30 31 ToNearestEven Exact Ffinite false.


(* the hypothesis on the Newton stage holds by computation for sqrt 2 at 5
   digits, hence the conclusion of Sqrt_correct_partial *)
Lemma Sqrt_correct_instance :
  exists r, Sqrt false ex_z5 ex_two = OkR r /\ IsSqrtRounding ToNearestEven 5 (mag ex_two) r.
Proof.
  destruct (Sqrt false ex_z5 ex_two) as [r| |] eqn:E; try (vm_compute in E; discriminate E).
  exists r. split; [reflexivity|].
  assert (W : WF ex_two) by (vm_compute; reflexivity).
  assert (S : false = true -> ex_z5 = ex_two) by (intros X; discriminate X).
  assert (P0 : 0 <= prec ex_z5) by (vm_compute; intros X; discriminate X).
  assert (P1 : sqrt_prec ex_z5 ex_two <= 1000000000) by (vm_compute; intros X; discriminate X).
  assert (A : forall z1, sqrtInverse (sqrt_zN ex_z5 ex_two) (sqrt_x0 ex_z5 ex_two) = OkR z1 -> ApproxOK z1).
  { intros z1 H. vm_compute in H. injection H as <-.
    unfold ApproxOK. repeat split; try (vm_compute; reflexivity); vm_compute; intros X; discriminate X. }
  exact (proj2 (proj2 (proj2 (proj2 (proj2
    (Sqrt_correct_partial false ex_z5 ex_two r W eq_refl eq_refl S P0 P1 A E)))))).
Qed.
