(* L3/CmpProofs.v — Cmp is the order of the exact values (C16). *)
From Coq Require Import ZArith List Bool Lia QArith.
From Dec Require Import Base.Words Base.WordsProofs Base.QPow L3.Decimal L3.Cmp.
Open Scope Z_scope.

Definition cmpZ (c : comparison) : Z := match c with Lt => -1 | Eq => 0 | Gt => 1 end.

(* big-endian value *)
Fixpoint bev (xs : list Z) : Z :=
  match xs with [] => 0 | x :: xs' => x * B ^ zlen xs' + bev xs' end.

Lemma bev_rev l : bev (rev l) = val l.
Proof.
  induction l as [|w l IH]; [reflexivity|]. cbn [rev val].
  assert (H : forall xs a, bev (xs ++ [a]) = bev xs * B + a).
  { induction xs as [|x xs IHx]; intros a; cbn [app bev].
    - change (zlen (@nil Z)) with 0. rewrite Z.pow_0_r. lia.
    - rewrite IHx, zlen_app. change (zlen [a]) with 1.
      rewrite Z.pow_add_r, Z.pow_1_r by (pose proof (zlen_nonneg xs); lia). ring. }
  rewrite H, IH. ring.
Qed.

Lemma bev_bounds xs : words_ok xs = true -> 0 <= bev xs < B ^ zlen xs.
Proof.
  induction xs as [|x xs IH]; intros H.
  - cbn. lia.
  - apply words_ok_cons in H as [Hx Hxs]. specialize (IH Hxs). cbn [bev].
    rewrite zlen_cons, Z.pow_add_r, Z.pow_1_r by (pose proof (zlen_nonneg xs); lia).
    nia.
Qed.

Lemma bev_zero_iff xs : words_ok xs = true ->
  (forallb (fun w => w =? 0) xs = true <-> bev xs = 0).
Proof.
  induction xs as [|x xs IH]; intros H; cbn [forallb bev]; [tauto|].
  apply words_ok_cons in H as [Hx Hxs]. specialize (IH Hxs).
  pose proof (bev_bounds xs Hxs). pose proof (Bpow_pos (length xs)).
  fold (zlen xs) in *.
  rewrite andb_true_iff, Z.eqb_eq, IH. nia.
Qed.

Lemma lex_lt x y bx by_ P R b : 0 <= bx < P -> 0 <= by_ < R -> 0 < b -> x < y -> 0 <= x ->
  (x * P + bx) * (R * b) < (y * R + by_) * (P * b).
Proof.
  intros Hx Hy Hb Hlt H0.
  assert (x * P + bx < y * P) by nia.
  assert ((x * P + bx) * R < y * P * R) by nia.
  assert (y * P * R <= (y * R + by_) * P) by nia.
  replace ((x * P + bx) * (R * b)) with ((x * P + bx) * R * b) by ring.
  replace ((y * R + by_) * (P * b)) with ((y * R + by_) * P * b) by ring.
  apply Z.mul_lt_mono_pos_r; lia.
Qed.

Lemma ucmp_be_spec xs : forall ys, words_ok xs = true -> words_ok ys = true ->
  ucmp_be xs ys = cmpZ (bev xs * B ^ zlen ys ?= bev ys * B ^ zlen xs).
Proof.
  induction xs as [|x xs IH]; intros ys Hx Hy.
  - cbn [ucmp_be bev]. change (zlen (@nil Z)) with 0. rewrite Z.pow_0_r, Z.mul_0_l, Z.mul_1_r.
    pose proof (bev_zero_iff ys Hy) as Hz. pose proof (bev_bounds ys Hy).
    destruct (forallb _ ys).
    + assert (bev ys = 0) as -> by (now apply Hz). reflexivity.
    + assert (bev ys <> 0) by (intros E; apply Hz in E; discriminate).
      destruct (Z.compare_spec 0 (bev ys)); cbn; lia.
  - apply words_ok_cons in Hx as [Hx Hxs].
    pose proof (bev_bounds xs Hxs) as Bx. pose proof (Bpow_pos (length xs)) as Px.
    fold (zlen xs) in Px.
    destruct ys as [|y ys]; cbn [ucmp_be].
    + cbn [bev]. change (zlen (@nil Z)) with 0. rewrite Z.pow_0_r, Z.mul_0_l, Z.mul_1_r.
      destruct (Z.eqb_spec x 0) as [->|Hn].
      * rewrite (IH [] Hxs eq_refl). cbn [bev]. change (zlen (@nil Z)) with 0.
        f_equal. f_equal; lia.
      * destruct (Z.compare_spec (x * B ^ zlen xs + bev xs) 0); cbn; nia.
    + apply words_ok_cons in Hy as [Hy Hys].
      pose proof (bev_bounds ys Hys) as By. pose proof (Bpow_pos (length ys)) as Py.
      fold (zlen ys) in Py. cbn [bev]. rewrite !zlen_cons.
      rewrite !Z.pow_add_r, !Z.pow_1_r by (pose proof (zlen_nonneg xs); pose proof (zlen_nonneg ys); lia).
      set (P := B ^ zlen xs) in *. set (R := B ^ zlen ys) in *. pose proof B_pos.
      destruct (Z.ltb_spec x y).
      * assert ((x * P + bev xs) * (R * B) < (y * R + bev ys) * (P * B)) by (apply lex_lt; lia).
        destruct (Z.compare_spec ((x * P + bev xs) * (R * B)) ((y * R + bev ys) * (P * B))); cbn; lia.
      * destruct (Z.ltb_spec y x).
        -- assert ((y * R + bev ys) * (P * B) < (x * P + bev xs) * (R * B)) by (apply lex_lt; lia).
           destruct (Z.compare_spec ((x * P + bev xs) * (R * B)) ((y * R + bev ys) * (P * B))); cbn; lia.
        -- assert (x = y) as -> by lia. rewrite (IH ys Hxs Hys). fold P R.
           f_equal.
           replace ((y * P + bev xs) * (R * B)) with (y * P * R * B + (bev xs * R) * B) by ring.
           replace ((y * R + bev ys) * (P * B)) with (y * P * R * B + (bev ys * P) * B) by ring.
           rewrite Z.add_compare_mono_l.
           rewrite <- Zmult_compare_compat_r by lia. reflexivity.
Qed.

(* ---- well-formed finite values ---- *)
Lemma Bpow_10 k : 0 <= k -> B ^ k = 10 ^ (DW * k).
Proof. intros H. rewrite B_eq, DW_eq, <- Z.pow_mul_r by lia. reflexivity. Qed.

Record WFfin (d : Dec) : Prop := {
  wf_ne : mant d <> [];
  wf_ok : words_ok (mant d) = true;
  wf_top : B / 10 <= last_word (mant d);
  wf_prec : 1 <= prec d <= MaxPrec;
  wf_exp : MinExp <= exp d <= MaxExp;
  wf_tail : mdigits (mant d) <= prec d \/
            val (mant d) mod 10 ^ (mdigits (mant d) - prec d) = 0
}.

Lemma WF_finite d : WF d -> dform d = Ffinite -> WFfin d.
Proof.
  unfold WF, wf_b. intros H Hf. rewrite Hf in H.
  rewrite !andb_true_iff in H.
  destruct H as [[Ha Hb] [[[[[[Hn Hok] Htop] Hp1] He1] He2] Htail]].
  apply Z.leb_le in Ha, Hb, Htop, Hp1, He1, He2.
  constructor; try lia; try assumption.
  - destruct (mant d); [discriminate|congruence].
  - destruct (Z.leb_spec (mdigits (mant d)) (prec d)); [now left|right; now apply Z.eqb_eq].
Qed.

(* the mantissa integer of a normalised value has exactly 19*len digits *)
Lemma WFfin_val_bounds d : WFfin d ->
  10 ^ (mdigits (mant d) - 1) <= val (mant d) < 10 ^ mdigits (mant d).
Proof.
  intros [Hne Hok Htop _ _ _].
  pose proof (val_ge_last (mant d) Hok Hne) as [Hlo _].
  pose proof (val_bounds (mant d) Hok) as [_ Hhi].
  unfold mdigits. pose proof (zlen_nonneg (mant d)).
  assert (Hl : 1 <= zlen (mant d)).
  { destruct (mant d); [congruence|rewrite zlen_cons; pose proof (zlen_nonneg l); lia]. }
  rewrite Bpow_10 in Hhi by lia. split; [|exact Hhi].
  unfold last_word in Htop.
  rewrite Bpow_10 in Hlo by lia.
  replace (DW * zlen (mant d) - 1) with (18 + DW * (zlen (mant d) - 1)) by (cbv [DW]; lia).
  rewrite Z.pow_add_r by (cbv [DW]; lia).
  assert (B / 10 = 10 ^ 18) by (rewrite B_eq; reflexivity).
  assert (0 < 10 ^ (DW * (zlen (mant d) - 1))) by (apply pow10_pos; cbv [DW]; lia).
  nia.
Qed.

Lemma mag_pos d : WFfin d -> (0 < mag d)%Q.
Proof.
  intros H. unfold mag. apply scaled_pos.
  pose proof (WFfin_val_bounds d H) as [Hlo _].
  assert (0 < 10 ^ (mdigits (mant d) - 1)); [|lia].
  apply pow10_pos. unfold mdigits.
  destruct H as [Hne _ _ _ _ _]. destruct (mant d); [congruence|].
  rewrite zlen_cons; cbv [DW]. pose proof (zlen_nonneg l). lia.
Qed.

(* 10^(exp-1) <= mag < 10^exp *)
Lemma mag_bounds d : WFfin d -> (scaled 1 (exp d - 1) <= mag d < scaled 1 (exp d))%Q.
Proof.
  intros H. pose proof (WFfin_val_bounds d H) as [Hlo Hhi].
  assert (Hd : 1 <= mdigits (mant d)).
  { unfold mdigits. destruct H as [Hne _ _ _ _ _]. destruct (mant d); [congruence|].
    rewrite zlen_cons; cbv [DW]. pose proof (zlen_nonneg l). lia. }
  unfold mag. set (D := mdigits (mant d)) in *. split.
  - apply (scaled_le_gen _ _ _ _ (exp d - D)); try lia.
    replace (exp d - 1 - (exp d - D)) with (D - 1) by lia.
    rewrite Z.sub_diag, Z.pow_0_r. lia.
  - apply (scaled_lt_gen _ _ _ _ (exp d - D)); try lia.
    replace (exp d - (exp d - D)) with D by lia.
    rewrite Z.sub_diag, Z.pow_0_r. lia.
Qed.

Lemma scaled1_le a b : a <= b -> (scaled 1 a <= scaled 1 b)%Q.
Proof.
  intros H. apply (scaled_le_gen _ _ _ _ a); try lia.
  rewrite Z.sub_diag, Z.pow_0_r. assert (0 < 10 ^ (b - a)) by (apply pow10_pos; lia). lia.
Qed.

Lemma ucmp_spec x y : WFfin x -> WFfin y ->
  ucmp x y = cmpZ (mag x ?= mag y)%Q.
Proof.
  intros Hx Hy. unfold ucmp.
  pose proof (mag_bounds x Hx) as [Lx Ux]. pose proof (mag_bounds y Hy) as [Ly Uy].
  destruct (Z.ltb_spec (exp x) (exp y)) as [Hlt|Hge].
  - assert (mag x < mag y)%Q as Hc.
    { eapply Qlt_le_trans; [exact Ux|]. eapply Qle_trans; [|exact Ly]. apply scaled1_le. lia. }
    rewrite (Qlt_cmp _ _ Hc). reflexivity.
  - destruct (Z.ltb_spec (exp y) (exp x)) as [Hgt|Hle].
    + assert (mag y < mag x)%Q as Hc.
      { eapply Qlt_le_trans; [exact Uy|]. eapply Qle_trans; [|exact Lx]. apply scaled1_le. lia. }
      rewrite (Qgt_cmp _ _ Hc). reflexivity.
    + assert (He : exp x = exp y) by lia.
      destruct Hx as [_ Okx _ _ _ _], Hy as [_ Oky _ _ _ _].
      rewrite ucmp_be_spec by (now apply words_ok_rev).
      rewrite !bev_rev, !zlen_rev. f_equal. unfold mag, mdigits. rewrite He.
      pose proof (zlen_nonneg (mant x)). pose proof (zlen_nonneg (mant y)).
      rewrite (scaled_compare_gen _ _ _ _ (exp y - DW * zlen (mant x) - DW * zlen (mant y))) by (cbv [DW]; lia).
      rewrite !Bpow_10 by lia. f_equal; f_equal; f_equal; lia.
Qed.

(* ---- Cmp ---- *)
Theorem Cmp_correct x y : WF x -> WF y -> Cmp x y = xcmp (value x) (value y).
Proof.
  intros Wx Wy. unfold Cmp, ord, value.
  destruct (dform x) eqn:Fx, (dform y) eqn:Fy;
    try (pose proof (WF_finite x Wx Fx) as Hx; pose proof (mag_pos x Hx) as Px);
    try (pose proof (WF_finite y Wy Fy) as Hy; pose proof (mag_pos y Hy) as Py);
    destruct (neg x), (neg y); cbn [xcmp Z.ltb Z.eqb Z.compare Pos.compare Pos.compare_cont Pos.eqb Qsgn_cmp];
    try reflexivity.
  all: unfold Qsgn_cmp.
  (* zero vs finite *)
  all: try match goal with
  | |- _ = match (0 ?= - ?m)%Q with _ => _ end =>
      assert (- m < 0)%Q as Hc by (apply Qopp_lt_compat in Py || apply Qopp_lt_compat in Px; assumption);
      rewrite (Qgt_cmp _ _ Hc); reflexivity
  | |- _ = match (0 ?= ?m)%Q with _ => _ end =>
      match goal with H : (0 < m)%Q |- _ => rewrite (Qlt_cmp _ _ H); reflexivity end
  | |- _ = match (- ?m ?= 0)%Q with _ => _ end =>
      assert (- m < 0)%Q as Hc by (apply Qopp_lt_compat in Py || apply Qopp_lt_compat in Px; assumption);
      rewrite (Qlt_cmp _ _ Hc); reflexivity
  | |- _ = match (?m ?= 0)%Q with _ => _ end =>
      match goal with H : (0 < m)%Q |- _ => rewrite (Qgt_cmp _ _ H); reflexivity end
  end.
  - (* both negative finite *)
    rewrite ucmp_spec by assumption. rewrite Qcompare_opp. reflexivity.
  - (* neg, pos *)
    assert (- mag x < mag y)%Q as Hc.
    { apply Qlt_trans with 0%Q; [|assumption]. apply Qopp_lt_compat in Px. exact Px. }
    rewrite (Qlt_cmp _ _ Hc). reflexivity.
  - assert (- mag y < mag x)%Q as Hc.
    { apply Qlt_trans with 0%Q; [|assumption]. apply Qopp_lt_compat in Py. exact Py. }
    rewrite (Qgt_cmp _ _ Hc). reflexivity.
  - rewrite ucmp_spec by assumption. reflexivity.
Qed.

(* ---- order properties of xcmp, transferred to Cmp ---- *)
Lemma cmpZ_opp c : cmpZ (CompOpp c) = - cmpZ c.
Proof. destruct c; reflexivity. Qed.

Lemma xcmp_antisym a b : xcmp b a = - xcmp a b.
Proof.
  destruct a, b; cbn [xcmp]; try reflexivity.
  unfold Qsgn_cmp. rewrite <- (Qcompare_antisym q q0). destruct (q ?= q0)%Q; reflexivity.
Qed.

Lemma xcmp_range a b : xcmp a b = -1 \/ xcmp a b = 0 \/ xcmp a b = 1.
Proof. destruct a, b; cbn [xcmp]; unfold Qsgn_cmp; try destruct (_ ?= _)%Q; auto. Qed.

Lemma Qsgn_cmp_le a b : Qsgn_cmp a b <= 0 <-> (a <= b)%Q.
Proof.
  unfold Qsgn_cmp. rewrite Qle_alt. destruct (a ?= b)%Q; split; intros; try congruence; lia.
Qed.

Lemma xcmp_trans a b c : xcmp a b <= 0 -> xcmp b c <= 0 -> xcmp a c <= 0.
Proof.
  destruct a, b, c; cbn [xcmp]; try lia.
  rewrite !Qsgn_cmp_le. apply Qle_trans.
Qed.

Lemma xcmp_refl a : xcmp a a = 0.
Proof. destruct a; cbn [xcmp]; try reflexivity. unfold Qsgn_cmp. now rewrite (Qeq_cmp q q). Qed.

(* equality of xcmp = 0 is an equivalence compatible with the order *)
Lemma xcmp_eq_trans a b c : xcmp a b = 0 -> xcmp b c = 0 -> xcmp a c = 0.
Proof.
  intros H1 H2.
  assert (xcmp a c <= 0) by (apply (xcmp_trans a b c); lia).
  assert (xcmp c a <= 0).
  { apply (xcmp_trans c b a); rewrite xcmp_antisym; lia. }
  rewrite (xcmp_antisym a c) in H0. lia.
Qed.

Theorem Cmp_antisym x y : WF x -> WF y -> Cmp y x = - Cmp x y.
Proof. intros. rewrite !Cmp_correct by assumption. apply xcmp_antisym. Qed.

Theorem Cmp_range x y : Cmp x y = -1 \/ Cmp x y = 0 \/ Cmp x y = 1.
Proof.
  unfold Cmp, ucmp.
  assert (R : forall xs ys, ucmp_be xs ys = -1 \/ ucmp_be xs ys = 0 \/ ucmp_be xs ys = 1).
  { induction xs as [|a xs IH]; intros ys; cbn [ucmp_be].
    - destruct (forallb _ ys); auto.
    - destruct ys as [|b ys]; [destruct (a =? 0); auto|].
      destruct (a <? b); auto. destruct (b <? a); auto. }
  repeat match goal with |- context [if ?b then _ else _] => destruct b end; auto.
Qed.

Theorem Cmp_trans x y z : WF x -> WF y -> WF z ->
  Cmp x y <= 0 -> Cmp y z <= 0 -> Cmp x z <= 0.
Proof. intros ? ? ?. rewrite !Cmp_correct by assumption. apply xcmp_trans. Qed.

Theorem Cmp_lt_trans x y z : WF x -> WF y -> WF z ->
  Cmp x y = -1 -> Cmp y z = -1 -> Cmp x z = -1.
Proof.
  intros Wx Wy Wz. rewrite !Cmp_correct by assumption. intros H1 H2.
  pose proof (xcmp_trans _ _ _ ltac:(rewrite H1; lia) ltac:(rewrite H2; lia) : xcmp (value x) (value z) <= 0).
  destruct (xcmp_range (value x) (value z)) as [E|[E|E]]; [exact E| |lia].
  exfalso.
  (* x = z would give z <= y, contradiction with y < z *)
  assert (xcmp (value z) (value y) <= 0).
  { apply (xcmp_trans _ (value x) _); [rewrite xcmp_antisym; lia | lia]. }
  rewrite (xcmp_antisym (value y) (value z)) in H0. lia.
Qed.

(* the sign predicates agree with Cmp against zero and the infinities *)
Definition dzero : Dec := dec_zero.
Definition dinf (n : bool) : Dec := mkDec [] 0 0 ToNearestEven Exact Finf n.

Theorem Sign_Cmp x : WF x -> Sign x = Cmp x dzero.
Proof.
  intros Wx. rewrite Cmp_correct by (assumption || reflexivity).
  unfold Sign, value. cbn [dzero dec_zero dform].
  destruct (dform x) eqn:Fx.
  - cbn. reflexivity.
  - pose proof (mag_pos x (WF_finite x Wx Fx)) as P. destruct (neg x); cbn [xcmp]; unfold Qsgn_cmp.
    + assert (- mag x < 0)%Q as Hc by (apply Qopp_lt_compat in P; exact P).
      rewrite (Qlt_cmp _ _ Hc). reflexivity.
    + rewrite (Qgt_cmp _ _ P). reflexivity.
  - destruct (neg x); reflexivity.
Qed.

Theorem IsZero_Cmp x : WF x -> (IsZero x = true <-> Cmp x dzero = 0).
Proof.
  intros Wx. rewrite <- Sign_Cmp by assumption. unfold IsZero, Sign.
  destruct (dform x); cbn; destruct (neg x); split; intros; try reflexivity; try discriminate; lia.
Qed.

Theorem IsInf_Cmp x : WF x ->
  (IsInf x = true <-> Cmp x (dinf false) = 0 \/ Cmp x (dinf true) = 0).
Proof.
  intros Wx. rewrite !Cmp_correct by (assumption || reflexivity).
  unfold IsInf, value. cbn [dinf dform neg].
  destruct (dform x); cbn [form_eqb xcmp]; destruct (neg x); cbn [xcmp];
    split; intros H; try reflexivity; try discriminate; try (destruct H; discriminate); auto.
Qed.

Theorem Signbit_spec x : WF x ->
  (Signbit x = true -> Cmp x dzero <= 0) /\ (Signbit x = false -> 0 <= Cmp x dzero).
Proof.
  intros Wx. rewrite <- Sign_Cmp by assumption. unfold Signbit, Sign.
  destruct (dform x), (neg x); split; intros; try discriminate; lia.
Qed.

(* Cmp depends only on the values: attributes and mantissa length are irrelevant *)
Definition xeq (a b : xval) : Prop := xcmp a b = 0.
Theorem Cmp_value_only x x' y y' : WF x -> WF x' -> WF y -> WF y' ->
  xeq (value x) (value x') -> xeq (value y) (value y') -> Cmp x y = Cmp x' y'.
Proof.
  intros Wx Wx' Wy Wy' Ex Ey. rewrite !Cmp_correct by assumption. unfold xeq in *.
  set (a := value x) in *; set (a' := value x') in *; set (b := value y) in *; set (b' := value y') in *.
  assert (L : forall p q r, xcmp p q = 0 -> xcmp p r = xcmp q r).
  { intros p q r E.
    destruct (xcmp_range p r) as [H|[H|H]], (xcmp_range q r) as [H'|[H'|H']]; try lia; exfalso.
    - (* p<r, q=r : then p=q=r gives p=r *) pose proof (xcmp_eq_trans p q r E H'). lia.
    - (* p<r, q>r *) assert (xcmp q r <= 0) by (apply (xcmp_trans q p r); [rewrite xcmp_antisym|]; lia). lia.
    - assert (xcmp q p = 0) by (rewrite xcmp_antisym; lia). pose proof (xcmp_eq_trans q p r H0 H). lia.
    - assert (xcmp q p = 0) by (rewrite xcmp_antisym; lia).
      assert (xcmp r p = 0) by (rewrite xcmp_antisym; lia).
      assert (xcmp r q = 0) by (apply (xcmp_eq_trans r p q); [assumption|assumption]).
      rewrite xcmp_antisym in H2. lia.
    - assert (xcmp p r <= 0) by (apply (xcmp_trans p q r); lia). lia.
    - assert (xcmp p r = 0) by (apply (xcmp_eq_trans p q r); assumption). lia. }
  rewrite (L a a' b Ex).
  rewrite (xcmp_antisym b a'), (xcmp_antisym b' a'). f_equal. apply L. exact Ey.
Qed.
