(* L3/SpecialProofs2.v — C04 continued: Sub never panics with anything but
   ErrNaN; the special-value table of FMA and its invalid operations. *)
From Coq Require Import ZArith List Bool Lia QArith Qabs Lqa.
From Dec Require Import Base.Words Base.WordsProofs Base.QPow L3.Decimal L3.Cmp L3.CmpProofs
  L3.Round L3.Arith Spec.Rounding Spec.RoundingFacts L3.RoundProofs L3.ArithProofs
  L3.SpecialProofs L3.FmaProofs.
Open Scope Z_scope.

(* ---- (+-0) - y for finite y: -y rounded once, the sign set before rounding ---- *)
Theorem SubNeg_correct same z y :
  WF y -> dform y = Ffinite -> mdigits (mant y) < 4294967296 - 18 ->
  1 <= prec z <= MaxPrec -> (same = true -> z = y) ->
  OpPost (prec z) (dmode z) (negb (neg y)) (mag y) (SubNeg same z y).
Proof.
  intros Wy Fy Ly Pz Hsame. pose proof (WF_finite y Wy Fy) as Hy.
  set (y' := with_neg y (negb (neg y))).
  assert (Hy' : WFfin y') by (apply WF_finite; [apply WF_with_neg; exact Wy|exact Fy]).
  pose proof Hy as [Hne Hok Htop Hprec Hexp Htail].
  unfold SubNeg. destruct same.
  - rewrite (Hsame eq_refl) in *. cbn [prec with_neg with_acc].
    destruct (Z.ltb_spec (prec y) (prec y)); [lia|].
    eexists. split; [reflexivity|]. split; [|split; [reflexivity|split; [reflexivity|]]].
    + apply (exact_result_spec (prec y) (dmode y) y'); try assumption; try reflexivity; try (cbn [y' prec with_neg]; lia).
    + simp_with. rewrite Fy. exact (WF_reprec y' (prec y) (dmode y) Exact Hy' ltac:(cbn [y' prec with_neg]; lia)).
  - rewrite Fy. cbn [prec with_mant with_exp with_neg with_form with_acc].
    set (z1 := with_neg (with_mant (with_exp (with_form (with_acc z Exact) Ffinite) (exp y)) (mant y)) (negb (neg y))).
    destruct (Z.ltb_spec (prec z) (prec y)) as [Hlt|Hge].
    + change (prec z) with (prec z1). change (dmode z) with (dmode z1). change (negb (neg y)) with (neg z1).
      apply of_opt_post. apply (round_correct z1 false (mag y)).
      * constructor; cbn [z1 dform mant prec exp with_mant with_exp with_neg with_form with_acc]; try assumption; try reflexivity; lia.
      * apply Qle_refl.
      * unfold mag. cbn [z1 mant exp with_mant with_exp with_neg with_form with_acc]. apply scaled_lt_same. lia.
      * reflexivity.
      * discriminate.
    + eexists. split; [reflexivity|]. split; [|split; [reflexivity|split; [reflexivity|]]].
      * apply (exact_result_spec (prec z) (dmode z) y'); try assumption; try reflexivity; try (cbn [y' prec with_neg]; lia).
      * unfold z1. simp_with. exact (WF_reprec y' (prec z) (dmode z) Exact Hy' ltac:(cbn [y' prec with_neg]; lia)).
Qed.

Theorem Sub_no_crash zx zy z x y :
  WF x -> WF y -> 0 <= prec z <= MaxPrec -> (zx = true -> z = x) -> (zy = true -> z = y) ->
  add_span x y + 40 < 4294967296 - 18 -> Sub zx zy z x y <> CrashR.
Proof.
  intros Wx Wy Pz Hzx Hzy Hsp.
  pose proof (Sub_special zx zy z x y Wx Wy Pz Hzx Hzy) as HS. unfold sub_table in HS.
  pose proof (mdigits_le_span_x x y). pose proof (mdigits_le_span_y x y).
  destruct (dform x) eqn:Fx, (dform y) eqn:Fy; cbn [SpecialPost] in HS;
    try (destruct HS as (z' & E & _); rewrite E; discriminate).
  - (* 0 - finite y *)
    unfold Sub. rewrite Fx, Fy.
    set (z0 := if prec z =? 0 then with_prec z (umax32 (prec x) (prec y)) else z).
    pose proof (WF_finite y Wy Fy) as [_ _ _ Hp _ _].
    assert (Pz0 : 1 <= prec z0 <= MaxPrec).
    { pose proof (WF_prec x Wx). unfold z0. destruct (Z.eqb_spec (prec z) 0); cbn [prec with_prec]; [rewrite umax32_spec|]; lia. }
    assert (Hal : zy = true -> z0 = y).
    { intros E. specialize (Hzy E). subst z. unfold z0. destruct (Z.eqb_spec (prec y) 0); [lia|reflexivity]. }
    destruct (SubNeg_correct zy z0 y Wy Fy ltac:(lia) Pz0 Hal) as (z' & E & _). rewrite E. discriminate.
  - (* finite x - 0 *)
    unfold Sub. rewrite Fx, Fy.
    set (z0 := if prec z =? 0 then with_prec z (umax32 (prec x) (prec y)) else z).
    assert (Pz0 : 0 <= prec z0 <= MaxPrec).
    { pose proof (WF_prec x Wx). pose proof (WF_prec y Wy). unfold z0. destruct (prec z =? 0); cbn [prec with_prec]; [rewrite umax32_spec|]; lia. }
    assert (Hal : zx = true -> z0 = x).
    { intros E. specialize (Hzx E). subst z. pose proof (WF_finite x Wx Fx) as [_ _ _ Hp _ _].
      unfold z0. destruct (Z.eqb_spec (prec x) 0); [lia|reflexivity]. }
    destruct (Set_correct zx z0 x Wx Fx ltac:(lia) Pz0 Hal) as (z' & E & _). rewrite E. discriminate.
  - destruct (Sub_correct zx zy z x y Wx Wy Fx Fy Pz Hsp) as (z' & E & _). rewrite E. discriminate.
  - destruct (Bool.eqb (neg x) (neg y)); cbn [SpecialPost] in HS; destruct HS as (z' & E & _); rewrite E; discriminate.
Qed.

(* ---- Add_special under the weaker alias condition used by FMA (the receiver
   only has to agree with the aliased operand in form and sign) ---- *)
Theorem Add_special_gen zx zy z x y :
  WF x -> WF y -> 0 <= prec z <= MaxPrec ->
  (zx = true -> dform z = dform x /\ neg z = neg x) -> (zy = true -> dform z = dform y /\ neg z = neg y) ->
  SpecialPost z (eff_prec z x y) (add_table (dmode z) x y) (Add zx zy z x y).
Proof.
  intros Wx Wy Pz Hzx Hzy. pose proof (WF_prec x Wx) as Px. pose proof (WF_prec y Wy) as Py.
  pose proof (eff_prec_range z x y Pz Px Py) as Pe.
  unfold Add, add_table. fold (eff_prec z x y).
  set (z0 := if prec z =? 0 then with_prec z (umax32 (prec x) (prec y)) else z).
  assert (Hp0 : prec z0 = eff_prec z x y) by (unfold z0, eff_prec; destruct (prec z =? 0); reflexivity).
  assert (Hm0 : dmode z0 = dmode z) by (unfold z0; destruct (prec z =? 0); reflexivity).
  assert (Hx0 : zx = true -> dform z0 = dform x /\ neg z0 = neg x).
  { intros E. destruct (Hzx E) as [A1 A2]. unfold z0. destruct (prec z =? 0); split; assumption. }
  assert (Hy0 : zy = true -> dform z0 = dform y /\ neg z0 = neg y).
  { intros E. destruct (Hzy E) as [A1 A2]. unfold z0. destruct (prec z =? 0); split; assumption. }
  assert (Ex : (if zx then prec z0 else if prec z0 =? 0 then prec x else prec z0) = eff_prec z x y).
  { destruct zx; [exact Hp0|]. rewrite Hp0. unfold eff_prec. rewrite umax32_spec. destruct (Z.eqb_spec (prec z) 0).
    - destruct (Z.eqb_spec (Z.max (prec x) (prec y)) 0); lia.
    - destruct (Z.eqb_spec (prec z) 0); lia. }
  assert (Ey : (if zy then prec z0 else if prec z0 =? 0 then prec y else prec z0) = eff_prec z x y).
  { destruct zy; [exact Hp0|]. rewrite Hp0. unfold eff_prec. rewrite umax32_spec. destruct (Z.eqb_spec (prec z) 0).
    - destruct (Z.eqb_spec (Z.max (prec x) (prec y)) 0); lia.
    - destruct (Z.eqb_spec (prec z) 0); lia. }
  assert (HSx : dform x <> Ffinite -> exists z', Set_ zx z0 x = OkR z' /\ dform z' = dform x /\ neg z' = neg x /\
             acc z' = Exact /\ WF z' /\ prec z' = eff_prec z x y /\ dmode z' = dmode z).
  { intros Hnf. pose proof (Set_nonfinite zx z0 x Hnf ltac:(lia) Px Hx0) as H. rewrite Ex, Hm0 in H. exact H. }
  assert (HSy : dform y <> Ffinite -> exists z', Set_ zy z0 y = OkR z' /\ dform z' = dform y /\ neg z' = neg y /\
             acc z' = Exact /\ WF z' /\ prec z' = eff_prec z x y /\ dmode z' = dmode z).
  { intros Hnf. pose proof (Set_nonfinite zy z0 y Hnf ltac:(lia) Py Hy0) as H. rewrite Ey, Hm0 in H. exact H. }
  clear Hx0 Hy0 Ex Ey.
  destruct (dform x) eqn:Fx, (dform y) eqn:Fy; cbn [SpecialPost]; try exact I;
    try (match goal with
         | |- exists z', Set_ zx z0 x = _ /\ _ => apply HSx; discriminate
         | |- exists z', Set_ zy z0 y = _ /\ _ => apply HSy; discriminate
         end).
  - eexists. split; [reflexivity|]. simp_with. unfold zero_sum_sign. rewrite Hm0.
    destruct (neg x), (neg y); cbn [Bool.eqb negb andb]; repeat split; try reflexivity; try exact Hp0;
      try (apply WF_nonfinite; cbn [dform prec]; [discriminate|lia]);
      destruct (mode_eqb (dmode z) ToNegativeInf); reflexivity.
  - destruct (Bool.eqb (neg x) (neg y)) eqn:Es; cbn [negb SpecialPost].
    + apply HSx. discriminate.
    + eexists. split; [reflexivity|]. simp_with. split; [apply WF_nonfinite; cbn [dform prec]; [discriminate|lia]|].
      split; [exact Hp0|exact Hm0].
Qed.

(* ---- the special-value table of FMA ---- *)
(* x*y per mul_table, then (x*y) + u per add_table.  SCopyY = the finite addend
   u, rounded as by Set (FMA_zero_product); x and y finite: an infinite addend
   is the result (the product is not even computed), otherwise SFinite
   (FMA_correct, FMA_zero_addend). *)
Definition fma_table (md : mode) (x y u : Dec) : sres :=
  let s := xorb (neg x) (neg y) in
  match mul_table x y with
  | SNaN => SNaN
  | SVal Finf _ =>
      match dform u with
      | Finf => if Bool.eqb s (neg u) then SVal Finf s else SNaN
      | _ => SVal Finf s
      end
  | SVal _ _ =>
      match dform u with
      | Fzero => SVal Fzero (zero_sum_sign md s (neg u))
      | Finf => SVal Finf (neg u)
      | Ffinite => SCopyY
      end
  | _ => match dform u with Finf => SVal Finf (neg u) | _ => SFinite end
  end.

Lemma eff_prec3_range z x y u : 0 <= prec z <= MaxPrec -> 0 <= prec x <= MaxPrec -> 0 <= prec y <= MaxPrec ->
  0 <= prec u <= MaxPrec -> 0 <= eff_prec3 z x y u <= MaxPrec.
Proof. intros. unfold eff_prec3. rewrite !umax32_spec. destruct (prec z =? 0); lia. Qed.

Lemma SpecialPost_recv z z' p t r : dmode z' = dmode z -> SpecialPost z' p t r -> SpecialPost z p t r.
Proof. intros E. destruct t; cbn [SpecialPost]; try exact (fun H => H); rewrite E; exact (fun H => H). Qed.

(* the precision seen by an inner binary operation of FMA *)
Lemma eff_prec_inner z x y u r a b :
  0 <= prec x -> 0 <= prec y -> 0 <= prec u ->
  prec r = eff_prec3 z x y u -> 0 <= prec a -> 0 <= prec b ->
  (prec z = 0 -> prec a <= eff_prec3 z x y u /\ prec b <= eff_prec3 z x y u) ->
  eff_prec r a b = eff_prec3 z x y u.
Proof.
  intros Px Py Pu Hr Ha Hb Hle. unfold eff_prec. rewrite Hr, umax32_spec.
  destruct (Z.eqb_spec (eff_prec3 z x y u) 0) as [E|E]; [|reflexivity].
  assert (Ez : prec z = 0).
  { unfold eff_prec3 in E. destruct (Z.eqb_spec (prec z) 0); [assumption|contradiction]. }
  specialize (Hle Ez). lia.
Qed.

Lemma eff_prec3_ge z x y u : 0 <= prec x -> 0 <= prec y -> 0 <= prec u -> prec z = 0 ->
  prec x <= eff_prec3 z x y u /\ prec y <= eff_prec3 z x y u /\ prec u <= eff_prec3 z x y u.
Proof. intros Px Py Pu E. unfold eff_prec3. rewrite E, !umax32_spec. cbn [Z.eqb]. lia. Qed.

Section FmaSpecial.
  Variables (zu : bool) (z x y u : Dec).
  Hypothesis (Wx : WF x) (Wy : WF y) (Wu : WF u) (Pz : 0 <= prec z <= MaxPrec).

  Let z1 := if prec z =? 0 then with_prec z (umax32 (umax32 (prec x) (prec y)) (prec u)) else z.
  Let s := xorb (neg x) (neg y).
  Let z0 := with_neg (if zu then mkDec [] 0 (prec z1) (dmode z1) Exact Fzero false else z1) s.
  Let E3 := eff_prec3 z x y u.

  Local Lemma fs_Px : 0 <= prec x <= MaxPrec. Proof. exact (WF_prec x Wx). Qed.
  Local Lemma fs_Py : 0 <= prec y <= MaxPrec. Proof. exact (WF_prec y Wy). Qed.
  Local Lemma fs_Pu : 0 <= prec u <= MaxPrec. Proof. exact (WF_prec u Wu). Qed.
  Local Lemma fs_Pe : 0 <= E3 <= MaxPrec.
  Proof. apply eff_prec3_range; [exact Pz|exact fs_Px|exact fs_Py|exact fs_Pu]. Qed.
  Local Lemma fs_p1 : prec z1 = E3.
  Proof. unfold z1, E3, eff_prec3. destruct (prec z =? 0); reflexivity. Qed.
  Local Lemma fs_m1 : dmode z1 = dmode z.
  Proof. unfold z1. destruct (prec z =? 0); reflexivity. Qed.
  Local Lemma fs_f1 : (zu = true -> z = u) -> zu = true -> dform z1 = dform u /\ neg z1 = neg u.
  Proof. intros Hzu E. specialize (Hzu E). subst z. unfold z1. destruct (prec u =? 0); split; reflexivity. Qed.
  Local Lemma fs_p0 : prec z0 = E3.
  Proof. unfold z0. destruct zu; cbn [prec with_neg]; exact fs_p1. Qed.
  Local Lemma fs_m0 : dmode z0 = dmode z.
  Proof. unfold z0. destruct zu; cbn [dmode with_neg]; exact fs_m1. Qed.

  (* u = +-0: the product, with the sign rule for an exact zero sum *)
  Local Lemma fs_zero_addend : dform u = Fzero ->
    SpecialPost z E3 (fma_table (dmode z) x y u) (FMA zu z x y u).
  Proof.
    intros Fu. pose proof fs_Px as Px. pose proof fs_Py as Py. pose proof fs_Pu as Pu. pose proof fs_Pe as Pe.
    unfold FMA. fold z1. rewrite Fu.
    assert (Ee : eff_prec z1 x y = E3).
    { apply (eff_prec_inner z x y u); try lia; [exact fs_p1|].
      intros E. pose proof (eff_prec3_ge z x y u ltac:(lia) ltac:(lia) ltac:(lia) E). fold E3 in H. lia. }
    pose proof (Mul_special z1 x y Wx Wy ltac:(rewrite fs_p1; exact Pe)) as HM. rewrite Ee in HM.
    apply (SpecialPost_recv z z1 _ _ _ fs_m1) in HM.
    unfold fma_table. rewrite Fu. fold s.
    destruct (mul_table x y) as [|f ng| | | |] eqn:Et; cbn [SpecialPost] in HM |- *; try exact I.
    - destruct HM as (z' & E & R). rewrite E. exists z'. split; [reflexivity|exact R].
    - assert (Eng : ng = s).
      { unfold mul_table in Et. unfold s. destruct (dform x), (dform y); congruence. }
      destruct HM as (z' & E & Hf & Hn & Ha & W & Hp & Hm). rewrite E, Hf, Ha, Hn, Hm.
      destruct f; cbn [form_eqb acc_eqb andb SpecialPost].
      + rewrite <- Eng. unfold zero_sum_sign.
        destruct (Bool.eqb ng (neg u)); cbn [negb].
        * exists z'. repeat split; assumption.
        * eexists. split; [reflexivity|]. cbn [dform neg acc prec dmode with_neg].
          repeat split; try assumption; try (apply WF_with_neg; exact W).
      + exfalso. unfold mul_table in Et. destruct (dform x), (dform y); discriminate.
      + rewrite <- Eng. exists z'. repeat split; assumption.
  Qed.

  (* the invalid product, whatever u *)
  Local Lemma fs_nan_post : SpecialPost z E3 SNaN (NaNR (with_neg (with_form (with_acc z1 Exact) Fzero) false)).
  Proof.
    cbn [SpecialPost]. eexists. split; [reflexivity|]. pose proof fs_Pe.
    split; [apply WF_nonfinite; cbn [dform prec with_neg with_form with_acc]; [discriminate|rewrite fs_p1; assumption]|].
    split; [exact fs_p1|exact fs_m1].
  Qed.

  (* infinite product plus a non-zero addend *)
  Let zi := with_form (with_acc z0 Exact) Finf.
  Local Lemma fs_inf_product : (zu = true -> z = u) -> dform u <> Fzero ->
    SpecialPost z E3 (match dform u with Finf => if Bool.eqb s (neg u) then SVal Finf s else SNaN | _ => SVal Finf s end)
      (Add (negb zu) zu (if zu then z1 else zi) zi u).
  Proof.
    intros Hzu Fu. pose proof fs_Px as Px. pose proof fs_Py as Py. pose proof fs_Pu as Pu. pose proof fs_Pe as Pe.
    pose proof fs_p1 as P1. pose proof fs_m1 as M1. pose proof fs_p0 as P0. pose proof fs_m0 as M0.
    pose proof (fs_f1 Hzu) as F1.
    assert (Wi : WF zi).
    { apply WF_nonfinite; cbn [zi dform prec with_form with_acc]; [discriminate|rewrite P0; exact Pe]. }
    assert (Hpr : prec (if zu then z1 else zi) = E3).
    { destruct zu; [exact P1|]. cbn [zi prec with_form with_acc]. exact P0. }
    assert (Hmr : dmode (if zu then z1 else zi) = dmode z).
    { destruct zu; [exact M1|]. cbn [zi dmode with_form with_acc]. exact M0. }
    assert (Hal1 : negb zu = true -> dform (if zu then z1 else zi) = dform zi /\ neg (if zu then z1 else zi) = neg zi).
    { destruct zu; [discriminate|intros _; split; reflexivity]. }
    assert (Hal2 : zu = true -> dform (if zu then z1 else zi) = dform u /\ neg (if zu then z1 else zi) = neg u).
    { destruct zu; [exact F1|discriminate]. }
    pose proof (Add_special_gen (negb zu) zu (if zu then z1 else zi) zi u Wi Wu
                  ltac:(rewrite Hpr; exact Pe) Hal1 Hal2) as H.
    assert (Ee : eff_prec (if zu then z1 else zi) zi u = E3).
    { apply (eff_prec_inner z x y u _ _ _ ltac:(lia) ltac:(lia) ltac:(lia) Hpr);
        [cbn [zi prec with_form with_acc]; rewrite P0; lia|lia|].
      intros E. pose proof (eff_prec3_ge z x y u ltac:(lia) ltac:(lia) ltac:(lia) E) as H'. fold E3 in H'.
      cbn [zi prec with_form with_acc]. rewrite P0. lia. }
    rewrite Ee in H. apply (SpecialPost_recv z _ _ _ _ Hmr) in H. rewrite Hmr in H.
    unfold add_table in H. cbn [zi dform neg with_form with_acc] in H.
    assert (En : neg z0 = s) by (unfold z0; reflexivity). rewrite En in H.
    destruct (dform u); [congruence|exact H|exact H].
  Qed.

  Theorem FMA_special_sec : (zu = true -> z = u) -> SpecialPost z E3 (fma_table (dmode z) x y u) (FMA zu z x y u).
  Proof.
    intros Hzu. pose proof fs_Px as Px. pose proof fs_Py as Py. pose proof fs_Pu as Pu. pose proof fs_Pe as Pe.
    destruct (form_eqb (dform u) Fzero) eqn:Eu.
    { apply fs_zero_addend. destruct (dform u); [reflexivity|discriminate|discriminate]. }
    assert (Fu : dform u <> Fzero) by (intros E; rewrite E in Eu; discriminate).
    pose proof (fs_inf_product Hzu Fu) as HI.
    assert (EF : FMA zu z x y u =
      match dform x, dform y with
      | Ffinite, Ffinite =>
          if form_eqb (dform u) Finf then Set_ zu z1 u else
          match umul (with_prec z0 MaxPrec) x y with
          | None => CrashR
          | Some z0' => Add (negb zu) zu (if zu then z1 else with_prec z0' (prec z0)) (with_prec z0' (prec z0)) u
          end
      | Fzero, Finf | Finf, Fzero => NaNR (with_neg (with_form (with_acc z1 Exact) Fzero) false)
      | Finf, _ | _, Finf => Add (negb zu) zu (if zu then z1 else zi) zi u
      | _, _ => Set_ zu z1 u
      end).
    { unfold FMA. fold z1. destruct (dform u); [congruence| |]; reflexivity. }
    rewrite EF. unfold fma_table, mul_table. fold s.
    (* product zero, addend infinite *)
    assert (HZ : dform u = Finf -> SpecialPost z E3 (SVal Finf (neg u)) (Set_ zu z1 u)).
    { intros Fi. cbn [SpecialPost].
      destruct (Set_nonfinite zu z1 u ltac:(congruence) ltac:(rewrite fs_p1; exact Pe) Pu (fs_f1 Hzu))
        as (z' & E & Hf & Hn & Ha & W & Hp & Hm).
      exists z'. split; [exact E|]. split; [congruence|]. split; [exact Hn|]. split; [exact Ha|]. split; [exact W|].
      split; [|rewrite Hm; exact fs_m1].
      rewrite Hp, fs_p1. destruct zu; [reflexivity|].
      destruct (Z.eqb_spec E3 0) as [E0|E0]; [|reflexivity].
      assert (Ez : prec z = 0).
      { unfold E3, eff_prec3 in E0. destruct (Z.eqb_spec (prec z) 0); [assumption|contradiction]. }
      pose proof (eff_prec3_ge z x y u ltac:(lia) ltac:(lia) ltac:(lia) Ez) as H'. fold E3 in H'. lia. }
    destruct (dform x) eqn:Fx, (dform y) eqn:Fy; cbn [SpecialPost]; try exact I; try exact HI; try exact fs_nan_post;
      (destruct (dform u) eqn:Fu'; [congruence|exact I|exact (HZ eq_refl)]).
  Qed.
End FmaSpecial.

Theorem FMA_special zu z x y u :
  WF x -> WF y -> WF u -> 0 <= prec z <= MaxPrec -> (zu = true -> z = u) ->
  SpecialPost z (eff_prec3 z x y u) (fma_table (dmode z) x y u) (FMA zu z x y u).
Proof. exact (FMA_special_sec zu z x y u). Qed.

(* ---- rows of the table that are not exact zeros/infinities ---- *)
(* exact zero product plus a finite addend: u rounded once (as by Set) *)
Theorem FMA_zero_product zu z x y u :
  WF x -> WF y -> WF u -> dform u = Ffinite ->
  (dform x = Fzero /\ dform y <> Finf) \/ (dform y = Fzero /\ dform x <> Finf) ->
  mdigits (mant u) < 4294967296 - 18 -> 0 <= prec z <= MaxPrec -> (zu = true -> z = u) ->
  OpPost (eff_prec3 z x y u) (dmode z) (neg u) (mag u) (FMA zu z x y u).
Proof.
  intros Wx Wy Wu Fu Hxy Lu Pz Hzu.
  pose proof (WF_prec x Wx) as Px. pose proof (WF_prec y Wy) as Py. pose proof (WF_prec u Wu) as Pu.
  pose proof (WF_finite u Wu Fu) as [_ _ _ Hpu _ _].
  pose proof (eff_prec3_range z x y u Pz Px Py Pu) as Pe.
  set (z1 := if prec z =? 0 then with_prec z (umax32 (umax32 (prec x) (prec y)) (prec u)) else z).
  assert (Hp1 : prec z1 = eff_prec3 z x y u) by (unfold z1, eff_prec3; destruct (prec z =? 0); reflexivity).
  assert (Hm1 : dmode z1 = dmode z) by (unfold z1; destruct (prec z =? 0); reflexivity).
  assert (EF : FMA zu z x y u = Set_ zu z1 u).
  { unfold FMA. fold z1. rewrite Fu.
    destruct Hxy as [[Fx Fy]|[Fy Fx]]; rewrite ?Fx, ?Fy; destruct (dform x), (dform y); try congruence; reflexivity. }
  rewrite EF.
  assert (Hal : zu = true -> z1 = u).
  { intros E. specialize (Hzu E). subst z. unfold z1. destruct (Z.eqb_spec (prec u) 0); [lia|reflexivity]. }
  pose proof (Set_correct zu z1 u Wu Fu Lu ltac:(rewrite Hp1; exact Pe) Hal) as H. cbv zeta in H.
  rewrite Hp1, Hm1 in H.
  assert (E0 : (eff_prec3 z x y u =? 0) = false).
  { apply Z.eqb_neq. unfold eff_prec3. rewrite !umax32_spec. destruct (Z.eqb_spec (prec z) 0); lia. }
  rewrite E0 in H. exact H.
Qed.

(* finite x, y and an infinite addend: the addend, whatever the size of the product
   (the row of fma_table, stated on its own) *)
Theorem FMA_finite_inf zu z x y u :
  WF x -> WF y -> WF u -> dform x = Ffinite -> dform y = Ffinite -> dform u = Finf ->
  0 <= prec z <= MaxPrec -> (zu = true -> z = u) ->
  SpecialPost z (eff_prec3 z x y u) (SVal Finf (neg u)) (FMA zu z x y u).
Proof.
  intros Wx Wy Wu Fx Fy Fu Pz Hzu.
  pose proof (FMA_special zu z x y u Wx Wy Wu Pz Hzu) as H.
  unfold fma_table, mul_table in H. rewrite Fx, Fy, Fu in H. exact H.
Qed.

(* ---- exactly the invalid operations raise ErrNaN (for ALL operands) ---- *)
Definition fma_invalid (x y u : Dec) : Prop :=
  (dform x = Fzero /\ dform y = Finf) \/ (dform x = Finf /\ dform y = Fzero) \/
  ((dform x = Finf \/ dform y = Finf) /\ dform u = Finf /\ xorb (neg x) (neg y) <> neg u).

Theorem FMA_nan_iff zu z x y u :
  (exists z', FMA zu z x y u = NaNR z') <-> fma_invalid x y u.
Proof.
  unfold fma_invalid, FMA.
  set (z1 := if prec z =? 0 then with_prec z (umax32 (umax32 (prec x) (prec y)) (prec u)) else z).
  destruct (dform u) eqn:Fu.
  - (* zero addend: the invalid products *)
    pose proof (Mul_nan_iff z1 x y) as HM.
    destruct (Mul z1 x y) as [zm|zm|] eqn:EM.
    + split.
      * intros [z' E]. discriminate.
      * intros H. exfalso. assert (exists z', OkR zm = NaNR z') as [z' E]; [apply HM; intuition congruence|discriminate].
    + split; [intros _|intros _; eexists; reflexivity].
      destruct (proj1 HM (ex_intro _ zm eq_refl)) as [H|H]; [left; exact H|right; left; exact H].
    + split.
      * intros [z' E]. discriminate.
      * intros H. exfalso. assert (exists z', CrashR = NaNR z') as [z' E]; [apply HM; intuition congruence|discriminate].
  - (* finite addend: only the invalid products *)
    destruct (dform x) eqn:Fx, (dform y) eqn:Fy; cbv zeta; cbn [form_eqb];
      try (split; [intros [z' E]; exfalso; revert E; apply Set_not_nan|intros H; exfalso; intuition congruence]);
      try (split; [intros _; intuition congruence|intros _; eexists; reflexivity]);
      try (etransitivity; [apply Add_nan_iff|]; rewrite Fu; intuition congruence).
    destruct (umul _ x y) as [zP|]; [|split; [intros [z' E]; discriminate|intros H; exfalso; intuition congruence]].
    etransitivity; [apply Add_nan_iff|]. rewrite Fu; intuition congruence.
  - (* infinite addend *)
    destruct (dform x) eqn:Fx, (dform y) eqn:Fy; cbv zeta; cbn [form_eqb];
      try (split; [intros [z' E]; exfalso; revert E; apply Set_not_nan|intros H; exfalso; intuition congruence]);
      try (split; [intros _; intuition congruence|intros _; eexists; reflexivity]);
      try (etransitivity; [apply Add_nan_iff|]; rewrite Fu;
           cbn [dform neg with_form with_acc with_neg]; intuition congruence).
Qed.

(* ---- no panic other than ErrNaN ---- *)
(* For finite x, y, u the preconditions are those of FMA_correct: the exact product within
   the exponent range (outside it: known finding K3) and the digit span of the final
   addition within the uint32 arithmetic. *)
Theorem FMA_no_crash zu z x y u :
  WF x -> WF y -> WF u -> 0 <= prec z <= MaxPrec -> (zu = true -> z = u) ->
  (dform u = Ffinite -> mdigits (mant u) < 4294967296 - 18) ->
  (dform x = Ffinite -> dform y = Ffinite -> mdigits (mant x) + mdigits (mant y) < 4294967296 - 18) ->
  (dform x = Ffinite -> dform y = Ffinite -> dform u = Ffinite ->
     (scaled 1 (MinExp - 1) <= mag x * mag y)%Q /\ (mag x * mag y < scaled 1 MaxExp)%Q /\
     fma_span x y u + 58 < 4294967296 - 18) ->
  FMA zu z x y u <> CrashR.
Proof.
  intros Wx Wy Wu Pz Hzu Lu Lxy Hfin.
  pose proof (FMA_special zu z x y u Wx Wy Wu Pz Hzu) as HS. unfold fma_table, mul_table in HS.
  pose proof (WF_prec u Wu) as Pu.
  destruct (dform x) eqn:Fx, (dform y) eqn:Fy, (dform u) eqn:Fu; cbn [SpecialPost] in HS;
    try (destruct HS as (z' & E & _); rewrite E; discriminate);
    try (destruct (Bool.eqb _ _); cbn [SpecialPost] in HS; destruct HS as (z' & E & _); rewrite E; discriminate);
    try (destruct (FMA_zero_product zu z x y u Wx Wy Wu Fu
                     ltac:(rewrite Fx, Fy; first [left; split; [reflexivity|discriminate]|right; split; [reflexivity|discriminate]])
                     (Lu eq_refl) Pz Hzu) as (z' & E & _); rewrite E; discriminate).
  - destruct (FMA_zero_addend zu z x y u Wx Wy Fx Fy Fu Pz Pu (Lxy eq_refl eq_refl)) as (z' & E & _).
    rewrite E. discriminate.
  - destruct (Hfin eq_refl eq_refl eq_refl) as (Hlo & Hhi & Hspan).
    destruct (FMA_correct zu z x y u Wx Wy Wu Fx Fy Fu Pz Hzu (Lxy eq_refl eq_refl) Hlo Hhi Hspan) as (z' & E & _).
    rewrite E. discriminate.
Qed.

(* ---- regression witness for the repaired overflow case: x = 10^1999999999 is finite,
   x*x = 10^3999999998 does not fit the exponent range, and x*x + (-Inf) = -Inf
   (the unrepaired code raised ErrNaN: the product was stored as +Inf first) ---- *)
Example FMA_overflow_inf_ok :
  let x := mkDec [1000000000000000000] 2000000000 1 ToNearestEven Exact Ffinite false in
  let ninf := mkDec [] 0 0 ToNearestEven Exact Finf true in
  WF x /\ WF ninf /\ ~ fma_invalid x x ninf /\
  exists z', FMA false dec_zero x x ninf = OkR z' /\ dform z' = Finf /\ neg z' = true /\ acc z' = Exact.
Proof.
  cbv zeta. split; [reflexivity|]. split; [reflexivity|]. split.
  - unfold fma_invalid. cbn [dform neg]. intuition discriminate.
  - vm_compute. eexists. repeat split.
Qed.
