(* L3/ArithProofs.v — the arithmetic operations return the exact result
   rounded once (C01, C02). *)
From Coq Require Import ZArith List Bool Lia QArith Qabs Lqa.
From Dec Require Import Base.Words Base.WordsProofs Base.QPow L3.Decimal L3.Cmp L3.CmpProofs
  L3.Round L3.Arith Spec.Rounding Spec.RoundingFacts L3.RoundProofs.
Open Scope Z_scope.

(* ------------------------------------------------------------------ *)
(* dnorm *)

Lemma nlz10_range w : 0 < w < B -> 0 <= nlz10 w <= 18 /\ 10 ^ 18 <= w * 10 ^ nlz10 w < 10 ^ 19 /\
  (w + 1) * 10 ^ nlz10 w <= 10 ^ 19.
Proof.
  intros Hw. unfold nlz10, DW. destruct (ndig_spec w ltac:(lia)) as [Hp [Hl Hh]].
  pose proof (ndig_word_le w ltac:(lia)) as Hd.
  split; [lia|].
  set (d := ndig w) in *.
  assert (0 < 10 ^ (19 - d)) by (apply pow10_pos; lia).
  assert (E18 : 10 ^ 18 = 10 ^ (d - 1) * 10 ^ (19 - d)) by (rewrite <- Z.pow_add_r by lia; f_equal; lia).
  assert (E19 : 10 ^ 19 = 10 ^ d * 10 ^ (19 - d)) by (rewrite <- Z.pow_add_r by lia; f_equal; lia).
  rewrite E18, E19. nia.
Qed.


Lemma last_in_words_ok m : words_ok m = true -> m <> [] -> 0 <= last m 0 < B.
Proof.
  intros Hok Hne. destruct (exists_last Hne) as [l' [a ->]]. rewrite last_last.
  apply words_ok_app in Hok as [_ Ha]. apply words_ok_cons in Ha as [Ha _]. exact Ha.
Qed.

Lemma dnorm_unfold m : m <> [] ->
  dnorm m = (let s := nlz10 (last_word m) in
             if 0 <? s then Some (to_words (length m) (val m * 10 ^ s), s) else Some (m, s)).
Proof. destruct m; [congruence|reflexivity]. Qed.

(* a normalised (no high zero word) non-empty mantissa is shifted so that its
   top word gets a non-zero leading digit; value scaled by 10^s, same length *)
Lemma dnorm_spec m : words_ok m = true -> m <> [] -> last m 0 <> 0 ->
  exists m' s, dnorm m = Some (m', s) /\ 0 <= s <= 18 /\
    val m' = val m * 10 ^ s /\ zlen m' = zlen m /\ words_ok m' = true /\
    m' <> [] /\ B / 10 <= last_word m'.
Proof.
  intros Hok Hne Hnz.
  pose proof (last_in_words_ok m Hok Hne) as Hw.
  destruct (nlz10_range (last m 0) ltac:(lia)) as [Hs [Hrange Hrange2]].
  set (s := nlz10 (last m 0)) in *.
  pose proof (val_ge_last m Hok Hne) as [Hlo Hhi].
  assert (Hlen : 1 <= zlen m) by (destruct m; [congruence|rewrite zlen_cons; pose proof (zlen_nonneg m); lia]).
  assert (HP : 0 < B ^ (zlen m - 1)) by (apply Z.pow_pos_nonneg; [apply B_pos|lia]).
  assert (HB18 : B / 10 = 10 ^ 18) by (rewrite B_eq; reflexivity).
  assert (H10s : 0 < 10 ^ s) by (apply pow10_pos; lia).
  rewrite dnorm_unfold by assumption. cbn zeta. unfold last_word. fold s.
  destruct (Z.ltb_spec 0 s) as [Hpos|Hzero].
  - exists (to_words (length m) (val m * 10 ^ s)), s.
    assert (Hbound : 0 <= val m * 10 ^ s < B ^ Z.of_nat (length m)).
    { split; [pose proof (val_nonneg m Hok); nia|].
      fold (zlen m). replace (zlen m) with (zlen m - 1 + 1) by lia.
      rewrite Z.pow_add_r, Z.pow_1_r by lia. rewrite B_eq at 2.
      apply Z.lt_le_trans with ((last m 0 + 1) * B ^ (zlen m - 1) * 10 ^ s); [nia|].
      replace ((last m 0 + 1) * B ^ (zlen m - 1) * 10 ^ s) with (((last m 0 + 1) * 10 ^ s) * B ^ (zlen m - 1)) by ring.
      rewrite (Z.mul_comm (B ^ (zlen m - 1))). apply Z.mul_le_mono_nonneg_r; lia. }
    split; [reflexivity|]. split; [lia|].
    split; [now apply val_to_words_small|].
    split; [apply zlen_to_words|].
    split; [apply words_ok_to_words|].
    split.
    + intros E. apply (f_equal (@length Z)) in E. rewrite length_to_words in E. unfold zlen in Hlen. cbn in E. lia.
    + unfold last_word. destruct (length m) as [|k] eqn:Ek; [unfold zlen in Hlen; lia|].
      rewrite last_to_words_top by exact Hbound.
      rewrite HB18. apply Z.div_le_lower_bound; [apply Z.pow_pos_nonneg; [apply B_pos|lia]|].
      assert (Z.of_nat k = zlen m - 1) as -> by (unfold zlen; lia).
      nia.
  - assert (s = 0) by lia. exists m, s. split; [reflexivity|]. split; [lia|].
    rewrite H, Z.pow_0_r, Z.mul_1_r. repeat split; try assumption; try reflexivity.
    unfold last_word. rewrite H, Z.pow_0_r, Z.mul_1_r in Hrange. lia.
Qed.

(* ------------------------------------------------------------------ *)
(* setExpAndRound *)

(* normalised mantissa (what dnorm produces) *)
Record NormMant (m : list Z) : Prop := {
  nm_ne : m <> [];
  nm_ok : words_ok m = true;
  nm_top : B / 10 <= last_word m;
  nm_len : mdigits m < 4294967296 - 18
}.

Lemma i32_small e : MinExp <= e <= MaxExp -> i32 e = e.
Proof. unfold i32, MinExp, MaxExp. intros H. rewrite Z.mod_small by lia. lia. Qed.

(* rounding always exists and is at least 10^(e-1) *)
Lemma rounds_exists d p N L x (s : bool) v t :
  1 <= p -> 10 ^ (L - 1) <= N < 10 ^ L -> 1 <= L -> 0 <= t -> N mod 10 ^ t = 0 ->
  (scaled N x <= v)%Q -> (v < scaled (N + 10 ^ t) x)%Q ->
  (s = false -> (v == scaled N x)%Q) -> (s = true -> (scaled N x < v)%Q /\ p + t < L) ->
  exists r, RoundsDir d p v r /\ (scaled 1 (x + L - 1) <= r)%Q.
Proof.
  intros Hp HN HL Ht HNt Hlo Hhi Hs0 Hs1.
  destruct (Z.le_gt_cases L p) as [C|C].
  - assert (Hs : s = false) by (destruct s; [destruct (Hs1 eq_refl); lia|reflexivity]).
    exists (scaled N x). split.
    + apply (RoundsDir_ext _ _ (scaled N x) v (scaled N x) (scaled N x)); [symmetry; auto|reflexivity|].
      apply (exact_rounds _ p N (p - L) x); try lia.
      replace (p - (p - L) - 1) with (L - 1) by lia. replace (p - (p - L)) with L by lia. exact HN.
    + apply (scaled_le_gen _ _ _ _ x); try lia. rewrite Z.sub_diag, Z.pow_0_r.
      replace (x + L - 1 - x) with (L - 1) by lia. lia.
  - set (k := L - p). assert (Hk : 1 <= k) by (unfold k; lia).
    set (te := if s then t else 0).
    assert (Hte : 0 <= te < k) by (unfold te; destruct s; [destruct (Hs1 eq_refl); unfold k; lia|lia]).
    set (T := 10 ^ te). assert (HT : 0 < T) by (apply pow10_pos; lia).
    assert (HNT : N mod T = 0) by (unfold T, te; destruct s; [exact HNt|now rewrite Z.pow_0_r, Z.mod_1_r]).
    set (N2 := N / T).
    assert (EN2 : N = N2 * T) by (unfold N2; rewrite (Z.div_mod N T) at 1 by lia; rewrite HNT; ring).
    set (k2 := k - te). assert (Hk2 : 1 <= k2) by (unfold k2; lia).
    set (x2 := x + te).
    assert (Hlo2 : (scaled N2 x2 <= v)%Q).
    { unfold x2. rewrite <- scaled_pow by lia. fold T. rewrite <- EN2. exact Hlo. }
    assert (Hhi2 : (v < scaled (N2 + 1) x2)%Q).
    { unfold x2. rewrite <- scaled_pow by lia. fold T. replace ((N2 + 1) * T) with (N + T) by (rewrite EN2; ring).
      unfold T, te. destruct s eqn:Es; [exact Hhi|]. rewrite Z.pow_0_r.
      rewrite (Hs0 eq_refl). apply scaled_lt_same. lia. }
    assert (Hs02 : s = false -> (v == scaled N2 x2)%Q).
    { intros E. unfold x2. rewrite <- scaled_pow by lia. fold T. rewrite <- EN2. exact (Hs0 E). }
    assert (Hs12 : s = true -> (scaled N2 x2 < v)%Q).
    { intros E. unfold x2. rewrite <- scaled_pow by lia. fold T. rewrite <- EN2. apply (Hs1 E). }
    assert (HNpk2 : 10 ^ (p + k2 - 1) <= N2 < 10 ^ (p + k2)).
    { assert (EL : L = p + k2 + te) by (unfold k2, k; lia). rewrite EL in HN.
      replace (p + k2 + te - 1) with (p + k2 - 1 + te) in HN by lia.
      rewrite (Z.pow_add_r 10 (p + k2 - 1) te), (Z.pow_add_r 10 (p + k2) te) in HN by lia. fold T in HN.
      destruct HN as [HNa HNb]. rewrite EN2 in HNa, HNb.
      split; [apply (Z.mul_le_mono_pos_r _ _ T HT); exact HNa|apply (Z.mul_lt_mono_pos_r T _ _ HT); exact HNb]. }
    pose proof (inc_dec_rounds d p N2 k2 x2 s v Hp Hk2 HNpk2 Hlo2 Hhi2 Hs02 Hs12) as HR.
    pose proof (M0_bounds p N2 k2 Hp Hk2 HNpk2) as HM. cbn zeta in HR.
    eexists. split; [exact HR|].
    apply (scaled_le_gen _ _ _ _ (x2 + k2)); try (unfold x2, k2, k; lia).
    rewrite Z.sub_diag, Z.pow_0_r. replace (x + L - 1 - (x2 + k2)) with (p - 1) by (unfold x2, k2, k; lia).
    destruct (inc_dec d (N2 / 10 ^ k2) (N2 mod 10 ^ k2) (10 ^ k2) s); lia.
Qed.

Theorem setExpAndRound_correct_gen z e (s : bool) v t :
  NormMant (mant z) -> 1 <= prec z <= MaxPrec -> 0 <= t ->
  let N := val (mant z) in let x := e - mdigits (mant z) in
  N mod 10 ^ t = 0 ->
  (scaled N x <= v)%Q -> (v < scaled (N + 10 ^ t) x)%Q ->
  (s = false -> (v == scaled N x)%Q) ->
  (s = true -> (scaled N x < v)%Q /\ prec z + t < mdigits (mant z)) ->
  exists z', setExpAndRound z e (b2z s) = Some z' /\ RoundPost z v z'.
Proof.
  intros [Hne Hok Htop Hlen] Hp Ht N x HNt Hlo Hhi Hs0 Hs1.
  assert (Hvup : (v < scaled 1 e)%Q).
  { pose proof (mant_val_bounds (mant z) Hne Hok Htop) as HN0. fold N in HN0.
    assert (HLnn : 0 <= mdigits (mant z)) by (unfold mdigits; pose proof (zlen_nonneg (mant z)); cbv [DW]; lia).
    destruct s eqn:Es.
    - destruct (Hs1 eq_refl) as [_ Hpt].
      eapply Qlt_le_trans; [exact Hhi|]. apply (scaled_le_gen _ _ _ _ x); unfold x; try lia.
      rewrite Z.sub_diag, Z.pow_0_r. replace (e - (e - mdigits (mant z))) with (mdigits (mant z)) by lia.
      (* N and 10^L are multiples of 10^t *)
      set (L := mdigits (mant z)) in *. assert (0 < 10 ^ t) by (apply pow10_pos; lia).
      assert (E : 10 ^ L = 10 ^ (L - t) * 10 ^ t) by (rewrite <- Z.pow_add_r by lia; f_equal; lia).
      apply Z.mod_divide in HNt; [|lia]. destruct HNt as [q Hq].
      rewrite E, Hq in *. assert (q < 10 ^ (L - t)) by nia. nia.
    - rewrite (Hs0 eq_refl). apply (scaled_lt_gen _ _ _ _ x); unfold x; try lia.
      rewrite Z.sub_diag, Z.pow_0_r. replace (e - (e - mdigits (mant z))) with (mdigits (mant z)) by lia. lia. }
  pose proof (mant_val_bounds (mant z) Hne Hok Htop) as HN. fold N in HN.
  set (L := mdigits (mant z)) in *.
  assert (HL : 19 <= L).
  { unfold L, mdigits. destruct (mant z); [congruence|]. rewrite zlen_cons. pose proof (zlen_nonneg l). cbv [DW]. lia. }
  unfold setExpAndRound.
  destruct (Z.ltb_spec e MinExp) as [Hu|Hnu].
  - (* underflow *)
    eexists. split; [reflexivity|]. unfold RoundPost.
    split; [|split; [reflexivity|split; [reflexivity|]]].
    + unfold result_spec. cbn [neg with_form with_acc]. split; [reflexivity|].
      destruct (Qlt_le_dec v (scaled 1 (MinExp - 1))) as [_|C].
      * cbn [dform acc with_form with_acc]. auto.
      * exfalso.
        assert (scaled 1 e <= scaled 1 (MinExp - 1))%Q by (apply scaled1_le; lia). lra.
    + apply WF_nonfinite; cbn [dform prec with_form with_acc]; [discriminate|lia].
  - destruct (Z.ltb_spec MaxExp e) as [Ho|Hno].
    + (* overflow before rounding *)
      eexists. split; [reflexivity|]. unfold RoundPost.
      split; [|split; [reflexivity|split; [reflexivity|]]].
      * unfold result_spec. cbn [neg with_form with_acc]. split; [reflexivity|].
        assert (Hvlow : (scaled 1 (e - 1) <= v)%Q).
        { eapply Qle_trans; [|exact Hlo]. apply (scaled_le_gen _ _ _ _ x); unfold x; try lia.
          rewrite Z.sub_diag, Z.pow_0_r. replace (e - 1 - (e - L)) with (L - 1) by lia. lia. }
        destruct (Qlt_le_dec v (scaled 1 (MinExp - 1))) as [C|_].
        { exfalso. assert (scaled 1 (MinExp - 1) <= scaled 1 (e - 1))%Q by (apply scaled1_le; unfold MinExp, MaxExp in *; lia). lra. }
        destruct (rounds_exists (dir_of (dmode z) (neg z)) (prec z) N L x s v t ltac:(lia) HN ltac:(lia) Ht HNt Hlo Hhi Hs0 Hs1)
          as [r [HR Hr]].
        exists r. split; [exact HR|].
        destruct (Qlt_le_dec r (scaled 1 MaxExp)) as [C|_].
        { exfalso. replace (x + L - 1) with (e - 1) in Hr by (unfold x; lia).
          assert (scaled 1 MaxExp <= scaled 1 (e - 1))%Q by (apply scaled1_le; lia). lra. }
        cbn [dform acc with_form with_acc]. auto.
      * apply WF_nonfinite; cbn [dform prec with_form with_acc]; [discriminate|lia].
    + rewrite i32_small by lia.
      apply (round_correct_gen (with_exp (with_form z Ffinite) e) s v t).
      * constructor; cbn [dform mant prec exp with_exp with_form]; try assumption; try reflexivity; lia.
      * exact Ht.
      * exact HNt.
      * exact Hlo.
      * exact Hhi.
      * exact Hs0.
      * exact Hs1.
Qed.

Theorem setExpAndRound_correct z e (s : bool) v :
  NormMant (mant z) -> 1 <= prec z <= MaxPrec ->
  let N := val (mant z) in let x := e - mdigits (mant z) in
  (scaled N x <= v)%Q -> (v < scaled (N + 1) x)%Q ->
  (s = false -> (v == scaled N x)%Q) ->
  (s = true -> (scaled N x < v)%Q /\ prec z < mdigits (mant z)) ->
  exists z', setExpAndRound z e (b2z s) = Some z' /\ RoundPost z v z'.
Proof.
  intros HN Hp N x Hlo Hhi Hs0 Hs1.
  apply (setExpAndRound_correct_gen z e s v 0); try assumption.
  - lia.
  - apply Z.mod_1_r.
  - intros E. destruct (Hs1 E). split; [assumption|]. rewrite Z.add_0_r. assumption.
Qed.

(* ------------------------------------------------------------------ *)
(* values that need no rounding *)

Definition OpPost (p : Z) (md : mode) (ng : bool) (v : Q) (r : ores) : Prop :=
  exists z', r = OkR z' /\ result_spec p md ng v z' /\ prec z' = p /\ dmode z' = md /\ WF z'.

Lemma mod_pow10_weaken N a b : 0 <= b <= a -> N mod 10 ^ a = 0 -> N mod 10 ^ b = 0.
Proof.
  intros Hab H. assert (0 < 10 ^ b) by (apply pow10_pos; lia).
  assert (0 < 10 ^ a) by (apply pow10_pos; lia).
  apply Z.mod_divide in H; [|lia]. destruct H as [q Hq].
  apply Z.mod_divide; [lia|]. exists (q * 10 ^ (a - b)). rewrite Hq.
  replace a with (a - b + b) at 1 by lia. rewrite Z.pow_add_r by lia. ring.
Qed.

(* a well-formed finite x is its own rounding at any precision >= prec x *)
Lemma repr_rounds d p x : WFfin x -> prec x <= p -> RoundsDir d p (mag x) (mag x).
Proof.
  intros Hx Hp. pose proof (WFfin_val_bounds x Hx) as HN.
  destruct Hx as [Hne Hok Htop Hprec Hexp Htail].
  set (L := mdigits (mant x)) in *. set (N := val (mant x)) in *.
  assert (HL : 19 <= L).
  { unfold L, mdigits. destruct (mant x); [congruence|]. rewrite zlen_cons. pose proof (zlen_nonneg l). cbv [DW]. lia. }
  unfold mag. fold N L.
  destruct (Z.le_gt_cases L p) as [C|C].
  - apply (exact_rounds d p N (p - L)); try lia.
    replace (p - (p - L) - 1) with (L - 1) by lia. replace (p - (p - L)) with L by lia. exact HN.
  - assert (Hmod : N mod 10 ^ (L - p) = 0).
    { destruct Htail as [T|T]; [lia|]. apply (mod_pow10_weaken N (L - prec x)); [lia|exact T]. }
    set (k := L - p) in *. assert (Hk : 1 <= k) by (unfold k; lia).
    assert (HP : 0 < 10 ^ k) by (apply pow10_pos; lia).
    set (N' := N / 10 ^ k).
    assert (EN : N = N' * 10 ^ k).
    { unfold N'. rewrite (Z.div_mod N (10 ^ k)) at 1 by lia. rewrite Hmod. ring. }
    assert (E : (scaled N (exp x - L) == scaled N' (exp x - L + k))%Q).
    { rewrite EN. apply scaled_pow. lia. }
    apply (RoundsDir_ext d p (scaled N' (exp x - L + k)) _ (scaled N' (exp x - L + k)) _); [symmetry; exact E|symmetry; exact E|].
    apply (exact_rounds d p N' 0); try lia. rewrite Z.sub_0_r.
    replace L with (p + k) in HN by (unfold k; lia). rewrite EN in HN.
    replace (p + k - 1) with (p - 1 + k) in HN by lia. rewrite !Z.pow_add_r in HN by lia. nia.
Qed.

(* a finite value that equals x exactly and has Exact accuracy meets the
   specification for the exact value mag x *)
Lemma exact_result_spec p md x z' : WFfin x -> prec x <= p ->
  dform z' = Ffinite -> (mag z' == mag x)%Q -> acc z' = Exact -> neg z' = neg x ->
  result_spec p md (neg x) (mag x) z'.
Proof.
  intros Hx Hp Hf Hm Ha Hn. unfold result_spec. split; [exact Hn|].
  pose proof (mag_bounds x Hx) as [Hlo Hhi]. destruct Hx as [Hne Hok Htop Hprec Hexp Htail] eqn:EHx.
  destruct (Qlt_le_dec (mag x) (scaled 1 (MinExp - 1))) as [C|_].
  { exfalso. assert (scaled 1 (MinExp - 1) <= scaled 1 (exp x - 1))%Q by (apply scaled1_le; lia). lra. }
  exists (mag x). split; [apply repr_rounds; assumption|].
  destruct (Qlt_le_dec (mag x) (scaled 1 MaxExp)) as [_|C].
  - split; [exact Hf|]. split; [exact Hm|]. rewrite Ha. unfold acc_of. now rewrite (Qeq_cmp (mag x) (mag x)) by reflexivity.
  - exfalso. assert (scaled 1 (exp x) <= scaled 1 MaxExp)%Q by (apply scaled1_le; lia). lra.
Qed.

Lemma WF_reprec x p md a : WFfin x -> prec x <= p <= MaxPrec ->
  WF (mkDec (mant x) (exp x) p md a Ffinite (neg x)).
Proof.
  intros [Hne Hok Htop Hprec Hexp Htail] Hp.
  apply WF_intro; cbn [dform mant prec exp]; try assumption; try reflexivity; try lia.
  destruct Htail as [T|T]; [left; lia|].
  destruct (Z.le_gt_cases (mdigits (mant x)) p); [left; assumption|right].
  apply (mod_pow10_weaken _ (mdigits (mant x) - prec x)); [lia|exact T].
Qed.

Lemma WFfin_RoundPre x : WFfin x -> mdigits (mant x) < 4294967296 - 18 -> dform x = Ffinite -> RoundPre x.
Proof. intros [Hne Hok Htop Hprec Hexp Htail] Hl Hf. constructor; assumption. Qed.

(* rounding an existing well-formed value z (exact value = its own magnitude) *)
Lemma round_self z : WFfin z -> dform z = Ffinite -> mdigits (mant z) < 4294967296 - 18 ->
  exists z', round z 0 = Some z' /\ RoundPost z (mag z) z'.
Proof.
  intros Hz Hf Hl. apply (round_correct z false (mag z)).
  - now apply WFfin_RoundPre.
  - apply Qle_refl.
  - unfold mag. apply scaled_lt_same. lia.
  - reflexivity.
  - discriminate.
Qed.

(* ------------------------------------------------------------------ *)
(* Set, Neg, Abs, SetPrec *)

Ltac simp_with :=
  unfold with_prec, with_mant, with_exp, with_neg, with_form, with_acc, with_mode;
  cbn [mant exp prec dmode acc dform neg].

Lemma RoundPost_OpPost z v z' : RoundPost z v z' -> OpPost (prec z) (dmode z) (neg z) v (OkR z').
Proof. intros (H1 & H2 & H3 & H4). exists z'. split; [reflexivity|]. split; [exact H1|]. split; [exact H2|]. split; [exact H3|exact H4]. Qed.

Lemma of_opt_post_gen z o v : (exists z', o = Some z' /\ RoundPost z v z') ->
  OpPost (prec z) (dmode z) (neg z) v (of_opt o).
Proof. intros (z' & E & H). rewrite E. cbn [of_opt]. now apply RoundPost_OpPost. Qed.

Lemma of_opt_post z sb v : (exists z', round z sb = Some z' /\ RoundPost z v z') ->
  OpPost (prec z) (dmode z) (neg z) v (of_opt (round z sb)).
Proof. apply of_opt_post_gen. Qed.

Theorem Set_correct same z x :
  WF x -> dform x = Ffinite -> mdigits (mant x) < 4294967296 - 18 ->
  0 <= prec z <= MaxPrec -> (same = true -> z = x) ->
  let p := if prec z =? 0 then prec x else prec z in
  OpPost p (dmode z) (neg x) (mag x) (Set_ same z x).
Proof.
  intros Wx Fx Lx Pz Hsame p. unfold p. clear p. pose proof (WF_finite x Wx Fx) as Hx.
  pose proof Hx as [Hne Hok Htop Hprec Hexp Htail].
  unfold Set_. destruct same.
  - rewrite (Hsame eq_refl) in *. destruct (Z.eqb_spec (prec x) 0); [lia|].
    exists (with_acc x Exact). split; [reflexivity|]. split; [|split; [reflexivity|split; [reflexivity|]]].
    + apply exact_result_spec; cbn [with_acc dform acc neg]; try assumption; try reflexivity; lia.
    + pose proof (WF_reprec x (prec x) (dmode x) Exact Hx ltac:(lia)) as W.
      unfold with_acc. rewrite Fx. exact W.
  - rewrite Fx. cbn [prec with_mant with_exp with_neg with_form with_acc].
    destruct (Z.eqb_spec (prec z) 0) as [E0|E0].
    + eexists. split; [reflexivity|]. simp_with.
      split; [|split; [reflexivity|split; [reflexivity|]]].
      * apply exact_result_spec; cbn [dform acc neg]; try assumption; try reflexivity; try lia.
      * apply WF_reprec; [assumption|lia].
    + destruct (Z.ltb_spec (prec z) (prec x)) as [Hlt|Hge].
      * set (z1 := with_mant (with_exp (with_neg (with_form (with_acc z Exact) Ffinite) (neg x)) (exp x)) (mant x)).
        change (prec z) with (prec z1). change (dmode z) with (dmode z1). change (neg x) with (neg z1).
        apply of_opt_post. apply (round_correct z1 false (mag x)).
        -- constructor; cbn [z1 dform mant prec exp with_mant with_exp with_neg with_form with_acc]; try assumption; try reflexivity; lia.
        -- apply Qle_refl.
        -- unfold mag. cbn [z1 mant exp with_mant with_exp with_neg with_form with_acc]. apply scaled_lt_same. lia.
        -- reflexivity.
        -- discriminate.
      * eexists. split; [reflexivity|]. simp_with.
        split; [|split; [reflexivity|split; [reflexivity|]]].
        -- apply exact_result_spec; cbn [dform acc neg]; try assumption; try reflexivity; try lia.
        -- apply WF_reprec; [assumption|lia].
Qed.

(* Neg and Abs: the value is rounded with x's sign, then the sign is changed *)
Theorem Neg_correct same z x :
  WF x -> dform x = Ffinite -> mdigits (mant x) < 4294967296 - 18 ->
  0 <= prec z <= MaxPrec -> (same = true -> z = x) ->
  let p := if prec z =? 0 then prec x else prec z in
  exists z', Neg_ same z x = OkR (with_neg z' (negb (neg x))) /\
    result_spec p (dmode z) (neg x) (mag x) z' /\ prec z' = p /\ dmode z' = dmode z /\ WF z'.
Proof.
  intros Wx Fx Lx Pz Hsame p.
  destruct (Set_correct same z x Wx Fx Lx Pz Hsame) as (z' & E & HS & Hp & Hm & W).
  exists z'. unfold Neg_. rewrite E. cbn [lift].
  assert (neg z' = neg x) as -> by (destruct HS as [Hn _]; exact Hn).
  split; [reflexivity|]. split; [exact HS|]. split; [exact Hp|]. split; [exact Hm|exact W].
Qed.

Theorem Abs_correct same z x :
  WF x -> dform x = Ffinite -> mdigits (mant x) < 4294967296 - 18 ->
  0 <= prec z <= MaxPrec -> (same = true -> z = x) ->
  let p := if prec z =? 0 then prec x else prec z in
  exists z', Abs_ same z x = OkR (with_neg z' false) /\
    result_spec p (dmode z) (neg x) (mag x) z' /\ prec z' = p /\ dmode z' = dmode z /\ WF z'.
Proof.
  intros Wx Fx Lx Pz Hsame p.
  destruct (Set_correct same z x Wx Fx Lx Pz Hsame) as (z' & E & HS & Hp & Hm & W).
  exists z'. unfold Abs_. rewrite E. cbn [lift].
  split; [reflexivity|]. split; [exact HS|]. split; [exact Hp|]. split; [exact Hm|exact W].
Qed.

(* changing the sign of a canonical value keeps it canonical *)
Lemma WF_with_neg z b : WF z -> WF (with_neg z b).
Proof. unfold WF, wf_b. cbn [with_neg prec dform mant exp]. auto. Qed.

Theorem SetPrec_correct z p' :
  WF z -> dform z = Ffinite -> mdigits (mant z) < 4294967296 - 18 -> 1 <= p' ->
  let p := if MaxPrec <? p' then MaxPrec else p' in
  OpPost p (dmode z) (neg z) (mag z) (SetPrec z p').
Proof.
  intros Wz Fz Lz Hp' p. pose proof (WF_finite z Wz Fz) as Hz.
  pose proof Hz as [Hne Hok Htop Hprec Hexp Htail].
  unfold SetPrec. destruct (Z.eqb_spec p' 0); [lia|]. fold p.
  assert (Hp : 1 <= p <= MaxPrec) by (unfold p; destruct (Z.ltb_spec MaxPrec p'); unfold MaxPrec in *; lia).
  cbn [prec with_acc with_prec].
  destruct (Z.ltb_spec p (prec z)) as [Hlt|Hge].
  - set (z1 := with_prec (with_acc z Exact) p).
    change p with (prec z1) at 1. change (dmode z) with (dmode z1). change (neg z) with (neg z1).
    apply of_opt_post. apply (round_correct z1 false (mag z)).
    + constructor; cbn [z1 dform mant prec exp with_prec with_acc]; try assumption; try lia.
    + apply Qle_refl.
    + unfold mag. cbn [z1 mant exp with_prec with_acc]. apply scaled_lt_same. lia.
    + reflexivity.
    + discriminate.
  - eexists. split; [reflexivity|]. unfold with_prec, with_acc. cbn [mant exp prec dmode acc dform neg]. rewrite Fz.
    split; [|split; [reflexivity|split; [reflexivity|]]].
    + apply exact_result_spec; cbn [dform acc neg]; try assumption; try reflexivity; lia.
    + apply WF_reprec; [assumption|lia].
Qed.

(* ------------------------------------------------------------------ *)
(* Mul *)

Lemma scaled_mul a e1 b e2 : (scaled a e1 * scaled b e2 == scaled (a * b) (e1 + e2))%Q.
Proof. unfold scaled. rewrite inject_Z_mult, Qpow10_add. ring. Qed.

Lemma Bpow_lt_inv a b : 0 <= a -> 0 <= b -> B ^ a < B ^ b -> a < b.
Proof.
  intros Ha Hb H. destruct (Z.lt_ge_cases a b); [assumption|]. exfalso.
  assert (B ^ b <= B ^ a) by (apply Z.pow_le_mono_r; [apply B_pos|lia]). lia.
Qed.

Lemma zlen_of_Z n k : 1 <= k -> B ^ (k - 1) <= n < B ^ k -> zlen (of_Z n) = k.
Proof.
  intros Hk [Hlo Hhi].
  assert (Hn : 0 < n) by (assert (0 < B ^ (k - 1)) by (apply Z.pow_pos_nonneg; [apply B_pos|lia]); lia).
  pose proof (words_ok_of_Z n) as Hok. pose proof (val_of_Z n ltac:(lia)) as Hv.
  pose proof (of_Z_last_nz n Hn) as Hl.
  assert (Hne : of_Z n <> []) by (intros E; apply of_Z_nil_iff in E; lia).
  pose proof (val_bounds (of_Z n) Hok) as [_ Hb].
  pose proof (val_ge_last (of_Z n) Hok Hne) as [Hg _].
  pose proof (last_in_words_ok (of_Z n) Hok Hne) as Hw.
  set (len := zlen (of_Z n)) in *.
  assert (Hlen : 1 <= len) by (unfold len; destruct (of_Z n); [congruence|rewrite zlen_cons; pose proof (zlen_nonneg l); lia]).
  rewrite Hv in *.
  assert (HP : 0 < B ^ (len - 1)) by (apply Z.pow_pos_nonneg; [apply B_pos|lia]).
  assert (B ^ (len - 1) <= n) by nia.
  assert (len - 1 < k) by (apply Bpow_lt_inv; lia).
  assert (k - 1 < len) by (apply Bpow_lt_inv; lia).
  lia.
Qed.

Lemma of_Z_pos_facts n : 0 < n ->
  words_ok (of_Z n) = true /\ of_Z n <> [] /\ last (of_Z n) 0 <> 0 /\ val (of_Z n) = n.
Proof.
  intros Hn. split; [apply words_ok_of_Z|]. split; [intros E; apply of_Z_nil_iff in E; lia|].
  split; [now apply of_Z_last_nz|apply val_of_Z; lia].
Qed.

Lemma WFfin_len x : WFfin x -> 1 <= zlen (mant x) /\ mdigits (mant x) = 19 * zlen (mant x).
Proof.
  intros [Hne _ _ _ _ _]. split; [|reflexivity].
  destruct (mant x); [congruence|rewrite zlen_cons; pose proof (zlen_nonneg l); lia].
Qed.

Lemma umax32_spec a b : umax32 a b = Z.max a b.
Proof. unfold umax32. destruct (Z.ltb_spec b a); lia. Qed.

(* the effective precision of a binary operation *)
Definition eff_prec (z x y : Dec) : Z := if prec z =? 0 then umax32 (prec x) (prec y) else prec z.

Theorem Mul_correct z x y :
  WF x -> WF y -> dform x = Ffinite -> dform y = Ffinite -> 0 <= prec z <= MaxPrec ->
  mdigits (mant x) + mdigits (mant y) < 4294967296 - 18 ->
  OpPost (eff_prec z x y) (dmode z) (xorb (neg x) (neg y)) (mag x * mag y) (Mul z x y).
Proof.
  intros Wx Wy Fx Fy Pz Hlen.
  pose proof (WF_finite x Wx Fx) as Hx. pose proof (WF_finite y Wy Fy) as Hy.
  pose proof (WFfin_val_bounds x Hx) as HNx. pose proof (WFfin_val_bounds y Hy) as HNy.
  destruct (WFfin_len x Hx) as [Hlx HLx]. destruct (WFfin_len y Hy) as [Hly HLy].
  pose proof Hx as [_ _ _ Hpx _ _]. pose proof Hy as [_ _ _ Hpy _ _].
  unfold Mul. rewrite Fx, Fy.
  set (z1 := with_neg (if prec z =? 0 then with_prec z (umax32 (prec x) (prec y)) else z) (xorb (neg x) (neg y))).
  assert (Hp1 : prec z1 = eff_prec z x y) by (unfold z1, eff_prec; destruct (prec z =? 0); reflexivity).
  assert (Hm1 : dmode z1 = dmode z) by (unfold z1; destruct (prec z =? 0); reflexivity).
  assert (Hn1 : neg z1 = xorb (neg x) (neg y)) by reflexivity.
  assert (Hpe : 1 <= eff_prec z x y <= MaxPrec).
  { unfold eff_prec. rewrite umax32_spec. destruct (Z.eqb_spec (prec z) 0); lia. }
  unfold umul.
  set (Nx := val (mant x)) in *. set (Ny := val (mant y)) in *.
  set (Lx := mdigits (mant x)) in *. set (Ly := mdigits (mant y)) in *.
  assert (HNx0 : 0 < Nx) by (assert (0 < 10 ^ (Lx - 1)) by (apply pow10_pos; lia); lia).
  assert (HNy0 : 0 < Ny) by (assert (0 < 10 ^ (Ly - 1)) by (apply pow10_pos; lia); lia).
  unfold dec_mul. fold Nx Ny.
  destruct (of_Z_pos_facts (Nx * Ny) ltac:(nia)) as (Hok & Hne & Hlast & Hval).
  (* the product has exactly lx + ly words *)
  assert (Hzl : zlen (of_Z (Nx * Ny)) = zlen (mant x) + zlen (mant y)).
  { apply zlen_of_Z; [lia|].
    rewrite <- !pow10_19 by lia.
    assert (0 < 10 ^ (Lx - 1)) by (apply pow10_pos; lia). assert (0 < 10 ^ (Ly - 1)) by (apply pow10_pos; lia).
    split.
    - apply Z.le_trans with (10 ^ (Lx - 1) * 10 ^ (Ly - 1)); [|nia].
      rewrite <- Z.pow_add_r by lia. apply Z.pow_le_mono_r; lia.
    - replace (19 * (zlen (mant x) + zlen (mant y))) with (Lx + Ly) by lia.
      rewrite Z.pow_add_r by lia. nia. }
  destruct (dnorm_spec _ Hok Hne Hlast) as (m' & sh & Ed & Hsh & Vm' & Lm' & Okm' & Nem' & Topm').
  rewrite Ed.
  set (z2 := with_mant z1 m').
  change (prec z1) with (prec z2) in Hp1. change (dmode z1) with (dmode z2) in Hm1. change (neg z1) with (neg z2) in Hn1.
  rewrite <- Hp1, <- Hm1, <- Hn1.
  assert (Hmd : mdigits m' = Lx + Ly) by (unfold mdigits; rewrite Lm', Hzl; cbv [DW]; lia).
  apply of_opt_post_gen.
  apply (setExpAndRound_correct z2 (exp x + exp y - sh) false (mag x * mag y)).
  - change (mant z2) with m'. constructor; try assumption. rewrite Hmd. exact Hlen.
  - rewrite Hp1. exact Hpe.
  - change (mant z2) with m'. rewrite Vm', Hval, Hmd. apply Qle_lteq. right.
    unfold mag. fold Nx Ny Lx Ly. rewrite scaled_mul. rewrite scaled_pow by lia.
    apply (scaled_eq_gen _ _ _ _ (exp x - Lx + (exp y - Ly))); try lia. f_equal. f_equal. lia.
  - change (mant z2) with m'. rewrite Vm', Hval, Hmd.
    unfold mag. fold Nx Ny Lx Ly. rewrite scaled_mul.
    apply (scaled_lt_gen _ _ _ _ (exp x + exp y - sh - (Lx + Ly))); try lia.
    rewrite Z.sub_diag, Z.pow_0_r. replace (exp x - Lx + (exp y - Ly) - (exp x + exp y - sh - (Lx + Ly))) with sh by lia. lia.
  - intros _. change (mant z2) with m'. rewrite Vm', Hval, Hmd.
    unfold mag. fold Nx Ny Lx Ly. rewrite scaled_mul. rewrite scaled_pow by lia.
    apply (scaled_eq_gen _ _ _ _ (exp x - Lx + (exp y - Ly))); try lia. f_equal. f_equal. lia.
  - discriminate.
Qed.

(* ------------------------------------------------------------------ *)
(* Quo *)

Lemma val_repeat0_app d m : val (repeat 0 d ++ m) = val m * B ^ Z.of_nat d.
Proof.
  rewrite val_app, val_repeat0. unfold zlen. rewrite repeat_length. ring.
Qed.

Lemma zlen_repeat0_app d (m : list Z) : zlen (repeat 0 d ++ m) = Z.of_nat d + zlen m.
Proof. rewrite zlen_app. unfold zlen. now rewrite repeat_length. Qed.

Lemma of_Z_nil_iff' n : 0 <= n -> (of_Z n = [] <-> n = 0).
Proof. apply of_Z_nil_iff. Qed.

Lemma digits_sandwich Qq sh lq d2 : 0 <= sh -> 1 <= d2 -> 1 <= lq ->
  10 ^ (19 * d2 - 1) <= Qq < 10 ^ (19 * d2 + 1) ->
  10 ^ (19 * lq - 1) <= Qq * 10 ^ sh < 10 ^ (19 * lq) ->
  19 * d2 + sh <= 19 * lq <= 19 * d2 + sh + 1.
Proof.
  intros Hsh Hd2 Hlq [Q1 Q2] [L1 L2].
  assert (H10 : 0 < 10 ^ sh) by (apply pow10_pos; lia).
  assert (A1 : 10 ^ (19 * d2 - 1 + sh) < 10 ^ (19 * lq)).
  { rewrite Z.pow_add_r by lia. apply Z.le_lt_trans with (Qq * 10 ^ sh); [|exact L2].
    apply Z.mul_le_mono_nonneg_r; lia. }
  assert (A2 : 10 ^ (19 * lq - 1) < 10 ^ (19 * d2 + 1 + sh)).
  { rewrite (Z.pow_add_r 10 (19 * d2 + 1) sh) by lia. apply Z.le_lt_trans with (Qq * 10 ^ sh); [exact L1|].
    apply Z.mul_lt_mono_pos_r; lia. }
  apply Z.pow_lt_mono_r_iff in A1; [|lia|lia]. apply Z.pow_lt_mono_r_iff in A2; [|lia|lia]. lia.
Qed.

Lemma quo_bracket (mx my : Q) Nx Ny ex ey X dd Qq R u :
  (mx == scaled Nx ex)%Q -> (my == scaled Ny ey)%Q -> 0 < Ny -> 0 <= dd ->
  X = Nx * 10 ^ (19 * dd) -> X = Ny * Qq + R -> 0 <= R < Ny -> u = ex - 19 * dd - ey ->
  (scaled Qq u <= mx / my)%Q /\ (mx / my < scaled (Qq + 1) u)%Q /\
  (R = 0 -> (mx / my == scaled Qq u)%Q) /\ (R <> 0 -> (scaled Qq u < mx / my)%Q).
Proof.
  intros Hmx Hmy HNy Hdd HX Hdiv HR Hu.
  assert (Hmypos : (0 < my)%Q) by (rewrite Hmy; apply scaled_pos; lia).
  assert (Hunit : forall a, (scaled a u * my == scaled (a * Ny) (ex - 19 * dd))%Q).
  { intros a. rewrite Hmy, scaled_mul. replace (u + ey) with (ex - 19 * dd) by lia. reflexivity. }
  assert (HmxX : (mx == scaled X (ex - 19 * dd))%Q).
  { rewrite Hmx, HX. rewrite scaled_pow by lia. replace (ex - 19 * dd + 19 * dd) with ex by lia. reflexivity. }
  split; [|split; [|split]].
  - apply Qle_shift_div_l; [exact Hmypos|]. rewrite Hunit, HmxX. apply scaled_le_same. nia.
  - apply Qlt_shift_div_r; [exact Hmypos|]. rewrite Hunit, HmxX. apply scaled_lt_same. nia.
  - intros E. apply Qle_antisym.
    + apply Qle_shift_div_r; [exact Hmypos|]. rewrite Hunit, HmxX. apply scaled_le_same. nia.
    + apply Qle_shift_div_l; [exact Hmypos|]. rewrite Hunit, HmxX. apply scaled_le_same. nia.
  - intros E. apply Qlt_shift_div_l; [exact Hmypos|]. rewrite Hunit, HmxX. apply scaled_lt_same. nia.
Qed.

Theorem Quo_correct z x y :
  WF x -> WF y -> dform x = Ffinite -> dform y = Ffinite -> 0 <= prec z <= MaxPrec ->
  mdigits (mant x) + mdigits (mant y) + eff_prec z x y + 38 < 4294967296 - 18 ->
  OpPost (eff_prec z x y) (dmode z) (xorb (neg x) (neg y)) (mag x / mag y) (Quo z x y).
Proof.
  intros Wx Wy Fx Fy Pz Hlen.
  pose proof (WF_finite x Wx Fx) as Hx. pose proof (WF_finite y Wy Fy) as Hy.
  pose proof (WFfin_val_bounds x Hx) as HNx. pose proof (WFfin_val_bounds y Hy) as HNy.
  destruct (WFfin_len x Hx) as [Hlx HLx]. destruct (WFfin_len y Hy) as [Hly HLy].
  pose proof Hx as [_ _ _ Hpx _ _]. pose proof Hy as [_ _ _ Hpy _ _].
  pose proof (mag_pos y Hy) as Hmy.
  unfold Quo. rewrite Fx, Fy.
  set (z1 := with_neg (if prec z =? 0 then with_prec z (umax32 (prec x) (prec y)) else z) (xorb (neg x) (neg y))).
  assert (Hp1 : prec z1 = eff_prec z x y) by (unfold z1, eff_prec; destruct (prec z =? 0); reflexivity).
  assert (Hm1 : dmode z1 = dmode z) by (unfold z1; destruct (prec z =? 0); reflexivity).
  assert (Hn1 : neg z1 = xorb (neg x) (neg y)) by reflexivity.
  assert (Hpe : 1 <= eff_prec z x y <= MaxPrec).
  { unfold eff_prec. rewrite umax32_spec. destruct (Z.eqb_spec (prec z) 0); lia. }
  set (p := eff_prec z x y) in *.
  unfold uquo. rewrite Hp1.
  set (Nx := val (mant x)) in *. set (Ny := val (mant y)) in *.
  set (Lx := mdigits (mant x)) in *. set (Ly := mdigits (mant y)) in *.
  set (lx := zlen (mant x)) in *. set (ly := zlen (mant y)) in *.
  assert (HNx0 : 0 < Nx) by (assert (0 < 10 ^ (Lx - 1)) by (apply pow10_pos; lia); lia).
  assert (HNy0 : 0 < Ny) by (assert (0 < 10 ^ (Ly - 1)) by (apply pow10_pos; lia); lia).
  change DW with 19.
  set (n := p / 19 + 1).
  assert (Hn : 1 <= n /\ p < 19 * n <= p + 19) by (unfold n; Z.div_mod_to_equations; lia).
  set (d := n - lx + ly).
  set (dd := Z.max d 0).
  set (xadj := if 0 <? d then repeat 0 (Z.to_nat d) ++ mant x else mant x).
  assert (Hxadj : val xadj = Nx * B ^ dd /\ zlen xadj = lx + dd).
  { unfold xadj, dd. destruct (Z.ltb_spec 0 d).
    - rewrite val_repeat0_app, zlen_repeat0_app. rewrite Z2Nat.id by lia. rewrite Z.max_l by lia. fold Nx lx. lia.
    - rewrite Z.max_r by lia. rewrite Z.pow_0_r. fold Nx lx. lia. }
  destruct Hxadj as [VX LX]. rewrite LX.
  set (X := val xadj) in *.
  set (d2 := lx + dd - ly).
  assert (Hd2 : n <= d2) by (unfold d2, dd, d; lia).
  assert (Hdd : 0 <= dd) by (unfold dd; lia).
  destruct (Z.eqb_spec Ny 0) as [C|_]; [lia|].
  unfold dec_quo, dec_rem. fold X Ny.
  set (Qq := X / Ny). set (R := X mod Ny).
  assert (HXpos : 0 < X) by (rewrite VX; assert (0 < B ^ dd) by (apply Z.pow_pos_nonneg; [apply B_pos|lia]); nia).
  assert (Hdiv : X = Ny * Qq + R /\ 0 <= R < Ny).
  { unfold Qq, R. split; [apply Z.div_mod; lia|apply Z.mod_pos_bound; lia]. }
  destruct Hdiv as [EX HR].
  (* size of the quotient: 10^(19 d2 - 1) <= Q < 10^(19 d2 + 1) *)
  assert (HXb : 10 ^ (Lx + 19 * dd - 1) <= X < 10 ^ (Lx + 19 * dd)).
  { rewrite VX. rewrite <- pow10_19 by lia.
    replace (Lx + 19 * dd - 1) with (Lx - 1 + 19 * dd) by lia. rewrite !Z.pow_add_r by lia.
    assert (0 < 10 ^ (19 * dd)) by (apply pow10_pos; lia). nia. }
  assert (E19 : Lx + 19 * dd = 19 * d2 + Ly) by (unfold d2; lia).
  assert (HQlo : 10 ^ (19 * d2 - 1) <= Qq).
  { unfold Qq. apply Z.div_le_lower_bound; [lia|].
    apply Z.le_trans with (10 ^ Ly * 10 ^ (19 * d2 - 1)); [assert (0 < 10 ^ (19 * d2 - 1)) by (apply pow10_pos; lia); nia|].
    rewrite <- Z.pow_add_r by lia. replace (Ly + (19 * d2 - 1)) with (Lx + 19 * dd - 1) by lia. lia. }
  assert (HQhi : Qq < 10 ^ (19 * d2 + 1)).
  { unfold Qq. apply Z.div_lt_upper_bound; [lia|].
    apply Z.lt_le_trans with (10 ^ (Lx + 19 * dd)); [lia|].
    rewrite E19. replace (19 * d2 + Ly) with (Ly - 1 + (19 * d2 + 1)) by lia.
    rewrite Z.pow_add_r by lia. assert (0 < 10 ^ (19 * d2 + 1)) by (apply pow10_pos; lia). nia. }
  assert (HQ0 : 0 < Qq) by (assert (0 < 10 ^ (19 * d2 - 1)) by (apply pow10_pos; lia); lia).
  destruct (of_Z_pos_facts Qq HQ0) as (Hok & Hne & Hlast & Hval).
  destruct (dnorm_spec _ Hok Hne Hlast) as (q' & sh & Ed & Hsh & Vq' & Lq' & Okq' & Neq' & Topq').
  rewrite Ed.
  set (lq := zlen (of_Z Qq)) in *.
  (* digits of the quotient: 19 lq - sh >= 19 d2 *)
  pose proof (mant_val_bounds q' Neq' Okq' Topq') as Hq'b. rewrite Vq' in Hq'b.
  assert (Hmdq : mdigits q' = 19 * lq) by (unfold mdigits; rewrite Lq'; reflexivity).
  rewrite Hmdq in Hq'b.
  assert (Hlq1 : 1 <= lq) by (unfold lq; destruct (of_Z Qq); [congruence|rewrite zlen_cons; pose proof (zlen_nonneg l); lia]).
  assert (H10sh : 0 < 10 ^ sh) by (apply pow10_pos; lia).
  assert (Hdig : 19 * d2 + sh <= 19 * lq <= 19 * d2 + sh + 1).
  { rewrite Hval in Hq'b. apply (digits_sandwich Qq sh lq d2); [clear - Hsh; lia|clear - Hd2 Hn; lia|exact Hlq1|split; assumption|exact Hq'b]. }
  assert (B2 : p + sh < 19 * lq) by (clear - Hdig Hn Hd2; lia).
  assert (B1 : 19 * lq < 4294967296 - 18).
  { assert (19 * d2 <= Lx + p + 19) by (clear - Hn HLx HLy Hlx Hly; unfold d2, dd, d; lia).
    clear - H Hdig Hsh Hlen HLy Hly. lia. }
  set (z2 := with_mant z1 q').
  change (prec z1) with (prec z2) in Hp1. change (dmode z1) with (dmode z2) in Hm1. change (neg z1) with (neg z2) in Hn1.
  assert (Hgoal : forall r, OpPost (prec z2) (dmode z2) (neg z2) (mag x / mag y) r ->
                            OpPost p (dmode z) (xorb (neg x) (neg y)) (mag x / mag y) r).
  { intros r. rewrite Hp1, Hm1, Hn1. auto. }
  apply Hgoal. clear Hgoal.
  (* sticky bit *)
  set (s := negb (R =? 0)).
  assert (Hsb : (match of_Z R with [] => 0 | _ :: _ => 1 end) = b2z s).
  { unfold s. destruct (Z.eqb_spec R 0) as [E|E].
    - rewrite E. reflexivity.
    - destruct (of_Z R) eqn:Eo; [apply of_Z_nil_iff in Eo; lia|reflexivity]. }
  rewrite Hsb.
  set (u := exp x - exp y - 19 * d2).
  assert (Ee : exp x - exp y - (d2 - lq) * 19 - sh - mdigits q' = u - sh) by (rewrite Hmdq; unfold u; clear; lia).
  (* the exact quotient in units of 10^u *)
  assert (HX19 : X = Nx * 10 ^ (19 * dd)) by (rewrite VX, <- pow10_19 by lia; reflexivity).
  assert (Hu : u = (exp x - Lx) - 19 * dd - (exp y - Ly)) by (unfold u; clear - E19; lia).
  destruct (quo_bracket (mag x) (mag y) Nx Ny (exp x - Lx) (exp y - Ly) X dd Qq R u
              ltac:(reflexivity) ltac:(reflexivity) HNy0 Hdd HX19 EX HR Hu) as (Hlo & Hhi & Heq0 & Hne0).
  clear HNx HNy HXb HQlo HQhi HX19 Hu EX E19 VX LX.
  assert (HsQ : forall a, (scaled (a * 10 ^ sh) (u - sh) == scaled a u)%Q).
  { intros a. rewrite scaled_pow by (clear - Hsh; lia). replace (u - sh + sh) with u by (clear; lia). reflexivity. }
  apply of_opt_post_gen.
  apply (setExpAndRound_correct_gen z2 (exp x - exp y - (d2 - lq) * 19 - sh) s (mag x / mag y) sh).
  - change (mant z2) with q'. constructor; try assumption. rewrite Hmdq. exact B1.
  - rewrite Hp1. exact Hpe.
  - clear - Hsh. lia.
  - change (mant z2) with q'. rewrite Vq', Hval. apply Z.mod_mul. clear - H10sh. lia.
  - change (mant z2) with q'. rewrite Ee, Vq', Hval, HsQ. exact Hlo.
  - change (mant z2) with q'. rewrite Ee, Vq', Hval.
    replace (Qq * 10 ^ sh + 10 ^ sh) with ((Qq + 1) * 10 ^ sh) by ring. rewrite HsQ. exact Hhi.
  - intros Es. change (mant z2) with q'. rewrite Ee, Vq', Hval, HsQ.
    unfold s in Es. apply negb_false_iff in Es. apply Z.eqb_eq in Es. exact (Heq0 Es).
  - intros Es. change (mant z2) with q'. rewrite Ee, Vq', Hval, HsQ. split.
    + unfold s in Es. apply negb_true_iff in Es. apply Z.eqb_neq in Es. exact (Hne0 Es).
    + rewrite Hp1, Hmdq. exact B2.
Qed.

(* ------------------------------------------------------------------ *)
(* Add, Sub *)

(* alignment of two finite values to the smaller unit exponent *)
Section Align.
  Variables x y : Dec.
  Hypothesis Hx : WFfin x.
  Hypothesis Hy : WFfin y.
  Let Nx := val (mant x). Let Ny := val (mant y).
  Let ex := exp x - mdigits (mant x). Let ey := exp y - mdigits (mant y).
  Let b := Z.min ex ey.
  Definition alX := Nx * 10 ^ (ex - b).
  Definition alY := Ny * 10 ^ (ey - b).

  Lemma mag_alX : (mag x == scaled alX b)%Q.
  Proof. unfold mag, alX. fold Nx ex. rewrite scaled_pow by (unfold b; lia). replace (b + (ex - b)) with ex by lia. reflexivity. Qed.
  Lemma mag_alY : (mag y == scaled alY b)%Q.
  Proof. unfold mag, alY. fold Ny ey. rewrite scaled_pow by (unfold b; lia). replace (b + (ey - b)) with ey by lia. reflexivity. Qed.
  Lemma alX_pos : 0 < alX.
  Proof.
    pose proof (WFfin_val_bounds x Hx) as [H _]. destruct (WFfin_len x Hx) as [Hl HL].
    assert (0 < 10 ^ (mdigits (mant x) - 1)) by (apply pow10_pos; lia).
    assert (0 < 10 ^ (ex - b)) by (apply pow10_pos; unfold b; lia). unfold alX. fold Nx in H. nia.
  Qed.
  Lemma alY_pos : 0 < alY.
  Proof.
    pose proof (WFfin_val_bounds y Hy) as [H _]. destruct (WFfin_len y Hy) as [Hl HL].
    assert (0 < 10 ^ (mdigits (mant y) - 1)) by (apply pow10_pos; lia).
    assert (0 < 10 ^ (ey - b)) by (apply pow10_pos; unfold b; lia). unfold alY. fold Ny in H. nia.
  Qed.
  (* both are below 10^(span), span = digits needed for the aligned operands *)
  Definition span := Z.max (mdigits (mant x) + (ex - b)) (mdigits (mant y) + (ey - b)).
  Lemma al_bounds : alX < 10 ^ span /\ alY < 10 ^ span.
  Proof.
    pose proof (WFfin_val_bounds x Hx) as [_ H1]. pose proof (WFfin_val_bounds y Hy) as [_ H2].
    destruct (WFfin_len x Hx) as [Hl HL]. destruct (WFfin_len y Hy) as [Hl' HL'].
    fold Nx in H1. fold Ny in H2. unfold alX, alY, span.
    assert (0 < 10 ^ (ex - b)) by (apply pow10_pos; unfold b; lia).
    assert (0 < 10 ^ (ey - b)) by (apply pow10_pos; unfold b; lia).
    split.
    - apply Z.lt_le_trans with (10 ^ (mdigits (mant x) + (ex - b))).
      + rewrite Z.pow_add_r by (unfold b; lia). nia.
      + apply Z.pow_le_mono_r; lia.
    - apply Z.lt_le_trans with (10 ^ (mdigits (mant y) + (ey - b))).
      + rewrite Z.pow_add_r by (unfold b; lia). nia.
      + apply Z.pow_le_mono_r; lia.
  Qed.
End Align.

(* size of the canonical word list of a number below 10^D *)
Lemma zlen_of_Z_bound n D : 0 < n < 10 ^ D -> 0 <= D -> 19 * zlen (of_Z n) < D + 19.
Proof.
  intros [Hn Hlt] HD.
  destruct (of_Z_pos_facts n Hn) as (Hok & Hne & Hlast & Hval).
  pose proof (val_ge_last (of_Z n) Hok Hne) as [Hg _].
  pose proof (last_in_words_ok (of_Z n) Hok Hne) as Hw.
  set (len := zlen (of_Z n)) in *.
  assert (Hlen : 1 <= len) by (unfold len; destruct (of_Z n); [congruence|rewrite zlen_cons; pose proof (zlen_nonneg l); lia]).
  rewrite Hval in Hg.
  assert (HP : 0 < B ^ (len - 1)) by (apply Z.pow_pos_nonneg; [apply B_pos|lia]).
  assert (B ^ (len - 1) < 10 ^ D) by nia.
  rewrite <- pow10_19 in H by lia. apply Z.pow_lt_mono_r_iff in H; lia.
Qed.

(* common tail of uadd/usub: normalise S > 0 at unit exponent b and round *)
Lemma norm_round z S b v D :
  0 < S < 10 ^ D -> 0 <= D -> D + 19 < 4294967296 - 18 -> 1 <= prec z <= MaxPrec ->
  (v == scaled S b)%Q ->
  exists z',
    match dnorm (of_Z S) with
    | None => None
    | Some (m', s) => setExpAndRound (with_mant z m') (b + zlen m' * DW - s) 0
    end = Some z' /\ RoundPost z v z'.
Proof.
  intros HS HD HDl Hp Hv.
  destruct (of_Z_pos_facts S ltac:(lia)) as (Hok & Hne & Hlast & Hval).
  destruct (dnorm_spec _ Hok Hne Hlast) as (m' & sh & Ed & Hsh & Vm' & Lm' & Okm' & Nem' & Topm').
  rewrite Ed.
  pose proof (zlen_of_Z_bound S D HS HD) as Hzl.
  assert (Hmd : mdigits m' = 19 * zlen (of_Z S)) by (unfold mdigits; rewrite Lm'; reflexivity).
  set (z2 := with_mant z m').
  assert (Hz2 : RoundPost z2 v = RoundPost z v) by reflexivity. rewrite <- Hz2.
  assert (H10 : 0 < 10 ^ sh) by (apply pow10_pos; lia).
  assert (Ee : b + zlen m' * DW - sh - mdigits m' = b - sh) by (rewrite Hmd, Lm'; cbv [DW]; lia).
  assert (HsQ : forall a, (scaled (a * 10 ^ sh) (b - sh) == scaled a b)%Q).
  { intros a. rewrite scaled_pow by lia. replace (b - sh + sh) with b by lia. reflexivity. }
  apply (setExpAndRound_correct z2 (b + zlen m' * DW - sh) false v).
  - change (mant z2) with m'. constructor; try assumption. rewrite Hmd. lia.
  - exact Hp.
  - change (mant z2) with m'. rewrite Ee, Vm', Hval, HsQ, Hv. apply Qle_refl.
  - change (mant z2) with m'. rewrite Ee, Vm', Hval, Hv.
    rewrite <- (HsQ S). apply scaled_lt_same. lia.
  - intros _. change (mant z2) with m'. rewrite Ee, Vm', Hval, HsQ. exact Hv.
  - discriminate.
Qed.

(* the aligned mantissas as the model computes them *)
Lemma align_cases x y : WFfin x -> WFfin y ->
  let ex := exp x - zlen (mant x) * DW in let ey := exp y - zlen (mant y) * DW in
  (if ex <? ey then (val (mant x), val (dec_shl (mant y) (ey - ex)), ex)
   else if ey <? ex then (val (dec_shl (mant x) (ex - ey)), val (mant y), ey)
   else (val (mant x), val (mant y), ex)) =
  (alX x y, alY x y, Z.min (exp x - mdigits (mant x)) (exp y - mdigits (mant y))).
Proof.
  intros Hx Hy ex ey.
  pose proof (WFfin_val_bounds x Hx) as [Hx1 _]. pose proof (WFfin_val_bounds y Hy) as [Hy1 _].
  destruct (WFfin_len x Hx) as [Hlx HLx]. destruct (WFfin_len y Hy) as [Hly HLy].
  assert (Ex : ex = exp x - mdigits (mant x)) by (unfold ex, mdigits; cbv [DW]; lia).
  assert (Ey : ey = exp y - mdigits (mant y)) by (unfold ey, mdigits; cbv [DW]; lia).
  assert (0 < 10 ^ (mdigits (mant x) - 1)) by (apply pow10_pos; lia).
  assert (0 < 10 ^ (mdigits (mant y) - 1)) by (apply pow10_pos; lia).
  unfold alX, alY, dec_shl. rewrite <- Ex, <- Ey.
  destruct (Z.ltb_spec ex ey).
  - rewrite Z.min_l by lia. rewrite Z.sub_diag, Z.pow_0_r, Z.mul_1_r.
    rewrite val_of_Z by (assert (0 < 10 ^ (ey - ex)) by (apply pow10_pos; lia); nia). reflexivity.
  - destruct (Z.ltb_spec ey ex).
    + rewrite Z.min_r by lia. rewrite Z.sub_diag, Z.pow_0_r, Z.mul_1_r.
      rewrite val_of_Z by (assert (0 < 10 ^ (ex - ey)) by (apply pow10_pos; lia); nia). reflexivity.
    + assert (ex = ey) by lia. rewrite Z.min_l by lia. rewrite H3, !Z.sub_diag, Z.pow_0_r, !Z.mul_1_r. reflexivity.
Qed.

(* the digit span of the aligned operands, in terms of the inputs *)
Definition add_span (x y : Dec) : Z :=
  Z.max (mdigits (mant x)) (mdigits (mant y)) +
  Z.abs ((exp x - mdigits (mant x)) - (exp y - mdigits (mant y))).

Lemma span_le x y : span x y <= add_span x y.
Proof. unfold span, add_span. lia. Qed.

Lemma uadd_correct z x y : WFfin x -> WFfin y -> 1 <= prec z <= MaxPrec ->
  add_span x y + 40 < 4294967296 - 18 ->
  exists z', uadd z x y = Some z' /\ RoundPost z (mag x + mag y) z'.
Proof.
  intros Hx Hy Hp Hsp. unfold uadd.
  pose proof (align_cases x y Hx Hy) as HA. cbn zeta in HA.
  pose proof (alX_pos x y Hx) as PX. pose proof (alY_pos x y Hy) as PY.
  pose proof (al_bounds x y Hx Hy) as [BX BY]. pose proof (span_le x y) as HS.
  set (ex := exp x - zlen (mant x) * DW) in *. set (ey := exp y - zlen (mant y) * DW) in *.
  assert (Hspan0 : 0 <= span x y).
  { unfold span. destruct (WFfin_len x Hx) as [Hlx HLx]. lia. }
  assert (E : (let '(m, ex0) :=
             if ex <? ey then (dec_add (mant x) (dec_shl (mant y) (ey - ex)), ex)
             else if ey <? ex then (dec_add (dec_shl (mant x) (ex - ey)) (mant y), ey)
             else (dec_add (mant x) (mant y), ex) in
           match dnorm m with
           | None => None
           | Some (m', s) => setExpAndRound (with_mant z m') (ex0 + zlen m' * DW - s) 0
           end) =
          match dnorm (of_Z (alX x y + alY x y)) with
          | None => None
          | Some (m', s) => setExpAndRound (with_mant z m')
              (Z.min (exp x - mdigits (mant x)) (exp y - mdigits (mant y)) + zlen m' * DW - s) 0
          end).
  { unfold dec_add. destruct (ex <? ey); [|destruct (ey <? ex)]; injection HA as E1 E2 E3; rewrite E1, E2, E3; reflexivity. }
  rewrite E.
  apply (norm_round z (alX x y + alY x y) _ (mag x + mag y) (span x y + 1)); try lia.
  - split; [lia|]. rewrite Z.pow_add_r by lia. lia.
  - rewrite (mag_alX x y), (mag_alY x y). symmetry. apply scaled_add.
Qed.

Lemma usub_correct z x y : WFfin x -> WFfin y -> 1 <= prec z <= MaxPrec ->
  add_span x y + 40 < 4294967296 - 18 -> (mag y < mag x)%Q ->
  exists z', usub z x y = Some z' /\ RoundPost z (mag x - mag y) z'.
Proof.
  intros Hx Hy Hp Hsp Hlt. unfold usub.
  pose proof (align_cases x y Hx Hy) as HA. cbn zeta in HA.
  pose proof (alX_pos x y Hx) as PX. pose proof (alY_pos x y Hy) as PY.
  pose proof (al_bounds x y Hx Hy) as [BX BY]. pose proof (span_le x y) as HS.
  assert (Hgt : alY x y < alX x y).
  { rewrite (mag_alX x y), (mag_alY x y) in Hlt. now apply scaled_lt_same in Hlt. }
  set (ex := exp x - zlen (mant x) * DW) in *. set (ey := exp y - zlen (mant y) * DW) in *.
  assert (Hspan0 : 0 <= span x y).
  { unfold span. destruct (WFfin_len x Hx) as [Hlx HLx]. lia. }
  set (b := Z.min (exp x - mdigits (mant x)) (exp y - mdigits (mant y))) in *.
  assert (E : (if ex <? ey then (dec_sub_chk (mant x) (dec_shl (mant y) (ey - ex)), ex)
               else if ey <? ex then (dec_sub_chk (dec_shl (mant x) (ex - ey)) (mant y), ey)
               else (dec_sub_chk (mant x) (mant y), ex)) =
              (Some (of_Z (alX x y - alY x y)), b)).
  { unfold dec_sub_chk, dec_sub.
    destruct (ex <? ey); [|destruct (ey <? ex)]; injection HA as E1 E2 E3; rewrite E1, E2, E3;
      (destruct (Z.ltb_spec (alX x y) (alY x y)); [lia|reflexivity]). }
  rewrite E.
  destruct (of_Z_pos_facts (alX x y - alY x y) ltac:(lia)) as (Hok & Hne & Hlast & Hval).
  destruct (of_Z (alX x y - alY x y)) as [|w r] eqn:Eo; [congruence|]. rewrite <- Eo.
  apply (norm_round z (alX x y - alY x y) b (mag x - mag y) (span x y)); try lia.
  rewrite (mag_alX x y), (mag_alY x y). fold b. unfold Qminus. rewrite scaled_opp, <- scaled_add. reflexivity.
Qed.

Lemma usub_zero z x y : WFfin x -> WFfin y -> (mag x == mag y)%Q ->
  usub z x y = Some (with_neg (with_form (with_acc (with_mant z []) Exact) Fzero) false).
Proof.
  intros Hx Hy Heq. unfold usub.
  pose proof (align_cases x y Hx Hy) as HA. cbn zeta in HA.
  assert (Hgt : alX x y = alY x y).
  { rewrite (mag_alX x y), (mag_alY x y) in Heq. now apply scaled_eq_same in Heq. }
  set (ex := exp x - zlen (mant x) * DW) in *. set (ey := exp y - zlen (mant y) * DW) in *.
  assert (E : exists b, (if ex <? ey then (dec_sub_chk (mant x) (dec_shl (mant y) (ey - ex)), ex)
               else if ey <? ex then (dec_sub_chk (dec_shl (mant x) (ex - ey)) (mant y), ey)
               else (dec_sub_chk (mant x) (mant y), ex)) = (Some [], b)).
  { unfold dec_sub_chk, dec_sub.
    destruct (ex <? ey); [|destruct (ey <? ex)]; injection HA as E1 E2 E3; rewrite E1, E2; eexists;
      (destruct (Z.ltb_spec (alX x y) (alY x y)); [lia|]);
      rewrite Hgt, Z.sub_diag; reflexivity. }
  destruct E as [b E]. rewrite E. reflexivity.
Qed.

(* ---- signed values and the top-level Add / Sub ---- *)
Definition sval (d : Dec) : Q := if neg d then - mag d else mag d.
Definition qneg (q : Q) : bool := if Qlt_le_dec q 0 then true else false.

Lemma result_spec_ext p md ng v v' z : (v == v')%Q -> result_spec p md ng v z -> result_spec p md ng v' z.
Proof.
  intros Hv [Hn H]. split; [exact Hn|].
  destruct (Qlt_le_dec v (scaled 1 (MinExp - 1))) as [A|A], (Qlt_le_dec v' (scaled 1 (MinExp - 1))) as [A'|A'];
    try (exfalso; rewrite Hv in A; lra).
  - exact H.
  - destruct H as (r & HR & Hr). exists r. split.
    + unfold Rounds in *. eapply RoundsDir_ext; [exact Hv|reflexivity|exact HR].
    + destruct (Qlt_le_dec r (scaled 1 MaxExp)); [|exact Hr].
      destruct Hr as (Hf & Hm & Ha). split; [exact Hf|]. split; [exact Hm|].
      rewrite Ha. apply acc_of_ext; [reflexivity|exact Hv].
Qed.

Lemma fix_zero_sign_id p md ng v z : result_spec p md ng v z -> fix_zero_sign z = z.
Proof.
  intros [_ H]. unfold fix_zero_sign.
  destruct (Qlt_le_dec v (scaled 1 (MinExp - 1))).
  - destruct H as [Hf Ha]. rewrite Hf, Ha. destruct ng; cbn; rewrite ?andb_false_r; reflexivity.
  - destruct H as (r & _ & Hr). destruct (Qlt_le_dec r (scaled 1 MaxExp)).
    + destruct Hr as (Hf & _). rewrite Hf. reflexivity.
    + destruct Hr as (Hf & _). rewrite Hf. reflexivity.
Qed.

Lemma qneg_pos q : (0 < q)%Q -> qneg q = false /\ (Qabs q == q)%Q.
Proof.
  intros H. unfold qneg. destruct (Qlt_le_dec q 0); [lra|]. split; [reflexivity|].
  apply Qabs_pos. lra.
Qed.
Lemma qneg_neg q : (q < 0)%Q -> qneg q = true /\ (Qabs q == - q)%Q.
Proof.
  intros H. unfold qneg. destruct (Qlt_le_dec q 0); [|lra]. split; [reflexivity|].
  apply Qabs_neg. lra.
Qed.

Definition AddPost (p : Z) (md : mode) (q : Q) (r : ores) : Prop :=
  exists z', r = OkR z' /\ prec z' = p /\ dmode z' = md /\ WF z' /\
    ((q == 0)%Q -> dform z' = Fzero /\ acc z' = Exact /\ neg z' = mode_eqb md ToNegativeInf) /\
    (~ (q == 0)%Q -> result_spec p md (qneg q) (Qabs q) z').

Lemma ucmp_sign x y : WFfin x -> WFfin y ->
  (0 <? ucmp x y = true -> (mag y < mag x)%Q) /\
  (0 <? ucmp x y = false -> (mag x <= mag y)%Q).
Proof.
  intros Hx Hy. rewrite (ucmp_spec x y Hx Hy). destruct (mag x ?= mag y)%Q eqn:E; cbn; split; intros; try discriminate.
  - apply Qeq_alt in E. rewrite E. apply Qle_refl.
  - apply Qlt_alt in E. apply Qlt_le_weak. exact E.
  - apply Qgt_alt in E. exact E.
Qed.

Theorem Add_correct zx zy z x y :
  WF x -> WF y -> dform x = Ffinite -> dform y = Ffinite -> 0 <= prec z <= MaxPrec ->
  add_span x y + 40 < 4294967296 - 18 ->
  AddPost (eff_prec z x y) (dmode z) (sval x + sval y) (Add zx zy z x y).
Proof.
  intros Wx Wy Fx Fy Pz Hsp.
  pose proof (WF_finite x Wx Fx) as Hx. pose proof (WF_finite y Wy Fy) as Hy.
  pose proof Hx as [_ _ _ Hpx _ _]. pose proof Hy as [_ _ _ Hpy _ _].
  pose proof (mag_pos x Hx) as Mx. pose proof (mag_pos y Hy) as My.
  assert (Hsp' : add_span y x + 40 < 4294967296 - 18) by (unfold add_span in *; lia).
  unfold Add. rewrite Fx, Fy.
  set (z0 := if prec z =? 0 then with_prec z (umax32 (prec x) (prec y)) else z).
  set (z1 := with_neg z0 (neg x)).
  assert (Hp1 : prec z1 = eff_prec z x y) by (unfold z1, z0, eff_prec; destruct (prec z =? 0); reflexivity).
  assert (Hm1 : dmode z1 = dmode z) by (unfold z1, z0; destruct (prec z =? 0); reflexivity).
  assert (Hpe : 1 <= eff_prec z x y <= MaxPrec).
  { unfold eff_prec. rewrite umax32_spec. destruct (Z.eqb_spec (prec z) 0); lia. }
  unfold sval.
  destruct (Bool.eqb (neg x) (neg y)) eqn:Esign.
  - (* same signs: magnitudes add *)
    apply eqb_prop in Esign.
    destruct (uadd_correct z1 x y Hx Hy ltac:(rewrite Hp1; exact Hpe) Hsp) as (z' & E & HS & Hp & Hm & W).
    rewrite E. rewrite (fix_zero_sign_id _ _ _ _ _ HS).
    exists z'. split; [reflexivity|]. split; [now rewrite Hp|]. split; [now rewrite Hm|]. split; [exact W|].
    rewrite <- Esign. assert (Hpos : (0 < mag x + mag y)%Q) by lra.
    rewrite Hp1, Hm1 in HS. cbn [z1 neg with_neg] in HS.
    destruct (neg x) eqn:Nx.
    + split; [intros C; exfalso; lra|]. intros _.
      destruct (qneg_neg (- mag x + - mag y) ltac:(lra)) as [-> Ha].
      apply (result_spec_ext _ _ _ (mag x + mag y)); [rewrite Ha; ring|exact HS].
    + split; [intros C; exfalso; lra|]. intros _.
      destruct (qneg_pos (mag x + mag y) Hpos) as [-> Ha].
      apply (result_spec_ext _ _ _ (mag x + mag y)); [now rewrite Ha|exact HS].
  - (* opposite signs: magnitudes subtract *)
    apply eqb_false_iff in Esign.
    destruct (ucmp_sign x y Hx Hy) as [Hgt Hle].
    destruct (0 <? ucmp x y) eqn:Ec.
    + specialize (Hgt eq_refl).
      destruct (usub_correct z1 x y Hx Hy ltac:(rewrite Hp1; exact Hpe) Hsp Hgt) as (z' & E & HS & Hp & Hm & W).
      rewrite E. rewrite (fix_zero_sign_id _ _ _ _ _ HS).
      exists z'. split; [reflexivity|]. split; [now rewrite Hp|]. split; [now rewrite Hm|]. split; [exact W|].
      rewrite Hp1, Hm1 in HS. cbn [z1 neg with_neg] in HS.
      destruct (neg x) eqn:Nx, (neg y) eqn:Ny; try congruence.
      * split; [intros C; exfalso; lra|]. intros _.
        destruct (qneg_neg (- mag x + mag y) ltac:(lra)) as [-> Ha].
        apply (result_spec_ext _ _ _ (mag x - mag y)); [rewrite Ha; ring|exact HS].
      * split; [intros C; exfalso; lra|]. intros _.
        destruct (qneg_pos (mag x + - mag y) ltac:(lra)) as [-> Ha].
        apply (result_spec_ext _ _ _ (mag x - mag y)); [rewrite Ha; ring|exact HS].
    + specialize (Hle eq_refl). apply Qle_lt_or_eq in Hle as [Hlt|Heq].
      * set (z2 := with_neg z1 (negb (neg z1))).
        destruct (usub_correct z2 y x Hy Hx ltac:(change (prec z2) with (prec z1); rewrite Hp1; exact Hpe) Hsp' Hlt)
          as (z' & E & HS & Hp & Hm & W).
        rewrite E. rewrite (fix_zero_sign_id _ _ _ _ _ HS).
        change (prec z2) with (prec z1) in *. change (dmode z2) with (dmode z1) in *.
        exists z'. split; [reflexivity|]. split; [now rewrite Hp|]. split; [now rewrite Hm|]. split; [exact W|].
        rewrite Hp1, Hm1 in HS. cbn [z2 z1 neg with_neg] in HS.
        destruct (neg x) eqn:Nx, (neg y) eqn:Ny; try congruence; cbn [negb] in HS.
        -- split; [intros C; exfalso; lra|]. intros _.
           destruct (qneg_pos (- mag x + mag y) ltac:(lra)) as [-> Ha].
           apply (result_spec_ext _ _ _ (mag y - mag x)); [rewrite Ha; ring|exact HS].
        -- split; [intros C; exfalso; lra|]. intros _.
           destruct (qneg_neg (mag x + - mag y) ltac:(lra)) as [-> Ha].
           apply (result_spec_ext _ _ _ (mag y - mag x)); [rewrite Ha; ring|exact HS].
      * (* exact cancellation *)
        rewrite (usub_zero _ y x Hy Hx) by (symmetry; exact Heq).
        eexists. split; [reflexivity|].
        unfold fix_zero_sign. simp_with. cbn [form_eqb acc_eqb andb].
        rewrite andb_true_r. fold (dmode z1). rewrite Hm1. fold (prec z1). rewrite Hp1.
        destruct (mode_eqb (dmode z) ToNegativeInf) eqn:Emd; simp_with.
        -- split; [reflexivity|]. split; [reflexivity|]. split; [apply WF_nonfinite; cbn [dform prec]; [discriminate|lia]|].
           split; [intros _; auto|]. intros C. exfalso. apply C.
           destruct (neg x), (neg y); try congruence; rewrite Heq; ring.
        -- split; [reflexivity|]. split; [reflexivity|]. split; [apply WF_nonfinite; cbn [dform prec]; [discriminate|lia]|].
           split; [intros _; auto|]. intros C. exfalso. apply C.
           destruct (neg x), (neg y); try congruence; rewrite Heq; ring.
Qed.

(* Sub on finite operands is Add with the second operand's sign flipped *)
Lemma Sub_finite_eq zx zy z x y : dform x = Ffinite -> dform y = Ffinite ->
  Sub zx zy z x y = Add zx zy z x (with_neg y (negb (neg y))).
Proof.
  intros Fx Fy. unfold Sub, Add. cbn [dform with_neg neg prec]. rewrite Fx, Fy.
  destruct (neg x), (neg y); reflexivity.
Qed.

Lemma mag_with_neg y b : mag (with_neg y b) = mag y.
Proof. reflexivity. Qed.

Theorem Sub_correct zx zy z x y :
  WF x -> WF y -> dform x = Ffinite -> dform y = Ffinite -> 0 <= prec z <= MaxPrec ->
  add_span x y + 40 < 4294967296 - 18 ->
  AddPost (eff_prec z x y) (dmode z) (sval x - sval y) (Sub zx zy z x y).
Proof.
  intros Wx Wy Fx Fy Pz Hsp. rewrite Sub_finite_eq by assumption.
  set (y' := with_neg y (negb (neg y))).
  pose proof (Add_correct zx zy z x y' Wx (WF_with_neg y _ Wy) Fx Fy Pz Hsp) as H.
  assert (E : (sval x + sval y' == sval x - sval y)%Q).
  { unfold sval, y'. cbn [neg with_neg]. rewrite mag_with_neg. destruct (neg y); cbn [negb]; ring. }
  destruct H as (z' & E1 & Hp & Hm & W & H0 & H1).
  exists z'. split; [exact E1|]. split; [exact Hp|]. split; [exact Hm|]. split; [exact W|]. split.
  - intros C. apply H0. rewrite E. exact C.
  - intros C. assert (C' : ~ (sval x + sval y' == 0)%Q) by (rewrite E; exact C).
    specialize (H1 C').
    assert (Eq : qneg (sval x + sval y') = qneg (sval x - sval y)).
    { unfold qneg. destruct (Qlt_le_dec (sval x + sval y') 0), (Qlt_le_dec (sval x - sval y) 0); try reflexivity; exfalso; lra. }
    rewrite <- Eq. eapply result_spec_ext; [|exact H1]. now rewrite E.
Qed.
