(* L3/ArithProofs.v — the arithmetic operations return the exact result
   rounded once (C01, C02). *)
From Coq Require Import ZArith List Bool Lia QArith Lqa.
From Dec Require Import Base.Words Base.WordsProofs Base.QPow L3.Decimal L3.Cmp L3.CmpProofs
  L3.Round L3.Arith Spec.Rounding Spec.RoundingFacts L3.RoundProofs.
Open Scope Z_scope.

(* ------------------------------------------------------------------ *)
(* dnorm *)

Lemma nlz10_range w : 0 < w < B -> 0 <= nlz10 w <= 18 /\ 10 ^ 18 <= w * 10 ^ nlz10 w < 10 ^ 19 /\
  (w + 1) * 10 ^ nlz10 w <= 10 ^ 19.
Proof.
  intros Hw. unfold nlz10, DW. destruct (ndig_spec w ltac:(lia)) as [Hp [Hl Hh]].
  pose proof (ndig_word_le w ltac:(lia)) as Hd.
  split; [lia|].
  set (d := ndig w) in *.
  assert (0 < 10 ^ (19 - d)) by (apply pow10_pos; lia).
  assert (E18 : 10 ^ 18 = 10 ^ (d - 1) * 10 ^ (19 - d)) by (rewrite <- Z.pow_add_r by lia; f_equal; lia).
  assert (E19 : 10 ^ 19 = 10 ^ d * 10 ^ (19 - d)) by (rewrite <- Z.pow_add_r by lia; f_equal; lia).
  rewrite E18, E19. nia.
Qed.


Lemma last_in_words_ok m : words_ok m = true -> m <> [] -> 0 <= last m 0 < B.
Proof.
  intros Hok Hne. destruct (exists_last Hne) as [l' [a ->]]. rewrite last_last.
  apply words_ok_app in Hok as [_ Ha]. apply words_ok_cons in Ha as [Ha _]. exact Ha.
Qed.

Lemma dnorm_unfold m : m <> [] ->
  dnorm m = (let s := nlz10 (last_word m) in
             if 0 <? s then Some (to_words (length m) (val m * 10 ^ s), s) else Some (m, s)).
Proof. destruct m; [congruence|reflexivity]. Qed.

(* a normalised (no high zero word) non-empty mantissa is shifted so that its
   top word gets a non-zero leading digit; value scaled by 10^s, same length *)
Lemma dnorm_spec m : words_ok m = true -> m <> [] -> last m 0 <> 0 ->
  exists m' s, dnorm m = Some (m', s) /\ 0 <= s <= 18 /\
    val m' = val m * 10 ^ s /\ zlen m' = zlen m /\ words_ok m' = true /\
    m' <> [] /\ B / 10 <= last_word m'.
Proof.
  intros Hok Hne Hnz.
  pose proof (last_in_words_ok m Hok Hne) as Hw.
  destruct (nlz10_range (last m 0) ltac:(lia)) as [Hs [Hrange Hrange2]].
  set (s := nlz10 (last m 0)) in *.
  pose proof (val_ge_last m Hok Hne) as [Hlo Hhi].
  assert (Hlen : 1 <= zlen m) by (destruct m; [congruence|rewrite zlen_cons; pose proof (zlen_nonneg m); lia]).
  assert (HP : 0 < B ^ (zlen m - 1)) by (apply Z.pow_pos_nonneg; [apply B_pos|lia]).
  assert (HB18 : B / 10 = 10 ^ 18) by (rewrite B_eq; reflexivity).
  assert (H10s : 0 < 10 ^ s) by (apply pow10_pos; lia).
  rewrite dnorm_unfold by assumption. cbn zeta. unfold last_word. fold s.
  destruct (Z.ltb_spec 0 s) as [Hpos|Hzero].
  - exists (to_words (length m) (val m * 10 ^ s)), s.
    assert (Hbound : 0 <= val m * 10 ^ s < B ^ Z.of_nat (length m)).
    { split; [pose proof (val_nonneg m Hok); nia|].
      fold (zlen m). replace (zlen m) with (zlen m - 1 + 1) by lia.
      rewrite Z.pow_add_r, Z.pow_1_r by lia. rewrite B_eq at 2.
      apply Z.lt_le_trans with ((last m 0 + 1) * B ^ (zlen m - 1) * 10 ^ s); [nia|].
      replace ((last m 0 + 1) * B ^ (zlen m - 1) * 10 ^ s) with (((last m 0 + 1) * 10 ^ s) * B ^ (zlen m - 1)) by ring.
      rewrite (Z.mul_comm (B ^ (zlen m - 1))). apply Z.mul_le_mono_nonneg_r; lia. }
    split; [reflexivity|]. split; [lia|].
    split; [now apply val_to_words_small|].
    split; [apply zlen_to_words|].
    split; [apply words_ok_to_words|].
    split.
    + intros E. apply (f_equal (@length Z)) in E. rewrite length_to_words in E. unfold zlen in Hlen. cbn in E. lia.
    + unfold last_word. destruct (length m) as [|k] eqn:Ek; [unfold zlen in Hlen; lia|].
      rewrite last_to_words_top by exact Hbound.
      rewrite HB18. apply Z.div_le_lower_bound; [apply Z.pow_pos_nonneg; [apply B_pos|lia]|].
      assert (Z.of_nat k = zlen m - 1) as -> by (unfold zlen; lia).
      nia.
  - assert (s = 0) by lia. exists m, s. split; [reflexivity|]. split; [lia|].
    rewrite H, Z.pow_0_r, Z.mul_1_r. repeat split; try assumption; try reflexivity.
    unfold last_word. rewrite H, Z.pow_0_r, Z.mul_1_r in Hrange. lia.
Qed.

(* ------------------------------------------------------------------ *)
(* setExpAndRound *)

(* normalised mantissa (what dnorm produces) *)
Record NormMant (m : list Z) : Prop := {
  nm_ne : m <> [];
  nm_ok : words_ok m = true;
  nm_top : B / 10 <= last_word m;
  nm_len : mdigits m < 4294967296 - 18
}.

Lemma i32_small e : MinExp <= e <= MaxExp -> i32 e = e.
Proof. unfold i32, MinExp, MaxExp. intros H. rewrite Z.mod_small by lia. lia. Qed.

(* rounding always exists and is at least 10^(e-1) *)
Lemma rounds_exists d p N L x (s : bool) v :
  1 <= p -> 10 ^ (L - 1) <= N < 10 ^ L -> 1 <= L ->
  (scaled N x <= v)%Q -> (v < scaled (N + 1) x)%Q ->
  (s = false -> (v == scaled N x)%Q) -> (s = true -> (scaled N x < v)%Q /\ p < L) ->
  exists r, RoundsDir d p v r /\ (scaled 1 (x + L - 1) <= r)%Q.
Proof.
  intros Hp HN HL Hlo Hhi Hs0 Hs1.
  destruct (Z.le_gt_cases L p) as [C|C].
  - assert (Hs : s = false) by (destruct s; [destruct (Hs1 eq_refl); lia|reflexivity]).
    exists (scaled N x). split.
    + apply (RoundsDir_ext _ _ (scaled N x) v (scaled N x) (scaled N x)); [symmetry; auto|reflexivity|].
      apply (exact_rounds _ p N (p - L) x); try lia.
      replace (p - (p - L) - 1) with (L - 1) by lia. replace (p - (p - L)) with L by lia. exact HN.
    + apply (scaled_le_gen _ _ _ _ x); try lia. rewrite Z.sub_diag, Z.pow_0_r.
      replace (x + L - 1 - x) with (L - 1) by lia. lia.
  - set (k := L - p). assert (Hk : 1 <= k) by (unfold k; lia).
    assert (HNpk : 10 ^ (p + k - 1) <= N < 10 ^ (p + k)) by (replace (p + k) with L by (unfold k; lia); exact HN).
    assert (Hs1' : s = true -> (scaled N x < v)%Q) by (intros E; apply (Hs1 E)).
    pose proof (inc_dec_rounds d p N k x s v Hp Hk HNpk Hlo Hhi Hs0 Hs1') as HR.
    pose proof (M0_bounds p N k Hp Hk HNpk) as HM. cbn zeta in HR.
    eexists. split; [exact HR|].
    apply (scaled_le_gen _ _ _ _ (x + k)); try (unfold k; lia).
    rewrite Z.sub_diag, Z.pow_0_r. replace (x + L - 1 - (x + k)) with (p - 1) by (unfold k; lia).
    destruct (inc_dec d (N / 10 ^ k) (N mod 10 ^ k) (10 ^ k) s); lia.
Qed.

Theorem setExpAndRound_correct z e (s : bool) v :
  NormMant (mant z) -> 1 <= prec z <= MaxPrec ->
  let N := val (mant z) in let x := e - mdigits (mant z) in
  (scaled N x <= v)%Q -> (v < scaled (N + 1) x)%Q ->
  (s = false -> (v == scaled N x)%Q) ->
  (s = true -> (scaled N x < v)%Q /\ prec z < mdigits (mant z)) ->
  exists z', setExpAndRound z e (b2z s) = Some z' /\ RoundPost z v z'.
Proof.
  intros [Hne Hok Htop Hlen] Hp N x Hlo Hhi Hs0 Hs1.
  pose proof (mant_val_bounds (mant z) Hne Hok Htop) as HN. fold N in HN.
  set (L := mdigits (mant z)) in *.
  assert (HL : 19 <= L).
  { unfold L, mdigits. destruct (mant z); [congruence|]. rewrite zlen_cons. pose proof (zlen_nonneg l). cbv [DW]. lia. }
  unfold setExpAndRound.
  destruct (Z.ltb_spec e MinExp) as [Hu|Hnu].
  - (* underflow *)
    eexists. split; [reflexivity|]. unfold RoundPost.
    split; [|split; [reflexivity|split; [reflexivity|]]].
    + unfold result_spec. cbn [neg with_form with_acc]. split; [reflexivity|].
      destruct (Qlt_le_dec v (scaled 1 (MinExp - 1))) as [_|C].
      * cbn [dform acc with_form with_acc]. auto.
      * exfalso.
        assert (v < scaled 1 e)%Q.
        { eapply Qlt_le_trans; [exact Hhi|]. apply (scaled_le_gen _ _ _ _ x); unfold x; try lia.
          rewrite Z.sub_diag, Z.pow_0_r. replace (e - (e - L)) with L by lia. lia. }
        assert (scaled 1 e <= scaled 1 (MinExp - 1))%Q by (apply scaled1_le; lia). lra.
    + apply WF_nonfinite; cbn [dform prec with_form with_acc]; [discriminate|lia].
  - destruct (Z.ltb_spec MaxExp e) as [Ho|Hno].
    + (* overflow before rounding *)
      eexists. split; [reflexivity|]. unfold RoundPost.
      split; [|split; [reflexivity|split; [reflexivity|]]].
      * unfold result_spec. cbn [neg with_form with_acc]. split; [reflexivity|].
        assert (Hvlow : (scaled 1 (e - 1) <= v)%Q).
        { eapply Qle_trans; [|exact Hlo]. apply (scaled_le_gen _ _ _ _ x); unfold x; try lia.
          rewrite Z.sub_diag, Z.pow_0_r. replace (e - 1 - (e - L)) with (L - 1) by lia. lia. }
        destruct (Qlt_le_dec v (scaled 1 (MinExp - 1))) as [C|_].
        { exfalso. assert (scaled 1 (MinExp - 1) <= scaled 1 (e - 1))%Q by (apply scaled1_le; unfold MinExp, MaxExp in *; lia). lra. }
        destruct (rounds_exists (dir_of (dmode z) (neg z)) (prec z) N L x s v ltac:(lia) HN ltac:(lia) Hlo Hhi Hs0 Hs1)
          as [r [HR Hr]].
        exists r. split; [exact HR|].
        destruct (Qlt_le_dec r (scaled 1 MaxExp)) as [C|_].
        { exfalso. replace (x + L - 1) with (e - 1) in Hr by (unfold x; lia).
          assert (scaled 1 MaxExp <= scaled 1 (e - 1))%Q by (apply scaled1_le; lia). lra. }
        cbn [dform acc with_form with_acc]. auto.
      * apply WF_nonfinite; cbn [dform prec with_form with_acc]; [discriminate|lia].
    + rewrite i32_small by lia.
      apply (round_correct (with_exp (with_form z Ffinite) e) s v).
      * constructor; cbn [dform mant prec exp with_exp with_form]; try assumption; try reflexivity; lia.
      * exact Hlo.
      * exact Hhi.
      * exact Hs0.
      * exact Hs1.
Qed.

(* ------------------------------------------------------------------ *)
(* values that need no rounding *)

Definition OpPost (p : Z) (md : mode) (ng : bool) (v : Q) (r : ores) : Prop :=
  exists z', r = OkR z' /\ result_spec p md ng v z' /\ prec z' = p /\ dmode z' = md /\ WF z'.

Lemma mod_pow10_weaken N a b : 0 <= b <= a -> N mod 10 ^ a = 0 -> N mod 10 ^ b = 0.
Proof.
  intros Hab H. assert (0 < 10 ^ b) by (apply pow10_pos; lia).
  assert (0 < 10 ^ a) by (apply pow10_pos; lia).
  apply Z.mod_divide in H; [|lia]. destruct H as [q Hq].
  apply Z.mod_divide; [lia|]. exists (q * 10 ^ (a - b)). rewrite Hq.
  replace a with (a - b + b) at 1 by lia. rewrite Z.pow_add_r by lia. ring.
Qed.

(* a well-formed finite x is its own rounding at any precision >= prec x *)
Lemma repr_rounds d p x : WFfin x -> prec x <= p -> RoundsDir d p (mag x) (mag x).
Proof.
  intros Hx Hp. pose proof (WFfin_val_bounds x Hx) as HN.
  destruct Hx as [Hne Hok Htop Hprec Hexp Htail].
  set (L := mdigits (mant x)) in *. set (N := val (mant x)) in *.
  assert (HL : 19 <= L).
  { unfold L, mdigits. destruct (mant x); [congruence|]. rewrite zlen_cons. pose proof (zlen_nonneg l). cbv [DW]. lia. }
  unfold mag. fold N L.
  destruct (Z.le_gt_cases L p) as [C|C].
  - apply (exact_rounds d p N (p - L)); try lia.
    replace (p - (p - L) - 1) with (L - 1) by lia. replace (p - (p - L)) with L by lia. exact HN.
  - assert (Hmod : N mod 10 ^ (L - p) = 0).
    { destruct Htail as [T|T]; [lia|]. apply (mod_pow10_weaken N (L - prec x)); [lia|exact T]. }
    set (k := L - p) in *. assert (Hk : 1 <= k) by (unfold k; lia).
    assert (HP : 0 < 10 ^ k) by (apply pow10_pos; lia).
    set (N' := N / 10 ^ k).
    assert (EN : N = N' * 10 ^ k).
    { unfold N'. rewrite (Z.div_mod N (10 ^ k)) at 1 by lia. rewrite Hmod. ring. }
    assert (E : (scaled N (exp x - L) == scaled N' (exp x - L + k))%Q).
    { rewrite EN. apply scaled_pow. lia. }
    apply (RoundsDir_ext d p (scaled N' (exp x - L + k)) _ (scaled N' (exp x - L + k)) _); [symmetry; exact E|symmetry; exact E|].
    apply (exact_rounds d p N' 0); try lia. rewrite Z.sub_0_r.
    replace L with (p + k) in HN by (unfold k; lia). rewrite EN in HN.
    replace (p + k - 1) with (p - 1 + k) in HN by lia. rewrite !Z.pow_add_r in HN by lia. nia.
Qed.

(* a finite value that equals x exactly and has Exact accuracy meets the
   specification for the exact value mag x *)
Lemma exact_result_spec p md x z' : WFfin x -> prec x <= p ->
  dform z' = Ffinite -> (mag z' == mag x)%Q -> acc z' = Exact -> neg z' = neg x ->
  result_spec p md (neg x) (mag x) z'.
Proof.
  intros Hx Hp Hf Hm Ha Hn. unfold result_spec. split; [exact Hn|].
  pose proof (mag_bounds x Hx) as [Hlo Hhi]. destruct Hx as [Hne Hok Htop Hprec Hexp Htail] eqn:EHx.
  destruct (Qlt_le_dec (mag x) (scaled 1 (MinExp - 1))) as [C|_].
  { exfalso. assert (scaled 1 (MinExp - 1) <= scaled 1 (exp x - 1))%Q by (apply scaled1_le; lia). lra. }
  exists (mag x). split; [apply repr_rounds; assumption|].
  destruct (Qlt_le_dec (mag x) (scaled 1 MaxExp)) as [_|C].
  - split; [exact Hf|]. split; [exact Hm|]. rewrite Ha. unfold acc_of. now rewrite (Qeq_cmp (mag x) (mag x)) by reflexivity.
  - exfalso. assert (scaled 1 (exp x) <= scaled 1 MaxExp)%Q by (apply scaled1_le; lia). lra.
Qed.

Lemma WF_reprec x p md a : WFfin x -> prec x <= p <= MaxPrec ->
  WF (mkDec (mant x) (exp x) p md a Ffinite (neg x)).
Proof.
  intros [Hne Hok Htop Hprec Hexp Htail] Hp.
  apply WF_intro; cbn [dform mant prec exp]; try assumption; try reflexivity; try lia.
  destruct Htail as [T|T]; [left; lia|].
  destruct (Z.le_gt_cases (mdigits (mant x)) p); [left; assumption|right].
  apply (mod_pow10_weaken _ (mdigits (mant x) - prec x)); [lia|exact T].
Qed.

Lemma WFfin_RoundPre x : WFfin x -> mdigits (mant x) < 4294967296 - 18 -> dform x = Ffinite -> RoundPre x.
Proof. intros [Hne Hok Htop Hprec Hexp Htail] Hl Hf. constructor; assumption. Qed.

(* rounding an existing well-formed value z (exact value = its own magnitude) *)
Lemma round_self z : WFfin z -> dform z = Ffinite -> mdigits (mant z) < 4294967296 - 18 ->
  exists z', round z 0 = Some z' /\ RoundPost z (mag z) z'.
Proof.
  intros Hz Hf Hl. apply (round_correct z false (mag z)).
  - now apply WFfin_RoundPre.
  - apply Qle_refl.
  - unfold mag. apply scaled_lt_same. lia.
  - reflexivity.
  - discriminate.
Qed.

(* ------------------------------------------------------------------ *)
(* Set, Neg, Abs, SetPrec *)

Ltac simp_with :=
  unfold with_prec, with_mant, with_exp, with_neg, with_form, with_acc, with_mode;
  cbn [mant exp prec dmode acc dform neg].

Lemma RoundPost_OpPost z v z' : RoundPost z v z' -> OpPost (prec z) (dmode z) (neg z) v (OkR z').
Proof. intros (H1 & H2 & H3 & H4). exists z'. split; [reflexivity|]. split; [exact H1|]. split; [exact H2|]. split; [exact H3|exact H4]. Qed.

Lemma of_opt_post z sb v : (exists z', round z sb = Some z' /\ RoundPost z v z') ->
  OpPost (prec z) (dmode z) (neg z) v (of_opt (round z sb)).
Proof. intros (z' & E & H). rewrite E. cbn [of_opt]. now apply RoundPost_OpPost. Qed.

Theorem Set_correct same z x :
  WF x -> dform x = Ffinite -> mdigits (mant x) < 4294967296 - 18 ->
  0 <= prec z <= MaxPrec -> (same = true -> z = x) ->
  let p := if prec z =? 0 then prec x else prec z in
  OpPost p (dmode z) (neg x) (mag x) (Set_ same z x).
Proof.
  intros Wx Fx Lx Pz Hsame p. unfold p. clear p. pose proof (WF_finite x Wx Fx) as Hx.
  pose proof Hx as [Hne Hok Htop Hprec Hexp Htail].
  unfold Set_. destruct same.
  - rewrite (Hsame eq_refl) in *. destruct (Z.eqb_spec (prec x) 0); [lia|].
    exists (with_acc x Exact). split; [reflexivity|]. split; [|split; [reflexivity|split; [reflexivity|]]].
    + apply exact_result_spec; cbn [with_acc dform acc neg]; try assumption; try reflexivity; lia.
    + pose proof (WF_reprec x (prec x) (dmode x) Exact Hx ltac:(lia)) as W.
      unfold with_acc. rewrite Fx. exact W.
  - rewrite Fx. cbn [prec with_mant with_exp with_neg with_form with_acc].
    destruct (Z.eqb_spec (prec z) 0) as [E0|E0].
    + eexists. split; [reflexivity|]. simp_with.
      split; [|split; [reflexivity|split; [reflexivity|]]].
      * apply exact_result_spec; cbn [dform acc neg]; try assumption; try reflexivity; try lia.
      * apply WF_reprec; [assumption|lia].
    + destruct (Z.ltb_spec (prec z) (prec x)) as [Hlt|Hge].
      * set (z1 := with_mant (with_exp (with_neg (with_form (with_acc z Exact) Ffinite) (neg x)) (exp x)) (mant x)).
        change (prec z) with (prec z1). change (dmode z) with (dmode z1). change (neg x) with (neg z1).
        apply of_opt_post. apply (round_correct z1 false (mag x)).
        -- constructor; cbn [z1 dform mant prec exp with_mant with_exp with_neg with_form with_acc]; try assumption; try reflexivity; lia.
        -- apply Qle_refl.
        -- unfold mag. cbn [z1 mant exp with_mant with_exp with_neg with_form with_acc]. apply scaled_lt_same. lia.
        -- reflexivity.
        -- discriminate.
      * eexists. split; [reflexivity|]. simp_with.
        split; [|split; [reflexivity|split; [reflexivity|]]].
        -- apply exact_result_spec; cbn [dform acc neg]; try assumption; try reflexivity; try lia.
        -- apply WF_reprec; [assumption|lia].
Qed.

(* Neg and Abs: the value is rounded with x's sign, then the sign is changed *)
Theorem Neg_correct same z x :
  WF x -> dform x = Ffinite -> mdigits (mant x) < 4294967296 - 18 ->
  0 <= prec z <= MaxPrec -> (same = true -> z = x) ->
  let p := if prec z =? 0 then prec x else prec z in
  exists z', Neg_ same z x = OkR (with_neg z' (negb (neg x))) /\
    result_spec p (dmode z) (neg x) (mag x) z' /\ prec z' = p /\ dmode z' = dmode z /\ WF z'.
Proof.
  intros Wx Fx Lx Pz Hsame p.
  destruct (Set_correct same z x Wx Fx Lx Pz Hsame) as (z' & E & HS & Hp & Hm & W).
  exists z'. unfold Neg_. rewrite E. cbn [lift].
  assert (neg z' = neg x) as -> by (destruct HS as [Hn _]; exact Hn).
  split; [reflexivity|]. split; [exact HS|]. split; [exact Hp|]. split; [exact Hm|exact W].
Qed.

Theorem Abs_correct same z x :
  WF x -> dform x = Ffinite -> mdigits (mant x) < 4294967296 - 18 ->
  0 <= prec z <= MaxPrec -> (same = true -> z = x) ->
  let p := if prec z =? 0 then prec x else prec z in
  exists z', Abs_ same z x = OkR (with_neg z' false) /\
    result_spec p (dmode z) (neg x) (mag x) z' /\ prec z' = p /\ dmode z' = dmode z /\ WF z'.
Proof.
  intros Wx Fx Lx Pz Hsame p.
  destruct (Set_correct same z x Wx Fx Lx Pz Hsame) as (z' & E & HS & Hp & Hm & W).
  exists z'. unfold Abs_. rewrite E. cbn [lift].
  split; [reflexivity|]. split; [exact HS|]. split; [exact Hp|]. split; [exact Hm|exact W].
Qed.

(* changing the sign of a canonical value keeps it canonical *)
Lemma WF_with_neg z b : WF z -> WF (with_neg z b).
Proof. unfold WF, wf_b. cbn [with_neg prec dform mant exp]. auto. Qed.

Theorem SetPrec_correct z p' :
  WF z -> dform z = Ffinite -> mdigits (mant z) < 4294967296 - 18 -> 1 <= p' ->
  let p := if MaxPrec <? p' then MaxPrec else p' in
  OpPost p (dmode z) (neg z) (mag z) (SetPrec z p').
Proof.
  intros Wz Fz Lz Hp' p. pose proof (WF_finite z Wz Fz) as Hz.
  pose proof Hz as [Hne Hok Htop Hprec Hexp Htail].
  unfold SetPrec. destruct (Z.eqb_spec p' 0); [lia|]. fold p.
  assert (Hp : 1 <= p <= MaxPrec) by (unfold p; destruct (Z.ltb_spec MaxPrec p'); unfold MaxPrec in *; lia).
  cbn [prec with_acc with_prec].
  destruct (Z.ltb_spec p (prec z)) as [Hlt|Hge].
  - set (z1 := with_prec (with_acc z Exact) p).
    change p with (prec z1) at 1. change (dmode z) with (dmode z1). change (neg z) with (neg z1).
    apply of_opt_post. apply (round_correct z1 false (mag z)).
    + constructor; cbn [z1 dform mant prec exp with_prec with_acc]; try assumption; try lia.
    + apply Qle_refl.
    + unfold mag. cbn [z1 mant exp with_prec with_acc]. apply scaled_lt_same. lia.
    + reflexivity.
    + discriminate.
  - eexists. split; [reflexivity|]. unfold with_prec, with_acc. cbn [mant exp prec dmode acc dform neg]. rewrite Fz.
    split; [|split; [reflexivity|split; [reflexivity|]]].
    + apply exact_result_spec; cbn [dform acc neg]; try assumption; try reflexivity; lia.
    + apply WF_reprec; [assumption|lia].
Qed.
