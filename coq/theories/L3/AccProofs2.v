(* L3/AccProofs2.v — accuracy of the setters named by property C02 (SetInt64,
   SetUint64, NewDecimal, SetInt, SetRat, SetMantExp): corollaries of their
   correctness theorems and of OpPost_acc. *)
From Coq Require Import ZArith List Bool Lia QArith Qabs Lqa.
From Dec Require Import Base.Words Base.QPow L3.Decimal L3.Cmp L3.CmpProofs Spec.Rounding
  L3.Round L3.Arith L3.Convert Spec.RoundingFacts L3.RoundProofs L3.ArithProofs L3.AccProofs
  L3.ConvertProofs L3.ConvProofs2.
Open Scope Z_scope.

Theorem SetInt64_acc z x z' : MinInt64 <= x <= MaxInt64 -> x <> 0 -> 0 <= prec z <= MaxPrec ->
  SetInt64 z x = OkR z' ->
  acc z' = xacc (value z') (if x <? 0 then - scaled (Z.abs x) 0 else scaled (Z.abs x) 0).
Proof.
  intros Hx Hn Pz E. eapply OpPost_acc; [apply SetInt64_correct; eassumption| |exact E].
  apply scaled_pos; lia.
Qed.

Theorem SetUint64_acc z x z' : 0 < x <= MaxUint64 -> 0 <= prec z <= MaxPrec ->
  SetUint64 z x = OkR z' -> acc z' = xacc (value z') (scaled x 0).
Proof.
  intros Hx Pz E. apply (OpPost_acc _ _ false _ _ _ (SetUint64_correct z x Hx Pz)); [|exact E].
  apply scaled_pos; lia.
Qed.

Theorem NewDecimal_acc x e z' : MinInt64 <= x <= MaxInt64 -> x <> 0 ->
  NewDecimal x e = OkR z' ->
  acc z' = xacc (value z') (if x <? 0 then - scaled (Z.abs x) e else scaled (Z.abs x) e).
Proof.
  intros Hx Hn E. eapply OpPost_acc; [apply NewDecimal_correct; eassumption| |exact E].
  apply scaled_pos; lia.
Qed.

Theorem SetInt_acc z x D z' :
  x <> 0 -> Z.abs x < 10 ^ D -> 0 <= D -> D + 19 < 4294967296 - 18 -> 0 <= prec z <= MaxPrec ->
  SetInt z x = OkR z' ->
  acc z' = xacc (value z') (if x <? 0 then - scaled (Z.abs x) 0 else scaled (Z.abs x) 0).
Proof.
  intros Hn HD H0 HL Pz E. eapply OpPost_acc; [eapply SetInt_correct; eassumption| |exact E].
  apply scaled_pos; lia.
Qed.

Theorem SetRat_acc z num den Dn Dd z' :
  num <> 0 -> 1 < den -> Z.abs num < 10 ^ Dn -> den < 10 ^ Dd ->
  0 <= Dn <= MaxExp -> 0 <= Dd <= MaxExp -> 0 <= prec z <= MaxPrec ->
  Dn + Dd + setrat_prec z num den + 76 < 4294967296 - 18 ->
  SetRat z num den = OkR z' ->
  acc z' = xacc (value z') (if num <? 0 then - (inject_Z (Z.abs num) / inject_Z den) else inject_Z (Z.abs num) / inject_Z den).
Proof.
  intros Hn Hd HDn HDd Rn Rd Pz HL E.
  eapply OpPost_acc; [eapply SetRat_correct; eassumption| |exact E].
  apply Qlt_shift_div_l.
  - change 0%Q with (inject_Z 0). rewrite <- Zlt_Qlt. lia.
  - rewrite Qmult_0_l. change 0%Q with (inject_Z 0). rewrite <- Zlt_Qlt. lia.
Qed.

Theorem SetMantExp_acc same z m e z' :
  WF m -> dform m = Ffinite -> mdigits (mant m) < 4294967296 - 18 -> (same = true -> z = m) ->
  SetMantExp same z m e = OkR z' ->
  acc z' = xacc (value z') (if neg m then - (mag m * Qpow10 e) else mag m * Qpow10 e).
Proof.
  intros Wm Fm Lm Hs E. eapply OpPost_acc; [eapply SetMantExp_correct; eassumption| |exact E].
  apply Qmult_lt_0_compat; [apply WF_mag_pos; assumption|apply Qpow10_pos].
Qed.
