(* L3/FloatProofs.v — proofs about the models of the binary floating-point
   conversions (L3/Float.v):
   - SetFloat64 on ±0, ±Inf, NaN, for every receiver (and SetFloat on ±0, ±Inf);
   - precision and mode of the receiver after SetFloat64;
   - computed witnesses: Float64 does not return the nearest binary64 value /
     reports the wrong accuracy (finding K2); SetFloat64 does not store a value
     exactly although the precision holds its expansion (finding K8). *)
From Coq Require Import ZArith List Bool Lia QArith.
From Dec Require Import Base.Words Base.QPow L3.Decimal L3.Cmp L3.Round L3.Arith L3.Convert L3.Bin L3.Float
  L3.Sqrt L3.SqrtProofs.
Open Scope Z_scope.

Definition sf64_prec (z : Dec) : Z := if prec z =? 0 then 17 else prec z.

(* ------------------------------------------------------------------ *)
(* special values *)

Theorem SetFloat64_zero z bits s : fl_of_bits binary64 bits = FlZero s ->
  exists r, SetFloat64 z bits = OkR r /\ dform r = Fzero /\ neg r = s /\ acc r = Exact /\
            prec r = sf64_prec z /\ dmode r = dmode z.
Proof.
  intros E. unfold SetFloat64, SetFloat64_fl, sf64_prec. rewrite E.
  eexists. split; [reflexivity|]. destruct (prec z =? 0); repeat split; reflexivity.
Qed.

Theorem SetFloat64_inf z bits s : fl_of_bits binary64 bits = FlInf s ->
  exists r, SetFloat64 z bits = OkR r /\ dform r = Finf /\ neg r = s /\ acc r = Exact /\
            prec r = sf64_prec z /\ dmode r = dmode z.
Proof.
  intros E. unfold SetFloat64, SetFloat64_fl, sf64_prec. rewrite E.
  eexists. split; [reflexivity|]. destruct (prec z =? 0); repeat split; reflexivity.
Qed.

Theorem SetFloat64_nan z bits : fl_of_bits binary64 bits = FlNaN ->
  exists r, SetFloat64 z bits = NaNR r.
Proof. intros E. unfold SetFloat64, SetFloat64_fl. rewrite E. eexists. reflexivity. Qed.

(* which bit patterns these are *)
Lemma fl_of_bits_cases bits : 0 <= bits < 2 ^ 64 ->
  let s := 2 ^ 63 <=? bits in
  let r := bits mod 2 ^ 63 in
  (r = 0 -> fl_of_bits binary64 bits = FlZero s) /\
  (r = 2047 * 2 ^ 52 -> fl_of_bits binary64 bits = FlInf s) /\
  (2047 * 2 ^ 52 < r -> fl_of_bits binary64 bits = FlNaN) /\
  (0 < r < 2047 * 2 ^ 52 -> exists m e, fl_of_bits binary64 bits = FlFin s m e /\ 0 < m < 2 ^ 53 /\ -1074 <= e <= 971).
Proof.
  intros Hb s r. unfold fl_of_bits.
  change (f_width binary64 - 1) with 63. change (f_p binary64 - 1) with 52.
  change (2 ^ f_ebits binary64 - 1) with 2047. change (f_emin binary64) with (-1074).
  fold s. fold r.
  assert (Hr : 0 <= r < 2 ^ 63) by (apply Z.mod_pos_bound; lia).
  set (P := 2 ^ 52) in *. assert (HP : P = 4503599627370496) by reflexivity.
  assert (H63 : 2 ^ 63 = 2048 * P) by (rewrite HP; reflexivity).
  pose proof (Z.div_mod r P ltac:(lia)) as DM.
  pose proof (Z.mod_pos_bound r P ltac:(lia)) as MB.
  assert (Hq : 0 <= r / P < 2048).
  { split; [apply Z.div_pos; lia|]. apply Z.div_lt_upper_bound; lia. }
  repeat split.
  - intros E. rewrite E. rewrite Z.div_0_l, Z.mod_0_l by lia. reflexivity.
  - intros E. assert (r / P = 2047 /\ r mod P = 0) as [E1 E2].
    { rewrite E. rewrite Z.div_mul, Z.mod_mul by lia. split; reflexivity. }
    rewrite E1, E2. reflexivity.
  - intros Hlt. assert (r / P = 2047 /\ r mod P <> 0) as [E1 E2].
    { assert (r / P = 2047) by (clear - DM MB Hq Hlt Hr H63; nia). split; [assumption|]. clear - DM MB Hlt H; nia. }
    rewrite E1. cbn [Z.eqb Pos.eqb]. destruct (Z.eqb_spec (r mod P) 0); [contradiction|reflexivity].
  - intros [Hlo Hhi].
    destruct (Z.eqb_spec (r / P) 2047) as [E|NE]. { exfalso. clear - E DM MB Hhi. nia. }
    destruct (Z.eqb_spec (r / P) 0) as [E0|NE0].
    + destruct (Z.eqb_spec (r mod P) 0) as [Em|NEm]. { exfalso. clear - E0 Em DM Hlo. nia. }
      exists (r mod P), (-1074). split; [reflexivity|]. rewrite HP in *. lia.
    + exists (P + r mod P), (-1074 + r / P - 1). split; [reflexivity|]. rewrite HP in *. lia.
Qed.

(* SetFloat: ±0 and ±Inf of any precision *)
Theorem SetFloat_special z x : bform x <> Ffinite ->
  exists r, SetFloat z x = OkR r /\ dform r = bform x /\ neg r = bneg x /\ acc r = Exact /\ dmode r = dmode z /\
            (prec z <> 0 -> prec r = prec z).
Proof.
  intros Fx. unfold SetFloat.
  destruct (bform x) eqn:E; [| contradiction |]; eexists; (split; [reflexivity|]);
    destruct (Z.eqb_spec (prec z) 0); repeat split; try reflexivity; try contradiction.
Qed.

(* ------------------------------------------------------------------ *)
(* precision and mode after SetFloat64 (whenever the model returns) *)

Lemma Quo_attrs z x y z' : Quo z x y = OkR z' -> prec z' = mul_prec z x y /\ dmode z' = dmode z.
Proof.
  unfold Quo, mul_prec. intros H.
  set (z1 := if prec z =? 0 then with_prec z (umax32 (prec x) (prec y)) else z) in *.
  assert (E : prec z1 = (if prec z =? 0 then umax32 (prec x) (prec y) else prec z) /\ dmode z1 = dmode z).
  { unfold z1. destruct (prec z =? 0); split; reflexivity. }
  destruct E as [E1 E2]. rewrite <- E1, <- E2. clear E1 E2.
  destruct (dform x), (dform y); try discriminate; try (inversion H; subst; split; reflexivity).
  unfold uquo, of_opt in H.
  destruct (val (mant y) =? 0); [discriminate|].
  destruct (dnorm _) as [[q' s]|]; [|discriminate].
  destruct (setExpAndRound _ _ _) eqn:E; [|discriminate]. inversion H; subst.
  apply setExpAndRound_attrs in E. destruct E as [E1 E2]. split; [rewrite E1|rewrite E2]; reflexivity.
Qed.

Lemma apply_pow2_attrs z e z' : 1 <= prec z <= MaxPrec -> apply_pow2 z e = OkR z' -> same_attrs z' z.
Proof.
  intros Hp. unfold apply_pow2, bindT, bindR, prec_extra.
  set (ex := if prec z <? MaxPrec then 1 else 0).
  assert (Hex : 1 <= prec z + ex <= MaxPrec /\ 0 <= ex <= 1).
  { unfold ex. destruct (Z.ltb_spec (prec z) MaxPrec); lia. }
  assert (U : u32 (prec z + ex) = prec z + ex).
  { unfold u32. apply Z.mod_small. unfold MaxPrec in *. lia. }
  cbn [prec with_prec]. rewrite U.
  set (z1 := with_prec z (prec z + ex)).
  destruct (SetPrec dec_zero _) as [t| |]; try discriminate.
  assert (A : forall r, r = OkR z' \/ True -> True) by auto. clear A.
  assert (K : forall w, (w = Quo z1 z1 \/ w = Mul z1 z1) -> forall pw zz, w pw = OkR zz -> prec zz = prec z + ex /\ dmode zz = dmode z).
  { intros w [-> | ->] pw zz Hq.
    - apply Quo_attrs in Hq. unfold mul_prec in Hq. cbn [prec with_prec z1 dmode] in Hq.
      destruct (Z.eqb_spec (prec z + ex) 0); [lia|]. exact Hq.
    - apply Mul_attrs in Hq. unfold mul_prec in Hq. cbn [prec with_prec z1 dmode] in Hq.
      destruct (Z.eqb_spec (prec z + ex) 0); [lia|]. exact Hq. }
  intros H.
  assert (exists zz, prec zz = prec z + ex /\ dmode zz = dmode z /\ OkR (with_prec zz (u32 (prec zz - ex))) = OkR z') as (zz & Pz & Mz & Hz).
  { destruct (e <? 0).
    - destruct (pow2 t _) as [pw| |]; try discriminate.
      destruct (Quo z1 z1 pw) as [zz| |] eqn:Q; try discriminate.
      destruct (K _ (or_introl eq_refl) pw zz Q). exists zz. auto.
    - destruct (pow2 t _) as [pw| |]; try discriminate.
      destruct (Mul z1 z1 pw) as [zz| |] eqn:Q; try discriminate.
      destruct (K _ (or_intror eq_refl) pw zz Q). exists zz. auto. }
  inversion Hz; subst. split; cbn [prec dmode with_prec]; [|exact Mz].
  rewrite Pz. replace (prec z + ex - ex) with (prec z) by lia.
  unfold u32. apply Z.mod_small. unfold MaxPrec in *. lia.
Qed.

Theorem SetFloat64_attrs z bits z' : 0 <= prec z <= MaxPrec ->
  SetFloat64 z bits = OkR z' -> prec z' = sf64_prec z /\ dmode z' = dmode z.
Proof.
  intros Hp. unfold SetFloat64, SetFloat64_fl, sf64_prec.
  set (z1 := if prec z =? 0 then with_prec z 17 else z).
  assert (E : prec z1 = (if prec z =? 0 then 17 else prec z) /\ dmode z1 = dmode z /\ 1 <= prec z1 <= MaxPrec).
  { unfold z1. destruct (Z.eqb_spec (prec z) 0); cbn [prec dmode with_prec]; repeat split; try lia; unfold MaxPrec; lia. }
  destruct E as (E1 & E2 & E3). rewrite <- E1, <- E2.
  destruct (fl_of_bits binary64 bits) as [s|s| |s m e]; try discriminate;
    try (intros H; inversion H; subst; split; reflexivity).
  destruct (fl_frexp_int binary64 m e) as [M exp2].
  destruct (dnorm (of_Z M)) as [[m' sh]|]; [|discriminate].
  set (z2 := with_exp (with_mant (with_form (with_neg (with_acc z1 Exact) s) Ffinite) m') (i32 (zlen m' * DW - sh))).
  assert (A2 : same_attrs z2 z1) by (split; reflexivity).
  unfold bindR. destruct (exp2 =? 0).
  - unfold of_opt. destruct (round z2 0) eqn:R; [|discriminate]. intros H; inversion H; subst.
    apply round_attrs in R. destruct R, A2. split; congruence.
  - destruct (apply_pow2 z2 exp2) as [z3| |] eqn:AP; try discriminate.
    apply apply_pow2_attrs in AP; [|destruct A2 as [A _]; rewrite A; exact E3].
    unfold of_opt. destruct (round z3 0) eqn:R; [|discriminate]. intros H; inversion H; subst.
    apply round_attrs in R. destruct R, AP, A2. split; congruence.
Qed.

(* ------------------------------------------------------------------ *)
(* finding K2: Float64 goes through a 64-bit big.Float *)

(* the exact value of a finite Decimal as a fraction of integers *)
Definition dec_frac (x : Dec) : Z * Z :=
  let e := exp x - mdigits (mant x) in
  if 0 <=? e then (val (mant x) * 10 ^ e, 1) else (val (mant x), 10 ^ (- e)).
(* the binary64 value nearest to x (ties to even), and the sign of (nearest - x) *)
Definition nearest64 (x : Dec) : fl * accuracy :=
  let '(n, d) := dec_frac x in
  let '(r, c) := fl_round_c binary64 (neg x) n d in (r, acc_of_c c (neg x)).

(* x = 6948775829277607844661e-26 *)
Definition k2_x : Dec := mkDec [6610000000000000000; 6948775829277607844] (-4) 22 ToNearestEven Exact Ffinite false.
(* x = 918521352053565e9 *)
Definition k2_y : Dec := mkDec [9185213520535650000] 24 15 ToNearestEven Exact Ffinite false.

Theorem Float64_not_nearest :
  wf_b k2_x = true /\
  exists r a, Float64 k2_x = Some (r, a) /\ fst (nearest64 k2_x) <> r.
Proof.
  split; [vm_compute; reflexivity|].
  eexists. eexists. split; [vm_compute; reflexivity|]. vm_compute. discriminate.
Qed.

Theorem Float64_wrong_accuracy :
  wf_b k2_y = true /\
  exists r a, Float64 k2_y = Some (r, a) /\ fst (nearest64 k2_y) = r /\ a = Exact /\ snd (nearest64 k2_y) <> Exact.
Proof.
  split; [vm_compute; reflexivity|].
  eexists. eexists. split; [vm_compute; reflexivity|]. vm_compute. repeat split. discriminate.
Qed.

(* ------------------------------------------------------------------ *)
(* finding K8: the scaling power of two is itself rounded.
   SetPrec(1).SetMode(ToPositiveInf).SetFloat64(1.0) = 2 *)
Definition k8_z : Dec := mkDec [] 0 1 ToPositiveInf Exact Fzero false.
Definition k8_bits : Z := 4607182418800017408.        (* 0x3ff0000000000000 = 1.0 *)
Definition k8_r : Dec := Eval vm_compute in ores_get (SetFloat64 k8_z k8_bits).

Theorem SetFloat64_exact_refuted :
  fl_of_bits binary64 k8_bits = FlFin false (2 ^ 52) (-52) /\      (* the value 1, one digit *)
  SetFloat64 k8_z k8_bits = OkR k8_r /\ wf_b k8_r = true /\
  mant k8_r = [2000000000000000000] /\ exp k8_r = 1 /\ acc k8_r = Above.   (* 0.2 * 10^1 = 2 *)
Proof. vm_compute. repeat split. Qed.
